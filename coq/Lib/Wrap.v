(* Fixed-width integer arithmetic over Z with explicit wrap-around. *)
From Coq Require Import ZArith Lia Bool.
Open Scope Z_scope.

Definition wrapu (n : Z) (x : Z) : Z := x mod 2 ^ n.
Definition wraps (n : Z) (x : Z) : Z := (x + 2 ^ (n - 1)) mod 2 ^ n - 2 ^ (n - 1).

Definition cast_u8 := wrapu 8.
Definition cast_u16 := wrapu 16.
Definition cast_u32 := wrapu 32.
Definition cast_u64 := wrapu 64.
Definition cast_usize := wrapu 64.
Definition cast_u128 := wrapu 128.
Definition cast_i8 := wraps 8.
Definition cast_i16 := wraps 16.
Definition cast_i32 := wraps 32.
Definition cast_i64 := wraps 64.
Definition cast_isize := wraps 64.
Definition cast_i128 := wraps 128.

Definition satu (n : Z) (x : Z) : Z := Z.max 0 (Z.min x (2 ^ n - 1)).
Definition sat_u8 := satu 8.
Definition sat_u16 := satu 16.
Definition sat_u32 := satu 32.
Definition sat_u64 := satu 64.
Definition sat_usize := satu 64.

Lemma wrapu_range n x : 0 <= n -> 0 <= wrapu n x < 2 ^ n.
Proof. intros Hn. unfold wrapu. apply Z.mod_pos_bound. apply Z.pow_pos_nonneg; lia. Qed.

Lemma wrapu_small n x : 0 <= x < 2 ^ n -> wrapu n x = x.
Proof. intros H. unfold wrapu. apply Z.mod_small; lia. Qed.

Lemma wraps_range n x : 0 < n -> - 2 ^ (n - 1) <= wraps n x < 2 ^ (n - 1).
Proof.
  intros Hn. unfold wraps.
  assert (H2 : 2 ^ n = 2 * 2 ^ (n - 1)).
  { replace n with (Z.succ (n - 1)) at 1 by lia. rewrite Z.pow_succ_r by lia. reflexivity. }
  assert (Hp : 0 < 2 ^ (n - 1)) by (apply Z.pow_pos_nonneg; lia).
  pose proof (Z.mod_pos_bound (x + 2 ^ (n - 1)) (2 ^ n) ltac:(lia)). lia.
Qed.

Lemma wraps_small n x : 0 < n -> - 2 ^ (n - 1) <= x < 2 ^ (n - 1) -> wraps n x = x.
Proof.
  intros Hn H. unfold wraps.
  assert (H2 : 2 ^ n = 2 * 2 ^ (n - 1)).
  { replace n with (Z.succ (n - 1)) at 1 by lia. rewrite Z.pow_succ_r by lia. reflexivity. }
  rewrite Z.mod_small by lia. lia.
Qed.

Lemma satu_range n x : 0 <= n -> 0 <= satu n x <= 2 ^ n - 1.
Proof. intros Hn. unfold satu. assert (0 < 2 ^ n) by (apply Z.pow_pos_nonneg; lia). lia. Qed.

Ltac unfold_casts :=
  unfold cast_u8, cast_u16, cast_u32, cast_u64, cast_usize, cast_u128,
         cast_i8, cast_i16, cast_i32, cast_i64, cast_isize, cast_i128,
         sat_u8, sat_u16, sat_u32, sat_u64, sat_usize, wrapu, wraps, satu in *.
