(* C08 (part 2) -- model of answer generation in src/peer_connection.rs:

   PeerConnection::set_remote_description(offer)   DTLS role derivation, the handle_reinvite pass
                                                   (matched_rtp_media_sections: direction update),
                                                   the transceiver matching / creation loop
   PeerConnection::create_answer -> build_description(Answer)
                                                   section matching and order, direction mapping
                                                   (answer_direction + sender-less downgrade), media
                                                   profile per mode, populate_media_capabilities
                                                   (apply_config = local capabilities wholesale,
                                                   re-INVITE-only audio intersection, RTX strip /
                                                   merge, extmap echo, DTLS role -> setup), rtcp-mux
                                                   echo, BUNDLE echo, mid clearing

   Abstraction (done by the harness, documented in notes/C08.md): an offer section is
   {kind; mid; direction; numeric formats; resolved audio codecs; fmtp apt pairs; extmap (id, uri
   class); rtcp-mux present; first a=setup}; an answer section is {kind; mid; direction; protocol;
   numeric formats; apt pairs; extmap; rtcp-mux; setup}.  Codec names are compared case-insensitively
   by the code; the harness lower-cases them.  Tables (answer_direction, downgrade, setup <-> role,
   profiles, default capabilities) come from Gen/SdpTables.v.  Definitions only. *)
From Coq Require Import ZArith List Bool String.
From RV Require Import Gen.SdpTables.
Import ListNotations.
Open Scope Z_scope.
Open Scope bool_scope.

Inductive mode : Set := MWebRtc | MSrtp | MRtp.
Inductive uri : Set := URid | URepaired | UAbs | UMid | UOther (n : Z).

Definition uri_eqb (a b : uri) : bool :=
  match a, b with
  | URid, URid | URepaired, URepaired | UAbs, UAbs | UMid, UMid => true
  | UOther x, UOther y => x =? y
  | _, _ => false
  end.

Record codec : Set := mkCodec { cd_pt : Z; cd_name : string; cd_clock : Z; cd_ch : Z }.
Record vcap : Set := mkVcap { vc_pt : Z; vc_rtx : option Z }.

(* c_audio / c_video = [] stands for "media_capabilities None or the list empty": the default capability *)
Record config : Set := mkCfg {
  c_mode : mode; c_legacy : bool; c_mux : bool; c_audio : list codec; c_video : list vcap }.

(* o_port / o_bonly: the port of the m= line and the presence of a=bundle-only (a port-0 m-line without
   bundle-only is a rejected / disabled stream, RFC 3264 5.1, 8.2) *)
Record osec : Set := mkOsecP {
  o_kind : kind; o_mid : string; o_dir : dir; o_pts : list Z; o_codecs : list codec;
  o_apt : list (Z * Z); o_ext : list (Z * uri); o_mux : bool; o_setup : option string;
  o_port : Z; o_bonly : bool }.
Definition mkOsec k m d pts codecs apt ext mux setup : osec := mkOsecP k m d pts codecs apt ext mux setup default_port false.

(* f_groups: the mid lists of the a=group:BUNDLE lines *)
Record offer : Set := mkOffer { f_groups : list (list string); f_sess_setup : option string; f_secs : list osec }.

(* a_port: the port of the answered m= line where the model determines it (WebRTC mode: the constant of
   MediaSection::new, whatever the offered port was); None = a local socket port (RTP / SDES modes) *)
Record asec : Set := mkAsec {
  a_kind : kind; a_mid : string; a_dir : dir; a_proto : string; a_pts : list Z;
  a_apt : list (Z * Z); a_ext : list (Z * uri); a_mux : bool; a_setup : option string; a_port : option Z }.

Record answer : Set := mkAnswer { a_group : option (list string); a_secs : list asec }.

(* AAlloc: build_description would allocate a fresh numeric mid for a matched transceiver
   (never reached from the states the theorems consider; kept so that the model stays total) *)
Inductive ares : Set := AOk (a : answer) | AErr | AAlloc.

Record trx : Set := mkTrx { t_kind : kind; t_mid : option string; t_dir : dir; t_ssrc : bool }.

Record st : Set := mkSt { s_trx : list trx; s_role : option bool; s_local : bool; s_remote : option offer }.

Definition st_init : st := mkSt [] None false None.

(* PeerConnection::add_transceiver: no mid yet; a sending direction pre-allocates the sender SSRC *)
Definition add_transceiver (s : st) (k : kind) (d : dir) : st :=
  mkSt (s_trx s ++ [mkTrx k None d (dir_sends d)]) (s_role s) (s_local s) (s_remote s).

(* ------------------------------------------------------------------ list helpers *)
Fixpoint find_from {A} (p : nat -> A -> bool) (i : nat) (l : list A) : option nat :=
  match l with
  | [] => None
  | x :: r => if p i x then Some i else find_from p (S i) r
  end.
Definition find_idx {A} (p : nat -> A -> bool) (l : list A) : option nat := find_from p 0%nat l.

Fixpoint upd {A} (i : nat) (f : A -> A) (l : list A) : list A :=
  match l, i with
  | [], _ => []
  | x :: r, O => f x :: r
  | x :: r, S j => x :: upd j f r
  end.

Definition used_b (u : list nat) (i : nat) : bool := existsb (Nat.eqb i) u.
Definition str_empty (s : string) : bool := String.eqb s EmptyString.
Definition mid_is (t : trx) (m : string) : bool :=
  match t_mid t with Some x => String.eqb x m | None => false end.
Definition mid_none (t : trx) : bool := match t_mid t with None => true | Some _ => false end.
Definition is_rtp_kind (k : kind) : bool := match k with KAudio | KVideo => true | _ => false end.
Definition orelse {A} (a b : option A) : option A := match a with Some _ => a | None => b end.

(* ------------------------------------------------------------------ set_remote_description *)
(* the role comes from the first media-level a=setup, else from a session-level one (fix aa4c5b4) *)
Definition first_setup (secs : list osec) : option string :=
  fold_right (fun s acc => orelse (o_setup s) acc) None secs.

Definition new_role (c : config) (cur : option bool) (o : offer) : option bool :=
  match cur with
  | Some r => Some r
  | None =>
      match c_mode c with
      | MWebRtc => option_map setup_to_role (orelse (first_setup (f_secs o)) (f_sess_setup o))
      | _ => Some role_non_webrtc
      end
  end.

Definition set_dir_t (d : dir) (t : trx) : trx := mkTrx (t_kind t) (t_mid t) d (t_ssrc t).
Definition set_mid_dir_t (m : string) (d : dir) (t : trx) : trx := mkTrx (t_kind t) (Some m) d (t_ssrc t).

(* handle_reinvite -> matched_rtp_media_sections: mid match (any kind), else first unused same kind;
   application / image sections are skipped; only the direction is (re)written *)
Definition hr_step (tu : list trx * list nat) (sec : osec) : list trx * list nat :=
  let '(ts, u) := tu in
  if is_rtp_kind (o_kind sec) then
    let f1 := if str_empty (o_mid sec) then None
              else find_idx (fun i t => negb (used_b u i) && mid_is t (o_mid sec)) ts in
    let f := orelse f1 (find_idx (fun i t => negb (used_b u i) && kind_eqb (t_kind t) (o_kind sec)) ts) in
    match f with
    | Some i => (upd i (set_dir_t (o_dir sec)) ts, i :: u)
    | None => (ts, u)
    end
  else (ts, u).

(* the "create transceivers for new media sections in Offer" loop *)
Definition sr_step (tu : list trx * list nat) (sec : osec) : list trx * list nat :=
  let '(ts, u) := tu in
  let m := o_mid sec in
  let k := o_kind sec in
  let by_mid := if str_empty m then None
                else find_idx (fun i t => negb (used_b u i) && kind_eqb (t_kind t) k && mid_is t m) ts in
  match by_mid with
  | Some i => (upd i (set_dir_t (o_dir sec)) ts, i :: u)
  | None =>
      match find_idx (fun i t => negb (used_b u i) && mid_none t && kind_eqb (t_kind t) k) ts with
      | Some i => (upd i (set_mid_dir_t m (o_dir sec)) ts, i :: u)
      | None =>
          match (if str_empty m then find_idx (fun i t => negb (used_b u i) && kind_eqb (t_kind t) k) ts else None) with
          | Some i => (upd i (set_dir_t (o_dir sec)) ts, i :: u)
          | None => ((ts ++ [mkTrx k (Some m) (o_dir sec) false])%list, List.length ts :: u)
          end
      end
  end.

Definition sr_pass (ts : list trx) (secs : list osec) : list trx := fst (fold_left sr_step secs (ts, [])).
Definition hr_pass (ts : list trx) (secs : list osec) : list trx := fst (fold_left hr_step secs (ts, [])).

(* `changed` = the new description differs from the stored one (session connection / attributes /
   media sections); an unchanged re-offer only replaces the stored description *)
Definition set_remote (c : config) (s : st) (o : offer) (changed : bool) : st :=
  match s_remote s with
  | Some _ =>
      if changed
      then mkSt (sr_pass (hr_pass (s_trx s) (f_secs o)) (f_secs o)) (new_role c (s_role s) o) (s_local s) (Some o)
      else mkSt (s_trx s) (s_role s) (s_local s) (Some o)
  | None => mkSt (sr_pass (s_trx s) (f_secs o)) (new_role c (s_role s) o) (s_local s) (Some o)
  end.

(* ------------------------------------------------------------------ create_answer *)
(* section matching of build_description(Answer): exact mid (any kind) when the section has a mid,
   first unused same-kind transceiver for mid-less sections; failure = Err *)
Fixpoint amatch (ts : list trx) (u : list nat) (secs : list osec) : option (list nat) :=
  match secs with
  | [] => Some []
  | sec :: r =>
      let f := if str_empty (o_mid sec)
               then find_idx (fun i t => negb (used_b u i) && kind_eqb (t_kind t) (o_kind sec)) ts
               else find_idx (fun i t => negb (used_b u i) && mid_is t (o_mid sec)) ts in
      match f with
      | Some i => option_map (cons i) (amatch ts (i :: u) r)
      | None => None
      end
  end.

Definition lookup_mid (secs : list osec) (m : string) : option osec :=
  find (fun s => String.eqb (o_mid s) m) secs.

Definition ans_dir (t : trx) (remote : list osec) (m : string) : dir :=
  let d := answer_direction (t_dir t) in
  let expects := match lookup_mid remote m with Some s => remote_expects (o_dir s) | None => false end in
  if dir_sends d && negb (t_ssrc t) && is_rtp_kind (t_kind t) && negb expects then dir_downgrade d else d.

Definition ans_proto (c : config) (k : kind) : string :=
  match k with
  | KApplication => proto_sctp
  | KImage => proto_udptl
  | _ => match c_mode c with MWebRtc => proto_default | MSrtp => proto_srtp | MRtp => proto_rtp end
  end.

Definition eff_audio (c : config) : list codec :=
  match c_audio c with
  | [] => [mkCodec default_audio_pt default_audio_name default_audio_clock default_audio_channels]
  | l => l
  end.
Definition eff_video (c : config) : list vcap :=
  match c_video c with [] => [mkVcap default_video_pt None] | l => l end.

Definition codec_match (l r : codec) : bool :=
  String.eqb (cd_name l) (cd_name r) && (cd_clock l =? cd_clock r) && (cd_ch l =? cd_ch r).
(* derive_answer_audio_capabilities: remote order, remote payload types *)
Definition derive (remote local : list codec) : list Z :=
  flat_map (fun rc => if existsb (fun lc => codec_match lc rc) local then [cd_pt rc] else []) remote.

Definition audio_pts (c : config) (has_local : bool) (remote : list osec) (m : string) : list Z :=
  let base := map cd_pt (eff_audio c) in
  if has_local then
    let rs := if str_empty m then find (fun s => kind_eqb (o_kind s) KAudio) remote
              else find (fun s => kind_eqb (o_kind s) KAudio && String.eqb (o_mid s) m) remote in
    match rs with
    | Some s => match derive (o_codecs s) (eff_audio c) with [] => base | l => l end
    | None => base
    end
  else base.

Definition zmem (x : Z) (l : list Z) : bool := existsb (Z.eqb x) l.
Definition opt_list {A} (o : option A) : list A := match o with Some x => [x] | None => [] end.

(* HashMap<rtx pt, primary pt> built by inserting the fmtp apt pairs in attribute order *)
Fixpoint amap_get (r : Z) (l : list (Z * Z)) : option Z :=
  match l with
  | [] => None
  | (k, v) :: rest => match amap_get r rest with Some x => Some x | None => if k =? r then Some v else None end
  end.
Definition amap_has (r : Z) (l : list (Z * Z)) : bool := existsb (fun kv => fst kv =? r) l.
(* rtx_pt_for_primary: some key mapped to p (HashMap iteration order is unspecified; the model takes
   the first in attribute order -- unique whenever no two RTX types share a primary) *)
Definition rtx_for (p : Z) (l : list (Z * Z)) : option Z :=
  option_map fst (find (fun kv => match amap_get (fst kv) l with Some v => v =? p | None => false end) l).

(* apply_video_config; strip_rtx_from_section; merge_remote_rtx_into_answer *)
Definition video_base (c : config) : list Z :=
  let caps := eff_video c in
  let local_rtx := flat_map (fun v => opt_list (vc_rtx v)) caps in
  filter (fun pt => negb (zmem pt local_rtx)) (map vc_pt caps).

Fixpoint merge_rtx (prims : list Z) (apt : list (Z * Z)) (fmts : list Z) (acc : list (Z * Z)) : list Z * list (Z * Z) :=
  match prims with
  | [] => (fmts, acc)
  | p :: r =>
      match rtx_for p apt with
      | Some x =>
          let fmts' := if zmem x fmts then fmts else fmts ++ [x] in
          let acc' := if existsb (fun kv => fst kv =? x) acc then acc else acc ++ [(x, p)] in
          merge_rtx r apt fmts' acc'
      | None => merge_rtx r apt fmts acc
      end
  end.

Definition video_pts_apt (c : config) (remote : list osec) (m : string) : list Z * list (Z * Z) :=
  let base := video_base c in
  match orelse (lookup_mid remote m) (find (fun s => kind_eqb (o_kind s) KVideo) remote) with
  | Some rs =>
      match o_apt rs with
      | [] => (base, [])
      | apt => merge_rtx (filter (fun pt => negb (amap_has pt apt)) base) apt base []
      end
  | None => (base, [])
  end.

Definition ext_lookup (rs : option osec) (u : uri) : list (Z * uri) :=
  match rs with
  | Some s => match find (fun e => uri_eqb (snd e) u) (o_ext s) with Some e => [(fst e, u)] | None => [] end
  | None => []
  end.

Definition ans_ext (c : config) (k : kind) (remote : list osec) (m : string) : list (Z * uri) :=
  let rs := lookup_mid remote m in
  (match k with KVideo => ext_lookup rs URid ++ ext_lookup rs URepaired | _ => [] end)
  ++ ext_lookup rs UAbs
  ++ (if c_legacy c then [] else ext_lookup rs UMid).

Definition ans_setup (c : config) (role : option bool) : option string :=
  match c_mode c with MWebRtc => Some (role_to_setup role) | _ => None end.

(* one answer section, before the final mid clearing; None = the matched transceiver has no mid *)
Definition build_sec (c : config) (s : st) (remote : list osec) (t : trx) (sec : osec) : option asec :=
  match t_mid t with
  | None => None
  | Some m =>
      let k := t_kind t in
      let '(pts, apt) :=
        match k with
        | KAudio => (audio_pts c (s_local s) remote m, [])
        | KVideo => video_pts_apt c remote m
        | _ => ([], [])
        end in
      Some (mkAsec k m (ans_dir t remote m) (ans_proto c k) pts apt (ans_ext c k remote m)
                   (is_rtp_kind k && c_mux c && negb (c_legacy c) && o_mux sec)
                   (ans_setup c (s_role s))
                   (match c_mode c with MWebRtc => Some default_port | _ => None end))
  end.

Fixpoint build_secs (c : config) (s : st) (remote : list osec) (idx : list nat) (secs : list osec) : option (list asec) :=
  match idx, secs with
  | i :: ir, sec :: sr =>
      match nth_error (s_trx s) i with
      | Some t =>
          match build_sec c s remote t sec, build_secs c s remote ir sr with
          | Some a, Some r => Some (a :: r)
          | _, _ => None
          end
      | None => None
      end
  | _, _ => Some []
  end.

Definition clear_mid (a : asec) : asec :=
  mkAsec (a_kind a) EmptyString (a_dir a) (a_proto a) (a_pts a) (a_apt a) (a_ext a) (a_mux a) (a_setup a) (a_port a).

(* since ca1331b an answer echoes an offered BUNDLE group in every compatibility mode (LegacySip only
   keeps the stack from proposing a group in its own offers) *)
Definition will_bundle (c : config) (o : offer) : bool :=
  match f_groups o with [] => false | _ => true end.

Definition finish_answer (c : config) (o : offer) (secs : list asec) : answer :=
  match secs with
  | [] => mkAnswer None []
  | _ =>
      let wb := will_bundle c o in
      let grp := if wb then Some (map a_mid secs) else None in
      if c_legacy c && negb wb then mkAnswer grp (map clear_mid secs)
      else if negb wb && (1 <? Z.of_nat (List.length secs)) then mkAnswer grp (map clear_mid secs)
      else mkAnswer grp secs
  end.

Definition create_answer (c : config) (s : st) : ares :=
  match s_trx s, s_remote s with
  | [], _ => AErr
  | _, None => AErr
  | _, Some o =>
      match amatch (s_trx s) [] (f_secs o) with
      | None => AErr
      | Some idx =>
          match build_secs c s (f_secs o) idx (f_secs o) with
          | Some secs => AOk (finish_answer c o secs)
          | None => AAlloc
          end
      end
  end.

(* one negotiation round as the answerer: set_remote_description(offer); create_answer();
   set_local_description(answer) *)
Definition negotiate (c : config) (s : st) (o : offer) (changed : bool) : st * ares :=
  let s1 := set_remote c s o changed in
  let r := create_answer c s1 in
  (match r with AOk _ => mkSt (s_trx s1) (s_role s1) true (s_remote s1) | _ => s1 end, r).

(* ------------------------------------------------------------------ valid_answer (RFC 3264 / JSEP / property text) *)
Definition dir_compat (offered answered : dir) : bool :=
  match offered with
  | DSendRecv => true
  | DSendOnly => match answered with DRecvOnly | DInactive => true | _ => false end
  | DRecvOnly => match answered with DSendOnly | DInactive => true | _ => false end
  | DInactive => match answered with DInactive => true | _ => false end
  end.

(* RFC 4145 / 5763: offer active -> answer passive; passive -> active; actpass -> either;
   holdconn (or anything else) -> nothing the answerer may pick among active / passive *)
Definition setup_ok (offered answered : string) : bool :=
  if String.eqb offered "active" then String.eqb answered "passive"
  else if String.eqb offered "passive" then String.eqb answered "active"
  else if String.eqb offered "actpass" then String.eqb answered "active" || String.eqb answered "passive"
  else false.

Definition pair_eqb (a b : Z * Z) : bool := (fst a =? fst b) && (snd a =? snd b).
Definition ext_eqb (a b : Z * uri) : bool := (fst a =? fst b) && uri_eqb (snd a) (snd b).
Definition subset {A} (e : A -> A -> bool) (l1 l2 : list A) : bool := forallb (fun x => existsb (e x) l2) l1.
Fixpoint nodup_z (l : list Z) : bool :=
  match l with [] => true | x :: r => negb (zmem x r) && nodup_z r end.

Definition v_sec_struct (o : osec) (a : asec) : bool := kind_eqb (o_kind o) (a_kind a) && String.eqb (o_mid o) (a_mid a).
Definition v_sec_pts (o : osec) (a : asec) : bool := subset Z.eqb (a_pts a) (o_pts o).
Definition v_sec_rtx (o : osec) (a : asec) : bool := subset pair_eqb (a_apt a) (o_apt o).
Definition v_sec_ext (o : osec) (a : asec) : bool := subset ext_eqb (a_ext a) (o_ext o) && nodup_z (map fst (a_ext a)).
Definition v_sec_mux (o : osec) (a : asec) : bool := implb (a_mux a) (o_mux o).
Definition v_sec_dir (o : osec) (a : asec) : bool := dir_compat (o_dir o) (a_dir a).
Definition v_sec_setup (sess : option string) (o : osec) (a : asec) : bool :=
  match a_setup a with
  | None => true                                    (* no DTLS in this mode *)
  | Some s =>
      (String.eqb s "active" || String.eqb s "passive") &&
      match orelse (o_setup o) sess with Some v => setup_ok v s | None => true end
  end.

(* RFC 3264 section 6: a stream offered with port zero (and not bundle-only) MUST be answered with port zero *)
Definition rejected (o : osec) : bool := (o_port o =? 0) && negb (o_bonly o).
Definition v_sec_port (o : osec) (a : asec) : bool :=
  if rejected o then match a_port a with Some p => p =? 0 | None => true end else true.

Fixpoint forall2b {A B} (f : A -> B -> bool) (l1 : list A) (l2 : list B) : bool :=
  match l1, l2 with
  | [], [] => true
  | x :: r1, y :: r2 => f x y && forall2b f r1 r2
  | _, _ => false
  end.

Definition v_bundle (o : offer) (a : answer) : bool :=
  match a_group a with
  | None => true
  | Some g => subset String.eqb g (List.concat (f_groups o))
  end.

Definition valid_answer (o : offer) (a : answer) : bool :=
  forall2b (fun x y => v_sec_struct x y && v_sec_pts x y && v_sec_rtx x y && v_sec_ext x y && v_sec_mux x y
                       && v_sec_dir x y && v_sec_setup (f_sess_setup o) x y && v_sec_port x y) (f_secs o) (a_secs a)
  && v_bundle o a.

(* ------------------------------------------------------------------ boolean equality (model runner) *)
Definition opt_eqb {A} (e : A -> A -> bool) (a b : option A) : bool :=
  match a, b with None, None => true | Some x, Some y => e x y | _, _ => false end.
Fixpoint list_eqb {A} (e : A -> A -> bool) (a b : list A) : bool :=
  match a, b with
  | [], [] => true
  | x :: a', y :: b' => e x y && list_eqb e a' b'
  | _, _ => false
  end.
Definition asec_eqb (x y : asec) : bool :=
  kind_eqb (a_kind x) (a_kind y) && String.eqb (a_mid x) (a_mid y) && dir_eqb (a_dir x) (a_dir y)
  && String.eqb (a_proto x) (a_proto y) && list_eqb Z.eqb (a_pts x) (a_pts y)
  && list_eqb pair_eqb (a_apt x) (a_apt y) && list_eqb ext_eqb (a_ext x) (a_ext y)
  && Bool.eqb (a_mux x) (a_mux y) && opt_eqb String.eqb (a_setup x) (a_setup y) && opt_eqb Z.eqb (a_port x) (a_port y).
Definition answer_eqb (x y : answer) : bool :=
  opt_eqb (list_eqb String.eqb) (a_group x) (a_group y) && list_eqb asec_eqb (a_secs x) (a_secs y).
