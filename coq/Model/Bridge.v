(* C19 (part 2) -- model of the RTP rewrite bridge of src/transports/rtp.rs:
   RewriteBridge::{rule_for, target_for, rewrite_packet} (per-source-SSRC StreamRewriteState:
   output SSRC, sequence counter, last source timestamp, timestamp offset; the discontinuity
   re-base; the initial-output-timestamp option with its marker; extension stripping; SDES-MID
   stamping through RtpHeader::set_extension at the level of extension elements) and
   RtpRewriteRule::from_params.

   Definitions only; proofs live in Proofs/BridgeProofs.v.

   The numeric constants (backward bound 2^31, discontinuity threshold 900000, re-base step 3000,
   sequence step 1, set_extension's id / length limits and profile) are NOT written here: they are
   Gen.RtpBridge.*, regenerated from the source on every run.
   Randomness: when initial_sequence_number / initial_timestamp_offset are None the code draws
   random_u32() for a new source stream; the draws travel with the input (`i_r16`, `i_r32`) so the
   theorems quantify over all of them (the harness always sets the options).
   Header extensions are the raw block (profile, data bytes); SDES-MID stamping is the byte-level
   `set_extension` of C15's Model/Rtp.v (imported, not copied).
   Transport level (`tstep`): installing a bridge (fresh per-source state, whatever was there),
   clearing it (packets go to the listeners again), packets that fail the source's SRTP unprotect /
   parse (dropped before anything else, no state change), and the target's SRTP mode: the
   rewritten plaintext packet is protected with the target's session when there is one; a target
   that requires SRTP but has no session yet swallows the packet AFTER it was rewritten (the
   stream's sequence counter has advanced).  SRTP itself is C04/C05; here it is the identity on the
   plaintext stream, which the harness checks with a reference unprotect on the target socket.
   Not modelled: observers, counters, the socket send. *)
From Coq Require Import ZArith List Bool.
From RV Require Import Lib.Wrap.
From RV Require Import Gen.RtpBridge.
From RV Require Model.RtpLib.
From RV Require Model.Rtp.
Import ListNotations.
Open Scope Z_scope.
Open Scope bool_scope.

Definition bext : Set := (Z * list Z)%type.     (* profile, raw extension data *)

Record bpkt : Set := mkBPkt {
  q_ssrc : Z; q_pt : Z; q_seq : Z; q_ts : Z; q_marker : bool; q_ext : option bext }.

Record rule : Set := mkRule {
  m_pt : option Z;            (* match_payload_type *)
  fixed_ssrc : option Z;      (* fixed_out_ssrc *)
  ssrc_off : Z;               (* ssrc_offset *)
  out_pt : option Z;          (* out_payload_type *)
  mid_ext_id : option Z;      (* sdes_mid_extension_id *)
  mid_val : option (list Z) }.  (* sdes_mid *)

Record bopts : Set := mkOpts {
  o_strip : bool; o_init_seq : option Z; o_init_off : option Z; o_init_out_ts : option Z }.

Record sstate : Set := mkSS { out_ssrc : Z; next_seq : Z; last_ts : option Z; ts_off : Z }.

Record bridge : Set := mkBridge {
  b_opts : bopts; b_rules : list rule; b_video_pts : list Z; b_has_video : bool;
  b_streams : list (Z * sstate) }.

(* one arriving packet together with the two random draws a new stream would use *)
Record bin : Set := mkBin { i_pkt : bpkt; i_r16 : Z; i_r32 : Z }.

Definition sget (m : list (Z * sstate)) (k : Z) : option sstate :=
  option_map snd (find (fun e => fst e =? k) m).
Definition sput (m : list (Z * sstate)) (k : Z) (v : sstate) : list (Z * sstate) := (k, v) :: m.

Definition opt_eqb (a : option Z) (b : Z) : bool :=
  match a with Some x => x =? b | None => false end.
Definition is_none (a : option Z) : bool := match a with Some _ => false | None => true end.

(* exact payload-type match first, else the first catch-all *)
Definition rule_for (rules : list rule) (pt : Z) : option rule :=
  match find (fun r => opt_eqb (m_pt r) pt) rules with
  | Some r => Some r
  | None => find (fun r => is_none (m_pt r)) rules
  end.

(* target_for: the video destination iff the ORIGINAL payload type is a video one and a video
   target exists *)
Definition is_video (b : bridge) (pt : Z) : bool :=
  existsb (Z.eqb pt) (b_video_pts b) && b_has_video b.

Definition out_ssrc0 (rules : list rule) (q : bpkt) : Z :=
  match rule_for rules (q_pt q) with
  | Some r => match fixed_ssrc r with Some f => f | None => cast_u32 (q_ssrc q + ssrc_off r) end
  | None => q_ssrc q
  end.

Definition out_pt_of (rules : list rule) (pt : Z) : Z :=
  match rule_for rules pt with
  | Some r => match out_pt r with Some p => p | None => pt end
  | None => pt
  end.

Definition fresh (b : bridge) (i : bin) : sstate :=
  mkSS (out_ssrc0 (b_rules b) (i_pkt i))
       (match o_init_seq (b_opts b) with Some v => v | None => cast_u16 (i_r16 i) end)
       None
       (match o_init_off (b_opts b) with Some v => v | None => cast_u32 (i_r32 i) end).

Definition stream_of (b : bridge) (i : bin) : sstate :=
  match sget (b_streams b) (q_ssrc (i_pkt i)) with Some ss => ss | None => fresh b i end.

(* forward jump beyond the threshold, measured from the last source timestamp that advanced *)
Definition rebase (d : Z) : bool := (d <? bridge_backward_bound) && (bridge_discontinuity_threshold <? d).

Definition new_off (o : bopts) (ss : sstate) (ts : Z) : Z :=
  match last_ts ss with
  | Some l =>
      if rebase (cast_u32 (ts - l))
      then cast_u32 (cast_u32 (cast_u32 (l + ts_off ss) + bridge_rebase_step) - ts)
      else ts_off ss
  | None =>
      match o_init_out_ts o with Some d => cast_u32 (d - ts) | None => ts_off ss end
  end.

Definition new_last (ss : sstate) (ts : Z) : option Z :=
  match last_ts ss with
  | Some l => if cast_u32 (ts - l) <? bridge_backward_bound then Some ts else Some l
  | None => Some ts
  end.

Definition new_marker (o : bopts) (ss : sstate) (m : bool) : bool :=
  match last_ts ss, o_init_out_ts o with
  | None, Some _ => true
  | _, _ => m
  end.

Definition next_state (o : bopts) (ss : sstate) (ts : Z) : sstate :=
  mkSS (out_ssrc ss) (cast_u16 (next_seq ss + bridge_seq_step)) (new_last ss ts) (new_off o ss ts).

(* `let _ = packet.header.set_extension(ext_id, mid)`: byte-level model of C15; on Err the header
   is unchanged *)
Definition hdr_of (q : bpkt) : Rtp.header :=
  Rtp.mkHdr (q_marker q) (q_pt q) (q_seq q) (q_ts q) (q_ssrc q) []
            (match q_ext q with Some (prof, d) => Some (Rtp.mkExt prof d) | None => None end).
Definition ext_of (h : Rtp.header) : option bext :=
  match Rtp.h_ext h with Some e => Some (Rtp.x_profile e, Rtp.x_data e) | None => None end.
Definition stamp (id : Z) (mid : list Z) (q : bpkt) : option bext :=
  match Rtp.set_extension (hdr_of q) id mid with
  | RtpLib.Ok h' => ext_of h'
  | _ => q_ext q
  end.

Definition out_ext (b : bridge) (q : bpkt) : option bext :=
  if o_strip (b_opts b) then None
  else match rule_for (b_rules b) (q_pt q) with
       | Some r =>
           match mid_ext_id r, mid_val r with
           | Some id, Some mid => stamp id mid q
           | _, _ => q_ext q
           end
       | None => q_ext q
       end.

Definition out_pkt (b : bridge) (i : bin) (ss : sstate) : bpkt :=
  let q := i_pkt i in
  mkBPkt (out_ssrc ss) (out_pt_of (b_rules b) (q_pt q)) (next_seq ss)
         (cast_u32 (q_ts q + new_off (b_opts b) ss (q_ts q)))
         (new_marker (b_opts b) ss (q_marker q))
         (out_ext b q).

Definition set_streams (b : bridge) (m : list (Z * sstate)) : bridge :=
  mkBridge (b_opts b) (b_rules b) (b_video_pts b) (b_has_video b) m.

(* rewrite_packet: new bridge state and the forwarded packet *)
Definition bstep (b : bridge) (i : bin) : bridge * bpkt :=
  let ss := stream_of b i in
  (set_streams b (sput (b_streams b) (q_ssrc (i_pkt i)) (next_state (b_opts b) ss (q_ts (i_pkt i)))),
   out_pkt b i ss).

(* the whole run: for every arriving packet the forwarded packet *)
Fixpoint btrace (b : bridge) (ins : list bin) : list (bin * bpkt) :=
  match ins with
  | [] => []
  | i :: rest => (i, snd (bstep b i)) :: btrace (fst (bstep b i)) rest
  end.

Definition src_is (x : Z) (i : bin) : bool := q_ssrc (i_pkt i) =? x.
(* the part of a trace that belongs to source SSRC x *)
Definition of_src (x : Z) (tr : list (bin * bpkt)) : list (bin * bpkt) :=
  filter (fun e => src_is x (fst e)) tr.

(* observation compared with the implementation: (went to the video target?, forwarded packet) *)
Fixpoint bobs (b : bridge) (ins : list bin) : list (bool * bpkt) :=
  match ins with
  | [] => []
  | i :: rest => (is_video b (q_pt (i_pkt i)), snd (bstep b i)) :: bobs (fst (bstep b i)) rest
  end.

(* RtpRewriteRule::from_params: catch-all rule plus, when configured, the DTMF rule *)
Definition rules_from_params (ssrc_offset : Z) (fixed : option Z) (pt : option Z)
                             (dtmf : option (Z * Z)) : list rule :=
  mkRule None fixed ssrc_offset pt None None ::
  match dtmf with
  | Some (s, d) => [mkRule (Some s) fixed ssrc_offset (Some d) None None]
  | None => []
  end.

(* ------------------------------------------------------------------ transport level *)
Inductive tmode : Set :=
| TPlain       (* no SRTP session, SRTP not required: marshal and send *)
| TSrtp        (* SRTP session installed: protect and send *)
| TNeedSrtp.   (* srtp_required, no session yet: drop *)

Record tst : Set := mkT { t_bridge : option bridge; t_main : tmode; t_video : tmode }.

Inductive bop : Set :=
| BSet (b : bridge)            (* bridge_rewrite_*_to*: a new RewriteBridge, no per-source state *)
| BClear                       (* clear_bridge_rewrite *)
| BStartSrtp (video : bool)    (* start_srtp on the main / video target *)
| BPkt (i : bin) (auth : bool). (* arriving packet; auth = it parsed and passed the source's SRTP
                                   unprotect (always true for well-formed RTP on a plain source) *)

Inductive bout : Set :=
| Forwarded (video : bool) (o : bpkt)   (* sent to the target (plaintext shown) *)
| Consumed (o : bpkt)                   (* rewritten, then dropped: target requires SRTP, no session *)
| ToListeners                           (* no bridge: handed to the demultiplexer *)
| Rejected                              (* failed unprotect / parse: dropped, nothing touched *)
| NoOut.                                (* configuration operation *)

Definition fresh_bridge (b : bridge) : bridge := set_streams b [].

Definition tstep (s : tst) (o : bop) : tst * bout :=
  match o with
  | BSet b => (mkT (Some (fresh_bridge b)) (t_main s) (t_video s), NoOut)
  | BClear => (mkT None (t_main s) (t_video s), NoOut)
  | BStartSrtp v => (if v then mkT (t_bridge s) (t_main s) TSrtp else mkT (t_bridge s) TSrtp (t_video s), NoOut)
  | BPkt i auth =>
      if negb auth then (s, Rejected)
      else match t_bridge s with
           | None => (s, ToListeners)
           | Some b =>
               let v := is_video b (q_pt (i_pkt i)) in
               let r := bstep b i in
               (mkT (Some (fst r)) (t_main s) (t_video s),
                match (if v then t_video s else t_main s) with
                | TNeedSrtp => Consumed (snd r)
                | _ => Forwarded v (snd r)
                end)
           end
  end.

Fixpoint trun (s : tst) (ops : list bop) : list bout :=
  match ops with
  | [] => []
  | o :: rest => snd (tstep s o) :: trun (fst (tstep s o)) rest
  end.

(* the packets the bridge rewrote, in order (forwarded or swallowed by an SRTP-less target) *)
Fixpoint rewritten (outs : list bout) : list bpkt :=
  match outs with
  | [] => []
  | Forwarded _ o :: rest => o :: rewritten rest
  | Consumed o :: rest => o :: rewritten rest
  | _ :: rest => rewritten rest
  end.
(* the authenticated arrivals of an operation list *)
Fixpoint auth_ins (ops : list bop) : list bin :=
  match ops with
  | [] => []
  | BPkt i true :: rest => i :: auth_ins rest
  | _ :: rest => auth_ins rest
  end.
Definition keeps_bridge (o : bop) : bool :=
  match o with BSet _ | BClear => false | _ => true end.
