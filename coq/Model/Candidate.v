(* C16 -- token-level model of IceCandidate::to_sdp / IceCandidate::from_sdp
   (src/transports/ice/mod.rs), after the `fix:` commit that parses raddr/rport.

   A candidate line is the list of its whitespace-separated pieces.  A piece is a word (its
   bytes) or an IP literal: the harness lexer classifies a piece as TIp4 / TIp6 exactly when the
   expression from_sdp itself uses, "<piece>:<port>" resp. "[<piece>]:<port>" parsed as a
   SocketAddr, succeeds (std's address parser and Display are trusted, not modelled); TIp6
   remembers whether the text carried a %scope suffix (accepted inside a SocketAddrV6, rejected
   by IpAddr::from_str which raddr uses).  Decimal numbers are modelled concretely
   (u16/u32::from_str: optional '+', at least one digit, no overflow; Display: canonical).

   String-level facts not modelled: pieces contain no whitespace, `join(" ")`/`split_whitespace`
   are inverse on such pieces.  Definitions only. *)
From Coq Require Import ZArith List Bool.
From RV Require Import Lib.Wrap.
From RV Require Import Gen.IcePrio.
From RV Require Import Gen.IceCandStr.
Import ListNotations.
Open Scope Z_scope.
Open Scope bool_scope.

Inductive tok : Set :=
| TWord (w : list Z)
| TIp4 (o : list Z)
| TIp6 (o : list Z) (scope : option Z).

Inductive ip : Set := IP4 (o : list Z) | IP6 (o : list Z).
(* SocketAddr: ip, port, scope_id (0 for IPv4; flowinfo is always 0 on both paths) *)
Record saddr : Set := mkSa { sa_ip : ip; sa_port : Z; sa_scope : Z }.

Record cand : Set := mkCand {
  c_foundation : tok;          (* a String in Rust; kept as the piece it prints as *)
  c_priority : Z;
  c_addr : saddr;
  c_typ : IceCandidateType;
  c_transport : tok;
  c_tcp : option TcpType;
  c_raddr : option saddr;
  c_component : Z }.

(* ---- decimal numbers *)
Fixpoint dec (fuel : nat) (n : Z) : list Z :=
  match fuel with
  | O => []
  | S f => if n <? 10 then [48 + n] else dec f (n / 10) ++ [48 + n mod 10]
  end.
Definition show_num (n : Z) : tok := TWord (dec 20 n).

Definition is_digit (d : Z) : bool := (48 <=? d) && (d <=? 57).
Definition dec_val (ds : list Z) : Z := fold_left (fun v d => v * 10 + (d - 48)) ds 0.
Definition parse_uint (max : Z) (t : tok) : option Z :=
  match t with
  | TWord w =>
    let ds := match w with 43 :: r => r | _ => w end in
    match ds with
    | [] => None
    | _ => if forallb is_digit ds then (if dec_val ds <=? max then Some (dec_val ds) else None) else None
    end
  | _ => None
  end.

(* ---- words *)
Definition lower_byte (b : Z) : Z := if (65 <=? b) && (b <=? 90) then b + 32 else b.
Definition lower (t : tok) : tok := match t with TWord w => TWord (map lower_byte w) | _ => t end.

Fixpoint strip_prefix (p w : list Z) : option (list Z) :=
  match p, w with
  | [], _ => Some w
  | x :: p', y :: w' => if x =? y then strip_prefix p' w' else None
  | _ :: _, [] => None
  end.
(* str::trim_start_matches(prefix): strips the prefix repeatedly; fuel = length of the word *)
Fixpoint trim_start (fuel : nat) (p w : list Z) : list Z :=
  match fuel with
  | O => w
  | S f => match strip_prefix p w with Some r => trim_start f p r | None => w end
  end.
Definition trim_foundation (t : tok) : tok :=
  match t with TWord w => TWord (trim_start (length w) KW_prefix w) | _ => t end.

Definition tok_is (t : tok) (s : list Z) : bool := match t with TWord w => str_eqb w s | _ => false end.

(* ---- addresses *)
Definition ip_tok (a : saddr) : tok :=
  match sa_ip a with IP4 o => TIp4 o | IP6 o => TIp6 o None end.
(* format!("{ip}:{port}") / format!("[{ip}]:{port}") .parse::<SocketAddr>() *)
Definition parse_sockaddr (t : tok) (port : Z) : option saddr :=
  match t with
  | TIp4 o => Some (mkSa (IP4 o) port 0)
  | TIp6 o sc => Some (mkSa (IP6 o) port (match sc with Some s => s | None => 0 end))
  | TWord _ => None
  end.
(* str::parse::<IpAddr>() *)
Definition parse_ip (t : tok) : option ip :=
  match t with
  | TIp4 o => Some (IP4 o)
  | TIp6 o None => Some (IP6 o)
  | _ => None
  end.

(* ---- to_sdp *)
Definition to_tokens (c : cand) : list tok :=
  [c_foundation c; show_num (c_component c); lower (c_transport c); show_num (c_priority c);
   ip_tok (c_addr c); show_num (sa_port (c_addr c)); TWord KW_typ; TWord (cand_type_str (c_typ c))]
  ++ (match c_tcp c with Some t => [TWord KW_tcptype; TWord (tcp_type_str t)] | None => [] end)
  ++ (match c_raddr c with
      | Some a => if negb (IceCandidateType_eqb (c_typ c) IceCandidateType_Host)
                  then [TWord KW_raddr; ip_tok a; TWord KW_rport; show_num (sa_port a)] else []
      | None => []
      end).

(* ---- from_sdp *)
(* loop { if i + 1 >= len { break None } match parts[i] { "tcptype" => break from_str(parts[i+1]), _ => i += 2 } } *)
Fixpoint scan_tcptype (l : list tok) : option TcpType :=
  match l with
  | k :: v :: rest =>
    if tok_is k KW_tcptype then (match v with TWord w => tcp_type_of_str w | _ => None end)
    else scan_tcptype rest
  | _ => None
  end.
(* while i + 1 < len { match parts[i] { "raddr" => raddr = parse().ok(), "rport" => rport = parse().ok(), _ => {} } i += 2 } *)
Fixpoint scan_related (l : list tok) (raddr : option ip) (rport : option Z) : option ip * option Z :=
  match l with
  | k :: v :: rest =>
    if tok_is k KW_raddr then scan_related rest (parse_ip v) rport
    else if tok_is k KW_rport then scan_related rest raddr (parse_uint 65535 v)
    else scan_related rest raddr rport
  | _ => (raddr, rport)
  end.

Definition from_tokens (parts : list tok) : option cand :=
  if Z.of_nat (length parts) <? CAND_MIN_PARTS then None
  else
    let foundation := trim_foundation (nth 0 parts (TWord [])) in
    match parse_uint 65535 (nth 1 parts (TWord [])) with
    | None => None
    | Some component =>
      let transport := lower (nth 2 parts (TWord [])) in
      match parse_uint 4294967295 (nth 3 parts (TWord [])) with
      | None => None
      | Some priority =>
        match parse_uint 65535 (nth 5 parts (TWord [])) with
        | None => None
        | Some port =>
          match parse_sockaddr (nth 4 parts (TWord [])) port with
          | None => None
          | Some address =>
            match (match nth 7 parts (TWord []) with TWord w => cand_type_of_str w | _ => None end) with
            | None => None
            | Some typ =>
              let ext := skipn (Z.to_nat CAND_EXT_START) parts in
              let tcp := if tok_is transport KW_tcp then scan_tcptype ext else None in
              let related :=
                match scan_related ext None None with
                | (Some i, Some p) => Some (mkSa i p 0)
                | _ => None
                end in
              Some (mkCand foundation priority address typ transport tcp related component)
            end
          end
        end
      end
    end.

(* ---- what a round trip normalises: transport is lower-cased, a related address of a host
   candidate is not printed *)
Definition norm (c : cand) : cand :=
  mkCand (c_foundation c) (c_priority c) (c_addr c) (c_typ c) (lower (c_transport c)) (c_tcp c)
         (if IceCandidateType_eqb (c_typ c) IceCandidateType_Host then None else c_raddr c) (c_component c).

Definition wf_saddr (a : saddr) : Prop := 0 <= sa_port a < 65536 /\ sa_scope a = 0.
Definition wf_cand (c : cand) : Prop :=
  trim_foundation (c_foundation c) = c_foundation c /\
  0 <= c_component c < 65536 /\ 0 <= c_priority c < 4294967296 /\
  wf_saddr (c_addr c) /\
  (match c_raddr c with Some a => wf_saddr a | None => True end) /\
  (c_tcp c <> None -> lower (c_transport c) = TWord KW_tcp).
