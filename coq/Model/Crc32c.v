(* Concrete CRC-32C (Castagnoli, reflected polynomial 0x82F63B78, init/xorout 0xFFFFFFFF) as a
   bitwise fold over Z.  `crc32c` mirrors `sctp_crc32c`, `crc32c_append` mirrors
   `sctp_crc32c_append` of src/transports/sctp.rs (which compute the same function with the
   SSE4.2 / ARM CRC instructions or the `crc32c` crate).  Definitions only. *)
From Coq Require Import ZArith List.
Import ListNotations.
Open Scope Z_scope.

Definition CRC32C_POLY : Z := 2197175160.   (* 0x82F63B78 *)
Definition CRC32C_MASK : Z := 4294967295.   (* 0xFFFFFFFF *)

Definition crc_bit (c : Z) : Z :=
  if Z.odd c then Z.lxor (Z.shiftr c 1) CRC32C_POLY else Z.shiftr c 1.

Definition crc_byte (c b : Z) : Z :=
  crc_bit (crc_bit (crc_bit (crc_bit (crc_bit (crc_bit (crc_bit (crc_bit (Z.lxor c b)))))))).

Definition crc_raw (c : Z) (data : list Z) : Z := fold_left crc_byte data c.

(* sctp_crc32c_append(crc, data) *)
Definition crc32c_append (crc : Z) (data : list Z) : Z :=
  Z.lxor (crc_raw (Z.lxor crc CRC32C_MASK) data) CRC32C_MASK.

(* sctp_crc32c(data) = sctp_crc32c_append(0, data) *)
Definition crc32c (data : list Z) : Z := crc32c_append 0 data.

(* RFC 3720 B.4 / the usual check value: CRC-32C("123456789") = 0xE3069283 *)
Example crc32c_check_value :
  crc32c [49; 50; 51; 52; 53; 54; 55; 56; 57] = 3808858755.
Proof. vm_compute. reflexivity. Qed.

(* RFC 3720 B.4 test vectors: 32 bytes of zeros -> 0x8A9136AA, 32 bytes of 0xFF -> 0x62A8AB43 *)
Example crc32c_zeros : crc32c (repeat 0 32) = 2324772522.
Proof. vm_compute. reflexivity. Qed.
Example crc32c_ones : crc32c (repeat 255 32) = 1655221059.
Proof. vm_compute. reflexivity. Qed.
