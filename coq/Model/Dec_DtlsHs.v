(* C07 -- DTLS handshake message decoders (src/transports/dtls/handshake.rs), transcribed access by
   access into the panic-aware monad of PanicLib.  Every `buf.get_u8()`, `split_to`, `advance`,
   `copy_to_slice` and index of the Rust code is a checked primitive here; the length guards use the
   constants regenerated from the source (Gen/C07Consts.v).  The models follow the code *after* the
   two `fix:` commits that raised the Client/ServerHello guard from 34 to 35.

   Each decoder returns the decoded fields followed by the unread rest of the buffer; [*_digest]
   flattens that into the list the harness compares with the implementation's output. *)
From Coq Require Import ZArith List Lia Bool.
From RV Require Import Lib.Wrap Gen.C07Consts Model.PanicLib.
Import ListNotations.
Open Scope Z_scope.
Open Scope pm_scope.

(* ---------------------------------------------------------------- HandshakeMessage::decode *)
Definition hs_type_valid (t : Z) : bool :=
  (t =? 0) || (t =? 1) || (t =? 2) || (t =? 3) || (t =? 11) || (t =? 12) || (t =? 13) || (t =? 14)
  || (t =? 15) || (t =? 16) || (t =? 20).

Record hs_msg := mkHs { hs_type : Z; hs_total : Z; hs_seq : Z; hs_foff : Z; hs_flen : Z; hs_body : bytes }.

Definition hs_decode (buf : bytes) : M (option hs_msg * bytes) :=
  if len buf <? HS_HEADER_SIZE then ret (None, buf) else
  b0 <- idx buf 0 ;;
  if negb (hs_type_valid b0) then err 1 else
  b1 <- idx buf 1 ;; b2 <- idx buf 2 ;; b3 <- idx buf 3 ;;
  b4 <- idx buf 4 ;; b5 <- idx buf 5 ;;
  b6 <- idx buf 6 ;; b7 <- idx buf 7 ;; b8 <- idx buf 8 ;;
  b9 <- idx buf 9 ;; b10 <- idx buf 10 ;; b11 <- idx buf 11 ;;
  let total := b1 * 65536 + b2 * 256 + b3 in
  let mseq := b4 * 256 + b5 in
  let foff := b6 * 65536 + b7 * 256 + b8 in
  let flen := b9 * 65536 + b10 * 256 + b11 in
  if len buf <? HS_HEADER_SIZE + flen then ret (None, buf) else
  c <- advance HS_HEADER_SIZE buf ;;
  ' (body, rest) <- split_to flen c ;;
  ret (Some (mkHs b0 total mseq foff flen body), rest).

(* ---------------------------------------------------------------- ClientHello::decode *)
Record client_hello := mkCH {
  ch_major : Z; ch_minor : Z; ch_gmt : Z; ch_random : bytes; ch_sid : bytes; ch_cookie : bytes;
  ch_suites : list Z; ch_comp : bytes; ch_ext : bytes }.

(* `while cs_buf.len() >= 2 { cipher_suites.push(cs_buf.get_u16()); }` *)
Fixpoint cs_loop (fuel : nat) (cs_buf : bytes) (acc : list Z) : M (list Z) :=
  match fuel with
  | O => out_of_fuel
  | S f =>
      if CH_CS_ELEM <=? len cs_buf then
        ' (v, cs_buf') <- get_u16 cs_buf ;;
        push_cost 2 ;;;
        cs_loop f cs_buf' (acc ++ [v])
      else ret acc
  end.

Definition client_hello_decode (buf : bytes) : M (client_hello * bytes) :=
  if len buf <? CH_MIN_LEN then err 1 else
  ' (major, c) <- get_u8 buf ;;
  ' (minor, c) <- get_u8 c ;;
  ' (gmt, c) <- get_u32 c ;;
  ' (random, c) <- split_to CH_RANDOM_LEN c ;;          (* copy_to_slice(&mut [0u8; 28]) *)
  ' (sid_len, c) <- get_u8 c ;;
  if len c <? sid_len then err 2 else
  ' (sid, c) <- split_to sid_len c ;;
  sid <- to_vec sid ;;
  if len c =? 0 then err 3 else
  ' (cookie_len, c) <- get_u8 c ;;
  if len c <? cookie_len then err 4 else
  ' (cookie, c) <- split_to cookie_len c ;;
  cookie <- to_vec cookie ;;
  if len c <? CH_CS_LEN_MIN then err 5 else
  ' (cs_len, c) <- get_u16 c ;;
  if len c <? cs_len then err 6 else
  ' (cs_buf, c) <- split_to cs_len c ;;
  suites <- cs_loop (S (length cs_buf)) cs_buf [] ;;
  if len c =? 0 then err 7 else
  ' (comp_len, c) <- get_u8 c ;;
  if len c <? comp_len then err 8 else
  ' (comp, c) <- split_to comp_len c ;;
  comp <- to_vec comp ;;
  if CH_EXT_MIN <=? len c then
    ' (ext_len, c) <- get_u16 c ;;
    if len c <? ext_len then err 9 else
    ' (ext, c) <- split_to ext_len c ;;
    ext <- to_vec ext ;;
    ret (mkCH major minor gmt random sid cookie suites comp ext, c)
  else
    ret (mkCH major minor gmt random sid cookie suites comp [], c).

(* the code as it was before the fix (guard 34): kept to state the refutation *)
Definition client_hello_decode_guard (guard : Z) (buf : bytes) : M (Z * bytes) :=
  if len buf <? guard then err 1 else
  ' (major, c) <- get_u8 buf ;;
  ' (minor, c) <- get_u8 c ;;
  ' (gmt, c) <- get_u32 c ;;
  ' (random, c) <- split_to CH_RANDOM_LEN c ;;
  ' (sid_len, c) <- get_u8 c ;;
  ret (sid_len, c).

(* ---------------------------------------------------------------- ServerHello::decode *)
Record server_hello := mkSH {
  sh_major : Z; sh_minor : Z; sh_gmt : Z; sh_random : bytes; sh_sid : bytes; sh_suite : Z; sh_comp : Z; sh_ext : bytes }.

Definition server_hello_decode (buf : bytes) : M (server_hello * bytes) :=
  if len buf <? SH_MIN_LEN then err 1 else
  ' (major, c) <- get_u8 buf ;;
  ' (minor, c) <- get_u8 c ;;
  ' (gmt, c) <- get_u32 c ;;
  ' (random, c) <- split_to SH_RANDOM_LEN c ;;
  ' (sid_len, c) <- get_u8 c ;;
  if len c <? sid_len then err 2 else
  ' (sid, c) <- split_to sid_len c ;;
  sid <- to_vec sid ;;
  if len c <? SH_SUITE_MIN then err 3 else
  ' (suite, c) <- get_u16 c ;;
  ' (comp, c) <- get_u8 c ;;
  if SH_EXT_MIN <=? len c then
    ' (ext_len, c) <- get_u16 c ;;
    if len c <? ext_len then err 4 else
    ' (ext, c) <- split_to ext_len c ;;
    ext <- to_vec ext ;;
    ret (mkSH major minor gmt random sid suite comp ext, c)
  else
    ret (mkSH major minor gmt random sid suite comp [], c).

(* ---------------------------------------------------------------- HelloVerifyRequest::decode *)
Definition hello_verify_decode (buf : bytes) : M (Z * Z * bytes * bytes) :=
  if len buf <? HVR_MIN_LEN then err 1 else
  ' (major, c) <- get_u8 buf ;;
  ' (minor, c) <- get_u8 c ;;
  ' (cookie_len, c) <- get_u8 c ;;
  if len c <? cookie_len then err 2 else
  ' (cookie, c) <- split_to cookie_len c ;;
  cookie <- to_vec cookie ;;
  ret (major, minor, cookie, c).

(* ---------------------------------------------------------------- ServerKeyExchange::decode *)
Definition ske_decode (buf : bytes) : M (Z * Z * bytes * bytes * bytes) :=
  if len buf <? SKE_MIN_LEN then err 1 else
  ' (curve_type, c) <- get_u8 buf ;;
  ' (named_curve, c) <- get_u16 c ;;
  ' (pk_len, c) <- get_u8 c ;;
  if len c <? pk_len then err 2 else
  ' (pk, c) <- split_to pk_len c ;;
  pk <- to_vec pk ;;
  if len c <? SKE_SIG_MIN then err 3 else
  ' (_hash, c) <- get_u8 c ;;
  ' (_sig, c) <- get_u8 c ;;
  ' (sig_len, c) <- get_u16 c ;;
  if len c <? sig_len then err 4 else
  ' (sg, c) <- split_to sig_len c ;;
  sg <- to_vec sg ;;
  ret (curve_type, named_curve, pk, sg, c).

(* ---------------------------------------------------------------- CertificateMessage::decode *)
(* `while !certs_buf.is_empty() { … }` *)
Fixpoint cert_loop (fuel : nat) (certs_buf : bytes) (acc : list bytes) : M (list bytes) :=
  match fuel with
  | O => out_of_fuel
  | S f =>
      if len certs_buf =? 0 then ret acc else
      if len certs_buf <? CERT_ENTRY_HDR then err 3 else
      b0 <- idx certs_buf 0 ;; b1 <- idx certs_buf 1 ;; b2 <- idx certs_buf 2 ;;
      let cert_len := b0 * 65536 + b1 * 256 + b2 in
      certs_buf <- advance 3 certs_buf ;;
      if len certs_buf <? cert_len then err 4 else
      ' (cert, certs_buf) <- split_to cert_len certs_buf ;;
      cert <- to_vec cert ;;
      push_cost 24 ;;;                                     (* Vec<Vec<u8>>::push: one Vec header *)
      cert_loop f certs_buf (acc ++ [cert])
  end.

Definition cert_decode (buf : bytes) : M (list bytes * bytes) :=
  if len buf <? CERT_MIN_LEN then err 1 else
  b0 <- idx buf 0 ;; b1 <- idx buf 1 ;; b2 <- idx buf 2 ;;
  let total_len := b0 * 65536 + b1 * 256 + b2 in
  c <- advance 3 buf ;;
  if len c <? total_len then err 2 else
  ' (certs_buf, c) <- split_to total_len c ;;
  certs <- cert_loop (S (length certs_buf)) certs_buf [] ;;
  ret (certs, c).

(* ---------------------------------------------------------------- ClientKeyExchange / Finished *)
Definition cke_decode (buf : bytes) : M (bytes * bytes) :=
  if len buf =? 0 then err 1 else
  ' (pk_len, c) <- get_u8 buf ;;
  if len c <? pk_len then err 2 else
  ' (pk, c) <- split_to pk_len c ;;
  pk <- to_vec pk ;;
  ret (pk, c).

Definition finished_decode (buf : bytes) : M (bytes * bytes) :=
  v <- to_vec buf ;;
  c <- advance (len v) buf ;;
  ret (v, c).

(* ---------------------------------------------------------------- extension walks (dtls/mod.rs) *)
(* use_srtp: `while idx < 2 + len && idx + 1 < _ext_data.len() { push(u16 at idx); idx += 2 }` *)
Fixpoint srtp_loop (fuel : nat) (data : bytes) (l : Z) (i : Z) (acc : list Z) : M (list Z) :=
  match fuel with
  | O => out_of_fuel
  | S f =>
      e <- checked_add 64 2 l ;;
      i1 <- checked_add 64 i 1 ;;
      if (i <? e) && (i1 <? len data) then
        b0 <- idx data i ;;
        b1 <- idx data i1 ;;
        push_cost 2 ;;;
        i <- checked_add 64 i 2 ;;
        srtp_loop f data l i (acc ++ [b0 * 256 + b1])
      else ret acc
  end.

(* handle_client_hello: extended_master_secret flag and the offered SRTP profiles *)
Fixpoint ch_ext_walk (fuel : nat) (buf : bytes) (ems : bool) (profiles : list Z) : M (bool * list Z) :=
  match fuel with
  | O => out_of_fuel
  | S f =>
      if len buf <? 4 then ret (ems, profiles) else
      ' (ty, c) <- get_u16 buf ;;
      ' (el, c) <- get_u16 c ;;
      if len c <? el then ret (ems, profiles) else
      ' (data, c) <- split_to el c ;;
      if ty =? 14 then
        if 2 <=? len data then
          b0 <- idx data 0 ;;
          b1 <- idx data 1 ;;
          ps <- srtp_loop (S (length data)) data (b0 * 256 + b1) 2 profiles ;;
          ch_ext_walk f c ems ps
        else ch_ext_walk f c ems profiles
      else if ty =? 23 then ch_ext_walk f c true profiles
      else ch_ext_walk f c ems profiles
  end.

Definition client_hello_extensions (ext : bytes) : M (bool * list Z) :=
  e <- to_vec ext ;;                                                  (* Bytes::from(extensions.clone()) *)
  ch_ext_walk (S (length e)) e false [].

(* "prefer 0x0001 if offered, otherwise the first one" *)
Definition select_profile (ps : list Z) : Z :=
  match ps with
  | [] => -1
  | p :: _ => if existsb (Z.eqb 1) ps then 1 else p
  end.

(* the whole of handle_client_hello's parsing: decode, then walk the extensions *)
Definition server_on_client_hello (body : bytes) : M (Z * Z) :=
  ' (h, _) <- client_hello_decode body ;;
  ' (ems, ps) <- client_hello_extensions (ch_ext h) ;;
  ret (if ems then 1 else 0, select_profile ps).

(* handle_server_hello: ems flag and the selected profile *)
Fixpoint sh_ext_walk (fuel : nat) (buf : bytes) (ems : bool) (profile : option Z) : M (bool * option Z) :=
  match fuel with
  | O => out_of_fuel
  | S f =>
      if len buf <? 4 then ret (ems, profile) else
      ' (ty, c) <- get_u16 buf ;;
      ' (el, c) <- get_u16 c ;;
      if len c <? el then ret (ems, profile) else
      ' (data, c) <- split_to el c ;;
      if ty =? 23 then sh_ext_walk f c true profile
      else if ty =? 14 then
        if 5 <=? len data then
          b2 <- idx data 2 ;;
          b3 <- idx data 3 ;;
          sh_ext_walk f c ems (Some (b2 * 256 + b3))
        else sh_ext_walk f c ems profile
      else sh_ext_walk f c ems profile
  end.

Definition server_hello_extensions (ext : bytes) : M (bool * option Z) :=
  if len ext =? 0 then ret (false, None) else
  e <- to_vec ext ;;
  sh_ext_walk (S (length e)) e false None.

(* process_handshake_payload: `ctx.recv_message_seq` (u16) is advanced once per accepted message *)
Definition recv_seq_bump_unchecked (s : Z) : M Z := checked_add 16 s 1.          (* before the fix: += 1 *)
Definition recv_seq_bump (s : Z) : M Z := ret ((s + 1) mod 65536).                (* wrapping_add(1) *)
Fixpoint recv_seq_run (bump : Z -> M Z) (n : nat) (s : Z) : M Z :=
  match n with O => ret s | S k => s' <- bump s ;; recv_seq_run bump k s' end.

(* ---------------------------------------------------------------- fragment reassembly (dtls/mod.rs) *)
(* process_handshake_payload, for a message with the expected message_seq: a message whose
   total_length equals its fragment_length is taken as is.  Otherwise `incomplete_handshake` is
   cleared when the message_seq changes or the fragment claims offset 0; the fragment is appended
   only if it continues the buffered bytes exactly (fragment_offset = buffer length) and fits in the
   declared total (offset + length <= total_length, computed in u64: no overflow), else it is
   skipped; the message is complete when the buffer reaches total_length and is then re-encoded
   with a 12-byte header.  Allocation: the bytes appended, plus header + buffer on completion.  No
   capacity is reserved from the declared total_length (anchored in gen_c07.py): [alloc] would have
   to count it.  [r_cap] is a ghost field: the total_length of the last fragment that was appended. *)
Record frag := mkFrag { f_total : Z; f_seq : Z; f_off : Z; f_body : bytes }.
Record reasm := mkReasm { r_buf : bytes; r_seq : Z; r_cap : Z }.
Definition reasm_init : reasm := mkReasm [] 0 0.

Definition reasm_step (st : reasm) (f : frag) : M (option bytes * reasm) :=
  if f_total f =? len (f_body f) then ret (Some (f_body f), st) else
  let buf0 := if negb (r_seq st =? f_seq f) || (f_off f =? 0) then [] else r_buf st in
  if negb (f_off f =? len buf0) || (f_total f <? f_off f + len (f_body f))
  then mkM (Ok (None, mkReasm buf0 (f_seq f) (r_cap st))) 1 0              (* continue: fragment skipped *)
  else
  alloc (len (f_body f)) ;;;                                          (* extend_from_slice *)
  tick (1 + len (f_body f)) ;;;
  let buf := buf0 ++ f_body f in
  if len buf <? f_total f then ret (None, mkReasm buf (f_seq f) (f_total f))
  else (alloc (HS_HEADER_SIZE + len buf) ;;; tick (1 + len buf) ;;; ret (Some buf, mkReasm [] (f_seq f) (f_total f))).

(* a run of fragments that all carry the expected message_seq, up to the first completed message *)
Fixpoint reasm_run (st : reasm) (fs : list frag) : M (option bytes * reasm * list frag) :=
  match fs with
  | [] => ret (None, st, [])
  | f :: rest =>
      ' (r, st') <- reasm_step st f ;;
      match r with
      | Some body => ret (Some body, st', rest)
      | None => reasm_run st' rest
      end
  end.
(* the whole history of fragments an endpoint receives (completed messages are handed on, the buffer restarts) *)
Fixpoint reasm_fold (st : reasm) (fs : list frag) : M reasm :=
  match fs with
  | [] => ret st
  | f :: rest => ' (_, st') <- reasm_step st f ;; reasm_fold st' rest
  end.
Definition frags_bytes (fs : list frag) : Z := fold_right (fun f a => len (f_body f) + a) 0 fs.

(* what a fresh server does with a list of ClientHello fragments (all message_seq 0): the first completed
   message is decoded; if that fails the receive counter has moved on and every later fragment is a
   "duplicate ClientHello", handed to handle_client_hello as it is *)
Fixpoint dup_mode (fs : list frag) : M (Z * Z) :=
  match fs with
  | [] => err 20
  | f :: rest =>
      let m := server_on_client_hello (f_body f) in
      match val m with
      | Err _ => mkM (val (dup_mode rest)) (ticks m + ticks (dup_mode rest)) (allocd m + allocd (dup_mode rest))
      | _ => m
      end
  end.
Definition server_on_fragments (fs : list frag) : M (Z * Z) :=
  ' (r, _, rest) <- reasm_run reasm_init fs ;;
  match r with
  | None => err 21
  | Some body =>
      let m := server_on_client_hello body in
      match val m with
      | Err _ => mkM (val (dup_mode rest)) (ticks m + ticks (dup_mode rest)) (allocd m + allocd (dup_mode rest))
      | _ => m
      end
  end.

(* ---------------------------------------------------------------- digests for the correspondence *)
Definition bdig (b : bytes) : list Z := len b :: b.
Definition verdict {A} (r : res A) : Z :=
  match r with Ok _ => 0 | Err _ => 1 | Panic => 2 | OutOfFuel => 3 end.
Definition out_of {A} (m : M A) (dig : A -> list Z) : Z * list Z :=
  (verdict (val m), match val m with Ok x => dig x | _ => [] end).

Definition hs_digest (x : option hs_msg * bytes) : list Z :=
  match x with
  | (None, rest) => [0; len rest]
  | (Some h, rest) => [1; hs_type h; hs_total h; hs_seq h; hs_foff h; hs_flen h] ++ bdig (hs_body h) ++ [len rest]
  end.
Definition ch_digest (x : client_hello * bytes) : list Z :=
  let '(h, rest) := x in
  [ch_major h; ch_minor h; ch_gmt h] ++ ch_random h ++ bdig (ch_sid h) ++ bdig (ch_cookie h)
  ++ (len (ch_suites h) :: ch_suites h) ++ bdig (ch_comp h) ++ bdig (ch_ext h) ++ [len rest].
Definition sh_digest (x : server_hello * bytes) : list Z :=
  let '(h, rest) := x in
  [sh_major h; sh_minor h; sh_gmt h] ++ sh_random h ++ bdig (sh_sid h) ++ [sh_suite h; sh_comp h]
  ++ bdig (sh_ext h) ++ [len rest].
Definition hvr_digest (x : Z * Z * bytes * bytes) : list Z :=
  let '(major, minor, cookie, rest) := x in [major; minor] ++ bdig cookie ++ [len rest].
Definition ske_digest (x : Z * Z * bytes * bytes * bytes) : list Z :=
  let '(ct, nc, pk, sg, rest) := x in [ct; nc] ++ bdig pk ++ bdig sg ++ [len rest].
Definition cert_digest (x : list bytes * bytes) : list Z :=
  let '(certs, rest) := x in (len certs :: flat_map bdig certs) ++ [len rest].
Definition cke_digest (x : bytes * bytes) : list Z := let '(pk, rest) := x in bdig pk ++ [len rest].
