(* C07 -- ICE-side entry points: the packet classifier of `handle_packet`, TURN ChannelData / Data
   forwarding of `handle_turn_packet` (src/transports/ice/mod.rs), the TURN/TCP frame read of
   `TurnClient::recv` (src/transports/ice/turn.rs), the token walk of `IceCandidate::from_sdp`, and
   the `a=mid` arithmetic of `set_remote_description`. *)
From Coq Require Import ZArith List Lia Bool.
From RV Require Import Lib.Wrap Gen.C07Consts Model.PanicLib.
Import ListNotations.
Open Scope Z_scope.
Open Scope pm_scope.

(* ---------------------------------------------------------------- handle_packet classifier *)
Inductive pkt_class := Ignored | Stun | Data.
Definition class_code (c : pkt_class) : Z := match c with Ignored => 0 | Stun => 1 | Data => 2 end.

(* [guarded] = the `if packet.is_empty() { return; }` guard is present (it is, since the fix) *)
Definition classify_with (guarded : bool) (packet : bytes) : M pkt_class :=
  if guarded && (len packet =? 0) then ret Ignored else
  b <- idx packet 0 ;;
  if b <? ICE_STUN_FIRST_BYTE_LT then ret Stun else ret Data.
Definition classify := classify_with true.

(* handle_turn_packet: ChannelData framing. Returns the payload handed to handle_packet, if any.
   [bound] tells whether the channel number is bound to a peer. *)
Definition turn_channel_data (bound : bool) (packet : bytes) : M (option (option bytes)) :=
  (* None = not ChannelData (falls through to STUN decoding); Some None = ChannelData, dropped *)
  if TURN_CD_MIN <=? len packet then
    b0 <- idx packet 0 ;; b1 <- idx packet 1 ;;
    let ch := b0 * 256 + b1 in
    if (TURN_CH_LO <=? ch) && (ch <=? TURN_CH_HI) then
      b2 <- idx packet 2 ;; b3 <- idx packet 3 ;;
      let l := b2 * 256 + b3 in
      e <- checked_add 64 4 l ;;
      if e <=? len packet then
        data <- slice packet 4 e ;;
        if bound then ret (Some (Some data)) else ret (Some None)
      else ret (Some None)
    else ret None
  else ret None.

(* relayed payload (ChannelData or Data indication) reaching handle_packet *)
Definition relayed (guarded : bool) (data : bytes) : M pkt_class := classify_with guarded data.

(* ---------------------------------------------------------------- TurnClient::recv over TCP *)
(* header = 2 length bytes already read; [buflen] = size of the caller's buffer; the loop reads
   into `buf[offset..len]`.  [guarded] = the `len > buf.len()` check is present (since the fix). *)
Definition turn_tcp_frame (guarded : bool) (buflen declared : Z) : M Z :=
  if guarded && (buflen <? declared) then err 1 else
  if 0 <? declared then
    (_s <- slice (repeat 0 (Z.to_nat buflen)) 0 declared ;; ret declared)   (* &mut buf[0..len] *)
  else ret declared.

(* ---------------------------------------------------------------- a=mid *)
Definition mid_bump_unchecked (mid : Z) : M Z := checked_add 16 mid 1.     (* before the fix: mid_val + 1 *)
Definition mid_bump (mid : Z) : M Z := ret (Z.min (mid + 1) 65535).        (* saturating_add(1) *)

(* ---------------------------------------------------------------- candidate line tokens *)
(* parse::<uN>(): optional '+', then one or more ASCII digits, value < 2^bits *)
Definition is_digit (b : Z) : bool := (48 <=? b) && (b <=? 57).
Fixpoint digits_val (l : bytes) (acc : Z) (bound : Z) : option Z :=
  match l with
  | [] => Some acc
  | d :: r => if is_digit d then
                let v := acc * 10 + (d - 48) in
                if v <? bound then digits_val r v bound else None
              else None
  end.
Definition parse_uint (bits : Z) (tok : bytes) : option Z :=
  match tok with
  | [] => None
  | 43 :: r => match r with [] => None | _ => digits_val r 0 (2 ^ bits) end
  | _ => digits_val tok 0 (2 ^ bits)
  end.

Definition tok_eq (a b : bytes) : bool := if list_eq_dec Z.eq_dec a b then true else false.
Definition lower (b : Z) : Z := if (65 <=? b) && (b <=? 90) then b + 32 else b.
Definition s_host := [104; 111; 115; 116].
Definition s_srflx := [115; 114; 102; 108; 120].
Definition s_prflx := [112; 114; 102; 108; 120].
Definition s_relay := [114; 101; 108; 97; 121].
Definition s_tcp := [116; 99; 112].
Definition s_tcptype := [116; 99; 112; 116; 121; 112; 101].
Definition s_active := [97; 99; 116; 105; 118; 101].
Definition s_passive := [112; 97; 115; 115; 105; 118; 101].
Definition s_so := [115; 111].
Definition s_raddr := [114; 97; 100; 100; 114].
Definition s_rport := [114; 112; 111; 114; 116].

Definition tok (parts : list bytes) (i : Z) : M bytes :=
  if (0 <=? i) && (i <? len parts) then mkM (Ok (nth (Z.to_nat i) parts [])) 1 0 else panic.

(* `loop { if i + 1 >= parts.len() { break None } match parts[i] { "tcptype" => break from_str(parts[i+1]), _ => i += 2 } }` *)
Fixpoint tcptype_loop (fuel : nat) (parts : list bytes) (i : Z) : M Z :=
  match fuel with
  | O => out_of_fuel
  | S f =>
      i1 <- checked_add 64 i 1 ;;
      if len parts <=? i1 then ret 0 else
      t <- tok parts i ;;
      if tok_eq t s_tcptype then
        v <- tok parts i1 ;;
        ret (if tok_eq v s_active then 1 else if tok_eq v s_passive then 2 else if tok_eq v s_so then 3 else 0)
      else (i <- checked_add 64 i 2 ;; tcptype_loop f parts i)
  end.

(* `while i + 1 < parts.len() { match parts[i] { "raddr" => …, "rport" => …, _ => {} } i += 2 }`;
   [ipok j] = token j parses as an IP address (supplied by the caller: std's parser is not modelled) *)
Fixpoint rel_loop (fuel : nat) (parts : list bytes) (ipok : Z -> bool) (i : Z) (raddr : bool) (rport : option Z)
  : M (bool * option Z) :=
  match fuel with
  | O => out_of_fuel
  | S f =>
      i1 <- checked_add 64 i 1 ;;
      if i1 <? len parts then
        t <- tok parts i ;;
        v <- tok parts i1 ;;
        let raddr' := if tok_eq t s_raddr then ipok i1 else raddr in
        let rport' := if tok_eq t s_rport then parse_uint 16 v else rport in
        i <- checked_add 64 i 2 ;;
        rel_loop f parts ipok i raddr' rport'
      else ret (raddr, rport)
  end.

Record cand := mkCand { c_comp : Z; c_prio : Z; c_port : Z; c_typ : Z; c_tcptype : Z; c_rel : Z; c_rport : Z }.

(* [addr_ok] = "<ip>:<port>" parses as a socket address *)
Definition cand_parse (addr_ok : bool) (ipok : Z -> bool) (parts : list bytes) : M cand :=
  if len parts <? 8 then err 1 else
  _foundation <- tok parts 0 ;;
  t1 <- tok parts 1 ;;
  match parse_uint 16 t1 with None => err 2 | Some comp =>
  t2 <- tok parts 2 ;;
  let transport := map lower t2 in
  t3 <- tok parts 3 ;;
  match parse_uint 32 t3 with None => err 3 | Some prio =>
  _ip <- tok parts 4 ;;
  t5 <- tok parts 5 ;;
  match parse_uint 16 t5 with None => err 4 | Some port =>
  t7 <- tok parts 7 ;;
  if negb addr_ok then err 5 else
  let typ := if tok_eq t7 s_host then 0 else if tok_eq t7 s_srflx then 1 else if tok_eq t7 s_prflx then 2
             else if tok_eq t7 s_relay then 3 else (-1) in
  if typ <? 0 then err 6 else
  tt <- (if tok_eq transport s_tcp then tcptype_loop (S (length parts)) parts 8 else ret 0) ;;
  ' (raddr, rport) <- rel_loop (S (length parts)) parts ipok 8 false None ;;
  let rel := match rport with Some _ => raddr | None => false end in
  ret (mkCand comp prio port typ tt (if rel then 1 else 0)
              (if rel then match rport with Some p => p | None => 0 end else 0))
  end end end.

Definition cand_digest (c : cand) : list Z :=
  [c_comp c; c_prio c; c_port c; c_typ c; c_tcptype c; c_rel c; c_rport c].
