(* C07 -- media-path decoders: H.264 depacketizer (src/media/depacketizer.rs), RTX unwrap
   (src/rtx.rs), UDPTL datagram parse (src/transports/udptl.rs), in the panic-aware monad. *)
From Coq Require Import ZArith List Lia Bool.
From RV Require Import Lib.Wrap Gen.C07Consts Model.PanicLib.
Import ListNotations.
Open Scope Z_scope.
Open Scope pm_scope.

(* ---------------------------------------------------------------- H.264 *)
(* one emitted sample: (rtp timestamp, is_last_packet, data).  A VideoFrame and the cloned RtpPacket
   it carries are fixed-size records (payload and extension are reference-counted `Bytes`); the
   allocation counter charges SAMPLE_SIZE bytes per sample. *)
Definition sample := (Z * Z * bytes)%type.
Definition SAMPLE_SIZE : Z := 512.
Record h264_state := mkH { fua_buffer : bytes; last_seq : option Z; cur_ts : Z; drops : Z }.
Definition h264_init : h264_state := mkH [] None 0 0.
Definition b2z (b : bool) : Z := if b then 1 else 0.

(* STAP-A: `while offset + 2 < len { … }` *)
Fixpoint stap_loop (fuel : nat) (data : bytes) (offset : Z) (marker : bool) (ts : Z) (dr : Z)
         (acc : list sample) : M (list sample * Z) :=
  match fuel with
  | O => out_of_fuel
  | S f =>
      o2 <- checked_add 64 offset 2 ;;
      if o2 <? len data then
        b0 <- idx data offset ;;
        o1 <- checked_add 64 offset 1 ;;
        b1 <- idx data o1 ;;
        let nal_len := b0 * 256 + b1 in
        offset <- checked_add 64 offset 2 ;;
        e <- checked_add 64 offset nal_len ;;
        if len data <? e then ret (acc, dr + 1) else                  (* drop_count += 1; break *)
        nal <- slice data offset e ;;
        offset <- checked_add 64 offset nal_len ;;
        let is_last := (offset =? len data) && marker in
        push_cost SAMPLE_SIZE ;;;
        stap_loop f data offset marker ts dr (acc ++ [(ts, b2z is_last, nal)])
      else ret (acc, dr)
  end.

Definition h264_push (video : bool) (st : h264_state) (marker : bool) (seq ts : Z) (payload : bytes)
  : M (list sample * h264_state) :=
  if negb video then (push_cost SAMPLE_SIZE ;;; ret ([(ts, 2, payload)], st)) else
  if len payload =? 0 then (push_cost SAMPLE_SIZE ;;; ret ([(ts, b2z marker, payload)], st)) else
  header <- idx payload 0 ;;
  let nal_type := Z.land header H264_TYPE_MASK in
  if nal_type =? H264_STAPA then
    ' (samples, dr) <- stap_loop (S (length payload)) payload 1 marker ts (drops st) [] ;;
    ret (samples, mkH (fua_buffer st) (last_seq st) (cur_ts st) dr)
  else if nal_type =? H264_FUA then
    if len payload <? 2 then ret ([], st) else
    fu <- idx payload 1 ;;
    let s_bit := negb (Z.land fu H264_S_BIT =? 0) in
    let e_bit := negb (Z.land fu H264_E_BIT =? 0) in
    let orig := Z.land fu H264_TYPE_MASK in
    if s_bit then
      rest <- slice payload 2 (len payload) ;;                        (* &payload[2..] *)
      rest <- to_vec rest ;;
      ret ([], mkH (Z.lor (Z.land header H264_NRI_MASK) orig :: rest) (Some seq) ts (drops st))
    else
      match last_seq st with
      | None => ret ([], st)                                          (* missing start *)
      | Some ls =>
          if negb (seq =? (ls + 1) mod 65536) then ret ([], mkH [] None (cur_ts st) (drops st + 1)) else
          if negb (ts =? cur_ts st) then ret ([], mkH [] None (cur_ts st) (drops st + 1)) else
          rest <- slice payload 2 (len payload) ;;
          rest <- to_vec rest ;;
          let buf := fua_buffer st ++ rest in
          if e_bit then
            out <- to_vec buf ;;                                      (* Bytes::from(self.fua_buffer.clone()) *)
            push_cost SAMPLE_SIZE ;;;
            ret ([(cur_ts st, b2z marker, out)], mkH [] None (cur_ts st) (drops st))
          else ret ([], mkH buf (Some seq) (cur_ts st) (drops st))
      end
  else
    (push_cost SAMPLE_SIZE ;;; ret ([(ts, b2z marker, payload)], st)).

(* ---------------------------------------------------------------- RTX *)
Definition rtx_unwrap (payload : bytes) : M (Z * bytes) :=
  if len payload <? RTX_OSN_LEN then err 1 else
  b0 <- idx payload 0 ;;
  b1 <- idx payload 1 ;;
  rest <- slice payload 2 (len payload) ;;
  ret (b0 * 256 + b1, rest).

(* ---------------------------------------------------------------- UDPTL *)
(* `while pos + 2 <= n { … }` over the first n bytes of the receive buffer *)
Fixpoint red_loop (fuel : nat) (buf : bytes) (n pos : Z) (cnt : Z) : M Z :=
  match fuel with
  | O => out_of_fuel
  | S f =>
      p2 <- checked_add 64 pos 2 ;;
      if p2 <=? n then
        b0 <- idx buf pos ;;
        p1 <- checked_add 64 pos 1 ;;
        b1 <- idx buf p1 ;;
        let r_len := b0 * 256 + b1 in
        pos <- checked_add 64 pos 2 ;;
        e <- checked_add 64 pos r_len ;;
        if n <? e then ret cnt else
        r <- slice buf pos e ;;
        _r <- to_vec r ;;
        push_cost 32 ;;;
        pos <- checked_add 64 pos r_len ;;
        red_loop f buf n pos (cnt + 1)
      else ret cnt
  end.

(* recv: [dgram] is what arrived; the socket copies min(|dgram|, max_datagram) bytes into a zeroed
   buffer of max_datagram bytes.  Returns (seq, primary, number of redundant entries). *)
Definition udptl_parse (max_datagram : Z) (dgram : bytes) : M (option (Z * bytes * Z)) :=
  let n := Z.min (len dgram) max_datagram in
  let buf := take n dgram ++ repeat 0 (Z.to_nat (max_datagram - n)) in
  alloc max_datagram ;;;
  if n <? UDPTL_MIN then ret None else
  b0 <- idx buf 0 ;;
  b1 <- idx buf 1 ;;
  let seq := b0 * 256 + b1 in
  p <- checked_add 64 0 2 ;;
  p2 <- checked_add 64 p 2 ;;
  if n <? p2 then ret None else
  l0 <- idx buf p ;;
  p1 <- checked_add 64 p 1 ;;
  l1 <- idx buf p1 ;;
  let primary_len := l0 * 256 + l1 in
  p <- checked_add 64 p 2 ;;
  e <- checked_add 64 p primary_len ;;
  if n <? e then ret None else
  prim <- slice buf p e ;;
  prim <- to_vec prim ;;
  cnt <- red_loop (S (length buf)) buf n e 0 ;;
  ret (Some (seq, prim, cnt)).

(* try_deliver on a fresh UdtlReceiveBuffer: only the packet carrying the first expected sequence
   number is handed up *)
Definition udptl_recv (max_datagram : Z) (dgram : bytes) : M (option bytes) :=
  r <- udptl_parse max_datagram dgram ;;
  match r with
  | None => ret None
  | Some (seq, prim, _) => if seq =? UDPTL_FIRST_SEQ then ret (Some prim) else ret None
  end.
