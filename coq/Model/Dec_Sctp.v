(* C07 -- SCTP receive-side walkers and readers (src/transports/sctp.rs) and DCEP unmarshal
   (src/transports/datachannel.rs), access by access in the panic-aware monad.

   Only the *parsing* is modelled: which chunks / parameters / blocks are cut out of the byte string
   and handed to which handler; the association state machine behind the handlers belongs to
   C01/C12/C13.  The CRC-32C comparison of handle_packet is a boolean parameter. *)
From Coq Require Import ZArith List Lia Bool.
From RV Require Import Lib.Wrap Gen.Consts Gen.C07Consts Model.PanicLib.
Import ListNotations.
Open Scope Z_scope.
Open Scope pm_scope.

(* `let padding = (4 - (len % 4)) % 4; if buf.remaining() >= padding { buf.advance(padding) }` *)
Definition pad_of (n : Z) : Z := (SCTP_PAD - n mod 4) mod 4.
Definition skip_padding (n : Z) (c : bytes) : M bytes :=
  if pad_of n <=? len c then advance (pad_of n) c else ret c.

(* ---------------------------------------------------------------- handle_packet: chunk walker *)
Definition chunk := (Z * Z * bytes)%type.     (* type, flags, value *)

Fixpoint chunk_walk (fuel : nat) (buf : bytes) (acc : list chunk) : M (list chunk) :=
  match fuel with
  | O => out_of_fuel
  | S f =>
      if len buf =? 0 then ret acc else                               (* while buf.has_remaining() *)
      if len buf <? CHUNK_HEADER_SIZE then ret acc else               (* break *)
      ' (ty, c) <- get_u8 buf ;;
      ' (fl, c) <- get_u8 c ;;
      ' (clen, c) <- get_u16 c ;;
      if clen <? CHUNK_HEADER_SIZE then ret acc else                  (* break (short-circuit ||) *)
      vlen <- checked_sub clen CHUNK_HEADER_SIZE ;;
      if len c <? vlen then ret acc else                              (* break *)
      ' (value, c) <- split_to vlen c ;;
      c <- skip_padding clen c ;;
      chunk_walk f c (acc ++ [(ty, fl, value)])
  end.

(* the whole of handle_packet up to the dispatch *)
Definition sctp_packet (crc_ok : bool) (packet : bytes) : M (list chunk) :=
  if len packet <? SCTP_COMMON_HEADER_SIZE then ret [] else
  ' (_src, c) <- get_u16 packet ;;
  ' (_dst, c) <- get_u16 c ;;
  ' (_vtag, c) <- get_u32 c ;;
  ' (_sum, c) <- get_u32_le c ;;
  _h <- slice packet 0 8 ;;                                           (* &packet[..8] *)
  _p <- slice packet 12 (len packet) ;;                               (* &packet[12..] *)
  tick (len packet) ;;;                                               (* CRC-32C over the packet *)
  if negb crc_ok then ret [] else
  chunk_walk (S (length c)) c [].

(* ---------------------------------------------------------------- INIT / INIT-ACK *)
Definition init_fixed (c : bytes) : M (Z * Z * Z * bytes) :=
  ' (tag, c) <- get_u32 c ;;
  ' (rwnd, c) <- get_u32 c ;;
  ' (_os, c) <- get_u16 c ;;
  ' (_is, c) <- get_u16 c ;;
  ' (tsn, c) <- get_u32 c ;;
  ret (tag, rwnd, tsn, c).

Definition handle_init (chunk : bytes) : M (option (Z * Z * Z)) :=
  if len chunk <? SCTP_INIT_FIXED then ret None else
  ' (tag, rwnd, tsn, _) <- init_fixed chunk ;;
  ret (Some (tag, rwnd, tsn)).

(* parameter walker of handle_init_ack: the last parameter of type 7 is the cookie *)
Fixpoint param_walk (fuel : nat) (buf : bytes) (cookie : option bytes) : M (option bytes) :=
  match fuel with
  | O => out_of_fuel
  | S f =>
      if len buf <? SCTP_PARAM_HDR then ret cookie else               (* while buf.remaining() >= 4 *)
      ' (pty, c) <- get_u16 buf ;;
      ' (plen, c) <- get_u16 c ;;
      if plen <? SCTP_PARAM_MIN then ret cookie else
      vlen <- checked_sub plen 4 ;;
      if len c <? vlen then ret cookie else
      ' (value, c) <- split_to vlen c ;;
      c <- skip_padding plen c ;;
      param_walk f c (if pty =? SCTP_PARAM_COOKIE then Some value else cookie)
  end.

Definition handle_init_ack (chunk : bytes) : M (option bytes) :=
  if len chunk <? SCTP_INITACK_FIXED then ret None else
  ' (_tag, _rwnd, _tsn, c) <- init_fixed chunk ;;
  param_walk (S (length c)) c None.

(* ---------------------------------------------------------------- SACK *)
(* `for _ in 0..num_gap_ack_blocks { if buf.remaining() < 4 { break; } gap_blocks.push((get_u16, get_u16)) }` *)
Fixpoint gap_loop (fuel : nat) (n : Z) (buf : bytes) (acc : list (Z * Z)) : M (list (Z * Z)) :=
  match fuel with
  | O => out_of_fuel
  | S f =>
      if n <=? 0 then ret acc else
      if len buf <? SCTP_GAP_SIZE then ret acc else
      ' (s, c) <- get_u16 buf ;;
      ' (e, c) <- get_u16 c ;;
      push_cost 4 ;;;
      gap_loop f (n - 1) c (acc ++ [(s, e)])
  end.

Definition handle_sack (chunk : bytes) : M (option (Z * Z * list (Z * Z))) :=
  if SCTP_SACK_FIXED <=? len chunk then
    ' (cum, c) <- get_u32 chunk ;;
    ' (rwnd, c) <- get_u32 c ;;
    ' (ngap, c) <- get_u16 c ;;
    ' (_ndup, c) <- get_u16 c ;;
    gaps <- gap_loop (S (length c)) ngap c [] ;;
    ret (Some (cum, rwnd, gaps))
  else ret None.

(* ---------------------------------------------------------------- FORWARD-TSN *)
Fixpoint pair_loop (fuel : nat) (buf : bytes) (acc : list (Z * Z)) : M (list (Z * Z)) :=
  match fuel with
  | O => out_of_fuel
  | S f =>
      if len buf <? SCTP_FWD_PAIR then ret acc else
      ' (sid, c) <- get_u16 buf ;;
      ' (ssn, c) <- get_u16 c ;;
      push_cost 4 ;;;
      pair_loop f c (acc ++ [(sid, ssn)])
  end.

(* returns the new cumulative TSN (numeric `>` as in the code) and the stream/ssn pairs *)
Definition handle_forward_tsn (old_cum : Z) (chunk : bytes) : M (Z * list (Z * Z)) :=
  if len chunk <? SCTP_FWD_FIXED then ret (old_cum, []) else
  ' (new_cum, c) <- get_u32 chunk ;;
  pairs <- pair_loop (S (length c)) c [] ;;
  ret (if old_cum <? new_cum then new_cum else old_cum, pairs).

(* ---------------------------------------------------------------- RECONFIG *)
Fixpoint sid_loop (fuel : nat) (buf : bytes) (acc : list Z) : M (list Z) :=
  match fuel with
  | O => out_of_fuel
  | S f =>
      if len buf <? SCTP_RESET_SID then ret acc else
      ' (sid, c) <- get_u16 buf ;;
      push_cost 2 ;;;
      sid_loop f c (acc ++ [sid])
  end.

(* handle_reconfig_outgoing_ssn_reset: answer (request_sn, result), new last_peer_sn *)
Definition ssn_reset (last_sn : Z) (buf : bytes) : M (option (Z * Z) * Z) :=
  if len buf <? SCTP_RESET_FIXED then ret (None, last_sn) else
  ' (req, c) <- get_u32 buf ;;
  ' (_resp, c) <- get_u32 c ;;
  ' (_tsn, c) <- get_u32 c ;;
  if (req <=? last_sn) && negb (last_sn =? 4294967295)
  then ret (Some (req, RECONFIG_RESPONSE_SUCCESS_NOTHING_TO_DO), last_sn)
  else
    _sids <- sid_loop (S (length c)) c [] ;;
    ret (Some (req, RECONFIG_RESPONSE_SUCCESS_PERFORMED), req).

Definition reconfig_response (buf : bytes) : M unit :=
  if len buf <? 8 then ret tt else
  ' (_sn, c) <- get_u32 buf ;;
  ' (_res, c) <- get_u32 c ;;
  ret tt.

Fixpoint reconfig_walk (fuel : nat) (buf : bytes) (last_sn : Z) (acc : list (Z * Z)) : M (list (Z * Z) * Z) :=
  match fuel with
  | O => out_of_fuel
  | S f =>
      if len buf <? SCTP_RECONF_HDR then ret (acc, last_sn) else
      ' (pty, c) <- get_u16 buf ;;
      ' (plen, c) <- get_u16 c ;;
      if plen <? SCTP_RECONF_MIN then ret (acc, last_sn) else
      vlen <- checked_sub plen 4 ;;
      if len c <? vlen then ret (acc, last_sn) else
      ' (value, c) <- split_to vlen c ;;
      c <- skip_padding plen c ;;
      if pty =? RECONFIG_PARAM_OUTGOING_SSN_RESET then
        ' (ans, last_sn') <- ssn_reset last_sn value ;;
        reconfig_walk f c last_sn' (match ans with Some a => acc ++ [a] | None => acc end)
      else if pty =? RECONFIG_PARAM_RESPONSE then
        reconfig_response value ;;;
        reconfig_walk f c last_sn acc
      else reconfig_walk f c last_sn acc
  end.

Definition handle_reconfig (last_sn : Z) (chunk : bytes) : M (list (Z * Z) * Z) :=
  reconfig_walk (S (length chunk)) chunk last_sn [].

(* ---------------------------------------------------------------- DCEP *)
(* String::from_utf8: the well-formedness test of RFC 3629 (no overlongs, no surrogates, <= U+10FFFF) *)
Definition cont (b : Z) : bool := (128 <=? b) && (b <=? 191).
Fixpoint utf8_valid (l : bytes) : bool :=
  match l with
  | [] => true
  | b0 :: t1 =>
      if b0 <? 128 then utf8_valid t1 else
      match t1 with
      | [] => false
      | b1 :: t2 =>
          if (194 <=? b0) && (b0 <=? 223) then cont b1 && utf8_valid t2 else
          match t2 with
          | [] => false
          | b2 :: t3 =>
              if (b0 =? 224) then (160 <=? b1) && (b1 <=? 191) && cont b2 && utf8_valid t3 else
              if ((225 <=? b0) && (b0 <=? 236)) || (b0 =? 238) || (b0 =? 239) then cont b1 && cont b2 && utf8_valid t3 else
              if (b0 =? 237) then (128 <=? b1) && (b1 <=? 159) && cont b2 && utf8_valid t3 else
              match t3 with
              | [] => false
              | b3 :: t4 =>
                  if (b0 =? 240) then (144 <=? b1) && (b1 <=? 191) && cont b2 && cont b3 && utf8_valid t4 else
                  if (241 <=? b0) && (b0 <=? 243) then cont b1 && cont b2 && cont b3 && utf8_valid t4 else
                  if (b0 =? 244) then (128 <=? b1) && (b1 <=? 143) && cont b2 && cont b3 && utf8_valid t4 else
                  false
              end
          end
      end
  end.
Definition from_utf8 (b : bytes) : M bytes :=
  if utf8_valid (map byte b) then mkM (Ok b) (1 + len b) 0 else mkM (Err 9) (1 + len b) 0.

Record dcep_open := mkOpen { o_type : Z; o_chan : Z; o_prio : Z; o_rel : Z; o_label : bytes; o_proto : bytes }.

Definition dcep_open_unmarshal (data : bytes) : M dcep_open :=
  buf <- to_vec data ;;                                               (* Bytes::copy_from_slice *)
  if len buf <? DCEP_OPEN_MIN then err 1 else
  ' (mt, c) <- get_u8 buf ;;
  if negb (mt =? DCEP_TYPE_OPEN) then err 2 else
  ' (ct, c) <- get_u8 c ;;
  ' (prio, c) <- get_u16 c ;;
  ' (rel, c) <- get_u32 c ;;
  ' (llen, c) <- get_u16 c ;;
  ' (plen, c) <- get_u16 c ;;
  total <- checked_add 64 llen plen ;;
  if len c <? total then err 3 else
  ' (label, c) <- split_to llen c ;;
  ' (proto, c) <- split_to plen c ;;
  label <- to_vec label ;;
  label <- from_utf8 label ;;
  proto <- to_vec proto ;;
  proto <- from_utf8 proto ;;
  ret (mkOpen mt ct prio rel label proto).

Definition dcep_ack_unmarshal (data : bytes) : M Z :=
  if len data =? 0 then err 1 else
  mt <- idx data 0 ;;
  if negb (mt =? DCEP_TYPE_ACK) then err 2 else ret mt.

(* handle_dcep: 1 = an ACK is sent back (OPEN accepted), 0 = nothing sent *)
Definition handle_dcep (data : bytes) : M Z :=
  if len data =? 0 then ret 0 else
  mt <- idx data 0 ;;
  if mt =? DCEP_TYPE_OPEN then (_o <- dcep_open_unmarshal data ;; ret 1)
  else ret 0.

(* handle_data + process_data_payload for a chunk that is next in sequence: header reads, then DCEP *)
Definition data_chunk_dcep (chunk : bytes) : M (option (Z * Z * Z * Z)) :=
  if len chunk <? SCTP_DATA_FIXED then ret None else
  ' (tsn, _) <- get_u32 chunk ;;
  c <- advance SCTP_DATA_TSN_SKIP chunk ;;
  ' (sid, c) <- get_u16 c ;;
  ' (ssn, c) <- get_u16 c ;;
  ' (ppid, c) <- get_u32 c ;;
  if ppid =? DATA_CHANNEL_PPID_DCEP then (ack <- handle_dcep c ;; ret (Some (tsn, sid, ssn, ack)))
  else ret (Some (tsn, sid, ssn, 0)).

(* ---------------------------------------------------------------- digests *)
Definition bdig (b : bytes) : list Z := len b :: b.
Definition open_digest (o : dcep_open) : list Z :=
  [o_type o; o_chan o; o_prio o; o_rel o] ++ bdig (o_label o) ++ bdig (o_proto o).
