(* C19 (part 1) -- model of the inbound RTP demultiplexer of src/transports/rtp.rs:
   ListenerRegistry (by_ssrc / by_rid / by_mid maps, routes, route_for_sender_mut with
   closed-route pruning, register_mid, register_payload_types, register_payload_type,
   register_provisional, unique_by_pt, single_provisional, bind_ssrc_route, remove_sender),
   the public registration entry points of RtpTransport (register_listener_sync,
   register_rid_listener, register_mid_listener, register_pt_listener,
   register_payload_list_listener, register_provisional_listener, set_rid_extension_id,
   set_sdes_mid_extension_id, clear_listeners, has_listener) and the receiver selection +
   delivery + closed-listener removal of RtpTransport::receive.

   Definitions only; proofs live in Proofs/DemuxProofs.v.

   Listeners (mpsc::Sender) are identified by a channel id (`Sender::same_channel` = equality of
   ids); whether a channel is closed (`Sender::is_closed`, receiver dropped) is part of the
   state and only ever changes from open to closed (operation `Close`).
   HashMaps are association lists with at most one entry per key (`put` removes the old entry);
   nothing in the code depends on HashMap iteration order (retain / get / insert / remove only).
   Strings (RID / MID) are their UTF-8 byte lists; `std::str::from_utf8` is `utf8_valid`.
   A packet is what RtpPacket::parse produced: SSRC, payload type and the raw header-extension
   block (profile, data bytes); RID / MID extraction is the byte-level `get_extension` of C15's
   Model/Rtp.v (imported, not copied), so malformed blocks (truncated elements, id-15 terminators,
   padding, unknown profiles) are covered.
   The selection order and the per-stage SSRC-bind flags are NOT written here: they are
   `Gen.RtpDemux.demux_stages`, regenerated from the source on every run.
   Not modelled: SRTP unprotect, RTCP branch, observers, the received-packets counter, the rewrite
   bridge (Model/Bridge.v).
   Listener channels are bounded: `qs` is the log of (listener, packet tag) pairs currently queued, in
   arrival order (the queue of listener l is its sub-list), `cap` the channel capacity, `tick` the
   tag of the next arriving packet.  try_send: Closed is reported before Full; `Full` drops the
   packet after selection and SSRC binding took place and changes nothing else; `receive` never
   blocks and never reorders.  `Drain l` is the consumer emptying its channel.
   The MID guard (a packet naming a media section is not handed by the SSRC / payload-type /
   provisional stages to a listener registered for another MID; `fix:` in /repo) is switched by
   the regenerated `demux_mid_guard`, the stages exempt from it are `demux_ext_stages`. *)
From Coq Require Import ZArith List Bool.
From RV Require Import Lib.Wrap.
From RV Require Import Gen.RtpDemux.
From RV Require Model.RtpLib.
From RV Require Model.Rtp.
Import ListNotations.
Open Scope Z_scope.
Open Scope bool_scope.

Definition lid : Set := Z.              (* listener channel identity *)
Definition key : Set := list Z.         (* a String, as UTF-8 bytes *)

Fixpoint key_eqb (a b : key) : bool :=
  match a, b with
  | [], [] => true
  | x :: a', y :: b' => (x =? y) && key_eqb a' b'
  | _, _ => false
  end.

(* ---- std::str::from_utf8 (Unicode table 3-7, well-formed byte sequences) *)
Definition in_rng (lo hi b : Z) : bool := (lo <=? b) && (b <=? hi).
Definition cont (b : Z) : bool := in_rng 128 191 b.
Fixpoint utf8_valid (l : list Z) : bool :=
  match l with
  | [] => true
  | b0 :: t =>
      if in_rng 0 127 b0 then utf8_valid t
      else match t with
      | [] => false
      | b1 :: t1 =>
          if in_rng 194 223 b0 then cont b1 && utf8_valid t1
          else match t1 with
          | [] => false
          | b2 :: t2 =>
              if b0 =? 224 then in_rng 160 191 b1 && cont b2 && utf8_valid t2
              else if in_rng 225 236 b0 || in_rng 238 239 b0 then cont b1 && cont b2 && utf8_valid t2
              else if b0 =? 237 then in_rng 128 159 b1 && cont b2 && utf8_valid t2
              else match t2 with
              | [] => false
              | b3 :: t3 =>
                  if b0 =? 240 then in_rng 144 191 b1 && cont b2 && cont b3 && utf8_valid t3
                  else if in_rng 241 243 b0 then cont b1 && cont b2 && cont b3 && utf8_valid t3
                  else if b0 =? 244 then in_rng 128 143 b1 && cont b2 && cont b3 && utf8_valid t3
                  else false
              end
          end
      end
  end.

(* ---- registry *)
Record route : Set := mkRoute { r_mid : option key; r_pts : list Z; r_tx : lid; r_prov : bool }.

Record st : Set := mkSt {
  by_ssrc : list (Z * lid);
  by_rid : list (key * lid);
  by_mid : list (key * lid);
  routes : list route;
  rid_id : Z;               (* AtomicU8, EXT_ID_NONE = not configured *)
  mid_id : Z;
  closed : list lid;        (* channels whose receiver is gone *)
  qs : list (lid * Z);      (* queued (listener, packet tag), oldest first *)
  cap : Z;                  (* capacity of every listener channel *)
  tick : Z }.               (* tag of the next arriving packet *)

Definition init_with (c : Z) : st := mkSt [] [] [] [] EXT_ID_NONE EXT_ID_NONE [] [] c 0.
Definition init : st := init_with 8.

(* p_ext: the header extension block as parsed: (profile, data bytes) *)
Record pkt : Set := mkPkt { p_ssrc : Z; p_pt : Z; p_ext : option (Z * list Z) }.

Inductive op : Set :=
| RegSsrc (ssrc : Z) (l : lid)          (* register_listener_sync *)
| RegRid (rid : key) (l : lid)          (* register_rid_listener *)
| RegMid (mid : key) (l : lid)          (* register_mid_listener *)
| RegPt (pt : Z) (l : lid)              (* register_pt_listener *)
| RegPtList (pts : list Z) (l : lid)    (* register_payload_list_listener *)
| RegProv (l : lid)                     (* register_provisional_listener *)
| SetRidId (id : Z)                     (* set_rid_extension_id (0 = None) *)
| SetMidId (id : Z)                     (* set_sdes_mid_extension_id *)
| Close (l : lid)                       (* the listener's receiver is dropped (with what it held) *)
| ClearListeners                        (* clear_listeners *)
| Probe (ssrc : Z)                      (* has_listener: observation only *)
| Drain (l : lid)                       (* the consumer of listener l empties its channel *)
| Recv (p : pkt).                       (* RtpTransport::receive of a parsed RTP packet *)

(* ---- setters *)
Definition set_by_ssrc (s : st) (m : list (Z * lid)) : st :=
  mkSt m (by_rid s) (by_mid s) (routes s) (rid_id s) (mid_id s) (closed s) (qs s) (cap s) (tick s).
Definition set_by_rid (s : st) (m : list (key * lid)) : st :=
  mkSt (by_ssrc s) m (by_mid s) (routes s) (rid_id s) (mid_id s) (closed s) (qs s) (cap s) (tick s).
Definition set_by_mid (s : st) (m : list (key * lid)) : st :=
  mkSt (by_ssrc s) (by_rid s) m (routes s) (rid_id s) (mid_id s) (closed s) (qs s) (cap s) (tick s).
Definition set_routes (s : st) (r : list route) : st :=
  mkSt (by_ssrc s) (by_rid s) (by_mid s) r (rid_id s) (mid_id s) (closed s) (qs s) (cap s) (tick s).
Definition set_ids (s : st) (r m : Z) : st :=
  mkSt (by_ssrc s) (by_rid s) (by_mid s) (routes s) r m (closed s) (qs s) (cap s) (tick s).
Definition set_closed (s : st) (c : list lid) : st :=
  mkSt (by_ssrc s) (by_rid s) (by_mid s) (routes s) (rid_id s) (mid_id s) c (qs s) (cap s) (tick s).
Definition set_qs (s : st) (q : list (lid * Z)) (t : Z) : st :=
  mkSt (by_ssrc s) (by_rid s) (by_mid s) (routes s) (rid_id s) (mid_id s) (closed s) q (cap s) t.

(* ---- maps *)
Definition zget (m : list (Z * lid)) (k : Z) : option lid :=
  option_map snd (find (fun e => fst e =? k) m).
Definition zdel (m : list (Z * lid)) (k : Z) : list (Z * lid) :=
  filter (fun e => negb (fst e =? k)) m.
Definition zput (m : list (Z * lid)) (k : Z) (v : lid) : list (Z * lid) := (k, v) :: zdel m k.

Definition kget (m : list (key * lid)) (k : key) : option lid :=
  option_map snd (find (fun e => key_eqb (fst e) k) m).
Definition kdel (m : list (key * lid)) (k : key) : list (key * lid) :=
  filter (fun e => negb (key_eqb (fst e) k)) m.
Definition kput (m : list (key * lid)) (k : key) (v : lid) : list (key * lid) := (k, v) :: kdel m k.

Definition is_closed (s : st) (l : lid) : bool := existsb (Z.eqb l) (closed s).
(* retain(|_, tx| !tx.is_closed()) *)
Definition keep_open {K : Set} (s : st) (m : list (K * lid)) : list (K * lid) :=
  filter (fun e => negb (is_closed s (snd e))) m.
(* retain(|_, tx| !tx.same_channel(l)) *)
Definition drop_tx {K : Set} (l : lid) (m : list (K * lid)) : list (K * lid) :=
  filter (fun e => negb (snd e =? l)) m.

(* ---- ListenerRegistry::route_for_sender_mut followed by an update `f` of the returned route *)
Fixpoint update_first (l : lid) (f : route -> route) (rs : list route) : list route :=
  match rs with
  | [] => []
  | r :: rest => if r_tx r =? l then f r :: rest else r :: update_first l f rest
  end.

Definition with_route (s : st) (l : lid) (f : route -> route) : st :=
  if existsb (fun r => r_tx r =? l) (routes s)
  then set_routes s (update_first l f (routes s))
  else set_routes s (filter (fun r => negb (is_closed s (r_tx r))) (routes s)
                     ++ [f (mkRoute None [] l false)]).

Definition contains (pts : list Z) (pt : Z) : bool := existsb (Z.eqb pt) pts.

(* for pt in payload_types { if !route.payload_types.contains(&pt) { push } } *)
Fixpoint push_dedup (acc : list Z) (pts : list Z) : list Z :=
  match pts with
  | [] => acc
  | p :: rest => if contains acc p then push_dedup acc rest else push_dedup (acc ++ [p]) rest
  end.

Definition register_mid (s : st) (mid : key) (l : lid) : st :=
  with_route (set_by_mid s (kput (by_mid s) mid l)) l
             (fun r => mkRoute (Some mid) (r_pts r) (r_tx r) (r_prov r)).
Definition register_payload_types (s : st) (pts : list Z) (l : lid) : st :=
  with_route s l (fun r => mkRoute (r_mid r) (push_dedup [] pts) (r_tx r) (r_prov r)).
Definition register_payload_type (s : st) (pt : Z) (l : lid) : st :=
  with_route s l (fun r => mkRoute (r_mid r) (if contains (r_pts r) pt then r_pts r else r_pts r ++ [pt])
                                   (r_tx r) (r_prov r)).
Definition register_provisional (s : st) (l : lid) : st :=
  with_route s l (fun r => mkRoute (r_mid r) (r_pts r) (r_tx r) true).

(* bind_ssrc_route: retain open entries, insert *)
Definition bind_ssrc_route (s : st) (ssrc : Z) (l : lid) : st :=
  set_by_ssrc s (zput (keep_open s (by_ssrc s)) ssrc l).
Definition register_rid (s : st) (rid : key) (l : lid) : st :=
  set_by_rid s (kput (keep_open s (by_rid s)) rid l).

Definition remove_sender (s : st) (l : lid) : st :=
  mkSt (drop_tx l (by_ssrc s)) (drop_tx l (by_rid s)) (drop_tx l (by_mid s))
       (filter (fun r => negb (r_tx r =? l)) (routes s)) (rid_id s) (mid_id s) (closed s)
       (qs s) (cap s) (tick s).

(* unique_by_pt / single_provisional: one scan, the first matching route is remembered, a later
   matching route on another channel makes the answer None *)
Fixpoint scan_unique (want : route -> bool) (sel : option lid) (rs : list route) : option lid :=
  match rs with
  | [] => sel
  | r :: rest =>
      if want r then
        match sel with
        | Some e => if e =? r_tx r then scan_unique want sel rest else None
        | None => scan_unique want (Some (r_tx r)) rest
        end
      else scan_unique want sel rest
  end.
Definition unique_by_pt (rs : list route) (pt : Z) : option lid :=
  scan_unique (fun r => contains (r_pts r) pt) None rs.
Definition single_provisional (rs : list route) : option lid :=
  scan_unique r_prov None rs.

(* ---- header extensions of the packet: RtpHeader::get_extension, byte level (C15's model) *)
Definition hdr_of (p : pkt) : Rtp.header :=
  Rtp.mkHdr false (p_pt p) 0 0 (p_ssrc p) []
            (match p_ext p with Some (prof, d) => Some (Rtp.mkExt prof d) | None => None end).
Definition get_ext (p : pkt) (id : Z) : option (list Z) :=
  match Rtp.get_extension (hdr_of p) id with
  | RtpLib.Ok (Some d) => Some d
  | _ => None
  end.
(* decode_ext_id(id).and_then(get_extension) followed by from_utf8(..).ok() *)
Definition ext_key (id : Z) (p : pkt) : option key :=
  if id =? EXT_ID_NONE then None
  else match get_ext p id with
       | Some d => if utf8_valid d then Some d else None
       | None => None
       end.
Definition pkt_rid (s : st) (p : pkt) : option key := ext_key (rid_id s) p.
Definition pkt_mid (s : st) (p : pkt) : option key := ext_key (mid_id s) p.

(* ---- selection *)
Definition lookup_stage (s : st) (p : pkt) (g : stage) : option lid :=
  match g with
  | StRid => match pkt_rid s p with Some k => kget (by_rid s) k | None => None end
  | StMid => match pkt_mid s p with Some k => kget (by_mid s) k | None => None end
  | StSsrc => zget (by_ssrc s) (p_ssrc p)
  | StPt => unique_by_pt (routes s) (p_pt p)
  | StProv => single_provisional (routes s)
  end.

Fixpoint select_in (stages : list (stage * bool)) (s : st) (p : pkt) : option (lid * stage * bool) :=
  match stages with
  | [] => None
  | (g, b) :: rest =>
      match lookup_stage s p g with
      | Some l => Some (l, g, b)
      | None => select_in rest s p
      end
  end.
Definition select_raw (s : st) (p : pkt) : option (lid * stage * bool) := select_in demux_stages s p.

(* ListenerRegistry::registered_for_other_mid *)
Definition other_mid (s : st) (l : lid) (m : key) : bool :=
  existsb (fun r => (r_tx r =? l) &&
                    match r_mid r with Some m' => negb (key_eqb m' m) | None => false end) (routes s).
Definition is_ext_stage (g : stage) : bool :=
  existsb (fun g' => match g, g' with
                     | StRid, StRid | StMid, StMid | StSsrc, StSsrc | StPt, StPt | StProv, StProv => true
                     | _, _ => false end) demux_ext_stages.
(* the candidate of a non-extension stage that registered for another section than the packet names *)
Definition foreign (s : st) (p : pkt) (l : lid) (g : stage) : bool :=
  demux_mid_guard && negb (is_ext_stage g) &&
  match pkt_mid s p with Some m => other_mid s l m | None => false end.

Definition select (s : st) (p : pkt) : option (lid * stage * bool) :=
  match select_raw s p with
  | Some (l, g, b) => if foreign s p l g then None else Some (l, g, b)
  | None => None
  end.

(* ---- bounded listener channels *)
Definition queue (s : st) (l : lid) : list Z := map snd (filter (fun e => fst e =? l) (qs s)).
Definition qlen (s : st) (l : lid) : Z := Z.of_nat (length (queue s l)).
Definition is_full (s : st) (l : lid) : bool := cap s <=? qlen s l.

(* ---- receive: state after, and the listeners the packet was handed to *)
Definition recv (s : st) (p : pkt) : st * list lid :=
  match select s p with
  | None => (s, [])
  | Some (l, _, bind) =>
      let s1 := if bind then bind_ssrc_route s (p_ssrc p) l else s in
      if is_closed s1 l
      then (remove_sender (set_by_ssrc s1 (zdel (by_ssrc s1) (p_ssrc p))) l, [])
      else if is_full s1 l then (s1, [])
      else (s1, [l])
  end.

(* the delivered packet (tag = tick) is appended to the log; every arrival advances the tick *)
Definition after_recv (s : st) (d : list lid) : st :=
  set_qs s (qs s ++ map (fun l => (l, tick s)) d) (tick s + 1).

Definition clear_listeners (s : st) : st :=
  mkSt [] [] [] [] (rid_id s) (mid_id s) (closed s) (qs s) (cap s) (tick s).

Definition wrap_id (id : Z) : Z := cast_u8 id.

Definition step (s : st) (o : op) : st * list lid :=
  match o with
  | RegSsrc x l => (bind_ssrc_route s x l, [])
  | RegRid k l => (register_rid s k l, [])
  | RegMid k l => (register_mid s k l, [])
  | RegPt pt l => (register_payload_type s pt l, [])
  | RegPtList pts l => (register_payload_types s pts l, [])
  | RegProv l => (register_provisional s l, [])
  | SetRidId i => (set_ids s (wrap_id i) (mid_id s), [])
  | SetMidId i => (set_ids s (rid_id s) (wrap_id i), [])
  | Close l => (set_qs (set_closed s (l :: closed s)) (filter (fun e => negb (fst e =? l)) (qs s)) (tick s), [])
  | ClearListeners => (clear_listeners s, [])
  | Probe _ => (s, [])
  | Drain l => (set_qs s (filter (fun e => negb (fst e =? l)) (qs s)) (tick s), [])
  | Recv p => (after_recv (fst (recv s p)) (snd (recv s p)), snd (recv s p))
  end.

Fixpoint run (s : st) (ops : list op) : st :=
  match ops with
  | [] => s
  | o :: rest => run (fst (step s o)) rest
  end.

(* deliveries, one list per operation *)
Fixpoint run_out (s : st) (ops : list op) : list (list lid) :=
  match ops with
  | [] => []
  | o :: rest => snd (step s o) :: run_out (fst (step s o)) rest
  end.

(* ---- observations compared with the implementation: for every Recv the listeners that got the
   packet and has_listener(ssrc) afterwards; for every Probe has_listener(ssrc); for every Drain
   the tags of the packets taken from the channel, in the order received *)
Definition has_listener (s : st) (ssrc : Z) : bool :=
  match zget (by_ssrc s) ssrc with Some _ => true | None => false end.

Definition obs : Set := (list lid * bool)%type.
Fixpoint run_obs (s : st) (ops : list op) : list obs :=
  match ops with
  | [] => []
  | o :: rest =>
      let '(s', d) := step s o in
      match o with
      | Recv p => (d, has_listener s' (p_ssrc p)) :: run_obs s' rest
      | Probe x => ([], has_listener s' x) :: run_obs s' rest
      | Drain l => (queue s l, false) :: run_obs s' rest
      | _ => run_obs s' rest
      end
  end.

(* does listener l occur anywhere in the registry *)
Definition occurs (s : st) (l : lid) : bool :=
  existsb (fun e => snd e =? l) (by_ssrc s) || existsb (fun e => snd e =? l) (by_rid s)
  || existsb (fun e => snd e =? l) (by_mid s) || existsb (fun r => r_tx r =? l) (routes s).

(* operations that (re-)register listener l *)
Definition registers (o : op) (l : lid) : bool :=
  match o with
  | RegSsrc _ l' | RegRid _ l' | RegMid _ l' | RegPt _ l' | RegPtList _ l' | RegProv l' => l' =? l
  | _ => false
  end.
