(* Symbolic (Dolev-Yao style) model of the DTLS 1.2 handshake machine of
   /repo/src/transports/dtls/mod.rs: `handshake()` loop, `handle_incoming_packet`,
   `try_decrypt_record`, `handle_decrypted_record`, `process_handshake_payload`
   (message-seq filter, duplicate ClientHello re-flight, post-HVR resync, fragment buffer that
   takes fragments strictly in offset order), every `handle_*`, `HandshakeContext`, the retransmit tick, the
   handshake deadline and the `export_keying_material` gate.

   Byte strings are values of an abstract type T; messages are constructor terms over T;
   cryptography is a record of functions `crypto` that every definition takes as an argument
   (no global assumption about it anywhere).  Definitions only: total and computable. *)
From Coq Require Import ZArith List Bool.
From RecordUpdate Require Import RecordSet.
From RV Require Import Gen.Dtls.
Import ListNotations.
Import RecordSetNotations.
Open Scope Z_scope.

Inductive role : Set := Client | Server.

Inductive label : Set :=
| LMaster | LExtMaster | LKeyExp | LClientFin | LServerFin | LExport (l : list Z).

Section Sym.
Context {T : Type}.

(* ---------------------------------------------------------------- handshake message bodies *)
Inductive body : Type :=
| BClientHello (random cookie : T) (ems : bool) (profiles : list Z)
| BServerHello (random sid : T) (ems : bool) (profile : option Z)
| BHelloVerify (cookie : T)
| BCertificate (certs : list T)
| BServerKeyExchange (curve_type named_curve : Z) (pubkey sig : T)
| BServerHelloDone
| BClientKeyExchange (pubkey : T)
| BFinished (vd : T)
| BGarbled.  (* bytes that are not the encoding of any message: out-of-order reassembly, tampering *)

(* the bytes carried by one handshake fragment *)
Inductive chunk : Type :=
| CWhole (b : body)                          (* the complete encoding of b *)
| CSlice (b : body) (lo : Z) (hi : option Z). (* bytes [lo,hi) of the encoding of b; None = up to its end *)

Record frag : Type := mkFrag {
  f_type : Z; f_seq : Z; f_total : Z; f_off : Z; f_len : Z; f_data : chunk }.

(* a complete message as it enters the transcript / a handler *)
Record hmsg : Type := mkH { h_type : Z; h_seq : Z; h_body : body }.

Inductive content : Type :=
| KHandshake (fs : list frag)
| KCcs
| KAppData (d : T)
| KAlert (descr : option Z)   (* None: payload shorter than 2 bytes *)
| KOther.                     (* heartbeat *)

(* r_seal = Some (key, iv): the payload is an AEAD ciphertext made with (key, iv) for exactly this
   header and content (a tampered ciphertext is one sealed under an unknown key) *)
Record record : Type := mkRec { r_epoch : Z; r_seq : Z; r_seal : option (T * T); r_content : content }.

Inductive wire : Type := WRec (r : record) | WJunk. (* WJunk: DtlsRecord::decode fails / truncated *)

(* ---------------------------------------------------------------- cryptography: arguments *)
Record crypto : Type := mkCrypto {
  t_eqb : T -> T -> bool;
  hashT : list hmsg -> T;                 (* SHA-256 of the concatenated raw handshake messages *)
  prf : T -> label -> list T -> T;        (* TLS 1.2 PRF (secret, label, seed parts) *)
  verify : T -> list T -> T -> bool;      (* ECDSA: verifying key, signed parts, signature *)
  sign : T -> list T -> T;                (* signing key, signed parts *)
  cert_pk : T -> option T;                (* certificate_public_key(der) *)
  fingerprint : T -> T;                   (* fingerprint_from_der *)
  dh : T -> T -> option T;                (* ECDH; None when from_sec1_bytes rejects the point *)
  pub : T -> T;                           (* public point of an ephemeral secret *)
  slice : T -> Z -> Z -> T;               (* byte range of a PRF output *)
  znum : Z -> T;                          (* curve_type / named_curve bytes *)
  nil_bytes : T;                          (* empty cookie *)
  zero_vd : T                             (* vec![0u8; 12] *)
}.

Record keys : Type := mkKeys { k_ms : T; k_cr : T; k_sr : T; k_block : T }.

Inductive cstate : Type :=
| StNew | StHandshaking | StConnected (k : keys) (p : option Z) | StFailed | StClosed.

(* ghost log of the branches taken (never read by the machine) *)
Inductive event : Type :=
| EvCert (c : T)
| EvSke (c cr sr : T) (ct nc : Z) (pk sg : T)
| EvKeys (k : keys) (pms : T) (tr : list hmsg)
| EvFinOk (vd : T) (ms : T) (tr : list hmsg)
| EvConnected (k : keys) (p : option Z)
| EvApp (d : T)
| EvFailed (why : Z)
| EvClosed.

Inductive out : Type := OSend (r : record) | OUp (d : T).

Record cfg : Type := mkCfg {
  g_role : role;
  g_certs : list T;       (* own certificate chain *)
  g_sk : T;               (* own signing key *)
  g_eph : T;              (* ephemeral ECDH secret *)
  g_rand : T;             (* own hello random *)
  g_sid : T;              (* session id the server picks *)
  g_expected : option T   (* expected remote fingerprint *)
}.

Record ctx : Type := mkCtx {
  x_cfg : cfg;
  st : cstate;
  seqno : Z;              (* sequence_number *)
  epoch : Z;
  read_epoch : Z;
  mseq : Z;               (* message_seq *)
  rseq : Z;               (* recv_message_seq *)
  post_hvr : bool;
  last_flight : option (list record);
  inc : list chunk;       (* incomplete_handshake *)
  inc_len : Z;
  inc_seq : Z;            (* incomplete_msg_seq *)
  has_secret : bool;      (* local_secret.is_some() *)
  peer_pub : option T;
  peer_cert : option T;
  crand : option T;
  srand : option T;
  skeys : option keys;
  tr : list hmsg;         (* handshake_messages *)
  ems : bool;
  profile : option Z;
  ske_ok : bool;          (* server_key_exchange_verified *)
  alive : bool;           (* the handshake() loop is still running *)
  log : list event
}.

#[global] Instance eta_ctx : Settable ctx := settable! mkCtx
  <x_cfg; st; seqno; epoch; read_epoch; mseq; rseq; post_hvr; last_flight; inc; inc_len; inc_seq;
   has_secret; peer_pub; peer_cert; crand; srand; skeys; tr; ems; profile; ske_ok; alive; log>.

Definition is_client (c : ctx) : bool := match g_role (x_cfg c) with Client => true | Server => false end.
Definition code (t : HandshakeType) : Z := HandshakeType_code t.

Definition hres : Type := (ctx * list out * bool)%type.   (* bool: the handler returned Err *)
Definition ok (c : ctx) (o : list out) : hres := (c, o, false).
Definition err (c : ctx) (o : list out) : hres := (c, o, true).
Definition add_log (e : event) (c : ctx) : ctx := c <| log := log c ++ [e] |>.
Definition fail (c : ctx) (why : Z) (o : list out) : hres :=
  (add_log (EvFailed why) (c <| st := StFailed |>), o, true).

Section WithCrypto.
Variable C : crypto.

Definition opt_eqb (a b : option T) : bool :=
  match a, b with Some x, Some y => t_eqb C x y | None, None => true | _, _ => false end.

Definition kslice (k : keys) (i : nat) : T :=
  let '(a, b) := nth i key_block_slices (0, 0) in slice C (k_block k) a b.
Definition client_write (k : keys) : T * T := (kslice k 0, kslice k 2).
Definition server_write (k : keys) : T * T := (kslice k 1, kslice k 3).
Definition write_keys (c : ctx) (k : keys) : T * T := if is_client c then client_write k else server_write k.
Definition read_keys (c : ctx) (k : keys) : T * T := if is_client c then server_write k else client_write k.

Definition expand_keys (ms cr sr : T) : keys := mkKeys ms cr sr (prf C ms LKeyExp [sr; cr]).

Definition master_secret (c : ctx) (pms cr sr : T) : T :=
  if ems c then prf C pms LExtMaster [hashT C (tr c)] else prf C pms LMaster [cr; sr].

Definition verify_data (ms : T) (l : label) (t : list hmsg) : T := prf C ms l [hashT C t].

Definition resend (c : ctx) : list out :=
  match last_flight c with Some rs => map OSend rs | None => [] end.

Definition whole (m : hmsg) : frag := mkFrag (h_type m) (h_seq m) 0 0 0 (CWhole (h_body m)).

(* build_handshake_record: sealed iff epoch > 0 and keys are given *)
Definition hs_record (c : ctx) (m : hmsg) (k : option keys) : record :=
  mkRec (epoch c) (seqno c)
        (if 0 <? epoch c then match k with Some k => Some (write_keys c k) | None => None end else None)
        (KHandshake [whole m]).

Definition ccs_record (c : ctx) : record := mkRec (epoch c) (seqno c) None KCcs.

(* ---------------------------------------------------------------- handle_certificate *)
Definition handle_certificate (c : ctx) (m : hmsg) : hres :=
  let mismatch (leaf : T) :=
    match g_expected (x_cfg c) with Some e => negb (t_eqb C (fingerprint C leaf) e) | None => false end in
  match h_body m with
  | BCertificate [] => fail c 1 []
  | BCertificate (leaf :: _) =>
      if mismatch leaf then fail c 2 []
      else match cert_pk C leaf with
           | None => fail c 3 []
           | Some _ => ok (add_log (EvCert leaf) (c <| peer_cert := Some leaf |>)) []
           end
  | BGarbled =>
      (* a garbled Certificate keeps its length prefixes (they sit in the first fragment) and
         decodes to a leaf that is no certificate: fingerprint mismatch or unparsable key *)
      match g_expected (x_cfg c) with Some _ => fail c 2 [] | None => fail c 3 [] end
  | _ => err c []     (* CertificateMessage::decode(..)? *)
  end.

(* ---------------------------------------------------------------- handle_client_hello *)
Definition select_profile (profs : list Z) : option Z :=
  match profs with
  | [] => None
  | p :: _ => Some (if existsb (Z.eqb SRTP_PREFERRED) profs then SRTP_PREFERRED else p)
  end.

Definition server_flight_msgs (c : ctx) (cr sr : T) (e : bool) (sel : option Z) : list hmsg :=
  let sg := sign C (g_sk (x_cfg c))
                 [cr; sr; znum C SKE_CURVE_TYPE; znum C SKE_NAMED_CURVE; pub C (g_eph (x_cfg c))] in
  [ mkH (code HandshakeType_ServerHello) (mseq c) (BServerHello sr (g_sid (x_cfg c)) e sel);
    mkH (code HandshakeType_Certificate) (mseq c + 1) (BCertificate (g_certs (x_cfg c)));
    mkH (code HandshakeType_ServerKeyExchange) (mseq c + 2)
        (BServerKeyExchange SKE_CURVE_TYPE SKE_NAMED_CURVE (pub C (g_eph (x_cfg c))) sg);
    mkH (code HandshakeType_ServerHelloDone) (mseq c + 3) BServerHelloDone ].

Definition plain_records (ep s0 : Z) (ms : list hmsg) : list record :=
  map (fun '(i, m) => mkRec ep (s0 + Z.of_nat i) None (KHandshake [whole m]))
      (combine (seq 0 (length ms)) ms).

Definition handle_client_hello (c : ctx) (m : hmsg) : hres :=
  if is_client c then ok c [] else
  match srand c with
  | Some _ => ok c (resend c)
  | None =>
    match h_body m with
    | BClientHello r _ e profs =>
      let sr := g_rand (x_cfg c) in
      let e' := ems c || e in
      let sel := select_profile profs in
      let msgs := server_flight_msgs c r sr e' sel in
      let recs := plain_records (epoch c) (seqno c) msgs in
      let c1 := c <| crand := Some r |> <| ems := e' |> <| srand := Some sr |>
                  <| profile := match sel with Some p => Some p | None => profile c end |>
                  <| tr := tr c ++ msgs |> <| seqno := seqno c + 4 |> <| mseq := mseq c + 4 |>
                  <| last_flight := Some recs |> in
      ok c1 (map OSend recs)
    | _ => ok c []
    end
  end.

(* ---------------------------------------------------------------- key derivation (both roles) *)
Definition derive (c : ctx) : option (keys * T) :=
  match peer_pub c with
  | None => None
  | Some pk =>
    if has_secret c then
      match dh C (g_eph (x_cfg c)) pk with
      | None => None
      | Some pms =>
        match crand c, srand c with
        | Some cr, Some sr => Some (expand_keys (master_secret c pms cr sr) cr sr, pms)
        | _, _ => None
        end
      end
    else None
  end.

Definition handle_client_key_exchange (c : ctx) (m : hmsg) : hres :=
  if is_client c then ok c [] else
  match skeys c with
  | Some _ => ok c []
  | None =>
    match h_body m with
    | BClientKeyExchange pk =>
      let c1 := c <| peer_pub := Some pk |> in
      match derive c1 with
      | Some (k, pms) => ok (add_log (EvKeys k pms (tr c1)) (c1 <| skeys := Some k |>)) []
      | None => ok c1 []
      end
    | _ => ok c []
    end
  end.

(* ---------------------------------------------------------------- handle_finished *)
Definition vd_matches (b : body) (expected : T) : bool :=
  match b with BFinished vd => t_eqb C vd expected | _ => false end.
Definition body_vd (b : body) : T := match b with BFinished vd => vd | _ => zero_vd C end.

Definition handle_finished (c : ctx) (m : hmsg) : hres :=
  if is_client c then
    match skeys c with
    | None => ok c []
    | Some k =>
      if vd_matches (h_body m) (verify_data (k_ms k) LServerFin (tr c)) then
        ok (add_log (EvConnected k (profile c))
             (add_log (EvFinOk (body_vd (h_body m)) (k_ms k) (tr c))
                (c <| st := StConnected k (profile c) |> <| has_secret := false |>))) []
      else fail c 7 []
    end
  else
    let bad := match skeys c with
               | Some k => negb (vd_matches (h_body m) (verify_data (k_ms k) LClientFin (tr c)))
               | None => false
               end in
    if bad then fail c 8 [] else
    let c0 := match skeys c with
              | Some k => add_log (EvFinOk (body_vd (h_body m)) (k_ms k) (tr c)) c
              | None => c
              end in
    let c1 := c0 <| tr := tr c ++ [m] |> in
    let ccs := ccs_record c1 in
    let c2 := c1 <| epoch := epoch c1 + 1 |> <| seqno := 0 |> in
    let vd := match skeys c2 with
              | Some k => verify_data (k_ms k) LServerFin (tr c2)
              | None => zero_vd C
              end in
    let fin := mkH (code HandshakeType_Finished) (mseq c2) (BFinished vd) in
    let c3 := c2 <| tr := tr c2 ++ [fin] |> in
    let rec := hs_record c3 fin (skeys c3) in
    let c4 := c3 <| seqno := seqno c3 + 1 |> <| last_flight := Some [ccs; rec] |> in
    let o := [OSend ccs; OSend rec] in
    match skeys c4 with
    | Some k =>
        ok (add_log (EvConnected k (profile c4))
              (c4 <| st := StConnected k (profile c4) |> <| has_secret := false |>)) o
    | None => fail c4 9 o
    end.

(* ---------------------------------------------------------------- handle_hello_verify_request *)
Definition handle_hello_verify_request (c : ctx) (m : hmsg) : hres :=
  match h_body m with
  | BHelloVerify cookie =>
    let r := match crand c with Some r => r | None => g_rand (x_cfg c) end in
    let ch := mkH (code HandshakeType_ClientHello) (mseq c)
                  (BClientHello r cookie CLIENT_OFFERS_EMS CLIENT_SRTP_PROFILES) in
    let rec := hs_record c ch None in
    ok (c <| tr := [ch] |> <| seqno := seqno c + 1 |> <| last_flight := Some [rec] |>
          <| mseq := mseq c + 1 |> <| post_hvr := true |>) [OSend rec]
  | _ => ok c []
  end.

(* ---------------------------------------------------------------- handle_server_hello *)
Definition handle_server_hello (c : ctx) (m : hmsg) : hres :=
  if is_client c then
    match h_body m with
    | BServerHello r _ e p =>
      ok (c <| srand := Some r |> <| ems := ems c || e |>
            <| profile := match p with Some q => Some q | None => profile c end |>) []
    | _ => ok c []
    end
  else ok c [].

(* ---------------------------------------------------------------- handle_server_key_exchange *)
Definition handle_server_key_exchange (c : ctx) (m : hmsg) : hres :=
  if is_client c then
    match h_body m with
    | BServerKeyExchange ct nc pk sg =>
      match peer_cert c with
      | None => fail c 4 []
      | Some cert =>
        match crand c, srand c with
        | Some cr, Some sr =>
          match cert_pk C cert with
          | None => fail c 5 []
          | Some vk =>
            if verify C vk [cr; sr; znum C ct; znum C nc; pk] sg then
              ok (add_log (EvSke cert cr sr ct nc pk sg)
                    (c <| peer_pub := Some pk |> <| ske_ok := true |>)) []
            else fail c 5 []
          end
        | _, _ => fail c 10 []
        end
      end
    | _ => ok c []
    end
  else ok c [].

(* ---------------------------------------------------------------- handle_server_hello_done *)
Definition handle_server_hello_done (c : ctx) : hres :=
  match skeys c with
  | Some _ => ok c []
  | None =>
    if is_client c && negb (ske_ok c) then fail c 6 [] else
    let cke := mkH (code HandshakeType_ClientKeyExchange) (mseq c)
                   (BClientKeyExchange (pub C (g_eph (x_cfg c)))) in
    let c1 := c <| tr := tr c ++ [cke] |> in
    let rcke := hs_record c1 cke None in
    let c2 := c1 <| seqno := seqno c1 + 1 |> <| mseq := mseq c1 + 1 |> in
    match derive c2 with
    | None => ok c2 [OSend rcke]
    | Some (k, pms) =>
      let c3 := add_log (EvKeys k pms (tr c2)) (c2 <| skeys := Some k |>) in
      let ccs := ccs_record c3 in
      let c4 := c3 <| epoch := epoch c3 + 1 |> <| seqno := 0 |> in
      let fin := mkH (code HandshakeType_Finished) (mseq c4)
                     (BFinished (verify_data (k_ms k) LClientFin (tr c4))) in
      let c5 := c4 <| tr := tr c4 ++ [fin] |> in
      let rfin := hs_record c5 fin (Some k) in
      ok (c5 <| seqno := seqno c5 + 1 |> <| mseq := mseq c5 + 1 |>
             <| last_flight := Some (if client_flight_keeps_cke then [rcke; ccs; rfin] else [ccs; rfin]) |>)
         [OSend rcke; OSend ccs; OSend rfin]
    end
  end.

(* ---------------------------------------------------------------- handle_handshake_message *)
Definition handle_msg (c : ctx) (t : HandshakeType) (m : hmsg) : hres :=
  match t with
  | HandshakeType_ClientHello => handle_client_hello c m
  | HandshakeType_ClientKeyExchange => handle_client_key_exchange c m
  | HandshakeType_Finished => handle_finished c m
  | HandshakeType_HelloVerifyRequest => handle_hello_verify_request c m
  | HandshakeType_ServerHello => handle_server_hello c m
  | HandshakeType_Certificate => handle_certificate c m
  | HandshakeType_ServerKeyExchange => handle_server_key_exchange c m
  | HandshakeType_ServerHelloDone => handle_server_hello_done c
  | HandshakeType_HelloRequest | HandshakeType_CertificateRequest | HandshakeType_CertificateVerify => ok c []
  end.

(* ---------------------------------------------------------------- fragment buffer *)
Definition body_is (b b' : body) : bool :=
  (* syntactic identity of two bodies, decided with t_eqb *)
  match b, b' with
  | BClientHello r k e p, BClientHello r' k' e' p' =>
      t_eqb C r r' && t_eqb C k k' && Bool.eqb e e' && (if list_eq_dec Z.eq_dec p p' then true else false)
  | BServerHello r s e p, BServerHello r' s' e' p' =>
      t_eqb C r r' && t_eqb C s s' && Bool.eqb e e' &&
      match p, p' with Some a, Some a' => a =? a' | None, None => true | _, _ => false end
  | BHelloVerify k, BHelloVerify k' => t_eqb C k k'
  | BCertificate l, BCertificate l' =>
      (fix eq (a b : list T) : bool :=
         match a, b with [] , [] => true | x :: a', y :: b' => t_eqb C x y && eq a' b' | _, _ => false end) l l'
  | BServerKeyExchange a b p s, BServerKeyExchange a' b' p' s' =>
      (a =? a') && (b =? b') && t_eqb C p p' && t_eqb C s s'
  | BServerHelloDone, BServerHelloDone => true
  | BClientKeyExchange p, BClientKeyExchange p' => t_eqb C p p'
  | BFinished v, BFinished v' => t_eqb C v v'
  | _, _ => false
  end.

(* the chunks are consecutive slices of b starting at byte `pos` and ending at its end *)
Fixpoint contiguous (b : body) (pos : Z) (cs : list chunk) : bool :=
  match cs with
  | [] => false
  | CSlice b' lo None :: rest =>
      body_is b b' && (lo =? pos) && match rest with [] => true | _ => false end
  | CSlice b' lo (Some hi) :: rest => body_is b b' && (lo =? pos) && (lo <? hi) && contiguous b hi rest
  | CWhole _ :: _ => false
  end.

Definition assemble (cs : list chunk) : body :=
  match cs with
  | CSlice b _ _ :: _ => if contiguous b 0 cs then b else BGarbled
  | [CWhole b] => b
  | _ => BGarbled
  end.

Definition chunk_body (k : chunk) : body := assemble [k].

(* ---------------------------------------------------------------- process_handshake_payload *)
Definition in_transcript (t : HandshakeType) : bool :=
  negb (existsb (HandshakeType_eqb t) transcript_excluded).

Inductive verdict : Set := VAccept | VSkip | VDup | VResend.

Definition is_connected (c : ctx) : bool := match st c with StConnected _ _ => true | _ => false end.

Definition seq_filter (c : ctx) (t : HandshakeType) (f : frag) : ctx * verdict :=
  if f_seq f <? rseq c then
    (* a duplicated HelloVerifyRequest is not the server's post-HVR restart *)
    if post_hvr c && is_client c && negb (HandshakeType_eqb t HandshakeType_HelloVerifyRequest)
    then (c <| rseq := f_seq f |> <| post_hvr := false |>, VAccept)
    else (c, if HandshakeType_eqb t dup_retrigger_type && negb (is_client c) then VDup
             (* a Connected server answers a retransmitted client Finished with its last flight (1decd50) *)
             else if HandshakeType_eqb t dup_reflight_type && negb (is_client c) && is_connected c then VResend
             else VSkip)
  else if rseq c <? f_seq f then
    if post_hvr c && is_client c then (c <| rseq := f_seq f |> <| post_hvr := false |>, VAccept)
    else (c, VSkip)
  else (c <| post_hvr := false |>, VAccept).

(* the fragment-buffer step: Some body = a complete message is ready *)
Definition reassemble (c : ctx) (f : frag) : ctx * option body :=
  if f_total f =? f_len f then (c, Some (chunk_body (f_data f)))
  else
    let c1 := if negb (inc_seq c =? f_seq f) || (f_off f =? 0)
              then c <| inc := [] |> <| inc_len := 0 |> <| inc_seq := f_seq f |> else c in
    (* 03019cb: only the fragment that continues the buffered bytes, and stays inside total_length *)
    if negb (f_off f =? inc_len c1) || (f_total f <? f_off f + f_len f) then (c1, None) else
    let c2 := c1 <| inc := inc c1 ++ [f_data f] |> <| inc_len := inc_len c1 + f_len f |> in
    if inc_len c2 <? f_total f then (c2, None)
    else (c2 <| inc := [] |> <| inc_len := 0 |>, Some (assemble (inc c2))).

Definition accept_msg (c : ctx) (t : HandshakeType) (m : hmsg) : hres :=
  let c1 := c <| rseq := (rseq c + 1) mod RECV_SEQ_MODULUS |> in   (* u16 wrapping_add *)
  let c2 := if in_transcript t then c1 <| tr := tr c1 ++ [m] |> else c1 in
  handle_msg c2 t m.

Fixpoint process_frags (c : ctx) (fs : list frag) : hres :=
  match fs with
  | [] => ok c []
  | f :: rest =>
    match ht_of_code (f_type f) with
    | None => ok c []        (* HandshakeMessage::decode fails: the rest of the record is dropped *)
    | Some t =>
      let '(c1, v) := seq_filter c t f in
      let after (r : hres) : hres :=
        let '(c2, o, e) := r in
        if e then (c2, o, true)
        else let '(c3, o3, e3) := process_frags c2 rest in (c3, o ++ o3, e3) in
      match v with
      | VSkip => process_frags c1 rest
      | VResend => let '(c3, o3, e3) := process_frags c1 rest in (c3, resend c1 ++ o3, e3)
      | VDup => after (handle_msg c1 t (mkH (f_type f) (f_seq f) (chunk_body (f_data f))))
      | VAccept =>
        let '(c2, ob) := reassemble c1 f in
        match ob with
        | None => process_frags c2 rest
        | Some b => after (accept_msg c2 t (mkH (f_type f) (f_seq f) b))
        end
      end
    end
  end.

(* ---------------------------------------------------------------- records *)
Inductive rstatus : Set := RNext | RBreak | RErr.

Definition pair_eqb (a b : T * T) : bool := t_eqb C (fst a) (fst b) && t_eqb C (snd a) (snd b).

Definition is_handshaking (c : ctx) : bool := match st c with StHandshaking => true | _ => false end.

Definition handle_content (c : ctx) (k : content) : ctx * list out * rstatus :=
  match k with
  | KCcs => (c <| read_epoch := Z.min 65535 (read_epoch c + 1) |>, [], RNext)
  | KAppData d => (add_log (EvApp d) c, [OUp d], RNext)
  | KHandshake fs => let '(c1, o, e) := process_frags c fs in (c1, o, if e then RErr else RNext)
  | KAlert (Some 0) => (add_log EvClosed (c <| st := StClosed |>), [], RNext)
  | KAlert _ => (c, [], RNext)
  | KOther => (c, [], RNext)
  end.

Definition handle_record (c : ctx) (r : record) : ctx * list out * rstatus :=
  let discard :=
    (r_epoch r =? 0) &&
    (match r_content r with KAppData _ => true | _ => false end ||
     match skeys c with Some _ => true | None => false end) &&
    (* c7ed063: with keys, while still handshaking, only ChangeCipherSpec is accepted in epoch 0 *)
    (negb (is_handshaking c) ||
     match r_content r with KCcs => false | _ => true end) in
  if discard then (c, [], RNext)
  else if r_epoch r =? 0 then
    match r_seal r with
    | None => handle_content c (r_content r)
    | Some _ => (c, [], RNext)          (* ciphertext bytes in epoch 0: not representable, inert *)
    end
  else
    match skeys c, r_seal r with
    | Some k, Some kv => if pair_eqb kv (read_keys c k) then handle_content c (r_content r) else (c, [], RBreak)
    | _, _ => (c, [], RBreak)
    end.

Fixpoint handle_datagram (c : ctx) (d : list wire) : ctx * list out * bool :=
  match d with
  | [] => (c, [], false)
  | WJunk :: _ => (c, [], false)
  | WRec r :: rest =>
    let '(c1, o, s) := handle_record c r in
    match s with
    | RNext => let '(c2, o2, e) := handle_datagram c1 rest in (c2, o ++ o2, e)
    | RBreak => (c1, o, false)
    | RErr => (c1, o, true)
    end
  end.

Definition is_failed (c : ctx) : bool := match st c with StFailed => true | _ => false end.

Inductive input : Type := InDatagram (d : list wire) | InTick | InDeadline.

Definition step (c : ctx) (i : input) : ctx * list out :=
  if negb (alive c) then (c, []) else
  match i with
  | InDatagram d =>
      let '(c1, o, e) := handle_datagram c d in
      (if e && is_failed c1 then c1 <| alive := false |> else c1, o)
  | InTick => (c, if is_handshaking c then resend c else [])
  | InDeadline =>
      if is_handshaking c then (add_log (EvFailed 11) (c <| st := StFailed |> <| alive := false |>), [])
      else (c, [])
  end.

Fixpoint run (c : ctx) (is : list input) : ctx * list out :=
  match is with
  | [] => (c, [])
  | i :: rest => let '(c1, o) := step c i in let '(c2, o2) := run c1 rest in (c2, o ++ o2)
  end.

(* ---------------------------------------------------------------- handshake() entry *)
Definition init (g : cfg) : ctx :=
  mkCtx g StHandshaking 0 0 0 0 0 false None [] 0 0 true None None None None None [] false None false true [].

Definition start (g : cfg) : ctx * list out :=
  let c := init g in
  match g_role g with
  | Server => (c, [])
  | Client =>
    let ch := mkH (code HandshakeType_ClientHello) 0
                  (BClientHello (g_rand g) (nil_bytes C) CLIENT_OFFERS_EMS CLIENT_SRTP_PROFILES) in
    let rec := hs_record c ch None in
    (c <| crand := Some (g_rand g) |> <| tr := [ch] |> <| seqno := 1 |> <| mseq := 1 |>
       <| last_flight := Some [rec] |>, [OSend rec])
  end.

(* ---------------------------------------------------------------- observers *)
Definition connected (c : ctx) : bool := match st c with StConnected _ _ => true | _ => false end.

Definition export_keying_material (c : ctx) (l : list Z) : option T :=
  match st c with
  | StConnected k _ => Some (prf C (k_ms k) (LExport l) [k_cr k; k_sr k])
  | _ => None
  end.

(* DtlsTransport::send: Some (sealed application record) only when Connected *)
Definition send_app (c : ctx) (n : Z) (d : T) : option record :=
  match st c with
  | StConnected k _ => Some (mkRec 1 n (Some (write_keys c k)) (KAppData d))
  | _ => None
  end.

End WithCrypto.
End Sym.

Arguments body : clear implicits.
Arguments chunk : clear implicits.
Arguments frag : clear implicits.
Arguments hmsg : clear implicits.
Arguments content : clear implicits.
Arguments record : clear implicits.
Arguments wire : clear implicits.
Arguments crypto : clear implicits.
Arguments keys : clear implicits.
Arguments cstate : clear implicits.
Arguments event : clear implicits.
Arguments out : clear implicits.
Arguments cfg : clear implicits.
Arguments ctx : clear implicits.
Arguments input : clear implicits.

(* the translator's view of the code the model mirrors: these fail to compile when the dispatch
   table, the transcript exclusion list or a flight changes in /repo *)
Example dispatch_table_as_modelled :
  hs_dispatched = [HandshakeType_ClientHello; HandshakeType_ClientKeyExchange; HandshakeType_Finished;
                   HandshakeType_HelloVerifyRequest; HandshakeType_ServerHello; HandshakeType_Certificate;
                   HandshakeType_ServerKeyExchange; HandshakeType_ServerHelloDone].
Proof. reflexivity. Qed.
Example transcript_exclusion_as_modelled :
  transcript_excluded = [HandshakeType_Finished; HandshakeType_HelloRequest; HandshakeType_HelloVerifyRequest].
Proof. reflexivity. Qed.
Example flights_as_modelled :
  server_flight = [HandshakeType_ServerHello; HandshakeType_Certificate; HandshakeType_ServerKeyExchange;
                   HandshakeType_ServerHelloDone] /\
  client_flight = [HandshakeType_ClientKeyExchange; HandshakeType_Finished] /\
  finished_flight = [HandshakeType_Finished] /\ hvr_flight = [HandshakeType_ClientHello] /\
  dup_retrigger_type = HandshakeType_ClientHello /\ dup_reflight_type = HandshakeType_Finished /\
  client_flight_keeps_cke = true /\
  key_block_slices = [(0, 16); (16, 32); (32, 36); (36, 40)].
Proof. repeat split; reflexivity. Qed.
