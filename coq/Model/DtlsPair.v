(* Two handshake machines of Model/DtlsHs.v (a client and a server) joined by a network that has
   no active forger: it may lose, duplicate, reorder and delay -- every delivered datagram is one
   record that the peer emitted at some earlier point (any one, any number of times) -- and the
   timers (retransmit tick, handshake deadline) fire at arbitrary moments.  Generic in the
   cryptography argument C. *)
From Coq Require Import ZArith List Bool.
From RV Require Import Gen.Dtls Model.DtlsHs.
Import ListNotations.
Open Scope Z_scope.

Section Pair.
Context {T : Type}.
Variable C : crypto T.

Record hpair : Type := mkHPair {
  h_c : ctx T; h_s : ctx T;
  h_cout : list (record T);   (* every record the client emitted so far, in order, with repeats *)
  h_sout : list (record T)
}.

Inductive hevent : Type :=
| HDeliver (to : role) (k : nat)     (* deliver the k-th record the peer has emitted so far *)
| HTick (at_ : role)
| HDeadline (at_ : role).

Definition sent_of (o : list (out T)) : list (record T) :=
  flat_map (fun x => match x with OSend r => [r] | OUp _ => [] end) o.

Definition hstart (gc gs : cfg T) : hpair :=
  let '(c, co) := start C gc in
  let '(s, so) := start C gs in
  mkHPair c s (sent_of co) (sent_of so).

Definition hfeed (p : hpair) (to : role) (i : input T) : hpair :=
  match to with
  | Client => let '(c, o) := step C (h_c p) i in mkHPair c (h_s p) (h_cout p ++ sent_of o) (h_sout p)
  | Server => let '(s, o) := step C (h_s p) i in mkHPair (h_c p) s (h_cout p) (h_sout p ++ sent_of o)
  end.

Definition hstep (p : hpair) (e : hevent) : hpair :=
  match e with
  | HDeliver to k =>
      match nth_error (match to with Client => h_sout p | Server => h_cout p end) k with
      | Some r => hfeed p to (InDatagram [WRec r])
      | None => p
      end
  | HTick a => hfeed p a InTick
  | HDeadline a => hfeed p a InDeadline
  end.

Definition hrun (p : hpair) (es : list hevent) : hpair := fold_left hstep es p.

(* ------------------------------------------------------------------ a fair-loss scheduler
   `flush` delivers every emitted record instance exactly once, in order per direction (client
   instances first), except the instances selected by the two drop predicates, which are lost;
   `round` = both retransmit timers fire, then everything emitted since is delivered. *)
Record sched : Type := mkSched { sp : hpair; dc : nat; ds : nat }.   (* dc/ds: instances consumed *)

Definition flush_step (dropc drops : nat -> bool) (x : sched) : option sched :=
  if Nat.ltb (dc x) (length (h_cout (sp x))) then
    Some (mkSched (if dropc (dc x) then sp x else hstep (sp x) (HDeliver Server (dc x))) (S (dc x)) (ds x))
  else if Nat.ltb (ds x) (length (h_sout (sp x))) then
    Some (mkSched (if drops (ds x) then sp x else hstep (sp x) (HDeliver Client (ds x))) (dc x) (S (ds x)))
  else None.

Fixpoint flush (fuel : nat) (dropc drops : nat -> bool) (x : sched) : sched :=
  match fuel with
  | O => x
  | S n => match flush_step dropc drops x with Some y => flush n dropc drops y | None => x end
  end.

Definition no_drop (_ : nat) : bool := false.

Definition round (x : sched) : sched :=
  flush 64 no_drop no_drop (mkSched (hstep (hstep (sp x) (HTick Client)) (HTick Server)) (dc x) (ds x)).

Fixpoint rounds (n : nat) (x : sched) : sched :=
  match n with O => x | S m => rounds m (round x) end.

Definition sched_start (gc gs : cfg T) : sched := mkSched (hstart gc gs) 0 0.

End Pair.

Arguments hpair : clear implicits.
Arguments sched : clear implicits.
