(* C03 -- model of the DTLS record layer of rustrtc (src/transports/dtls/{record.rs,mod.rs}):

   send side   DtlsTransport::send (split by MAX_APP_DATA_RECORD_SIZE), send_record (header, explicit
               nonce, nonce = iv ++ be64 full_seq, AAD, write_seq.fetch_add), the close_notify path of
               handshake() (which counter numbers the alert), as a multi-threaded small-step machine:
               one atomic step per shared access (load write_epoch / fetch_add write_seq / datagram out).
   receive     DtlsRecord::decode (panic-aware), the epoch-0 discard rule of handle_incoming_packet,
               try_decrypt_record / decrypt_record_with_cipher (epoch-0 bypass, read key by role, nonce from
               the explicit part, AAD from the header), handle_decrypted_record dispatch, the record loop.

   AEAD is symbolic: `seal` / `open` are function ARGUMENTS (Section variables, generalised at End);
   handshake-message processing (C02's subject) is the abstract argument `hs_step`.
   Every literal comes from Gen/DtlsRec.v / Gen/Consts.v (regenerated from /repo on every run).
   Definitions only; proofs live in Proofs/DtlsRecordProofs.v. *)
From Coq Require Import ZArith List Bool.
From RV Require Import Lib.Wrap Gen.Consts Gen.DtlsRec.
Import ListNotations.
Open Scope Z_scope.
Open Scope bool_scope.

Definition zlen {A : Type} (l : list A) : Z := Z.of_nat (length l).

(* big-endian encoding of the low 8k bits of x (put_u16 / put_uint(_, 6) / put_u64 / to_be_bytes) *)
Fixpoint be (k : nat) (x : Z) : list Z :=
  match k with
  | O => []
  | S k' => be k' (x / 256) ++ [x mod 256]
  end.
Definition of_be (l : list Z) : Z := fold_left (fun a b => a * 256 + b) l 0.

(* ((epoch as u64) << bits) | seq *)
Definition full_seq (bits epoch seq : Z) : Z := Z.lor (Z.shiftl epoch bits) seq.

(* <[u8]>::chunks(n), n > 0 *)
Fixpoint chunks_fuel (fuel n : nat) (l : list Z) : list (list Z) :=
  match fuel with
  | O => []
  | S f => match l with
           | [] => []
           | _ => firstn n l :: chunks_fuel f n (skipn n l)
           end
  end.
Definition chunks (n : nat) (l : list Z) : list (list Z) := chunks_fuel (length l) n l.

Record keys : Set := mkKeys { cw_key : list Z; sw_key : list Z; cw_iv : list Z; sw_iv : list Z }.
Definition wkey (is_client : bool) (k : keys) : list Z := if is_client then cw_key k else sw_key k.
Definition wiv (is_client : bool) (k : keys) : list Z := if is_client then cw_iv k else sw_iv k.
Definition rkey (is_client : bool) (k : keys) : list Z := if is_client then sw_key k else cw_key k.
Definition riv (is_client : bool) (k : keys) : list Z := if is_client then sw_iv k else cw_iv k.

Definition app_code : Z := ContentType_code ContentType_ApplicationData.
Definition alert_code : Z := ContentType_code ContentType_Alert.

(* make_aad / the inline AAD of send_record *)
Definition aad_of (fs ct major minor len : Z) : list Z := be 8 fs ++ [ct; major; minor] ++ be 2 len.
Definition nonce_of (iv : list Z) (fs : Z) : list Z := iv ++ be 8 fs.

(* DtlsRecord::encode *)
Definition rec_encode (ct major minor epoch seq : Z) (payload : list Z) : list Z :=
  [ct mod 256; major; minor] ++ be 2 epoch ++ be (Z.to_nat ENC_SEQ_BYTES) seq ++ be 2 (zlen payload) ++ payload.

(* ------------------------------------------------------------------ send side *)
(* the part of an ApplicationData datagram that does not depend on the plaintext bytes:
   13-byte header + 8-byte explicit nonce (send_record steps 1 and 2) *)
Definition tx_frame (epoch seq len : Z) : list Z :=
  [app_code; DTLS12_MAJOR; DTLS12_MINOR] ++ be 2 epoch ++ be (Z.to_nat TX_SEQ_BYTES) seq
    ++ be 2 (EXPLICIT_NONCE_LEN + len + GCM_TAG_LEN) ++ be 8 (full_seq TX_SEQ_BITS epoch seq).

Section Send.
  (* seal key nonce aad plaintext = ciphertext ++ tag *)
  Variable seal : list Z -> list Z -> list Z -> list Z -> list Z.

  Definition tx_sealed (key iv : list Z) (epoch seq : Z) (pt : list Z) : list Z :=
    let fs := full_seq TX_SEQ_BITS epoch seq in
    seal key (nonce_of iv fs) (aad_of fs app_code DTLS12_MAJOR DTLS12_MINOR (zlen pt)) pt.
  Definition tx_record (key iv : list Z) (epoch seq : Z) (pt : list Z) : list Z :=
    tx_frame epoch seq (zlen pt) ++ tx_sealed key iv epoch seq pt.

  (* encrypt_record + DtlsRecord::encode, as used for the close_notify alert *)
  Definition alert_record (key iv : list Z) (epoch seq : Z) : list Z :=
    let fs := full_seq ALERT_SEQ_BITS epoch seq in
    rec_encode alert_code DTLS12_MAJOR DTLS12_MINOR epoch seq
      (be 8 fs ++ seal key (nonce_of iv fs) (aad_of fs alert_code DTLS12_MAJOR DTLS12_MINOR (zlen ALERT_CLOSE_BYTES)) ALERT_CLOSE_BYTES).

  (* sequential view: one caller, write_epoch constant, write_seq an AtomicU64 *)
  Record tx : Set := mkTx { tx_epoch : Z; tx_seq : Z }.
  Definition send_record (key iv : list Z) (s : tx) (pt : list Z) : tx * list Z :=
    (mkTx (tx_epoch s) (cast_u64 (tx_seq s + TX_SEQ_INCR)), tx_record key iv (tx_epoch s) (tx_seq s) pt).
  Fixpoint send_chunks (key iv : list Z) (s : tx) (cs : list (list Z)) : tx * list (list Z) :=
    match cs with
    | [] => (s, [])
    | c :: rest => let '(s1, r) := send_record key iv s c in
                   let '(s2, rs) := send_chunks key iv s1 rest in (s2, r :: rs)
    end.
  Definition send (key iv : list Z) (s : tx) (data : list Z) : tx * list (list Z) :=
    send_chunks key iv s (chunks (Z.to_nat MAX_APP_DATA_RECORD_SIZE) data).

  (* datagram bytes of a symbolic wire record (content type, epoch, seq, plaintext) *)
  Definition wire_bytes (key iv : list Z) (ct epoch seq : Z) (pt : list Z) : list Z :=
    if ct =? app_code then tx_record key iv epoch seq pt else alert_record key iv epoch seq.
End Send.

(* ---- concurrent senders: any number of tasks calling send() plus the runner task executing the close
   path, interleaved at the granularity of their shared accesses. A task's remaining work is the list of
   records it still has to emit: send(data) contributes map (app_code, _) (chunks MAX data), close()
   contributes [(alert_code, ALERT_CLOSE_BYTES)]. *)
Definition job : Set := (Z * list Z)%type.                  (* content type, plaintext *)
Definition send_jobs (data : list Z) : list job :=
  map (fun c => (app_code, c)) (chunks (Z.to_nat MAX_APP_DATA_RECORD_SIZE) data).
Definition close_jobs : list job := [(alert_code, ALERT_CLOSE_BYTES)].

Inductive pc : Set :=
| PIdle                       (* before `write_epoch.load` *)
| PHaveEpoch (e : Z)          (* before `write_seq.fetch_add` *)
| PHaveSeq (e s : Z).         (* record built, before conn.send *)
Record thread : Set := mkThread { t_todo : list job; t_pc : pc }.
Record wrec : Set := mkWrec { w_tid : nat; w_ct : Z; w_epoch : Z; w_seq : Z; w_pt : list Z }.
Record world : Set := mkWorld {
  g_epoch : Z;                 (* write_epoch (constant once Connected) *)
  g_seq : Z;                   (* write_seq *)
  g_hs_seq : Z;                (* ctx.sequence_number of the runner task (frozen once Connected) *)
  g_threads : nat -> thread;
  g_wire : list wrec }.        (* datagrams handed to the socket, in order *)

Definition upd (f : nat -> thread) (i : nat) (t : thread) : nat -> thread :=
  fun j => if Nat.eqb j i then t else f j.

(* which counter numbers a record of content type ct: send_record always fetch_adds write_seq; the close
   path does so iff the source says so (Gen flag) *)
Definition uses_write_seq (ct : Z) : bool := (ct =? app_code) || alert_seq_from_write_seq.

Definition step (w : world) (tid : nat) : world :=
  let t := g_threads w tid in
  match t_todo t with
  | [] => w
  | (ct, pt) :: rest =>
    match t_pc t with
    | PIdle =>
        mkWorld (g_epoch w) (g_seq w) (g_hs_seq w) (upd (g_threads w) tid (mkThread (t_todo t) (PHaveEpoch (g_epoch w)))) (g_wire w)
    | PHaveEpoch e =>
        if uses_write_seq ct
        then mkWorld (g_epoch w) (cast_u64 (g_seq w + TX_SEQ_INCR)) (g_hs_seq w)
                     (upd (g_threads w) tid (mkThread (t_todo t) (PHaveSeq e (g_seq w)))) (g_wire w)
        else mkWorld (g_epoch w) (g_seq w) (g_hs_seq w)
                     (upd (g_threads w) tid (mkThread (t_todo t) (PHaveSeq e (g_hs_seq w)))) (g_wire w)
    | PHaveSeq e s =>
        mkWorld (g_epoch w) (g_seq w) (g_hs_seq w) (upd (g_threads w) tid (mkThread rest PIdle))
                (g_wire w ++ [mkWrec tid ct e s pt])
    end
  end.
Definition run (w : world) (sched : list nat) : world := fold_left step sched w.

(* state right after Connected: write_seq was initialised from the handshake counter *)
Definition init_world (epoch seq0 : Z) (todo : nat -> list job) : world :=
  mkWorld epoch seq0 seq0 (fun i => mkThread (todo i) PIdle) [].

Definition wire_of (tid : nat) (w : world) : list job :=
  map (fun r => (w_ct r, w_pt r)) (filter (fun r => Nat.eqb (w_tid r) tid) (g_wire w)).

(* ---- the start of the connection. The runner task (handle_finished) performs three shared accesses:
   it stores write_epoch := ctx.epoch, write_seq := ctx.sequence_number, and publishes the state Connected
   that send() tests under the state lock. Their ORDER is read from the source (Gen flag
   connected_published_after_stores). Sender tasks may be scheduled at any time: a send() that does not see
   Connected returns `DTLS not connected` (no step); one that does proceeds with load / fetch_add / send as in
   `step`. The atomics start at 0 (AtomicU16::new(0), AtomicU64::new(0)). A schedule element is None for the
   runner, Some tid for a sender task. *)
Inductive pstep : Set := PubState | PubEpoch | PubSeq.
Definition pub_program (stores_first : bool) : list pstep :=
  if stores_first then [PubEpoch; PubSeq; PubState] else [PubState; PubEpoch; PubSeq].
Record cworld : Set := mkCW {
  c_conn : bool;               (* state == Connected is visible *)
  c_pub : list pstep;          (* what the runner still has to do *)
  c_e0 : Z; c_s0 : Z;          (* ctx.epoch, ctx.sequence_number at the end of the handshake *)
  c_w : world }.
Definition cstep (cw : cworld) (who : option nat) : cworld :=
  let w := c_w cw in
  match who with
  | None =>
      match c_pub cw with
      | [] => cw
      | PubState :: rest => mkCW true rest (c_e0 cw) (c_s0 cw) w
      | PubEpoch :: rest => mkCW (c_conn cw) rest (c_e0 cw) (c_s0 cw)
                                 (mkWorld (c_e0 cw) (g_seq w) (g_hs_seq w) (g_threads w) (g_wire w))
      | PubSeq :: rest => mkCW (c_conn cw) rest (c_e0 cw) (c_s0 cw)
                               (mkWorld (g_epoch w) (c_s0 cw) (g_hs_seq w) (g_threads w) (g_wire w))
      end
  | Some tid =>
      match t_pc (g_threads w tid) with
      | PIdle => if c_conn cw then mkCW (c_conn cw) (c_pub cw) (c_e0 cw) (c_s0 cw) (step w tid) else cw
      | _ => mkCW (c_conn cw) (c_pub cw) (c_e0 cw) (c_s0 cw) (step w tid)
      end
  end.
Definition cinit (stores_first : bool) (e0 s0 : Z) (todo : nat -> list job) : cworld :=
  mkCW false (pub_program stores_first) e0 s0 (mkWorld 0 0 s0 (fun i => mkThread (todo i) PIdle) []).
Definition crun (cw : cworld) (sched : list (option nat)) : cworld := fold_left cstep sched cw.

(* ------------------------------------------------------------------ receive side *)
Inductive res (A : Type) : Type := Ok (a : A) | Err | Panic.
Arguments Ok {A} a.
Arguments Err {A}.
Arguments Panic {A}.
Definition bind {A B : Type} (r : res A) (f : A -> res B) : res B :=
  match r with Ok a => f a | Err => Err | Panic => Panic end.
Notation "x <- e ;; k" := (bind e (fun x => k)) (at level 61, e at next level, right associativity).

(* buf[i]: panics when out of range *)
Definition idx (l : list Z) (i : Z) : res Z :=
  if (0 <=? i) && (i <? zlen l) then Ok (nth (Z.to_nat i) l 0) else Panic.
(* &buf[a..b] / advance + split_to: panic when a > b or b > len *)
Definition slice (l : list Z) (a b : Z) : res (list Z) :=
  if (0 <=? a) && (a <=? b) && (b <=? zlen l) then Ok (firstn (Z.to_nat (b - a)) (skipn (Z.to_nat a) l)) else Panic.

Record drec : Set := mkRec {
  r_type : ContentType; r_major : Z; r_minor : Z; r_epoch : Z; r_seq : Z; r_payload : list Z }.

(* DtlsRecord::decode; Ok None = "need more bytes"; the rest of the buffer is returned with the record *)
Definition decode (buf : list Z) : res (option (drec * list Z)) :=
  if zlen buf <? DTLS_HEADER_SIZE then Ok None else
  b0 <- idx buf DEC_OFF_TYPE ;;
  match content_type_of_u8 b0 with
  | None => Err
  | Some ct =>
    major <- idx buf DEC_OFF_MAJOR ;;
    minor <- idx buf DEC_OFF_MINOR ;;
    e0 <- idx buf DEC_OFF_EPOCH ;;
    e1 <- idx buf (DEC_OFF_EPOCH + 1) ;;
    sb <- slice buf DEC_OFF_SEQ (DEC_OFF_SEQ + DEC_SEQ_BYTES) ;;
    l0 <- idx buf DEC_OFF_LEN ;;
    l1 <- idx buf (DEC_OFF_LEN + 1) ;;
    let len := l0 * 256 + l1 in
    if zlen buf <? DTLS_HEADER_SIZE + len then Ok None else
    payload <- slice buf DTLS_HEADER_SIZE (DTLS_HEADER_SIZE + len) ;;
    rest <- slice buf (DTLS_HEADER_SIZE + len) (zlen buf) ;;
    Ok (Some (mkRec ct major minor (e0 * 256 + e1) (of_be sb) payload, rest))
  end.

Inductive cstate : Set := Handshaking | Connected | Closed | Failed.
Definition cstate_eqb (a b : cstate) : bool :=
  match a, b with
  | Handshaking, Handshaking | Connected, Connected | Closed, Closed | Failed, Failed => true
  | _, _ => false
  end.

Section Recv.
  (* open key nonce aad (ciphertext ++ tag) *)
  Variable open : list Z -> list Z -> list Z -> list Z -> option (list Z).
  (* abstract handshake context and handshake-message processing (process_handshake_payload and below):
     may change the context, the connection state, derive keys, and fail (`?` propagates) *)
  Variable H : Type.
  Variable hs_step : bool -> H -> cstate -> list Z -> H * cstate * option keys * bool.

  Record rx : Type := mkRx {
    rx_state : cstate;               (* DtlsInner.state *)
    rx_keys : option keys;           (* ctx.session_keys / ctx.session_crypto (set together) *)
    rx_read_epoch : Z;               (* ctx.read_epoch *)
    rx_hs : H;
    rx_alive : bool }.               (* the runner task is still in its receive loop *)

  (* the nonce / AAD / ciphertext the code derives from a record, and the result of the AEAD open *)
  Definition rec_nonce (is_client : bool) (k : keys) (r : drec) : list Z :=
    riv is_client k ++ firstn (Z.to_nat EXPLICIT_NONCE_LEN) (r_payload r).
  Definition rec_aad (r : drec) : list Z :=
    aad_of (full_seq RX_SEQ_BITS (r_epoch r) (r_seq r)) (ContentType_code (r_type r)) (r_major r) (r_minor r)
           (zlen (r_payload r) - EXPLICIT_NONCE_LEN - GCM_TAG_LEN).
  Definition rec_body (r : drec) : list Z := skipn (Z.to_nat EXPLICIT_NONCE_LEN) (r_payload r).
  Definition rec_open (is_client : bool) (k : keys) (r : drec) : option (list Z) :=
    if zlen (r_payload r) <? RX_MIN_PAYLOAD then None
    else open (rkey is_client k) (rec_nonce is_client k r) (rec_aad r) (rec_body r).

  (* try_decrypt_record: None = Err *)
  Definition try_decrypt (is_client : bool) (k : option keys) (r : drec) : option (list Z) :=
    if r_epoch r =? RX_PLAIN_EPOCH then Some (r_payload r)
    else match k with
         | None => None
         | Some k => rec_open is_client k r
         end.

  (* the discard rule in handle_incoming_packet (present iff the source has it: Gen flag) *)
  Definition is_some {A : Type} (o : option A) : bool := match o with Some _ => true | None => false end.
  Definition drop_rule (st : rx) (r : drec) : bool :=
    rx_drop_epoch0 && (r_epoch r =? RX_DROP_EPOCH) &&
    ((rx_drop_plain_app_without_keys && ContentType_eqb (r_type r) ContentType_ApplicationData) || is_some (rx_keys st)) &&
    (negb (cstate_eqb (rx_state st) Handshaking) || existsb (ContentType_eqb (r_type r)) rx_drop_types_handshaking).

  Definition set_state (st : rx) (c : cstate) : rx := mkRx c (rx_keys st) (rx_read_epoch st) (rx_hs st) (rx_alive st).

  (* handle_decrypted_record: new state, payloads handed to the upper layer, error flag *)
  Definition dispatch (is_client : bool) (st : rx) (ct : ContentType) (p : list Z) : rx * list (list Z) * bool :=
    match ct with
    | ContentType_ChangeCipherSpec =>
        (mkRx (rx_state st) (rx_keys st) (sat_u16 (rx_read_epoch st + 1)) (rx_hs st) (rx_alive st), [], false)
    | ContentType_ApplicationData => (st, [p], false)
    | ContentType_Handshake =>
        let '(h, c, k, e) := hs_step is_client (rx_hs st) (rx_state st) p in
        (* keys are derived at most once: handle_client_key_exchange / handle_server_hello_done return
           early when ctx.session_keys.is_some() *)
        (mkRx c (match rx_keys st with Some _ => rx_keys st | None => k end) (rx_read_epoch st) h (rx_alive st), [], e)
    | ContentType_Alert =>
        if (ALERT_MIN_LEN <=? zlen p) && (nth (Z.to_nat ALERT_DESC_IDX) p 0 =? ALERT_CLOSE_NOTIFY)
        then (set_state st Closed, [], false) else (st, [], false)
    | ContentType_Heartbeat => (st, [], false)
    end.

  (* one decoded record: None = stop processing this datagram (decrypt error / `?`), with the error flag *)
  Inductive rstep : Type := Next (st : rx) (out : list (list Z)) | Stop (st : rx) (out : list (list Z)) (err : bool).
  Definition record_step (is_client : bool) (st : rx) (r : drec) : rstep :=
    if drop_rule st r then Next st [] else
    match try_decrypt is_client (rx_keys st) r with
    | None => Stop st [] false
    | Some p => let '(st1, out, e) := dispatch is_client st (r_type r) p in
                if e then Stop st1 out true else Next st1 out
    end.

  (* the while loop of handle_incoming_packet; returns (state, delivered, error) *)
  Fixpoint records_fuel (fuel : nat) (is_client : bool) (st : rx) (data : list Z) : rx * list (list Z) * bool :=
    match fuel with
    | O => (st, [], false)
    | S f =>
      match data with
      | [] => (st, [], false)
      | _ =>
        match decode data with
        | Ok (Some (r, rest)) =>
            match record_step is_client st r with
            | Next st1 out => let '(st2, out2, e) := records_fuel f is_client st1 rest in (st2, out ++ out2, e)
            | Stop st1 out e => (st1, out, e)
            end
        | _ => (st, [], false)          (* Ok None: break; Err: data = Bytes::new(); (Panic: unreachable) *)
        end
      end
    end.

  (* one datagram through the runner's receive loop: after an error the loop exits iff the state is Failed *)
  Definition recv_datagram (is_client : bool) (st : rx) (data : list Z) : rx * list (list Z) :=
    if rx_alive st then
      let '(st1, out, e) := records_fuel (S (length data)) is_client st data in
      if e && cstate_eqb (rx_state st1) Failed
      then (mkRx (rx_state st1) (rx_keys st1) (rx_read_epoch st1) (rx_hs st1) false, out)
      else (st1, out)
    else (st, []).

  Fixpoint recv_all (is_client : bool) (st : rx) (ds : list (list Z)) : rx * list (list Z) :=
    match ds with
    | [] => (st, [])
    | d :: rest => let '(st1, o1) := recv_datagram is_client st d in
                   let '(st2, o2) := recv_all is_client st1 rest in (st2, o1 ++ o2)
    end.

  (* "this record authenticates under the negotiated read key with the nonce / AAD derived from it" *)
  Definition authentic (is_client : bool) (k : keys) (r : drec) : Prop :=
    r_epoch r <> RX_PLAIN_EPOCH /\ exists p, rec_open is_client k r = Some p.
End Recv.

Arguments mkRx {H}.
Arguments rx_state {H}.
Arguments rx_keys {H}.
Arguments rx_read_epoch {H}.
Arguments rx_hs {H}.
Arguments rx_alive {H}.
Arguments Next {H}.
Arguments Stop {H}.
Arguments set_state {H}.
Arguments drop_rule {H}.
