(* A concrete instance of the symbolic cryptography (free term algebra with the two algebraic
   laws built in) and the composition of two handshake machines with a scripted network.
   Used (1) by the model runner: the harness describes what the proxy delivered to each real
   endpoint as references to records the *model's* endpoints emitted, plus symbolic tamper
   operations; (2) as the witness that the premises of the theorems are satisfiable; (3) for the
   `_refuted` witnesses. *)
From Coq Require Import ZArith List Bool.
From RV Require Import Gen.Dtls Model.DtlsHs.
Import ListNotations.
Open Scope Z_scope.

Inductive tm : Set := A (n : Z) | N (tag : Z) (args : list tm).

Fixpoint tm_eqb (a b : tm) : bool :=
  match a, b with
  | A n, A m => n =? m
  | N t l, N t' l' =>
      (t =? t') &&
      (fix leq (l l' : list tm) : bool :=
         match l, l' with
         | [], [] => true
         | x :: xs, y :: ys => tm_eqb x y && leq xs ys
         | _, _ => false
         end) l l'
  | _, _ => false
  end.

(* tags *)
Definition tag_list := 0.
Definition tag_hash := 1.
Definition tag_prf := 2.
Definition tag_sig := 3.
Definition tag_vk := 4.
Definition tag_cert := 5.
Definition tag_fp := 6.
Definition tag_pub := 7.
Definition tag_dh := 8.
Definition tag_slice := 9.
Definition tag_znum := 10.
Definition tag_nil := 11.
Definition tag_zero := 12.
Definition tag_label := 13.
Definition tag_msg := 20.

Definition enc_bool (b : bool) : tm := A (if b then 1 else 0).
Definition enc_opt (o : option Z) : tm := match o with Some z => N 1 [A z] | None => N 0 [] end.

Definition enc_body (b : body tm) : tm :=
  match b with
  | BClientHello r k e p => N 101 [r; k; enc_bool e; N tag_list (map A p)]
  | BServerHello r s e p => N 102 [r; s; enc_bool e; enc_opt p]
  | BHelloVerify k => N 103 [k]
  | BCertificate l => N 111 l
  | BServerKeyExchange a b p s => N 112 [A a; A b; p; s]
  | BServerHelloDone => N 114 []
  | BClientKeyExchange p => N 116 [p]
  | BFinished v => N 120 [v]
  | BGarbled => N 199 []
  end.
Definition enc_msg (m : hmsg tm) : tm := N tag_msg [A (h_type m); A (h_seq m); enc_body (h_body m)].

Definition enc_label (l : label) : tm :=
  match l with
  | LMaster => N tag_label [A 1] | LExtMaster => N tag_label [A 2] | LKeyExp => N tag_label [A 3]
  | LClientFin => N tag_label [A 4] | LServerFin => N tag_label [A 5]
  | LExport s => N tag_label (A 6 :: map A s)
  end.

Definition sym_vk (sk : tm) : tm := N tag_vk [sk].
Definition sym_cert (sk serial : tm) : tm := N tag_cert [sk; serial].
Definition sym_sign (sk : tm) (parts : list tm) : tm := N tag_sig [sk; N tag_list parts].
Definition sym_pub (s : tm) : tm := N tag_pub [s].

Definition sym : crypto tm := {|
  t_eqb := tm_eqb;
  hashT := fun l => N tag_hash (map enc_msg l);
  prf := fun s l seed => N tag_prf [s; enc_label l; N tag_list seed];
  verify := fun vk parts sg =>
    match vk with
    | N 4 [sk] => tm_eqb sg (sym_sign sk parts)
    | _ => false
    end;
  sign := sym_sign;
  cert_pk := fun c => match c with N 5 [sk; _] => Some (sym_vk sk) | _ => None end;
  fingerprint := fun c => N tag_fp [c];
  dh := fun s p =>
    match s, p with
    | A x, N 7 [A y] => Some (N tag_dh [A (Z.min x y); A (Z.max x y)])
    | _, _ => None
    end;
  pub := sym_pub;
  slice := fun x a b => N tag_slice [x; A a; A b];
  znum := fun z => N tag_znum [A z];
  nil_bytes := N tag_nil [];
  zero_vd := N tag_zero []
|}.

(* ------------------------------------------------------------------ the standard pair *)
Definition client_sk := A 11.   Definition client_eph := A 12.   Definition client_rand := A 13.
Definition server_sk := A 21.   Definition server_eph := A 22.   Definition server_rand := A 23.
Definition server_sid := A 24.
Definition client_cert := sym_cert client_sk (A 1).
Definition server_cert := sym_cert server_sk (A 2).
(* certificates / keys of the man in the middle *)
Definition mitm_sk (k : Z) := A (30 + k).
Definition mitm_cert (k : Z) := sym_cert (mitm_sk k) (A (3 + k)).
Definition junk (i : Z) : tm := A (1000 + i).

(* expectation codes: 0 = none, 1 = the peer's real fingerprint, 2 = some other fingerprint *)
Definition expect_of (code : Z) (peer_cert : tm) : option tm :=
  if code =? 0 then None
  else if code =? 1 then Some (fingerprint sym peer_cert)
  else Some (fingerprint sym (junk 0)).

Definition client_cfg (e : Z) : cfg tm :=
  mkCfg Client [client_cert] client_sk client_eph client_rand (A 0) (expect_of e server_cert).
Definition server_cfg (e : Z) : cfg tm :=
  mkCfg Server [server_cert] server_sk server_eph server_rand server_sid (expect_of e client_cert).

(* ------------------------------------------------------------------ scripted network *)
Inductive xform : Set :=
| XSlice (lo : Z) (hi : option Z) (total len : Z)  (* make the message a fragment: bytes lo..hi *)
| XSetSeq (n : Z)
| XSetType (t : Z)
| XSetCert (c : tm)
| XAppendCert (c : tm)            (* chain := chain ++ [c] *)
| XSetRandom (r : tm)
| XSetSid (s : tm)
| XSetPub (p : tm)
| XSetSig (s : tm)
| XResign (sk cr sr : tm)        (* SKE signature := sign sk [cr; sr; params of the message] *)
| XSetEms (b : bool)
| XSetProfile (p : option Z)
| XGarble                        (* body bytes altered so that no decoder accepts them *)
| XCorrupt.                      (* ciphertext / tag altered: sealed under an unknown key *)

Definition xf_body (x : xform) (b : body tm) : body tm :=
  match x, b with
  | XSetCert c, BCertificate _ => BCertificate [c]
  | XAppendCert c, BCertificate l => BCertificate (l ++ [c])
  | XSetRandom r, BClientHello _ k e p => BClientHello r k e p
  | XSetRandom r, BServerHello _ s e p => BServerHello r s e p
  | XSetSid s, BServerHello r _ e p => BServerHello r s e p
  | XSetSid s, BClientHello r _ e p => BClientHello r s e p
  | XSetPub p, BServerKeyExchange a c _ s => BServerKeyExchange a c p s
  | XSetPub p, BClientKeyExchange _ => BClientKeyExchange p
  | XSetSig s, BServerKeyExchange a c p _ => BServerKeyExchange a c p s
  | XResign sk cr sr, BServerKeyExchange a c p _ =>
      BServerKeyExchange a c p (sym_sign sk [cr; sr; znum sym a; znum sym c; p])
  | XSetEms e, BServerHello r s _ p => BServerHello r s e p
  | XSetEms e, BClientHello r k _ p => BClientHello r k e p
  | XSetProfile p, BServerHello r s e _ => BServerHello r s e p
  | XGarble, _ => BGarbled
  | _, _ => b
  end.

Definition xf_chunk (x : xform) (k : chunk tm) : chunk tm :=
  match k with
  | CWhole b => match x with XSlice lo hi _ _ => CSlice b lo hi | _ => CWhole (xf_body x b) end
  | CSlice b lo hi => k
  end.

Definition xf_frag (x : xform) (f : frag tm) : frag tm :=
  match x with
  | XSlice lo hi total len => mkFrag (f_type f) (f_seq f) total lo len (xf_chunk x (f_data f))
  | XSetSeq n => mkFrag (f_type f) n (f_total f) (f_off f) (f_len f) (f_data f)
  | XSetType t => mkFrag t (f_seq f) (f_total f) (f_off f) (f_len f) (f_data f)
  | _ => mkFrag (f_type f) (f_seq f) (f_total f) (f_off f) (f_len f) (xf_chunk x (f_data f))
  end.

Definition xf_record (x : xform) (r : record tm) : record tm :=
  match x with
  | XCorrupt =>
      match r_seal r with
      | Some _ => mkRec (r_epoch r) (r_seq r) (Some (junk 1, junk 2)) (r_content r)
      | None => r
      end
  | _ =>
      match r_content r, r_seal r with
      | KHandshake fs, None => mkRec (r_epoch r) (r_seq r) None (KHandshake (map (xf_frag x) fs))
      | _, _ => r
      end
  end.

Inductive dsrc : Type :=
| DRef (epoch seq : Z) (xs : list xform)   (* the record (epoch, seq) the other side emitted, transformed *)
| DForge (r : record tm)
| DJunk.

Inductive gevent : Type :=
| GDeliver (to : role) (d : list dsrc)
| GTick (at_ : role)
| GDeadline (at_ : role)
| GApp (from : role) (d : tm).     (* DtlsTransport::send on `from` (if Connected), datagram delivered *)

Record pair : Type := mkPair {
  p_c : ctx tm; p_s : ctx tm;
  p_cout : list (out tm); p_sout : list (out tm);   (* everything each side emitted so far *)
  p_unresolved : Z                                   (* references the model could not resolve *)
}.

Definition sent (o : list (out tm)) : list (record tm) :=
  flat_map (fun x => match x with OSend r => [r] | OUp _ => [] end) o.
Definition ups (o : list (out tm)) : list tm :=
  flat_map (fun x => match x with OUp d => [d] | OSend _ => [] end) o.

Definition find_rec (rs : list (record tm)) (e s : Z) : option (record tm) :=
  find (fun r => (r_epoch r =? e) && (r_seq r =? s)) rs.

Definition resolve (from : list (out tm)) (d : dsrc) : option (wire tm) :=
  match d with
  | DRef e s xs =>
      match find_rec (sent from) e s with
      | Some r => Some (WRec (fold_left (fun r x => xf_record x r) xs r))
      | None => None
      end
  | DForge r => Some (WRec r)
  | DJunk => Some WJunk
  end.

Definition resolve_all (from : list (out tm)) (ds : list dsrc) : list (wire tm) * Z :=
  fold_right (fun d '(ws, n) => match resolve from d with Some w => (w :: ws, n) | None => (ws, n + 1) end)
             ([], 0) ds.

Definition pair_start (ce se : Z) : pair :=
  let '(c, co) := start sym (client_cfg ce) in
  let '(s, so) := start sym (server_cfg se) in
  mkPair c s co so 0.

Definition deliver (p : pair) (to : role) (i : input tm) : pair :=
  match to with
  | Client => let '(c, o) := step sym (p_c p) i in mkPair c (p_s p) (p_cout p ++ o) (p_sout p) (p_unresolved p)
  | Server => let '(s, o) := step sym (p_s p) i in mkPair (p_c p) s (p_cout p) (p_sout p ++ o) (p_unresolved p)
  end.

Definition gstep (p : pair) (g : gevent) : pair :=
  match g with
  | GDeliver to ds =>
      let from := match to with Client => p_sout p | Server => p_cout p end in
      let '(ws, n) := resolve_all from ds in
      let p' := deliver p to (InDatagram ws) in
      mkPair (p_c p') (p_s p') (p_cout p') (p_sout p') (p_unresolved p' + n)
  | GTick at_ => deliver p at_ InTick
  | GDeadline at_ => deliver p at_ InDeadline
  | GApp from d =>
      let sender := match from with Client => p_c p | Server => p_s p end in
      match send_app sym sender 1000 d with
      | Some r => deliver p (match from with Client => Server | Server => Client end) (InDatagram [WRec r])
      | None => p
      end
  end.

Definition grun (p : pair) (gs : list gevent) : pair := fold_left gstep gs p.

(* ------------------------------------------------------------------ observations *)
Definition state_code (c : ctx tm) : Z :=
  match st c with StNew => 0 | StHandshaking => 1 | StConnected _ _ => 2 | StFailed => 3 | StClosed => 4 end.

Definition keys_eqb (a b : keys tm) : bool :=
  tm_eqb (k_ms a) (k_ms b) && tm_eqb (k_cr a) (k_cr b) && tm_eqb (k_sr a) (k_sr b) &&
  tm_eqb (k_block a) (k_block b).

(* 0 = not both connected, 1 = both connected with identical keys, 2 = split brain *)
Definition agreement_code (p : pair) : Z :=
  match st (p_c p), st (p_s p) with
  | StConnected k1 q1, StConnected k2 q2 =>
      if keys_eqb k1 k2 &&
         match q1, q2 with Some a, Some b => a =? b | None, None => true | _, _ => false end &&
         match export_keying_material sym (p_c p) [1], export_keying_material sym (p_s p) [1] with
         | Some x, Some y => tm_eqb x y | _, _ => false end
      then 1 else 2
  | _, _ => 0
  end.

Definition profile_code (c : ctx tm) : Z :=
  match st c with StConnected _ (Some q) => q | StConnected _ None => -1 | _ => -2 end.

(* skeleton of an emitted record: epoch, seq, content kind, (type, message_seq) of its messages *)
Definition skel : Set := (Z * Z * Z * list (Z * Z))%type.
Definition content_code (k : content tm) : Z :=
  match k with KCcs => 20 | KAlert _ => 21 | KHandshake _ => 22 | KAppData _ => 23 | KOther => 24 end.
Definition skel_of (r : record tm) : skel :=
  (r_epoch r, r_seq r, content_code (r_content r),
   match r_content r, r_seal r with
   | KHandshake fs, None => if r_epoch r =? 0 then map (fun f => (f_type f, f_seq f)) fs else []
   | _, _ => []
   end).
Definition zz_eqb (a b : Z * Z) : bool := (fst a =? fst b) && (snd a =? snd b).
Fixpoint zzl_eqb (a b : list (Z * Z)) : bool :=
  match a, b with [], [] => true | x :: a', y :: b' => zz_eqb x y && zzl_eqb a' b' | _, _ => false end.
Definition skel_eqb (a b : skel) : bool :=
  let '(e1, s1, k1, m1) := a in let '(e2, s2, k2, m2) := b in
  (e1 =? e2) && (s1 =? s2) && (k1 =? k2) && zzl_eqb m1 m2.
Definition subset (a b : list skel) : bool := forallb (fun x => existsb (skel_eqb x) b) a.
Definition same_set (a b : list skel) : bool := subset a b && subset b a.

Definition last_fail (c : ctx tm) : Z :=
  fold_left (fun acc e => match e with EvFailed w => w | _ => acc end) (log c) 0.

Record obs : Set := mkObs {
  o_cstate : Z; o_sstate : Z;      (* state codes *)
  o_agree : Z;                     (* agreement_code *)
  o_cprofile : Z; o_sprofile : Z;
  o_cup : Z; o_sup : Z;            (* application payloads delivered upward on each side *)
  o_csent : list skel; o_ssent : list skel
}.

Definition observe (p : pair) : obs :=
  mkObs (state_code (p_c p)) (state_code (p_s p)) (agreement_code p)
        (profile_code (p_c p)) (profile_code (p_s p))
        (Z.of_nat (length (ups (p_cout p)))) (Z.of_nat (length (ups (p_sout p))))
        (map skel_of (sent (p_cout p))) (map skel_of (sent (p_sout p))).

Record case : Type := mkCase {
  k_cexp : Z; k_sexp : Z;          (* expectation codes of client / server *)
  k_events : list gevent;
  k_obs : obs                      (* what the implementation showed *)
}.

Definition model_pair (c : case) : pair := grun (pair_start (k_cexp c) (k_sexp c)) (k_events c).
Definition model_out (c : case) : obs * Z * (Z * Z) :=
  let p := model_pair c in (observe p, p_unresolved p, (last_fail (p_c p), last_fail (p_s p))).

Definition obs_eqb (m i : obs) : bool :=
  (o_cstate m =? o_cstate i) && (o_sstate m =? o_sstate i) && (o_agree m =? o_agree i) &&
  (o_cprofile m =? o_cprofile i) && (o_sprofile m =? o_sprofile i) &&
  (o_cup m =? o_cup i) && (o_sup m =? o_sup i) &&
  same_set (o_csent m) (o_csent i) && same_set (o_ssent m) (o_ssent i).

Definition check_case (c : case) : bool :=
  let p := model_pair c in obs_eqb (observe p) (k_obs c) && (p_unresolved p =? 0).

Fixpoint bad_from (i : Z) (cs : list case) : list Z :=
  match cs with
  | [] => []
  | c :: rest => if check_case c then bad_from (i + 1) rest else i :: bad_from (i + 1) rest
  end.
Definition bad_indices (cs : list case) : list Z := bad_from 0 cs.

(* ------------------------------------------------------------------ sanity: the honest run *)
Definition honest_events : list gevent :=
  [ GDeliver Server [DRef 0 0 []];
    GDeliver Client [DRef 0 0 []]; GDeliver Client [DRef 0 1 []];
    GDeliver Client [DRef 0 2 []]; GDeliver Client [DRef 0 3 []];
    GDeliver Server [DRef 0 1 []]; GDeliver Server [DRef 0 2 []]; GDeliver Server [DRef 1 0 []];
    GDeliver Client [DRef 0 4 []]; GDeliver Client [DRef 1 0 []];
    GApp Client (A 77); GApp Server (A 78) ].

Example honest_run_connects :
  let p := grun (pair_start 1 0) honest_events in
  (state_code (p_c p), state_code (p_s p), agreement_code p, p_unresolved p,
   length (ups (p_cout p)), length (ups (p_sout p))) = (2, 2, 1, 0, 1%nat, 1%nat).
Proof. vm_compute. reflexivity. Qed.
