(* Character-level model of the fingerprint plumbing of C02:
     src/sdp.rs  normalize_fingerprint_value, SdpFingerprint::parse, collect_dtls_fingerprint
     src/transports/dtls/mod.rs  fingerprint_from_der (rendering of the SHA-256 digest)
   Strings are lists of Unicode scalar values (Z); `len()` in the Rust code counts UTF-8 bytes. *)
From Coq Require Import ZArith List Bool.
From RV Require Import Gen.Dtls.
Import ListNotations.
Open Scope Z_scope.

(* char::is_ascii_whitespace: space, \t, \n, form feed, \r (not vertical tab) *)
Definition is_ws (c : Z) : bool := (c =? 32) || (c =? 9) || (c =? 10) || (c =? 12) || (c =? 13).
Definition to_upper (c : Z) : Z := if (97 <=? c) && (c <=? 122) then c - 32 else c.
Definition to_lower (c : Z) : Z := if (65 <=? c) && (c <=? 90) then c + 32 else c.
Definition is_hex (c : Z) : bool :=
  ((48 <=? c) && (c <=? 57)) || ((65 <=? c) && (c <=? 70)) || ((97 <=? c) && (c <=? 102)).

Definition keep (c : Z) : bool := negb (is_ws c) && negb (c =? FP_SEPARATOR).
Definition canon (v : list Z) : list Z := map to_upper (filter keep v).

Definition char_len (c : Z) : Z := if c <? 128 then 1 else if c <? 2048 then 2 else if c <? 65536 then 3 else 4.
Definition utf8_len (v : list Z) : Z := fold_right (fun c n => char_len c + n) 0 v.

(* chunks(2) re-joined with ':' *)
Fixpoint group (v : list Z) : list Z :=
  match v with
  | a :: b :: rest => match rest with [] => [a; b] | _ => a :: b :: FP_SEPARATOR :: group rest end
  | _ => v
  end.

Definition normalize (v : list Z) : option (list Z) :=
  let n := canon v in
  if match n with [] => true | _ => false end || negb (Z.even (utf8_len n)) then None
  else if negb (forallb is_hex n) then None
  else Some (group n).

(* fingerprint_from_der: "{:02X}" of every digest byte joined by ":" *)
Definition hexc (n : Z) : Z := if n <? 10 then 48 + n else 55 + n.
Definition hexpair (b : Z) : list Z := [hexc (b / 16); hexc (b mod 16)].
Definition hexdigits (d : list Z) : list Z := flat_map hexpair d.
Definition render (d : list Z) : list Z :=
  match d with
  | [] => []
  | b :: rest => hexpair b ++ flat_map (fun x => FP_SEPARATOR :: hexpair x) rest
  end.

(* SdpFingerprint::parse on the whitespace-separated tokens of the attribute value *)
Definition fp : Type := (list Z * list Z)%type.
Definition parse_fp (tokens : list (list Z)) : option fp :=
  match tokens with
  | [alg; value] => match normalize value with Some n => Some (map to_lower alg, n) | None => None end
  | _ => None
  end.

Definition fp_eqb (a b : fp) : bool :=
  (if list_eq_dec Z.eq_dec (fst a) (fst b) then true else false) &&
  (if list_eq_dec Z.eq_dec (snd a) (snd b) then true else false).

(* collect_dtls_fingerprint folded over all a=fingerprint attributes (session level, then every
   media section).  None = Err, Some None = no fingerprint attribute, Some (Some f) = f *)
Fixpoint collect_from (cur : option fp) (attrs : list (list (list Z))) : option (option fp) :=
  match attrs with
  | [] => Some cur
  | a :: rest =>
    match parse_fp a with
    | None => None
    | Some f =>
      match cur with
      | None => collect_from (Some f) rest
      | Some e => if fp_eqb e f then collect_from cur rest else None
      end
    end
  end.
Definition collect (attrs : list (list (list Z))) : option (option fp) := collect_from None attrs.

(* handle_certificate: `&actual_fingerprint != expected_fingerprint` on Strings -- equality of the whole
   strings (same length, same characters); no prefix, no case folding at this layer *)
Fixpoint str_eqb (a b : list Z) : bool :=
  match a, b with
  | [], [] => true
  | x :: a', y :: b' => (x =? y) && str_eqb a' b'
  | _, _ => false
  end.
Definition fp_accepts (expected : list Z) (digest : list Z) : bool := str_eqb expected (render digest).
