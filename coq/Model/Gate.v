(* C14 -- model of the SRTP protection gate of RtpTransport (src/transports/rtp.rs):
   the SRTP session slot (`srtp_session`, written only by `start_srtp`), the immutable `srtp_required`
   flag, the four senders (`send`, `send_rtp`, `send_rtcp`, `send_rtcp_sync`), the rewrite-bridge fast
   path (`try_bridge_rewrite_rtp`, which consults the TARGET transport's slot and flag), the two branches
   of `receive` (RTCP / RTP: unprotect, or drop when required and no session, or take as plain), the
   observer callbacks (`fire_ingress` / `fire_egress`), the listener hand-off and the close path
   (`clear_listeners` followed by the synchronous BYE, as PeerConnection::close does).

   The decision tables `gate_*` are NOT written here: they are regenerated from the source by
   tools/gen_c14.py into Gen/SendSites.v on every run, together with the call-site census.

   Protection is symbolic: `Prot ks d p` is packet `p` protected under half `d` (Tx = what this endpoint
   sends under, Rx = what it receives under) of key set `ks`; unprotect succeeds iff the packet is
   `Prot ks Rx _` for the installed key set.  Definitions only; proofs are in Proofs/GateProofs.v.

   Not modelled: which listener a packet is routed to (C19), header rewriting in the bridge (C19), the SRTP
   transforms themselves and their replay state (C04/C05), socket errors, the abs-send-time extension. *)
From Coq Require Import ZArith List Bool String.
From RV Require Import Gen.SendSites.
Import ListNotations.
Open Scope Z_scope.
Open Scope bool_scope.

Inductive dirn : Set := Tx | Rx.
Inductive wire : Set :=
| Prot (ks : Z) (d : dirn) (p : Z)
| Clear (p : Z).

Inductive sock : Set := SockA | SockB.          (* the transport's own socket / the bridge target's socket *)
Inductive sink : Set := SListener | SRtcpListener | SObsIn | SObsOut | SBridge.

(* what a sink is handed *)
Inductive dlv : Set :=
| Auth (ks : Z) (p : Z)        (* authenticated and decrypted under the Rx half of ks *)
| Unauth (w : wire)            (* bytes taken from the wire as they came *)
| Local (p : Z).               (* a packet the local application is sending (egress observer) *)

Inductive out : Set :=
| Wire (s : sock) (w : wire)
| Deliver (k : sink) (d : dlv)
| Ret (ok : bool).

(* dgram: the transport's socket supports the non-blocking datagram `try_send` (UDP); on a TCP (RFC 4571)
   socket `IceSocketWrapper::try_send_to` fails, so the synchronous BYE and the bridge fast path emit nothing *)
Record tr : Set := mkTr { session : option Z; required : bool; dgram : bool }.
Record st : Set := mkSt { a : tr; b : tr; bridge : bool; closed : bool }.

Definition init_on (da db ra rb : bool) : st := mkSt (mkTr None ra da) (mkTr None rb db) false false.
Definition init (ra rb : bool) : st := init_on true true ra rb.

Inductive op : Set :=
| InstallKeys (ks : Z)                (* start_srtp on the transport *)
| TInstallKeys (ks : Z)               (* start_srtp on the bridge target *)
| Send (p : Z) (wf : bool)            (* send(buf); wf = buf parses as RTP *)
| SendRtp (p : Z)
| SendRtcp (p : Z)
| SyncBye (p : Z)                     (* send_rtcp_sync *)
| RecvRtp (w : wire)                  (* receive() of a datagram classified as RTP *)
| RecvRtcp (w : wire)                 (* receive() of a datagram classified as RTCP *)
| SetBridge
| ClearBridge
| Close (p : Z).                      (* clear_listeners(); send_rtcp_sync(BYE) *)

(* the op names of the property text *)
Definition RecvClearRtp (p : Z) : op := RecvRtp (Clear p).
Definition RecvClearRtcp (p : Z) : op := RecvRtcp (Clear p).
Definition RecvProtRtp (ks p : Z) : op := RecvRtp (Prot ks Rx p).
Definition RecvProtRtcp (ks p : Z) : op := RecvRtcp (Prot ks Rx p).

Definition has (t : tr) : bool := match session t with Some _ => true | None => false end.

Definition wire_pid (w : wire) : Z := match w with Prot _ _ p => p | Clear p => p end.
Definition dlv_pid (d : dlv) : Z :=
  match d with Auth _ p => p | Unauth w => wire_pid w | Local p => p end.

(* what a send gate puts on socket s for packet p, given the decision and the slot it read *)
Definition emit (g : gact) (s : sock) (ks : option Z) (p : Z) : list out :=
  match g with
  | GProtect => match ks with Some k => [Wire s (Prot k Tx p)] | None => [] end
  | GDrop => []
  | GClear => [Wire s (Clear p)]
  end.
Definition sent (g : gact) : bool := match g with GDrop => false | _ => true end.
(* the `try_send` senders (sync BYE, bridge fast path) on a socket without datagram try_send *)
Definition emit_try (t : tr) (g : gact) (s : sock) (p : Z) : list out :=
  if dgram t then emit g s (session t) p else [].

Definition unprotect (ks : option Z) (w : wire) : option dlv :=
  match ks, w with
  | Some k, Prot k' Rx p => if k =? k' then Some (Auth k p) else None
  | _, _ => None
  end.

Definition accept (r : ract) (ks : option Z) (w : wire) : option dlv :=
  match r with
  | RUnprotect => unprotect ks w
  | RDrop => None
  | RPlain => Some (Unauth w)
  end.

Definition set_a (s : st) (t : tr) : st := mkSt t (b s) (bridge s) (closed s).
Definition set_b (s : st) (t : tr) : st := mkSt (a s) t (bridge s) (closed s).
Definition set_bridge (s : st) (x : bool) : st := mkSt (a s) (b s) x (closed s).
Definition set_closed (s : st) : st := mkSt (a s) (b s) (bridge s) true.

Definition step (s : st) (o : op) : st * list out :=
  let A := a s in
  let B := b s in
  match o with
  | InstallKeys k => (set_a s (mkTr (Some k) (required A) (dgram A)), [])
  | TInstallKeys k => (set_b s (mkTr (Some k) (required B) (dgram B)), [])
  | Send p wf =>
      match gate_send (has A) (required A) with
      | GProtect => if wf then (s, emit GProtect SockA (session A) p ++ [Ret true]) else (s, [Ret false])
      | GDrop => (s, [Ret false])
      | GClear => (s, [Wire SockA (Clear p); Ret true])
      end
  | SendRtp p =>
      let g := gate_send_rtp (has A) (required A) in
      (s, Deliver SObsOut (Local p) :: emit g SockA (session A) p ++ [Ret (sent g)])
  | SendRtcp p =>
      let g := gate_send_rtcp (has A) (required A) in
      (s, emit g SockA (session A) p ++ [Ret (sent g)])
  | SyncBye p =>
      (s, emit_try A (gate_send_rtcp_sync (has A) (required A)) SockA p)
  | RecvRtp w =>
      match accept (gate_recv_rtp (has A) (required A)) (session A) w with
      | None => (s, [])
      | Some d =>
          if bridge s then
            (s, Deliver SObsIn d :: Deliver SBridge d ::
                emit_try B (gate_bridge (has B) (required B)) SockB (dlv_pid d))
          else
            (s, Deliver SObsIn d :: (if closed s then [] else [Deliver SListener d]))
      end
  | RecvRtcp w =>
      match accept (gate_recv_rtcp (has A) (required A)) (session A) w with
      | None => (s, [])
      | Some d => (s, if closed s then [] else [Deliver SRtcpListener d])
      end
  | SetBridge => (set_bridge s true, [])
  | ClearBridge => (set_bridge s false, [])
  | Close p =>
      (set_closed s, emit_try A (gate_send_rtcp_sync (has A) (required A)) SockA p)
  end.

Fixpoint run (s : st) (ops : list op) : st :=
  match ops with
  | [] => s
  | o :: r => run (fst (step s o)) r
  end.

(* outputs of every operation, in order *)
Fixpoint trace (s : st) (ops : list op) : list (list out) :=
  match ops with
  | [] => []
  | o :: r => snd (step s o) :: trace (fst (step s o)) r
  end.

(* the key set installed by the last InstallKeys / TInstallKeys of a history, defined without the model *)
Fixpoint last_a (acc : option Z) (ops : list op) : option Z :=
  match ops with
  | [] => acc
  | InstallKeys k :: r => last_a (Some k) r
  | _ :: r => last_a acc r
  end.
Fixpoint last_b (acc : option Z) (ops : list op) : option Z :=
  match ops with
  | [] => acc
  | TInstallKeys k :: r => last_b (Some k) r
  | _ :: r => last_b acc r
  end.

(* the one place where the outcome depends on the BYTES of a datagram rather than on how it was protected:
   protected RTCP handed to the plain RTCP parser.  Run/C14Run.v predicts it with the byte-level model of
   parse_rtcp_packets (Model/Rtcp.v); C14_plain_rtcp_only_unprotected_mode shows it only happens in a
   transport that is not SRTP-mandatory and has no keys *)
Definition plain_rtcp_path (s : st) (o : op) : bool :=
  match o with
  | RecvRtcp (Prot _ _ _) =>
      match gate_recv_rtcp (has (a s)) (required (a s)) with RPlain => true | _ => false end
  | _ => false
  end.

(* sinks that hand INBOUND traffic to the application / a bridged peer *)
Definition inbound (k : sink) : bool :=
  match k with SObsOut => false | _ => true end.

(* ---- racing tasks: every schedule of per-task operation lists *)
Inductive Interleave : list (list op) -> list op -> Prop :=
| il_done : forall ts, Forall (fun t => t = []) ts -> Interleave ts []
| il_step : forall ts1 o t ts2 l,
    Interleave (ts1 ++ t :: ts2) l -> Interleave (ts1 ++ (o :: t) :: ts2) (o :: l).

(* ---- the specification the regenerated tables are compared with (Props/C14.v: C14_gate_tables) *)
Definition spec_gate (has_session required : bool) : gact :=
  if has_session then GProtect else if required then GDrop else GClear.
Definition spec_rgate (has_session required : bool) : ract :=
  if has_session then RUnprotect else if required then RDrop else RPlain.

(* ---- allow-lists for the regenerated census (Gen/SendSites.v) *)
Local Open Scope string_scope.

Inductive site_class : Set := GatedSender | BridgeFastPath | DtlsRecord.
(* IceConn::send_dtls_record_batch calling IceConn::send on itself (UDP fallback of the DTLS flight sender) is a DtlsRecord site *)

(* every call of an IceConn sender in src/: (file, function, callee, receiver, count) *)
Definition allowed_sites : list ((string * string * callee * string * Z) * site_class) := [
  (("src/transports/rtp.rs", "RtpTransport::send", CSend, "self.transport", 2), GatedSender);
  (("src/transports/rtp.rs", "RtpTransport::send_rtp", CSend, "self.transport", 1), GatedSender);
  (("src/transports/rtp.rs", "RtpTransport::send_rtcp", CSendRtcp, "self.transport", 1), GatedSender);
  (("src/transports/rtp.rs", "RtpTransport::send_rtcp_sync", CTrySend, "self.ice_conn()", 1), GatedSender);
  (("src/transports/rtp.rs", "RtpTransport::try_bridge_rewrite_rtp", CTrySend, "target.ice_conn()", 1), BridgeFastPath);
  (("src/transports/ice/conn.rs", "IceConn::send_dtls_record_batch", CSend, "self", 1), DtlsRecord);
  (("src/transports/dtls/mod.rs", "DtlsInner::handle_client_hello", CSendBatch, "self.conn", 2), DtlsRecord);
  (("src/transports/dtls/mod.rs", "DtlsInner::handle_finished", CSendBatch, "self.conn", 1), DtlsRecord);
  (("src/transports/dtls/mod.rs", "DtlsInner::handle_hello_verify_request", CSend, "self.conn", 1), DtlsRecord);
  (("src/transports/dtls/mod.rs", "DtlsInner::handle_retransmit", CSendBatch, "self.conn", 1), DtlsRecord);
  (("src/transports/dtls/mod.rs", "DtlsInner::handle_server_hello_done", CSendBatch, "self.conn", 1), DtlsRecord);
  (("src/transports/dtls/mod.rs", "DtlsInner::handshake", CSend, "self.conn", 1), DtlsRecord);
  (* added with /repo 1decd50: a Connected server re-sends its final flight (sealed DTLS records) *)
  (("src/transports/dtls/mod.rs", "DtlsInner::process_handshake_payload", CSendBatch, "self.conn", 1), DtlsRecord);
  (("src/transports/dtls/mod.rs", "DtlsInner::send_handshake_message", CSend, "self.conn", 1), DtlsRecord);
  (("src/transports/dtls/mod.rs", "DtlsTransport::send_record", CSend, "self.inner.conn", 1), DtlsRecord)].

Inductive sock_class : Set := IceConnSender | SocketWrapper | StunAgent | TurnClient | UdptlOwnSocket.

(* every raw socket write in src/: (file, function, method, count) *)
Definition allowed_socket_sites : list ((string * string * string * Z) * sock_class) := [
  (("src/transports/ice/conn.rs", "IceConn::do_try_send", "try_send_to", 1), IceConnSender);
  (("src/transports/ice/conn.rs", "IceConn::send", "send_to", 2), IceConnSender);
  (("src/transports/ice/conn.rs", "IceConn::send_dtls_record_batch", "tcp_write_all", 1), IceConnSender);
  (("src/transports/ice/conn.rs", "IceConn::send_rtcp", "send_to", 1), IceConnSender);
  (("src/transports/ice/mod.rs", "IceSocketWrapper::send_to", "send_to", 1), SocketWrapper);
  (("src/transports/ice/mod.rs", "IceSocketWrapper::send_to", "tcp_write_all", 1), SocketWrapper);
  (("src/transports/ice/mod.rs", "IceSocketWrapper::send_to", "try_send_to", 1), SocketWrapper);
  (("src/transports/ice/mod.rs", "IceSocketWrapper::try_send_to", "try_send_to", 1), SocketWrapper);
  (("src/transports/ice/shared_udp.rs", "SharedUdpHandle::send_to", "send_to", 1), SocketWrapper);
  (("src/transports/ice/mod.rs", "IceGatherer::probe_stun", "send_to", 1), StunAgent);
  (("src/transports/ice/mod.rs", "IceTransportRunner::run_keepalive_tick", "send_to", 2), StunAgent);
  (("src/transports/ice/mod.rs", "handle_stun_request", "send_to", 1), StunAgent);
  (("src/transports/ice/mod.rs", "perform_binding_check", "send_to", 1), StunAgent);
  (("src/transports/ice/mod.rs", "perform_binding_check", "write_all", 1), StunAgent);
  (("src/transports/ice/mod.rs", "tcp_write_all", "try_write", 1), SocketWrapper);
  (("src/transports/ice/mod.rs", "perform_tcp_binding_check", "tcp_write_all", 2), StunAgent);
  (("src/transports/ice/turn.rs", "TurnClient::send", "send_to", 1), TurnClient);
  (("src/transports/ice/turn.rs", "TurnClient::send", "write_all", 1), TurnClient);
  (("src/transports/ice/turn.rs", "TurnClient::try_send_sync", "try_send_to", 1), TurnClient);
  (("src/transports/udptl.rs", "UdtlTransport::send", "send_to", 1), UdptlOwnSocket)].

(* every way the raw IceConn is obtained from an RtpTransport outside the gated functions:
   (file, function, accessor, use, count); `bind:x` = stored in local x (every send on x is then in send_sites) *)
Definition allowed_ice_conn_uses : list (string * string * string * string * Z) := [
  ("src/peer_connection.rs", "PeerConnection::configure_rtp_media_transport", "ice_conn", "bind:ice_conn", 1);
  ("src/peer_connection.rs", "PeerConnection::ensure_direct_rtp_media_transport", "ice_conn", "bind:ice_conn", 1);
  ("src/peer_connection.rs", "PeerConnection::get_transport_stats", "ice_conn", "expr", 2);
  ("src/peer_connection.rs", "PeerConnection::handle_reinvite", "ice_conn", "set_remote_addr_from_signaling", 1);
  ("src/peer_connection.rs", "PeerConnection::set_remote_description", "ice_conn", "set_expected_ssrc", 1);
  ("src/peer_connection.rs", "PeerConnection::update_rtcp_mux_from_remote", "ice_conn", "bind:ice_conn", 2);
  ("src/transports/rtp.rs", "RtpTransport::send_rtcp_sync", "ice_conn", "try_send", 1);
  ("src/transports/rtp.rs", "RtpTransport::try_bridge_rewrite_rtp", "ice_conn", "try_send", 1)].

(* every function whose signature mentions IceConn (a helper that takes or hands out the raw connection) *)
Definition allowed_carriers : list (string * string * string) := [
  ("src/peer_connection.rs", "PeerConnection::create_pair_monitor", "param");   (* address updates only *)
  ("src/transports/dtls/mod.rs", "DtlsTransport::new", "param");                (* stored in DtlsInner.conn: DTLS record senders *)
  ("src/transports/rtp.rs", "RtpTransport::ice_conn", "ret");                   (* every call is in ice_conn_uses *)
  ("src/transports/rtp.rs", "RtpTransport::new", "param");
  ("src/transports/rtp.rs", "RtpTransport::new_with_ssrc_change", "param")].

(* every struct field that holds an IceConn *)
Definition allowed_holders : list (string * string * string) := [
  ("src/transports/dtls/mod.rs", "conn", "Arc<IceConn>");
  ("src/transports/rtp.rs", "transport", "Arc<IceConn>")].

(* traits implemented for IceConn: none of them can send (0 send / socket-write sites inside the impl) *)
Definition allowed_trait_impls : list (string * string * string * Z) := [
  ("src/transports/ice/conn.rs", "PacketReceiver", "receive", 0);
  ("src/transports/ice/conn.rs", "StatsProvider", "collect", 0)].

(* PacketReceiver impls: none writes to a socket from inside the impl block itself (RtpTransport::receive calls
   try_bridge_rewrite_rtp, which is in send_sites) *)
Definition allowed_receiver_impls : list (string * string * Z * Z) := [
  ("src/transports/dtls/mod.rs", "DtlsTransport", 0, 0);
  ("src/transports/ice/conn.rs", "IceConn", 0, 0);
  ("src/transports/rtp.rs", "RtpTransport", 0, 0)].

(* an RtpTransport is created with srtp_required = (mode <> Rtp), or with `false` on paths that are only
   reachable when transport_mode == TransportMode::Rtp *)
Definition ctor_ok (c : string * req_rule * bool) : bool :=
  match c with
  | (_, ReqUnlessRtpMode, _) => true
  | (_, ReqAlways, _) => true
  | (_, ReqNever, guarded) => guarded
  end.
