(* C06 -- model of the ICE agent's inbound STUN handling (src/transports/ice/mod.rs):
   handle_packet (first-byte test, decode, class dispatch), handle_stun_request (Binding
   response, peer-reflexive learning, latching retarget, USE-CANDIDATE selection with the
   priority-upgrade rule, nomination, state -> Connected), the success/error response dispatch
   by transaction id over `pending_transactions`, and -- as internal (non-packet) operations --
   the bookkeeping of connectivity-check transactions (perform_binding_check registers /
   TransactionGuard removes) and the selection steps at the end of
   perform_connectivity_checks_async (controlled selection, controlling nomination).

   The model is of the code that exists: a request carries the four facts a verifying agent
   would have checked (USERNAME present / equal to this session's, MESSAGE-INTEGRITY present /
   valid under the local password); `on_request` never looks at them, exactly like the code
   (StunDecoded does not even expose them).  `on_packet_guarded` is the same function with the
   authentication test in front: it is the SPECIFICATION the property asks for, not a model of
   the code (see Proofs/IceAuthProofs.v, notes/C06.md).

   Definitions only.  The receiving socket is either datagram-like (`KUdp`: Udp, SharedUdp or
   Turn senders, for which the handler only differs in how `local_addr` is obtained) or an ICE-TCP
   stream (`KTcp`: complete_controlled_inbound_tcp_nomination applies, USE-CANDIDATE is skipped).
   Not modelled: socket publication (selected_socket / selected_rtcp_socket), keepalive and
   disconnect timers, TURN transactions, gathering, TCP connection management.  Several check rounds may be in flight; they are distinguished by a round id chosen
   by the environment. *)
From Coq Require Import ZArith List Bool.
From RV Require Import Lib.Wrap Gen.IcePrio Gen.StunCodes Gen.IceAgent.
Import ListNotations.
Open Scope Z_scope.
Open Scope bool_scope.

(* ------------------------------------------------------------------ data *)
Definition addr : Set := (Z * Z)%type.          (* (ip, port) *)
Definition ip (a : addr) : Z := fst a.
Definition port (a : addr) : Z := snd a.
Definition addr_eqb (a b : addr) : bool := (fst a =? fst b) && (snd a =? snd b).

Record cand : Set := mkCand {
  c_addr : addr;                 (* IceCandidate.address *)
  c_base : addr;                 (* IceCandidate::base_address() *)
  c_typ : IceCandidateType;
  c_prio : Z;                    (* IceCandidate.priority (u32) *)
  c_tcp : bool;                  (* transport == "tcp" *)
  c_passive : bool }.            (* tcp_type == Some(Passive) *)

(* kind of the socket a datagram arrived on *)
Inductive skind : Set := KUdp | KTcp.

Record pair : Set := mkPair { p_local : cand; p_remote : cand }.

Inductive ice_state : Set :=
  St_New | St_Checking | St_Connected | St_Completed | St_Failed | St_Disconnected | St_Closed.

(* a connectivity-check transaction: perform_binding_check(local, remote, _, _, nominated)
   running inside invocation `t_round` of perform_connectivity_checks_async *)
Record txn : Set := mkTxn { t_id : Z; t_pair : pair; t_nom : bool; t_round : Z }.

Record agent : Set := mkAgent {
  a_role : IceRole;
  a_state : ice_state;
  a_latching : bool;                       (* config.enable_latching *)
  a_locals : list cand;                    (* gatherer.local_candidates() *)
  a_remotes : list cand;                   (* remote_candidates *)
  a_selected : option pair;                (* selected_pair *)
  a_nominated : option bool;               (* nomination_complete *)
  a_pending : list txn;                    (* pending_transactions, keyed by t_id *)
  a_done : list (txn * bool);              (* results handed to waiting checks: (check, Ok?) *)
  a_rounds : list (Z * list pair) }.       (* controlling: successful_pairs of rounds that are nominating *)

Definition init (role : IceRole) (latching : bool) (locals : list cand) : agent :=
  mkAgent role St_New latching locals [] None None [] [] [].

(* what an inbound STUN datagram looks like to the agent *)
Record packet : Set := mkPkt {
  k_b0 : Z;                (* first byte *)
  k_type : Z;              (* first two bytes, big endian: the STUN message type *)
  k_wf : bool;             (* everything StunMessage::decode checks besides the method: >= 20 bytes,
                              length field consistent, address attributes parse *)
  k_tx : Z;                (* transaction id (96 bits) *)
  k_use_candidate : bool;  (* USE-CANDIDATE present *)
  k_has_username : bool;   (* USERNAME present *)
  k_username_ok : bool;    (* ... and equal to "<local ufrag>:<remote ufrag>" of this session *)
  k_has_mi : bool;         (* MESSAGE-INTEGRITY present *)
  k_mi_ok : bool;          (* ... and valid under the local ICE password *)
  k_priority : Z;          (* PRIORITY attribute value (0 if absent) *)
  k_ufrag : Z }.           (* first USERNAME attribute as the shared-UDP demux reads it: 0 = absent / no ':' /
                              not UTF-8, 1 = the text before ':' is this session's ufrag, 2 = another ufrag *)

Definition authenticated (k : packet) : bool :=
  k_has_username k && k_username_ok k && k_has_mi k && k_mi_ok k.

Inductive out : Set :=
| OSend (dst : addr) (tx : Z)        (* Binding success response, XOR-MAPPED-ADDRESS = dst, MI under the local password *)
| OReject (dst : addr) (tx : Z)      (* error response -- emitted by the guarded variant only *)
| ORunChecks                         (* IceCommand::RunChecks queued *)
| ODeliver (tx : Z) (succ : bool)    (* decoded response handed to the waiting transaction *)
| OForward.                          (* non-STUN datagram handed to the data receiver / buffer *)

(* ------------------------------------------------------------------ field updates *)
Definition set_state (s : agent) (x : ice_state) : agent :=
  mkAgent (a_role s) x (a_latching s) (a_locals s) (a_remotes s) (a_selected s) (a_nominated s)
          (a_pending s) (a_done s) (a_rounds s).
Definition set_role (s : agent) (x : IceRole) : agent :=
  mkAgent x (a_state s) (a_latching s) (a_locals s) (a_remotes s) (a_selected s) (a_nominated s)
          (a_pending s) (a_done s) (a_rounds s).
Definition set_remotes (s : agent) (x : list cand) : agent :=
  mkAgent (a_role s) (a_state s) (a_latching s) (a_locals s) x (a_selected s) (a_nominated s)
          (a_pending s) (a_done s) (a_rounds s).
Definition set_selected (s : agent) (x : option pair) : agent :=
  mkAgent (a_role s) (a_state s) (a_latching s) (a_locals s) (a_remotes s) x (a_nominated s)
          (a_pending s) (a_done s) (a_rounds s).
Definition set_nominated (s : agent) (x : option bool) : agent :=
  mkAgent (a_role s) (a_state s) (a_latching s) (a_locals s) (a_remotes s) (a_selected s) x
          (a_pending s) (a_done s) (a_rounds s).
Definition set_txns (s : agent) (p : list txn) (d : list (txn * bool)) (r : list (Z * list pair)) : agent :=
  mkAgent (a_role s) (a_state s) (a_latching s) (a_locals s) (a_remotes s) (a_selected s) (a_nominated s)
          p d r.

(* ------------------------------------------------------------------ handle_packet: class dispatch *)
Inductive pclass : Set := CData | CBad | CReq | CSucc | CErr | CInd.

Definition classify (k : packet) : pclass :=
  if k_b0 k <? stun_first_byte_lt then
    if k_wf k then
      match method_of_code (Z.land (k_type k) METHOD_MASK) with
      | None => CBad
      | Some _ =>
          match class_of_code (Z.land (k_type k) CLASS_MASK) with
          | Some StunClass_Request => CReq
          | Some StunClass_SuccessResponse => CSucc
          | Some StunClass_ErrorResponse => CErr
          | Some StunClass_Indication => CInd
          | None => CBad
          end
      end
    else CBad
  else CData.

Definition is_binding (k : packet) : bool :=
  match method_of_code (Z.land (k_type k) METHOD_MASK) with
  | Some StunMethod_Binding => true
  | _ => false
  end.

(* ------------------------------------------------------------------ handle_stun_request *)
Definition known (rs : list cand) (a : addr) : bool :=
  existsb (fun c => addr_eqb (c_addr c) a) rs.
Definition find_remote (rs : list cand) (a : addr) : option cand :=
  find (fun c => addr_eqb (c_addr c) a) rs.
Definition find_local (ls : list cand) (la : addr) : option cand :=
  find (fun c => addr_eqb (c_base c) la) ls.

(* the candidate pushed for an unknown source; transport and priority follow the socket kind *)
Definition prflx_k (sk : skind) (a : addr) : cand :=
  match sk with
  | KUdp => mkCand a a IceCandidateType_PeerReflexive
                   (priority_for IceCandidateType_PeerReflexive prflx_component) false false
  | KTcp => mkCand a a IceCandidateType_PeerReflexive
                   (priority_for_tcp IceCandidateType_PeerReflexive prflx_tcp_component TcpType_Passive) true false
  end.
Definition prflx (a : addr) : cand := prflx_k KUdp a.

Definition learn (s : agent) (sk : skind) (src : addr) : agent * list out :=
  if known (a_remotes s) src then (s, [])
  else (set_remotes s (a_remotes s ++ [prflx_k sk src]), [ORunChecks]).

Definition retarget (c : cand) (a : addr) : cand :=
  mkCand a (c_base c) (c_typ c) (c_prio c) (c_tcp c) (c_passive c).

(* `pair.remote.address.port() == addr.port() && pair.remote.address.ip() != addr.ip()` *)
Definition latch_applies (s : agent) (src : addr) : bool :=
  a_latching s &&
  match a_selected s with
  | Some p => (port (c_addr (p_remote p)) =? port src) && negb (ip (c_addr (p_remote p)) =? ip src)
  | None => false
  end.

Definition latch (s : agent) (src : addr) : agent :=
  if latch_applies s src then
    match a_selected s with
    | Some p => set_selected s (Some (mkPair (p_local p) (retarget (p_remote p) src)))
    | None => s
    end
  else s.

Definition pair_prio (p : pair) (r : IceRole) : Z :=
  pair_priority (c_prio (p_local p)) (c_prio (p_remote p)) r.

Definition same_pair (a b : pair) : bool :=
  addr_eqb (c_addr (p_local a)) (c_addr (p_local b)) &&
  addr_eqb (c_addr (p_remote a)) (c_addr (p_remote b)).

Definition is_some {A : Type} (o : option A) : bool := match o with Some _ => true | None => false end.

Definition should_select (sel : option pair) (nom : option bool) (role : IceRole) (p : pair) : bool :=
  match sel with
  | Some cur =>
      if same_pair cur p then false
      else if is_some nom then upgrade_cmp (pair_prio p role) (pair_prio cur role)
      else true
  | None => true
  end.

(* the body of `if msg.use_candidate { if role == Controlled { ... } }`;
   la = local address of the socket the request arrived on *)
Definition nominate (s : agent) (la src : addr) : agent :=
  match find_local (a_locals s) la, find_remote (a_remotes s) src with
  | Some l, Some r =>
      let p := mkPair l r in
      let s1 := if should_select (a_selected s) (a_nominated s) (a_role s) p then set_selected s (Some p) else s in
      set_nominated (set_state s1 St_Connected) (Some true)
  | _, _ => set_nominated s (Some true)
  end.

Definition role_guard (r : IceRole) : bool :=
  if use_candidate_role_is_controlled then IceRole_eqb r IceRole_Controlled
  else IceRole_eqb r IceRole_Controlling.

(* complete_controlled_inbound_tcp_nomination(sender, addr, inner) for a TcpStream sender whose
   local address is la: runs for EVERY request on the stream, before USE-CANDIDATE is looked at *)
Definition unspecified (a : addr) : bool := ip a =? 0.
Definition find_local_tcp1 (ls : list cand) (la : addr) : option cand :=
  find (fun c => addr_eqb (c_base c) la
                 || (c_tcp c && (port (c_base c) =? port la) && (unspecified (c_base c) || unspecified la))) ls.
Definition find_local_tcp2 (ls : list cand) (la : addr) : option cand :=
  find (fun c => c_tcp c && c_passive c && ((port (c_base c) =? port la) || (port (c_addr c) =? port la))) ls.

Definition tcp_select (s : agent) (l r : cand) : agent :=
  set_nominated (set_state (set_selected s (Some (mkPair l r))) St_Connected) (Some true).

Definition tcp_nominate (s : agent) (la src : addr) : agent :=
  if negb (IceRole_eqb (a_role s) IceRole_Controlled) then s
  else if is_some (a_nominated s) then s
  else
    match find_local_tcp1 (a_locals s) la, find_remote (a_remotes s) src with
    | Some l, Some r => tcp_select s l r
    | _, _ =>
        match find_local_tcp2 (a_locals s) la, find_remote (a_remotes s) src with
        | Some l, Some r => tcp_select s l r
        | _, _ => set_nominated s (Some true)
        end
    end.

Definition on_request (s : agent) (sk : skind) (la src : addr) (k : packet) : agent * list out :=
  let '(s1, o1) := learn s sk src in
  let s2 := latch s1 src in
  let s3 := match sk with KTcp => tcp_nominate s2 la src | KUdp => s2 end in
  let s4 := if k_use_candidate k && role_guard (a_role s3)
            then match sk with KTcp => s3 | KUdp => nominate s3 la src end
            else s3 in
  (s4, OSend src (k_tx k) :: o1).

(* ------------------------------------------------------------------ responses *)
Fixpoint lookup (id : Z) (l : list txn) : option txn :=
  match l with
  | [] => None
  | t :: r => if t_id t =? id then Some t else lookup id r
  end.
Definition remove_tx (id : Z) (l : list txn) : list txn :=
  filter (fun t => negb (t_id t =? id)) l.

(* `if let Some(tx) = map.remove(&msg.transaction_id) { tx.send(msg) }`; the waiting check
   returns Ok iff the message is a Binding success response (its transaction id matches by
   construction of the lookup) *)
Definition on_response (s : agent) (k : packet) (succ : bool) : agent * list out :=
  match lookup (k_tx k) (a_pending s) with
  | Some t =>
      (set_txns s (remove_tx (k_tx k) (a_pending s)) (a_done s ++ [(t, succ && is_binding k)]) (a_rounds s),
       [ODeliver (k_tx k) succ])
  | None => (s, [])
  end.

Definition on_packet (s : agent) (sk : skind) (la src : addr) (k : packet) : agent * list out :=
  match classify k with
  | CReq => on_request s sk la src k
  | CSucc => on_response s k true
  | CErr => on_response s k false
  | CInd | CBad => (s, [])
  | CData => (s, [OForward])
  end.

(* the specification variant: identical, except that a request lacking valid credentials is
   rejected before it is looked at.  NOT a model of the code. *)
Definition on_packet_guarded (s : agent) (sk : skind) (la src : addr) (k : packet) : agent * list out :=
  match classify k with
  | CReq => if authenticated k then on_request s sk la src k else (s, [OReject src (k_tx k)])
  | _ => on_packet s sk la src k
  end.

(* ------------------------------------------------------------------ check rounds (internal operations) *)
(* HashMap::insert: an existing entry with the same key is replaced *)
Definition launch (s : agent) (t : txn) : agent :=
  set_txns s (remove_tx (t_id t) (a_pending s) ++ [t]) (a_done s) (a_rounds s).
Definition expire (s : agent) (id : Z) : agent :=
  set_txns s (remove_tx id (a_pending s)) (a_done s) (a_rounds s).

Fixpoint has_pair (p : pair) (l : list pair) : bool :=
  match l with [] => false | q :: r => same_pair q p || has_pair p r end.
(* successful checks of round r with the given nominated flag, first result per
   (local address, remote address), in completion order *)
Fixpoint successes (r : Z) (nom : bool) (d : list (txn * bool)) (acc : list pair) : list pair :=
  match d with
  | [] => acc
  | (t, ok) :: rest =>
      if (t_round t =? r) && Bool.eqb (t_nom t) nom && ok && negb (has_pair (t_pair t) acc)
      then successes r nom rest (acc ++ [t_pair t])
      else successes r nom rest acc
  end.

(* sort_by_key(|p| Reverse(p.priority(role))): stable, descending *)
Fixpoint insert_desc (role : IceRole) (p : pair) (l : list pair) : list pair :=
  match l with
  | [] => [p]
  | q :: r => if pair_prio p role <? pair_prio q role then q :: insert_desc role p r else p :: q :: r
  end.
Fixpoint sort_desc (role : IceRole) (l : list pair) : list pair :=
  match l with [] => [] | p :: r => insert_desc role p (sort_desc role r) end.

Definition in_round (r : Z) (nom : bool) (t : txn) : bool := (t_round t =? r) && Bool.eqb (t_nom t) nom.
Definition drop_round (r : Z) (nom : bool) (l : list txn) : list txn :=
  filter (fun t => negb (in_round r nom t)) l.
Definition drop_round_done (r : Z) (nom : bool) (l : list (txn * bool)) : list (txn * bool) :=
  filter (fun tv => negb (in_round r nom (fst tv))) l.

Fixpoint round_pairs (r : Z) (l : list (Z * list pair)) : list pair :=
  match l with [] => [] | (r', ps) :: rest => if r' =? r then ps else round_pairs r rest end.
Definition drop_rounds (r : Z) (l : list (Z * list pair)) : list (Z * list pair) :=
  filter (fun x => negb (fst x =? r)) l.

(* perform_connectivity_checks_async after its collection loop.  On the paths that return here
   (no success; controlled side) the futures still in flight are dropped and their
   TransactionGuards remove the pending entries.  On the controlling side the un-polled stream
   of checks stays alive until the function returns after the nomination phase. *)
Definition round_done (s : agent) (r : Z) : agent :=
  let succ := sort_desc (a_role s) (successes r false (a_done s) []) in
  let s0 := set_txns s (drop_round r false (a_pending s)) (drop_round_done r false (a_done s)) (a_rounds s) in
  match succ with
  | [] => s0
  | best :: _ =>
      match a_role s with
      | IceRole_Controlling =>
          set_txns (set_state s St_Connected) (a_pending s) (drop_round_done r false (a_done s))
                   (drop_rounds r (a_rounds s) ++ [(r, succ)])
      | IceRole_Controlled =>
          if is_some (a_nominated s0) then s0
          else
            let s1 := set_state (set_selected s0 (Some best)) St_Connected in
            if c_tcp (p_local best) then set_nominated s1 (Some true) else s1
      end
  end.

Definition of_round (r : Z) (t : txn) : bool := t_round t =? r.

(* controlling side after the nomination loop; everything the invocation owned is dropped *)
Definition nom_done (s : agent) (r : Z) : agent :=
  match round_pairs r (a_rounds s) with
  | [] => s
  | first :: _ =>
      let noms := sort_desc (a_role s) (successes r true (a_done s) []) in
      let s0 := set_txns s (filter (fun t => negb (of_round r t)) (a_pending s))
                           (filter (fun tv => negb (of_round r (fst tv))) (a_done s))
                           (drop_rounds r (a_rounds s)) in
      match noms with
      | best :: _ => set_nominated (set_selected s0 (Some best)) (Some true)
      | [] => set_state (set_nominated (set_selected s0 (Some first)) (Some false)) St_Failed
      end
  end.

(* ------------------------------------------------------------------ operations *)
Inductive op : Set :=
| Pkt (sk : skind) (la src : addr) (k : packet)   (* a datagram / frame arrives on a socket of kind sk bound to la *)
| Launch (t : txn)                       (* perform_binding_check registered its transaction and sent the request *)
| Expire (id : Z)                        (* TransactionGuard dropped (timeout / cancellation) *)
| RoundDone (r : Z)
| NomDone (r : Z)
| ApiStart                               (* IceTransport::start *)
| ApiAddRemote (c : cand)                (* add_remote_candidate *)
| ApiSelectPair (p : pair)               (* select_pair *)
| ApiSetRole (r : IceRole).

Definition step_with (onp : agent -> skind -> addr -> addr -> packet -> agent * list out)
                     (s : agent) (o : op) : agent * list out :=
  match o with
  | Pkt sk la src k => onp s sk la src k
  | Launch t => (launch s t, [])
  | Expire id => (expire s id, [])
  | RoundDone r => (round_done s r, [])
  | NomDone r => (nom_done s r, [])
  | ApiStart => (set_state s St_Checking, [ORunChecks])
  | ApiAddRemote c => (set_remotes s (a_remotes s ++ [c]), [ORunChecks])
  | ApiSelectPair p => (set_state (set_selected s (Some p)) St_Connected, [])
  | ApiSetRole r => (set_role s r, [])
  end.

Definition step := step_with on_packet.
Definition step_guarded := step_with on_packet_guarded.

Definition run_with (onp : agent -> skind -> addr -> addr -> packet -> agent * list out) (s : agent) (ops : list op) : agent :=
  fold_left (fun s o => fst (step_with onp s o)) ops s.
Definition run := run_with on_packet.
Definition run_guarded := run_with on_packet_guarded.

(* ------------------------------------------------------------------ shared UDP mux (shared_udp.rs) in front of one session *)
(* SharedUdpPort::dispatch with this agent as the only registered session: a Binding request
   whose USERNAME carries "<ufrag>:<..>" is routed by ufrag and records its source address;
   everything else is routed by the recorded source address; unroutable datagrams are dropped.
   (Checks are sent through the raw socket -- gatherer.get_socket -- and record nothing.) *)
Definition mux : Set := list (addr * bool).          (* source address -> "maps to this session" *)
Fixpoint mux_get (m : mux) (a : addr) : option bool :=
  match m with [] => None | (b, v) :: r => if addr_eqb b a then Some v else mux_get r a end.
Definition mux_set (m : mux) (a : addr) (v : bool) : mux :=
  (a, v) :: filter (fun x => negb (addr_eqb (fst x) a)) m.

(* peer_ufrag_from_binding_request(packet).is_some() *)
Definition mux_extracts (k : packet) : bool :=
  (k_b0 k <? mux_first_byte_lt) && k_wf k
  && (Z.land (k_type k) mux_method_mask =? mux_binding)
  && (Z.land (k_type k) mux_class_mask =? mux_request)
  && negb (k_ufrag k =? 0).

Definition mux_route (m : mux) (src : addr) (k : packet) : mux * bool :=
  if mux_extracts k then (mux_set m src (k_ufrag k =? 1), k_ufrag k =? 1)
  else (m, match mux_get m src with Some true => true | _ => false end).

Definition mux_step (ms : mux * agent) (o : op) : (mux * agent) * list out :=
  let '(m, s) := ms in
  match o with
  | Pkt _ la src k =>
      let '(m', deliver) := mux_route m src k in
      if deliver then let '(s', out) := step s o in ((m', s'), out) else ((m', s), [])
  | _ => let '(s', out) := step s o in ((m, s'), out)
  end.

Definition mux_run (ms : mux * agent) (ops : list op) : mux * agent :=
  fold_left (fun ms o => fst (mux_step ms o)) ops ms.

(* the operations that reach the agent *)
Fixpoint mux_kept (m : mux) (ops : list op) : list op :=
  match ops with
  | [] => []
  | Pkt sk la src k :: r =>
      let '(m', deliver) := mux_route m src k in
      if deliver then Pkt sk la src k :: mux_kept m' r else mux_kept m' r
  | o :: r => o :: mux_kept m r
  end.

(* ------------------------------------------------------------------ what the property protects *)
(* remote candidate list, selected pair, nomination flag, transport state *)
Definition protected (s : agent) : list cand * option pair * option bool * ice_state :=
  (a_remotes s, a_selected s, a_nominated s, a_state s).

(* the listed finding `unauth_request_mutates`: the ways in which handle_stun_request lets a
   request -- authenticated or not -- act on the protected state *)
Definition tcp_applies (s : agent) (sk : skind) : bool :=
  match sk with
  | KTcp => IceRole_eqb (a_role s) IceRole_Controlled && negb (is_some (a_nominated s))
  | KUdp => false
  end.
Definition uc_applies (s : agent) (sk : skind) (k : packet) : bool :=
  match sk with KUdp => k_use_candidate k && role_guard (a_role s) | KTcp => false end.

Definition mutation_class (s : agent) (sk : skind) (src : addr) (k : packet) : bool :=
  negb (known (a_remotes s) src)      (* peer-reflexive learning *)
  || latch_applies s src              (* latching retarget of the selected pair *)
  || uc_applies s sk k                (* USE-CANDIDATE nomination on the controlled side (datagram sockets) *)
  || tcp_applies s sk.                (* any request on an ICE-TCP stream of a controlled, not yet nominated agent *)

(* ------------------------------------------------------------------ observation for the correspondence run *)
Definition cand_obs : Set := (addr * Z * Z * bool)%type.     (* address, type code, priority, tcp *)
Definition typ_code (t : IceCandidateType) : Z :=
  match t with
  | IceCandidateType_Host => 0 | IceCandidateType_ServerReflexive => 1
  | IceCandidateType_PeerReflexive => 2 | IceCandidateType_Relay => 3
  end.
Definition obs_cand (c : cand) : cand_obs := (c_addr c, typ_code (c_typ c), c_prio c, c_tcp c).
Definition state_code (x : ice_state) : Z :=
  match x with
  | St_New => 0 | St_Checking => 1 | St_Connected => 2 | St_Completed => 3
  | St_Failed => 4 | St_Disconnected => 5 | St_Closed => 6
  end.
Definition nom_code (n : option bool) : Z :=
  match n with None => 0 | Some true => 1 | Some false => 2 end.

(* state code, remote candidates, selected (local address, remote candidate), nomination code,
   Binding success responses sent by the operation (destination, transaction id) *)
Definition obs : Set := (Z * list cand_obs * option (addr * cand_obs) * Z * list (addr * Z))%type.

Fixpoint sends (o : list out) : list (addr * Z) :=
  match o with
  | [] => []
  | OSend d t :: r => (d, t) :: sends r
  | _ :: r => sends r
  end.

Definition observe (s : agent) (o : list out) : obs :=
  (state_code (a_state s), map obs_cand (a_remotes s),
   option_map (fun p => (c_addr (p_local p), obs_cand (p_remote p))) (a_selected s),
   nom_code (a_nominated s), sends o).

Fixpoint run_obs (s : agent) (ops : list op) : list obs :=
  match ops with
  | [] => []
  | o :: rest => let '(s', out) := step s o in observe s' out :: run_obs s' rest
  end.
