(* C06 -- definitions used in the statements of Props/C06.v (no proofs here). *)
From Coq Require Import ZArith List Bool.
From RV Require Import Lib.Wrap Gen.IcePrio Gen.StunCodes Gen.IceAgent Model.IceAuth.
Import ListNotations.
Open Scope Z_scope.
Open Scope bool_scope.

(* success / error responses, and which of the two *)
Definition is_response (k : packet) : Prop := classify k = CSucc \/ classify k = CErr.

Definition succ_of (k : packet) : bool := match classify k with CSucc => true | _ => false end.

(* the selected pair after the latching step of handle_stun_request (E3) *)
Definition sel_after_latch (s : agent) (src : addr) : option pair :=
  if latch_applies s src
  then option_map (fun p => mkPair (p_local p) (retarget (p_remote p) src)) (a_selected s)
  else a_selected s.

(* the remote candidate list after the learning step (E2) *)
Definition remotes_after (s : agent) (sk : skind) (src : addr) : list cand :=
  a_remotes s ++ (if known (a_remotes s) src then [] else [prflx_k sk src]).

(* the local candidate complete_controlled_inbound_tcp_nomination pairs with: first lookup, else the fallback *)
Definition find_local_tcp (ls : list cand) (la : addr) : option cand :=
  match find_local_tcp1 ls la with Some l => Some l | None => find_local_tcp2 ls la end.

(* the same datagram with other credential facts / PRIORITY value *)
Definition with_auth (k : packet) (hu uo hm mo : bool) (pr : Z) : packet :=
  mkPkt (k_b0 k) (k_type k) (k_wf k) (k_tx k) (k_use_candidate k) hu uo hm mo pr (k_ufrag k).

(* ------------------------------------------------------------------ F18 witness: a controlled agent that has just been started, a stranger, a request without credentials *)
Definition f18_local : cand :=
  mkCand (2130706433, 50000) (2130706433, 50000) IceCandidateType_Host (priority_for IceCandidateType_Host 1) false false.
(* ... and its passive ICE-TCP host candidate *)
Definition f18_local_tcp : cand :=
  mkCand (2130706433, 50001) (2130706433, 50001) IceCandidateType_Host
         (priority_for_tcp IceCandidateType_Host 1 TcpType_Passive) true true.
Definition f18_agent_tcp : agent := fst (step (init IceRole_Controlled false [f18_local; f18_local_tcp]) ApiStart).
(* Binding request without USE-CANDIDATE, without USERNAME, without MESSAGE-INTEGRITY *)
Definition f18_request_plain : packet := mkPkt 0 1 true 1235 false false false false false 0 0.

Definition f18_agent : agent := fst (step (init IceRole_Controlled false [f18_local]) ApiStart).

Definition f18_stranger : addr := (2130706433, 40000).

(* Binding request: first byte 0, type 0x0001, USE-CANDIDATE, no USERNAME, no MESSAGE-INTEGRITY *)
Definition f18_request : packet := mkPkt 0 1 true 1234 true false false false false 0 0.

(* ------------------------------------------------------------------ a response whose transaction id is not pending when it arrives; a run that skips those *)
Definition unsolicited (s : agent) (o : op) : bool :=
  match o with
  | Pkt _ _ _ k =>
      match classify k with
      | CSucc | CErr => negb (is_some (lookup (k_tx k) (a_pending s)))
      | _ => false
      end
  | _ => false
  end.

Fixpoint run_skip (s : agent) (ops : list op) : agent :=
  match ops with
  | [] => s
  | o :: r => if unsolicited s o then run_skip s r else run_skip (fst (step s o)) r
  end.

(* ------------------------------------------------------------------ a request without valid credentials *)
Definition unauth_req_op (o : op) : bool :=
  match o with
  | Pkt _ _ _ k => match classify k with CReq => negb (authenticated k) | _ => false end
  | _ => false
  end.

(* every pending transaction / result belongs to a check the agent launched in this history *)
Definition txns_launched (ops : list op) (s : agent) : Prop :=
  (forall t, In t (a_pending s) -> In (Launch t) ops) /\
  (forall t v, In (t, v) (a_done s) -> In (Launch t) ops).

(* ------------------------------------------------------------------ where remote addresses can come from *)
Definition raddr (t : txn) : addr := c_addr (p_remote (t_pair t)).

(* a packet handler that either ignores a datagram or treats it like the code does, and in the
   latter case only processes the requests `acc` admits *)
Definition refines (acc : packet -> bool) (onp : agent -> skind -> addr -> addr -> packet -> agent * list out) : Prop :=
  forall s sk la src k,
    fst (onp s sk la src k) = s \/
    (fst (onp s sk la src k) = fst (on_packet s sk la src k) /\ (classify k = CReq -> acc k = true)).

(* addresses that were signalled (add_remote_candidate), chosen through the API (select_pair) or are
   the source of a request the handler admits *)
Definition trusted_op (acc : packet -> bool) (o : op) : list addr :=
  match o with
  | ApiAddRemote c => [c_addr c]
  | ApiSelectPair p => [c_addr (p_remote p)]
  | Pkt _ _ src k => match classify k with CReq => if acc k then [src] else [] | _ => [] end
  | _ => []
  end.

Fixpoint trusted (acc : packet -> bool) (ops : list op) : list addr :=
  match ops with [] => [] | o :: r => trusted_op acc o ++ trusted acc r end.

(* the environment launches checks only towards remote candidates (pairs are formed from
   remote_candidates in perform_connectivity_checks_async) *)
Definition env_ok_op (s : agent) (o : op) : Prop :=
  match o with
  | Launch t => exists c, In c (a_remotes s) /\ c_addr c = raddr t
  | _ => True
  end.

Fixpoint env_ok (onp : agent -> skind -> addr -> addr -> packet -> agent * list out) (s : agent) (ops : list op) : Prop :=
  match ops with
  | [] => True
  | o :: r => env_ok_op s o /\ env_ok onp (fst (step_with onp s o)) r
  end.
