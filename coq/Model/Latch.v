(* C18 -- model of the RTP latching logic of IceConn (src/transports/ice/conn.rs):
   IceConn::receive (address adoption, first-byte classification, RTCP destination
   learning, SSRC filter, probation bookkeeping, the three decision rules, commit),
   enable_latch_on_rtp, reset_latch, set_remote_addr_from_signaling,
   set_remote_addr_from_selected_pair, set_expected_ssrc, set_remote_rtcp_addr,
   set_probation_max_packets.

   Definitions only; proofs live in Proofs/LatchProofs.v.
   Not modelled: the inbound-TCP adoption branch (socket_is_inbound_tcp is false for every
   UDP / absent socket -- the harness uses those), forwarding to the DTLS/RTP receivers,
   statistics counters, logging. *)
From Coq Require Import ZArith List Bool.
From RV Require Import Lib.Wrap Gen.Classify.
Import ListNotations.
Open Scope Z_scope.
Open Scope bool_scope.

Definition addr : Set := (Z * Z)%type.          (* (ip, port) *)
Definition addr_eqb (a b : addr) : bool := (fst a =? fst b) && (snd a =? snd b).
Definition port (a : addr) : Z := snd a.

Record cand : Set := mkCand {
  c_addr : addr; c_first_seq : Z; c_last_seq : Z; c_first_ts : Z;
  c_count : Z; c_consec : Z; c_marker : bool }.

Record prob : Set := mkProb { p_cands : list cand; p_total : Z; p_max : Z }.

Record st : Set := mkSt {
  remote : addr;
  rtcp_remote : option addr;
  latch_on : bool;
  rtp_latched : bool;
  rtcp_latched : bool;
  expected : Z;
  probation : option prob;
  pmax : Z }.

Definition init (a : addr) : st :=
  mkSt a None false false false 0 None 0.

Inductive op : Set :=
| Recv (src : addr) (pkt : list Z)
| EnableLatch
| SetExpectedSsrc (ssrc : Z)
| SetProbationMax (m : Z)            (* 0 = None *)
| ResetLatch
| SetRemoteSignaling (a : addr)
| SetRemoteSelectedPair (a : addr)
| SetRemoteRtcp (a : option addr).

(* ---- setters (record update by hand; no coq-record-update to keep vm_compute cheap) *)
Definition set_remote (s : st) (a : addr) : st :=
  mkSt a (rtcp_remote s) (latch_on s) (rtp_latched s) (rtcp_latched s) (expected s) (probation s) (pmax s).
Definition set_rtcp (s : st) (a : option addr) (l : bool) : st :=
  mkSt (remote s) a (latch_on s) (rtp_latched s) l (expected s) (probation s) (pmax s).
Definition set_prob (s : st) (p : option prob) : st :=
  mkSt (remote s) (rtcp_remote s) (latch_on s) (rtp_latched s) (rtcp_latched s) (expected s) p (pmax s).
Definition set_latched (s : st) (b : bool) : st :=
  mkSt (remote s) (rtcp_remote s) (latch_on s) b (rtcp_latched s) (expected s) (probation s) (pmax s).

(* ---- byte access *)
Definition byte_at (l : list Z) (i : nat) : Z := nth i l 0.
Definition be16_at (l : list Z) (i : nat) : Z := byte_at l i * 256 + byte_at l (S i).
Definition be32_at (l : list Z) (i : nat) : Z :=
  ((byte_at l i * 256 + byte_at l (S i)) * 256 + byte_at l (S (S i))) * 256 + byte_at l (S (S (S i))).
Definition zlen (l : list Z) : Z := Z.of_nat (length l).

Definition pkt_is_media (pkt : list Z) : bool :=
  match pkt with [] => false | b0 :: _ => conn_is_rtp_rtcp b0 end.
Definition pkt_is_rtcp (pkt : list Z) : bool :=
  (conn_rtcp_min_len <=? zlen pkt) && conn_is_rtcp_pt (byte_at pkt 1).
Definition pkt_ssrc (pkt : list Z) : Z := be32_at pkt 8.
Definition pkt_seq (pkt : list Z) : Z := be16_at pkt 2.
Definition pkt_ts (pkt : list Z) : Z := be32_at pkt 4.
Definition pkt_marker (pkt : list Z) : bool := negb (Z.land (byte_at pkt 1) 128 =? 0).
Definition ssrc_ok (s : st) (pkt : list Z) : bool :=
  (expected s =? 0) || (pkt_ssrc pkt =? expected s).

(* a packet that takes part in RTP latching in state s *)
Definition accepted (s : st) (pkt : list Z) : bool :=
  pkt_is_media pkt && latch_on s && negb (pkt_is_rtcp pkt) && negb (rtp_latched s)
  && (conn_rtp_min_len <=? zlen pkt) && ssrc_ok s pkt.

(* ---- probation bookkeeping *)
Definition upd_cand (c : cand) (seq ts : Z) (marker : bool) : cand :=
  mkCand (c_addr c)
    (if seq <? c_first_seq c then seq else c_first_seq c)
    seq
    (if ts <? c_first_ts c then ts else c_first_ts c)
    (sat_u8 (c_count c + 1))
    (if seq =? cast_u16 (c_last_seq c + 1) then sat_u8 (c_consec c + 1) else 0)
    (if marker then true else c_marker c).

Fixpoint observe (cs : list cand) (src : addr) (seq ts : Z) (marker : bool) : list cand :=
  match cs with
  | [] => [mkCand src seq seq ts 1 0 marker]
  | c :: rest =>
      if addr_eqb (c_addr c) src then upd_cand c seq ts marker :: rest
      else c :: observe rest src seq ts marker
  end.

(* Iterator::min_by_key: the FIRST minimum *)
Definition min_first_seq (cs : list cand) : option cand :=
  fold_left (fun best c => match best with
                           | None => Some c
                           | Some b => if c_first_seq c <? c_first_seq b then Some c else Some b
                           end) cs None.

(* a.packet_count.cmp(b.packet_count).then(b.first_seq.cmp(a.first_seq)) == Greater *)
Definition cand_gt (a b : cand) : bool :=
  (c_count b <? c_count a) || ((c_count a =? c_count b) && (c_first_seq a <? c_first_seq b)).

(* Iterator::max_by: the LAST maximum *)
Definition max_count (cs : list cand) : option cand :=
  fold_left (fun best c => match best with
                           | None => Some c
                           | Some b => if cand_gt b c then Some b else Some c
                           end) cs None.

Definition winner (p : prob) : option addr :=
  match min_first_seq (filter c_marker (p_cands p)) with
  | Some mw => Some (c_addr mw)                                             (* rule 1 *)
  | None =>
      if p_max p <=? p_total p then option_map c_addr (max_count (p_cands p))  (* rule 3 *)
      else if latch_rule2_total <=? p_total p then                          (* rule 2 *)
        option_map c_addr (find (fun c => latch_rule2_consec <=? c_consec c) (p_cands p))
      else None
  end.

(* the RTP branch for an accepted packet; cur = remote address read at function entry *)
Definition latch_rtp (s : st) (cur src : addr) (pkt : list Z) : st :=
  match probation s with
  | Some p =>
      let p' := mkProb (observe (p_cands p) src (pkt_seq pkt) (pkt_ts pkt) (pkt_marker pkt))
                       (sat_u8 (p_total p + 1)) (p_max p) in
      let s1 := if addr_eqb src cur then s else set_remote s src in
      match winner p' with
      | Some w => set_latched (set_remote (set_prob s1 None) w) true
      | None => set_prob s1 (Some p')
      end
  | None =>
      let s1 := if addr_eqb src cur then s else set_remote s src in
      set_latched s1 true
  end.

Definition recv (s : st) (src : addr) (pkt : list Z) : st :=
  match pkt with
  | [] => s
  | _ :: _ =>
      let cur := remote s in
      let s1 := if port cur =? 0 then set_remote s src else s in
      if pkt_is_media pkt && latch_on s1 then
        if pkt_is_rtcp pkt then
          match rtcp_remote s1 with
          | Some r => if negb (addr_eqb src r) && negb (rtcp_latched s1)
                      then set_rtcp s1 (Some src) true else s1
          | None => s1
          end
        else if accepted s1 pkt then latch_rtp s1 cur src pkt
        else s1
      else s1
  end.

Definition fresh_prob (s : st) : option prob :=
  if latch_on s && (0 <? pmax s) then Some (mkProb [] 0 (pmax s)) else None.

Definition reset_latch (s : st) : st :=
  mkSt (remote s) (rtcp_remote s) (latch_on s) false false (expected s) (fresh_prob s) (pmax s).

Definition step (s : st) (o : op) : st :=
  match o with
  | Recv src pkt => recv s src pkt
  | EnableLatch =>
      let s1 := mkSt (remote s) (rtcp_remote s) true (rtp_latched s) (rtcp_latched s) (expected s) (probation s) (pmax s) in
      if 0 <? pmax s then
        match probation s with
        | None => set_prob s1 (Some (mkProb [] 0 (pmax s)))
        | Some _ => s1
        end
      else set_prob s1 None
  | SetExpectedSsrc x =>
      mkSt (remote s) (rtcp_remote s) (latch_on s) (rtp_latched s) (rtcp_latched s) x (probation s) (pmax s)
  | SetProbationMax m =>
      mkSt (remote s) (rtcp_remote s) (latch_on s) (rtp_latched s) (rtcp_latched s) (expected s) (probation s) m
  | ResetLatch => reset_latch s
  | SetRemoteSignaling a => set_remote (reset_latch s) a
  | SetRemoteSelectedPair a =>
      if latch_on s && rtp_latched s && negb (addr_eqb (remote s) a) then s else set_remote s a
  | SetRemoteRtcp a => set_rtcp s a false
  end.

Definition run (s : st) (ops : list op) : st := fold_left step ops s.

(* observation compared with the implementation after every operation *)
Definition obs : Set := (addr * option addr * bool * bool)%type.
Definition observe_st (s : st) : obs := (remote s, rtcp_remote s, rtp_latched s, rtcp_latched s).

Fixpoint run_obs (s : st) (ops : list op) : list obs :=
  match ops with
  | [] => []
  | o :: rest => let s' := step s o in observe_st s' :: run_obs s' rest
  end.
