(* C10 -- the configuration lattice and the negotiation outcome, built from the tables that
   tools/gen_c10.py translates out of /repo on every run (Gen/Nego.v).

   Definitions only (total, computable).  What is modelled:
     * the configuration surface of RtcConfiguration that the property quantifies over, as a finite
       type: transport mode x media mix x bundle policy x rtcp-mux policy x ICE-lite x ICE-TCP x
       UDP mux x TCP-only x latching x SDP compatibility mode (per end) x rtcp-mux policy (per end) x
       in-band/negotiated data channel x which side offers;
     * `compatible : cfg -> cfg -> bool`;
     * what the offer/answer code does with those options as far as the two ends must AGREE:
       a=setup emitted by each side (PeerConnectionInner::populate_media_capabilities), DTLS role
       derived from the remote a=setup (PeerConnection::set_remote_description), BUNDLE / rtcp-mux
       attributes (build_description), the negotiated use_srtp profile, the split of the DTLS
       exporter output into (tx, rx) SRTP keys per role (setup_srtp) and the SDES keying (setup_sdes).
   Connectivity itself (sockets, ICE checks, timers) is runtime and is not modelled: the harness
   explores it (see notes/C10.md). *)
From Coq Require Import ZArith List Bool.
From RV Require Import Lib.Wrap Gen.Nego.
Import ListNotations.
Open Scope Z_scope.
Open Scope bool_scope.

(* ------------------------------------------------------------------ media mix *)
Inductive Mix : Set :=
  | Mix_data | Mix_audio | Mix_video | Mix_audio_video
  | Mix_data_audio | Mix_data_video | Mix_data_audio_video.
Definition Mix_all : list Mix :=
  [Mix_data; Mix_audio; Mix_video; Mix_audio_video; Mix_data_audio; Mix_data_video; Mix_data_audio_video].
Definition mix_has_data (x : Mix) : bool :=
  match x with Mix_data | Mix_data_audio | Mix_data_video | Mix_data_audio_video => true | _ => false end.
Definition mix_has_audio (x : Mix) : bool :=
  match x with Mix_audio | Mix_audio_video | Mix_data_audio | Mix_data_audio_video => true | _ => false end.
Definition mix_has_video (x : Mix) : bool :=
  match x with Mix_video | Mix_audio_video | Mix_data_video | Mix_data_audio_video => true | _ => false end.
Definition mix_has_media (x : Mix) : bool := mix_has_audio x || mix_has_video x.
Definition mix_sections (x : Mix) : Z :=
  Z.b2z (mix_has_data x) + Z.b2z (mix_has_audio x) + Z.b2z (mix_has_video x).

(* ------------------------------------------------------------------ one endpoint's configuration *)
Record cfg : Set := mkCfg {
  c_mode : TransportMode;
  c_bundle : BundlePolicy;          (* configuration surface only: no code reads it (Gen census) *)
  c_rtcp_mux : RtcpMuxPolicy;
  c_ice_lite : bool;
  c_ice_tcp : IceTcpPolicy;
  c_udp_hosts : bool;               (* ice_gather_udp_hosts; false = ICE-TCP is the only path *)
  c_udp_mux : bool;
  c_latching : bool;
  c_compat : SdpCompatibilityMode }.

Definition is_webrtc (m : TransportMode) : bool := TransportMode_eqb m TransportMode_WebRtc.
(* Rtp and Srtp(SDES) run no ICE agent and no DTLS: `is_direct_mode` of PeerConnection::new *)
Definition is_direct (m : TransportMode) : bool := negb (is_webrtc m).
Definition tcp_enabled (c : cfg) : bool := IceTcpPolicy_eqb (c_ice_tcp c) IceTcpPolicy_Enabled.

(* options that only exist where an ICE agent runs; without UDP host candidates the agent needs active
   and passive TCP candidates (policy Enabled) and cannot use the UDP mux *)
Definition cfg_wf (c : cfg) : bool :=
  (negb (c_udp_mux c) || is_webrtc (c_mode c)) &&
  (IceTcpPolicy_eqb (c_ice_tcp c) IceTcpPolicy_Disabled || is_webrtc (c_mode c)) &&
  (c_udp_hosts c || (tcp_enabled c && negb (c_udp_mux c) && is_webrtc (c_mode c))).
(* data channels need DTLS+SCTP, i.e. WebRtc mode; every direct-mode call carries media *)
Definition mix_wf (m : TransportMode) (x : Mix) : bool := negb (mix_has_data x) || is_webrtc m.

(* Two endpoints are compatible when they use the same transport mode, at most one of them is an
   ICE-lite agent (two lite agents never start a connectivity check, RFC 8445 6.1.1) and their ICE
   agents have a candidate transport in common (UDP on both, or full ICE-TCP on both).  rtcp-mux policy,
   SDP compatibility mode, bundle policy and latching may differ freely. *)
Definition compatible (a b : cfg) : bool :=
  TransportMode_eqb (c_mode a) (c_mode b) && negb (c_ice_lite a && c_ice_lite b) &&
  ((c_udp_hosts a && c_udp_hosts b) || (tcp_enabled a && tcp_enabled b)).

(* ------------------------------------------------------------------ the lattice *)
(* Endpoint S carries the single-sided options (ICE-lite, UDP mux: "server" features) and its own
   rtcp-mux policy and SDP compatibility mode; its peer P has the single-sided options off and its own
   rtcp-mux policy / compatibility mode (`*_peer`); mode, mix, bundle policy, ICE-TCP policy, TCP-only
   and latching are shared.  `p_s_offers` says which of the two makes the offer; `p_dcep` whether the
   data channel is opened in-band (DCEP) by the offerer or negotiated out of band on both ends. *)
Record point : Set := mkPoint {
  p_mode : TransportMode;
  p_mix : Mix;
  p_bundle : BundlePolicy;
  p_rtcp_mux : RtcpMuxPolicy;
  p_ice_lite : bool;
  p_ice_tcp : IceTcpPolicy;
  p_udp_mux : bool;
  p_latching : bool;
  p_compat : SdpCompatibilityMode;
  p_s_offers : bool;
  p_rtcp_mux_peer : RtcpMuxPolicy;
  p_compat_peer : SdpCompatibilityMode;
  p_tcp_only : bool;
  p_dcep : bool }.

Definition cfg_S (p : point) : cfg :=
  mkCfg (p_mode p) (p_bundle p) (p_rtcp_mux p) (p_ice_lite p) (p_ice_tcp p) (negb (p_tcp_only p)) (p_udp_mux p)
        (p_latching p) (p_compat p).
Definition cfg_P (p : point) : cfg :=
  mkCfg (p_mode p) (p_bundle p) (p_rtcp_mux_peer p) false (p_ice_tcp p) (negb (p_tcp_only p)) false
        (p_latching p) (p_compat_peer p).
Definition offerer_cfg (p : point) : cfg := if p_s_offers p then cfg_S p else cfg_P p.
Definition answerer_cfg (p : point) : cfg := if p_s_offers p then cfg_P p else cfg_S p.

Definition bools : list bool := [false; true].

Definition all_points : list point :=
  flat_map (fun m => flat_map (fun x => flat_map (fun b => flat_map (fun r => flat_map (fun l =>
  flat_map (fun t => flat_map (fun u => flat_map (fun la => flat_map (fun c => flat_map (fun o =>
  flat_map (fun rp => flat_map (fun cp => flat_map (fun tonly => map (fun dc =>
    mkPoint m x b r l t u la c o rp cp tonly dc) bools) bools)
  SdpCompatibilityMode_all) RtcpMuxPolicy_all) bools)
  SdpCompatibilityMode_all) bools) bools) IceTcpPolicy_all) bools) RtcpMuxPolicy_all) BundlePolicy_all)
  Mix_all) TransportMode_all.

(* when S has no single-sided option, S is by convention the offerer (the other order is the point with
   S's and P's rtcp-mux policy / compat mode exchanged); DCEP only where there is a data channel *)
Definition point_canonical (p : point) : bool :=
  (p_ice_lite p || p_udp_mux p || p_s_offers p) && (negb (p_dcep p) || mix_has_data (p_mix p)).

Definition point_valid (p : point) : bool :=
  cfg_wf (cfg_S p) && cfg_wf (cfg_P p) && mix_wf (p_mode p) (p_mix p) &&
  compatible (offerer_cfg p) (answerer_cfg p) && point_canonical p.

Definition lattice : list point := filter point_valid all_points.

(* ------------------------------------------------------------------ roles *)
(* PeerConnection::set_remote_description: only while dtls_role is None; Rtp/Srtp get a constant;
   WebRtc takes the first a=setup attribute of the remote description (none => stays None). *)
Definition derive_role (m : TransportMode) (current : option bool) (remote_setup : option Setup) : option bool :=
  match current with
  | Some r => Some r
  | None => if is_direct m then Some direct_mode_is_client
            else match remote_setup with Some s => Some (setup_is_client s) | None => None end
  end.

(* Which a=setup value of a description set_remote_description uses: the attributes are searched in
   `setup_lookup_order` (all media sections first, then the session level), first match wins.
   `media` = the media-level a=setup values in section order, `session` = the session-level one. *)
Definition setup_at (l : SetupLevel) (media : list Setup) (session : option Setup) : option Setup :=
  match l with Level_media => hd_error media | Level_session => session end.
Fixpoint first_setup_in (order : list SetupLevel) (media : list Setup) (session : option Setup) : option Setup :=
  match order with
  | [] => None
  | l :: rest => match setup_at l media session with Some s => Some s | None => first_setup_in rest media session end
  end.
Definition first_setup (media : list Setup) (session : option Setup) : option Setup :=
  first_setup_in setup_lookup_order media session.
Definition derive_role_desc (m : TransportMode) (current : option bool) (media : list Setup) (session : option Setup) : option bool :=
  derive_role m current (first_setup media session).

(* rustrtc writes a=setup on every media section (one call site of add_dtls_attributes) and never at
   session level: the a=setup part of a generated description with n sections *)
Definition described_setups (so : option Setup) (n : Z) : list Setup * option Setup :=
  (match so with Some s => repeat s (Z.to_nat n) | None => [] end, None).

(* populate_media_capabilities: a=setup is written only in WebRtc mode *)
Definition emitted_setup (m : TransportMode) (k : SdpKind) (role : option bool) : option Setup :=
  if mode_emits_setup m then Some (setup_of_role k role) else None.

(* every a=setup value a rustrtc endpoint can put into an offer / an answer, whatever its role state *)
Definition role_states : list (option bool) := [None; Some true; Some false].
Definition offer_setups : list Setup := map (setup_of_role Sdp_Offer) role_states.
Definition answer_setups : list Setup := map (setup_of_role Sdp_Answer) role_states.

(* one offer/answer round between two fresh endpoints, the offer carrying `so` *)
Definition answerer_role_for (m : TransportMode) (so : option Setup) : option bool := derive_role m None so.
Definition answer_setup_for (m : TransportMode) (so : option Setup) : option Setup :=
  emitted_setup m Sdp_Answer (answerer_role_for m so).
Definition offerer_role_for (m : TransportMode) (so : option Setup) : option bool :=
  derive_role m None (answer_setup_for m so).

Definition complementary (a b : option bool) : bool :=
  match a, b with Some x, Some y => negb (Bool.eqb x y) | _, _ => false end.

(* the per-point check of C10_roles_complementary: for every offer a=setup value a rustrtc offerer can
   emit, the two derived roles are complementary; and the answer's a=setup is one an answerer emits *)
Definition roles_ok (p : point) : bool :=
  negb (is_webrtc (p_mode p)) ||
  forallb (fun so => complementary (offerer_role_for (p_mode p) (Some so)) (answerer_role_for (p_mode p) (Some so)))
          offer_setups.

(* ------------------------------------------------------------------ the negotiated description flags *)
Record outcome : Set := mkOutcome {
  o_offer_setup : option Setup;
  o_answer_setup : option Setup;
  o_role_off : option bool;        (* is_client of the offerer *)
  o_role_ans : option bool;
  o_offer_bundle : bool;           (* a=group:BUNDLE present *)
  o_answer_bundle : bool;
  o_offer_mux : bool;              (* a=rtcp-mux on the RTP media sections *)
  o_answer_mux : bool;
  o_profile : option Z }.          (* use_srtp code both DTLS ends report; None when no DTLS runs *)

(* one offer/answer round between an offerer configured `off` and an answerer configured `ans` *)
Definition negotiate_c (off ans : cfg) (x : Mix) : outcome :=
  let m := c_mode off in
  let so := emitted_setup m Sdp_Offer None in
  let ob := offer_will_bundle (c_compat off) (mix_sections x) in
  let om := local_offers_rtcp_mux (c_rtcp_mux off) (c_compat off) in
  mkOutcome so (answer_setup_for m so) (offerer_role_for m so) (answerer_role_for m so)
            ob (answer_will_bundle (c_compat ans) ob)
            (mix_has_media x && om)
            (mix_has_media x && om && local_offers_rtcp_mux (c_rtcp_mux ans) (c_compat ans))
            (if is_webrtc m then dtls_client_accepts (dtls_select_profile dtls_offered_profiles) else None).

Definition negotiate (p : point) : outcome := negotiate_c (offerer_cfg p) (answerer_cfg p) (p_mix p).

(* ------------------------------------------------------------------ transport layout per description *)
(* How many RTP sockets a description ADVERTISES (build_description: one per section when there is no
   BUNDLE group, in the modes of `mode_advertises_section_transports`) and how many the peer CONFIGURES
   when it applies that description (set_remote_description: per section only in the modes of
   `mode_configures_section_transports`; otherwise one transport, started on the address of the last
   section).  WebRtc always has the single ICE transport. *)
Definition rtp_sections (x : Mix) : Z := Z.b2z (mix_has_audio x) + Z.b2z (mix_has_video x).
Definition advertised_transports (m : TransportMode) (bundle : bool) (x : Mix) : Z :=
  if bundle || negb (mode_advertises_section_transports m) then 1 else Z.max 1 (rtp_sections x).
Definition configured_transports (m : TransportMode) (bundle : bool) (x : Mix) : Z :=
  if bundle || negb (mode_configures_section_transports m) then 1 else Z.max 1 (rtp_sections x).

(* listed finding C10-F2 (class srtp_nonbundle_sections): SDES-SRTP mode, two RTP sections, no BUNDLE *)
Definition layout_known_class (p : point) : bool :=
  TransportMode_eqb (p_mode p) TransportMode_Srtp && (rtp_sections (p_mix p) >? 1) &&
  negb (o_offer_bundle (negotiate p)).

Definition layout_agrees (p : point) : bool :=
  let o := negotiate p in
  Z.eqb (advertised_transports (p_mode p) (o_offer_bundle o) (p_mix p))
        (configured_transports (p_mode p) (o_offer_bundle o) (p_mix p)) &&
  Z.eqb (advertised_transports (p_mode p) (o_answer_bundle o) (p_mix p))
        (configured_transports (p_mode p) (o_answer_bundle o) (p_mix p)).

(* ------------------------------------------------------------------ DTLS-SRTP key split (setup_srtp) *)
(* Rust `&mat[lo..hi]`; total here, the theorems carry the length hypothesis that keeps it in range *)
Definition slice (lo hi : Z) (l : list Z) : list Z := firstn (Z.to_nat (hi - lo)) (skipn (Z.to_nat lo) l).

Definition slot_bytes (pr : SrtpProfile) (s : Slot) (mat : list Z) : list Z :=
  let '(lo, hi) := slot_bounds s (dtls_key_len pr) (dtls_salt_len pr) in slice lo hi mat.

Record srtp_keys : Set := mkKeys {
  k_profile : SrtpProfile;
  k_tx_key : list Z; k_tx_salt : list Z; k_rx_key : list Z; k_rx_salt : list Z }.

Definition exporter_len (code : option Z) : Z :=
  let pr := srtp_profile_of_code code in dtls_total_len (dtls_key_len pr) (dtls_salt_len pr).

Definition derive_srtp (is_client : bool) (code : option Z) (mat : list Z) : srtp_keys :=
  let pr := srtp_profile_of_code code in
  let '(a, b, c, d) := split_order is_client in
  mkKeys pr (slot_bytes pr a mat) (slot_bytes pr b mat) (slot_bytes pr c mat) (slot_bytes pr d mat).

Definition mirrored (x y : srtp_keys) : Prop :=
  k_profile x = k_profile y /\
  k_tx_key x = k_rx_key y /\ k_tx_salt x = k_rx_salt y /\
  k_rx_key x = k_tx_key y /\ k_rx_salt x = k_tx_salt y.

(* ------------------------------------------------------------------ SDES keying (setup_sdes) *)
Definition sdes_pick (src : SdesSrc) (local remote : list Z) : list Z :=
  match src with Sdes_local => local | Sdes_remote => remote end.

(* `local` / `remote`: the decoded inline key||salt of the first a=crypto line of the first media
   section of the local / remote description *)
Definition derive_sdes (pr : SrtpProfile) (local remote : list Z) : srtp_keys :=
  let kl := sdes_key_len pr in let sl := sdes_salt_len pr in
  let tx := sdes_pick sdes_tx_source local remote in
  let rx := sdes_pick sdes_rx_source local remote in
  mkKeys pr (slice 0 (sdes_key_hi kl sl) tx) (slice (sdes_salt_lo kl sl) (sdes_salt_hi kl sl) tx)
            (slice 0 (sdes_key_hi kl sl) rx) (slice (sdes_salt_lo kl sl) (sdes_salt_hi kl sl) rx).

(* suites of one SDES offer/answer round between rustrtc endpoints *)
Definition sdes_round_offer : Suite := sdes_offer_suite.
Definition sdes_round_answer : Suite := sdes_answer_suite [sdes_round_offer].

(* ------------------------------------------------------------------ equality tests used by the runner *)
Definition Setup_eqb (a b : Setup) : bool :=
  match a, b with
  | Setup_active, Setup_active | Setup_passive, Setup_passive | Setup_actpass, Setup_actpass
  | Setup_holdconn, Setup_holdconn | Setup_other, Setup_other => true
  | _, _ => false
  end.
Definition opt_eqb {A} (eq : A -> A -> bool) (a b : option A) : bool :=
  match a, b with Some x, Some y => eq x y | None, None => true | _, _ => false end.
Fixpoint zlist_eqb (a b : list Z) : bool :=
  match a, b with
  | [], [] => true
  | x :: a', y :: b' => Z.eqb x y && zlist_eqb a' b'
  | _, _ => false
  end.
Definition keys_eqb (x y : srtp_keys) : bool :=
  SrtpProfile_eqb (k_profile x) (k_profile y) &&
  zlist_eqb (k_tx_key x) (k_tx_key y) && zlist_eqb (k_tx_salt x) (k_tx_salt y) &&
  zlist_eqb (k_rx_key x) (k_rx_key y) && zlist_eqb (k_rx_salt x) (k_rx_salt y).
