(* C17 -- connection lifecycle: who ends a PeerConnection, what it reports, what the channels see.

   Model of the state logic of /repo (definitions only, total, computable):
     src/peer_connection.rs   close / close_with_reason / Drop, run_ice_dtls_loop, run_rtp_direct_loop,
                              handle_connected_state(_no_dtls), start_dtls (its exits), propagate_sctp_close_reason,
                              report_peer_state / report_ice_state
     src/transports/sctp.rs   run_loop exits, SctpCleanupGuard::drop, SctpTransport::close, ABORT / SHUTDOWN* handlers,
                              the flow-control wait loop of send_data_raw, close_data_channel
     src/transports/dtls      close_notify, local close, ICE socket loss (what they do to DtlsState / the runner task)
   Every lock-protected region / straight-line piece between two awaits is one atomic step (an [event]).
   Lower layers and tasks are events too, so "at any moment" is "any event sequence".

   The guards the theorems rest on are read from Gen/LifecycleGen.v (regenerated from the source on every
   run): with a guard removed in /repo the corresponding boolean flips, the model behaves like the new code,
   and the proofs about it stop checking. *)
From Coq Require Import ZArith List Bool Arith.
From RV Require Import Gen.LifecycleGen.
Import ListNotations.
Open Scope bool_scope.

Notation PNew := PeerConnectionState_New.
Notation PConnected := PeerConnectionState_Connected.
Notation PDisconnected := PeerConnectionState_Disconnected.
Notation PFailed := PeerConnectionState_Failed.
Notation PClosed := PeerConnectionState_Closed.
Notation INew := IceConnectionState_New.
Notation IChecking := IceConnectionState_Checking.
Notation IConnected := IceConnectionState_Connected.
Notation ICompleted := IceConnectionState_Completed.
Notation IFailed := IceConnectionState_Failed.
Notation IDisconnected := IceConnectionState_Disconnected.
Notation IClosed := IceConnectionState_Closed.
Notation GStable := SignalingState_Stable.
Notation GClosed := SignalingState_Closed.
Notation TNew := IceTransportState_New.
Notation TChecking := IceTransportState_Checking.
Notation TConnectedI := IceTransportState_Connected.
Notation TCompleted := IceTransportState_Completed.
Notation TFailed := IceTransportState_Failed.
Notation TDisconnected := IceTransportState_Disconnected.
Notation TClosed := IceTransportState_Closed.
Notation DNew := DtlsState_New.
Notation DHandshaking := DtlsState_Handshaking.
Notation DConnected := DtlsState_Connected.
Notation DFailed := DtlsState_Failed.
Notation DClosed := DtlsState_Closed.
Notation SNew := SctpState_New.
Notation SConnecting := SctpState_Connecting.
Notation SConnected := SctpState_Connected.
Notation SClosed := SctpState_Closed.
Notation CConnecting := DataChannelState_Connecting.
Notation COpen := DataChannelState_Open.
Notation CClosing := DataChannelState_Closing.
Notation CClosed := DataChannelState_Closed.

(* ------------------------------------------------------------------ data channels *)
(* progress of one in-flight close_data_channel call on the channel *)
Inductive cdc_pos : Set := CdcIdle | CdcChecked | CdcStored.
Definition cdc_eqb (a b : cdc_pos) : bool :=
  match a, b with CdcIdle, CdcIdle | CdcChecked, CdcChecked | CdcStored, CdcStored => true | _, _ => false end.

Record chan : Set := mkChan {
  c_state : DataChannelState;
  c_opens : nat;      (* Open events delivered to the application *)
  c_closes : nat;     (* Close events delivered to the application *)
  c_tx : bool;        (* event stream still open (DataChannel.tx is Some) *)
  c_cdc : cdc_pos
}.
Definition new_chan : chan := mkChan CConnecting 0 0 true CdcIdle.

(* DataChannel::send_event(Close): delivered only while the stream is open *)
Definition emit_close (c : chan) : chan :=
  if c_tx c then mkChan (c_state c) (c_opens c) (S (c_closes c)) (c_tx c) (c_cdc c) else c.
(* swap(Closed) + the test of the old state; [end_stream] = close_channel() *)
Definition swap_close (test_old : bool) (end_stream : bool) (c : chan) : chan :=
  let old := c_state c in
  let c1 := mkChan CClosed (c_opens c) (c_closes c) (c_tx c) (c_cdc c) in
  let fire := if test_old then negb (DataChannelState_eqb old CClosed) else true in
  let c2 := if fire then emit_close c1 else c1 in
  if end_stream then mkChan (c_state c2) (c_opens c2) (c_closes c2) false (c_cdc c2) else c2.
(* SctpCleanupGuard::drop on one channel: close_channel() sits inside the test *)
Definition guard_chan (c : chan) : chan :=
  let old := c_state c in
  let fire := if guard_close_if_old_not_closed then negb (DataChannelState_eqb old CClosed) else true in
  let c1 := mkChan CClosed (c_opens c) (c_closes c) (c_tx c) (c_cdc c) in
  if fire then let c2 := emit_close c1 in mkChan (c_state c2) (c_opens c2) (c_closes c2) false (c_cdc c2) else c1.
(* close_with_reason on one channel *)
Definition pc_close_chan (c : chan) : chan :=
  if close_closes_channels then swap_close true true c else c.
Definition open_chan (c : chan) : chan :=
  if DataChannelState_eqb (c_state c) CConnecting
  then mkChan COpen (if c_tx c then S (c_opens c) else c_opens c) (c_closes c) (c_tx c) (c_cdc c) else c.

(* close_data_channel, one call at a time per channel: load/compare, store Closing, swap+announce *)
Definition cdc_check (c : chan) : chan :=
  match c_cdc c with
  | CdcIdle =>
      if cdc_closed_is_noop && DataChannelState_eqb (c_state c) CClosed then c
      else mkChan (c_state c) (c_opens c) (c_closes c) (c_tx c) CdcChecked
  | _ => c
  end.
Definition cdc_store (c : chan) : chan :=
  match c_cdc c with
  | CdcChecked => mkChan CClosing (c_opens c) (c_closes c) (c_tx c) CdcStored
  | _ => c
  end.
Definition cdc_finish (c : chan) : chan :=
  match c_cdc c with
  | CdcStored =>
      let c1 := swap_close cdc_close_if_old_not_closed false c in
      mkChan (c_state c1) (c_opens c1) (c_closes c1) (c_tx c1) CdcIdle
  | _ => c
  end.

Fixpoint upd_nth (i : nat) (f : chan -> chan) (l : list chan) : list chan :=
  match l, i with
  | [], _ => []
  | c :: r, O => f c :: r
  | c :: r, S j => c :: upd_nth j f r
  end.

(* ------------------------------------------------------------------ the connection *)
Inductive task_pos : Set :=
  | TIdle        (* run_ice_dtls_loop / run_rtp_direct_loop: top-level loop, waiting for ICE *)
  | TStarting    (* inside start_dtls (holds a strong PeerConnection) *)
  | TConn        (* inside the select loop of handle_connected_state(_no_dtls) *)
  | TExited.
Definition task_eqb (a b : task_pos) : bool :=
  match a, b with TIdle, TIdle | TStarting, TStarting | TConn, TConn | TExited, TExited => true | _, _ => false end.

Inductive sender_st : Set :=
  | SdNone                    (* no send_data call in its wait loop *)
  | SdParked (registered notified : bool)   (* awaiting flow_control_notify *)
  | SdErr                     (* returned Err("sctp association closed") *)
  | SdSent.                   (* got credit, queued its data, returned Ok *)
Definition sender_eqb (a b : sender_st) : bool :=
  match a, b with
  | SdNone, SdNone | SdErr, SdErr | SdSent, SdSent => true
  | SdParked r1 n1, SdParked r2 n2 => Bool.eqb r1 r2 && Bool.eqb n1 n2
  | _, _ => false
  end.

Record st : Set := mkSt {
  webrtc : bool;                       (* TransportMode::WebRtc (DTLS+SCTP) vs Rtp/Srtp (direct) *)
  peer : PeerConnectionState;          (* what subscribe_peer_state() shows *)
  ice : IceConnectionState;
  sig : SignalingState;
  reason : option DisconnectReason;
  ice_t : IceTransportState;           (* the ICE transport's own state *)
  dtls : DtlsState;                    (* DtlsState_New = no transport yet *)
  dtls_run : bool;                     (* DTLS runner task alive *)
  sctp : option SctpState;             (* None = no association object *)
  sctp_run : bool;                     (* run_loop alive (its cleanup guard has not run) *)
  sctp_cr : option SctpCloseReason;
  sctp_slot : bool;                    (* PeerConnectionInner.sctp_transport is Some *)
  close_sig : bool;                    (* SctpTransport::close_tx permit stored *)
  chans : list chan;
  task : task_pos;
  loops_done : bool;                   (* a transport loop has exited: the `rtcp_loop` future is ready *)
  grace : bool;                        (* a grace timer of the current epoch is pending *)
  sender : sender_st;
  credit : bool;                       (* flow-control window has room *)
  want_sctp : bool;                    (* remote description has an application section *)
  drop_pending : bool;                 (* last handle dropped while start_dtls holds a strong reference *)
  guards : nat                         (* ghost: how many times an SCTP cleanup guard has run *)
}.

Definition init (w : bool) : st :=
  mkSt w PNew INew GStable None TNew DNew false None false None false false [] TIdle false false SdNone true false false 0.

(* setters (explicit: no record-update notation in the standard library) *)
Definition w_core (s : st) (p : PeerConnectionState) (i : IceConnectionState) (g : SignalingState) (r : option DisconnectReason) : st :=
  mkSt (webrtc s) p i g r (ice_t s) (dtls s) (dtls_run s) (sctp s) (sctp_run s) (sctp_cr s) (sctp_slot s) (close_sig s)
       (chans s) (task s) (loops_done s) (grace s) (sender s) (credit s) (want_sctp s) (drop_pending s) (guards s).
Definition w_peer s p := w_core s p (ice s) (sig s) (reason s).
Definition w_ice s i := w_core s (peer s) i (sig s) (reason s).
Definition w_sig s g := w_core s (peer s) (ice s) g (reason s).
Definition w_reason s r := w_core s (peer s) (ice s) (sig s) r.
Definition w_low (s : st) (it : IceTransportState) (d : DtlsState) (dr : bool) : st :=
  mkSt (webrtc s) (peer s) (ice s) (sig s) (reason s) it d dr (sctp s) (sctp_run s) (sctp_cr s) (sctp_slot s) (close_sig s)
       (chans s) (task s) (loops_done s) (grace s) (sender s) (credit s) (want_sctp s) (drop_pending s) (guards s).
Definition w_sctp (s : st) (a : option SctpState) (run : bool) (cr : option SctpCloseReason) (slot csig : bool) : st :=
  mkSt (webrtc s) (peer s) (ice s) (sig s) (reason s) (ice_t s) (dtls s) (dtls_run s) a run cr slot csig
       (chans s) (task s) (loops_done s) (grace s) (sender s) (credit s) (want_sctp s) (drop_pending s) (guards s).
Definition w_chans (s : st) (l : list chan) : st :=
  mkSt (webrtc s) (peer s) (ice s) (sig s) (reason s) (ice_t s) (dtls s) (dtls_run s) (sctp s) (sctp_run s) (sctp_cr s) (sctp_slot s) (close_sig s)
       l (task s) (loops_done s) (grace s) (sender s) (credit s) (want_sctp s) (drop_pending s) (guards s).
Definition w_task (s : st) (t : task_pos) (ld g : bool) : st :=
  mkSt (webrtc s) (peer s) (ice s) (sig s) (reason s) (ice_t s) (dtls s) (dtls_run s) (sctp s) (sctp_run s) (sctp_cr s) (sctp_slot s) (close_sig s)
       (chans s) t ld g (sender s) (credit s) (want_sctp s) (drop_pending s) (guards s).
Definition w_sender (s : st) (x : sender_st) (cr : bool) : st :=
  mkSt (webrtc s) (peer s) (ice s) (sig s) (reason s) (ice_t s) (dtls s) (dtls_run s) (sctp s) (sctp_run s) (sctp_cr s) (sctp_slot s) (close_sig s)
       (chans s) (task s) (loops_done s) (grace s) x cr (want_sctp s) (drop_pending s) (guards s).
Definition w_misc (s : st) (ws dp : bool) : st :=
  mkSt (webrtc s) (peer s) (ice s) (sig s) (reason s) (ice_t s) (dtls s) (dtls_run s) (sctp s) (sctp_run s) (sctp_cr s) (sctp_slot s) (close_sig s)
       (chans s) (task s) (loops_done s) (grace s) (sender s) (credit s) ws dp (guards s).

Definition bump (s : st) : st :=
  mkSt (webrtc s) (peer s) (ice s) (sig s) (reason s) (ice_t s) (dtls s) (dtls_run s) (sctp s) (sctp_run s) (sctp_cr s) (sctp_slot s) (close_sig s)
       (chans s) (task s) (loops_done s) (grace s) (sender s) (credit s) (want_sctp s) (drop_pending s) (S (guards s)).

(* ---- guarded writes *)
(* disconnect_reason.send_if_modified(|cur| if cur.is_none() { *cur = Some(r) ... }) *)
Definition set_reason (s : st) (r : DisconnectReason) : st :=
  if reason_writes_guarded then match reason s with None => w_reason s (Some r) | Some _ => s end
  else w_reason s (Some r).
(* report_peer_state / report_ice_state *)
Definition report_peer (s : st) (p : PeerConnectionState) : st :=
  if state_task_writes_guarded && PeerConnectionState_eqb (peer s) PClosed then s else w_peer s p.
Definition report_ice (s : st) (i : IceConnectionState) : st :=
  if state_task_writes_guarded && IceConnectionState_eqb (ice s) IClosed then s else w_ice s i.

Definition ice_of (t : IceTransportState) : IceConnectionState :=
  match t with
  | TNew => INew | TChecking => IChecking | TConnectedI => IConnected | TCompleted => ICompleted
  | TFailed => IFailed | TDisconnected => IDisconnected | TClosed => IClosed
  end.
Definition ice_up (t : IceTransportState) : bool :=
  match t with TConnectedI | TCompleted => true | _ => false end.
Definition ice_dead (t : IceTransportState) : bool :=
  match t with TFailed | TClosed => true | _ => false end.

(* ---- SCTP *)
Definition sctp_is_closed (s : st) : bool :=
  match sctp s with Some SClosed => true | _ => false end.
(* flow_control_notify.notify_waiters(): reaches a Notified future that exists *)
Definition wake_sender (s : st) : st :=
  match sender s with
  | SdParked true _ => w_sender s (SdParked true true) (credit s)
  | _ => s
  end.
(* SctpCleanupGuard::drop *)
Definition guard_exit (s : st) : st :=
  if sctp_run s then
    let s1 := w_sctp s (Some SClosed) false (sctp_cr s) (sctp_slot s) (close_sig s) in
    let s2 := if guard_wakes_senders then wake_sender s1 else s1 in
    let s3 := w_chans s2 (map guard_chan (chans s2)) in
    bump (w_task s3 (task s3) true (grace s3))
  else s.
(* SctpTransport::close() *)
Definition sctp_close_call (s : st) : st :=
  match sctp s with
  | Some _ =>
      let s1 := w_sctp s (Some SClosed) (sctp_run s) (sctp_cr s) (sctp_slot s) true in
      if close_wakes_senders then wake_sender s1 else s1
  | None => s
  end.
(* a chunk / timer handled inside the run loop that ends the association: close_reason + set_state(Closed) *)
Definition sctp_die (s : st) (cr : SctpCloseReason) : st :=
  if sctp_run s then
    match sctp s with
    | Some _ => w_sctp s (Some SClosed) true (Some cr) (sctp_slot s) (close_sig s)
    | None => s
    end
  else s.

(* close-reason string -> DisconnectReason, as both propagate_sctp_close_reason and close_with_reason read it *)
Definition sctp_reason (s : st) : option DisconnectReason :=
  if sctp_slot s then match sctp_cr s with Some c => sctp_reason_map c | None => None end else None.
Definition propagate (s : st) : st :=
  match sctp_reason s with
  | Some r =>
      let s1 := set_reason s r in
      if sctp_death_leaves_connected && PeerConnectionState_eqb (peer s1) PConnected then w_peer s1 PDisconnected else s1
  | None => s
  end.

(* ---- close_with_reason / Drop *)
Definition already_closed (s : st) : bool :=
  if close_guard_present then
    (if close_guard_on_signaling then SignalingState_eqb (sig s) GClosed else PeerConnectionState_eqb (peer s) PClosed)
  else false.
Definition close_with (s : st) (r : DisconnectReason) : st :=
  if already_closed s then s else
  let fin := match reason s with
             | None => Some (match sctp_reason s with Some x => x | None => r end)
             | Some x => Some x
             end in
  let s1 := w_core s PClosed IClosed GClosed fin in
  (* sctp_transport.take() + close() *)
  let s2 := if sctp_slot s1 then
              let s' := sctp_close_call s1 in w_sctp s' (sctp s') (sctp_run s') (sctp_cr s') false (close_sig s')
            else s1 in
  let s3 := w_chans s2 (map pc_close_chan (chans s2)) in
  (* dtls.close(): the runner returns at its close_rx branch, the DtlsState is left as it is;
     ice_transport.stop(): state Closed *)
  w_low s3 TClosed (dtls s3) false.
(* Drop for PeerConnectionInner: close_with_reason(Dropped) + abort_tracked_tasks (the state task dies, its
   LoopsGuard aborts the transport loops, the SCTP cleanup guard runs) *)
Definition do_drop (s : st) : st :=
  let s1 := close_with s DisconnectReason_Dropped in
  let s2 := guard_exit s1 in
  w_misc (w_task s2 TExited (loops_done s2) false) (want_sctp s2) false.
(* the state task leaves start_dtls: its strong references are gone; a deferred Drop runs now *)
Definition after_start (s : st) : st := if drop_pending s then do_drop s else s.
(* leaving the connected loop drops the `rtcp_loop` future: LoopsGuard aborts the transport loops *)
Definition leave_conn (s : st) (t : task_pos) : st :=
  let s1 := guard_exit s in w_task s1 t false false.

(* top of run_ice_dtls_loop / run_rtp_direct_loop *)
Definition loop_top (s : st) : st :=
  let s0 := report_ice s (ice_of (ice_t s)) in
  match ice_t s0 with
  | TConnectedI | TCompleted =>
      if webrtc s0 then
        (* start_dtls begins: DtlsTransport + (if negotiated) SctpTransport are created; a previous
           SctpTransport in the slot is replaced (dropped: Drop for SctpTransport = close) *)
        let s1 := w_low s0 (ice_t s0) DHandshaking true in
        let s2 := if want_sctp s1 then w_sctp s1 (Some SConnecting) true None true false else s1 in
        w_task s2 TStarting false false
      else
        (* direct RTP/SRTP: the transport starts at once *)
        w_task (report_peer s0 PConnected) TConn false false
  | TFailed => w_task (report_peer (set_reason s0 DisconnectReason_IceFailed) PFailed) TExited false false
  | TClosed => w_task (report_peer (set_reason s0 DisconnectReason_IceDisconnected) PClosed) TExited false false
  | _ => s0
  end.

Inductive event : Set :=
  (* application *)
  | Close | Drop | IceStop
  | CreateChannel | Negotiate (app : bool) | SigTo (g : SignalingState)
  | CdcCheck (i : nat) | CdcStore (i : nat) | CdcFinish (i : nat)
  | SenderEnter | SenderPoll | WindowOpens | WindowFull
  (* lower layers *)
  | IceUp | IceDown | IceFail | SocketNone
  | DtlsDone | DtlsFail | PeerCloseNotify
  | SctpUp | SctpAbort | SctpShutdown | SctpShutdownAck | SctpShutdownComplete | SctpHbTimeout | SctpInitTimeout
  | SctpLoop
  (* the connection-state task observes one thing *)
  | ObsIce | ObsDtls | ObsLoops | ObsGrace.

(* Dropping the last application handle reaches Drop for PeerConnectionInner only if nothing inside the
   connection holds a strong reference to it: start_dtls does while it runs; the DataChannel listener must
   not (it upgrades its weak reference per announcement) -- otherwise a connected PeerConnection on which the
   peer has announced a channel would keep itself alive for good *)
Definition drop_deferred (s : st) : bool :=
  if dc_listener_holds_weak then task_eqb (task s) TStarting else true.

Definition start_err (s : st) : st :=
  (* start_dtls returned Err: its local sctp runner future is dropped (cleanup guard), DtlsFailed, Failed, task ends *)
  let s1 := guard_exit s in
  let s2 := report_peer (set_reason s1 DisconnectReason_DtlsFailed) PFailed in
  after_start (w_task s2 TExited false false).

Definition step (s : st) (e : event) : st :=
  match e with
  | Close => close_with s DisconnectReason_LocalClose
  | Drop => if drop_deferred s then w_misc s (want_sctp s) true else do_drop s
  | IceStop => w_low s TClosed (dtls s) (dtls_run s)
  | CreateChannel => w_chans s (chans s ++ [new_chan])
  | Negotiate app =>
      match ice_t s with
      | TNew => w_misc (w_low s TChecking (dtls s) (dtls_run s)) app (drop_pending s)
      | _ => s
      end
  | SigTo g => if SignalingState_eqb (sig s) GClosed then s else if SignalingState_eqb g GClosed then s else w_sig s g
  | CdcCheck i => w_chans s (upd_nth i cdc_check (chans s))
  | CdcStore i => w_chans s (upd_nth i cdc_store (chans s))
  | CdcFinish i => w_chans s (upd_nth i cdc_finish (chans s))
  (* one iteration of the wait loop of send_data_raw, up to the await *)
  | SenderEnter =>
      match sender s, sctp s with
      | SdNone, Some _ =>
          if sender_checks_closed && sctp_is_closed s then w_sender s SdErr (credit s)
          else if credit s then w_sender s SdSent (credit s)
          else w_sender s (SdParked sender_registers_before_check false) (credit s)
      | _, _ => s
      end
  (* the parked sender is polled: with a wake-up it runs the next iteration *)
  | SenderPoll =>
      match sender s with
      | SdParked _ true =>
          if sender_checks_closed && sctp_is_closed s then w_sender s SdErr (credit s)
          else if credit s then w_sender s SdSent (credit s)
          else w_sender s (SdParked sender_registers_before_check false) (credit s)
      | SdParked false false => w_sender s (SdParked true false) (credit s)   (* first poll registers the waiter *)
      | _ => s
      end
  | WindowOpens => wake_sender (w_sender s (sender s) true)       (* a SACK frees credit and notifies *)
  | WindowFull => w_sender s (sender s) false
  (* ---- lower layers *)
  | IceUp => match ice_t s with TChecking | TDisconnected => w_low s TConnectedI (dtls s) (dtls_run s) | _ => s end
  | IceDown => match ice_t s with TConnectedI | TCompleted => w_low s TDisconnected (dtls s) (dtls_run s) | _ => s end
  | IceFail => match ice_t s with TNew => s | _ => w_low s TFailed (dtls s) (dtls_run s) end
  (* the DTLS runner sees selected_socket = None (only after the ICE transport was stopped) *)
  | SocketNone =>
      if dtls_run s && IceTransportState_eqb (ice_t s) TClosed then
        match dtls s with
        | DHandshaking => w_low s (ice_t s) DFailed false
        | DConnected | DClosed => w_low s (ice_t s) DClosed false
        | _ => s
        end
      else s
  | DtlsDone => if dtls_run s then match dtls s with DHandshaking => w_low s (ice_t s) DConnected true | _ => s end else s
  | DtlsFail => if dtls_run s then match dtls s with DHandshaking => w_low s (ice_t s) DFailed false | _ => s end else s
  | PeerCloseNotify => if dtls_run s then match dtls s with DConnected => w_low s (ice_t s) DClosed true | _ => s end else s
  | SctpUp =>
      if sctp_run s then
        match sctp s, dtls s with
        | Some SConnecting, DConnected =>
            w_chans (w_sctp s (Some SConnected) true (sctp_cr s) (sctp_slot s) (close_sig s)) (map open_chan (chans s))
        | _, _ => s
        end
      else s
  | SctpAbort => sctp_die s CR_REMOTE_ABORT
  | SctpShutdown => s                                   (* answered with SHUTDOWN ACK, association stays up *)
  | SctpShutdownAck => sctp_die s CR_REMOTE_SHUTDOWN
  | SctpShutdownComplete => if shutdown_complete_closes then sctp_die s CR_REMOTE_SHUTDOWN else s
  | SctpHbTimeout => sctp_die s CR_HEARTBEAT_TIMEOUT
  | SctpInitTimeout => match sctp s with Some SConnecting => sctp_die s CR_INIT_TIMEOUT | _ => s end
  (* one turn of the SCTP run loop *)
  | SctpLoop =>
      if sctp_run s then
        if sctp_is_closed s then
          (* parked in select with a close permit: LOCAL_CLOSE is stored; at the loop top: nothing is *)
          guard_exit (if close_sig s then w_sctp s (sctp s) true (Some CR_LOCAL_CLOSE) (sctp_slot s) false else s)
        else match dtls s with
             | DFailed => guard_exit (w_sctp s (sctp s) true (Some CR_DTLS_FAILED) (sctp_slot s) (close_sig s))
             | DClosed => guard_exit (w_sctp s (sctp s) true (Some CR_DTLS_CLOSED) (sctp_slot s) (close_sig s))
             | _ => s
             end
      else s
  (* ---- the connection-state task *)
  | ObsIce =>
      match task s with
      | TIdle => loop_top s
      | TConn =>
          if ice_dead (ice_t s) then loop_top (leave_conn s TIdle)
          else match ice_t s with
               | TDisconnected =>
                   let s1 := report_peer s PDisconnected in
                   let s2 := if webrtc s1 then report_ice s1 IDisconnected else s1 in
                   w_task s2 TConn (loops_done s2) true
               | TConnectedI | TCompleted =>
                   let s1 := report_peer s PConnected in
                   let s2 := if webrtc s1 then report_ice s1 IConnected else s1 in
                   w_task s2 TConn (loops_done s2) false
               | _ => s
               end
      | _ => s
      end
  | ObsDtls =>
      match task s with
      | TStarting =>
          match dtls s with
          | DConnected => after_start (w_task (report_peer s PConnected) TConn (loops_done s) false)
          | DFailed | DClosed => start_err s
          | _ => if dtls_run s then s else if runner_exit_is_error then start_err s else s
          end
      | TConn =>
          if webrtc s then
            match dtls s with
            | DClosed =>
                let s1 := report_ice (report_peer (set_reason s DisconnectReason_DtlsClosed) PDisconnected) IDisconnected in
                leave_conn s1 TExited
            | DFailed =>
                let s1 := report_ice (report_peer (set_reason s DisconnectReason_DtlsFailed) PDisconnected) IDisconnected in
                leave_conn s1 TExited
            | _ => s
            end
          else s
      | _ => s
      end
  | ObsLoops =>
      if loops_done s then
        match task s with
        | TStarting => start_err s          (* "SCTP runner stopped unexpectedly" *)
        | TConn =>
            let s1 := propagate s in
            if ice_dead (ice_t s1) then loop_top (leave_conn s1 TIdle) else leave_conn s1 TExited
        | _ => s
        end
      else s
  | ObsGrace =>
      match task s with
      | TConn =>
          if grace s then
            let s1 := report_peer (set_reason s DisconnectReason_IceDisconnected) PDisconnected in
            let s2 := if webrtc s1 then report_ice s1 IDisconnected else s1 in
            let s3 := if sctp_slot s2 then sctp_close_call s2 else s2 in
            loop_top (leave_conn s3 TIdle)
          else s
      | _ => s
      end
  end.

Fixpoint run (s : st) (evs : list event) : st :=
  match evs with
  | [] => s
  | e :: r => run (step s e) r
  end.

(* ------------------------------------------------------------------ what the application observes *)
Definition core (s : st) : PeerConnectionState * IceConnectionState * SignalingState * option DisconnectReason :=
  (peer s, ice s, sig s, reason s).

(* the connection has visibly ended: a reason is published and the state is not one of the live ones *)
Definition visible_end (s : st) : bool :=
  match reason s with
  | None => false
  | Some _ => match peer s with PDisconnected | PFailed | PClosed => true | _ => false end
  end.

(* ------------------------------------------------------------------ decidable equality (for exploration) *)
Definition opt_eqb {A} (f : A -> A -> bool) (a b : option A) : bool :=
  match a, b with None, None => true | Some x, Some y => f x y | _, _ => false end.
Definition chan_eqb (a b : chan) : bool :=
  DataChannelState_eqb (c_state a) (c_state b) && Nat.eqb (c_opens a) (c_opens b) && Nat.eqb (c_closes a) (c_closes b)
  && Bool.eqb (c_tx a) (c_tx b) && cdc_eqb (c_cdc a) (c_cdc b).
Fixpoint list_eqb {A} (f : A -> A -> bool) (a b : list A) : bool :=
  match a, b with
  | [], [] => true
  | x :: a', y :: b' => f x y && list_eqb f a' b'
  | _, _ => false
  end.
Definition st_eqb (a b : st) : bool :=
  Bool.eqb (webrtc a) (webrtc b) && PeerConnectionState_eqb (peer a) (peer b) && IceConnectionState_eqb (ice a) (ice b)
  && SignalingState_eqb (sig a) (sig b) && opt_eqb DisconnectReason_eqb (reason a) (reason b)
  && IceTransportState_eqb (ice_t a) (ice_t b) && DtlsState_eqb (dtls a) (dtls b) && Bool.eqb (dtls_run a) (dtls_run b)
  && opt_eqb SctpState_eqb (sctp a) (sctp b) && Bool.eqb (sctp_run a) (sctp_run b)
  && opt_eqb SctpCloseReason_eqb (sctp_cr a) (sctp_cr b) && Bool.eqb (sctp_slot a) (sctp_slot b) && Bool.eqb (close_sig a) (close_sig b)
  && list_eqb chan_eqb (chans a) (chans b) && task_eqb (task a) (task b) && Bool.eqb (loops_done a) (loops_done b)
  && Bool.eqb (grace a) (grace b) && sender_eqb (sender a) (sender b) && Bool.eqb (credit a) (credit b)
  && Bool.eqb (want_sctp a) (want_sctp b) && Bool.eqb (drop_pending a) (drop_pending b) && Nat.eqb (guards a) (guards b).

(* ------------------------------------------------------------------ exploration of interleavings *)
(* the steps the implementation takes by itself (tasks being scheduled); applying a disabled one is a no-op *)
Definition reactions : list event := [SctpLoop; ObsLoops; ObsDtls; ObsIce; SocketNone; SenderPoll].

Definition progress (s : st) (evs : list event) : list st :=
  filter (fun s' => negb (st_eqb s' s)) (map (step s) evs).

(* every state in which the system can come to rest when the scripted threads (each a list of stimuli, in
   order) are interleaved in any way with each other and with the reactions *)
(* a thread item: [Some e] = the stimulus e; [None] = "the harness waited here": may only be passed when no
   reaction is enabled any more *)
Fixpoint heads (quiet : bool) (pre : list (list (option event))) (ts : list (list (option event)))
  : list (option event * list (list (option event))) :=
  match ts with
  | [] => []
  | [] :: r => heads quiet pre r
  | (Some e :: t) :: r => (Some e, pre ++ (t :: r)) :: heads quiet (pre ++ [Some e :: t]) r
  | (None :: t) :: r =>
      (if quiet then [(None, pre ++ (t :: r))] else []) ++ heads quiet (pre ++ [None :: t]) r
  end.
Definition event_eqb (a b : event) : bool :=
  match a, b with
  | Close, Close | Drop, Drop | IceStop, IceStop | CreateChannel, CreateChannel => true
  | Negotiate x, Negotiate y => Bool.eqb x y
  | SigTo x, SigTo y => SignalingState_eqb x y
  | CdcCheck x, CdcCheck y | CdcStore x, CdcStore y | CdcFinish x, CdcFinish y => Nat.eqb x y
  | SenderEnter, SenderEnter | SenderPoll, SenderPoll | WindowOpens, WindowOpens | WindowFull, WindowFull => true
  | IceUp, IceUp | IceDown, IceDown | IceFail, IceFail | SocketNone, SocketNone => true
  | DtlsDone, DtlsDone | DtlsFail, DtlsFail | PeerCloseNotify, PeerCloseNotify => true
  | SctpUp, SctpUp | SctpAbort, SctpAbort | SctpShutdown, SctpShutdown | SctpShutdownAck, SctpShutdownAck => true
  | SctpShutdownComplete, SctpShutdownComplete | SctpHbTimeout, SctpHbTimeout | SctpInitTimeout, SctpInitTimeout => true
  | SctpLoop, SctpLoop | ObsIce, ObsIce | ObsDtls, ObsDtls | ObsLoops, ObsLoops | ObsGrace, ObsGrace => true
  | _, _ => false
  end.
Definition config : Set := (st * list (list (option event)))%type.
Definition config_eqb (a b : config) : bool :=
  st_eqb (fst a) (fst b) && list_eqb (list_eqb (opt_eqb event_eqb)) (snd a) (snd b).
Fixpoint mem_config (c : config) (l : list config) : bool :=
  match l with [] => false | x :: r => config_eqb c x || mem_config c r end.
Fixpoint dedup (l : list config) (acc : list config) : list config :=
  match l with
  | [] => acc
  | c :: r => if mem_config c acc then dedup r acc else dedup r (c :: acc)
  end.
Definition drop_empty (ts : list (list (option event))) : list (list (option event)) :=
  filter (fun t => match t with [] => false | _ => true end) ts.
Definition succs (c : config) : list config :=
  let '(s, threads) := c in
  let rs := progress s reactions in
  let hs := heads (match rs with [] => true | _ => false end) [] threads in
  map (fun '(oe, ts') => (match oe with Some e => step s e | None => s end, drop_empty ts')) hs
  ++ map (fun s' => (s', threads)) rs.
(* level-synchronous search over configurations, with duplicate elimination; returns the states at rest *)
Fixpoint bfs (fuel : nat) (frontier : list config) (acc : list st) : list st :=
  match fuel with
  | O => acc ++ map fst frontier
  | S f =>
      let terms := filter (fun c => match succs c with [] => true | _ => false end) frontier in
      let nexts := dedup (flat_map succs frontier) [] in
      match nexts with
      | [] => acc ++ map fst terms
      | _ => bfs f nexts (acc ++ map fst terms)
      end
  end.
Definition explore (fuel : nat) (s : st) (threads : list (list (option event))) : list st :=
  bfs fuel [(s, drop_empty threads)] [].

(* ------------------------------------------------------------------ phases (how the harness gets there) *)
Inductive phase : Set :=
  | PhCreated | PhOfferSet | PhChecking | PhDtlsHandshaking | PhDtlsConnected | PhChannelsOpen | PhDirectConnected
  | PhTwoChannelsOpen.   (* the second channel stands for one the peer announced in-band (DCEP): a channel like any other *)

Definition phase_events (p : phase) : list event :=
  match p with
  | PhCreated => [CreateChannel]
  | PhOfferSet => [CreateChannel; SigTo SignalingState_HaveLocalOffer]
  | PhChecking => [CreateChannel; SigTo SignalingState_HaveLocalOffer; SigTo GStable; Negotiate true; ObsIce]
  | PhDtlsHandshaking => [CreateChannel; Negotiate true; ObsIce; IceUp; ObsIce]
  | PhDtlsConnected => [Negotiate false; ObsIce; IceUp; ObsIce; DtlsDone; ObsDtls]
  | PhChannelsOpen => [CreateChannel; Negotiate true; ObsIce; IceUp; ObsIce; DtlsDone; ObsDtls; SctpUp]
  | PhDirectConnected => [Negotiate false; ObsIce; IceUp; ObsIce]
  | PhTwoChannelsOpen => [CreateChannel; CreateChannel; Negotiate true; ObsIce; IceUp; ObsIce; DtlsDone; ObsDtls; SctpUp]
  end.
Definition phase_webrtc (p : phase) : bool := match p with PhDirectConnected => false | _ => true end.
Definition phase_state (w : bool) (p : phase) : st := run (init w) (phase_events p).
