(* C15 model: NACK (pid, blp) pair packing / unpacking (src/rtp.rs pack_nack_pairs, parse_nack_body),
   RFC 4588 RTX wrap / unwrap (src/rtx.rs), and the receiver-side gap detection of
   DefaultRtpReceiverNackHandler::on_packet_received (src/peer_connection.rs).  Definitions only. *)
From Coq Require Import ZArith List Bool.
From RV Require Import Lib.Wrap.
From RV Require Import Gen.Consts.
From RV Require Import Model.RtpLib.
From RV Require Import Model.Rtp.
Import ListNotations.
Open Scope Z_scope.

(* ------------------------------------------------------------------ pack_nack_pairs *)
(* seqs.sort_unstable(): the sorted permutation (unique for integers) *)
Fixpoint insert (x : Z) (l : list Z) : list Z :=
  match l with
  | [] => [x]
  | y :: t => if x <=? y then x :: l else y :: insert x t
  end.
Fixpoint isort (l : list Z) : list Z :=
  match l with
  | [] => []
  | x :: t => insert x (isort t)
  end.
(* Vec::dedup(): removes consecutive repeated elements *)
Fixpoint dedup (l : list Z) : list Z :=
  match l with
  | [] => []
  | x :: t => match t with
              | y :: _ => if x =? y then dedup t else x :: dedup t
              | [] => [x]
              end
  end.

(* inner `while idx < seqs.len()` loop: returns the bitmask and the unconsumed suffix seqs[idx..] *)
Fixpoint pack_inner (pid blp : Z) (l : list Z) : Z * list Z :=
  match l with
  | [] => (blp, [])
  | x :: t =>
      let diff := cast_u16 (x - pid) in                 (* seqs[idx].wrapping_sub(pid) *)
      if diff =? 0 then pack_inner pid blp t
      else if diff >? 16 then (blp, l)
      else pack_inner pid (Z.lor blp (Z.shiftl 1 (diff - 1))) t
  end.
(* outer loop; fuel = number of remaining sequence numbers (each iteration consumes at least one) *)
Fixpoint pack_outer (fuel : nat) (l : list Z) : list (Z * Z) :=
  match l with
  | [] => []
  | pid :: t =>
      match fuel with
      | O => []
      | S f => let '(blp, rest) := pack_inner pid 0 t in (pid, blp) :: pack_outer f rest
      end
  end.
Definition pack_nack_pairs (packets : list Z) : list (Z * Z) :=
  let seqs := dedup (isort packets) in pack_outer (length seqs) seqs.

(* parse_nack_body: pid, then pid.wrapping_add(bit + 1) for every set bit, bits 0..15 in order *)
Definition unpack_pair (pid blp : Z) : list Z :=
  pid :: flat_map (fun bit => if Z.land (Z.shiftr blp bit) 1 =? 1 then [cast_u16 (pid + (bit + 1))] else [])
                  (zrange 16).
Definition unpack_pairs (pairs : list (Z * Z)) : list Z :=
  flat_map (fun pb => unpack_pair (fst pb) (snd pb)) pairs.

(* ------------------------------------------------------------------ RTX (RFC 4588) *)
Definition wrap_rtx (original : packet) (rtx_ssrc rtx_pt rtx_seq : Z) : packet :=
  let h := p_hdr original in
  mkPkt (mkHdr (h_marker h) rtx_pt rtx_seq (h_ts h) rtx_ssrc [] None)
        (be16 (h_seq h) ++ p_payload original) 0.

Definition unwrap_rtx (rtx : packet) (primary_ssrc primary_pt : Z) : option packet :=
  if len (p_payload rtx) <? 2 then None else
  match p_payload rtx with
  | a :: b :: rest =>
      Some (mkPkt (mkHdr (h_marker (p_hdr rtx)) primary_pt (u16_of a b) (h_ts (p_hdr rtx)) primary_ssrc [] None)
                  rest 0)
  | _ => None
  end.

(* ------------------------------------------------------------------ receiver gap detection *)
Record nstate : Set := mkN { n_last_seq : Z; n_last_ssrc : Z; n_init : bool; n_pending : list Z }.
Definition nack_init : nstate := mkN 0 0 false [].

Fixpoint mem (x : Z) (l : list Z) : bool :=
  match l with [] => false | y :: t => (x =? y) || mem x t end.
Fixpoint remove_all (x : Z) (l : list Z) : list Z :=
  match l with [] => [] | y :: t => if x =? y then remove_all x t else y :: remove_all x t end.
Fixpoint add_all (xs : list Z) (set : list Z) : list Z :=
  match xs with [] => set | x :: t => add_all t (if mem x set then set else x :: set) end.

(* `while s != seq { lost.push(s); s = s.wrapping_add(1) }` *)
Fixpoint gap_loop (fuel : nat) (s seq : Z) : list Z :=
  match fuel with
  | O => []
  | S f => if s =? seq then [] else s :: gap_loop f (cast_u16 (s + 1)) seq
  end.

Definition gap_lost (last seq : Z) : list Z :=
  let diff := cast_u16 (seq - last) in
  let gap := diff - 1 in
  let skip := Z.max 0 (gap - MAX_RECEIVER_NACK_GAP) in           (* saturating_sub *)
  let s := cast_u16 (cast_u16 (last + 1) + cast_u16 skip) in
  gap_loop (Z.to_nat (MAX_RECEIVER_NACK_GAP + 1)) s seq.

(* one on_packet_received call: new state, the lost list of the emitted NACK (if any), and whether the
   pending set went over its bound (its eviction order is HashSet iteration order: not modelled) *)
Definition nack_step (st : nstate) (seq ssrc : Z) : nstate * option (list Z) * bool :=
  if negb (n_last_ssrc st =? 0) && negb (n_last_ssrc st =? ssrc) then
    (mkN seq ssrc (n_init st) [], None, false)
  else if negb (n_init st) then
    (mkN seq ssrc true (n_pending st), None, false)
  else if mem seq (n_pending st) then
    (mkN (n_last_seq st) (n_last_ssrc st) true (remove_all seq (n_pending st)), None, false)
  else
    let last := n_last_seq st in
    let diff := cast_u16 (seq - last) in
    if (diff >? 1) && (diff <? 32768) then
      let lost := gap_lost last seq in
      let pending := add_all lost (n_pending st) in
      (mkN seq (n_last_ssrc st) true pending, Some lost, len pending >? 2 * MAX_RECEIVER_NACK_GAP)
    else if diff <? 32768 then
      (mkN seq (n_last_ssrc st) true (n_pending st), None, false)
    else
      (st, None, false).
