(* C15 model: sender side of NACK handling (src/peer_connection.rs) -- `NackSendBuffer` (FIFO order + seq index)
   and `DefaultRtpSenderNackHandler::{new, set_rtx, on_packet_sent, packets_for_nack}` with the resend cooldown
   bookkeeping.  HashMap / HashSet are association lists with unique keys (only lookups are observed).
   Times are microseconds since an arbitrary origin; `Instant::duration_since` saturates at zero. *)
From Coq Require Import ZArith List Bool.
From RV Require Import Lib.Wrap.
From RV Require Import Gen.RtpConsts.
From RV Require Import Model.RtpLib.
From RV Require Import Model.Rtp.
Import ListNotations.
Open Scope Z_scope.

Definition pseq (p : packet) : Z := h_seq (p_hdr p).

Fixpoint alookup {A : Type} (k : Z) (m : list (Z * A)) : option A :=
  match m with
  | [] => None
  | (k', v) :: t => if k =? k' then Some v else alookup k t
  end.
Fixpoint aremove {A : Type} (k : Z) (m : list (Z * A)) : list (Z * A) :=
  match m with
  | [] => []
  | (k', v) :: t => if k =? k' then aremove k t else (k', v) :: aremove k t
  end.
Definition ainsert {A : Type} (k : Z) (v : A) (m : list (Z * A)) : list (Z * A) := (k, v) :: aremove k m.

Record sbuf : Type := mkSB { sb_order : list Z; sb_map : list (Z * packet) }.
Definition sb_empty : sbuf := mkSB [] [].
Definition sb_len (b : sbuf) : Z := len (sb_map b).
Definition sb_get (b : sbuf) (seq : Z) : option packet := alookup seq (sb_map b).

(* `while self.order.len() > max_size { pop_front; remove }` *)
Fixpoint evict (fuel : nat) (order : list Z) (m : list (Z * packet)) (max : Z) : list Z * list (Z * packet) :=
  match fuel with
  | O => (order, m)
  | S f =>
      if len order >? max then
        match order with
        | old :: rest => evict f rest (aremove old m) max
        | [] => (order, m)
        end
      else (order, m)
  end.

Definition sb_push (b : sbuf) (p : packet) (max : Z) : sbuf :=
  let seq := pseq p in
  let m := ainsert seq p (sb_map b) in
  match alookup seq (sb_map b) with
  | Some _ => mkSB (sb_order b) m                  (* already buffered: index updated, FIFO untouched *)
  | None =>
      let order := sb_order b ++ [seq] in
      let '(o, m') := evict (length order) order m max in
      mkSB o m'
  end.

Record shandler : Type := mkSH {
  sh_buf : sbuf; sh_recent : list (Z * Z); sh_max : Z; sh_supp : Z; sh_rtx : Z }.

Definition sh_new (max_size : Z) : shandler := mkSH sb_empty [] (Z.max max_size SENDER_MIN_SIZE) 0 0.
(* set_rtx(Some cfg) publishes cfg.rtx_ssrc, set_rtx(None) publishes 0 *)
Definition sh_set_rtx (h : shandler) (ssrc : Z) : shandler :=
  mkSH (sh_buf h) (sh_recent h) (sh_max h) (sh_supp h) ssrc.
Definition sh_on_sent (h : shandler) (p : packet) : shandler :=
  if negb (sh_rtx h =? 0) && (h_ssrc (p_hdr p) =? sh_rtx h) then h
  else mkSH (sb_push (sh_buf h) p (sh_max h)) (sh_recent h) (sh_max h) (sh_supp h) (sh_rtx h).

Definition since (now last : Z) : Z := Z.max 0 (now - last).
Fixpoint zmem (x : Z) (l : list Z) : bool :=
  match l with [] => false | y :: t => (x =? y) || zmem x t end.

(* `if let Some(last) = recent.get(&seq)` and `now.duration_since(last) < NACK_RESEND_COOLDOWN` *)
Definition cooling (recent : list (Z * Z)) (seq now : Z) : bool :=
  match alookup seq recent with
  | Some last => since now last <? NACK_RESEND_COOLDOWN_US
  | None => false
  end.

(* the `for &seq in seqs` loop: (recent, out, suppressed) *)
Fixpoint pfn_loop (buf : sbuf) (now : Z) (seqs seen : list Z) (recent : list (Z * Z)) (supp : Z)
  : list (Z * Z) * list packet * Z :=
  match seqs with
  | [] => (recent, [], supp)
  | seq :: rest =>
      if zmem seq seen then pfn_loop buf now rest seen recent (supp + 1)
      else if cooling recent seq now then pfn_loop buf now rest (seq :: seen) recent (supp + 1)
      else
        match sb_get buf seq with
        | Some p =>
            let '(r, out, s) := pfn_loop buf now rest (seq :: seen) (ainsert seq now recent) supp in
            (r, p :: out, s)
        | None => pfn_loop buf now rest (seq :: seen) recent supp
        end
  end.

Definition sh_packets_for_nack (h : shandler) (seqs : list Z) (now : Z) : shandler * list packet :=
  let '(recent, out, supp) := pfn_loop (sh_buf h) now seqs [] (sh_recent h) (sh_supp h) in
  let recent :=
    if len recent >? sh_max h * RECENT_PRUNE_FACTOR
    then filter (fun kt => since now (snd kt) <? NACK_RESEND_COOLDOWN_US) recent
    else recent in
  (mkSH (sh_buf h) recent (sh_max h) supp (sh_rtx h), out).
