(* C07 -- panic-aware result monad with cost counters.

   A computation yields a value of [res]: [Ok v], [Err e] (the Rust function returned an error /
   None / ignored the input), [Panic] (the Rust code would panic: out-of-range index or slice,
   [bytes::Buf] read or [advance]/[split_to] past the end, arithmetic overflow with overflow checks
   on), or [OutOfFuel] (a fuelled loop ran out of fuel -- the model's rendering of "hangs").
   Beside the result every computation carries two counters: [ticks] (one per primitive step plus
   one per byte copied) and [allocd] (bytes/elements placed into freshly built vectors).  Theorems
   about totality, termination, time and allocation are ordinary statements about these fields.

   Byte strings are [list Z]; every read reduces the element [mod 256], so the model is total on
   all of [list Z] and no well-formedness hypothesis is needed. *)
From Coq Require Import ZArith List Lia Bool.
Import ListNotations.
Open Scope Z_scope.

Inductive res (A : Type) : Type :=
| Ok (a : A)
| Err (e : Z)
| Panic
| OutOfFuel.
Arguments Ok {A} a.
Arguments Err {A} e.
Arguments Panic {A}.
Arguments OutOfFuel {A}.

Record M (A : Type) : Type := mkM { val : res A; ticks : Z; allocd : Z }.
Arguments mkM {A} val ticks allocd.
Arguments val {A} m.
Arguments ticks {A} m.
Arguments allocd {A} m.

Definition ret {A} (a : A) : M A := mkM (Ok a) 0 0.
Definition err {A} (e : Z) : M A := mkM (Err e) 0 0.
Definition panic {A} : M A := mkM Panic 0 0.
Definition out_of_fuel {A} : M A := mkM OutOfFuel 0 0.
Definition tick (n : Z) : M unit := mkM (Ok tt) n 0.
Definition alloc (n : Z) : M unit := mkM (Ok tt) 0 n.

Definition bind {A B} (m : M A) (f : A -> M B) : M B :=
  match val m with
  | Ok a => let r := f a in mkM (val r) (ticks m + ticks r) (allocd m + allocd r)
  | Err e => mkM (Err e) (ticks m) (allocd m)
  | Panic => mkM Panic (ticks m) (allocd m)
  | OutOfFuel => mkM OutOfFuel (ticks m) (allocd m)
  end.

Declare Scope pm_scope.
Delimit Scope pm_scope with pm.
Notation "x <- m ;; k" := (bind m (fun x => k)) (at level 61, m at next level, right associativity) : pm_scope.
Notation "' p <- m ;; k" := (bind m (fun p => k)) (at level 61, p pattern, m at next level, right associativity) : pm_scope.
Notation "m ;;; k" := (bind m (fun _ => k)) (at level 61, right associativity) : pm_scope.
Open Scope pm_scope.

(* ---------------------------------------------------------------- byte strings and cursors *)
Definition bytes := list Z.
Definition len {A} (l : list A) : Z := Z.of_nat (length l).
Definition byte (b : Z) : Z := b mod 256.

Definition take {A} (n : Z) (l : list A) : list A := firstn (Z.to_nat n) l.
Definition drop {A} (n : Z) (l : list A) : list A := skipn (Z.to_nat n) l.

(* [bytes::Buf::get_u8] etc.: panic when fewer bytes remain *)
Definition get_u8 (c : bytes) : M (Z * bytes) :=
  match c with
  | b :: c' => mkM (Ok (byte b, c')) 1 0
  | _ => panic
  end.
Definition get_u16 (c : bytes) : M (Z * bytes) :=
  match c with
  | a :: b :: c' => mkM (Ok (byte a * 256 + byte b, c')) 1 0
  | _ => panic
  end.
Definition get_u24 (c : bytes) : M (Z * bytes) :=
  match c with
  | a :: b :: d :: c' => mkM (Ok (byte a * 65536 + byte b * 256 + byte d, c')) 1 0
  | _ => panic
  end.
Definition get_u32 (c : bytes) : M (Z * bytes) :=
  match c with
  | a :: b :: d :: e :: c' => mkM (Ok (byte a * 16777216 + byte b * 65536 + byte d * 256 + byte e, c')) 1 0
  | _ => panic
  end.
Definition get_u32_le (c : bytes) : M (Z * bytes) :=
  match c with
  | a :: b :: d :: e :: c' => mkM (Ok (byte e * 16777216 + byte d * 65536 + byte b * 256 + byte a, c')) 1 0
  | _ => panic
  end.

(* [Bytes::split_to n] / [Buf::advance n] / [copy_to_slice]: panic when n > remaining; O(1) *)
Definition split_to (n : Z) (c : bytes) : M (bytes * bytes) :=
  if (0 <=? n) && (n <=? len c) then mkM (Ok (take n c, drop n c)) 1 0 else panic.
Definition advance (n : Z) (c : bytes) : M bytes :=
  if (0 <=? n) && (n <=? len c) then mkM (Ok (drop n c)) 1 0 else panic.
(* [c[i]]: panic when out of range *)
Definition idx (c : bytes) (i : Z) : M Z :=
  if (0 <=? i) && (i <? len c) then mkM (Ok (byte (nth (Z.to_nat i) c 0))) 1 0 else panic.
(* [&c[a..b]] / [Bytes::slice(a..b)]: panic when a > b or b > len *)
Definition slice (c : bytes) (a b : Z) : M bytes :=
  if (0 <=? a) && (a <=? b) && (b <=? len c) then mkM (Ok (take (b - a) (drop a c))) 1 0 else panic.
(* [.to_vec()] / [copy_from_slice] / [extend_from_slice]: one tick and one allocated byte per byte *)
Definition to_vec (b : bytes) : M bytes := mkM (Ok b) (1 + len b) (len b).
(* [Vec::push] of an element of [sz] bytes *)
Definition push_cost (sz : Z) : M unit := mkM (Ok tt) 1 sz.

(* integer arithmetic with overflow checks on (debug profile): overflow = panic *)
Definition checked_add (bits a b : Z) : M Z := if a + b <? 2 ^ bits then mkM (Ok (a + b)) 1 0 else panic.
Definition checked_sub (a b : Z) : M Z := if b <=? a then mkM (Ok (a - b)) 1 0 else panic.
Definition checked_mul (bits a b : Z) : M Z := if a * b <? 2 ^ bits then mkM (Ok (a * b)) 1 0 else panic.

(* ---------------------------------------------------------------- weakest preconditions *)
Definition wp {A} (m : M A) (Q : res A -> Z -> Z -> Prop) : Prop := Q (val m) (ticks m) (allocd m).

Lemma wp_bind {A B} (m : M A) (f : A -> M B) (Q : res B -> Z -> Z -> Prop) :
  wp m (fun r t a => match r with
                     | Ok x => wp (f x) (fun r' t' a' => Q r' (t + t') (a + a'))
                     | Err e => Q (Err e) t a
                     | Panic => Q Panic t a
                     | OutOfFuel => Q OutOfFuel t a
                     end) ->
  wp (bind m f) Q.
Proof. unfold wp, bind. destruct (val m); cbn; auto. Qed.

Lemma wp_ret {A} (x : A) (Q : res A -> Z -> Z -> Prop) : Q (Ok x) 0 0 -> wp (ret x) Q.
Proof. auto. Qed.
Lemma wp_err {A} e (Q : res A -> Z -> Z -> Prop) : Q (Err e) 0 0 -> wp (err e) Q.
Proof. auto. Qed.
Lemma wp_mk {A} (r : res A) t a (Q : res A -> Z -> Z -> Prop) : Q r t a -> wp (mkM r t a) Q.
Proof. auto. Qed.

Lemma len_nil {A} : len (@nil A) = 0. Proof. reflexivity. Qed.
Lemma len_cons {A} (x : A) l : len (x :: l) = 1 + len l.
Proof. unfold len. cbn [length]. lia. Qed.
Lemma len_app {A} (l1 l2 : list A) : len (l1 ++ l2) = len l1 + len l2.
Proof. unfold len. rewrite app_length. lia. Qed.
Lemma len_nonneg {A} (l : list A) : 0 <= len l.
Proof. unfold len. lia. Qed.
Lemma len_take {A} n (l : list A) : 0 <= n <= len l -> len (take n l) = n.
Proof. unfold len, take. intros H. rewrite firstn_length. lia. Qed.
Lemma len_drop {A} n (l : list A) : 0 <= n <= len l -> len (drop n l) = len l - n.
Proof. unfold len, drop. intros H. rewrite skipn_length. lia. Qed.
Lemma take_drop {A} n (l : list A) : take n l ++ drop n l = l.
Proof. apply firstn_skipn. Qed.
Lemma byte_range b : 0 <= byte b < 256.
Proof. unfold byte. apply Z.mod_pos_bound. lia. Qed.
Global Hint Rewrite @len_nil @len_cons @len_app : len.

Lemma wp_get_u8 c (Q : res (Z * bytes) -> Z -> Z -> Prop) :
  1 <= len c -> (forall b c', c = b :: c' -> Q (Ok (byte b, c')) 1 0) -> wp (get_u8 c) Q.
Proof.
  intros H K. destruct c as [|b c']; unfold len in H; cbn [length] in H; try lia.
  apply K. reflexivity.
Qed.
Lemma wp_get_u16 c (Q : res (Z * bytes) -> Z -> Z -> Prop) :
  2 <= len c -> (forall a b c', c = a :: b :: c' -> Q (Ok (byte a * 256 + byte b, c')) 1 0) -> wp (get_u16 c) Q.
Proof.
  intros H K. destruct c as [|a [|b c']]; unfold len in H; cbn [length] in H; try lia.
  apply K. reflexivity.
Qed.
Lemma wp_get_u24 c (Q : res (Z * bytes) -> Z -> Z -> Prop) :
  3 <= len c ->
  (forall a b d c', c = a :: b :: d :: c' -> Q (Ok (byte a * 65536 + byte b * 256 + byte d, c')) 1 0) ->
  wp (get_u24 c) Q.
Proof.
  intros H K. destruct c as [|a [|b [|d c']]]; unfold len in H; cbn [length] in H; try lia.
  apply K. reflexivity.
Qed.
Lemma wp_get_u32 c (Q : res (Z * bytes) -> Z -> Z -> Prop) :
  4 <= len c ->
  (forall a b d e c', c = a :: b :: d :: e :: c' ->
     Q (Ok (byte a * 16777216 + byte b * 65536 + byte d * 256 + byte e, c')) 1 0) ->
  wp (get_u32 c) Q.
Proof.
  intros H K. destruct c as [|a [|b [|d [|e c']]]]; unfold len in H; cbn [length] in H; try lia.
  apply K. reflexivity.
Qed.
Lemma wp_get_u32_le c (Q : res (Z * bytes) -> Z -> Z -> Prop) :
  4 <= len c ->
  (forall a b d e c', c = a :: b :: d :: e :: c' ->
     Q (Ok (byte e * 16777216 + byte d * 65536 + byte b * 256 + byte a, c')) 1 0) ->
  wp (get_u32_le c) Q.
Proof.
  intros H K. destruct c as [|a [|b [|d [|e c']]]]; unfold len in H; cbn [length] in H; try lia.
  apply K. reflexivity.
Qed.

Lemma wp_split_to n c (Q : res (bytes * bytes) -> Z -> Z -> Prop) :
  0 <= n <= len c ->
  (forall pre post, c = pre ++ post -> len pre = n -> len post = len c - n -> Q (Ok (pre, post)) 1 0) ->
  wp (split_to n c) Q.
Proof.
  intros H K. unfold split_to.
  replace ((0 <=? n) && (n <=? len c)) with true by (symmetry; apply andb_true_iff; split; apply Z.leb_le; lia).
  apply K; [symmetry; apply take_drop | apply len_take; lia | apply len_drop; lia].
Qed.
Lemma wp_advance n c (Q : res (bytes) -> Z -> Z -> Prop) :
  0 <= n <= len c ->
  (forall pre post, c = pre ++ post -> len pre = n -> len post = len c - n -> Q (Ok post) 1 0) ->
  wp (advance n c) Q.
Proof.
  intros H K. unfold advance.
  replace ((0 <=? n) && (n <=? len c)) with true by (symmetry; apply andb_true_iff; split; apply Z.leb_le; lia).
  apply (K (take n c)); [symmetry; apply take_drop | apply len_take; lia | apply len_drop; lia].
Qed.
Lemma wp_idx c i (Q : res (Z) -> Z -> Z -> Prop) :
  0 <= i < len c -> (forall b, 0 <= b < 256 -> Q (Ok b) 1 0) -> wp (idx c i) Q.
Proof.
  intros H K. unfold idx.
  replace ((0 <=? i) && (i <? len c)) with true
    by (symmetry; apply andb_true_iff; split; [apply Z.leb_le | apply Z.ltb_lt]; lia).
  apply K. apply byte_range.
Qed.
Lemma wp_slice c a b (Q : res (bytes) -> Z -> Z -> Prop) :
  0 <= a <= b -> b <= len c -> (forall s, len s = b - a -> Q (Ok s) 1 0) -> wp (slice c a b) Q.
Proof.
  intros H H' K. unfold slice.
  replace ((0 <=? a) && (a <=? b) && (b <=? len c)) with true
    by (symmetry; repeat (apply andb_true_iff; split); apply Z.leb_le; lia).
  apply K. rewrite len_take; [lia|]. rewrite len_drop; lia.
Qed.
Lemma wp_to_vec b (Q : res (bytes) -> Z -> Z -> Prop) : Q (Ok b) (1 + len b) (len b) -> wp (to_vec b) Q.
Proof. auto. Qed.
Lemma wp_checked_sub a b (Q : res (Z) -> Z -> Z -> Prop) : b <= a -> Q (Ok (a - b)) 1 0 -> wp (checked_sub a b) Q.
Proof. intros H K. unfold checked_sub. replace (b <=? a) with true by (symmetry; apply Z.leb_le; lia). exact K. Qed.
Lemma wp_checked_add bits a b (Q : res (Z) -> Z -> Z -> Prop) : a + b < 2 ^ bits -> Q (Ok (a + b)) 1 0 -> wp (checked_add bits a b) Q.
Proof. intros H K. unfold checked_add. replace (a + b <? 2 ^ bits) with true by (symmetry; apply Z.ltb_lt; lia). exact K. Qed.
Lemma wp_checked_mul bits a b (Q : res (Z) -> Z -> Z -> Prop) : a * b < 2 ^ bits -> Q (Ok (a * b)) 1 0 -> wp (checked_mul bits a b) Q.
Proof. intros H K. unfold checked_mul. replace (a * b <? 2 ^ bits) with true by (symmetry; apply Z.ltb_lt; lia). exact K. Qed.

(* the postcondition all C07 theorems use: no panic, no fuel exhaustion, cost within (t, a) *)
Definition fine {A} (T Al : Z) : res A -> Z -> Z -> Prop :=
  fun r t a => r <> Panic /\ r <> OutOfFuel /\ 0 <= t <= T /\ 0 <= a <= Al.

Lemma wp_weaken {A} (m : M A) (Q Q' : res A -> Z -> Z -> Prop) :
  wp m Q -> (forall r t a, Q r t a -> Q' r t a) -> wp m Q'.
Proof. unfold wp. auto. Qed.

Lemma fine_unfold {A} (m : M A) T Al :
  wp m (fine T Al) -> val m <> Panic /\ val m <> OutOfFuel /\ ticks m <= T /\ allocd m <= Al.
Proof. unfold wp, fine. intuition. Qed.

(* ---------------------------------------------------------------- tactics *)
Ltac notHyp P := match goal with | _ : P |- _ => fail 1 | _ => idtac end.
Ltac facts := repeat match goal with
  | |- context [byte ?x] => notHyp (0 <= byte x < 256); pose proof (byte_range x)
  | _ : context [byte ?x] |- _ => notHyp (0 <= byte x < 256); pose proof (byte_range x)
  | |- context [@len ?A ?l] => notHyp (0 <= @len A l); pose proof (@len_nonneg A l)
  | _ : context [@len ?A ?l] |- _ => notHyp (0 <= @len A l); pose proof (@len_nonneg A l)
  end.
Ltac lens := autorewrite with len in *; facts; try lia.

Ltac bdestr c :=
  let H := fresh "Hc" in
  destruct c eqn:H;
  [ try (apply Z.ltb_lt in H) ; try (apply Z.leb_le in H); try (apply Z.eqb_eq in H)
  | try (apply Z.ltb_ge in H) ; try (apply Z.leb_gt in H); try (apply Z.eqb_neq in H) ].

Ltac fine_done :=
  lazymatch goal with
  | |- wp _ _ => fail "unfinished computation"
  | _ => unfold fine; repeat split; try discriminate; lens
  end.

(* [c = pre ++ post]: substitute when [c] is a variable, otherwise keep the length facts only *)
Ltac subst_app :=
  try match goal with
      | H : ?c = _ ++ _ |- _ => is_var c; subst c
      end.

Ltac wp_step :=
  lazymatch goal with
  | |- wp (bind _ _) _ => apply wp_bind
  | |- wp (ret _) _ => apply wp_ret
  | |- wp (err _) _ => apply wp_err
  | |- wp (mkM _ _ _) _ => apply wp_mk
  | |- wp (tick _) _ => apply wp_mk
  | |- wp (alloc _) _ => apply wp_mk
  | |- wp (push_cost _) _ => apply wp_mk
  | |- wp (to_vec _) _ => apply wp_to_vec
  | |- wp (get_u8 _) _ => apply wp_get_u8; [lens | intros ? ? ->]
  | |- wp (get_u16 _) _ => apply wp_get_u16; [lens | intros ? ? ? ->]
  | |- wp (get_u24 _) _ => apply wp_get_u24; [lens | intros ? ? ? ? ->]
  | |- wp (get_u32 _) _ => apply wp_get_u32; [lens | intros ? ? ? ? ? ->]
  | |- wp (get_u32_le _) _ => apply wp_get_u32_le; [lens | intros ? ? ? ? ? ->]
  | |- wp (split_to _ _) _ => apply wp_split_to; [lens | intros ? ? ? ? ?; subst_app]
  | |- wp (advance _ _) _ => apply wp_advance; [lens | intros ? ? ? ? ?; subst_app]
  | |- wp (idx _ _) _ => apply wp_idx; [lens | intros ? ?]
  | |- wp (slice _ _ _) _ => apply wp_slice; [lens | lens | intros ? ?]
  | |- wp (checked_sub _ _) _ => apply wp_checked_sub; [lens | ]
  | |- wp (checked_add _ _ _) _ => apply wp_checked_add; [lens | ]
  | |- wp (checked_mul _ _ _) _ => apply wp_checked_mul; [lens | ]
  | |- wp (if negb ?c then _ else _) _ => destruct c eqn:?; cbn [negb]
  | |- wp (if ?c then _ else _) _ => bdestr c
  end.

(* projections of [fine] used to state the per-decoder theorems *)
Lemma fine_total {A} (m : M A) T Al : wp m (fine T Al) -> val m <> Panic.
Proof. intros H. apply fine_unfold in H. tauto. Qed.
Lemma fine_terminates {A} (m : M A) T Al : wp m (fine T Al) -> val m <> OutOfFuel.
Proof. intros H. apply fine_unfold in H. tauto. Qed.
Lemma fine_cost {A} (m : M A) T Al : wp m (fine T Al) -> ticks m <= T /\ allocd m <= Al.
Proof. intros H. apply fine_unfold in H. tauto. Qed.
