(* C15 model: RTCP compound packets -- marshal_rtcp_packets / parse_rtcp_packets and every
   sub-builder / sub-parser of /repo/src/rtp.rs (SR, RR, SDES, BYE, PLI, FIR, generic NACK, REMB, TWCC).
   Definitions only, three-valued results, literals from Gen/Consts.v and Gen/RtpConsts.v.
   Strings are their UTF-8 bytes; `String::from_utf8_lossy` is modelled by `utf8_lossy`
   (core::str::lossy::Utf8Chunks, one U+FFFD per maximal invalid prefix). *)
From Coq Require Import ZArith List Bool.
From RV Require Import Lib.Wrap.
From RV Require Import Gen.Consts.
From RV Require Import Gen.RtpConsts.
From RV Require Import Model.RtpLib.
From RV Require Import Model.Rtp.
From RV Require Import Model.Nack.
Import ListNotations.
Open Scope Z_scope.

Record report_block : Set := mkRB {
  rb_ssrc : Z; rb_fraction : Z; rb_lost : Z; rb_highest : Z; rb_jitter : Z; rb_lsr : Z; rb_dlsr : Z }.
Record sdes_item : Set := mkItem { it_ty : Z; it_text : list Z }.
Record sdes_chunk : Set := mkChunk { ch_ssrc : Z; ch_items : list sdes_item }.
Record fir_req : Set := mkFir { fr_ssrc : Z; fr_seq : Z }.

Inductive rtcp : Set :=
| SR (ssrc ntp_most ntp_least rtp_ts pkt_count octet_count : Z) (blocks : list report_block)
| RR (ssrc : Z) (blocks : list report_block)
| SDES (chunks : list sdes_chunk)
| BYE (sources : list Z) (reason : option (list Z))
| PLI (sender media : Z)
| FIR (sender : Z) (reqs : list fir_req)
| NACK (sender media : Z) (lost : list Z)
| REMB (sender bitrate : Z) (ssrcs : list Z)
| TWCC (sender media base_seq status_count ref_time fb_count : Z) (payload : list Z).

(* ------------------------------------------------------------------ String::from_utf8_lossy *)
Definition inr (lo hi b : Z) : bool := (lo <=? b) && (b <=? hi).
Definition cont (b : Z) : bool := Z.land b 192 =? 128.
Definition REPL : list Z := [239; 191; 189].
Definition ok3 (b c : Z) : bool :=
  ((b =? 224) && inr 160 191 c) || (inr 225 236 b && inr 128 191 c) ||
  ((b =? 237) && inr 128 159 c) || (inr 238 239 b && inr 128 191 c).
Definition ok4 (b c : Z) : bool :=
  ((b =? 240) && inr 144 191 c) || (inr 241 243 b && inr 128 191 c) || ((b =? 244) && inr 128 143 c).

Fixpoint utf8_lossy (l : list Z) : list Z :=
  match l with
  | [] => []
  | b :: t =>
      if b <? 128 then b :: utf8_lossy t
      else if inr 194 223 b then
        match t with
        | c1 :: t1 => if cont c1 then b :: c1 :: utf8_lossy t1 else REPL ++ utf8_lossy t
        | [] => REPL
        end
      else if inr 224 239 b then
        match t with
        | c1 :: t1 =>
            if ok3 b c1 then
              match t1 with
              | c2 :: t2 => if cont c2 then b :: c1 :: c2 :: utf8_lossy t2 else REPL ++ utf8_lossy t1
              | [] => REPL
              end
            else REPL ++ utf8_lossy t
        | [] => REPL
        end
      else if inr 240 244 b then
        match t with
        | c1 :: t1 =>
            if ok4 b c1 then
              match t1 with
              | c2 :: t2 =>
                  if cont c2 then
                    match t2 with
                    | c3 :: t3 => if cont c3 then b :: c1 :: c2 :: c3 :: utf8_lossy t3 else REPL ++ utf8_lossy t2
                    | [] => REPL
                    end
                  else REPL ++ utf8_lossy t1
              | [] => REPL
              end
            else REPL ++ utf8_lossy t
        | [] => REPL
        end
      else REPL ++ utf8_lossy t
  end.

(* the bytes of a Rust String decode to themselves *)
Definition utf8_clean (t : list Z) : Prop := utf8_lossy t = t.
Definition utf8_cleanb (t : list Z) : bool := zlist_eqb (utf8_lossy t) t.

(* str::is_char_boundary *)
Definition is_char_boundary (s : list Z) (i : Z) : bool :=
  (i =? 0) || (i =? len s) ||
  ((i <? len s) && (let b := nth (Z.to_nat i) s 0 in (b <? 128) || (192 <=? b))).  (* (b as i8) >= -0x40 *)
Fixpoint boundary_down (fuel : nat) (s : list Z) (n : Z) : Z :=
  match fuel with
  | O => n
  | S f => if is_char_boundary s n then n else boundary_down f s (n - 1)
  end.

(* ------------------------------------------------------------------ write_rtcp_packet *)
Definition pad4 (body : list Z) : list Z := body ++ repeat 0 (Z.to_nat ((4 - len body mod 4) mod 4)).

Definition write_rtcp_packet (fmt pt : Z) (body : list Z) : list Z :=
  let body := pad4 body in
  let length := cast_u16 (Z.max 0 ((len body + 4) / 4 - 1)) in
  Z.lor (Z.shiftl RTP_VERSION WR_VERSION_SHIFT) (Z.land fmt WR_FMT_MASK) :: pt :: be16 length ++ body.

(* write_rtcp_packet_padded (TWCC): an unaligned body gets RFC 3550 padding -- resize with zeros, last octet =
   pad count, then the P bit is or-ed into the first byte just written (out[start] |= 0x20) *)
Definition write_rtcp_packet_padded (fmt pt : Z) (body : list Z) : list Z :=
  let pad := (WP_ALIGN - len body mod WP_ALIGN) mod WP_ALIGN in
  if pad >? 0 then
    let resized := body ++ repeat 0 (Z.to_nat pad) in
    let body' := removelast resized ++ [cast_u8 pad] in          (* body[last] = pad as u8 *)
    match write_rtcp_packet fmt pt body' with
    | b0 :: t => Z.lor b0 WP_PAD_BIT :: t
    | [] => []
    end
  else write_rtcp_packet fmt pt body.

(* ------------------------------------------------------------------ builders *)
Definition lost24 (x : Z) : list Z :=
  let clamped := Z.max (- LOST_BOUND) (Z.min x (LOST_BOUND - 1)) in
  tl (be32 (Z.land (cast_u32 clamped) 16777215)).

Definition build_report_block (b : report_block) : list Z :=
  be32 (rb_ssrc b) ++ [rb_fraction b] ++ lost24 (rb_lost b) ++ be32 (rb_highest b) ++ be32 (rb_jitter b) ++
  be32 (rb_lsr b) ++ be32 (rb_dlsr b).

Definition build_sr (ssrc nm nl ts pc oc : Z) (blocks : list report_block) : res (list Z) :=
  if len blocks >? MAX_SR_BLOCKS then Err EInvalidRtcp else
  Ok (be32 ssrc ++ be32 nm ++ be32 nl ++ be32 ts ++ be32 pc ++ be32 oc ++ flat_map build_report_block blocks).
Definition build_rr (ssrc : Z) (blocks : list report_block) : res (list Z) :=
  if len blocks >? MAX_RR_BLOCKS then Err EInvalidRtcp else
  Ok (be32 ssrc ++ flat_map build_report_block blocks).

Fixpoint build_items (body : list Z) (items : list sdes_item) : res (list Z) :=
  match items with
  | [] => Ok body
  | it :: t =>
      if len (it_text it) >? SDES_ITEM_MAX then Err EInvalidRtcp else
      build_items (body ++ it_ty it :: cast_u8 (len (it_text it)) :: it_text it) t
  end.
Fixpoint build_chunks (body : list Z) (chunks : list sdes_chunk) : res (list Z) :=
  match chunks with
  | [] => Ok body
  | c :: t =>
      body <- build_items (body ++ be32 (ch_ssrc c)) (ch_items c) ;;
      build_chunks (pad4 (body ++ [0])) t
  end.
Definition build_sdes (chunks : list sdes_chunk) : res (list Z) :=
  if len chunks >? MAX_SDES_CHUNKS then Err EInvalidRtcp else build_chunks [] chunks.

Definition build_bye (sources : list Z) (reason : option (list Z)) : res (list Z) :=
  if len sources >? MAX_BYE_SOURCES then Err EInvalidRtcp else
  Ok (flat_map be32 sources ++
      match reason with
      | Some r => let n := boundary_down 256 r (Z.min (len r) BYE_REASON_MAX) in cast_u8 n :: take n r
      | None => []
      end).

Definition build_psfb_common (sender media : Z) : list Z := be32 sender ++ be32 media.
Definition build_fir (sender : Z) (reqs : list fir_req) : list Z :=
  be32 sender ++ be32 0 ++ flat_map (fun e => be32 (fr_ssrc e) ++ [fr_seq e; 0; 0; 0]) reqs.
Definition build_nack (sender media : Z) (lost : list Z) : res (list Z) :=
  match lost with
  | [] => Err EInvalidRtcp
  | _ => Ok (be32 sender ++ be32 media ++ flat_map (fun pb => be16 (fst pb) ++ be16 (snd pb)) (pack_nack_pairs lost))
  end.

Fixpoint remb_loop (fuel : nat) (mantissa exponent : Z) : Z * Z :=
  match fuel with
  | O => (mantissa, exponent)
  | S f => if mantissa >? REMB_MANT_MAX then remb_loop f (Z.shiftr mantissa 1) (exponent + 1) else (mantissa, exponent)
  end.
Definition build_remb (sender bitrate : Z) (ssrcs : list Z) : res (list Z) :=
  if len ssrcs >? REMB_MAX_SSRCS then Err EInvalidRtcp else
  let '(mantissa, exponent) := remb_loop 64 bitrate 0 in
  let m := cast_u32 mantissa in
  Ok (be32 sender ++ be32 0 ++ [82; 69; 77; 66] ++ [cast_u8 (len ssrcs)] ++
      [Z.lor (cast_u8 (Z.shiftl (Z.land exponent 63) 2)) (Z.land (cast_u8 (Z.shiftr m 16)) 3);
       cast_u8 (Z.land (Z.shiftr m 8) 255); cast_u8 (Z.land m 255)] ++
      flat_map be32 ssrcs).
Definition build_twcc (sender media base cnt ref fb : Z) (payload : list Z) : list Z :=
  be32 sender ++ be32 media ++ be16 base ++ be16 cnt ++ tl (be32 (Z.land ref TWCC_REF_MASK)) ++ [fb] ++ payload.

Definition marshal_one (p : rtcp) : res (list Z) :=
  match p with
  | SR s nm nl ts pc oc bl => b <- build_sr s nm nl ts pc oc bl ;; Ok (write_rtcp_packet (cast_u8 (len bl)) RTCP_SR b)
  | RR s bl => b <- build_rr s bl ;; Ok (write_rtcp_packet (cast_u8 (len bl)) RTCP_RR b)
  | SDES ch => b <- build_sdes ch ;; Ok (write_rtcp_packet (cast_u8 (len ch)) RTCP_SDES b)
  | BYE so r => b <- build_bye so r ;; Ok (write_rtcp_packet (cast_u8 (len so)) RTCP_BYE b)
  | PLI s m => Ok (write_rtcp_packet RTCP_PSFB_PLI RTCP_PSFB (build_psfb_common s m))
  | FIR s rq => Ok (write_rtcp_packet RTCP_PSFB_FIR RTCP_PSFB (build_fir s rq))
  | NACK s m l => b <- build_nack s m l ;; Ok (write_rtcp_packet RTCP_RTPFB_NACK RTCP_RTPFB b)
  | REMB s br ss => b <- build_remb s br ss ;; Ok (write_rtcp_packet RTCP_PSFB_APP RTCP_PSFB b)
  | TWCC s m ba c rf fb pl => Ok (write_rtcp_packet_padded RTCP_RTPFB_TWCC RTCP_RTPFB (build_twcc s m ba c rf fb pl))
  end.

Fixpoint marshal_rtcp (ps : list rtcp) : res (list Z) :=
  match ps with
  | [] => Ok []
  | p :: t => b <- marshal_one p ;; r <- marshal_rtcp t ;; Ok (b ++ r)
  end.

(* ------------------------------------------------------------------ sub-parsers *)
(* (((b5 as i32) << 16 | (b6 as i32) << 8 | b7 as i32) << 8) >> 8 *)
Definition sext24 (b5 b6 b7 : Z) : Z :=
  Z.shiftr (cast_i32 (Z.shiftl (Z.lor (Z.lor (Z.shiftl b5 16) (Z.shiftl b6 8)) b7) 8)) 8.

Definition parse_report_block (l : list Z) : res (report_block * list Z) :=
  '(ssrc, l) <- get_u32 l ;;
  '(fl, l) <- get_u8 l ;;
  '(b5, l) <- get_u8 l ;; '(b6, l) <- get_u8 l ;; '(b7, l) <- get_u8 l ;;
  '(hs, l) <- get_u32 l ;; '(ji, l) <- get_u32 l ;; '(lsr, l) <- get_u32 l ;; '(dlsr, l) <- get_u32 l ;;
  Ok (mkRB ssrc fl (sext24 b5 b6 b7) hs ji lsr dlsr, l).

Fixpoint parse_blocks (n : nat) (l : list Z) : res (list report_block) :=
  match n with
  | O => Ok []
  | S n' =>
      if len l <? BLOCK_SIZE then Err ELenMismatch else
      '(b, l') <- parse_report_block l ;;
      bs <- parse_blocks n' l' ;;
      Ok (b :: bs)
  end.

Definition parse_sr (fmt : Z) (body : list Z) : res rtcp :=
  if len body <? SR_MIN then Err EInvalidRtcp else
  '(ssrc, l) <- get_u32 body ;; '(nm, l) <- get_u32 l ;; '(nl, l) <- get_u32 l ;;
  '(ts, l) <- get_u32 l ;; '(pc, l) <- get_u32 l ;; '(oc, l) <- get_u32 l ;;
  bl <- parse_blocks (Z.to_nat fmt) l ;;
  Ok (SR ssrc nm nl ts pc oc bl).
Definition parse_rr (fmt : Z) (body : list Z) : res rtcp :=
  if len body <? RR_MIN then Err EInvalidRtcp else
  '(ssrc, l) <- get_u32 body ;;
  bl <- parse_blocks (Z.to_nat fmt) l ;;
  Ok (RR ssrc bl).

(* SDES item loop; `off` is the absolute offset into the body (the padding skip tests offset % 4) *)
Fixpoint parse_items (fuel : nat) (l : list Z) (off : Z) : res (list sdes_item * list Z * Z) :=
  match l with
  | [] => Ok ([], l, off)
  | ty :: t =>
      match fuel with
      | O => Panic
      | S f =>
          if ty =? 0 then
            let k := Z.min ((4 - (off + 1) mod 4) mod 4) (len t) in
            Ok ([], drop k t, off + 1 + k)
          else
            match t with
            | [] => Err EShort
            | n :: t' =>
                if len t' <? n then Err EShort else
                text <- slice t' 0 n ;;
                '(r, off') <- parse_items f (drop n t') (off + 2 + n) ;;
                let '(its, l') := r in
                Ok (mkItem ty (utf8_lossy text) :: its, l', off')
            end
      end
  end.
Fixpoint parse_chunks (n : nat) (l : list Z) (off : Z) : res (list sdes_chunk) :=
  match n with
  | O => Ok []
  | S n' =>
      if len l <? 4 then Err EShort else
      '(ssrc, l1) <- get_u32 l ;;
      '(r, off2) <- parse_items (length l1) l1 (off + 4) ;;
      let '(items, l2) := r in
      rest <- parse_chunks n' l2 off2 ;;
      Ok (mkChunk ssrc items :: rest)
  end.
Definition parse_sdes (count : Z) (body : list Z) : res rtcp :=
  ch <- parse_chunks (Z.to_nat count) body 0 ;; Ok (SDES ch).

Fixpoint parse_sources (n : nat) (l : list Z) : res (list Z * list Z) :=
  match n with
  | O => Ok ([], l)
  | S n' =>
      if len l <? 4 then Err EShort else
      '(s, l') <- get_u32 l ;;
      '(ss, l'') <- parse_sources n' l' ;;
      Ok (s :: ss, l'')
  end.
Definition parse_bye (count : Z) (body : list Z) : res rtcp :=
  '(sources, l) <- parse_sources (Z.to_nat count) body ;;
  match l with
  | [] => Ok (BYE sources None)
  | n :: t =>
      if len t <? n then Err EShort else
      text <- slice t 0 n ;;
      Ok (BYE sources (Some (utf8_lossy text)))
  end.

Definition parse_pli (body : list Z) : res rtcp :=
  if len body <? PSFB_MIN then Err EInvalidRtcp else
  '(s, l) <- get_u32 body ;; '(m, l) <- get_u32 l ;; Ok (PLI s m).

Fixpoint parse_fir_entries (fuel : nat) (l : list Z) : res (list fir_req) :=
  if len l <? 8 then Ok [] else
  match fuel with
  | O => Panic
  | S f =>
      '(ssrc, l1) <- get_u32 l ;;
      '(sq, l2) <- get_u8 l1 ;;
      rest <- parse_fir_entries f (drop 3 l2) ;;
      Ok (mkFir ssrc sq :: rest)
  end.
Definition parse_fir (body : list Z) : res rtcp :=
  if len body <? FIR_MIN then Err EInvalidRtcp else
  '(s, l) <- get_u32 body ;;
  rq <- parse_fir_entries (length body) (drop 4 l) ;;
  Ok (FIR s rq).

Fixpoint parse_nack_pairs (fuel : nat) (l : list Z) : res (list (Z * Z)) :=
  if len l <? 4 then Ok [] else
  match fuel with
  | O => Panic
  | S f =>
      '(pid, l1) <- get_u16 l ;;
      '(blp, l2) <- get_u16 l1 ;;
      rest <- parse_nack_pairs f l2 ;;
      Ok ((pid, blp) :: rest)
  end.
Definition parse_nack (body : list Z) : res rtcp :=
  if len body <? NACK_MIN then Err EInvalidRtcp else
  '(s, l) <- get_u32 body ;; '(m, l) <- get_u32 l ;;
  pairs <- parse_nack_pairs (length body) l ;;
  Ok (NACK s m (unpack_pairs pairs)).

Fixpoint parse_remb_ssrcs (n : nat) (l : list Z) : res (list Z) :=
  match n with
  | O => Ok []
  | S n' =>
      if len l <? 4 then Err ELenMismatch else
      '(s, l') <- get_u32 l ;;
      ss <- parse_remb_ssrcs n' l' ;;
      Ok (s :: ss)
  end.
Definition parse_remb (body : list Z) : res rtcp :=
  if len body <? REMB_MIN then Err EInvalidRtcp else
  '(s, l) <- get_u32 body ;;
  '(_, l) <- get_u32 l ;;
  tag <- slice l 0 4 ;;
  if negb (zlist_eqb tag [82; 69; 77; 66]) then Err EInvalidRtcp else
  '(num, l) <- get_u8 (drop 4 l) ;;
  '(b13, l) <- get_u8 l ;; '(b14, l) <- get_u8 l ;; '(b15, l) <- get_u8 l ;;
  let exponent := Z.shiftr (Z.land b13 252) 2 in
  let mantissa := Z.lor (Z.lor (Z.shiftl (Z.land b13 3) 16) (Z.shiftl b14 8)) b15 in
  let bitrate := cast_u64 (Z.shiftl mantissa exponent) in
  ss <- parse_remb_ssrcs (Z.to_nat num) l ;;
  Ok (REMB s bitrate ss).

Definition parse_twcc (body : list Z) : res rtcp :=
  if len body <? TWCC_MIN then Err EInvalidRtcp else
  '(s, l) <- get_u32 body ;; '(m, l) <- get_u32 l ;;
  '(base, l) <- get_u16 l ;; '(cnt, l) <- get_u16 l ;;
  '(r1, l) <- get_u8 l ;; '(r2, l) <- get_u8 l ;; '(r3, l) <- get_u8 l ;;
  '(fb, l) <- get_u8 l ;;
  Ok (TWCC s m base cnt (u32_of 0 r1 r2 r3) fb l).

Definition parse_one (fmt pt : Z) (body : list Z) : res (option rtcp) :=
  if pt =? RTCP_SR then p <- parse_sr fmt body ;; Ok (Some p)
  else if pt =? RTCP_RR then p <- parse_rr fmt body ;; Ok (Some p)
  else if pt =? RTCP_SDES then p <- parse_sdes fmt body ;; Ok (Some p)
  else if pt =? RTCP_BYE then p <- parse_bye fmt body ;; Ok (Some p)
  else if pt =? RTCP_RTPFB then
    (if fmt =? RTCP_RTPFB_NACK then p <- parse_nack body ;; Ok (Some p)
     else if fmt =? RTCP_RTPFB_TWCC then p <- parse_twcc body ;; Ok (Some p)
     else Err EInvalidRtcp)
  else if pt =? RTCP_PSFB then
    (if fmt =? RTCP_PSFB_PLI then p <- parse_pli body ;; Ok (Some p)
     else if fmt =? RTCP_PSFB_FIR then p <- parse_fir body ;; Ok (Some p)
     else if fmt =? RTCP_PSFB_APP then p <- parse_remb body ;; Ok (Some p)
     else Err EInvalidRtcp)
  else Ok None.   (* XR and unknown packet types are skipped *)

(* ------------------------------------------------------------------ parse_rtcp_packets
   `raw` is the suffix at `offset`; fuel bounds the number of sub-packets (each is >= 4 bytes) *)
Fixpoint parse_rtcp_loop (fuel : nat) (raw : list Z) : res (list rtcp) :=
  if len raw <? 4 then Ok [] else
  match fuel with
  | O => Panic
  | S f =>
      vrc <- idx raw 0 ;;
      let version := Z.shiftr vrc R_VERSION_SHIFT in
      if negb (version =? RTP_VERSION) then Err EInvalidRtcp else
      let padding := flag vrc R_PAD_MASK in
      let fmt := Z.land vrc R_FMT_MASK in
      packet_type <- idx raw 1 ;;
      l1 <- idx raw 2 ;; l2 <- idx raw 3 ;;
      let length_words := u16_of l1 l2 in
      let packet_len := (length_words + 1) * 4 in
      if len raw <? packet_len then Err ELenMismatch else
      let body_len := Z.max 0 (packet_len - 4) in
      body_end <- (if padding then
                     pad <- idx raw (packet_len - 1) ;;
                     if (pad =? 0) || (pad >? body_len) then Err EInvalidRtcp
                     else checked_sub packet_len pad
                   else Ok packet_len) ;;
      body <- slice raw 4 body_end ;;
      o <- parse_one fmt packet_type body ;;
      rest <- parse_rtcp_loop f (drop packet_len raw) ;;
      Ok (match o with Some p => p :: rest | None => rest end)
  end.
Definition parse_rtcp (raw : list Z) : res (list rtcp) := parse_rtcp_loop (length raw) raw.
