(* C15 model: RTP header / packet parse and marshal, and RFC 8285 header-extension get/set,
   transcribed from /repo/src/rtp.rs (RtpHeader::{parse, get_extension, set_extension, validate,
   encoded_len, write_to}, RtpPacket::{parse_bytes, marshal, marshal_impl}).

   Definitions only.  Results are three-valued (Ok / Err / Panic): every `Buf::get_*`,
   `copy_to_bytes`, slice and usize subtraction that can panic in Rust is a checked primitive of
   Model/RtpLib.v.  All literals come from Gen/Consts.v and Gen/RtpConsts.v (regenerated from the
   source on every run).  Integers are Z; a logical packet built by Rust code satisfies `wf_packet`
   (the ranges of the Rust field types). *)
From Coq Require Import ZArith List Bool.
From RV Require Import Lib.Wrap.
From RV Require Import Gen.Consts.
From RV Require Import Gen.RtpConsts.
From RV Require Import Model.RtpLib.
Import ListNotations.
Open Scope Z_scope.

Record ext : Set := mkExt { x_profile : Z; x_data : list Z }.
Record header : Set := mkHdr {
  h_marker : bool; h_pt : Z; h_seq : Z; h_ts : Z; h_ssrc : Z; h_csrcs : list Z; h_ext : option ext }.
Record packet : Set := mkPkt { p_hdr : header; p_payload : list Z; p_padlen : Z }.

(* ranges of the Rust field types (u8 / u16 / u32 / Bytes) *)
Definition wf_ext (e : ext) : Prop := u16 (x_profile e) /\ bytes (x_data e).
Definition wf_header (h : header) : Prop :=
  byte (h_pt h) /\ u16 (h_seq h) /\ u32 (h_ts h) /\ u32 (h_ssrc h) /\ Forall u32 (h_csrcs h) /\
  match h_ext h with Some e => wf_ext e | None => True end.
Definition wf_packet (p : packet) : Prop :=
  wf_header (p_hdr p) /\ bytes (p_payload p) /\ byte (p_padlen p).

(* ------------------------------------------------------------------ RtpHeader::parse *)
Definition flag (b mask : Z) : bool := negb (Z.land b mask =? 0).

Definition parse_header (raw : list Z) : res (header * bool * list Z) :=
  if len raw <? P_HDR_MIN then Err EShort else
  '(b0, r) <- get_u8 raw ;;
  '(b1, r) <- get_u8 r ;;
  let version := Z.shiftr b0 P_VERSION_SHIFT in
  if negb (version =? RTP_VERSION) then Err (EVersion version) else
  let padding := flag b0 P_PAD_MASK in
  let extension := flag b0 P_EXT_MASK in
  let csrc_count := Z.land b0 P_CC_MASK in
  let marker := flag b1 P_MARKER_MASK in
  let payload_type := Z.land b1 P_PT_MASK in
  '(seq, r) <- get_u16 r ;;
  '(ts, r) <- get_u32 r ;;
  '(ssrc, r) <- get_u32 r ;;
  if len r <? csrc_count * P_CSRC_SIZE then Err EShort else
  '(csrcs, r) <- get_u32s (Z.to_nat csrc_count) r ;;
  if extension then
    if len r <? P_EXT_HDR then Err EShort else
    '(profile, r) <- get_u16 r ;;
    '(words, r) <- get_u16 r ;;
    let extension_len := words * P_EXT_WORD in
    if len r <? extension_len then Err EShort else
    '(data, r) <- copy_to_bytes extension_len r ;;
    Ok (mkHdr marker payload_type seq ts ssrc csrcs (Some (mkExt profile data)), padding, r)
  else
    Ok (mkHdr marker payload_type seq ts ssrc csrcs None, padding, r).

(* ------------------------------------------------------------------ RtpPacket::parse_bytes *)
Definition parse_packet (raw : list Z) : res packet :=
  '(hp, buf) <- parse_header raw ;;
  let '(h, padding) := hp in
  let payload_end := len buf in
  if padding then
    match last_opt buf with
    | None => Err EShort
    | Some padding_len =>
        if padding_len >? len buf then Err EInvalidHeader else
        payload_end <- checked_sub payload_end padding_len ;;
        payload <- slice buf 0 payload_end ;;
        Ok (mkPkt h payload padding_len)
    end
  else
    payload <- slice buf 0 payload_end ;;
    Ok (mkPkt h payload 0).

(* ------------------------------------------------------------------ marshal *)
Definition validate (h : header) : res unit :=
  if len (h_csrcs h) >? MAX_CSRC then Err EInvalidHeader else
  match h_ext h with
  | Some e => if negb (len (x_data e) mod EXT_ALIGN =? 0) then Err EInvalidHeader else Ok tt
  | None => Ok tt
  end.

Definition header_len (h : header) : Z :=
  E_HDR_FIXED + len (h_csrcs h) * E_CSRC_SIZE +
  match h_ext h with Some e => E_EXT_HDR + len (x_data e) | None => 0 end.

Definition packet_len (p : packet) : Z := header_len (p_hdr p) + len (p_payload p) + p_padlen p.

Definition write_b0 (has_padding has_ext : bool) (ncsrc : Z) : Z :=
  let b0 := Z.shiftl RTP_VERSION W_VERSION_SHIFT in
  let b0 := if has_padding then Z.lor b0 W_PAD_BIT else b0 in
  let b0 := if has_ext then Z.lor b0 W_EXT_BIT else b0 in
  Z.lor b0 (cast_u8 (Z.land ncsrc W_CC_MASK)).
Definition write_b1 (marker : bool) (pt : Z) : Z :=
  let b1 := Z.land pt W_PT_MASK in
  if marker then Z.lor b1 W_MARKER_BIT else b1.

(* RtpHeader::write_to: the bytes put into the exact-size output slice, in order *)
Definition write_header (h : header) (has_padding : bool) : list Z :=
  write_b0 has_padding (match h_ext h with Some _ => true | None => false end) (len (h_csrcs h)) ::
  write_b1 (h_marker h) (h_pt h) ::
  be16 (h_seq h) ++ be32 (h_ts h) ++ be32 (h_ssrc h) ++ flat_map be32 (h_csrcs h) ++
  match h_ext h with
  | Some e => be16 (x_profile e) ++ be16 (cast_u16 (len (x_data e) / W_EXT_WORD)) ++ x_data e
  | None => []
  end.

(* RtpPacket::marshal = validate; marshal_impl into vec![0; encoded_len] *)
Definition marshal_packet (p : packet) : res (list Z) :=
  _ <- validate (p_hdr p) ;;
  let has_padding := negb (p_padlen p =? 0) in
  Ok (write_header (p_hdr p) has_padding ++ p_payload p ++
      (if has_padding then repeat (p_padlen p) (Z.to_nat (p_padlen p)) else [])).

(* what marshal does not refuse but cannot represent: 7-bit payload type, 16-bit word count *)
Definition representable (p : packet) : Prop :=
  h_pt (p_hdr p) < 128 /\
  match h_ext (p_hdr p) with Some e => len (x_data e) / W_EXT_WORD < 65536 | None => True end.

(* ------------------------------------------------------------------ RFC 3550 5.1 layout, arithmetic form
   (written from the RFC, not from the code: no bit operations, only positional weights) *)
Definition b2z (b : bool) : Z := if b then 1 else 0.
Definition rfc3550_bytes (p : packet) : list Z :=
  let h := p_hdr p in
  let P := b2z (negb (p_padlen p =? 0)) in
  let X := b2z (match h_ext h with Some _ => true | None => false end) in
  [2 * 64 + P * 32 + X * 16 + len (h_csrcs h); b2z (h_marker h) * 128 + h_pt h] ++
  be16 (h_seq h) ++ be32 (h_ts h) ++ be32 (h_ssrc h) ++ flat_map be32 (h_csrcs h) ++
  match h_ext h with
  | Some e => be16 (x_profile e) ++ be16 (len (x_data e) / 4) ++ x_data e
  | None => []
  end ++
  p_payload p ++ repeat (p_padlen p) (Z.to_nat (p_padlen p)).

(* ------------------------------------------------------------------ header extensions (RFC 8285)
   The Rust loops walk `ext.data` by an index `offset`; the model carries the suffix
   `data[offset..]` instead (data is not modified inside the loops), so `offset < data.len()` is
   "suffix non-empty" and `offset + len <= data.len()` is `len <= |tail|`.  `fuel` bounds the
   number of iterations; exhausting it is reported as Panic, so "never Panic" includes termination. *)
Fixpoint get1 (fuel : nat) (l : list Z) (id : Z) : res (option (list Z)) :=
  match l with
  | [] => Ok None
  | b :: t =>
      match fuel with
      | O => Panic
      | S f =>
          if b =? 0 then get1 f t id else
          let ext_id := Z.shiftr b G_ID_SHIFT in
          let n := Z.land b G_LEN_MASK + 1 in
          if ext_id =? G_ID_STOP then Ok None else
          if ext_id =? id then
            (if n <=? len t then d <- slice t 0 n ;; Ok (Some d) else Ok None)
          else get1 f (drop n t) id
      end
  end.

Fixpoint get2 (fuel : nat) (l : list Z) (id : Z) : res (option (list Z)) :=
  match l with
  | [] => Ok None
  | ext_id :: t =>
      match fuel with
      | O => Panic
      | S f =>
          if ext_id =? 0 then get2 f t id else
          match t with
          | [] => Ok None
          | n :: t' =>
              if ext_id =? id then
                (if n <=? len t' then d <- slice t' 0 n ;; Ok (Some d) else Ok None)
              else get2 f (drop n t') id
          end
      end
  end.

Definition get_extension (h : header) (id : Z) : res (option (list Z)) :=
  match h_ext h with
  | None => Ok None
  | Some e =>
      if x_profile e =? EXT_ONE_BYTE then get1 (length (x_data e)) (x_data e) id
      else if x_profile e =? EXT_TWO_BYTE then get2 (length (x_data e)) (x_data e) id
      else Ok None
  end.

(* the rebuild loop of set_extension: returns the rebuilt elements and `found` *)
Fixpoint set1 (fuel : nat) (l : list Z) (id : Z) (entry : list Z) : res (list Z * bool) :=
  match l with
  | [] => Ok ([], false)
  | b :: t =>
      match fuel with
      | O => Panic
      | S f =>
          if b =? 0 then set1 f t id entry else
          let ext_id := Z.shiftr b S_RD_ID_SHIFT in
          let n := Z.land b S_LEN_MASK + 1 in
          if ext_id =? S_ID_STOP then Ok ([], false) else
          if n >? len t then Ok ([], false) else          (* the `fix:` bounds check *)
          if ext_id =? id then
            '(rest, _) <- set1 f (drop n t) id entry ;;
            Ok (entry ++ rest, true)
          else
            d <- slice t 0 n ;;
            '(rest, found) <- set1 f (drop n t) id entry ;;
            Ok (b :: d ++ rest, found)
      end
  end.

Definition set_header_ext (h : header) (e : option ext) : header :=
  mkHdr (h_marker h) (h_pt h) (h_seq h) (h_ts h) (h_ssrc h) (h_csrcs h) e.

Definition set_extension (h : header) (id : Z) (data : list Z) : res header :=
  if (id =? 0) || (id >=? S_ID_MAX) then Err EInvalidHeader else
  if (len data >? S_LEN_MAX) || (len data =? 0) then Err EInvalidHeader else
  let e := match h_ext h with Some e => e | None => mkExt S_PROFILE [] end in
  if negb (x_profile e =? S_PROFILE_CHECK) then Err EInvalidHeader else
  let id_header := Z.lor (cast_u8 (Z.shiftl id S_ID_SHIFT)) (cast_u8 (len data - 1)) in
  let entry := id_header :: data in
  '(elems, found) <- set1 (length (x_data e)) (x_data e) id entry ;;
  let new_data := if found then elems else elems ++ entry in
  let aligned := Z.land (len new_data + S_ALIGN_ADD) (Z.lnot S_ALIGN_MASK) in
  let new_data := new_data ++ repeat 0 (Z.to_nat (aligned - len new_data)) in
  Ok (set_header_ext h (Some (mkExt (x_profile e) new_data))).
