(* C15 support library: three-valued results, byte lists over Z, big-endian fields,
   the `bytes::Buf` cursor primitives with their panic conditions, and the lemmas used by the
   RTP / RTCP codec proofs.  Stdlib only. *)
From Coq Require Import ZArith List Bool Lia.
Import ListNotations.
Open Scope Z_scope.

(* ---------------------------------------------------------------- results *)
Inductive err : Set :=
| EShort            (* RtpError::PacketTooShort *)
| EVersion (v : Z)  (* RtpError::UnsupportedVersion(v) *)
| EInvalidHeader    (* RtpError::InvalidHeader(_) *)
| EInvalidRtcp      (* RtpError::InvalidRtcp(_) *)
| ELenMismatch.     (* RtpError::LengthMismatch *)

Inductive res (A : Type) : Type :=
| Ok (a : A)
| Err (e : err)
| Panic.
Arguments Ok {A} a.
Arguments Err {A} e.
Arguments Panic {A}.

Definition bind {A B : Type} (r : res A) (f : A -> res B) : res B :=
  match r with
  | Ok a => f a
  | Err e => Err e
  | Panic => Panic
  end.

Notation "x <- r ;; k" := (bind r (fun x => k))
  (at level 61, r at next level, right associativity).
Notation "' p <- r ;; k" := (bind r (fun p => k))
  (at level 61, p pattern, r at next level, right associativity).

Lemma Ok_inj {A : Type} (a b : A) : Ok a = Ok b -> a = b.
Proof. congruence. Qed.

Definition err_eqb (a b : err) : bool :=
  match a, b with
  | EShort, EShort => true
  | EVersion x, EVersion y => x =? y
  | EInvalidHeader, EInvalidHeader => true
  | EInvalidRtcp, EInvalidRtcp => true
  | ELenMismatch, ELenMismatch => true
  | _, _ => false
  end.

(* ---------------------------------------------------------------- lists with Z lengths *)
Definition len {A : Type} (l : list A) : Z := Z.of_nat (length l).
Definition take {A : Type} (n : Z) (l : list A) : list A := firstn (Z.to_nat n) l.
Definition drop {A : Type} (n : Z) (l : list A) : list A := skipn (Z.to_nat n) l.

Fixpoint zlist_eqb (a b : list Z) : bool :=
  match a, b with
  | [], [] => true
  | x :: a', y :: b' => (x =? y) && zlist_eqb a' b'
  | _, _ => false
  end.

Lemma zlist_eqb_eq a b : zlist_eqb a b = true <-> a = b.
Proof.
  revert b. induction a as [|x a IH]; intros [|y b]; cbn; split; intros H; try congruence; try discriminate.
  - apply andb_true_iff in H as [H1 H2]. apply Z.eqb_eq in H1. apply IH in H2. congruence.
  - inversion H; subst. rewrite Z.eqb_refl. cbn. apply IH. reflexivity.
Qed.

Lemma len_nil {A} : len (@nil A) = 0.
Proof. reflexivity. Qed.
Lemma len_cons {A} (x : A) l : len (x :: l) = 1 + len l.
Proof. unfold len. cbn [length]. lia. Qed.
Lemma len_app {A} (a b : list A) : len (a ++ b) = len a + len b.
Proof. unfold len. rewrite app_length. lia. Qed.
Lemma len_nonneg {A} (l : list A) : 0 <= len l.
Proof. unfold len. lia. Qed.
Lemma len_zero_nil {A} (l : list A) : len l = 0 -> l = [].
Proof. destruct l; [reflexivity|]. rewrite len_cons. pose proof (len_nonneg l). lia. Qed.
Lemma len_repeat {A} (x : A) n : len (repeat x n) = Z.of_nat n.
Proof. unfold len. rewrite repeat_length. reflexivity. Qed.

Lemma take_app_exact {A} (a b : list A) : take (len a) (a ++ b) = a.
Proof.
  unfold take, len. rewrite Nat2Z.id. rewrite firstn_app, Nat.sub_diag. cbn [firstn].
  rewrite firstn_all, app_nil_r. reflexivity.
Qed.
Lemma drop_app_exact {A} (a b : list A) : drop (len a) (a ++ b) = b.
Proof.
  unfold drop, len. rewrite Nat2Z.id. rewrite skipn_app, Nat.sub_diag. cbn [skipn].
  rewrite skipn_all, app_nil_l. reflexivity.
Qed.
Lemma take_app_n {A} n (a b : list A) : n = len a -> take n (a ++ b) = a.
Proof. intros ->. apply take_app_exact. Qed.
Lemma drop_app_n {A} n (a b : list A) : n = len a -> drop n (a ++ b) = b.
Proof. intros ->. apply drop_app_exact. Qed.
Lemma take_all {A} (l : list A) n : len l <= n -> take n l = l.
Proof. intros H. unfold take, len in *. apply firstn_all2. lia. Qed.
Lemma drop_all {A} (l : list A) n : len l <= n -> drop n l = [].
Proof. intros H. unfold drop, len in *. apply skipn_all2. lia. Qed.
Lemma len_take {A} (l : list A) n : 0 <= n <= len l -> len (take n l) = n.
Proof. intros H. unfold take, len in *. rewrite firstn_length. lia. Qed.
Lemma len_drop {A} (l : list A) n : 0 <= n <= len l -> len (drop n l) = len l - n.
Proof. intros H. unfold drop, len in *. rewrite skipn_length. lia. Qed.
Lemma len_drop_le {A} (l : list A) n : len (drop n l) <= len l.
Proof. unfold drop, len. rewrite skipn_length. lia. Qed.
Lemma take_drop {A} (l : list A) n : take n l ++ drop n l = l.
Proof. unfold take, drop. apply firstn_skipn. Qed.
Lemma take_0 {A} (l : list A) : take 0 l = [].
Proof. reflexivity. Qed.
Lemma drop_0 {A} (l : list A) : drop 0 l = l.
Proof. reflexivity. Qed.

(* ---------------------------------------------------------------- bytes *)
Definition byte (b : Z) : Prop := 0 <= b < 256.
Definition bytes (l : list Z) : Prop := Forall byte l.
Definition u16 (x : Z) : Prop := 0 <= x < 65536.
Definition u32 (x : Z) : Prop := 0 <= x < 4294967296.

Definition byteb (b : Z) : bool := (0 <=? b) && (b <? 256).
Definition bytesb (l : list Z) : bool := forallb byteb l.
Lemma byteb_spec b : byteb b = true <-> byte b.
Proof. unfold byteb, byte. rewrite andb_true_iff, Z.leb_le, Z.ltb_lt. tauto. Qed.
Lemma bytesb_spec l : bytesb l = true <-> bytes l.
Proof.
  unfold bytesb, bytes. rewrite forallb_forall, Forall_forall.
  split; intros H x Hx; apply byteb_spec; auto.
Qed.

Lemma bytes_app a b : bytes (a ++ b) <-> bytes a /\ bytes b.
Proof. unfold bytes. apply Forall_app. Qed.
Lemma bytes_cons x l : bytes (x :: l) <-> byte x /\ bytes l.
Proof. unfold bytes. split; [intros H; inversion H; auto | intros [? ?]; constructor; auto]. Qed.
Lemma bytes_nil : bytes [].
Proof. constructor. Qed.
Lemma In_firstn {A} n (l : list A) x : In x (firstn n l) -> In x l.
Proof.
  revert l. induction n as [|n IH]; intros [|y l]; cbn; try tauto.
  intros [->|H]; auto.
Qed.
Lemma In_skipn {A} n (l : list A) x : In x (skipn n l) -> In x l.
Proof.
  revert l. induction n as [|n IH]; intros [|y l]; cbn; try tauto.
  intros H. right. auto.
Qed.
Lemma bytes_take n l : bytes l -> bytes (take n l).
Proof.
  unfold bytes, take. rewrite !Forall_forall. intros H x Hx. apply H. eapply In_firstn; eauto.
Qed.
Lemma bytes_drop n l : bytes l -> bytes (drop n l).
Proof.
  unfold bytes, drop. rewrite !Forall_forall. intros H x Hx. apply H. eapply In_skipn; eauto.
Qed.
Lemma bytes_repeat x n : byte x -> bytes (repeat x n).
Proof. intros H. unfold bytes. apply Forall_forall. intros y Hy. apply repeat_spec in Hy. subst. exact H. Qed.

(* exhaustive checks over small ranges, lifted to a quantifier *)
Definition zrange (n : nat) : list Z := map Z.of_nat (seq 0 n).
Lemma range_forall (n : nat) (P : Z -> bool) :
  forallb P (zrange n) = true -> forall x, 0 <= x < Z.of_nat n -> P x = true.
Proof.
  intros H x Hx. rewrite forallb_forall in H. apply H. unfold zrange.
  apply in_map_iff. exists (Z.to_nat x). split; [lia|]. apply in_seq. lia.
Qed.
Lemma byte_forall (P : Z -> bool) :
  forallb P (zrange 256) = true -> forall b, byte b -> P b = true.
Proof. intros H b Hb. apply (range_forall 256 P H). unfold byte in Hb. lia. Qed.

(* ---------------------------------------------------------------- big-endian fields *)
(* u16::to_be_bytes / BufMut::put_u16, u32::to_be_bytes / put_u32 *)
Definition be16 (x : Z) : list Z := [x / 256 mod 256; x mod 256].
Definition be32 (x : Z) : list Z :=
  [x / 16777216 mod 256; x / 65536 mod 256; x / 256 mod 256; x mod 256].
(* u16::from_be_bytes / u32::from_be_bytes *)
Definition u16_of (a b : Z) : Z := a * 256 + b.
Definition u32_of (a b c d : Z) : Z := ((a * 256 + b) * 256 + c) * 256 + d.

Ltac zdm := Z.div_mod_to_equations; lia.

Lemma be16_of x : u16 x -> u16_of (x / 256 mod 256) (x mod 256) = x.
Proof. unfold u16, u16_of. intros H. zdm. Qed.
Lemma be32_of x :
  u32 x -> u32_of (x / 16777216 mod 256) (x / 65536 mod 256) (x / 256 mod 256) (x mod 256) = x.
Proof. unfold u32, u32_of. intros H. zdm. Qed.
Lemma of_be16 a b : byte a -> byte b -> be16 (u16_of a b) = [a; b].
Proof. unfold byte, be16, u16_of. intros Ha Hb. f_equal; [|f_equal]; zdm. Qed.
Lemma of_be32 a b c d :
  byte a -> byte b -> byte c -> byte d -> be32 (u32_of a b c d) = [a; b; c; d].
Proof.
  unfold byte, be32, u32_of. intros Ha Hb Hc Hd.
  f_equal; [|f_equal; [|f_equal; [|f_equal]]]; zdm.
Qed.
Lemma u16_of_range a b : byte a -> byte b -> u16 (u16_of a b).
Proof. unfold byte, u16, u16_of. lia. Qed.
Lemma u32_of_range a b c d : byte a -> byte b -> byte c -> byte d -> u32 (u32_of a b c d).
Proof. unfold byte, u32, u32_of. lia. Qed.
Lemma bytes_be16 x : bytes (be16 x).
Proof. unfold bytes, be16. repeat constructor; unfold byte; zdm. Qed.
Lemma bytes_be32 x : bytes (be32 x).
Proof. unfold bytes, be32. repeat constructor; unfold byte; zdm. Qed.
Lemma len_be16 x : len (be16 x) = 2.
Proof. reflexivity. Qed.
Lemma len_be32 x : len (be32 x) = 4.
Proof. reflexivity. Qed.

Lemma len_flat_be32 l : len (flat_map be32 l) = 4 * len l.
Proof.
  induction l as [|x l IH]; [reflexivity|].
  cbn [flat_map]. rewrite len_app, len_be32, len_cons, IH. lia.
Qed.
Lemma bytes_flat_be32 l : bytes (flat_map be32 l).
Proof.
  induction l as [|x l IH]; [constructor|]. cbn [flat_map]. apply bytes_app. split; [apply bytes_be32|exact IH].
Qed.

(* ---------------------------------------------------------------- Buf cursor (panics when short) *)
Definition get_u8 (l : list Z) : res (Z * list Z) :=
  match l with
  | b :: t => Ok (b, t)
  | _ => Panic
  end.
Definition get_u16 (l : list Z) : res (Z * list Z) :=
  match l with
  | a :: b :: t => Ok (u16_of a b, t)
  | _ => Panic
  end.
Definition get_u32 (l : list Z) : res (Z * list Z) :=
  match l with
  | a :: b :: c :: d :: t => Ok (u32_of a b c d, t)
  | _ => Panic
  end.
(* (0..n).map(|_| raw.get_u32()).collect() *)
Fixpoint get_u32s (n : nat) (l : list Z) : res (list Z * list Z) :=
  match n with
  | O => Ok ([], l)
  | S n' =>
      '(x, r) <- get_u32 l ;;
      '(xs, r') <- get_u32s n' r ;;
      Ok (x :: xs, r')
  end.
(* Buf::copy_to_bytes(n): panics when fewer than n bytes remain *)
Definition copy_to_bytes (n : Z) (l : list Z) : res (list Z * list Z) :=
  if n <=? len l then Ok (take n l, drop n l) else Panic.
(* checked slice &l[a..b] *)
Definition slice (l : list Z) (a b : Z) : res (list Z) :=
  if (0 <=? a) && (a <=? b) && (b <=? len l) then Ok (take (b - a) (drop a l)) else Panic.
(* checked index l[i] *)
Definition idx (l : list Z) (i : Z) : res Z :=
  if (0 <=? i) && (i <? len l) then Ok (nth (Z.to_nat i) l 0) else Panic.
(* usize subtraction with overflow check (debug profile) *)
Definition checked_sub (a b : Z) : res Z := if b <=? a then Ok (a - b) else Panic.

Lemma get_u16_be16 x r : u16 x -> get_u16 (be16 x ++ r) = Ok (x, r).
Proof. intros H. cbn. rewrite be16_of by exact H. reflexivity. Qed.
Lemma get_u32_be32 x r : u32 x -> get_u32 (be32 x ++ r) = Ok (x, r).
Proof. intros H. cbn. rewrite be32_of by exact H. reflexivity. Qed.
Lemma get_u32s_flat xs r :
  Forall u32 xs -> get_u32s (length xs) (flat_map be32 xs ++ r) = Ok (xs, r).
Proof.
  induction xs as [|x xs IH]; intros H; [reflexivity|].
  inversion H as [|? ? Hx Hxs]; subst.
  cbn [length get_u32s flat_map]. rewrite <- app_assoc, get_u32_be32 by exact Hx.
  cbn [bind]. rewrite IH by exact Hxs. reflexivity.
Qed.

Lemma get_u8_ok l : 1 <= len l -> exists b r, l = b :: r /\ get_u8 l = Ok (b, r).
Proof. destruct l as [|b r]; [rewrite len_nil; lia|]. eauto. Qed.
Lemma get_u16_ok l : 2 <= len l -> exists a b r, l = a :: b :: r /\ get_u16 l = Ok (u16_of a b, r).
Proof.
  destruct l as [|a [|b r]]; rewrite ?len_cons, ?len_nil; try lia. eauto.
Qed.
Lemma get_u32_ok l :
  4 <= len l -> exists a b c d r, l = a :: b :: c :: d :: r /\ get_u32 l = Ok (u32_of a b c d, r).
Proof.
  destruct l as [|a [|b [|c [|d r]]]]; rewrite ?len_cons, ?len_nil; try lia.
  intros _. exists a, b, c, d, r. split; reflexivity.
Qed.
Lemma get_u32s_ok n l :
  4 * Z.of_nat n <= len l ->
  exists xs pre r, get_u32s n l = Ok (xs, r) /\ l = pre ++ r /\ len pre = 4 * Z.of_nat n /\
                   length xs = n /\ (bytes pre -> Forall u32 xs /\ flat_map be32 xs = pre).
Proof.
  revert l. induction n as [|n IH]; intros l H.
  - exists [], [], l. cbn [get_u32s]. split; [reflexivity|]. split; [reflexivity|].
    split; [reflexivity|]. split; [reflexivity|]. intros _. split; [constructor|reflexivity].
  - destruct (get_u32_ok l) as (a & b & c & d & r & -> & Hg); [lia|].
    rewrite !len_cons in H.
    destruct (IH r) as (xs & pre & r' & Hs & Hpre & Hlp & Hn & Hb); [lia|].
    exists (u32_of a b c d :: xs), (a :: b :: c :: d :: pre), r'.
    cbn [get_u32s]. rewrite Hg. cbn [bind]. rewrite Hs. cbn [bind].
    split; [reflexivity|]. split; [cbn [app]; rewrite Hpre; reflexivity|].
    split; [rewrite !len_cons; lia|]. split; [cbn [length]; lia|].
    intros Hbl. apply bytes_cons in Hbl as [Ha Hbl]. apply bytes_cons in Hbl as [Hb' Hbl].
    apply bytes_cons in Hbl as [Hc Hbl]. apply bytes_cons in Hbl as [Hd Hbl].
    destruct (Hb Hbl) as [Hu Hf]. split.
    + constructor; [apply u32_of_range; assumption|assumption].
    + cbn [flat_map]. rewrite of_be32 by assumption. cbn [app]. rewrite Hf. reflexivity.
Qed.

Lemma copy_to_bytes_app a b : copy_to_bytes (len a) (a ++ b) = Ok (a, b).
Proof.
  unfold copy_to_bytes. rewrite len_app. pose proof (len_nonneg b).
  destruct (len a <=? len a + len b) eqn:E; [|apply Z.leb_gt in E; lia].
  rewrite take_app_exact, drop_app_exact. reflexivity.
Qed.

(* last element: <[u8]>::last() *)
Definition last_opt (l : list Z) : option Z :=
  match l with
  | [] => None
  | _ => Some (last l 0)
  end.
Lemma last_opt_app_single a x : last_opt (a ++ [x]) = Some x.
Proof.
  unfold last_opt. pose proof (last_last a x 0) as HL.
  destruct (a ++ [x]) eqn:E; [destruct a; discriminate|]. rewrite HL. reflexivity.
Qed.
Lemma last_repeat x n : last_opt (repeat x (S n)) = Some x.
Proof.
  replace (repeat x (S n)) with (repeat x n ++ [x]).
  - apply last_opt_app_single.
  - clear. induction n as [|n IH]; [reflexivity|]. cbn [repeat app] in *. rewrite IH. reflexivity.
Qed.
Lemma last_opt_app a b : b <> [] -> last_opt (a ++ b) = last_opt b.
Proof.
  intros Hb. destruct (exists_last Hb) as (b' & x & ->).
  rewrite app_assoc, !last_opt_app_single. reflexivity.
Qed.
Lemma last_opt_In l x : last_opt l = Some x -> In x l.
Proof.
  destruct l as [|y l]; [discriminate|].
  assert (Hne : y :: l <> []) by discriminate.
  destruct (exists_last Hne) as (l' & z & E). rewrite E, last_opt_app_single.
  intros H. inversion H; subst. apply in_or_app. right. left. reflexivity.
Qed.
