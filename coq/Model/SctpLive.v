(* The closed loop behind C01's liveness clause, over abstract Tick events (no real time).

   Sender side, reduced to what progress needs: `out` = the chunks not yet cumulatively
   acknowledged, in TSN order.  One Tick = the T3 timer expired and the network is reliable from
   now on ("eventually reliable suffix"):
     1. handle_timeout + transmit re-send the first `burst` outstanding chunks
        (RETRANSMIT_BURST in the code; Proofs/SctpLiveTie.v proves that about C13's model of
        handle_timeout / transmit, Model/SctpSendSm.v);
     2. they reach the receiver (Model/SctpRecv.v `run`);
     3. the receiver's SACK (its cumulative TSN) reaches the sender, which drops every
        outstanding chunk it covers (apply_sack_to_sent_queue's cumulative removal, serial
        comparison tsn_gt: Gen/Serial.v).
   What happened before -- loss, duplication, reordering, stale SACKs -- is an arbitrary history. *)
From Coq Require Import ZArith List Bool.
From RV Require Import Lib.Wrap Gen.Consts Gen.Serial Gen.Sctp Model.SctpRecv.
Import ListNotations.
Open Scope Z_scope.

Definition ack_drop (cum : Z) (out : list chunk) : list chunk := filter (fun c => tsn_gt (c_tsn c) cum) out.

Definition tick (burst : nat) (sys : list chunk * rstate) : (list chunk * rstate) * list event :=
  let '(out, st) := sys in
  let '(st', evs) := run st (map IData (firstn burst out)) in
  ((ack_drop (r_cum st') out, st'), evs).

Fixpoint ticks (n : nat) (burst : nat) (sys : list chunk * rstate) : (list chunk * rstate) * list event :=
  match n with
  | O => (sys, [])
  | S m => let '(sys1, e1) := tick burst sys in let '(sys2, e2) := ticks m burst sys1 in (sys2, e1 ++ e2)
  end.
