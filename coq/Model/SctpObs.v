(* Correspondence cases for C01 / C12: what the harness ran on the real SctpTransport and
   what it observed, and the boolean check that the model reproduces it (definitions only). *)
From Coq Require Import ZArith List Bool.
From RV Require Import Lib.Wrap Gen.Consts Gen.Sctp Model.SctpRecv.
Import ListNotations.
Open Scope Z_scope.

Fixpoint zl_eqb (a b : list Z) : bool :=
  match a, b with
  | [], [] => true
  | x :: a', y :: b' => if x =? y then zl_eqb a' b' else false   (* lazy: vm_compute is call-by-value *)
  | _, _ => false
  end.
Definition oz_eqb (a b : option Z) : bool :=
  match a, b with
  | None, None => true
  | Some x, Some y => x =? y
  | _, _ => false
  end.
Fixpoint list_eqb {A : Type} (f : A -> A -> bool) (a b : list A) : bool :=
  match a, b with
  | [], [] => true
  | x :: a', y :: b' => if f x y then list_eqb f a' b' else false
  | _, _ => false
  end.

Definition dcev_eqb (a b : dcev) : bool :=
  match a, b with
  | EOpen, EOpen => true
  | EClose, EClose => true
  | EMsg x, EMsg y => zl_eqb x y
  | _, _ => false
  end.
Definition pchunk_eqb (a b : pchunk) : bool :=
  if (p_flags a =? p_flags b) && (p_sid a =? p_sid b) && (p_ssn a =? p_ssn b) && (p_ppid a =? p_ppid b)
  then zl_eqb (p_data a) (p_data b) else false.
Definition chunk_eqb (a b : chunk) : bool := if c_tsn a =? c_tsn b then pchunk_eqb (c_p a) (c_p b) else false.

(* static configuration of a channel (what new_data_channel_tx hands over) *)
Definition chan_cfg_eqb (a b : chan) : bool :=
  (ch_id a =? ch_id b) && Bool.eqb (ch_ordered a) (ch_ordered b) && Bool.eqb (ch_negotiated a) (ch_negotiated b)
  && zl_eqb (ch_label a) (ch_label b) && zl_eqb (ch_proto a) (ch_proto b)
  && oz_eqb (ch_rex a) (ch_rex b) && oz_eqb (ch_life a) (ch_life b).

Definition dopen_eqb (a b : dopen) : bool :=
  (o_ctype a =? o_ctype b) && (o_prio a =? o_prio b) && (o_rel a =? o_rel b)
  && zl_eqb (o_label a) (o_label b) && zl_eqb (o_proto a) (o_proto b).

Definition newdcs (evs : list event) : list chan :=
  flat_map (fun e => match e with NewDc c => [c] | _ => [] end) evs.
Definition txdceps (evs : list event) : list (Z * list Z) :=
  flat_map (fun e => match e with TxDcep s p => [(s, p)] | _ => [] end) evs.
Definition txctls (evs : list event) : list Z :=
  flat_map (fun e => match e with TxCtl t => [t] | _ => [] end) evs.
Definition ev_sids (evs : list event) : list Z :=
  flat_map (fun e => match e with Ev s _ => [s] | _ => [] end) evs.

Definition state_of (sid : Z) (cs : list chan) : option Z :=
  match find_chan sid cs with Some c => Some (DataChannelState_code (ch_state c)) | None => None end.

Definition data_chunks (h : list input) : list chunk :=
  flat_map (fun i => match i with IData c => [c] | _ => [] end) h.

(* A new channel in state Connecting, as DataChannel::new builds it *)
Definition new_chan (id : Z) (ordered negotiated : bool) (label proto : list Z) (rex life : option Z) : chan :=
  mkChan id ordered negotiated label proto rex life DataChannelState_Connecting [].

(* compact rendering of long regular byte strings: len bytes first, first+7, first+14, .. (mod 256) *)
Fixpoint ap_from (n : nat) (b : Z) : list Z :=
  match n with
  | O => []
  | S k => b :: ap_from k ((b + 7) mod 256)
  end.
Definition ap (len first : Z) : list Z := ap_from (Z.to_nat len) first.

(* compact rendering of a long regular history: n single-chunk ordered messages on stream sid,
   message i (counting from i0) has TSN t0+i, SSN i mod 2^16 and the two bytes of seq_msg *)
Definition seq_msg (i : Z) : list Z := [i mod 251; (i / 256) mod 256].
Fixpoint seq_data (n : nat) (i t0 sid : Z) : list input :=
  match n with
  | O => []
  | S k => IData (D (w32 (t0 + i)) 3 sid (w16 i) DATA_CHANNEL_PPID_BINARY (seq_msg i)) :: seq_data k (i + 1) t0 sid
  end.
Fixpoint seq_evs (n : nat) (i : Z) : list dcev :=
  match n with
  | O => []
  | S k => EMsg (seq_msg i) :: seq_evs k (i + 1)
  end.

Inductive case : Set :=
(* receive side: pre-created channels, the whole input history from the start of run_loop, and
   the observations: per-channel event streams, channels announced on new_data_channel_tx, DCEP
   messages and control chunk types the endpoint emitted, cumulative ack of its last SACK, final
   channel states; optionally the workload whose chunk stream the DATA inputs were drawn from *)
| RecvCase (chans : list chan) (hist : list input)
           (obs : list (Z * list dcev)) (newdc : list chan) (tx : list (Z * list Z)) (ctl : list Z)
           (sack : option Z) (states : list (Z * Z))
           (spec : option (list schan * list sub * Z))
           (rwnd0 : Z) (arwnd : option Z)   (* configured receive window; a_rwnd of the last SACK *)
(* send side: channels, workload in the order the messages left, initial TSN, DATA chunks emitted *)
| SendCase (sc : list schan) (W : list sub) (t0 : Z) (out : list chunk)
(* DataChannelOpen::unmarshal on arbitrary bytes / marshal of a message *)
| UnmarshalCase (bytes : list Z) (res : option dopen)
| MarshalCase (o : dopen) (bytes : list Z).

Record recv_out : Set := mkOut {
  m_obs : list (Z * list dcev); m_newdc : list chan; m_tx : list (Z * list Z); m_ctl : list Z;
  m_cum : Z; m_states : list (Z * option Z); m_extra_sids : list Z; m_arwnd : Z; m_used : Z; m_queued : Z }.

Definition recv_model (chans : list chan) (hist : list input) (sids : list Z) (rwnd0 : Z) : recv_out :=
  let '(st, evs) := run (init_r 0 chans) hist in
  mkOut (map (fun s => (s, evs_of s evs)) sids) (newdcs evs) (txdceps evs) (txctls evs) (r_cum st)
        (map (fun s => (s, state_of s (a_chans (r_app st)))) sids)
        (filter (fun s => negb (existsb (Z.eqb s) sids)) (ev_sids evs))
        (adv_rwnd rwnd0 st) (r_used st) (Z.of_nat (length (r_rq st))).

Definition check_case (c : case) : bool :=
  match c with
  | RecvCase chans hist obs newdc tx ctl sack states spec rwnd0 arwnd =>
    let m := recv_model chans hist (map fst obs) rwnd0 in
    list_eqb (fun a b => (fst a =? fst b) && list_eqb dcev_eqb (snd a) (snd b)) (m_obs m) obs
    && list_eqb chan_cfg_eqb (m_newdc m) newdc
    && list_eqb (fun a b => (fst a =? fst b) && zl_eqb (snd a) (snd b)) (m_tx m) tx
    && list_eqb Z.eqb (m_ctl m) ctl
    && match sack with Some s => s =? m_cum m | None => true end
    && match arwnd with Some w => w =? m_arwnd m | None => true end
    && forallb (fun p => oz_eqb (state_of (fst p) (a_chans (r_app (fst (run (init_r 0 chans) hist))))) (Some (snd p))) states
    && is_nil (m_extra_sids m)
    && match spec with
       | Some (sc, W, t0) =>
         let cs := chunks sc W t0 in forallb (fun d => existsb (chunk_eqb d) cs) (data_chunks hist)
       | None => true
       end
  | SendCase sc W t0 out => list_eqb chunk_eqb (chunks sc W t0) out
  | UnmarshalCase bytes res =>
    match unmarshal_open bytes, res with
    | None, None => true
    | Some a, Some b => dopen_eqb a b
    | _, _ => false
    end
  | MarshalCase o bytes => zl_eqb (marshal_open o) bytes
  end.

Inductive mout : Set :=
| MRecv (o : recv_out)
| MSend (cs : list chunk)
| MUnm (o : option dopen)
| MMar (b : list Z).
Definition model_out (c : case) : mout :=
  match c with
  | RecvCase chans hist obs _ _ _ _ _ _ rwnd0 _ => MRecv (recv_model chans hist (map fst obs) rwnd0)
  | SendCase sc W t0 _ => MSend (chunks sc W t0)
  | UnmarshalCase bytes _ => MUnm (unmarshal_open bytes)
  | MarshalCase o _ => MMar (marshal_open o)
  end.

Fixpoint bad_from (i : Z) (cs : list case) : list Z :=
  match cs with
  | [] => []
  | c :: rest => if check_case c then bad_from (i + 1) rest else i :: bad_from (i + 1) rest
  end.
Definition bad_indices (cs : list case) : list Z := bad_from 0 cs.
