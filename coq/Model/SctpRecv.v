(* Model of the SCTP receive path, DCEP handling and data-channel Open/Close events of
   /repo/src/transports/sctp.rs (definitions only; total and computable).

   Mirrors, statement by statement:
     handle_data            -> recv_data      (dup test, fast path, received_queue, drain loop)
     process_data_payload   -> proc / proc_data (per-channel reassembly on B/E, ordered vs direct)
     InboundStream::{enqueue,drain_ready,advance_ssn_to} -> enqueue / drain_ready / advance_ssn_to
     handle_dcep            -> handle_dcep    (DataChannelOpen::unmarshal, found test, ACK cmpxchg)
     handle_init / handle_init_ack / handle_cookie_echo / handle_cookie_ack -> step (setup inputs)
     handle_forward_tsn     -> fwd_tsn
     close_data_channel     -> close_channel ; SctpCleanupGuard::drop -> teardown
   and, as the *specification of the chunk stream* the peer's sender produces,
     send_data_raw + TSN assignment in transmit -> pchunks / chunks.

   All integers are Z; 32-bit TSN and 16-bit SSN arithmetic wraps explicitly (w32 / w16).
   Masks, thresholds, the duplicate test and the DCEP type tables come from Gen/Sctp.v and
   Gen/Consts.v, which are regenerated from /repo on every run. *)
From Coq Require Import ZArith List Bool Lia.
From RV Require Import Lib.Wrap Gen.Consts Gen.Serial Gen.Sctp.
Import ListNotations.
Open Scope Z_scope.

Definition w32 (x : Z) : Z := cast_u32 x.
Definition w16 (x : Z) : Z := cast_u16 x.

(* ------------------------------------------------------------------ chunks *)
(* DATA chunk without / with its TSN: flags, stream id, SSN, PPID, user data *)
Record pchunk : Set := mkP { p_flags : Z; p_sid : Z; p_ssn : Z; p_ppid : Z; p_data : list Z }.
Record chunk : Set := mkC { c_tsn : Z; c_p : pchunk }.
Definition D (t f s n p : Z) (d : list Z) : chunk := mkC t (mkP f s n p d).

(* ------------------------------------------------------------------ channels *)
Record chan : Set := mkChan {
  ch_id : Z; ch_ordered : bool; ch_negotiated : bool;
  ch_label : list Z; ch_proto : list Z; ch_rex : option Z; ch_life : option Z;
  ch_state : DataChannelState; ch_buf : list Z }.

Definition with_buf (b : list Z) (c : chan) : chan :=
  mkChan (ch_id c) (ch_ordered c) (ch_negotiated c) (ch_label c) (ch_proto c) (ch_rex c) (ch_life c) (ch_state c) b.
Definition with_state (s : DataChannelState) (c : chan) : chan :=
  mkChan (ch_id c) (ch_ordered c) (ch_negotiated c) (ch_label c) (ch_proto c) (ch_rex c) (ch_life c) s (ch_buf c).

(* `channels.iter().find_map(|w| w.upgrade().filter(|d| d.id == id))`: first channel with the id *)
Fixpoint find_chan (sid : Z) (cs : list chan) : option chan :=
  match cs with
  | [] => None
  | c :: r => if ch_id c =? sid then Some c else find_chan sid r
  end.
Fixpoint upd_chan (sid : Z) (f : chan -> chan) (cs : list chan) : list chan :=
  match cs with
  | [] => []
  | c :: r => if ch_id c =? sid then f c :: r else c :: upd_chan sid f r
  end.

(* ------------------------------------------------------------------ InboundStream *)
Definition pmap := list (Z * list Z).     (* BTreeMap<u16, Bytes>, keys unique *)
Fixpoint pm_find (k : Z) (m : pmap) : option (list Z) :=
  match m with
  | [] => None
  | (k', v) :: r => if k' =? k then Some v else pm_find k r
  end.
Definition pm_remove (k : Z) (m : pmap) : pmap := filter (fun e => negb (fst e =? k)) m.
Definition pm_insert (k : Z) (v : list Z) (m : pmap) : pmap := (k, v) :: pm_remove k m.

Record istream : Set := mkIS { is_next : Z; is_pend : pmap }.
Definition is_new : istream := mkIS 0 [].

(* while let Some(msg) = pending.remove(&next_ssn) { out.push(msg); next_ssn += 1 (wrapping) } *)
Fixpoint drain (fuel : nat) (s : istream) : list (list Z) * istream :=
  match fuel with
  | O => ([], s)
  | S f =>
    match pm_find (is_next s) (is_pend s) with
    | Some m =>
      let '(out, s') := drain f (mkIS (w16 (is_next s + 1)) (pm_remove (is_next s) (is_pend s))) in
      (m :: out, s')
    | None => ([], s)
    end
  end.
Definition drain_ready (s : istream) : list (list Z) * istream := drain (S (length (is_pend s))) s.

Definition enqueue (s : istream) (ssn : Z) (msg : list Z) : list (list Z) * istream :=
  let ins := drain_ready (mkIS (is_next s) (pm_insert ssn msg (is_pend s))) in
  if MAX_INBOUND_STREAM_PENDING <=? Z.of_nat (length (is_pend s)) then
    let '(ready, s') := drain_ready s in
    match ready with
    | [] => ins
    | _ => (ready, s')              (* the new message is NOT inserted on this path *)
    end
  else ins.

Definition advance_ssn_to (s : istream) (ssn : Z) : istream :=
  if ssn_gt (w16 (ssn + 1)) (is_next s)
  then mkIS (w16 (ssn + 1)) (filter (fun e => ssn_gt (fst e) ssn) (is_pend s))
  else s.

(* HashMap<u16, InboundStream> *)
Definition smap := list (Z * istream).
Fixpoint sm_find (sid : Z) (m : smap) : option istream :=
  match m with
  | [] => None
  | (k, s) :: r => if k =? sid then Some s else sm_find sid r
  end.
Definition sm_get (sid : Z) (m : smap) : istream :=
  match sm_find sid m with Some s => s | None => is_new end.
Definition sm_remove (sid : Z) (m : smap) : smap := filter (fun e => negb (fst e =? sid)) m.
Definition sm_set (sid : Z) (s : istream) (m : smap) : smap := (sid, s) :: sm_remove sid m.

(* ------------------------------------------------------------------ events *)
Inductive dcev : Set := EOpen | EMsg (m : list Z) | EClose.
Inductive event : Set :=
| Ev (sid : Z) (e : dcev)             (* DataChannelEvent on the channel object with this id *)
| NewDc (c : chan)                    (* channel handed to new_data_channel_tx *)
| TxDcep (sid : Z) (payload : list Z) (* DCEP message queued by send_data_raw(id, PPID_DCEP, ..) *)
| TxCtl (ty : Z).                     (* control chunk sent *)

Definition deliver (sid : Z) (ms : list (list Z)) : list event := map (fun m => Ev sid (EMsg m)) ms.

(* a_dcep = dcep_reassembly: fragments of the DCEP message being reassembled, per stream id *)
Record app : Set := mkApp3 { a_chans : list chan; a_streams : smap; a_dcep : pmap }.
(* an application state with no DCEP message in reassembly (every initial state) *)
Definition mkApp (cs : list chan) (ss : smap) : app := mkApp3 cs ss [].

(* ------------------------------------------------------------------ process_data_payload, data part *)
Definition proc_data (a : app) (p : pchunk) : app * list event :=
  let sid := p_sid p in
  match find_chan sid (a_chans a) with
  | None => (a, [])
  | Some ch =>
    let buf := (if rx_flag_b (p_flags p) then [] else ch_buf ch) ++ p_data p in
    if rx_flag_e (p_flags p) then
      let chans' := upd_chan sid (with_buf []) (a_chans a) in
      if rx_flag_u (p_flags p) || negb (ch_ordered ch) then
        (mkApp3 chans' (a_streams a) (a_dcep a), [Ev sid (EMsg buf)])
      else
        let '(ready, s') := enqueue (sm_get sid (a_streams a)) (p_ssn p) buf in
        (mkApp3 chans' (sm_set sid s' (a_streams a)) (a_dcep a), deliver sid ready)
    else (mkApp3 (upd_chan sid (with_buf buf) (a_chans a)) (a_streams a) (a_dcep a), [])
  end.

(* ------------------------------------------------------------------ DCEP *)
Definition in_rng (lo hi b : Z) : bool := (lo <=? b) && (b <=? hi).
Definition cont (b : Z) : bool := in_rng 128 191 b.
(* String::from_utf8 (Unicode 15 table 3-7, well-formed UTF-8 byte sequences) *)
Fixpoint utf8_valid (l : list Z) : bool :=
  match l with
  | [] => true
  | b0 :: r0 =>
    if in_rng 0 127 b0 then utf8_valid r0
    else if in_rng 194 223 b0 then
      match r0 with
      | b1 :: r1 => cont b1 && utf8_valid r1
      | _ => false
      end
    else if in_rng 224 239 b0 then
      match r0 with
      | b1 :: b2 :: r2 =>
        (if b0 =? 224 then in_rng 160 191 b1 else if b0 =? 237 then in_rng 128 159 b1 else cont b1)
        && cont b2 && utf8_valid r2
      | _ => false
      end
    else if in_rng 240 244 b0 then
      match r0 with
      | b1 :: b2 :: b3 :: r3 =>
        (if b0 =? 240 then in_rng 144 191 b1 else if b0 =? 244 then in_rng 128 143 b1 else cont b1)
        && cont b2 && cont b3 && utf8_valid r3
      | _ => false
      end
    else false
  end.

Record dopen : Set := mkOpen { o_ctype : Z; o_prio : Z; o_rel : Z; o_label : list Z; o_proto : list Z }.

Definition be16b (x : Z) : list Z := [(x / 256) mod 256; x mod 256].
Definition be32b (x : Z) : list Z := [(x / 16777216) mod 256; (x / 65536) mod 256; (x / 256) mod 256; x mod 256].
Definition of_be16 (a b : Z) : Z := a * 256 + b.
Definition of_be32 (a b c d : Z) : Z := ((a * 256 + b) * 256 + c) * 256 + d.

(* DataChannelOpen::marshal (lengths are written `as u16`) *)
Definition marshal_open (o : dopen) : list Z :=
  [DCEP_TYPE_OPEN; o_ctype o] ++ be16b (o_prio o) ++ be32b (o_rel o)
  ++ be16b (w16 (Z.of_nat (length (o_label o)))) ++ be16b (w16 (Z.of_nat (length (o_proto o))))
  ++ o_label o ++ o_proto o.

(* DataChannelOpen::unmarshal; None = Err *)
Definition unmarshal_open (d : list Z) : option dopen :=
  if Z.of_nat (length d) <? DCEP_OPEN_MIN_LEN then None else
  match d with
  | mt :: ct :: p1 :: p0 :: r3 :: r2 :: r1 :: r0 :: l1 :: l0 :: q1 :: q0 :: rest =>
    if negb (mt =? DCEP_TYPE_OPEN) then None else
    let ll := of_be16 l1 l0 in
    let pl := of_be16 q1 q0 in
    if Z.of_nat (length rest) <? ll + pl then None else
    let label := firstn (Z.to_nat ll) rest in
    let proto := firstn (Z.to_nat pl) (skipn (Z.to_nat ll) rest) in
    if utf8_valid label && utf8_valid proto
    then Some (mkOpen ct (of_be16 p1 p0) (of_be32 r3 r2 r1 r0) label proto)
    else None
  | _ => None
  end.

(* send_dcep_open: the OPEN message of a local channel *)
Definition is_some {A : Type} (o : option A) : bool := match o with Some _ => true | None => false end.
Definition open_of_chan (c : chan) : dopen :=
  mkOpen (dcep_channel_type (ch_ordered c) (is_some (ch_rex c)) (is_some (ch_life c))) 0
         (dcep_rel_param (ch_rex c) (ch_life c)) (ch_label c) (ch_proto c).

(* handle_dcep, OPEN for an unknown stream: the channel that is created *)
Definition chan_of_open (sid : Z) (o : dopen) : chan :=
  mkChan sid (dcep_type_ordered (o_ctype o)) false (o_label o) (o_proto o)
         (if dcep_type_is_rex (o_ctype o) then Some (w16 (o_rel o)) else None)
         (if dcep_type_is_timed (o_ctype o) then Some (w16 (o_rel o)) else None)
         DataChannelState_Open [].

(* result: state, events, ok (false = the handler returned Err and the caller's `?` propagated it) *)
Definition handle_dcep (a : app) (sid : Z) (d : list Z) : app * list event * bool :=
  match d with
  | [] => (a, [], true)
  | mt :: _ =>
    if mt =? DCEP_TYPE_OPEN then
      match unmarshal_open d with
      | None => (a, [], false)
      | Some o =>
        match find_chan sid (a_chans a) with
        | Some _ => (a, [TxDcep sid [DCEP_TYPE_ACK]], true)
        | None =>
          let ch := chan_of_open sid o in
          (mkApp3 (a_chans a ++ [ch]) (a_streams a) (a_dcep a), [Ev sid EOpen; NewDc ch; TxDcep sid [DCEP_TYPE_ACK]], true)
        end
      end
    else if mt =? DCEP_TYPE_ACK then
      match find_chan sid (a_chans a) with
      | Some ch =>
        if DataChannelState_eqb (ch_state ch) DataChannelState_Connecting
        then (mkApp3 (upd_chan sid (with_state DataChannelState_Open) (a_chans a)) (a_streams a) (a_dcep a), [Ev sid EOpen], true)
        else (a, [], true)
      | None => (a, [], true)
      end
    else (a, [], true)
  end.

(* process_data_payload. DCEP messages are reassembled per stream id (dcep_reassembly) on the B / E
   bits before anything else; the complete message consumes an SSN when it was sent ordered and is
   handed to handle_dcep, whose error is logged and dropped (the result flag is always true: since
   that fix process_data_payload cannot fail, it stays in the signature for the callers' loop). *)
Definition dm_get (sid : Z) (m : pmap) : list Z := match pm_find sid m with Some b => b | None => [] end.
Definition proc (a : app) (p : pchunk) : app * list event * bool :=
  if p_ppid p =? DATA_CHANNEL_PPID_DCEP then
    let buf := (if rx_flag_b (p_flags p) then [] else dm_get (p_sid p) (a_dcep a)) ++ p_data p in
    if negb (rx_flag_e (p_flags p)) then
      (mkApp3 (a_chans a) (a_streams a) (pm_insert (p_sid p) buf (a_dcep a)), [], true)
    else
      let streams1 :=
        if rx_flag_u (p_flags p) then a_streams a
        else sm_set (p_sid p) (snd (enqueue (sm_get (p_sid p) (a_streams a)) (p_ssn p) [])) (a_streams a) in
      let a1 := mkApp3 (a_chans a) streams1 (pm_remove (p_sid p) (a_dcep a)) in
      let '(a2, evs, _) := handle_dcep a1 (p_sid p) buf in (a2, evs, true)
  else (proc_data a p, true).

(* the `for (p_flags, p_chunk) in to_process { process_data_payload(..).await?; cum += 1 }` loop *)
Fixpoint proc_batch (a : app) (b : list chunk) : app * list event * Z * bool :=
  match b with
  | [] => (a, [], 0, true)
  | c :: r =>
    let '(a1, e1, ok) := proc a (c_p c) in
    if ok then
      let '(a2, e2, n, ok2) := proc_batch a1 r in (a2, e1 ++ e2, n + 1, ok2)
    else (a1, e1, 0, false)
  end.

(* ------------------------------------------------------------------ handle_data *)
(* r_used = used_rwnd (usize): bytes of DATA chunk values charged to the receive window while they
   wait in received_queue *)
(* r_prsn = peer_reconfig_request_sn (u32::MAX until the first RE-CONFIG request) *)
Record rstate : Set := mkR { r_conn : SctpState; r_cum : Z; r_rq : list chunk; r_app : app; r_used : Z; r_prsn : Z }.

(* `chunk.len()` of a buffered DATA chunk value: the 12 fixed bytes + user data *)
Definition chunk_len (c : chunk) : Z := data_min_value_len + Z.of_nat (length (p_data (c_p c))).
Definition sum_len (q : list chunk) : Z := fold_right (fun c a => chunk_len c + a) 0 q.

(* advertised_rwnd(): what every SACK carries as a_rwnd; `local` = config.sctp_receive_window *)
Definition adv_rwnd (local : Z) (st : rstate) : Z :=
  if rwnd_zero_queue_len MAX_RECEIVED_QUEUE_SIZE <=? Z.of_nat (length (r_rq st)) then 0
  else let byte_based := sat_usize (local - r_used st) in
       if byte_based <=? 4294967295 then byte_based else 0.

Definition is_nil {A : Type} (l : list A) : bool := match l with [] => true | _ => false end.
Definition rq_mem (t : Z) (q : list chunk) : bool := existsb (fun c => c_tsn c =? t) q.
Fixpoint rq_find (t : Z) (q : list chunk) : option chunk :=
  match q with
  | [] => None
  | c :: r => if c_tsn c =? t then Some c else rq_find t r
  end.
Definition rq_remove (t : Z) (q : list chunk) : list chunk := filter (fun c => negb (c_tsn c =? t)) q.

(* loop { next = cum + 1 + to_process.len(); if let Some(e) = rq.remove(&next) { push } else break } *)
Fixpoint take_run (fuel : nat) (next : Z) (q : list chunk) : list chunk * list chunk :=
  match fuel with
  | O => ([], q)
  | S f =>
    match rq_find next q with
    | Some c => let '(b, q') := take_run f (w32 (next + 1)) (rq_remove next q) in (c :: b, q')
    | None => ([], q)
    end
  end.

Definition recv_data (st : rstate) (c : chunk) : rstate * list event :=
  (* DATA is dropped, unacknowledged, unless the association is established *)
  if negb (SctpState_eqb (r_conn st) SctpState_Connected) then (st, []) else
  let diff := w32 (c_tsn c - r_cum st) in
  if data_is_dup diff then (st, [])
  else if (diff =? data_fast_diff) && is_nil (r_rq st) then
    let '(a1, evs, ok) := proc (r_app st) (c_p c) in
    (mkR (r_conn st) (if ok then c_tsn c else r_cum st) (r_rq st) a1 (r_used st) (r_prsn st), evs)
  else
    (* `if !contains_key { used_rwnd += chunk.len(); insert }`; every chunk processed by the loop is
       credited back (`used_rwnd -= chunk_len` after process_data_payload returned Ok) *)
    let present := rq_mem (c_tsn c) (r_rq st) in
    let rq1 := if present then r_rq st else r_rq st ++ [c] in
    let used1 := if present then r_used st else cast_usize (r_used st + chunk_len c) in
    let '(batch, rq2) := take_run (length rq1) (w32 (r_cum st + 1)) rq1 in
    let '(a1, evs, n, _) := proc_batch (r_app st) batch in
    (mkR (r_conn st) (w32 (r_cum st + n)) rq2 a1 (cast_usize (used1 - sum_len (firstn (Z.to_nat n) batch))) (r_prsn st), evs).

(* ------------------------------------------------------------------ setup, forward-TSN, close *)
(* the loop over data_channels in handle_cookie_echo / handle_cookie_ack *)
Fixpoint on_established (cs : list chan) : list chan * list event :=
  match cs with
  | [] => ([], [])
  | c :: r =>
    let '(r', evs) := on_established r in
    if DataChannelState_eqb (ch_state c) DataChannelState_Connecting then
      if ch_negotiated c
      then (with_state DataChannelState_Open c :: r', Ev (ch_id c) EOpen :: evs)
      else (c :: r', TxDcep (ch_id c) (marshal_open (open_of_chan c)) :: evs)
    else (c :: r', evs)
  end.

Fixpoint fwd_streams (a : app) (pairs : list (Z * Z)) : app * list event :=
  match pairs with
  | [] => (a, [])
  | (sid, ssn) :: r =>
    match sm_find sid (a_streams a) with
    | None => fwd_streams a r
    | Some s =>
      let '(ready, s') := drain_ready (advance_ssn_to s ssn) in
      let a1 := mkApp3 (a_chans a) (sm_set sid s' (a_streams a)) (a_dcep a) in
      let e1 := match find_chan sid (a_chans a) with Some _ => deliver sid ready | None => [] end in
      let '(a2, e2) := fwd_streams a1 r in (a2, e1 ++ e2)
    end
  end.

(* handle_forward_tsn: numeric `>` on both comparisons, no drain of the reorder queue; the chunks
   `retain` drops are not credited back to used_rwnd *)
Definition fwd_tsn (st : rstate) (newcum : Z) (pairs : list (Z * Z)) : rstate * list event :=
  if newcum >? r_cum st then
    let '(a1, evs) := fwd_streams (r_app st) pairs in
    (mkR (r_conn st) newcum (filter (fun c => c_tsn c >? newcum) (r_rq st)) a1 (r_used st) (r_prsn st), evs)
  else (st, []).

Definition close_channel (a : app) (sid : Z) : app * list event :=
  match find_chan sid (a_chans a) with
  | Some c =>
    if DataChannelState_eqb (ch_state c) DataChannelState_Closed then (a, [])
    else (mkApp3 (upd_chan sid (with_state DataChannelState_Closed) (a_chans a)) (sm_remove sid (a_streams a)) (a_dcep a),
          [TxCtl CT_RECONFIG; Ev sid EClose])
  | None => (mkApp3 (a_chans a) (sm_remove sid (a_streams a)) (a_dcep a), [TxCtl CT_RECONFIG])
  end.

(* SctpCleanupGuard::drop *)
Fixpoint teardown (cs : list chan) : list chan * list event :=
  match cs with
  | [] => ([], [])
  | c :: r =>
    let '(r', evs) := teardown r in
    if DataChannelState_eqb (ch_state c) DataChannelState_Closed then (c :: r', evs)
    else (with_state DataChannelState_Closed c :: r', Ev (ch_id c) EClose :: evs)
  end.

(* ------------------------------------------------------------------ RE-CONFIG (RFC 6525) *)
(* handle_reconfig: walk the parameters of the chunk value. Each parameter: type u16, length u16
   (header included), value of length-4 bytes, then padding to a multiple of 4 which is skipped
   only if that many bytes remain. The walk stops at a short header, a length below 4 or a value
   longer than what remains. Result: (type, value) per parameter, WITHOUT the padding. *)
Fixpoint reconfig_params (fuel : nat) (buf : list Z) : list (Z * list Z) :=
  match fuel with
  | O => []
  | S f =>
    match buf with
    | t1 :: t0 :: l1 :: l0 :: rest =>
      let ty := of_be16 t1 t0 in
      let len := of_be16 l1 l0 in
      if (len <? RECONFIG_PARAM_HEADER_LEN) || (Z.of_nat (length rest) <? len - RECONFIG_PARAM_HEADER_LEN) then []
      else
        let vlen := Z.to_nat (len - RECONFIG_PARAM_HEADER_LEN) in
        let rest1 := skipn vlen rest in
        let pad := Z.to_nat ((4 - len mod 4) mod 4) in
        let rest2 := if (pad <=? length rest1)%nat then skipn pad rest1 else rest1 in
        (ty, firstn vlen rest) :: reconfig_params f rest2
    | _ => []
    end
  end.

(* while buf.remaining() >= 2 { streams.push(buf.get_u16()) } *)
Fixpoint u16s (l : list Z) : list Z :=
  match l with
  | a :: b :: r => of_be16 a b :: u16s r
  | _ => []
  end.

(* request sequence number and stream list of an Outgoing SSN Reset Request parameter value (three
   u32 fields, then the stream ids); None when the value is shorter than the fixed fields *)
Definition ssn_reset_streams (v : list Z) : option (Z * list Z) :=
  if Z.of_nat (length v) <? SSN_RESET_FIXED_LEN then None
  else match v with
       | a :: b :: c :: d :: r => Some (of_be32 a b c d, u16s (skipn (Z.to_nat SSN_RESET_FIXED_LEN - 4) r))
       | _ => None
       end.

(* handle_reconfig_outgoing_ssn_reset. (It also resets the send-side next_ssn of the listed local
   channels; the send side is specified separately by `pchunks` and is not part of this state.) *)
Definition ssn_reset (st : rstate) (v : list Z) : rstate * list event :=
  match ssn_reset_streams v with
  | None => (st, [])
  | Some (rsn, ids) =>
    if (rsn <=? r_prsn st) && negb (r_prsn st =? 4294967295) then (st, [TxCtl CT_RECONFIG])
    else
      let streams' := match ids with
                      | [] => []
                      | _ => fold_left (fun m sid => sm_remove sid m) ids (a_streams (r_app st))
                      end in
      (mkR (r_conn st) (r_cum st) (r_rq st) (mkApp3 (a_chans (r_app st)) streams' (a_dcep (r_app st))) (r_used st) rsn, [TxCtl CT_RECONFIG])
  end.

Fixpoint reconfig_apply (st : rstate) (ps : list (Z * list Z)) : rstate * list event :=
  match ps with
  | [] => (st, [])
  | (ty, v) :: r =>
    let '(st1, e1) := if ty =? RECONFIG_PARAM_OUTGOING_SSN_RESET then ssn_reset st v else (st, []) in
    let '(st2, e2) := reconfig_apply st1 r in (st2, e1 ++ e2)
  end.

Definition handle_reconfig (st : rstate) (value : list Z) : rstate * list event :=
  reconfig_apply st (reconfig_params (length value) value).

(* send_reconfig_ssn_reset / close_data_channel: the RE-CONFIG chunk value for a stream list *)
Definition encode_ssn_reset (rsn rsp tsn : Z) (ids : list Z) : list Z :=
  let plen := 16 + 2 * Z.of_nat (length ids) in
  be16b RECONFIG_PARAM_OUTGOING_SSN_RESET ++ be16b plen ++ be32b rsn ++ be32b rsp ++ be32b tsn
  ++ flat_map be16b ids ++ repeat 0 (Z.to_nat ((4 - plen mod 4) mod 4)).

Inductive input : Set :=
| IData (c : chunk)
| IInit (itsn : Z)
| IInitAck (itsn : Z) (has_cookie : bool)
| ICookieEcho (valid : bool)
| ICookieAck
| IFwdTsn (newcum : Z) (pairs : list (Z * Z))
| IClose (sid : Z)
| ITeardown
| IReconfig (value : list Z).

Definition connected (st : rstate) : bool := SctpState_eqb (r_conn st) SctpState_Connected.

Definition establish (st : rstate) (pre : list event) : rstate * list event :=
  let '(cs, evs) := on_established (a_chans (r_app st)) in
  (mkR SctpState_Connected (r_cum st) (r_rq st) (mkApp3 cs (a_streams (r_app st)) (a_dcep (r_app st))) (r_used st) (r_prsn st), pre ++ evs).

Definition step (st : rstate) (i : input) : rstate * list event :=
  if SctpState_eqb (r_conn st) SctpState_Closed then (st, []) else
  match i with
  | IData c => recv_data st c
  | IInit t =>
    if connected st then (st, [])
    else (mkR (r_conn st) (w32 (t - 1)) (r_rq st) (r_app st) (r_used st) (r_prsn st), [TxCtl CT_INIT_ACK])
  | IInitAck t has_cookie =>
    if connected st then (st, [])
    else (mkR (r_conn st) (w32 (t - 1)) (r_rq st) (r_app st) (r_used st) (r_prsn st), if has_cookie then [TxCtl CT_COOKIE_ECHO] else [])
  | ICookieEcho valid => if valid then establish st [TxCtl CT_COOKIE_ACK] else (st, [])
  | ICookieAck => establish st []
  | IFwdTsn n pairs => fwd_tsn st n pairs
  | IClose sid => let '(a, evs) := close_channel (r_app st) sid in (mkR (r_conn st) (r_cum st) (r_rq st) a (r_used st) (r_prsn st), evs)
  | ITeardown =>
    let '(cs, evs) := teardown (a_chans (r_app st)) in
    (mkR SctpState_Closed (r_cum st) (r_rq st) (mkApp3 cs (a_streams (r_app st)) (a_dcep (r_app st))) (r_used st) (r_prsn st), evs)
  | IReconfig v => handle_reconfig st v
  end.

Fixpoint run (st : rstate) (h : list input) : rstate * list event :=
  match h with
  | [] => (st, [])
  | i :: r => let '(st1, e1) := step st i in let '(st2, e2) := run st1 r in (st2, e1 ++ e2)
  end.

(* run_loop sets Connecting before anything is received *)
Definition init_r (cum : Z) (cs : list chan) : rstate := mkR SctpState_Connecting cum [] (mkApp cs []) 0 4294967295.
(* an established association that expects TSN cum+1 next *)
Definition est_r (cum : Z) (cs : list chan) : rstate := mkR SctpState_Connected cum [] (mkApp cs []) 0 4294967295.

(* ------------------------------------------------------------------ observations *)
Definition log_of (sid : Z) (evs : list event) : list (list Z) :=
  flat_map (fun e => match e with
                     | Ev s (EMsg m) => if s =? sid then [m] else []
                     | _ => []
                     end) evs.
Definition evs_of (sid : Z) (evs : list event) : list dcev :=
  flat_map (fun e => match e with Ev s d => if s =? sid then [d] else [] | _ => [] end) evs.

(* ------------------------------------------------------------------ the sender's chunk stream *)
Record schan : Set := mkSC { sc_id : Z; sc_ordered : bool; sc_mps : Z }.
Record sub : Set := mkSub { s_sid : Z; s_ppid : Z; s_data : list Z }.

Fixpoint find_schan (sid : Z) (cs : list schan) : option schan :=
  match cs with
  | [] => None
  | c :: r => if sc_id c =? sid then Some c else find_schan sid r
  end.

Definition ssn_map := list (Z * Z).
Fixpoint ssn_get (sid : Z) (m : ssn_map) : Z :=
  match m with
  | [] => 0
  | (k, v) :: r => if k =? sid then v else ssn_get sid r
  end.
Definition ssn_set (sid v : Z) (m : ssn_map) : ssn_map := (sid, v) :: m.

(* while offset < total_len { size = min(remaining, mps); ... } ; one empty chunk for an empty message *)
Fixpoint split_frags (fuel : nat) (mps : nat) (d : list Z) : list (list Z) :=
  match fuel with
  | O => [d]
  | S f => if (length d <=? mps)%nat then [d] else firstn mps d :: split_frags f mps (skipn mps d)
  end.

Fixpoint mk_frags (unordered : bool) (sid ssn ppid : Z) (first : bool) (fr : list (list Z)) : list pchunk :=
  match fr with
  | [] => []
  | f :: rest =>
    match rest with
    | [] => [mkP (tx_flags unordered first true) sid ssn ppid f]
    | _ => mkP (tx_flags unordered first false) sid ssn ppid f :: mk_frags unordered sid ssn ppid false rest
    end
  end.

Definition sub_frags (unordered : bool) (ssn mps : Z) (s : sub) : list pchunk :=
  match s_data s with
  | [] => [mkP (tx_flags_empty unordered) (s_sid s) ssn (s_ppid s) []]
  | d => mk_frags unordered (s_sid s) ssn (s_ppid s) true (split_frags (length d) (Z.to_nat mps) d)
  end.

(* send_data_raw, one submission at a time (send_lock + outbound_queue lock make it one atomic step) *)
Fixpoint pchunks (sc : list schan) (ssns : ssn_map) (W : list sub) : list pchunk :=
  match W with
  | [] => []
  | s :: W' =>
    let is_dcep := s_ppid s =? DATA_CHANNEL_PPID_DCEP in
    match find_schan (s_sid s) sc with
    | Some ch =>
      let ordered := if is_dcep then false else sc_ordered ch in
      let ssn := if ordered then ssn_get (s_sid s) ssns else 0 in
      let ssns' := if ordered then ssn_set (s_sid s) (w16 (ssn + 1)) ssns else ssns in
      sub_frags (negb ordered) ssn (Z.min (sc_mps ch) DEFAULT_MAX_PAYLOAD_SIZE) s ++ pchunks sc ssns' W'
    | None =>
      sub_frags is_dcep 0 DEFAULT_MAX_PAYLOAD_SIZE s ++ pchunks sc ssns W'
    end
  end.

(* transmit: tsn = next_tsn.fetch_add(1) per dequeued chunk *)
Fixpoint stamp (t : Z) (ps : list pchunk) : list chunk :=
  match ps with
  | [] => []
  | p :: r => mkC (w32 t) p :: stamp (t + 1) r
  end.

Definition chunks (sc : list schan) (W : list sub) (t0 : Z) : list chunk := stamp t0 (pchunks sc [] W).

Definition submitted (W : list sub) (sid : Z) : list (list Z) :=
  flat_map (fun s => if s_sid s =? sid then [s_data s] else []) W.

(* ------------------------------------------------------------------ vocabulary of the theorems *)
(* an input admitted by the safety theorems: an arrival drawn from the genuine chunk stream (any
   order, any multiplicity), or an association-setup chunk (INIT, INIT-ACK, COOKIE-ECHO, COOKIE-ACK) *)
Definition genuine_input (cs : list chunk) (i : input) : Prop :=
  match i with
  | IData c => In c cs
  | IInit _ | IInitAck _ _ | ICookieEcho _ | ICookieAck => True
  | _ => False
  end.
(* the workload is user data (no DCEP) submitted on channels that exist at the sender *)
Definition wf_workload (sc : list schan) (W : list sub) : Prop :=
  Forall (fun s => s_ppid s <> DATA_CHANNEL_PPID_DCEP /\ find_schan (s_sid s) sc <> None) W.

Fixpoint is_prefix_b (a b : list (list Z)) : bool :=
  match a, b with
  | [], _ => true
  | x :: a', y :: b' => (if list_eq_dec Z.eq_dec x y then true else false) && is_prefix_b a' b'
  | _ :: _, [] => false
  end.

(* association-setup chunks *)
Definition is_setup (i : input) : Prop :=
  match i with
  | IInit _ | IInitAck _ _ | ICookieEcho _ | ICookieAck => True
  | _ => False
  end.

(* what may arrive before the association is established: setup chunks and DATA (any DATA) *)
Definition pre_input (i : input) : Prop :=
  match i with
  | IData _ | IInit _ | IInitAck _ _ | ICookieEcho _ | ICookieAck => True
  | _ => False
  end.
