(* C13 -- SCTP sender, part 1: packet construction.  Mirrors, in src/transports/sctp.rs:
     create_data_chunk, the fragmentation loop of send_data_raw, transmit_chunks_with_tag
     (batching), send_packet_with_tag (common header + CRC-32C) and the checksum verification
     at the head of handle_packet (the receiver's own check).
   Bytes are Z in [0,256), byte strings are `list Z`.  Every size / flag literal comes from
   Gen/Consts.v or Gen/SctpSendGen.v (regenerated from the source on every run).
   Definitions only. *)
From Coq Require Import ZArith List Bool.
From RV Require Import Lib.Wrap Gen.Consts Gen.SctpSendGen Model.Crc32c.
Import ListNotations.
Open Scope Z_scope.

Definition len {A : Type} (l : list A) : Z := Z.of_nat (length l).

(* ---------------------------------------------------------------- integers on the wire *)
Definition be16 (x : Z) : list Z := [(x / 256) mod 256; x mod 256].
Definition be32 (x : Z) : list Z :=
  [(x / 16777216) mod 256; (x / 65536) mod 256; (x / 256) mod 256; x mod 256].
Definition le32 (x : Z) : list Z :=
  [x mod 256; (x / 256) mod 256; (x / 65536) mod 256; (x / 16777216) mod 256].
Definition of_be (l : list Z) : Z := fold_left (fun a b => a * 256 + b) l 0.
Definition of_le32 (l : list Z) : Z :=
  match l with
  | [a; b; c; d] => a + 256 * b + 65536 * c + 16777216 * d
  | _ => 0
  end.
Definition zeros (n : Z) : list Z := repeat 0 (Z.to_nat n).

(* ---------------------------------------------------------------- DATA chunks *)
(* OutboundChunk (without the PR-SCTP fields): what send_data_raw queues per fragment *)
Record dchunk : Set := mkD { d_sid : Z; d_ssn : Z; d_ppid : Z; d_flags : Z; d_data : list Z }.

(* create_data_chunk: chunk_len = 4 + (12 + data_len); padding = (4 - chunk_len % 4) % 4 *)
Definition data_chunk_len (d : dchunk) : Z := DATA_CHUNK_HDR + (DATA_VALUE_HDR + len (d_data d)).
Definition create_data_chunk (tsn : Z) (d : dchunk) : list Z :=
  let chunk_len := data_chunk_len d in
  [CT_DATA; d_flags d] ++ be16 (cast_u16 chunk_len) ++
  be32 tsn ++ be16 (d_sid d) ++ be16 (d_ssn d) ++ be32 (d_ppid d) ++ d_data d ++
  zeros (pad_of chunk_len).
(* what `wire_chunk.len()` is *)
Definition data_wire_len (d : dchunk) : Z := data_chunk_len d + pad_of (data_chunk_len d).

(* ---------------------------------------------------------------- send_data_raw: fragmentation *)
(* while offset < total_len { size = min(remaining, max_payload_size); B if offset == 0;
   E if offset + size >= total_len; slice(offset..offset+size); offset += size }.
   `rest` is data[offset..].  The Rust loop does not terminate when max_payload_size = 0
   (DataChannelConfig.max_payload_size = Some(0)); the fuel (|data|) covers every mps >= 1. *)
Fixpoint frag_loop (fuel : nat) (mps flags_base offset total : Z) (rest : list Z) : list (Z * list Z) :=
  match fuel with
  | O => []
  | S f =>
      if offset <? total then
        let remaining := total - offset in
        let n := Z.min remaining mps in
        let flags := flags_base in
        let flags := if offset =? 0 then Z.lor flags FLAG_B else flags in
        let flags := if offset + n >=? total then Z.lor flags FLAG_E else flags in
        (flags, firstn (Z.to_nat n) rest)
          :: frag_loop f mps flags_base (offset + n) total (skipn (Z.to_nat n) rest)
      else []
  end.

Definition fragment (mps flags_base : Z) (data : list Z) : list (Z * list Z) :=
  if len data =? 0 then [(Z.lor flags_base FLAG_BE, [])]
  else frag_loop (length data) mps flags_base 0 (len data) data.

(* the DataChannel fields send_data_raw reads *)
Record chan : Set := mkCh { ch_id : Z; ch_ordered : bool; ch_mps : Z }.

(* send_data_raw(channel_id, ppid, data) with `dc` = the channel found (and its next_ssn) or None:
   returns the queued chunks and the channel's next_ssn afterwards *)
Definition send_data_raw (dc : option (chan * Z)) (sid ppid : Z) (data : list Z) : list dchunk * Z :=
  let is_dcep := ppid =? DATA_CHANNEL_PPID_DCEP in
  let ordered := match dc with
                 | Some (c, _) => if is_dcep then false else ch_ordered c
                 | None => negb is_dcep
                 end in
  let ssn := match dc with
             | Some (_, next_ssn) => if ordered then next_ssn else 0
             | None => 0
             end in
  let next' := match dc with
               | Some (_, next_ssn) => if ordered then cast_u16 (next_ssn + 1) else next_ssn
               | None => 0
               end in
  let mps := match dc with
             | Some (c, _) => Z.min (ch_mps c) DEFAULT_MAX_PAYLOAD_SIZE
             | None => DEFAULT_MAX_PAYLOAD_SIZE
             end in
  let flags_base := if negb ordered then FLAG_U else 0 in
  (map (fun fp => mkD sid ssn ppid (fst fp) (snd fp)) (fragment mps flags_base data), next').

(* ---------------------------------------------------------------- transmit_chunks_with_tag *)
Definition is_nil {A : Type} (l : list A) : bool := match l with [] => true | _ => false end.

Section Batch.
  Context {A : Type} (sz : A -> Z).
  (* for chunk in chunks { if !cur.is_empty() && cur_len + chunk.len() > MAX { send(cur); cur = [];
     cur_len = HDR }  cur_len += chunk.len(); cur.push(chunk) }  if !cur.is_empty() { send(cur) } *)
  Fixpoint batch_loop (chunks cur : list A) (cur_len : Z) : list (list A) :=
    match chunks with
    | [] => if is_nil cur then [] else [cur]
    | c :: rest =>
        if negb (is_nil cur) && (cur_len + sz c >? MAX_SCTP_PACKET_SIZE)
        then cur :: batch_loop rest [c] (SCTP_COMMON_HEADER_SIZE + sz c)
        else batch_loop rest (cur ++ [c]) (cur_len + sz c)
    end.
  Definition batch (chunks : list A) : list (list A) :=
    if is_nil chunks then [] else batch_loop chunks [] SCTP_COMMON_HEADER_SIZE.
  Definition total_size (b : list A) : Z := fold_right (fun c a => sz c + a) 0 b.
End Batch.

(* ---------------------------------------------------------------- send_packet_with_tag *)
Definition pkt_header (sport dport tag : Z) : list Z := be16 sport ++ be16 dport ++ be32 tag.
Definition build_packet (sport dport tag : Z) (chunks : list (list Z)) : list Z :=
  let hdr := pkt_header sport dport tag in
  let body := concat chunks in
  let checksum := crc32c (hdr ++ [0; 0; 0; 0] ++ body) in
  hdr ++ le32 checksum ++ body.

(* ---------------------------------------------------------------- handle_packet: the receiver's check *)
(* len >= 12; received = get_u32_le at 8..12; crc32c(packet[..8]) |> append(0000) |> append(packet[12..]) *)
Definition verify_checksum (pkt : list Z) : bool :=
  if len pkt <? SCTP_COMMON_HEADER_SIZE then false
  else
    let received := of_le32 (firstn 4 (skipn 8 pkt)) in
    let crc := crc32c (firstn 8 pkt) in
    let crc := crc32c_append crc [0; 0; 0; 0] in
    let calculated := crc32c_append crc (skipn 12 pkt) in
    calculated =? received.
Definition pkt_vtag (pkt : list Z) : Z := of_be (firstn 4 (skipn 4 pkt)).
Definition pkt_sport (pkt : list Z) : Z := of_be (firstn 2 pkt).
Definition pkt_dport (pkt : list Z) : Z := of_be (firstn 2 (skipn 2 pkt)).

(* ---------------------------------------------------------------- chunks the sender emits *)
Inductive wchunk : Set :=
| WData (fresh : bool) (tsn : Z) (d : dchunk)   (* `fresh` is a ghost tag: first transmission *)
| WEmpty                                        (* the emptied payload of a gap-acked record: zero bytes *)
| WSack (cum rwnd : Z)                          (* create_sack_chunk without gap blocks / duplicates *)
| WHeartbeat (rnd : Z)                          (* send_heartbeat: info parameter type 1, length 8 *)
| WHeartbeatAck (info : list Z).                (* handle_heartbeat: the peer's info echoed *)

(* send_chunk: type, flags, len16 = 4 + |value|, value, padding *)
Definition simple_chunk (ty flags : Z) (value : list Z) : list Z :=
  let chunk_len := CHUNK_HEADER_SIZE + len value in
  [ty; flags] ++ be16 (cast_u16 chunk_len) ++ value ++ zeros (pad_of chunk_len).

Definition encode_wchunk (w : wchunk) : list Z :=
  match w with
  | WData _ tsn d => create_data_chunk tsn d
  | WEmpty => []
  | WSack cum rwnd => simple_chunk CT_SACK 0 (be32 cum ++ be32 rwnd ++ be16 0 ++ be16 0)
  | WHeartbeat rnd => simple_chunk CT_HEARTBEAT 0 (be16 1 ++ be16 8 ++ be32 rnd)
  | WHeartbeatAck info => simple_chunk CT_HEARTBEAT_ACK 0 info
  end.
(* `chunk.len()` of the encoded chunk, without building it (= len (encode_wchunk w), proved in
   Proofs/SctpSendPacket.v: wchunk_size_encode) *)
Definition simple_chunk_len (vlen : Z) : Z := (CHUNK_HEADER_SIZE + vlen) + pad_of (CHUNK_HEADER_SIZE + vlen).
Definition wchunk_size (w : wchunk) : Z :=
  match w with
  | WData _ _ d => data_wire_len d
  | WEmpty => 0
  | WSack _ _ => simple_chunk_len 12
  | WHeartbeat _ => simple_chunk_len 8
  | WHeartbeatAck info => simple_chunk_len (len info)
  end.

(* transmit_chunks + send_packet_with_tag over structured chunks: the packets of one call *)
Definition packets_of (chunks : list wchunk) : list (list wchunk) := batch wchunk_size chunks.
Definition packet_bytes (sport dport tag : Z) (p : list wchunk) : list Z :=
  build_packet sport dport tag (map encode_wchunk p).
