(* C13 -- SCTP sender, part 2: the sender state machine.  Mirrors, in src/transports/sctp.rs:
     the ChunkRecord bookkeeping of the sent queue (a BTreeMap<u32, _>: numeric key order),
     apply_sack_to_sent_queue, handle_sack (flight / cwnd / ssthresh / fast recovery),
     transmit (SACK bundling, effective window, retransmit phase, new-data drain with the
     `budget > 0` rule, TSN assignment), handle_timeout past its time guards (T3),
     maybe_send_tlp_probe, send_heartbeat / handle_heartbeat, the in-order fast path of
     handle_data (only as far as it schedules a SACK) and the enqueue half of send_data_raw.

   Each operation below is one lock-protected / await-free region of the real code.  Real timers
   (std::time::Instant) are abstract: `OpT3` is "handle_timeout ran and found an expired record",
   `OpTlp` is "the run loop called maybe_send_tlp_probe", `OpHeartbeat` is "the heartbeat timer
   fired"; the time stamps carried by OpSack / OpT3 / OpTlp (milliseconds) are only compared with
   the two cooldown constants.  Not modelled (assumptions of the C13 check): PR-SCTP channels
   (max_retransmits / max_packet_life_time => abandoned records, FORWARD-TSN), out-of-order or
   duplicate inbound DATA (gap blocks / duplicate TSNs in outgoing SACKs), the RTO calculator.
   Definitions only. *)
From Coq Require Import ZArith List Bool.
From RV Require Import Lib.Wrap Gen.Consts Gen.Serial Gen.SctpSendGen Model.SctpSend.
Import ListNotations.
Open Scope Z_scope.

(* ---------------------------------------------------------------- arithmetic helpers *)
(* u32 / i32 wrap-around through bit masks (fast under vm_compute); equal to the cast_u32 / cast_i32
   of Lib/Wrap.v for every argument (Proofs/SctpSendSm.v: wrap32_cast, i32_sub_cast) *)
Definition MASK32 : Z := 4294967295.
Definition wrap32 (x : Z) : Z := Z.land x MASK32.                  (* x as u32 *)
Definition i32_sub (a b : Z) : Z :=                                (* (a.wrapping_sub(b) as i32) *)
  let d := wrap32 (a - b) in if d <? 2147483648 then d else d - 4294967296.
Definition wadd32 (a b : Z) : Z := wrap32 (a + b).                 (* a.wrapping_add(b) *)
Definition wrap64 (x : Z) : Z := Z.land x 18446744073709551615.    (* x as u64 *)
Definition sat_sub (a b : Z) : Z := Z.max 0 (a - b).               (* usize::saturating_sub *)

(* ---------------------------------------------------------------- ChunkRecord *)
Record rec : Set := mkR {
  r_tsn : Z;
  r_d : dchunk;            (* the DATA chunk the payload encodes (create_data_chunk r_tsn r_d) *)
  r_emptied : bool;        (* payload replaced by Bytes::new() after a gap ack *)
  r_tc : Z;                (* transmit_count *)
  r_miss : Z;              (* missing_reports (u8) *)
  r_fr : bool;             (* fast_retransmit *)
  r_needs : bool;          (* needs_retransmit *)
  r_frt : option Z;        (* fast_retransmit_time, ms *)
  r_inflight : bool;
  r_acked : bool
}.
(* record.payload.len() *)
Definition rec_len (r : rec) : Z := if r_emptied r then 0 else data_wire_len (r_d r).
(* record.payload.clone() as pushed into chunks_to_send by the retransmit phase *)
Definition rec_wire (r : rec) : wchunk := if r_emptied r then WEmpty else WData false (r_tsn r) (r_d r).

(* BTreeMap::insert: ascending numeric key, an equal key is replaced *)
Fixpoint sq_insert (r : rec) (l : list rec) : list rec :=
  match l with
  | [] => [r]
  | x :: t => if r_tsn r <? r_tsn x then r :: l
              else if r_tsn r =? r_tsn x then r :: t
              else x :: sq_insert r t
  end.

Definition sum_by {A : Type} (f : A -> Z) (l : list A) : Z := fold_right (fun r a => f r + a) 0 l.

(* ---------------------------------------------------------------- apply_sack_to_sent_queue *)
Definition max_reported_of (cum : Z) (gaps : list (Z * Z)) : Z :=
  fold_left (fun mr g => let be := wadd32 cum (snd g) in if i32_sub be mr >? 0 then be else mr) gaps cum.

(* 0. "late SACK" filter.  The oldest outstanding TSN: the first key, unless the keys straddle the
   2^32 wrap (last - first negative as i32), then the first key of the upper half
   (BTreeMap::range(0x8000_0000..).next()).  [fixed code; the unfixed filter used the first key] *)
Definition oldest_tsn (sent : list rec) : option Z :=
  match sent with
  | [] => None
  | r0 :: _ =>
      let first := r_tsn r0 in
      let last := r_tsn (List.last sent r0) in
      if i32_sub last first <? 0
      then match find (fun r => OLDEST_UPPER_HALF <=? r_tsn r) sent with
           | Some r => Some (r_tsn r)
           | None => Some first
           end
      else Some first
  end.
Definition late_sack (sent : list rec) (cum : Z) (gaps : list (Z * Z)) : bool :=
  match oldest_tsn sent with
  | None => false
  | Some lowest => (i32_sub cum (wrap32 (lowest - 1)) <? 0) && (i32_sub (max_reported_of cum gaps) lowest <? 0)
  end.

(* 1. cumulative removal: (tsn.wrapping_sub(cum) as i32) <= 0 *)
Definition cum_covered (cum : Z) (r : rec) : bool := i32_sub (r_tsn r) cum <=? 0.
Definition cum_kept (cum : Z) (sent : list rec) : list rec := filter (fun r => negb (cum_covered cum r)) sent.
Definition cum_removed (cum : Z) (sent : list rec) : list rec := filter (cum_covered cum) sent.

(* 2. gap ack blocks: BTreeMap::range(s..=e), or range(s..) + range(..=e) when s > e *)
Definition block_range (cum : Z) (g : Z * Z) : Z * Z := (wadd32 cum (fst g), wadd32 cum (snd g)).
Definition in_range (se : Z * Z) (tsn : Z) : bool :=
  let '(s, e) := se in
  if s <=? e then (s <=? tsn) && (tsn <=? e) else (s <=? tsn) || (tsn <=? e).
(* `ranges` = map (block_range cum) gaps *)
Definition gap_hit (ranges : list (Z * Z)) (r : rec) : bool :=
  existsb (fun se => in_range se (r_tsn r)) ranges && negb (r_acked r).
Definition gap_mark (ranges : list (Z * Z)) (r : rec) : rec :=
  if gap_hit ranges r
  then mkR (r_tsn r) (r_d r) true (r_tc r) (r_miss r) (r_fr r) (r_needs r) (r_frt r) false true
  else r.

(* 3. missing reports / fast retransmit *)
Definition miss_applies (mr : Z) (r : rec) : bool := (i32_sub (r_tsn r) mr <=? 0) && negb (r_acked r).
Definition miss_new (r : rec) : Z := Z.min 255 (r_miss r + 1).            (* u8::saturating_add *)
Definition can_fr (now max_rtx : Z) (r : rec) : bool :=
  if r_fr r then
    if r_tc r >=? max_rtx then false
    else match r_frt r with
         | Some t => if Z.max 0 (now - t) <? MIN_FAST_RETRANSMIT_COOLDOWN_MS then false else miss_new r >=? DUP_THRESH
         | None => true
         end
  else true.
Definition fr_fires (count : bool) (now max_rtx mr : Z) (r : rec) : bool :=
  count && miss_applies mr r && (miss_new r >=? DUP_THRESH) && can_fr now max_rtx r.
Definition miss_update (count : bool) (now max_rtx mr : Z) (r : rec) : rec :=
  if count && miss_applies mr r then
    if fr_fires count now max_rtx mr r
    then mkR (r_tsn r) (r_d r) (r_emptied r) (r_tc r + 1) 0 true true (Some now) false (r_acked r)
    else mkR (r_tsn r) (r_d r) (r_emptied r) (r_tc r) (miss_new r) (r_fr r) (r_needs r) (r_frt r) (r_inflight r) (r_acked r)
  else r.

Record outcome : Set := mkOut {
  o_flight_red : Z; o_cum_bytes : Z; o_gap_bytes : Z;
  o_rtt : bool;            (* !rtt_samples.is_empty() *)
  o_retx : bool;           (* !retransmit.is_empty() *)
  o_head_moved : bool
}.
Definition outcome_default : outcome := mkOut 0 0 0 false false false.

Definition head_tsn (sent : list rec) : option Z := match sent with [] => None | r :: _ => Some (r_tsn r) end.
Definition opt_z_eqb (a b : option Z) : bool :=
  match a, b with None, None => true | Some x, Some y => x =? y | _, _ => false end.
Definition if_inflight (r : rec) : Z := if r_inflight r then rec_len r else 0.

Definition apply_sack (sent : list rec) (cum : Z) (gaps : list (Z * Z)) (now : Z) (count : bool) (max_rtx : Z)
  : list rec * outcome :=
  if late_sack sent cum gaps then (sent, outcome_default)
  else
    let mr := max_reported_of cum gaps in
    let removed := cum_removed cum sent in
    let kept := cum_kept cum sent in
    let ranges := map (block_range cum) gaps in
    let hit := filter (gap_hit ranges) kept in
    let marked := map (gap_mark ranges) kept in
    let firing := filter (fr_fires count now max_rtx mr) marked in
    let final := map (miss_update count now max_rtx mr) marked in
    (final,
     mkOut (sum_by if_inflight removed + sum_by if_inflight hit + sum_by if_inflight firing)
           (sum_by rec_len removed)
           (sum_by rec_len hit)
           (existsb (fun r => (r_tc r =? 1) && negb (r_acked r)) removed || existsb (fun r => r_tc r =? 1) hit)
           (negb (is_nil firing))
           (negb (opt_z_eqb (head_tsn sent) (head_tsn final)))).

(* ---------------------------------------------------------------- configuration and state *)
Record cfg : Set := mkCfg {
  c_max_burst : Z;       (* sctp_max_burst, 0 = default *)
  c_max_cwnd : Z;        (* sctp_max_cwnd *)
  c_max_tsn_rtx : Z;     (* sctp_max_tsn_retransmits *)
  c_local_rwnd : Z;      (* sctp_receive_window *)
  c_chans : list chan    (* the data channels send_data_raw can find *)
}.

Record st : Set := mkSt {
  s_next_tsn : Z;
  s_sent : list rec;
  s_outq : list dchunk;
  s_flight : Z;
  s_cwnd : Z;
  s_cwnd_rx : Z;
  s_ssthresh : Z;
  s_pba : Z;
  s_rwnd : Z;
  s_sack_needed : bool;
  s_sack_delayed : bool;
  s_last_sig : Z;
  s_fr_exit : Z;
  s_fr_active : bool;
  s_last_fr_entry : option Z;
  s_window_limited : bool;
  s_tlp_sent : bool;
  s_notify : bool;
  s_rcum : Z;
  s_ssn : list (Z * Z)
}.
Definition set_next_tsn (s : st) (v : Z) : st := mkSt v (s_sent s) (s_outq s) (s_flight s) (s_cwnd s) (s_cwnd_rx s) (s_ssthresh s) (s_pba s) (s_rwnd s) (s_sack_needed s) (s_sack_delayed s) (s_last_sig s) (s_fr_exit s) (s_fr_active s) (s_last_fr_entry s) (s_window_limited s) (s_tlp_sent s) (s_notify s) (s_rcum s) (s_ssn s).
Definition set_sent (s : st) (v : list rec) : st := mkSt (s_next_tsn s) v (s_outq s) (s_flight s) (s_cwnd s) (s_cwnd_rx s) (s_ssthresh s) (s_pba s) (s_rwnd s) (s_sack_needed s) (s_sack_delayed s) (s_last_sig s) (s_fr_exit s) (s_fr_active s) (s_last_fr_entry s) (s_window_limited s) (s_tlp_sent s) (s_notify s) (s_rcum s) (s_ssn s).
Definition set_outq (s : st) (v : list dchunk) : st := mkSt (s_next_tsn s) (s_sent s) v (s_flight s) (s_cwnd s) (s_cwnd_rx s) (s_ssthresh s) (s_pba s) (s_rwnd s) (s_sack_needed s) (s_sack_delayed s) (s_last_sig s) (s_fr_exit s) (s_fr_active s) (s_last_fr_entry s) (s_window_limited s) (s_tlp_sent s) (s_notify s) (s_rcum s) (s_ssn s).
Definition set_flight (s : st) (v : Z) : st := mkSt (s_next_tsn s) (s_sent s) (s_outq s) v (s_cwnd s) (s_cwnd_rx s) (s_ssthresh s) (s_pba s) (s_rwnd s) (s_sack_needed s) (s_sack_delayed s) (s_last_sig s) (s_fr_exit s) (s_fr_active s) (s_last_fr_entry s) (s_window_limited s) (s_tlp_sent s) (s_notify s) (s_rcum s) (s_ssn s).
Definition set_cwnd (s : st) (v : Z) : st := mkSt (s_next_tsn s) (s_sent s) (s_outq s) (s_flight s) v (s_cwnd_rx s) (s_ssthresh s) (s_pba s) (s_rwnd s) (s_sack_needed s) (s_sack_delayed s) (s_last_sig s) (s_fr_exit s) (s_fr_active s) (s_last_fr_entry s) (s_window_limited s) (s_tlp_sent s) (s_notify s) (s_rcum s) (s_ssn s).
Definition set_cwnd_rx (s : st) (v : Z) : st := mkSt (s_next_tsn s) (s_sent s) (s_outq s) (s_flight s) (s_cwnd s) v (s_ssthresh s) (s_pba s) (s_rwnd s) (s_sack_needed s) (s_sack_delayed s) (s_last_sig s) (s_fr_exit s) (s_fr_active s) (s_last_fr_entry s) (s_window_limited s) (s_tlp_sent s) (s_notify s) (s_rcum s) (s_ssn s).
Definition set_ssthresh (s : st) (v : Z) : st := mkSt (s_next_tsn s) (s_sent s) (s_outq s) (s_flight s) (s_cwnd s) (s_cwnd_rx s) v (s_pba s) (s_rwnd s) (s_sack_needed s) (s_sack_delayed s) (s_last_sig s) (s_fr_exit s) (s_fr_active s) (s_last_fr_entry s) (s_window_limited s) (s_tlp_sent s) (s_notify s) (s_rcum s) (s_ssn s).
Definition set_pba (s : st) (v : Z) : st := mkSt (s_next_tsn s) (s_sent s) (s_outq s) (s_flight s) (s_cwnd s) (s_cwnd_rx s) (s_ssthresh s) v (s_rwnd s) (s_sack_needed s) (s_sack_delayed s) (s_last_sig s) (s_fr_exit s) (s_fr_active s) (s_last_fr_entry s) (s_window_limited s) (s_tlp_sent s) (s_notify s) (s_rcum s) (s_ssn s).
Definition set_rwnd (s : st) (v : Z) : st := mkSt (s_next_tsn s) (s_sent s) (s_outq s) (s_flight s) (s_cwnd s) (s_cwnd_rx s) (s_ssthresh s) (s_pba s) v (s_sack_needed s) (s_sack_delayed s) (s_last_sig s) (s_fr_exit s) (s_fr_active s) (s_last_fr_entry s) (s_window_limited s) (s_tlp_sent s) (s_notify s) (s_rcum s) (s_ssn s).
Definition set_sack_needed (s : st) (v : bool) : st := mkSt (s_next_tsn s) (s_sent s) (s_outq s) (s_flight s) (s_cwnd s) (s_cwnd_rx s) (s_ssthresh s) (s_pba s) (s_rwnd s) v (s_sack_delayed s) (s_last_sig s) (s_fr_exit s) (s_fr_active s) (s_last_fr_entry s) (s_window_limited s) (s_tlp_sent s) (s_notify s) (s_rcum s) (s_ssn s).
Definition set_sack_delayed (s : st) (v : bool) : st := mkSt (s_next_tsn s) (s_sent s) (s_outq s) (s_flight s) (s_cwnd s) (s_cwnd_rx s) (s_ssthresh s) (s_pba s) (s_rwnd s) (s_sack_needed s) v (s_last_sig s) (s_fr_exit s) (s_fr_active s) (s_last_fr_entry s) (s_window_limited s) (s_tlp_sent s) (s_notify s) (s_rcum s) (s_ssn s).
Definition set_last_sig (s : st) (v : Z) : st := mkSt (s_next_tsn s) (s_sent s) (s_outq s) (s_flight s) (s_cwnd s) (s_cwnd_rx s) (s_ssthresh s) (s_pba s) (s_rwnd s) (s_sack_needed s) (s_sack_delayed s) v (s_fr_exit s) (s_fr_active s) (s_last_fr_entry s) (s_window_limited s) (s_tlp_sent s) (s_notify s) (s_rcum s) (s_ssn s).
Definition set_fr_exit (s : st) (v : Z) : st := mkSt (s_next_tsn s) (s_sent s) (s_outq s) (s_flight s) (s_cwnd s) (s_cwnd_rx s) (s_ssthresh s) (s_pba s) (s_rwnd s) (s_sack_needed s) (s_sack_delayed s) (s_last_sig s) v (s_fr_active s) (s_last_fr_entry s) (s_window_limited s) (s_tlp_sent s) (s_notify s) (s_rcum s) (s_ssn s).
Definition set_fr_active (s : st) (v : bool) : st := mkSt (s_next_tsn s) (s_sent s) (s_outq s) (s_flight s) (s_cwnd s) (s_cwnd_rx s) (s_ssthresh s) (s_pba s) (s_rwnd s) (s_sack_needed s) (s_sack_delayed s) (s_last_sig s) (s_fr_exit s) v (s_last_fr_entry s) (s_window_limited s) (s_tlp_sent s) (s_notify s) (s_rcum s) (s_ssn s).
Definition set_last_fr_entry (s : st) (v : option Z) : st := mkSt (s_next_tsn s) (s_sent s) (s_outq s) (s_flight s) (s_cwnd s) (s_cwnd_rx s) (s_ssthresh s) (s_pba s) (s_rwnd s) (s_sack_needed s) (s_sack_delayed s) (s_last_sig s) (s_fr_exit s) (s_fr_active s) v (s_window_limited s) (s_tlp_sent s) (s_notify s) (s_rcum s) (s_ssn s).
Definition set_window_limited (s : st) (v : bool) : st := mkSt (s_next_tsn s) (s_sent s) (s_outq s) (s_flight s) (s_cwnd s) (s_cwnd_rx s) (s_ssthresh s) (s_pba s) (s_rwnd s) (s_sack_needed s) (s_sack_delayed s) (s_last_sig s) (s_fr_exit s) (s_fr_active s) (s_last_fr_entry s) v (s_tlp_sent s) (s_notify s) (s_rcum s) (s_ssn s).
Definition set_tlp_sent (s : st) (v : bool) : st := mkSt (s_next_tsn s) (s_sent s) (s_outq s) (s_flight s) (s_cwnd s) (s_cwnd_rx s) (s_ssthresh s) (s_pba s) (s_rwnd s) (s_sack_needed s) (s_sack_delayed s) (s_last_sig s) (s_fr_exit s) (s_fr_active s) (s_last_fr_entry s) (s_window_limited s) v (s_notify s) (s_rcum s) (s_ssn s).
Definition set_notify (s : st) (v : bool) : st := mkSt (s_next_tsn s) (s_sent s) (s_outq s) (s_flight s) (s_cwnd s) (s_cwnd_rx s) (s_ssthresh s) (s_pba s) (s_rwnd s) (s_sack_needed s) (s_sack_delayed s) (s_last_sig s) (s_fr_exit s) (s_fr_active s) (s_last_fr_entry s) (s_window_limited s) (s_tlp_sent s) v (s_rcum s) (s_ssn s).
Definition set_rcum (s : st) (v : Z) : st := mkSt (s_next_tsn s) (s_sent s) (s_outq s) (s_flight s) (s_cwnd s) (s_cwnd_rx s) (s_ssthresh s) (s_pba s) (s_rwnd s) (s_sack_needed s) (s_sack_delayed s) (s_last_sig s) (s_fr_exit s) (s_fr_active s) (s_last_fr_entry s) (s_window_limited s) (s_tlp_sent s) (s_notify s) v (s_ssn s).
Definition set_ssn (s : st) (v : list (Z * Z)) : st := mkSt (s_next_tsn s) (s_sent s) (s_outq s) (s_flight s) (s_cwnd s) (s_cwnd_rx s) (s_ssthresh s) (s_pba s) (s_rwnd s) (s_sack_needed s) (s_sack_delayed s) (s_last_sig s) (s_fr_exit s) (s_fr_active s) (s_last_fr_entry s) (s_window_limited s) (s_tlp_sent s) (s_notify s) (s_rcum s) v.

(* state after the handshake: handle_init / handle_init_ack store peer_rwnd, ssthresh, next_tsn *)
Definition init_state (initial_tsn peer_rwnd peer_initial_tsn : Z) : st :=
  mkSt initial_tsn [] [] 0 CWND_INITIAL CWND_INITIAL (Z.max peer_rwnd SSTHRESH_MIN) 0 peer_rwnd
       false false 0 0 false None false false false (wrap32 (peer_initial_tsn - 1)) [].

(* one packet = the chunks bundled into it *)
Definition packet : Set := list wchunk.

(* ---------------------------------------------------------------- transmit *)
Definition burst_limit (c : cfg) : Z :=
  if c_max_burst c >? 0 then c_max_burst c * MAX_SCTP_PACKET_SIZE else DEFAULT_BURST_PACKETS * MAX_SCTP_PACKET_SIZE.

(* advertised_rwnd with an empty reassembly queue and used_rwnd = 0 *)
Definition advertised_rwnd (c : cfg) : Z := if c_local_rwnd c <=? 4294967295 then c_local_rwnd c else 0.

(* 2. retransmit phase, in key order *)
Fixpoint retx_phase (sent : list rec) (flight : Z) : list rec * Z * list wchunk :=
  match sent with
  | [] => ([], flight, [])
  | r :: t =>
      if r_needs r then
        let flight' := if r_inflight r then flight else flight + rec_len r in
        let r' := mkR (r_tsn r) (r_d r) (r_emptied r) (r_tc r) (r_miss r) (r_fr r) false (r_frt r) true (r_acked r) in
        let '(t', fl, out) := retx_phase t flight' in
        (r' :: t', fl, rec_wire r :: out)
      else
        let '(t', fl, out) := retx_phase t flight in
        (r :: t', fl, out)
  end.

(* 3. drain: while budget > 0 && batch.len() < cap { pop_front; budget = budget.saturating_sub(padded) } *)
Definition drain_charge (d : dchunk) : Z :=
  let wire := CHUNK_HEADER_SIZE + TRANSMIT_DATA_HDR + len (d_data d) in wire + transmit_pad_of wire.
Fixpoint drain (cap : nat) (outq : list dchunk) (budget : Z) : list dchunk * list dchunk :=
  match cap with
  | O => ([], outq)
  | S cap' =>
      if budget >? 0 then
        match outq with
        | [] => ([], [])
        | d :: q => let '(b, rest) := drain cap' q (sat_sub budget (drain_charge d)) in (d :: b, rest)
        end
      else ([], outq)
  end.

(* TSN assignment, sent-queue insertion, flight accounting for the drained batch *)
Definition fresh_rec (tsn : Z) (d : dchunk) : rec := mkR tsn d false 1 0 false false None true false.
Fixpoint assign (batch : list dchunk) (tsn : Z) (sent : list rec) (flight : Z) : Z * list rec * Z * list wchunk :=
  match batch with
  | [] => (tsn, sent, flight, [])
  | d :: b =>
      let '(tsn', sent', fl, out) := assign b (wrap32 (tsn + 1)) (sq_insert (fresh_rec tsn d) sent) (flight + data_wire_len d) in
      (tsn', sent', fl, WData true tsn d :: out)
  end.

Definition transmit_chunks (c : cfg) (s : st) : st * list wchunk :=
  let sack := if s_sack_needed s then [WSack (s_rcum s) (advertised_rwnd c)] else [] in
  let eff := effective_window (s_flight s) (burst_limit c) (s_cwnd s) (s_rwnd s) in
  let '(sent1, flight1, rtx) := retx_phase (s_sent s) (s_flight s) in
  let available := sat_sub eff flight1 in
  let '(batch, outq') := drain (Z.to_nat TRANSMIT_BATCH_CAP) (s_outq s) available in
  let wl := negb (is_nil outq') || (len batch >=? TRANSMIT_BATCH_CAP) in
  let '(tsn', sent2, flight2, fresh) := assign batch (s_next_tsn s) sent1 flight1 in
  let s := set_sack_needed s false in
  let s := set_sent s sent2 in
  let s := set_flight s flight2 in
  let s := set_outq s outq' in
  let s := set_window_limited s wl in
  let s := set_next_tsn s tsn' in
  (s, sack ++ rtx ++ fresh).

Definition transmit (c : cfg) (s : st) : st * list packet :=
  let '(s', chunks) := transmit_chunks c s in (s', packets_of chunks).

(* ---------------------------------------------------------------- handle_sack *)
Definition sack_sig (cum : Z) (gaps : list (Z * Z)) : Z :=
  fold_left (fun sig g =>
               let block := Z.lor (Z.shiftl (fst g) 16) (snd g) in
               wrap64 (wrap64 (sig * SACK_SIG_MUL) + Z.lxor block (Z.shiftr sig 32)))
            gaps (Z.shiftl cum 32).

Definition since_entry (now : Z) (last : option Z) : Z :=
  match last with None => 10000 | Some t => Z.max 0 (now - t) end.

(* progress: TLP re-armed, ssthresh auto-raise *)
Definition sack_progress (c : cfg) (s : st) (o : outcome) : st :=
  if (o_cum_bytes o >? 0) || o_rtt o then
    let s := set_tlp_sent s false in
    if (s_ssthresh s <=? SSTHRESH_MIN) && (o_cum_bytes o >? 0) && (s_cwnd s >=? raise_threshold (s_ssthresh s))
    then set_ssthresh s (raise_ssthresh (s_cwnd s) (c_max_cwnd c)) else s
  else s.

(* cwnd growth outside fast recovery (the local `cwnd` / `ssthresh` were read before the deflation) *)
Definition sack_grow (c : cfg) (s : st) (cwnd0 ssthresh0 done : Z) : st :=
  let utilized := s_window_limited s || (s_flight s >=? cwnd0) in
  if (done >? 0) && utilized && (cwnd0 <? c_max_cwnd c) then
    if cwnd0 <=? ssthresh0
    then set_cwnd s (s_cwnd s + (Z.min (cwnd0 + done) (c_max_cwnd c) - cwnd0))
    else
      let total := s_pba s + done in
      let s := set_pba s total in
      if total >=? cwnd0
      then set_cwnd (set_pba s (total - cwnd0)) (s_cwnd s + (Z.min (cwnd0 + MAX_SCTP_PACKET_SIZE) (c_max_cwnd c) - cwnd0))
      else s
  else s.

(* flight reduction and congestion control *)
Definition sack_cc (c : cfg) (s : st) (cum : Z) (o : outcome) : st :=
  if o_flight_red o >? 0 then
    let s := set_flight s (sat_sub (s_flight s) (o_flight_red o)) in
    let cwnd0 := s_cwnd s in
    let ssthresh0 := s_ssthresh s in
    let was_fr := s_fr_active s in
    let in_fr := was_fr && (i32_sub cum (s_fr_exit s) <? 0) in
    let s := if was_fr && negb in_fr
             then set_pba (set_cwnd (set_fr_exit (set_fr_active s false) 0) ssthresh0) 0 else s in
    let done := o_cum_bytes o + o_gap_bytes o in
    if in_fr then
      if (done >? 0) && (cwnd0 <? c_max_cwnd c)
      then set_cwnd s (s_cwnd s + (Z.min (cwnd0 + done) (c_max_cwnd c) - cwnd0)) else s
    else sack_grow c s cwnd0 ssthresh0 done
  else s.

Definition sack_notify (s : st) (o : outcome) : st :=
  if o_head_moved o || (o_flight_red o >? 0) then set_notify s true else s.

(* fast retransmit: enter fast recovery unless already in it or within the re-entry cooldown *)
Definition sack_fr_entry (s : st) (now cum : Z) (o : outcome) : st :=
  if o_retx o then
    let in_fr := s_fr_active s && (i32_sub cum (s_fr_exit s) <? 0) in
    if in_fr then s
    else if since_entry now (s_last_fr_entry s) <? FAST_RECOVERY_REENTRY_COOLDOWN_MS then s
    else
      let near_floor := s_cwnd s <=? fr_near_floor_limit in
      let tx := if near_floor then fr_ssthresh_gentle (s_cwnd s) else fr_ssthresh_std (s_cwnd s) in
      let rx := if near_floor then fr_ssthresh_gentle (s_cwnd_rx s) else fr_ssthresh_std (s_cwnd_rx s) in
      let nss := Z.min tx rx in
      let s := set_ssthresh s nss in
      let s := set_cwnd s nss in
      let s := set_cwnd_rx s nss in
      let s := set_pba s 0 in
      let s := set_fr_active s true in
      let s := set_fr_exit s (wrap32 (s_next_tsn s - 1)) in
      set_last_fr_entry s (Some now)
  else s.

(* everything handle_sack does before its final `self.transmit()` *)
Definition sack_update (c : cfg) (s : st) (now cum a_rwnd : Z) (gaps : list (Z * Z)) : st :=
  let s := set_rwnd s a_rwnd in
  let sig := sack_sig cum gaps in
  let count := negb (s_last_sig s =? sig) in
  let s := if count then set_last_sig s sig else s in
  let so := apply_sack (s_sent s) cum gaps now count (c_max_tsn_rtx c) in
  let o := snd so in
  let s := set_sent s (fst so) in
  sack_fr_entry (sack_notify (sack_cc c (sack_progress c s o) cum o) o) now cum o.

Definition handle_sack (c : cfg) (s : st) (now cum a_rwnd : Z) (gaps : list (Z * Z)) : st * list packet :=
  transmit c (sack_update c s now cum a_rwnd gaps).

(* ---------------------------------------------------------------- handle_timeout (T3), past the time guards *)
Fixpoint t3_mark (sent : list rec) (count : Z) : list rec :=
  match sent with
  | [] => []
  | r :: t =>
      if negb (r_acked r) then
        if count <? RETRANSMIT_BURST
        then mkR (r_tsn r) (r_d r) (r_emptied r) (r_tc r + 1) (r_miss r) (r_fr r) true (r_frt r) false (r_acked r)
               :: t3_mark t (count + 1)
        else mkR (r_tsn r) (r_d r) (r_emptied r) (r_tc r) (r_miss r) (r_fr r) (r_needs r) (r_frt r) false (r_acked r)
               :: t3_mark t count
      else r :: t3_mark t count
  end.

Definition handle_t3 (s : st) : st :=
  if existsb (fun r => negb (r_acked r)) (s_sent s) then
    let s := set_tlp_sent s false in
    let s := set_sent s (t3_mark (s_sent s) 0) in
    let s := set_flight s 0 in
    let s := set_pba s 0 in
    let s := set_fr_active s false in
    let s := set_fr_exit s 0 in
    let nss := t3_ssthresh (s_cwnd s) in
    let s := set_ssthresh s nss in
    let s := set_cwnd s (t3_cwnd nss) in
    set_notify s true
  else s.

(* ---------------------------------------------------------------- maybe_send_tlp_probe *)
(* mark the highest-key record that is not acked *)
Fixpoint tlp_mark (sent : list rec) : option (list rec * Z) :=
  match sent with
  | [] => None
  | r :: t =>
      match tlp_mark t with
      | Some (t', add) => Some (r :: t', add)
      | None =>
          if negb (r_acked r)
          then Some (mkR (r_tsn r) (r_d r) (r_emptied r) (r_tc r + 1) (r_miss r) (r_fr r) true (r_frt r) true (r_acked r) :: t,
                     if r_inflight r then 0 else rec_len r)
          else None
      end
  end.

Definition handle_tlp (s : st) : st :=
  if s_tlp_sent s then s
  else match tlp_mark (s_sent s) with
       | None => s
       | Some (sent', add) =>
           set_notify (set_tlp_sent (set_flight (set_sent s sent') (s_flight s + add)) true) true
       end.

(* ---------------------------------------------------------------- inbound in-order DATA (fast path) *)
(* handle_data with tsn = cumulative_tsn_ack + 1 and an empty reassembly queue: schedule_sack_delayed *)
Definition handle_data_next (s : st) : st :=
  let s := set_rcum s (wadd32 (s_rcum s) 1) in
  if s_sack_delayed s
  then set_notify (set_sack_needed (set_sack_delayed s false) true) true
  else set_notify (set_sack_delayed s true) true.
(* flush_expired_sack_delay at the top of the run loop (SACK_DELAY = 0: always expired) *)
Definition flush_sack_delay (s : st) : st :=
  if s_sack_delayed s then set_sack_needed (set_sack_delayed s false) true else s.

(* ---------------------------------------------------------------- send_data_raw: enqueue *)
Fixpoint ssn_get (m : list (Z * Z)) (id : Z) : Z :=
  match m with [] => 0 | (k, v) :: t => if k =? id then v else ssn_get t id end.
Fixpoint ssn_set (m : list (Z * Z)) (id v : Z) : list (Z * Z) :=
  match m with [] => [(id, v)] | (k, x) :: t => if k =? id then (k, v) :: t else (k, x) :: ssn_set t id v end.
Definition find_chan (c : cfg) (id : Z) : option chan := find (fun ch => ch_id ch =? id) (c_chans c).

Definition enqueue (c : cfg) (s : st) (sid ppid : Z) (data : list Z) : st :=
  let dc := match find_chan c sid with Some ch => Some (ch, ssn_get (s_ssn s) sid) | None => None end in
  let '(chunks, next') := send_data_raw dc sid ppid data in
  let s := match dc with Some _ => set_ssn s (ssn_set (s_ssn s) sid next') | None => s end in
  set_notify (set_outq s (s_outq s ++ chunks)) true.

(* ---------------------------------------------------------------- operations *)
Inductive op : Set :=
| OpSend (sid ppid : Z) (data : list Z)              (* send_data_raw: enqueue + notify *)
| OpTransmit                                         (* transmit() *)
| OpSack (now cum a_rwnd : Z) (gaps : list (Z * Z))  (* handle_sack (ends with its own transmit) *)
| OpT3                                               (* handle_timeout found an expired record *)
| OpTlp                                              (* maybe_send_tlp_probe *)
| OpHeartbeat (rnd : Z)                              (* send_heartbeat *)
| OpHeartbeatIn (info : list Z)                      (* handle_heartbeat: echo *)
| OpDataNext                                         (* in-order DATA arrived *)
| OpFlushSack.                                       (* flush_expired_sack_delay *)

Definition step (c : cfg) (s : st) (o : op) : st * list packet :=
  match o with
  | OpSend sid ppid data => (enqueue c s sid ppid data, [])
  | OpTransmit => transmit c s
  | OpSack now cum a_rwnd gaps => handle_sack c s now cum a_rwnd gaps
  | OpT3 => (handle_t3 s, [])
  | OpTlp => (handle_tlp s, [])
  | OpHeartbeat rnd => (s, [[WHeartbeat rnd]])
  | OpHeartbeatIn info => (s, [[WHeartbeatAck info]])
  | OpDataNext => (handle_data_next s, [])
  | OpFlushSack => (flush_sack_delay s, [])
  end.

Fixpoint run (c : cfg) (s : st) (ops : list op) : st * list packet :=
  match ops with
  | [] => (s, [])
  | o :: rest => let '(s1, out1) := step c s o in let '(s2, out2) := run c s1 rest in (s2, out1 ++ out2)
  end.

(* all chunks of a packet list, in emission order *)
Definition chunks_of (ps : list packet) : list wchunk := concat ps.
Definition fresh_tsns (ws : list wchunk) : list Z :=
  flat_map (fun w => match w with WData true t _ => [t] | _ => [] end) ws.
Definition retx_tsns (ws : list wchunk) : list Z :=
  flat_map (fun w => match w with WData false t _ => [t] | _ => [] end) ws.
Definition data_tsns (ws : list wchunk) : list Z :=
  flat_map (fun w => match w with WData _ t _ => [t] | _ => [] end) ws.
