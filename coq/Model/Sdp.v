(* C08 (part 1) -- model of the SDP printer and parser of src/sdp.rs at line level.

   SessionDescription::to_sdp_string  (SessionSection::write_lines, MediaSection::write_lines,
                                        Attribute::write_line, the print-time partition that emits
                                        the transport attributes before a=mid)
   SessionDescription::parse           (the per-line match, Attribute::from_line,
                                        MediaSection::apply_attribute with its direction / mid /
                                        connection special cases, "unknown prefix becomes a session
                                        attribute", the four mandatory lines)

   A description is the Rust struct (session header, session connection, session attributes,
   media sections {kind; mid; port; protocol; formats; direction; attributes; connection}).
   A line is the text between two line breaks, already split at the first '=' into prefix and
   value; the value of an `a=` line is kept as raw text (splitting at the first ':' is part of the
   model), the fields of v= / o= / t= / m= lines are kept structured (their whitespace tokenisation
   is done by the harness and is not modelled).  Strings are Coq [string]s (bytes).

   The tables (transport keys, direction names, mid / connection keys, the ':' separator) come from
   Gen/SdpTables.v, regenerated from the source on every run.  Definitions only. *)
From Coq Require Import ZArith List Bool String Ascii.
From RV Require Import Gen.SdpTables.
Import ListNotations.
Open Scope Z_scope.
Open Scope bool_scope.

(* ------------------------------------------------------------------ data *)
Record attr : Set := mkAttr { a_key : string; a_val : option string }.

Record sect : Set := mkSect {
  s_kind : kind; s_mid : string; s_port : Z; s_proto : string; s_formats : list string;
  s_dir : dir; s_attrs : list attr; s_conn : option string }.

(* v= / o= / s= / t= *)
Record hdr : Set := mkHdr {
  h_ver : Z; h_user : string; h_sid : Z; h_sver : Z; h_ip6 : bool; h_addr : string;
  h_name : string; h_t0 : Z; h_t1 : Z }.

Record desc : Set := mkDesc {
  d_hdr : hdr; d_conn : option string; d_attrs : list attr; d_sects : list sect }.

Inductive line : Set :=
| LV (v : Z)
| LO (user : string) (sid sver : Z) (ip6 : bool) (addr : string)
| LS (name : string)
| LT (t0 t1 : Z)
| LC (c : string)
| LA (payload : string)                                      (* text after "a=" *)
| LM (k : kind) (port : Z) (proto : string) (fmts : list string)
| LX (prefix value : string).                                (* any other prefix *)

(* ------------------------------------------------------------------ attribute lines *)
Definition sep_char : ascii := ascii_of_N (Z.to_N attr_sep).

(* Attribute::write_line (without the leading "a=") *)
Definition attr_payload (a : attr) : string :=
  match a_val a with
  | Some v => a_key a ++ String sep_char v
  | None => a_key a
  end.

(* Attribute::from_line: split at the first separator *)
Fixpoint split_sep (c : ascii) (s : string) : string * option string :=
  match s with
  | EmptyString => (EmptyString, None)
  | String a r =>
      if Ascii.eqb a c then (EmptyString, Some r)
      else let '(k, v) := split_sep c r in (String a k, v)
  end.
Definition from_line (payload : string) : attr :=
  let '(k, v) := split_sep sep_char payload in mkAttr k v.

Definition is_transport (a : attr) : bool := existsb (String.eqb (a_key a)) transport_keys.

(* ------------------------------------------------------------------ printer *)
Definition opt_line (c : option string) : list line :=
  match c with Some v => [LC v] | None => [] end.

Definition print_hdr_a (h : hdr) : list line :=
  [LV (h_ver h); LO (h_user h) (h_sid h) (h_sver h) (h_ip6 h) (h_addr h); LS (h_name h)].

Definition print_sess (d : desc) : list line :=
  print_hdr_a (d_hdr d) ++ opt_line (d_conn d) ++ [LT (h_t0 (d_hdr d)) (h_t1 (d_hdr d))]
  ++ map (fun a => LA (attr_payload a)) (d_attrs d).

Definition mid_line (m : string) : list line :=
  if String.eqb m EmptyString then [] else [LA (mid_key ++ String sep_char m)].

Definition print_sect (s : sect) : list line :=
  [LM (s_kind s) (s_port s) (s_proto s) (s_formats s)]
  ++ opt_line (s_conn s)
  ++ map (fun a => LA (attr_payload a)) (filter is_transport (s_attrs s))
  ++ mid_line (s_mid s)
  ++ [LA (dir_str (s_dir s))]
  ++ map (fun a => LA (attr_payload a)) (filter (fun a => negb (is_transport a)) (s_attrs s)).

Definition print (d : desc) : list line := print_sess d ++ flat_map print_sect (d_sects d).

(* ------------------------------------------------------------------ parser *)
Definition set_dir (s : sect) (d : dir) : sect :=
  mkSect (s_kind s) (s_mid s) (s_port s) (s_proto s) (s_formats s) d (s_attrs s) (s_conn s).
Definition set_mid (s : sect) (m : string) : sect :=
  mkSect (s_kind s) m (s_port s) (s_proto s) (s_formats s) (s_dir s) (s_attrs s) (s_conn s).
Definition set_conn (s : sect) (c : option string) : sect :=
  mkSect (s_kind s) (s_mid s) (s_port s) (s_proto s) (s_formats s) (s_dir s) (s_attrs s) c.
Definition push_attr (s : sect) (a : attr) : sect :=
  mkSect (s_kind s) (s_mid s) (s_port s) (s_proto s) (s_formats s) (s_dir s) (s_attrs s ++ [a]) (s_conn s).

(* MediaSection::apply_attribute *)
Definition apply_attribute (s : sect) (a : attr) : sect :=
  match dir_of_key (a_key a) with
  | Some d => set_dir s d
  | None =>
      if String.eqb (a_key a) mid_key then
        match a_val a with Some v => set_mid s v | None => s end
      else if String.eqb (a_key a) connection_key then set_conn s (a_val a)
      else push_attr s a
  end.

(* MediaSection::from_m_line (fields already tokenised) *)
Definition fresh_sect (k : kind) (port : Z) (proto : string) (fmts : list string) : sect :=
  mkSect k EmptyString port proto fmts dir_default [] None.

Definition hdr_default : hdr :=
  mkHdr 0 "-" 0 0 false "0.0.0.0" "-" 0 0.

Record pst : Set := mkP {
  p_hdr : hdr; p_sv : bool; p_so : bool; p_ss : bool; p_st : bool;
  p_conn : option string; p_sattrs : list attr; p_cur : option sect; p_done : list sect }.

Definition p_init : pst := mkP hdr_default false false false false None [] None [].

Definition flush (cur : option sect) (done : list sect) : list sect :=
  match cur with Some m => done ++ [m] | None => done end.

(* one iteration of the loop of SessionDescription::parse; None = the parser returns Err *)
Definition step (p : pst) (l : line) : option pst :=
  let h := p_hdr p in
  match l with
  | LV v => Some (mkP (mkHdr v (h_user h) (h_sid h) (h_sver h) (h_ip6 h) (h_addr h) (h_name h) (h_t0 h) (h_t1 h))
                      true (p_so p) (p_ss p) (p_st p) (p_conn p) (p_sattrs p) (p_cur p) (p_done p))
  | LO u a b i ad => Some (mkP (mkHdr (h_ver h) u a b i ad (h_name h) (h_t0 h) (h_t1 h))
                      (p_sv p) true (p_ss p) (p_st p) (p_conn p) (p_sattrs p) (p_cur p) (p_done p))
  | LS n => Some (mkP (mkHdr (h_ver h) (h_user h) (h_sid h) (h_sver h) (h_ip6 h) (h_addr h) n (h_t0 h) (h_t1 h))
                      (p_sv p) (p_so p) true (p_st p) (p_conn p) (p_sattrs p) (p_cur p) (p_done p))
  | LT a b => Some (mkP (mkHdr (h_ver h) (h_user h) (h_sid h) (h_sver h) (h_ip6 h) (h_addr h) (h_name h) a b)
                      (p_sv p) (p_so p) (p_ss p) true (p_conn p) (p_sattrs p) (p_cur p) (p_done p))
  | LC c =>
      match p_cur p with
      | Some m => Some (mkP h (p_sv p) (p_so p) (p_ss p) (p_st p) (p_conn p) (p_sattrs p) (Some (set_conn m (Some c))) (p_done p))
      | None => Some (mkP h (p_sv p) (p_so p) (p_ss p) (p_st p) (Some c) (p_sattrs p) None (p_done p))
      end
  | LA payload =>
      let a := from_line payload in
      match p_cur p with
      | Some m => Some (mkP h (p_sv p) (p_so p) (p_ss p) (p_st p) (p_conn p) (p_sattrs p) (Some (apply_attribute m a)) (p_done p))
      | None => Some (mkP h (p_sv p) (p_so p) (p_ss p) (p_st p) (p_conn p) (p_sattrs p ++ [a]) None (p_done p))
      end
  | LM k port proto fmts =>
      match fmts with
      | [] => None                                   (* "media line missing formats" *)
      | _ :: _ => Some (mkP h (p_sv p) (p_so p) (p_ss p) (p_st p) (p_conn p) (p_sattrs p)
                            (Some (fresh_sect k port proto fmts)) (flush (p_cur p) (p_done p)))
      end
  | LX pre v =>
      Some (mkP h (p_sv p) (p_so p) (p_ss p) (p_st p) (p_conn p) (p_sattrs p ++ [mkAttr pre (Some v)]) (p_cur p) (p_done p))
  end.

Fixpoint run (p : pst) (ls : list line) : option pst :=
  match ls with
  | [] => Some p
  | l :: rest => match step p l with Some p' => run p' rest | None => None end
  end.

Definition finish (p : pst) : option desc :=
  if p_sv p && p_so p && p_ss p && p_st p
  then Some (mkDesc (p_hdr p) (p_conn p) (p_sattrs p) (flush (p_cur p) (p_done p)))
  else None.

Definition parse (ls : list line) : option desc :=
  match run p_init ls with Some p => finish p | None => None end.

(* ------------------------------------------------------------------ the normal form reached by print;parse *)
Definition is_special (a : attr) : bool :=
  match dir_of_key (a_key a) with
  | Some _ => true
  | None => String.eqb (a_key a) mid_key || String.eqb (a_key a) connection_key
  end.

(* the last direction-named attribute wins over the section's own direction *)
Fixpoint last_dir (l : list attr) (d : dir) : dir :=
  match l with
  | [] => d
  | a :: r => last_dir r (match dir_of_key (a_key a) with Some d' => d' | None => d end)
  end.
(* the last `mid` attribute that carries a value wins; direction names shadow nothing here because
   apply_attribute tests the direction names first and those are different from "mid" *)
Fixpoint last_mid (l : list attr) (m : string) : string :=
  match l with
  | [] => m
  | a :: r => last_mid r (match dir_of_key (a_key a) with
                          | Some _ => m
                          | None => if String.eqb (a_key a) mid_key
                                    then match a_val a with Some v => v | None => m end else m
                          end)
  end.
Fixpoint last_conn (l : list attr) (c : option string) : option string :=
  match l with
  | [] => c
  | a :: r => last_conn r (match dir_of_key (a_key a) with
                           | Some _ => c
                           | None => if String.eqb (a_key a) mid_key then c
                                     else if String.eqb (a_key a) connection_key then a_val a else c
                           end)
  end.

Definition media_attrs (s : sect) : list attr := filter (fun a => negb (is_transport a)) (s_attrs s).
Definition transport_attrs (s : sect) : list attr := filter is_transport (s_attrs s).

Definition normalise_sect (s : sect) : sect :=
  mkSect (s_kind s) (last_mid (media_attrs s) (s_mid s)) (s_port s) (s_proto s) (s_formats s)
         (last_dir (media_attrs s) (s_dir s))
         (transport_attrs s ++ filter (fun a => negb (is_special a)) (media_attrs s))
         (last_conn (media_attrs s) (s_conn s)).

Definition normalise (d : desc) : desc :=
  mkDesc (d_hdr d) (d_conn d) (d_attrs d) (map normalise_sect (d_sects d)).

(* ------------------------------------------------------------------ predicates used by the theorems *)
Fixpoint no_sep (c : ascii) (s : string) : bool :=
  match s with
  | EmptyString => true
  | String a r => negb (Ascii.eqb a c) && no_sep c r
  end.
Definition key_ok (a : attr) : bool := no_sep sep_char (a_key a).
Definition nonempty {A} (l : list A) : bool := match l with [] => false | _ => true end.

(* what the line-level model needs of a description: attribute keys contain no ':' and every
   m= line lists at least one format *)
Definition wf_sect (s : sect) : bool := forallb key_ok (s_attrs s) && nonempty (s_formats s).
Definition wf_desc (d : desc) : bool := forallb key_ok (d_attrs d) && forallb wf_sect (d_sects d).

(* no attribute of a media section is named like a direction, `mid` or `connection`
   (true of everything the parser returns and of everything build_description builds) *)
Definition plain_sect (s : sect) : bool := forallb (fun a => negb (is_special a)) (s_attrs s).
Definition plain (d : desc) : bool := forallb plain_sect (d_sects d).

(* the listed finding F16: a transport attribute stored after a media attribute *)
Definition ordered_sect (s : sect) : Prop := transport_attrs s ++ media_attrs s = s_attrs s.
Definition ordered (d : desc) : Prop := Forall ordered_sect (d_sects d).

(* ------------------------------------------------------------------ boolean equality (model runner) *)
Definition opt_eqb {A} (e : A -> A -> bool) (a b : option A) : bool :=
  match a, b with
  | None, None => true
  | Some x, Some y => e x y
  | _, _ => false
  end.
Fixpoint list_eqb {A} (e : A -> A -> bool) (a b : list A) : bool :=
  match a, b with
  | [], [] => true
  | x :: a', y :: b' => e x y && list_eqb e a' b'
  | _, _ => false
  end.
Definition attr_eqb (a b : attr) : bool :=
  String.eqb (a_key a) (a_key b) && opt_eqb String.eqb (a_val a) (a_val b).
Definition sect_eqb (a b : sect) : bool :=
  kind_eqb (s_kind a) (s_kind b) && String.eqb (s_mid a) (s_mid b) && (s_port a =? s_port b)
  && String.eqb (s_proto a) (s_proto b) && list_eqb String.eqb (s_formats a) (s_formats b)
  && dir_eqb (s_dir a) (s_dir b) && list_eqb attr_eqb (s_attrs a) (s_attrs b)
  && opt_eqb String.eqb (s_conn a) (s_conn b).
Definition hdr_eqb (a b : hdr) : bool :=
  (h_ver a =? h_ver b) && String.eqb (h_user a) (h_user b) && (h_sid a =? h_sid b) && (h_sver a =? h_sver b)
  && Bool.eqb (h_ip6 a) (h_ip6 b) && String.eqb (h_addr a) (h_addr b) && String.eqb (h_name a) (h_name b)
  && (h_t0 a =? h_t0 b) && (h_t1 a =? h_t1 b).
Definition desc_eqb (a b : desc) : bool :=
  hdr_eqb (d_hdr a) (d_hdr b) && opt_eqb String.eqb (d_conn a) (d_conn b)
  && list_eqb attr_eqb (d_attrs a) (d_attrs b) && list_eqb sect_eqb (d_sects a) (d_sects b).
Definition line_eqb (a b : line) : bool :=
  match a, b with
  | LV x, LV y => x =? y
  | LO u a1 b1 i ad, LO u' a2 b2 i' ad' =>
      String.eqb u u' && (a1 =? a2) && (b1 =? b2) && Bool.eqb i i' && String.eqb ad ad'
  | LS x, LS y => String.eqb x y
  | LT a1 b1, LT a2 b2 => (a1 =? a2) && (b1 =? b2)
  | LC x, LC y => String.eqb x y
  | LA x, LA y => String.eqb x y
  | LM k p pr f, LM k' p' pr' f' => kind_eqb k k' && (p =? p') && String.eqb pr pr' && list_eqb String.eqb f f'
  | LX a1 b1, LX a2 b2 => String.eqb a1 a2 && String.eqb b1 b2
  | _, _ => false
  end.
