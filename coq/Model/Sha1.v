(* Concrete SHA-1 (FIPS 180-4), HMAC (RFC 2104) and MD5 (RFC 1321) over byte lists.
   Used ONLY by the model runner (Run/C16Run.v) to interpret the symbolic `mac` / `hash`
   arguments of the STUN theorems so that model output can be compared byte for byte with the
   implementation (which calls the RustCrypto `hmac`/`sha1`/`md-5` crates).  No theorem in
   Props/C16.v depends on these definitions being SHA-1/MD5; the test vectors below only
   guard against typing mistakes. *)
From Coq Require Import ZArith List Bool.
From RV Require Import Model.StunLib.
Import ListNotations.
Open Scope Z_scope.

Definition w32 (x : Z) : Z := x mod 4294967296.
Definition rotl (n x : Z) : Z := w32 (Z.lor (Z.shiftl x n) (Z.shiftr x (32 - n))).

Fixpoint chunks (fuel : nat) (n : nat) (l : list Z) : list (list Z) :=
  match fuel with
  | O => []
  | S f => match l with [] => [] | _ => firstn n l :: chunks f n (skipn n l) end
  end.

Fixpoint words_be (l : list Z) : list Z :=
  match l with
  | a :: b :: c :: d :: r => of_be32 a b c d :: words_be r
  | _ => []
  end.

(* ---- SHA-1 *)
Definition sha1_pad (m : list Z) : list Z :=
  let n := zlen m in
  m ++ [128] ++ zeros ((55 - n) mod 64) ++ be64 (8 * n).

Fixpoint sha1_extend (n : nat) (ws : list Z) : list Z :=   (* ws: most recent word first *)
  match n with
  | O => ws
  | S k =>
    let w := rotl 1 (Z.lxor (Z.lxor (nth 2 ws 0) (nth 7 ws 0)) (Z.lxor (nth 13 ws 0) (nth 15 ws 0))) in
    sha1_extend k (w :: ws)
  end.

Definition sha1_f (t : Z) (b c d : Z) : Z :=
  if t <? 20 then Z.lxor d (Z.land b (Z.lxor c d))
  else if t <? 40 then Z.lxor (Z.lxor b c) d
  else if t <? 60 then Z.lor (Z.lor (Z.land b c) (Z.land b d)) (Z.land c d)
  else Z.lxor (Z.lxor b c) d.
Definition sha1_k (t : Z) : Z :=
  if t <? 20 then 1518500249 else if t <? 40 then 1859775393 else if t <? 60 then 2400959708 else 3395469782.

Definition st5 : Set := (Z * Z * Z * Z * Z)%type.

Fixpoint sha1_rounds (ws : list Z) (t : Z) (s : st5) : st5 :=
  match ws with
  | [] => s
  | w :: r =>
    let '(a, b, c, d, e) := s in
    let tmp := w32 (rotl 5 a + sha1_f t b c d + e + sha1_k t + w) in
    sha1_rounds r (t + 1) (tmp, a, rotl 30 b, c, d)
  end.

Definition sha1_block (s : st5) (blk : list Z) : st5 :=
  let w := rev (sha1_extend 64 (rev (words_be blk))) in
  let '(a, b, c, d, e) := s in
  let '(a', b', c', d', e') := sha1_rounds w 0 s in
  (w32 (a + a'), w32 (b + b'), w32 (c + c'), w32 (d + d'), w32 (e + e')).

Definition sha1 (m : list Z) : list Z :=
  let p := sha1_pad m in
  let '(a, b, c, d, e) :=
    fold_left sha1_block (chunks (length p) 64 p)
              (1732584193, 4023233417, 2562383102, 271733878, 3285377520) in
  be32 a ++ be32 b ++ be32 c ++ be32 d ++ be32 e.

(* ---- HMAC with a 64-byte block hash *)
Definition hmac (h : list Z -> list Z) (key msg : list Z) : list Z :=
  let k0 := if 64 <? zlen key then h key else key in
  let k := k0 ++ zeros (64 - zlen k0) in
  h (map (fun b => Z.lxor b 92) k ++ h (map (fun b => Z.lxor b 54) k ++ msg)).

Definition hmac_sha1 (key msg : list Z) : list Z := hmac sha1 key msg.

(* ---- MD5 *)
Definition le32 (x : Z) : list Z := [x mod 256; (x / 256) mod 256; (x / 65536) mod 256; (x / 16777216) mod 256].
Definition le64 (x : Z) : list Z := le32 (x mod 4294967296) ++ le32 (x / 4294967296).
Fixpoint words_le (l : list Z) : list Z :=
  match l with
  | a :: b :: c :: d :: r => of_be32 d c b a :: words_le r
  | _ => []
  end.
Definition md5_pad (m : list Z) : list Z :=
  let n := zlen m in m ++ [128] ++ zeros ((55 - n) mod 64) ++ le64 (8 * n).

Definition md5_s : list Z :=
  [7;12;17;22;7;12;17;22;7;12;17;22;7;12;17;22;
   5;9;14;20;5;9;14;20;5;9;14;20;5;9;14;20;
   4;11;16;23;4;11;16;23;4;11;16;23;4;11;16;23;
   6;10;15;21;6;10;15;21;6;10;15;21;6;10;15;21].
Definition md5_k : list Z :=
  [3614090360;3905402710;606105819;3250441966;4118548399;1200080426;2821735955;4249261313;
   1770035416;2336552879;4294925233;2304563134;1804603682;4254626195;2792965006;1236535329;
   4129170786;3225465664;643717713;3921069994;3593408605;38016083;3634488961;3889429448;
   568446438;3275163606;4107603335;1163531501;2850285829;4243563512;1735328473;2368359562;
   4294588738;2272392833;1839030562;4259657740;2763975236;1272893353;4139469664;3200236656;
   681279174;3936430074;3572445317;76029189;3654602809;3873151461;530742520;3299628645;
   4096336452;1126891415;2878612391;4237533241;1700485571;2399980690;4293915773;2240044497;
   1873313359;4264355552;2734768916;1309151649;4149444226;3174756917;718787259;3951481745].

Definition lnot32 (x : Z) : Z := 4294967295 - x.

Fixpoint md5_rounds (n : nat) (i : Z) (m : list Z) (s : Z * Z * Z * Z) : Z * Z * Z * Z :=
  match n with
  | O => s
  | S k =>
    let '(a, b, c, d) := s in
    let '(f, g) :=
      if i <? 16 then (Z.lor (Z.land b c) (Z.land (lnot32 b) d), i)
      else if i <? 32 then (Z.lor (Z.land d b) (Z.land (lnot32 d) c), (5 * i + 1) mod 16)
      else if i <? 48 then (Z.lxor (Z.lxor b c) d, (3 * i + 5) mod 16)
      else (Z.lxor c (Z.lor b (lnot32 d)), (7 * i) mod 16) in
    let f' := w32 (f + a + nth (Z.to_nat i) md5_k 0 + nth (Z.to_nat g) m 0) in
    md5_rounds k (i + 1) m (d, w32 (b + rotl (nth (Z.to_nat i) md5_s 0) f'), b, c)
  end.

Definition md5_block (s : Z * Z * Z * Z) (blk : list Z) : Z * Z * Z * Z :=
  let '(a, b, c, d) := s in
  let '(a', b', c', d') := md5_rounds 64 0 (words_le blk) s in
  (w32 (a + a'), w32 (b + b'), w32 (c + c'), w32 (d + d')).

Definition md5 (m : list Z) : list Z :=
  let p := md5_pad m in
  let '(a, b, c, d) := fold_left md5_block (chunks (length p) 64 p) (1732584193, 4023233417, 2562383102, 271733878) in
  le32 a ++ le32 b ++ le32 c ++ le32 d.

(* ---- test vectors *)
Definition ascii_abc : list Z := [97; 98; 99].
Example sha1_abc : sha1 ascii_abc =
  [169;153;62;54;71;6;129;106;186;62;37;113;120;80;194;108;156;208;216;157].
Proof. vm_compute. reflexivity. Qed.
Example sha1_empty : sha1 [] =
  [218;57;163;238;94;107;75;13;50;85;191;239;149;96;24;144;175;216;7;9].
Proof. vm_compute. reflexivity. Qed.
(* RFC 2202 test case 2: key "Jefe", data "what do ya want for nothing?" *)
Example hmac_sha1_rfc2202_2 :
  hmac_sha1 [74;101;102;101]
    [119;104;97;116;32;100;111;32;121;97;32;119;97;110;116;32;102;111;114;32;110;111;116;104;105;110;103;63] =
  [239;252;223;106;229;235;47;162;210;116;22;213;241;132;223;156;37;154;124;121].
Proof. vm_compute. reflexivity. Qed.
Example md5_abc : md5 ascii_abc = [144;1;80;152;60;210;79;176;214;150;63;125;40;225;127;114].
Proof. vm_compute. reflexivity. Qed.
Example md5_empty : md5 [] = [212;29;140;217;143;0;178;4;233;128;9;152;236;248;66;126].
Proof. vm_compute. reflexivity. Qed.
Example crc32_check : crc32 [49;50;51;52;53;54;55;56;57] = 3421780262.   (* "123456789" -> 0xCBF43926 *)
Proof. vm_compute. reflexivity. Qed.
