(* C09 -- model of the signalling surface of PeerConnection (src/peer_connection.rs):
   create_offer, create_answer, set_local_description, set_remote_description, close, with the
   ORDER OF EFFECTS of the code: what is mutated before the state check, what after, which
   fallible steps come after the transition.

   State: signaling state, stored local/remote descriptions, the mid counter `next_mid`, the
   transceiver list with each transceiver's negotiated parameters (kind, mid, direction,
   payload map, extmap), whether a DTLS transport exists and the cached remote fingerprint.

   Abstraction of descriptions (done by the harness, checked by the correspondence run):
   type; an identity token of the whole description; a token of what
   `media_parameters_changed` compares (session connection + session attributes + media
   sections); the DTLS fingerprint as the code classifies it; per media section kind, mid,
   direction and tokens of `extract_payload_map(section)` / `extract_extmap(section)`
   (token 0 = the empty map).

   The signalling table (required state / target state per call and description type),
   `validate_sdp_type`, the enums and the three order-of-effects facts
   (`set_local_check_first`, `set_remote_next_mid_after_check`, `set_remote_fp_check_early`) and
   the presence of the restore-on-error guards (`*_restores_on_error`)
   are GENERATED from the source (Gen/Signaling.v); the step functions below branch on them, so
   the model follows whichever order the code has and the theorems are re-checked against it.

   Environment: `envf` on a call says that the transport step reached by this call failed
   (socket bind / ICE start error), `EnvDtlsStarted` that the DTLS transport came into being.

   Definitions only; proofs live in Proofs/SignalingProofs.v.
   Not modelled: the content of generated offers/answers (C08), ICE role, DTLS role, receiver
   SSRCs, simulcast, RTX, per-media transports, events. *)
From Coq Require Import ZArith List Bool.
From RV Require Import Lib.Wrap.
From RV Require Import Gen.Signaling.
Import ListNotations.
Open Scope Z_scope.
Open Scope bool_scope.

Notation Stable := SignalingState_Stable.
Notation HaveLocalOffer := SignalingState_HaveLocalOffer.
Notation HaveRemoteOffer := SignalingState_HaveRemoteOffer.
Notation Closed := SignalingState_Closed.
Notation Offer := SdpType_Offer.
Notation Answer := SdpType_Answer.
Notation Pranswer := SdpType_Pranswer.
Notation Rollback := SdpType_Rollback.
Notation WebRtc := TransportMode_WebRtc.
Notation Srtp := TransportMode_Srtp.
Notation Rtp := TransportMode_Rtp.
Notation Audio := MediaKind_Audio.
Notation Video := MediaKind_Video.
Notation Application := MediaKind_Application.
Notation Image := MediaKind_Image.
Notation SendRecv := TransceiverDirection_SendRecv.
Notation SendOnly := TransceiverDirection_SendOnly.
Notation RecvOnly := TransceiverDirection_RecvOnly.
Notation Inactive := TransceiverDirection_Inactive.

(* ---------------------------------------------------------------- data *)
(* a=mid value: "" | the canonical decimal of a u16 | any other string (interned) *)
Inductive midv : Set := MEmpty | MNum (n : Z) | MStr (id : Z).
Definition midv_eqb (a b : midv) : bool :=
  match a, b with
  | MEmpty, MEmpty => true
  | MNum x, MNum y => x =? y
  | MStr x, MStr y => x =? y
  | _, _ => false
  end.
Definition mid_is_empty (m : midv) : bool := match m with MEmpty => true | _ => false end.
Definition omid_is (o : option midv) (m : midv) : bool :=
  match o with Some x => midv_eqb x m | None => false end.
Definition omid_none (o : option midv) : bool := match o with None => true | Some _ => false end.

Record section : Set := mkSec {
  s_kind : MediaKind; s_mid : midv; s_dir : TransceiverDirection; s_pm : Z; s_em : Z }.

(* desc.dtls_fingerprint(): Ok(None) | Ok(Some sha-256 v) | Ok(Some other algorithm) | Err *)
Inductive fpv : Set := FpNone | FpSha (v : Z) | FpOtherAlg | FpInvalid.

Record desc : Set := mkDesc {
  d_ty : SdpType; d_id : Z; d_media : Z; d_fp : fpv; d_secs : list section }.

Record tx : Set := mkTx {
  t_kind : MediaKind; t_mid : option midv; t_dir : TransceiverDirection; t_pm : Z; t_em : Z }.

Record st : Set := mkSt {
  sig : SignalingState;
  local : option desc;
  remote : option desc;
  next_mid : Z;
  txs : list tx;
  dtls_started : bool;
  stored_fp : option Z }.

Definition init (l : list tx) : st := mkSt Stable None None 0 l false None.

Definition set_sig (s : st) (q : SignalingState) : st :=
  mkSt q (local s) (remote s) (next_mid s) (txs s) (dtls_started s) (stored_fp s).
Definition set_local_desc (s : st) (d : option desc) : st :=
  mkSt (sig s) d (remote s) (next_mid s) (txs s) (dtls_started s) (stored_fp s).
Definition set_remote_desc (s : st) (d : option desc) : st :=
  mkSt (sig s) (local s) d (next_mid s) (txs s) (dtls_started s) (stored_fp s).
Definition set_next_mid (s : st) (n : Z) : st :=
  mkSt (sig s) (local s) (remote s) n (txs s) (dtls_started s) (stored_fp s).
Definition set_txs (s : st) (l : list tx) : st :=
  mkSt (sig s) (local s) (remote s) (next_mid s) l (dtls_started s) (stored_fp s).
Definition set_txs_mid (s : st) (p : list tx * Z) : st :=
  mkSt (sig s) (local s) (remote s) (snd p) (fst p) (dtls_started s) (stored_fp s).
Definition set_dtls_started (s : st) (b : bool) : st :=
  mkSt (sig s) (local s) (remote s) (next_mid s) (txs s) b (stored_fp s).
Definition set_stored_fp (s : st) (f : option Z) : st :=
  mkSt (sig s) (local s) (remote s) (next_mid s) (txs s) (dtls_started s) f.

Inductive err : Set := EInvalidState | ENotImplemented | EInvalidConfig | EInternal.
Inductive result : Set := Ok | Err (e : err).
Definition is_err (r : result) : bool := match r with Ok => false | Err _ => true end.

Inductive call : Set :=
| CreateOffer (envf : bool)
| CreateAnswer (envf : bool)
| SetLocal (d : desc)
| SetRemote (d : desc) (envf : bool)
| Close
| EnvDtlsStarted.

(* ---------------------------------------------------------------- transceiver list helpers *)
Fixpoint find_from (p : nat -> tx -> bool) (i : nat) (l : list tx) : option nat :=
  match l with
  | [] => None
  | t :: r => if p i t then Some i else find_from p (S i) r
  end.
Definition find_idx (p : nat -> tx -> bool) (l : list tx) : option nat := find_from p 0%nat l.
Definition used_in (u : list nat) (i : nat) : bool := existsb (Nat.eqb i) u.

Fixpoint upd_at (i : nat) (f : tx -> tx) (l : list tx) : list tx :=
  match l, i with
  | [], _ => []
  | t :: r, O => f t :: r
  | t :: r, S j => t :: upd_at j f r
  end.

Definition tx_set_mid (m : midv) (t : tx) : tx :=
  mkTx (t_kind t) (Some m) (t_dir t) (t_pm t) (t_em t).
(* update_payload_map only when the extracted map is non-empty; update_extmap always;
   set_direction only on the remote paths *)
Definition tx_apply (s : section) (with_dir : bool) (t : tx) : tx :=
  mkTx (t_kind t) (t_mid t) (if with_dir then s_dir s else t_dir t)
       (if s_pm s =? 0 then t_pm t else s_pm s) (s_em s).

Definition is_app_or_image (k : MediaKind) : bool :=
  match k with Application | Image => true | _ => false end.

(* allocate_mid: next_mid.fetch_add(K) on an AtomicU16 (wraps); the mid is the old value *)
Definition alloc_next (nm : Z) : Z := cast_u16 (nm + allocate_mid_step).

(* build_description(Offer): `for t in &transceivers { ensure_mid(t) }` *)
Fixpoint ensure_mids (l : list tx) (nm : Z) : list tx * Z :=
  match l with
  | [] => ([], nm)
  | t :: r =>
      match t_mid t with
      | Some _ => let p := ensure_mids r nm in (t :: fst p, snd p)
      | None => let p := ensure_mids r (alloc_next nm) in (tx_set_mid (MNum nm) t :: fst p, snd p)
      end
  end.

Definition ensure_mid_at (i : nat) (p : list tx * Z) : list tx * Z :=
  match nth_error (fst p) i with
  | Some t => match t_mid t with
              | Some _ => p
              | None => (upd_at i (tx_set_mid (MNum (snd p))) (fst p), alloc_next (snd p))
              end
  | None => p
  end.

(* set_local_description(offer) with a local description already stored ("reinvite"):
   per section, the transceiver with that mid, else the first mid-less one of the kind (which
   gets the mid); payload map (if non-empty) and extmap are taken from the section *)
Fixpoint local_reinvite (secs : list section) (l : list tx) : list tx :=
  match secs with
  | [] => l
  | s :: r =>
      let l1 :=
        match find_idx (fun _ t => omid_is (t_mid t) (s_mid s)) l with
        | Some i => upd_at i (tx_apply s false) l
        | None =>
            match find_idx (fun _ t => omid_none (t_mid t) && MediaKind_eqb (t_kind t) (s_kind s)) l with
            | Some i => upd_at i (fun t => tx_apply s false (tx_set_mid (s_mid s) t)) l
            | None => l
            end
        end in
      local_reinvite r l1
  end.

(* set_local_description(offer) without a stored local description: only mid assignment *)
Fixpoint local_initial (secs : list section) (l : list tx) : list tx :=
  match secs with
  | [] => l
  | s :: r =>
      let l1 :=
        if existsb (fun t => omid_is (t_mid t) (s_mid s)) l then l
        else match find_idx (fun _ t => omid_none (t_mid t) && MediaKind_eqb (t_kind t) (s_kind s)) l with
             | Some i => upd_at i (tx_set_mid (s_mid s)) l
             | None => l
             end in
      local_initial r l1
  end.

(* matched_rtp_media_sections: audio/video sections only; by mid when the section has one
   (any kind), else / otherwise the first unused transceiver of the kind *)
Fixpoint matched_rtp (secs : list section) (l : list tx) (used : list nat) : list (nat * section) :=
  match secs with
  | [] => []
  | s :: r =>
      if is_app_or_image (s_kind s) then matched_rtp r l used
      else
        let f1 := if mid_is_empty (s_mid s) then None
                  else find_idx (fun i t => negb (used_in used i) && omid_is (t_mid t) (s_mid s)) l in
        let f := match f1 with
                 | Some i => Some i
                 | None => find_idx (fun i t => negb (used_in used i) && MediaKind_eqb (t_kind t) (s_kind s)) l
                 end in
        match f with
        | Some i => (i, s) :: matched_rtp r l (i :: used)
        | None => matched_rtp r l used
        end
  end.

Definition apply_matched (m : list (nat * section)) (l : list tx) : list tx :=
  fold_left (fun acc p => upd_at (fst p) (tx_apply (snd p) true) acc) m l.

(* set_remote_description(offer): match / adopt / create a transceiver per section *)
Fixpoint apply_offer (secs : list section) (l : list tx) (used : list nat) : list tx :=
  match secs with
  | [] => l
  | s :: r =>
      let mid := s_mid s in
      let f1 := if mid_is_empty mid then None
                else find_idx (fun i t => negb (used_in used i) && MediaKind_eqb (t_kind t) (s_kind s)
                                          && omid_is (t_mid t) mid) l in
      match f1 with
      | Some i => apply_offer r (upd_at i (tx_apply s true) l) (i :: used)
      | None =>
          match find_idx (fun i t => negb (used_in used i) && omid_none (t_mid t)
                                     && MediaKind_eqb (t_kind t) (s_kind s)) l with
          | Some i => apply_offer r (upd_at i (fun t => tx_apply s true (tx_set_mid mid t)) l) (i :: used)
          | None =>
              match (if mid_is_empty mid
                     then find_idx (fun i t => negb (used_in used i) && MediaKind_eqb (t_kind t) (s_kind s)) l
                     else None) with
              | Some i => apply_offer r (upd_at i (tx_apply s true) l) (i :: used)
              | None => apply_offer r (l ++ [mkTx (s_kind s) (Some mid) (s_dir s) 0 0]) (length l :: used)
              end
          end
      end
  end.

(* build_description(Answer): one transceiver per remote section, by mid, or by kind for
   mid-less sections; None = "No transceiver found for mid .. in answer generation" *)
Fixpoint order_answer (secs : list section) (l : list tx) (used : list nat) : option (list nat) :=
  match secs with
  | [] => Some []
  | s :: r =>
      let f1 := if mid_is_empty (s_mid s) then None
                else find_idx (fun i t => negb (used_in used i) && omid_is (t_mid t) (s_mid s)) l in
      let f := match f1 with
               | Some i => Some i
               | None => if mid_is_empty (s_mid s)
                         then find_idx (fun i t => negb (used_in used i) && MediaKind_eqb (t_kind t) (s_kind s)) l
                         else None
               end in
      match f with
      | Some i => match order_answer r l (i :: used) with Some o => Some (i :: o) | None => None end
      | None => None
      end
  end.

(* next_mid.fetch_max(bump mid_val) for every numeric mid; `bump` is `saturating_add(K)` or `+ K`
   on u16 (generated).  For the latter the release (wrapping) semantics is modelled; its
   debug-profile overflow panic at 65535 was finding F5 of C07 (fixed by 4feb777). *)
Definition bump_mid (n : Z) : Z :=
  if next_mid_bump_saturating then sat_u16 (n + next_mid_bump) else cast_u16 (n + next_mid_bump).
Definition bump_next_mid (secs : list section) (nm : Z) : Z :=
  fold_left (fun acc s => match s_mid s with MNum n => Z.max acc (bump_mid n) | _ => acc end) secs nm.

(* ---------------------------------------------------------------- the calls *)
Definition check_rule (rule : option (SignalingState * option SignalingState)) (s : st) : result * st :=
  match rule with
  | None => (Err ENotImplemented, s)
  | Some (req, nxt) =>
      if SignalingState_eqb (sig s) req
      then (Ok, match nxt with Some q => set_sig s q | None => s end)
      else (Err EInvalidState, s)
  end.

Definition not_wrtc (m : TransportMode) : bool := negb (TransportMode_eqb m WebRtc).

(* restore-on-error guard (signaling_snapshot / restore_signaling, commit of the C09 extension round):
   when the guarded work returns Err, the signaling state (unless the connection was closed in
   the meantime), the stored remote description, next_mid, the cached fingerprint, the
   transceiver list and every transceiver's mid / direction / payload map / extmap are put back.
   The stored local description and the existence of a DTLS transport are not touched. *)
Definition restore (s s' : st) : st :=
  mkSt (if SignalingState_eqb (sig s') Closed then sig s' else sig s)
       (local s') (remote s) (next_mid s) (txs s) (dtls_started s') (stored_fp s).
Definition guard (on : bool) (s : st) (p : st * result) : st * result :=
  if on && is_err (snd p) then (restore s (fst p), snd p) else p.

Definition create_offer_raw (m : TransportMode) (s : st) (envf : bool) : st * result :=
  if negb (SignalingState_eqb (sig s) create_offer_required) then (s, Err EInvalidState)
  else match txs s with
       | [] => (s, Err EInvalidState)
       | _ => let s1 := set_txs_mid s (ensure_mids (txs s) (next_mid s)) in
              (* RTP/SRTP: the section loop binds the media socket after the mids are assigned *)
              if not_wrtc m && envf then (s1, Err EInternal) else (s1, Ok)
       end.

Definition create_answer_raw (m : TransportMode) (s : st) (envf : bool) : st * result :=
  if negb (SignalingState_eqb (sig s) create_answer_required) then (s, Err EInvalidState)
  else match txs s with
       | [] => (s, Err EInvalidState)
       | _ =>
           match remote s with
           | None => (s, Err EInvalidState)
           | Some r =>
               match order_answer (d_secs r) (txs s) [] with
               | None => (s, Err EInternal)
               | Some [] => (s, Ok)
               | Some (i :: o) =>
                   if not_wrtc m && envf
                   then (set_txs_mid s (ensure_mid_at i (txs s, next_mid s)), Err EInternal)
                   else (set_txs_mid s (fold_left (fun p j => ensure_mid_at j p) (i :: o) (txs s, next_mid s)), Ok)
               end
           end
       end.

Definition create_offer_gen (g : bool) (m : TransportMode) (s : st) (envf : bool) : st * result :=
  guard g s (create_offer_raw m s envf).
Definition create_offer := create_offer_gen create_offer_restores_on_error.
Definition create_answer_gen (g : bool) (m : TransportMode) (s : st) (envf : bool) : st * result :=
  guard g s (create_answer_raw m s envf).
Definition create_answer := create_answer_gen create_answer_restores_on_error.

Definition local_mutate (d : desc) (s : st) : st :=
  match d_ty d with
  | Offer => set_txs s (match local s with
                        | Some _ => local_reinvite (d_secs d) (txs s)
                        | None => local_initial (d_secs d) (txs s)
                        end)
  | _ => s
  end.

(* `check_first` = the state check precedes the transceiver mutation (the order after fix e54053c) *)
Definition set_local_gen (check_first : bool) (s : st) (d : desc) : st * result :=
  if negb (validate_sdp_type_ok (d_ty d)) then (s, Err ENotImplemented)
  else if check_first then
    match check_rule (set_local_rule (d_ty d)) s with
    | (Ok, s1) => (set_local_desc (local_mutate d s1) (Some d), Ok)
    | (Err e, _) => (s, Err e)
    end
  else
    let s1 := local_mutate d s in
    match check_rule (set_local_rule (d_ty d)) s1 with
    | (Ok, s2) => (set_local_desc s2 (Some d), Ok)
    | (Err e, s2) => (s2, Err e)
    end.
Definition set_local := set_local_gen set_local_check_first.

(* None = InvalidConfiguration (WebRTC mode needs a sha-256 fingerprint) *)
Definition remote_fp (m : TransportMode) (d : desc) : option (option Z) :=
  match m with
  | WebRtc => match d_fp d with FpSha v => Some (Some v) | _ => None end
  | _ => Some None
  end.
Definition opt_z_eqb (a b : option Z) : bool :=
  match a, b with
  | None, None => true
  | Some x, Some y => x =? y
  | _, _ => false
  end.
Definition fp_conflict (s : st) (fp : option Z) : bool :=
  dtls_started s && negb (opt_z_eqb (stored_fp s) fp).

Definition handle_reinvite (s : st) (d : desc) : st :=
  set_remote_desc (set_txs s (apply_matched (matched_rtp (d_secs d) (txs s) []) (txs s))) (Some d).

Inductive reinv : Set := RvApply | RvGlare | RvSkip.
Definition reinvite_action (ty : SdpType) (q : SignalingState) : reinv :=
  match ty, q with
  | Offer, Stable => RvApply
  | Answer, HaveLocalOffer => RvApply
  | Pranswer, HaveLocalOffer => RvApply
  | Offer, _ => RvGlare
  | _, _ => RvSkip
  end.

Definition is_some {A} (o : option A) : bool := match o with Some _ => true | None => false end.

(* everything after the unchanged-description shortcut *)
Definition remote_apply (m : TransportMode) (s4 : st) (d : desc) (fp : option Z) (envf : bool) : st * result :=
  if fp_conflict s4 fp then (s4, Err EInvalidState)
  else
    let s5 := set_stored_fp s4 fp in
    (* SRTP: ice_transport.start_direct *)
    if TransportMode_eqb m Srtp && envf then (s5, Err EInternal)
    else
      let s6 := set_txs s5 (match d_ty d with
                            | Offer => apply_offer (d_secs d) (txs s5) []
                            | _ => apply_matched (matched_rtp (d_secs d) (txs s5) []) (txs s5)
                            end) in
      let s7 := set_remote_desc s6 (Some d) in
      (* RTP: configure_rtp_media_transports_from_remote *)
      if TransportMode_eqb m Rtp && envf then (s7, Err EInternal) else (s7, Ok).

Definition set_remote_raw (fp_early mid_after : bool) (m : TransportMode) (s : st) (d : desc) (envf : bool) : st * result :=
  if negb (validate_sdp_type_ok (d_ty d)) then (s, Err ENotImplemented)
  else
    match remote_fp m d with
    | None => (s, Err EInvalidConfig)
    | Some fp =>
        if fp_early && fp_conflict s fp then (s, Err EInvalidState)
        else
          let changed := match remote s with None => true | Some p => negb (d_media p =? d_media d) end in
          let has_prev := is_some (remote s) in
          let act := if has_prev && changed then reinvite_action (d_ty d) (sig s) else RvSkip in
          match act with
          | RvGlare => (s, Err EInvalidState)
          | _ =>
              let s1 := match act with RvApply => handle_reinvite s d | _ => s end in
              let s2 := if mid_after then s1 else set_next_mid s1 (bump_next_mid (d_secs d) (next_mid s1)) in
              match check_rule (set_remote_rule (d_ty d)) s2 with
              | (Err e, s3) => (s3, Err e)
              | (Ok, s3) =>
                  let s4 := if mid_after then set_next_mid s3 (bump_next_mid (d_secs d) (next_mid s3)) else s3 in
                  if has_prev && negb changed then (set_remote_desc s4 (Some d), Ok)
                  else remote_apply m s4 d fp envf
              end
          end
    end.
Definition set_remote_gen (g fp_early mid_after : bool) (m : TransportMode) (s : st) (d : desc) (envf : bool) : st * result :=
  guard g s (set_remote_raw fp_early mid_after m s d envf).
Definition set_remote :=
  set_remote_gen set_remote_restores_on_error set_remote_fp_check_early set_remote_next_mid_after_check.

Definition step (m : TransportMode) (s : st) (c : call) : st * result :=
  match c with
  | CreateOffer envf => create_offer m s envf
  | CreateAnswer envf => create_answer m s envf
  | SetLocal d => set_local s d
  | SetRemote d envf => set_remote m s d envf
  | Close => (set_sig s Closed, Ok)
  | EnvDtlsStarted => (set_dtls_started s true, Ok)
  end.

Fixpoint run (m : TransportMode) (s : st) (cs : list call) : list (st * result) :=
  match cs with
  | [] => []
  | c :: r => let p := step m s c in p :: run m (fst p) r
  end.

Definition final (m : TransportMode) (s : st) (cs : list call) : st :=
  fold_left (fun acc c => fst (step m acc c)) cs s.

(* ---------------------------------------------------------------- observables *)
(* what the property speaks about *)
Definition obs (s : st) : SignalingState * option desc * option desc * list tx :=
  (sig s, local s, remote s, txs s).

Definition env_fail (c : call) : bool :=
  match c with
  | CreateOffer e | CreateAnswer e | SetRemote _ e => e
  | _ => false
  end.

(* the mid a fresh transceiver would get: add_transceiver(video) ; create_offer *)
Definition probe (m : TransportMode) (s : st) (envf : bool) : option midv :=
  let fresh := mkTx Video None RecvOnly 0 0 in
  t_mid (last (txs (fst (create_offer m (set_txs s (txs s ++ [fresh])) envf))) fresh).

(* ---------------------------------------------------------------- the JSEP table (spec) *)
Inductive ckind : Set :=
| KCreateOffer | KCreateAnswer | KSetLocal (t : SdpType) | KSetRemote (t : SdpType) | KClose | KEnv.

Definition kind_of (c : call) : ckind :=
  match c with
  | CreateOffer _ => KCreateOffer
  | CreateAnswer _ => KCreateAnswer
  | SetLocal d => KSetLocal (d_ty d)
  | SetRemote d _ => KSetRemote (d_ty d)
  | Close => KClose
  | EnvDtlsStarted => KEnv
  end.

(* RFC 8829 section 3.2 / W3C webrtc 4.3.1 projected on the four states the API reports
   (provisional answers do not leave have-*-offer; rollback is not offered by this API):
   None = the machine forbids the call in that state. *)
Definition spec_step (q : SignalingState) (k : ckind) : option SignalingState :=
  match k with
  | KClose => Some Closed
  | KEnv => Some q
  | _ =>
      match q with
      | Closed => None
      | Stable =>
          match k with
          | KCreateOffer => Some Stable
          | KSetLocal Offer => Some HaveLocalOffer
          | KSetRemote Offer => Some HaveRemoteOffer
          | _ => None
          end
      | HaveLocalOffer =>
          match k with
          | KCreateOffer => Some HaveLocalOffer
          | KSetLocal Offer => Some HaveLocalOffer
          | KSetRemote Answer => Some Stable
          | KSetRemote Pranswer => Some HaveLocalOffer
          | _ => None
          end
      | HaveRemoteOffer =>
          match k with
          | KCreateOffer => Some HaveRemoteOffer
          | KCreateAnswer => Some HaveRemoteOffer
          | KSetRemote Offer => Some HaveRemoteOffer
          | KSetLocal Answer => Some Stable
          | KSetLocal Pranswer => Some HaveRemoteOffer
          | _ => None
          end
      end
  end.

(* the state the machine prescribes after a call that returned r *)
Definition spec_after (q : SignalingState) (k : ckind) (r : result) : SignalingState :=
  match spec_step q k with
  | Some q' => if is_err r then q else q'
  | None => q
  end.

(* the state table the implementation realises (from the generated rules) *)
Definition impl_table (q : SignalingState) (k : ckind) : option SignalingState :=
  let by_rule rule := match rule with
                      | Some (req, nxt) => if SignalingState_eqb q req
                                           then Some (match nxt with Some q' => q' | None => q end) else None
                      | None => None
                      end in
  match k with
  | KCreateOffer => if SignalingState_eqb q create_offer_required then Some q else None
  | KCreateAnswer => if SignalingState_eqb q create_answer_required then Some q else None
  | KSetLocal t => if validate_sdp_type_ok t then by_rule (set_local_rule t) else None
  | KSetRemote t => if validate_sdp_type_ok t then by_rule (set_remote_rule t) else None
  | KClose => Some Closed
  | KEnv => Some q
  end.

(* conformance of a run: after every call the reported state is the prescribed one, and calls
   the machine forbids returned an error *)
Fixpoint conf_trace (q : SignalingState) (cs : list call) (tr : list (st * result)) : Prop :=
  match cs, tr with
  | [], [] => True
  | c :: cs', (s', r) :: tr' =>
      sig s' = spec_after q (kind_of c) r /\
      (spec_step q (kind_of c) = None -> is_err r = true) /\
      conf_trace (sig s') cs' tr'
  | _, _ => False
  end.

(* atomicity of a run: every call that returned an error left the observables as they were *)
Fixpoint atomic_trace (s : st) (tr : list (st * result)) : Prop :=
  match tr with
  | [] => True
  | (s', r) :: tr' => (is_err r = true -> obs s' = obs s /\ next_mid s' = next_mid s) /\ atomic_trace s' tr'
  end.
