(* C09 -- racing signalling calls on one PeerConnection, at the granularity of the locks the
   code takes.

   RACY model (the code before the operation lock / atomic transition): the signaling state
   lives in a tokio `watch` cell; `*state.borrow()` is one atomic read, `state.send(x)` one
   atomic write, and a call does  read ; (Err if not the required state) ; write target.
   Nothing serialises two calls.  close() writes Closed.

   SERIALISED model (the code now): create_offer / create_answer / set_remote_description hold
   the connection's `signaling_lock` (tokio Mutex) for their whole body, the synchronous
   set_local_description takes it with try_lock and returns InvalidState when it is held;
   the check-and-transition is one atomic `send_if_modified`; close() and the environment take
   no lock and only write the signaling cell / the DTLS flag.  A call under the lock is two
   atomic steps: A = everything up to and including the atomic transition (its result and its
   effect are determined here, computed with the sequential `step`; only the signaling cell
   becomes visible), B = the remaining stores (descriptions, transceivers, mid counter, cached
   fingerprint; on a late failure the restore) and the release of the lock.  close() and
   EnvDtlsStarted may fall between A and B of another call.

   Definitions only; proofs in Proofs/SignalingConcProofs.v. *)
From Coq Require Import ZArith List Bool.
From RV Require Import Gen.Signaling.
From RV Require Import Model.Signaling.
Import ListNotations.
Open Scope Z_scope.
Open Scope bool_scope.

(* ---------------------------------------------------------------- racy model (state cell only) *)
Inductive rthread : Set :=
| RStart (req : SignalingState) (nxt : option SignalingState)   (* a setter about to read the cell *)
| RChecked (nxt : option SignalingState)                        (* read the required state; write pending *)
| RClose                                                        (* close(): about to write Closed *)
| RDone (ok : bool).

Fixpoint set_nth {A} (i : nat) (x : A) (l : list A) : list A :=
  match l, i with
  | [], _ => []
  | _ :: r, O => x :: r
  | y :: r, S j => y :: set_nth j x r
  end.

Definition rstep (i : nat) (k : SignalingState * list rthread) : SignalingState * list rthread :=
  let '(cell, thr) := k in
  match nth_error thr i with
  | Some (RStart req nxt) =>
      if SignalingState_eqb cell req then (cell, set_nth i (RChecked nxt) thr)
      else (cell, set_nth i (RDone false) thr)
  | Some (RChecked nxt) =>
      (match nxt with Some q => q | None => cell end, set_nth i (RDone true) thr)
  | Some RClose => (Closed, set_nth i (RDone true) thr)
  | _ => k
  end.
Definition rexec (sched : list nat) (k : SignalingState * list rthread) : SignalingState * list rthread :=
  fold_left (fun acc i => rstep i acc) sched k.

(* a setter as the racy thread that the generated tables prescribe *)
Definition rthread_of (k : ckind) : rthread :=
  match k with
  | KSetLocal t => match set_local_rule t with Some (req, nxt) => RStart req nxt | None => RDone false end
  | KSetRemote t => match set_remote_rule t with Some (req, nxt) => RStart req nxt | None => RDone false end
  | KClose => RClose
  | _ => RDone false
  end.

(* sequential reference: the calls one after the other in some order, by the JSEP table *)
Fixpoint seq_results (q : SignalingState) (ks : list ckind) : SignalingState * list bool :=
  match ks with
  | [] => (q, [])
  | k :: r => match spec_step q k with
              | Some q' => let p := seq_results q' r in (fst p, true :: snd p)
              | None => let p := seq_results q r in (fst p, false :: snd p)
              end
  end.

(* ---------------------------------------------------------------- serialised model (whole state) *)
Inductive tstate : Set :=
| TIdle (c : call)
| TPending (s' : st) (r : result)
| TDone (r : result).

Record cfg : Set := mkCfg {
  c_st : st;
  c_lock : option nat;
  c_thr : list tstate;
  c_lin : list (call * result)      (* ghost: the linearisation so far *) }.

Definition lock_free (c : call) : bool :=
  match c with Close | EnvDtlsStarted => true | _ => false end.
Definition is_sync (c : call) : bool := match c with SetLocal _ => true | _ => false end.

(* step B: what the call computed, except the signaling cell and the DTLS flag (others write those) *)
Definition install (s' cur : st) : st :=
  mkSt (sig cur) (local s') (remote s') (next_mid s') (txs s') (dtls_started cur) (stored_fp s').

Definition cstep (m : TransportMode) (i : nat) (k : cfg) : cfg :=
  match nth_error (c_thr k) i with
  | Some (TIdle c) =>
      if lock_free c then
        let p := step m (c_st k) c in
        mkCfg (fst p) (c_lock k) (set_nth i (TDone (snd p)) (c_thr k)) (c_lin k ++ [(c, snd p)])
      else
        match c_lock k with
        | Some _ =>
            if is_sync c then mkCfg (c_st k) (c_lock k) (set_nth i (TDone (Err EInvalidState)) (c_thr k)) (c_lin k)
            else k                                                   (* lock().await: blocked *)
        | None =>
            let p := step m (c_st k) c in
            mkCfg (set_sig (c_st k) (sig (fst p))) (Some i) (set_nth i (TPending (fst p) (snd p)) (c_thr k))
                  (c_lin k ++ [(c, snd p)])
        end
  | Some (TPending s' r) =>
      match c_lock k with
      | Some j => if Nat.eqb i j
                  then mkCfg (install s' (c_st k)) None (set_nth i (TDone r) (c_thr k)) (c_lin k)
                  else k
      | None => k
      end
  | _ => k
  end.

Definition cexec (m : TransportMode) (sched : list nat) (k : cfg) : cfg :=
  fold_left (fun acc i => cstep m i acc) sched k.

Definition cstart (s0 : st) (calls : list call) : cfg := mkCfg s0 None (map TIdle calls) [].

(* the state once the call in flight (if any) has finished its step B *)
Definition pending (k : cfg) : option st :=
  match c_lock k with
  | Some i => match nth_error (c_thr k) i with Some (TPending s' _) => Some s' | _ => None end
  | None => None
  end.
Definition complete (k : cfg) : st :=
  match pending k with Some s' => install s' (c_st k) | None => c_st k end.

(* at most one call is between its steps A and B, and it holds the lock *)
Definition mutex (k : cfg) : Prop :=
  forall j s' r, nth_error (c_thr k) j = Some (TPending s' r) -> c_lock k = Some j.

(* which of the two models describes the source (regenerated): the serialised one needs both the
   operation lock in all four calls and the atomic check-and-transition *)
Definition serialised_model_applies : bool := signalling_calls_serialised && transition_atomic.
