(* C20 -- small-step interleaving model of the sample queue:
     SpscRing::{push, pop, is_empty}, Drop for SpscRing                      (src/media/spsc.rs)
     SampleStreamSource::{try_send_drop_oldest (= send), try_send, send_many, Clone, Drop},
     SampleStreamTrack::{recv, stop}                                         (src/media/track.rs)
     SampleQueueSender::{send, try_send, Drop}, SampleQueueReceiver::recv    (src/media/pipeline.rs)

   Threads: 0 = the consumer, 1 = a controller that may call stop(), 2+k = producer k.
   Every thread runs a program (list of operations); `step s t` executes ONE shared-memory
   access of thread t (one atomic load / store / fetch, one slot read / write, one lock or
   notify call) and returns None when t is blocked or finished.  The shared store is
   sequentially consistent.  Program counters follow the token lists of Model/SpscSkel.v
   (= Gen/SpscProg.v, regenerated from the source; Proofs: skeleton_tie).

   Index arithmetic: the code keeps head/tail as usize with wrapping_add / wrapping_sub, tests
   `tail.wrapping_sub(head) >= capacity`, `head == tail`, and indexes with `x % capacity`
   (capacity is any usize > 0, not rounded to a power of two, no mask).  The model stores the
   TRUE counters (unbounded Z) and applies `mod wmod` (wmod = 2^64 for the real code) at every
   use; since +1, - and == commute with `mod wmod` this is the same machine
   (Proofs: wrap_add1, wrap_sub).

   UB flag: reading (moving out / dropping) a slot that holds no value, or writing a slot that
   still holds one.

   Ghost fields (never read by `step`): pushed (values in tail-store order), taken (values in
   slot-read order, tagged with who took them), stopped, p_pushed (per producer).

   tokio::sync::Notify is modelled by its documented semantics for ONE waiter: a stored permit
   and a counter of notify_waiters() calls; notify_one = wake the registered waiter or store the
   permit; notify_waiters = bump the counter and wake the registered waiter (nothing is stored);
   `notified()` snapshots the counter; awaiting it = consume the permit, or finish at once if
   the counter moved since the snapshot, or register and block until woken.

   Producers are serialised by `push_lock` (fixes 19ac498 / 1094a59): PLockPush blocks while another
   producer is between its lock and its return.  A recv() future can be dropped at its await point
   (ORecvC / ORecvQC): the waiter is deregistered and a notify_one it had already received is handed
   on (stored as the permit), exactly as tokio's Drop for Notified does.
   The pipeline queue is the same ring + closed flag + locks + Notify; its sender is not Clone
   (ODropTx: Drop stores the flag unconditionally), its recv is ORecvQ.  The receiver's own Drop
   (which also sets the flag) is not modelled.

   Definitions only; proofs in Proofs/SpscProofs.v. *)
From Coq Require Import ZArith List Bool.
Import ListNotations.
Open Scope Z_scope.
Open Scope bool_scope.

Definition val : Set := Z.

Inductive ubk : Set := UbOverwrite | UbReadUninit.

Record sh : Type := mkSh {
  cap : Z; wmod : Z;
  slots : Z -> option val;
  head : Z; tail : Z;
  closed : bool; ended : bool;
  lock : bool;                  (* pop_lock *)
  plock : bool;                 (* push_lock *)
  senders : Z;
  permit : bool; waiting : bool; woken : bool;
  wone : bool;                  (* the pending wake-up came from notify_one (not notify_waiters) *)
  nwc : Z;
  ub : option ubk;
  pushed : list val; taken : list (bool * val); stopped : bool }.

Definition upd (f : Z -> option val) (i : Z) (v : option val) : Z -> option val :=
  fun j => if j =? i then v else f j.

Definition set_slots s f := mkSh (cap s) (wmod s) f (head s) (tail s) (closed s) (ended s) (lock s) (plock s) (senders s) (permit s) (waiting s) (woken s) (wone s) (nwc s) (ub s) (pushed s) (taken s) (stopped s).
Definition set_take s f tk := mkSh (cap s) (wmod s) f (head s) (tail s) (closed s) (ended s) (lock s) (plock s) (senders s) (permit s) (waiting s) (woken s) (wone s) (nwc s) (ub s) (pushed s) tk (stopped s).
Definition set_head s h := mkSh (cap s) (wmod s) (slots s) h (tail s) (closed s) (ended s) (lock s) (plock s) (senders s) (permit s) (waiting s) (woken s) (wone s) (nwc s) (ub s) (pushed s) (taken s) (stopped s).
Definition set_tail s t v := mkSh (cap s) (wmod s) (slots s) (head s) t (closed s) (ended s) (lock s) (plock s) (senders s) (permit s) (waiting s) (woken s) (wone s) (nwc s) (ub s) (pushed s ++ [v]) (taken s) (stopped s).
Definition set_closed s b := mkSh (cap s) (wmod s) (slots s) (head s) (tail s) b (ended s) (lock s) (plock s) (senders s) (permit s) (waiting s) (woken s) (wone s) (nwc s) (ub s) (pushed s) (taken s) (stopped s).
Definition set_ended s b := mkSh (cap s) (wmod s) (slots s) (head s) (tail s) (closed s) b (lock s) (plock s) (senders s) (permit s) (waiting s) (woken s) (wone s) (nwc s) (ub s) (pushed s) (taken s) (stopped s).
Definition set_stop s := mkSh (cap s) (wmod s) (slots s) (head s) (tail s) (closed s) true (lock s) (plock s) (senders s) (permit s) (waiting s) (woken s) (wone s) (nwc s) (ub s) (pushed s) (taken s) true.
Definition set_lock s b := mkSh (cap s) (wmod s) (slots s) (head s) (tail s) (closed s) (ended s) b (plock s) (senders s) (permit s) (waiting s) (woken s) (wone s) (nwc s) (ub s) (pushed s) (taken s) (stopped s).
Definition set_plock s b := mkSh (cap s) (wmod s) (slots s) (head s) (tail s) (closed s) (ended s) (lock s) b (senders s) (permit s) (waiting s) (woken s) (wone s) (nwc s) (ub s) (pushed s) (taken s) (stopped s).
Definition set_senders s n := mkSh (cap s) (wmod s) (slots s) (head s) (tail s) (closed s) (ended s) (lock s) (plock s) n (permit s) (waiting s) (woken s) (wone s) (nwc s) (ub s) (pushed s) (taken s) (stopped s).
Definition set_notify s p w k o := mkSh (cap s) (wmod s) (slots s) (head s) (tail s) (closed s) (ended s) (lock s) (plock s) (senders s) p w k o (nwc s) (ub s) (pushed s) (taken s) (stopped s).
Definition set_nw s w k o := mkSh (cap s) (wmod s) (slots s) (head s) (tail s) (closed s) (ended s) (lock s) (plock s) (senders s) (permit s) w k o (nwc s + 1) (ub s) (pushed s) (taken s) (stopped s).
Definition raise s k := mkSh (cap s) (wmod s) (slots s) (head s) (tail s) (closed s) (ended s) (lock s) (plock s) (senders s) (permit s) (waiting s) (woken s) (wone s) (nwc s) (match ub s with Some x => Some x | None => Some k end) (pushed s) (taken s) (stopped s).

(* ---- ring primitives *)
Definition wrapW (s : sh) (x : Z) : Z := x mod wmod s.
Definition slot_idx (s : sh) (x : Z) : Z := (wrapW s x) mod cap s.          (* idx = x % self.capacity *)
Definition is_full (s : sh) (rt rh : Z) : bool := cap s <=? wrapW s (rt - rh). (* tail.wrapping_sub(head) >= capacity *)
Definition is_mt (s : sh) (rh rt : Z) : bool := wrapW s rh =? wrapW s rt.   (* head == tail *)

Definition ring_write (s : sh) (rt : Z) (v : val) : sh :=
  let i := slot_idx s rt in
  let s1 := match slots s i with Some _ => raise s UbOverwrite | None => s end in
  set_slots s1 (upd (slots s) i (Some v)).

Definition ring_read (s : sh) (who : bool) (rh : Z) : sh * val :=
  let i := slot_idx s rh in
  match slots s i with
  | Some v => (set_take s (upd (slots s) i None) (taken s ++ [(who, v)]), v)
  | None => (raise s UbReadUninit, 0)
  end.

Definition notify_one (s : sh) : sh :=
  if waiting s then set_notify s (permit s) false true true else set_notify s true false (woken s) (wone s).
Definition notify_waiters (s : sh) : sh :=
  if waiting s then set_nw s false true false else set_nw s (waiting s) (woken s) (wone s).
(* a registered / woken Notified future is dropped: deregister; a notify_one it holds is handed on *)
Definition cancel_wait (s : sh) : sh :=
  set_notify s (permit s || (woken s && wone s)) false false false.

(* Drop for SpscRing: `while head != tail { drop slot head % cap; head = head.wrapping_add(1) }`
   on the machine words; it performs exactly (tail - head) mod wmod iterations. *)
Fixpoint drop_loop (n : nat) (s : sh) (h : Z) (acc : list val) : sh * list val :=
  match n with
  | O => (s, acc)
  | S n' =>
      let i := slot_idx s h in
      match slots s i with
      | Some v => drop_loop n' (set_slots s (upd (slots s) i None)) (h + 1) (acc ++ [v])
      | None => drop_loop n' (raise s UbReadUninit) (h + 1) acc
      end
  end.
Definition ring_drop (s : sh) : sh * list val :=
  drop_loop (Z.to_nat (wrapW s (tail s - head s))) s (head s) [].

(* ---- programs *)
Inductive pop_ : Set :=           (* producer-thread operations *)
| OPush (v : val)                 (* SpscRing::push on the bare ring *)
| OTrySend (v : val)
| OSend (v : val)
| OSendMany (l : list val)
| OClone
| ODropSrc
| ODropTx.                        (* pipeline: Drop for SampleQueueSender (no sender count) *)
Inductive cop : Set :=            (* consumer-thread operations *)
| OPop | ORecv | ORecvQ
| ORecvC | ORecvQC.               (* recv() whose future is dropped when scheduled while it waits *)

Inductive ret : Set :=
| RPushOk | RPushFull | RTryOk | RWouldBlock | RClosed | RSendOk | RManyOk
| RPop (o : option val) | RRecv (v : val) | REos | RPending | RCancelled.

Inductive pushpc : Set := PuLoadTail | PuLoadHead | PuWrite | PuStoreTail.
Inductive poppc : Set := PoLoadHead | PoLoadTail | PoRead | PoStoreHead.
Inductive pctx : Set := CRaw | CTry | CSend1 (many : bool) | CSend2 (many : bool).
Inductive ckind : Set := KTry | KSend (many : bool).

Inductive ppc : Set :=
| PIdle
| PClosedChk (k : ckind)
| PLockPush (k : ckind)
| PPush (c : pctx) (m : pushpc)
| PNotify (c : pctx)
| PTryLock (many : bool)
| PPop (many : bool) (m : poppc)
| PUnlock (many : bool)
| PUnlockPush (r : ret)
| PCloneFA | PDropFS | PDropStoreClosed | PDropNotify.

Record pth : Type := mkP {
  p_prog : list pop_; p_pc : ppc; p_rt : Z; p_rh : Z; p_rv : val; p_handles : Z; p_rets : list ret;
  p_pushed : list val }.          (* ghost: the values this thread pushed, in order *)

Inductive cpc : Set :=
| CIdle
| CPopRaw (m : poppc)
| CRvCreate | CRvEnded | CRvLock | CRvClosed1
| CRvPop (m : poppc)
| CRvUnlockRet
| CRvStoreEnded1 | CRvUnlockEos
| CRvUnlockWait | CRvAwait | CRvWaiting
| CRvClosed2 | CRvEmptyH | CRvEmptyT | CRvStoreEnded2
| CQLock | CQClosed1
| CQPop (m : poppc)
| CQUnlockRet | CQUnlockEos | CQUnlockWait
| CQCreate | CQEmptyH | CQEmptyT | CQClosed2 | CQAwait | CQWaiting.

Record cth : Type := mkC {
  c_prog : list cop; c_pc : cpc; c_rt : Z; c_rh : Z; c_rp : val;
  c_snap : Z;          (* notify_waiters counter seen when the Notified future was created *)
  c_cl : bool;         (* `let closed = source_closed.load()` *)
  c_can : bool;        (* the running recv() is one that gets cancelled at its await *)
  c_rets : list ret }.

Inductive spc : Set := SIdle | SStore | SNotify.
Record sth : Type := mkS { s_todo : nat; s_pc : spc }.     (* number of stop() calls still to make *)

Record st : Type := mkSt { shd : sh; cons : cth; stp : sth; prods : list pth }.

(* ---- producer *)
Definition p_at (p : pth) (pc : ppc) : pth :=
  mkP (p_prog p) pc (p_rt p) (p_rh p) (p_rv p) (p_handles p) (p_rets p) (p_pushed p).
Definition p_ret (p : pth) (r : ret) : pth :=
  mkP (p_prog p) PIdle (p_rt p) (p_rh p) (p_rv p) (p_handles p) (p_rets p ++ [r]) (p_pushed p).
Definition p_start (p : pth) (prog : list pop_) (pc : ppc) (v : val) : pth :=
  mkP prog pc (p_rt p) (p_rh p) v (p_handles p) (p_rets p) (p_pushed p).
Definition p_set_rt (p : pth) (pc : ppc) (x : Z) : pth :=
  mkP (p_prog p) pc x (p_rh p) (p_rv p) (p_handles p) (p_rets p) (p_pushed p).
Definition p_set_rh (p : pth) (pc : ppc) (x : Z) : pth :=
  mkP (p_prog p) pc (p_rt p) x (p_rv p) (p_handles p) (p_rets p) (p_pushed p).
Definition p_set_handles (p : pth) (pc : ppc) (n : Z) : pth :=
  mkP (p_prog p) pc (p_rt p) (p_rh p) (p_rv p) n (p_rets p) (p_pushed p).
Definition p_log (p : pth) : pth :=
  mkP (p_prog p) (p_pc p) (p_rt p) (p_rh p) (p_rv p) (p_handles p) (p_rets p) (p_pushed p ++ [p_rv p]).
(* Err(Closed) out of try_send_drop_oldest: `?` in send_many abandons the remaining samples *)
Definition p_ret_closed (p : pth) (k : ckind) : pth :=
  mkP (match k with KSend true => tl (p_prog p) | _ => p_prog p end) PIdle
      (p_rt p) (p_rh p) (p_rv p) (p_handles p) (p_rets p ++ [RClosed]) (p_pushed p).

Definition ctx_of (k : ckind) : pctx := match k with KTry => CTry | KSend m => CSend1 m end.

(* outcome of a push that found the ring full *)
Definition push_full (s : sh) (p : pth) (c : pctx) : sh * pth :=
  match c with
  | CRaw => (s, p_ret p RPushFull)
  | CTry => (s, p_at p (PUnlockPush RWouldBlock))
  | CSend1 m => (s, p_at p (PTryLock m))
  | CSend2 m => (s, p_at p (PUnlock m))       (* the sample is dropped, no notify *)
  end.
(* outcome of a successful push (after the tail store) *)
Definition push_done (s : sh) (p : pth) (c : pctx) : sh * pth :=
  match c with
  | CRaw => (s, p_ret p RPushOk)
  | _ => (s, p_at p (PNotify c))
  end.

Definition pstep (s : sh) (p : pth) : option (sh * pth) :=
  match p_pc p with
  | PIdle =>
      if p_handles p <=? 0 then None else
      match p_prog p with
      | [] => None
      | OPush v :: r => Some (s, p_start p r (PPush CRaw PuLoadTail) v)
      | OTrySend v :: r => Some (s, p_start p r (PClosedChk KTry) v)
      | OSend v :: r => Some (s, p_start p r (PClosedChk (KSend false)) v)
      | OSendMany [] :: r => Some (s, p_ret (p_start p r PIdle (p_rv p)) RManyOk)
      | OSendMany (v :: l) :: r => Some (s, p_start p (OSendMany l :: r) (PClosedChk (KSend true)) v)
      | OClone :: r => Some (s, p_start p r PCloneFA (p_rv p))
      | ODropSrc :: r => Some (s, p_start p r PDropFS (p_rv p))
      | ODropTx :: r =>
          (* no shared access: the pipeline sender has no count; `senders` is only bookkeeping here *)
          Some (set_senders s (senders s - 1),
                p_set_handles (p_start p r PIdle (p_rv p)) (if senders s =? 1 then PDropStoreClosed else PIdle) (p_handles p - 1))
      end
  | PClosedChk k =>
      if closed s then Some (s, p_ret_closed p k)
      else Some (s, p_at p (PLockPush k))
  | PLockPush k =>
      if plock s then None else Some (set_plock s true, p_at p (PPush (ctx_of k) PuLoadTail))
  | PPush c PuLoadTail => Some (s, p_set_rt p (PPush c PuLoadHead) (tail s))
  | PPush c PuLoadHead =>
      let h := head s in
      if is_full s (p_rt p) h then Some (push_full s (p_set_rh p (p_pc p) h) c)
      else Some (s, p_set_rh p (PPush c PuWrite) h)
  | PPush c PuWrite => Some (ring_write s (p_rt p) (p_rv p), p_at p (PPush c PuStoreTail))
  | PPush c PuStoreTail => Some (push_done (set_tail s (p_rt p + 1) (p_rv p)) (p_log p) c)
  | PNotify c =>
      match c with
      | CSend2 m => Some (notify_one s, p_at p (PUnlock m))
      | CTry => Some (notify_one s, p_at p (PUnlockPush RTryOk))
      | _ => Some (notify_one s, p_at p (PUnlockPush RSendOk))
      end
  | PTryLock m =>
      if lock s then Some (s, p_at p (PUnlockPush RSendOk))   (* `None => return Ok(())`: sample dropped *)
      else Some (set_lock s true, p_at p (PPop m PoLoadHead))
  | PPop m PoLoadHead => Some (s, p_set_rh p (PPop m PoLoadTail) (head s))
  | PPop m PoLoadTail =>
      let t := tail s in
      if is_mt s (p_rh p) t then Some (s, p_set_rt p (PPush (CSend2 m) PuLoadTail) t)
      else Some (s, p_set_rt p (PPop m PoRead) t)
  | PPop m PoRead => Some (fst (ring_read s false (p_rh p)), p_at p (PPop m PoStoreHead))
  | PPop m PoStoreHead => Some (set_head s (p_rh p + 1), p_at p (PPush (CSend2 m) PuLoadTail))
  | PUnlock m => Some (set_lock s false, p_at p (PUnlockPush RSendOk))
  | PUnlockPush r => Some (set_plock s false, p_ret p r)
  | PCloneFA => Some (set_senders s (senders s + 1), p_set_handles p PIdle (p_handles p + 1))
  | PDropFS =>
      Some (set_senders s (senders s - 1),
            p_set_handles p (if senders s =? 1 then PDropStoreClosed else PIdle) (p_handles p - 1))
  | PDropStoreClosed => Some (set_closed s true, p_at p PDropNotify)
  | PDropNotify => Some (notify_waiters s, p_at p PIdle)
  end.

(* ---- consumer *)
Definition c_at (c : cth) (pc : cpc) : cth := mkC (c_prog c) pc (c_rt c) (c_rh c) (c_rp c) (c_snap c) (c_cl c) (c_can c) (c_rets c).
Definition c_ret (c : cth) (r : ret) : cth := mkC (c_prog c) CIdle (c_rt c) (c_rh c) (c_rp c) (c_snap c) (c_cl c) (c_can c) (c_rets c ++ [r]).
Definition c_start (c : cth) (prog : list cop) (pc : cpc) (can : bool) : cth := mkC prog pc (c_rt c) (c_rh c) (c_rp c) (c_snap c) (c_cl c) can (c_rets c).
Definition c_set_rt (c : cth) (pc : cpc) (x : Z) : cth := mkC (c_prog c) pc x (c_rh c) (c_rp c) (c_snap c) (c_cl c) (c_can c) (c_rets c).
Definition c_set_rh (c : cth) (pc : cpc) (x : Z) : cth := mkC (c_prog c) pc (c_rt c) x (c_rp c) (c_snap c) (c_cl c) (c_can c) (c_rets c).
Definition c_set_rp (c : cth) (pc : cpc) (x : val) : cth := mkC (c_prog c) pc (c_rt c) (c_rh c) x (c_snap c) (c_cl c) (c_can c) (c_rets c).
Definition c_set_snap (c : cth) (pc : cpc) (x : Z) : cth := mkC (c_prog c) pc (c_rt c) (c_rh c) (c_rp c) x (c_cl c) (c_can c) (c_rets c).
Definition c_set_cl (c : cth) (pc : cpc) (b : bool) : cth := mkC (c_prog c) pc (c_rt c) (c_rh c) (c_rp c) (c_snap c) b (c_can c) (c_rets c).

(* `notified.await`: consume the permit, or finish at once if notify_waiters ran since the future was
   created, or register as the waiter *)
Definition await_step (s : sh) (c : cth) (next waitpc : cpc) : sh * cth :=
  if permit s then (set_notify s false (waiting s) (woken s) (wone s), c_at c next)
  else if nwc s =? c_snap c then (set_notify s false true false false, c_at c waitpc)
  else (s, c_at c next).
(* at the await: a cancelled recv() drops its future; otherwise resume once woken *)
Definition waiting_step (s : sh) (c : cth) (next : cpc) : option (sh * cth) :=
  if c_can c then Some (cancel_wait s, c_ret c RCancelled)
  else if woken s then Some (set_notify s (permit s) false false false, c_at c next)
  else None.

(* SampleStreamTrack::recv() after the fixes 1e3221d / 72fa4b8:
     loop { let notified = notify.notified(); if ended {EOS}
            { lock; let closed = source_closed; if let Some(s) = pop() {return s}; if closed {ended = true; EOS} }
            notified.await; if source_closed && is_empty() {ended = true; EOS} }
   SampleQueueReceiver::recv() after the fix dc21402:
     loop { { lock; let closed = closed; if let Some(s) = pop() {return Some(s)}; if closed {return None} }
            let notified = notify.notified(); if is_empty() && !closed { notified.await } } *)
Definition cstep (s : sh) (c : cth) : option (sh * cth) :=
  match c_pc c with
  | CIdle =>
      match c_prog c with
      | [] => None
      | OPop :: r => Some (s, c_start c r (CPopRaw PoLoadHead) false)
      | ORecv :: r => Some (s, c_start c r CRvCreate false)
      | ORecvC :: r => Some (s, c_start c r CRvCreate true)
      | ORecvQ :: r => Some (s, c_start c r CQLock false)
      | ORecvQC :: r => Some (s, c_start c r CQLock true)
      end
  | CPopRaw PoLoadHead => Some (s, c_set_rh c (CPopRaw PoLoadTail) (head s))
  | CPopRaw PoLoadTail =>
      let t := tail s in
      if is_mt s (c_rh c) t then Some (s, c_ret (c_set_rt c (c_pc c) t) (RPop None))
      else Some (s, c_set_rt c (CPopRaw PoRead) t)
  | CPopRaw PoRead => let '(s', v) := ring_read s true (c_rh c) in Some (s', c_set_rp c (CPopRaw PoStoreHead) v)
  | CPopRaw PoStoreHead => Some (set_head s (c_rh c + 1), c_ret c (RPop (Some (c_rp c))))
  | CRvCreate => Some (s, c_set_snap c CRvEnded (nwc s))
  | CRvEnded => if ended s then Some (s, c_ret c REos) else Some (s, c_at c CRvLock)
  | CRvLock => if lock s then None else Some (set_lock s true, c_at c CRvClosed1)
  | CRvClosed1 => Some (s, c_set_cl c (CRvPop PoLoadHead) (closed s))
  | CRvPop PoLoadHead => Some (s, c_set_rh c (CRvPop PoLoadTail) (head s))
  | CRvPop PoLoadTail =>
      let t := tail s in
      if is_mt s (c_rh c) t
      then Some (s, c_set_rt c (if c_cl c then CRvStoreEnded1 else CRvUnlockWait) t)
      else Some (s, c_set_rt c (CRvPop PoRead) t)
  | CRvPop PoRead => let '(s', v) := ring_read s true (c_rh c) in Some (s', c_set_rp c (CRvPop PoStoreHead) v)
  | CRvPop PoStoreHead => Some (set_head s (c_rh c + 1), c_at c CRvUnlockRet)
  | CRvUnlockRet => Some (set_lock s false, c_ret c (RRecv (c_rp c)))
  | CRvStoreEnded1 => Some (set_ended s true, c_at c CRvUnlockEos)
  | CRvUnlockEos => Some (set_lock s false, c_ret c REos)
  | CRvUnlockWait => Some (set_lock s false, c_at c CRvAwait)
  | CRvAwait => Some (await_step s c CRvClosed2 CRvWaiting)
  | CRvWaiting => waiting_step s c CRvClosed2
  | CRvClosed2 => if closed s then Some (s, c_at c CRvEmptyH) else Some (s, c_at c CRvCreate)
  | CRvEmptyH => Some (s, c_set_rh c CRvEmptyT (head s))
  | CRvEmptyT =>
      let t := tail s in
      if is_mt s (c_rh c) t then Some (s, c_set_rt c CRvStoreEnded2 t) else Some (s, c_set_rt c CRvCreate t)
  | CRvStoreEnded2 => Some (set_ended s true, c_ret c REos)
  | CQLock => if lock s then None else Some (set_lock s true, c_at c CQClosed1)
  | CQClosed1 => Some (s, c_set_cl c (CQPop PoLoadHead) (closed s))
  | CQPop PoLoadHead => Some (s, c_set_rh c (CQPop PoLoadTail) (head s))
  | CQPop PoLoadTail =>
      let t := tail s in
      if is_mt s (c_rh c) t
      then Some (s, c_set_rt c (if c_cl c then CQUnlockEos else CQUnlockWait) t)
      else Some (s, c_set_rt c (CQPop PoRead) t)
  | CQPop PoRead => let '(s', v) := ring_read s true (c_rh c) in Some (s', c_set_rp c (CQPop PoStoreHead) v)
  | CQPop PoStoreHead => Some (set_head s (c_rh c + 1), c_at c CQUnlockRet)
  | CQUnlockRet => Some (set_lock s false, c_ret c (RRecv (c_rp c)))
  | CQUnlockEos => Some (set_lock s false, c_ret c REos)
  | CQUnlockWait => Some (set_lock s false, c_at c CQCreate)
  | CQCreate => Some (s, c_set_snap c CQEmptyH (nwc s))
  | CQEmptyH => Some (s, c_set_rh c CQEmptyT (head s))
  | CQEmptyT =>
      let t := tail s in
      if is_mt s (c_rh c) t then Some (s, c_set_rt c CQClosed2 t) else Some (s, c_set_rt c CQLock t)
  | CQClosed2 => if closed s then Some (s, c_at c CQLock) else Some (s, c_at c CQAwait)
  | CQAwait => Some (await_step s c CQLock CQWaiting)
  | CQWaiting => waiting_step s c CQLock
  end.

(* ---- controller calling stop() *)
Definition sstep (s : sh) (x : sth) : option (sh * sth) :=
  match s_pc x with
  | SIdle => match s_todo x with O => None | S n => Some (s, mkS n SStore) end
  | SStore => Some (set_stop s, mkS (s_todo x) SNotify)
  | SNotify => Some (notify_waiters s, mkS (s_todo x) SIdle)
  end.

(* ---- global step, schedules *)
Fixpoint replace {A} (k : nat) (x : A) (l : list A) : list A :=
  match l, k with
  | [], _ => []
  | _ :: r, O => x :: r
  | y :: r, S k' => y :: replace k' x r
  end.

Definition step (s : st) (t : nat) : option st :=
  match t with
  | O => match cstep (shd s) (cons s) with
         | Some (h, c) => Some (mkSt h c (stp s) (prods s)) | None => None end
  | S O => match sstep (shd s) (stp s) with
           | Some (h, x) => Some (mkSt h (cons s) x (prods s)) | None => None end
  | S (S k) => match nth_error (prods s) k with
               | Some p => match pstep (shd s) p with
                           | Some (h, p') => Some (mkSt h (cons s) (stp s) (replace k p' (prods s)))
                           | None => None end
               | None => None end
  end.

Definition step' (s : st) (t : nat) : st := match step s t with Some s' => s' | None => s end.
Fixpoint run (s : st) (sched : list nat) : st :=
  match sched with [] => s | t :: r => run (step' s t) r end.
Definition reachable (s0 s : st) : Prop := exists sched, run s0 sched = s.

Definition sh0 (capacity w nsenders : Z) : sh :=
  mkSh capacity w (fun _ => None) 0 0 false false false false nsenders false false false false 0 None [] [] false.
Definition p0 (prog : list pop_) : pth := mkP prog PIdle 0 0 0 1 [] [].
Definition c0 (prog : list cop) : cth := mkC prog CIdle 0 0 0 0 false false [].
(* every producer thread owns one source handle (the original or a clone made before the spawn) *)
Definition init (capacity w : Z) (cprog : list cop) (nstop : nat) (pprogs : list (list pop_)) : st :=
  mkSt (sh0 capacity w (Z.of_nat (length pprogs))) (c0 cprog) (mkS nstop SIdle) (map p0 pprogs).

(* ---- observations *)
Definition ret_vals (l : list ret) : list val :=
  flat_map (fun r => match r with RRecv v => [v] | RPop (Some v) => [v] | _ => [] end) l.
Definition received (s : st) : list val := ret_vals (c_rets (cons s)).
Definition taken_by (who : bool) (s : sh) : list val :=
  map snd (filter (fun x => Bool.eqb (fst x) who) (taken s)).
Fixpoint op_vals (l : list pop_) : list val :=
  match l with
  | [] => []
  | OPush v :: r | OTrySend v :: r | OSend v :: r => v :: op_vals r
  | OSendMany vs :: r => vs ++ op_vals r
  | _ :: r => op_vals r
  end.
Definition c_idle (c : cth) : bool := match c_pc c with CIdle => true | _ => false end.
Definition p_idle (p : pth) : bool := match p_pc p with PIdle => true | _ => false end.
Definition s_idle (x : sth) : bool := match s_pc x with SIdle => true | _ => false end.
(* no thread is inside an operation: the only moment at which the last Arc can go away and
   Drop for SpscRing can run *)
Definition quiescent (s : st) : bool := c_idle (cons s) && s_idle (stp s) && forallb p_idle (prods s).

(* ---- sequential driver used by the correspondence check: run ONE operation of thread t to
   completion with nobody else moving; a recv that would block is reported as RPending and
   cancelled (the harness polls the future once and drops it). *)
Definition t_idle (s : st) (t : nat) : bool :=
  match t with
  | O => c_idle (cons s)
  | S O => s_idle (stp s)
  | S (S k) => match nth_error (prods s) k with Some p => p_idle p | None => true end
  end.
Definition cancel_recv (s : st) : st :=
  mkSt (cancel_wait (shd s)) (c_ret (cons s) RPending) (stp s) (prods s).
Fixpoint finish_op (fuel : nat) (s : st) (t : nat) : st :=
  match fuel with
  | O => s
  | S f =>
      if t_idle s t then s else
      match step s t with
      | Some s' => finish_op f s' t
      | None => match t with O => cancel_recv s | _ => s end
      end
  end.
Definition run_op (s : st) (t : nat) : st :=
  match step s t with Some s' => finish_op 64 s' t | None => s end.
Fixpoint run_ops (s : st) (ts : list nat) : st :=
  match ts with [] => s | t :: r => run_ops (run_op s t) r end.
