(* C20 -- token type of the shared-memory skeleton that tools/gen_c20.py extracts from
   src/media/spsc.rs and src/media/track.rs (Gen/SpscProg.v), the skeleton Model/Spsc.v was
   written against (`*_shape`), and the decidable publication discipline `publication_ok`.
   Definitions only. *)
From Coq Require Import ZArith Bool List.
Import ListNotations.
Open Scope Z_scope.
Open Scope bool_scope.

Inductive sk_atom : Set := SkHead | SkTail | SkClosed | SkEnded | SkSenders.
Inductive sk_ord : Set := ORelaxed | OAcquire | ORelease | OAcqRel | OSeqCst.

Inductive sk_op : Set :=
| SkLoad (a : sk_atom) (o : sk_ord)
| SkStoreInc (a : sk_atom) (o : sk_ord)        (* self.a.store(a.wrapping_add(1), o) *)
| SkStoreTrue (a : sk_atom) (o : sk_ord)       (* self.a.store(true, o) *)
| SkFetchAdd (a : sk_atom) (o : sk_ord)
| SkFetchSubWasOne (a : sk_atom) (o : sk_ord)  (* if self.a.fetch_sub(1, o) == 1 *)
| SkFullTestReturnErr                          (* if tail.wrapping_sub(head) >= self.capacity { return Err(value) } *)
| SkEmptyTestReturnNone                        (* if head == tail { return None } *)
| SkWhileHeadNeTail
| SkIdx (a : sk_atom)                          (* let idx = a % self.capacity *)
| SkSlotWrite | SkSlotRead | SkSlotDrop
| SkLocalHeadInc
| SkCmpEq
| SkRetOk | SkRetSome
| SkKindCheck
| SkCallPush | SkCallPop | SkIsEmpty
| SkTryLock | SkLock | SkUnlock | SkPushLock | SkPushUnlock
| SkNotifyOne | SkNotifyWaiters | SkNotifiedCreate | SkNotifiedAwait | SkIfClosedLocal
| SkCallSendDropOldest | SkCallSendDropOldestTry | SkForEachSample
| SkRetErrClosed | SkRetEos | SkRetOkIfLockBusy | SkRetSample | SkRetErrWouldBlockIfFull.

Definition atom_eqb (a b : sk_atom) : bool :=
  match a, b with
  | SkHead, SkHead | SkTail, SkTail | SkClosed, SkClosed | SkEnded, SkEnded | SkSenders, SkSenders => true
  | _, _ => false
  end.
Definition ord_eqb (a b : sk_ord) : bool :=
  match a, b with
  | ORelaxed, ORelaxed | OAcquire, OAcquire | ORelease, ORelease | OAcqRel, OAcqRel | OSeqCst, OSeqCst => true
  | _, _ => false
  end.
Definition op_eqb (x y : sk_op) : bool :=
  match x, y with
  | SkLoad a o, SkLoad b p | SkStoreInc a o, SkStoreInc b p | SkStoreTrue a o, SkStoreTrue b p
  | SkFetchAdd a o, SkFetchAdd b p | SkFetchSubWasOne a o, SkFetchSubWasOne b p => atom_eqb a b && ord_eqb o p
  | SkIdx a, SkIdx b => atom_eqb a b
  | SkFullTestReturnErr, SkFullTestReturnErr | SkEmptyTestReturnNone, SkEmptyTestReturnNone
  | SkWhileHeadNeTail, SkWhileHeadNeTail | SkSlotWrite, SkSlotWrite | SkSlotRead, SkSlotRead
  | SkSlotDrop, SkSlotDrop | SkLocalHeadInc, SkLocalHeadInc | SkCmpEq, SkCmpEq | SkRetOk, SkRetOk
  | SkRetSome, SkRetSome | SkKindCheck, SkKindCheck | SkCallPush, SkCallPush | SkCallPop, SkCallPop
  | SkIsEmpty, SkIsEmpty | SkTryLock, SkTryLock | SkLock, SkLock | SkUnlock, SkUnlock
  | SkNotifyOne, SkNotifyOne | SkNotifyWaiters, SkNotifyWaiters | SkNotifiedAwait, SkNotifiedAwait
  | SkNotifiedCreate, SkNotifiedCreate | SkIfClosedLocal, SkIfClosedLocal
  | SkPushLock, SkPushLock | SkPushUnlock, SkPushUnlock
  | SkCallSendDropOldest, SkCallSendDropOldest | SkCallSendDropOldestTry, SkCallSendDropOldestTry
  | SkForEachSample, SkForEachSample | SkRetErrClosed, SkRetErrClosed | SkRetEos, SkRetEos
  | SkRetOkIfLockBusy, SkRetOkIfLockBusy | SkRetSample, SkRetSample
  | SkRetErrWouldBlockIfFull, SkRetErrWouldBlockIfFull => true
  | _, _ => false
  end.
Fixpoint skel_eqb (a b : list sk_op) : bool :=
  match a, b with
  | [], [] => true
  | x :: a', y :: b' => op_eqb x y && skel_eqb a' b'
  | _, _ => false
  end.

(* ---- position of the first occurrence of a token satisfying f *)
Fixpoint find_pos (f : sk_op -> bool) (l : list sk_op) (i : Z) : option Z :=
  match l with
  | [] => None
  | x :: r => if f x then Some i else find_pos f r (i + 1)
  end.
Definition pos (f : sk_op -> bool) (l : list sk_op) : option Z := find_pos f l 0.
Definition before (a b : option Z) : bool :=
  match a, b with Some x, Some y => x <? y | _, _ => false end.
Definition count (f : sk_op -> bool) (l : list sk_op) : Z := Z.of_nat (length (filter f l)).

Definition is_release (o : sk_ord) : bool := match o with ORelease | OSeqCst => true | _ => false end.
Definition is_acquire (o : sk_ord) : bool := match o with OAcquire | OSeqCst => true | _ => false end.

Definition is_load (a : sk_atom) (x : sk_op) := match x with SkLoad b _ => atom_eqb a b | _ => false end.
Definition is_acq_load (a : sk_atom) (x : sk_op) := match x with SkLoad b o => atom_eqb a b && is_acquire o | _ => false end.
Definition is_store (a : sk_atom) (x : sk_op) := match x with SkStoreInc b _ => atom_eqb a b | _ => false end.
Definition is_rel_store (a : sk_atom) (x : sk_op) := match x with SkStoreInc b o => atom_eqb a b && is_release o | _ => false end.
Definition is_tok (t : sk_op) (x : sk_op) := op_eqb t x.

(* The acquire/release publication discipline of a single-producer single-consumer ring:
   push: load own index (any ordering), ACQUIRE-load the opposite index, full test, index from the
         own index, slot write, then a single RELEASE store of tail+1 -- in that order;
   pop:  symmetric with head/tail swapped, slot read before the RELEASE store of head+1.
   A weakened ordering, a swapped write/store, a second index store or a missing test makes it false. *)
Definition side_ok (own other : sk_atom) (test slot : sk_op) (l : list sk_op) : bool :=
  before (pos (is_load own) l) (pos (is_tok test) l) &&
  before (pos (is_acq_load other) l) (pos (is_tok test) l) &&
  before (pos (is_tok test) l) (pos (is_tok (SkIdx own)) l) &&
  before (pos (is_tok (SkIdx own)) l) (pos (is_tok slot) l) &&
  before (pos (is_tok slot) l) (pos (is_rel_store own) l) &&
  (count (is_load other) l =? 1) && (count (is_acq_load other) l =? 1) &&
  (count (is_store own) l =? 1) && (count (is_rel_store own) l =? 1) &&
  (count (is_store other) l =? 0) && (count (is_tok slot) l =? 1) &&
  (count (is_tok SkSlotWrite) l + count (is_tok SkSlotRead) l + count (is_tok SkSlotDrop) l =? 1).

Definition publication_ok (push pop : list sk_op) : bool :=
  side_ok SkTail SkHead SkFullTestReturnErr SkSlotWrite push &&
  side_ok SkHead SkTail SkEmptyTestReturnNone SkSlotRead pop.

(* ---- the skeleton Model/Spsc.v mirrors, step for step (pc names of the model in comments) *)
Definition push_shape : list sk_op :=
  [SkLoad SkTail ORelaxed;        (* PuLoadTail *)
   SkLoad SkHead OAcquire;        (* PuLoadHead ... *)
   SkFullTestReturnErr;           (* ... including the full test *)
   SkIdx SkTail;                  (* PuWrite ... *)
   SkSlotWrite;                   (* ... slot write *)
   SkStoreInc SkTail ORelease;    (* PuStoreTail *)
   SkRetOk].
Definition pop_shape : list sk_op :=
  [SkLoad SkHead ORelaxed;        (* PoLoadHead *)
   SkLoad SkTail OAcquire;        (* PoLoadTail ... *)
   SkEmptyTestReturnNone;         (* ... including the empty test *)
   SkIdx SkHead;                  (* PoRead ... *)
   SkSlotRead;
   SkStoreInc SkHead ORelease;    (* PoStoreHead *)
   SkRetSome].
Definition ringdrop_shape : list sk_op :=
  [SkLoad SkHead ORelaxed; SkLoad SkTail ORelaxed; SkWhileHeadNeTail; SkIdx SkHead; SkSlotDrop; SkLocalHeadInc].
Definition is_empty_shape : list sk_op :=
  [SkLoad SkHead ORelaxed; SkCmpEq; SkLoad SkTail ORelaxed].
Definition send_drop_oldest_shape : list sk_op :=
  [SkLoad SkClosed OAcquire;      (* PClosedChk *)
   SkRetErrClosed;
   SkPushLock;                    (* PLockPush (fix 19ac498) *)
   SkCallPush;                    (* PPush (CSend1 _) _ *)
   SkNotifyOne;                   (* PNotify (CSend1 _) *)
   SkRetOk;                       (* PUnlockPush RSendOk *)
   SkTryLock;                     (* PTryLock *)
   SkRetOkIfLockBusy;             (* PUnlockPush RSendOk *)
   SkCallPop;                     (* PPop _ _ *)
   SkCallPush;                    (* PPush (CSend2 _) _ *)
   SkNotifyOne;                   (* PNotify (CSend2 _) *)
   SkRetOk;
   SkUnlock;                      (* PUnlock: the pop guard is declared later, so released first *)
   SkPushUnlock].                 (* PUnlockPush RSendOk *)
Definition try_send_shape : list sk_op :=
  [SkKindCheck; SkLoad SkClosed OAcquire; SkRetErrClosed; SkPushLock; SkCallPush; SkRetErrWouldBlockIfFull;
   SkNotifyOne; SkRetOk; SkPushUnlock].
Definition send_shape : list sk_op := [SkKindCheck; SkCallSendDropOldest].
Definition send_many_shape : list sk_op := [SkForEachSample; SkKindCheck; SkCallSendDropOldestTry; SkRetOk].
Definition source_clone_shape : list sk_op := [SkFetchAdd SkSenders ORelaxed].
Definition source_drop_shape : list sk_op :=
  [SkFetchSubWasOne SkSenders OAcqRel; SkStoreTrue SkClosed ORelease; SkNotifyWaiters].
Definition stop_shape : list sk_op := [SkStoreTrue SkEnded OSeqCst; SkNotifyWaiters].
Definition recv_shape : list sk_op :=
  [SkNotifiedCreate;              (* CRvCreate: before every check (fix 1e3221d) *)
   SkLoad SkEnded OSeqCst;        (* CRvEnded *)
   SkRetEos;
   SkLock;                        (* CRvLock *)
   SkLoad SkClosed OAcquire;      (* CRvClosed1: before the pop (fix 72fa4b8) *)
   SkCallPop;                     (* CRvPop _ *)
   SkRetSample;                   (* CRvUnlockRet *)
   SkIfClosedLocal;
   SkStoreTrue SkEnded OSeqCst;   (* CRvStoreEnded1 *)
   SkRetEos;                      (* CRvUnlockEos *)
   SkUnlock;                      (* CRvUnlockWait *)
   SkNotifiedAwait;               (* CRvAwait / CRvWaiting *)
   SkLoad SkClosed OAcquire;      (* CRvClosed2 *)
   SkIsEmpty;                     (* CRvEmptyH / CRvEmptyT *)
   SkStoreTrue SkEnded OSeqCst;   (* CRvStoreEnded2 *)
   SkRetEos].

(* ---- the pipeline sample queue (src/media/pipeline.rs): same ring, flags and sender protocol;
   the sender is not Clone (its Drop closes unconditionally: ODropTx), recv is ORecvQ *)
Definition q_send_shape : list sk_op :=
  [SkLoad SkClosed OAcquire; SkRetErrClosed; SkPushLock; SkCallPush; SkNotifyOne; SkRetOk; SkTryLock;
   SkRetOkIfLockBusy; SkCallPop; SkCallPush; SkNotifyOne; SkRetOk; SkUnlock; SkPushUnlock].
Definition q_try_send_shape : list sk_op :=
  [SkLoad SkClosed OAcquire; SkRetErrClosed; SkPushLock; SkCallPush; SkNotifyOne; SkRetOk;
   SkRetErrWouldBlockIfFull; SkPushUnlock].
Definition q_drop_shape : list sk_op := [SkStoreTrue SkClosed ORelease; SkNotifyWaiters].
Definition q_recv_shape : list sk_op :=
  [SkLock;                        (* CQLock *)
   SkLoad SkClosed OAcquire;      (* CQClosed1: before the pop (fix dc21402) *)
   SkCallPop;                     (* CQPop _ *)
   SkRetSample;                   (* CQUnlockRet *)
   SkIfClosedLocal;
   SkRetEos;                      (* CQUnlockEos *)
   SkUnlock;                      (* CQUnlockWait *)
   SkNotifiedCreate;              (* CQCreate *)
   SkIsEmpty;                     (* CQEmptyH / CQEmptyT *)
   SkLoad SkClosed OAcquire;      (* CQClosed2 *)
   SkNotifiedAwait].              (* CQAwait / CQWaiting *)
