(* C04 / C05 -- model of src/srtp.rs (SrtpContext, SrtpSession) and of the RTP header codec used by it
   (src/rtp.rs RtpHeader::{parse, write_to, validate, encoded_len}).

   Definitions only (total, computable); proofs live in Proofs/Srtp*.v.

   Cryptography is symbolic: every function takes a record `crypto` of primitives
     ks   key iv n        -- the first n bytes of the AES-CM key stream (AES-128-CTR, big-endian 128-bit counter)
     mac  key msg         -- HMAC-SHA1 (20 bytes)
     seal key nonce aad m -- AES-128-GCM: ciphertext ++ 16-byte tag
     open key nonce aad c -- inverse of seal, None when the tag does not verify
   and theorems take the algebraic facts they need as explicit premises (`crypto_ok`).  The model
   runner instantiates the record with finite tables computed by the RustCrypto crates.

   Integer state is Z with the wrap-around of the Rust types made explicit through the translated
   leaf functions of Gen/SrtpArith.v (estimate_roc, update_newer, the profile tables, E-bit masks and
   IV / nonce offsets).

   Not modelled: the `output.len() != protected_len` guard of `protect` (callers size the buffer with
   protected_rtp_len, which is the modelled length), the reuse of `auth_scratch`, wall-clock reads
   (the session functions take the current time as an argument), debug-profile overflow panics of
   `rtcp_index += 1` (2^32 SRTCP packets). *)
From Coq Require Import ZArith List Bool Lia.
From RV Require Import Lib.Wrap Gen.Consts Gen.SrtpArith.
Import ListNotations.
Open Scope Z_scope.
Open Scope bool_scope.

Definition bytes : Set := list Z.
Definition zlen {A : Type} (l : list A) : Z := Z.of_nat (length l).

(* ------------------------------------------------------------------ bytes *)
Definition be16 (x : Z) : bytes := [x / 256 mod 256; x mod 256].
Definition be32 (x : Z) : bytes := [x / 16777216 mod 256; x / 65536 mod 256; x / 256 mod 256; x mod 256].
Definition be64 (x : Z) : bytes := be32 (x / 4294967296 mod 4294967296) ++ be32 (x mod 4294967296).
Definition of_be (l : bytes) : Z := fold_left (fun a b => a * 256 + b) l 0.

Fixpoint bytes_eqb (a b : bytes) : bool :=
  match a, b with
  | [], [] => true
  | x :: a', y :: b' => (x =? y) && bytes_eqb a' b'
  | _, _ => false
  end.

(* data XOR stream, over the length of data (stream bytes beyond it are ignored) *)
Fixpoint xor_bytes (a s : bytes) : bytes :=
  match a, s with
  | x :: a', y :: s' => Z.lxor x y :: xor_bytes a' s'
  | _, _ => a
  end.

(* XOR v into l starting at byte offset off *)
Fixpoint xor_at (l : bytes) (off : nat) (v : bytes) : bytes :=
  match off, l with
  | O, _ => xor_bytes l v
  | S o, x :: l' => x :: xor_at l' o v
  | S _, [] => []
  end.

Definition pad_to (n : nat) (l : bytes) : bytes := l ++ repeat 0 (n - length l).

(* ------------------------------------------------------------------ symbolic crypto *)
Record crypto : Type := mkCrypto {
  ks : bytes -> bytes -> nat -> bytes;
  mac : bytes -> bytes -> bytes;
  seal : bytes -> bytes -> bytes -> bytes -> bytes;
  open : bytes -> bytes -> bytes -> bytes -> option bytes }.

Definition GCM_TAG : Z := 16.

(* the algebraic premises (not security assumptions) *)
Record crypto_ok (c : crypto) : Prop := mkCryptoOk {
  ks_len : forall k iv n, length (ks c k iv n) = n;
  mac_len : forall k m, length (mac c k m) = Z.to_nat SHA1_LEN;
  seal_len : forall k n a m, length (seal c k n a m) = (length m + Z.to_nat GCM_TAG)%nat;
  open_seal : forall k n a m, open c k n a (seal c k n a m) = Some m }.

Definition ctr_xor (c : crypto) (key iv data : bytes) : bytes :=
  xor_bytes data (ks c key iv (length data)).

(* ------------------------------------------------------------------ RTP header (src/rtp.rs) *)
Record ext : Set := mkExt { e_profile : Z; e_data : bytes }.
Record hdr : Set := mkHdr {
  h_marker : bool; h_pt : Z; h_seq : Z; h_ts : Z; h_ssrc : Z; h_csrcs : list Z; h_ext : option ext }.
Record rtp : Set := mkRtp { r_hdr : hdr; r_payload : bytes; r_padlen : Z }.

(* RtpHeader::validate *)
Definition hdr_valid (h : hdr) : bool :=
  (zlen (h_csrcs h) <=? 15) &&
  match h_ext h with Some e => zlen (e_data e) mod 4 =? 0 | None => true end.

(* RtpHeader::encoded_len *)
Definition hdr_len (h : hdr) : Z :=
  12 + zlen (h_csrcs h) * 4 + match h_ext h with Some e => 4 + zlen (e_data e) | None => 0 end.

(* RtpHeader::write_to (bit fields are disjoint, so `|` is `+`) *)
Definition write_hdr (pad : bool) (h : hdr) : bytes :=
  let b0 := RTP_VERSION * 64 + (if pad then 32 else 0) + (if h_ext h then 16 else 0) + zlen (h_csrcs h) mod 16 in
  let b1 := h_pt h mod 128 + (if h_marker h then 128 else 0) in
  b0 :: b1 :: be16 (h_seq h) ++ be32 (h_ts h) ++ be32 (h_ssrc h) ++ flat_map be32 (h_csrcs h) ++
  match h_ext h with
  | Some e => be16 (e_profile e) ++ be16 (cast_u16 (zlen (e_data e) / 4)) ++ e_data e
  | None => []
  end.

Fixpoint take_be32s (n : nat) (l : bytes) : option (list Z * bytes) :=
  match n with
  | O => Some ([], l)
  | S n' =>
      match l with
      | a :: b :: c :: d :: rest =>
          match take_be32s n' rest with
          | Some (xs, rest') => Some (of_be [a; b; c; d] :: xs, rest')
          | None => None
          end
      | _ => None
      end
  end.

(* RtpHeader::parse : header, clear padding bit, remaining bytes (the SRTP body) *)
Definition parse_hdr (raw : bytes) : option (hdr * bool * bytes) :=
  match raw with
  | b0 :: b1 :: s1 :: s0 :: t3 :: t2 :: t1 :: t0 :: c3 :: c2 :: c1 :: c0 :: rest =>
      if negb (b0 / 64 =? RTP_VERSION) then None else
      (* bit tests written with / and mod: b & 0x20 != 0 <-> (b / 32) mod 2 = 1 on bytes *)
      let padding := (b0 / 32) mod 2 =? 1 in
      let has_ext := (b0 / 16) mod 2 =? 1 in
      let cc := b0 mod 16 in
      let marker := (b1 / 128) mod 2 =? 1 in
      let pt := b1 mod 128 in
      match take_be32s (Z.to_nat cc) rest with
      | None => None
      | Some (csrcs, rest1) =>
          let mk e := mkHdr marker pt (of_be [s1; s0]) (of_be [t3; t2; t1; t0]) (of_be [c3; c2; c1; c0]) csrcs e in
          if has_ext then
            match rest1 with
            | p1 :: p0 :: l1 :: l0 :: rest2 =>
                let elen := of_be [l1; l0] * 4 in
                if zlen rest2 <? elen then None
                else Some (mk (Some (mkExt (of_be [p1; p0]) (firstn (Z.to_nat elen) rest2))), padding,
                           skipn (Z.to_nat elen) rest2)
            | _ => None
            end
          else Some (mk None, padding, rest1)
      end
  | _ => None
  end.

(* SrtpPacket: parsed clear header + protected body + clear padding bit *)
Record spkt : Set := mkSpkt { sp_hdr : hdr; sp_body : bytes; sp_pad : bool }.
Definition spkt_parse (raw : bytes) : option spkt :=
  match parse_hdr raw with
  | Some (h, p, body) => Some (mkSpkt h body p)
  | None => None
  end.

(* ------------------------------------------------------------------ results *)
Inductive err : Set := ETooShort | EAuth | EUnsupported | EInternal | EInvalidHeader.
Inductive res (A : Type) : Type := Ok (a : A) | Err (e : err) | Panic.
Arguments Ok {A} a.
Arguments Err {A} e.
Arguments Panic {A}.

Definition is_ok {A} (r : res A) : bool := match r with Ok _ => true | _ => false end.

(* ------------------------------------------------------------------ context *)
Record skeys : Set := mkKeys { k_cipher : bytes; k_auth : bytes; k_salt : bytes }.

Record ctx : Set := mkCtx {
  c_ssrc : Z; c_prof : SrtpProfile; c_rtp : skeys; c_rtcp : skeys;
  c_roc : Z; c_last : option Z; c_rtcp_index : Z }.

Definition is_gcm (p : SrtpProfile) : bool := SrtpProfile_eqb p SrtpProfile_AeadAes128Gcm.
Definition is_null (p : SrtpProfile) : bool := SrtpProfile_eqb p SrtpProfile_NullCipherHmac.

(* SrtpContext::kdf : AES-CM PRF, IV = master_salt (first 14 bytes) with the label XORed into byte 7 *)
Definition kdf_iv (label : Z) (msalt : bytes) : bytes :=
  xor_at (pad_to 16 (firstn 14 msalt)) 7 [label].
Definition kdf (c : crypto) (len label : Z) (mkey msalt : bytes) : bytes :=
  ks c (firstn 16 mkey) (kdf_iv label msalt) (Z.to_nat len).

Definition derive (c : crypto) (p : SrtpProfile) (mkey msalt : bytes) : skeys * skeys :=
  let auth l := if 0 <? auth_key_len p then kdf c (auth_key_len p) l mkey msalt else [] in
  (mkKeys (kdf c (key_len p) 0 mkey msalt) (auth 1) (kdf c (salt_len p) 2 mkey msalt),
   mkKeys (kdf c (key_len p) 3 mkey msalt) (auth 4) (kdf c (salt_len p) 5 mkey msalt)).

(* SrtpContext::new *)
Definition ctx_new (c : crypto) (ssrc : Z) (p : SrtpProfile) (mkey msalt : bytes) : option ctx :=
  if (zlen mkey <? key_len p) || (zlen msalt <? salt_len p) then None
  else let '(k1, k2) := derive c p mkey msalt in Some (mkCtx ssrc p k1 k2 0 None 0).

(* ---- rollover state *)
Definition rl : Set := (Z * option Z)%type.      (* (rollover_counter, last_sequence) *)

Definition est_rl (st : rl) (seq : Z) : Z := estimate_roc (snd st) (fst st) seq.

(* SrtpContext::update (assignment skeleton checked by the translator, comparison translated) *)
Definition update_rl (st : rl) (seq roc : Z) : rl :=
  match snd st with
  | None => (roc, Some seq)
  | Some l => if update_newer (fst st) l seq roc then (roc, Some seq) else st
  end.

Definition ctx_rl (st : ctx) : rl := (c_roc st, c_last st).
Definition set_rl (st : ctx) (r : rl) : ctx :=
  mkCtx (c_ssrc st) (c_prof st) (c_rtp st) (c_rtcp st) (fst r) (snd r) (c_rtcp_index st).
Definition set_rtcp_index (st : ctx) (i : Z) : ctx :=
  mkCtx (c_ssrc st) (c_prof st) (c_rtp st) (c_rtcp st) (c_roc st) (c_last st) i.
Definition update (st : ctx) (seq roc : Z) : ctx := set_rl st (update_rl (ctx_rl st) seq roc).

(* ---- IV / nonce construction *)
Definition off (z : Z) : nat := Z.to_nat z.

(* build_iv: IV = (salt * 2^16) XOR (SSRC * 2^64) XOR (index * 2^16), index = roc << 16 | seq *)
Definition build_iv (st : ctx) (seq roc : Z) : bytes :=
  let index := cast_u64 (Z.lor (cast_u64 (Z.shiftl roc 16)) seq) in
  let iv_part := cast_u64 (Z.shiftl index 16) in
  xor_at (xor_at (pad_to 16 (firstn 14 (k_salt (c_rtp st)))) (off IV_SSRC_OFF) (be32 (c_ssrc st)))
         (off IV_INDEX_OFF) (be64 iv_part).

Definition gcm_nonce (st : ctx) (seq roc : Z) : bytes :=
  xor_at (xor_at (xor_at (firstn 12 (k_salt (c_rtp st))) (off GCM_SSRC_OFF) (be32 (c_ssrc st)))
                 (off GCM_ROC_OFF) (be32 roc)) (off GCM_SEQ_OFF) (be16 seq).

Definition rtcp_iv (st : ctx) (index : Z) : bytes :=
  xor_at (xor_at (pad_to 16 (firstn 14 (k_salt (c_rtcp st)))) (off RTCP_IV_SSRC_OFF) (be32 (c_ssrc st)))
         (off RTCP_IV_INDEX_OFF) (be32 index).

Definition gcm_rtcp_nonce (st : ctx) (index : Z) : bytes :=
  xor_at (xor_at (firstn 12 (k_salt (c_rtcp st))) (off GCM_RTCP_SSRC_OFF) (be32 (c_ssrc st)))
         (off GCM_RTCP_INDEX_OFF) (be32 index).

(* ---- RTP *)
Definition rtp_body (p : rtp) : bytes := r_payload p ++ repeat (r_padlen p) (Z.to_nat (r_padlen p)).

(* SrtpContext::protected_rtp_len *)
Definition protected_rtp_len (st : ctx) (p : rtp) : Z :=
  hdr_len (r_hdr p) + zlen (r_payload p) + r_padlen p + tag_len (c_prof st).

(* the MAC input of an HMAC profile: clear header || (encrypted) body || ROC *)
Definition rtp_mac_input (hb body : bytes) (roc : Z) : bytes := hb ++ body ++ be32 roc.
Definition rtp_tag (c : crypto) (st : ctx) (hb body : bytes) (roc : Z) : bytes :=
  firstn (Z.to_nat (tag_len (c_prof st))) (mac c (k_auth (c_rtp st)) (rtp_mac_input hb body roc)).

(* SrtpContext::protect *)
Definition protect (c : crypto) (st : ctx) (p : rtp) : res bytes * ctx :=
  if negb (hdr_valid (r_hdr p)) then (Err EInvalidHeader, st) else
  let seq := h_seq (r_hdr p) in
  let roc := est_rl (ctx_rl st) seq in
  let hb := write_hdr (negb (r_padlen p =? 0)) (r_hdr p) in
  let body := rtp_body p in
  if is_gcm (c_prof st) then
    (Ok (hb ++ seal c (k_cipher (c_rtp st)) (gcm_nonce st seq roc) hb body), update st seq roc)
  else
    let enc := if negb (zlen body =? 0) && negb (is_null (c_prof st))
               then ctr_xor c (k_cipher (c_rtp st)) (build_iv st seq roc) body else body in
    (Ok (hb ++ enc ++ rtp_tag c st hb enc roc), update st seq roc).

(* padding removal after decryption, then the state update, then Ok *)
Definition unprotect_finish (st : ctx) (sp : spkt) (seq roc : Z) (pt : bytes) : res rtp * ctx :=
  if sp_pad sp then
    match pt with
    | [] => (Err ETooShort, st)
    | _ :: _ =>
        let pl := last pt 0 in
        if (pl =? 0) || (zlen pt <? pl) then (Err EInternal, st)
        else (Ok (mkRtp (sp_hdr sp) (firstn (length pt - Z.to_nat pl) pt) pl), update st seq roc)
    end
  else (Ok (mkRtp (sp_hdr sp) pt 0), update st seq roc).

(* SrtpContext::unprotect *)
Definition unprotect (c : crypto) (st : ctx) (sp : spkt) : res rtp * ctx :=
  let tl := tag_len (c_prof st) in
  if zlen (sp_body sp) <? tl then (Err ETooShort, st) else
  let seq := h_seq (sp_hdr sp) in
  let roc := est_rl (ctx_rl st) seq in
  let hb := write_hdr (sp_pad sp) (sp_hdr sp) in
  if is_gcm (c_prof st) then
    match open c (k_cipher (c_rtp st)) (gcm_nonce st seq roc) hb (sp_body sp) with
    | None => (Err EAuth, st)
    | Some pt => unprotect_finish st sp seq roc pt
    end
  else
    let split := (length (sp_body sp) - Z.to_nat tl)%nat in
    let ct := firstn split (sp_body sp) in
    let tag := skipn split (sp_body sp) in
    if negb (bytes_eqb tag (rtp_tag c st hb ct roc)) then (Err EAuth, st) else
    let pt := if negb (zlen ct =? 0) && negb (is_null (c_prof st))
              then ctr_xor c (k_cipher (c_rtp st)) (build_iv st seq roc) ct else ct in
    unprotect_finish st sp seq roc pt.

(* ---- RTCP *)
Definition rtcp_tag (c : crypto) (st : ctx) (m : bytes) : bytes :=
  firstn (Z.to_nat (rtcp_tag_len (c_prof st))) (mac c (k_auth (c_rtcp st)) m).

(* SrtpContext::protect_rtcp *)
Definition protect_rtcp (c : crypto) (st : ctx) (pkt : bytes) : res bytes * ctx :=
  let index := cast_u32 (c_rtcp_index st + 1) in
  let st1 := set_rtcp_index st index in
  let index_with_e := Z.lor index SRTCP_E_BIT in
  if is_gcm (c_prof st) then
    if zlen pkt <? 8 then (Panic, st1) else
    let aad := firstn 8 pkt ++ be32 index_with_e in
    let ct := seal c (k_cipher (c_rtcp st)) (gcm_rtcp_nonce st index) aad (skipn 8 pkt) in
    (Ok (firstn 8 pkt ++ ct ++ be32 index_with_e), st1)
  else
    let enc := if 8 <? zlen pkt
               then firstn 8 pkt ++ ctr_xor c (k_cipher (c_rtcp st)) (rtcp_iv st index) (skipn 8 pkt)
               else pkt in
    let m := enc ++ be32 index_with_e in
    (Ok (m ++ rtcp_tag c st m), st1).

Definition bump_rtcp_index (st : ctx) (index : Z) : ctx :=
  if c_rtcp_index st <? index then set_rtcp_index st index else st.

(* SrtpContext::unprotect_rtcp *)
Definition unprotect_rtcp (c : crypto) (st : ctx) (pkt : bytes) : res bytes * ctx :=
  let tl := rtcp_tag_len (c_prof st) in
  if zlen pkt <? tl + 4 then (Err ETooShort, st) else
  if is_gcm (c_prof st) then
    let n := length pkt in
    let index_with_e := of_be (skipn (n - 4) pkt) in
    let index := Z.land index_with_e SRTCP_INDEX_MASK in
    let aad := firstn 8 pkt ++ be32 index_with_e in
    let ct := firstn (n - 4 - 8) (skipn 8 pkt) in
    match open c (k_cipher (c_rtcp st)) (gcm_rtcp_nonce st index) aad ct with
    | None => (Err EAuth, st)
    | Some pt => (Ok (firstn 8 pkt ++ pt), bump_rtcp_index st index)
    end
  else
    let split := (length pkt - Z.to_nat tl)%nat in
    let tag := skipn split pkt in
    let m := firstn split pkt in
    if negb (bytes_eqb tag (rtcp_tag c st m)) then (Err EAuth, st) else
    let n := length m in
    let index_with_e := of_be (skipn (n - 4) m) in
    let body := firstn (n - 4) m in
    let e_bit := negb (Z.land index_with_e SRTCP_E_MASK =? 0) in
    let index := Z.land index_with_e SRTCP_INDEX_MASK in
    let st1 := bump_rtcp_index st index in
    if e_bit && (8 <? zlen body)
    then (Ok (firstn 8 body ++ ctr_xor c (k_cipher (c_rtcp st)) (rtcp_iv st index) (skipn 8 body)), st1)
    else (Ok body, st1).

(* ------------------------------------------------------------------ decision-level view of the
   rollover logic: a packet is (sequence number, ROC its sender used); under an ideal MAC / AEAD
   (the ROC is part of the MAC input resp. the nonce) it is accepted iff the receiver's estimate is
   that ROC.  Proofs/SrtpRound.v shows that `unprotect` refines this on genuine packets. *)
Fixpoint tx_rocs (st : rl) (seqs : list Z) : list Z :=
  match seqs with
  | [] => []
  | s :: r => let roc := est_rl st s in roc :: tx_rocs (update_rl st s roc) r
  end.

Definition rx_decide_step (st : rl) (pk : Z * Z) : bool * rl :=
  let '(seq, roc) := pk in
  let est := est_rl st seq in
  if est =? roc then (true, update_rl st seq est) else (false, st).

Fixpoint rx_decide (st : rl) (pks : list (Z * Z)) : list (bool * Z) :=
  match pks with
  | [] => []
  | pk :: r => let '(a, st') := rx_decide_step st pk in (a, fst st') :: rx_decide st' r
  end.

(* ------------------------------------------------------------------ SrtpSession *)
Record entry : Set := mkEntry { en_ssrc : Z; en_ctx : ctx; en_used : Z }.
Record session : Set := mkSession {
  s_prof : SrtpProfile; s_txk : bytes * bytes; s_rxk : bytes * bytes;
  s_tx : list entry; s_rx : list entry }.

Definition session_new (p : SrtpProfile) (txk rxk : bytes * bytes) : session := mkSession p txk rxk [] [].

Fixpoint lookup (ssrc : Z) (t : list entry) : option entry :=
  match t with
  | [] => None
  | e :: r => if en_ssrc e =? ssrc then Some e else lookup ssrc r
  end.
Fixpoint store (e : entry) (t : list entry) : list entry :=
  match t with
  | [] => [e]
  | x :: r => if en_ssrc x =? en_ssrc e then e :: r else x :: store e r
  end.

(* evict_stale_{tx,rx}: HashMap::retain is order-independent, the table is keyed by SSRC *)
Definition evict (now keep : Z) (t : list entry) : list entry :=
  if zlen t <=? SSRC_CONTEXT_HIGH_WATERMARK then t
  else filter (fun e => (en_ssrc e =? keep) || (now - en_used e <? SSRC_INACTIVITY_EVICT_SECS)) t.

(* sending side: evict, then entry(ssrc).or_insert(SrtpContext::new(..)?), last_used = now *)
Definition acquire (c : crypto) (p : SrtpProfile) (k : bytes * bytes) (now ssrc : Z) (t : list entry)
  : option (ctx * list entry) :=
  let t1 := evict now ssrc t in
  match lookup ssrc t1 with
  | Some e => Some (en_ctx e, t1)
  | None => match ctx_new c ssrc p (fst k) (snd k) with
            | Some x => Some (x, t1)
            | None => None
            end
  end.

Definition set_tx (s : session) (t : list entry) := mkSession (s_prof s) (s_txk s) (s_rxk s) t (s_rx s).
Definition set_rx (s : session) (t : list entry) := mkSession (s_prof s) (s_txk s) (s_rxk s) (s_tx s) t.

Definition sess_protect_rtp (c : crypto) (s : session) (now : Z) (p : rtp) : res bytes * session :=
  let ssrc := h_ssrc (r_hdr p) in
  match acquire c (s_prof s) (s_txk s) now ssrc (s_tx s) with
  | None => (Err EUnsupported, set_tx s (evict now ssrc (s_tx s)))
  | Some (x, t1) => let '(r, x') := protect c x p in (r, set_tx s (store (mkEntry ssrc x' now) t1))
  end.

(* the context a session would use for an SSRC: the stored one, else a fresh one *)
Definition effective (c : crypto) (p : SrtpProfile) (k : bytes * bytes) (ssrc : Z) (t : list entry) : option ctx :=
  match lookup ssrc t with
  | Some e => Some (en_ctx e)
  | None => ctx_new c ssrc p (fst k) (snd k)
  end.

(* SrtpSession::with_rx_context: the operation runs on the stored context, or on a temporary fresh
   one for an unknown SSRC; only when it succeeds is the (new) context stored with last_used = now
   and are stale contexts evicted.  Any failure leaves the session exactly as it was. *)
Definition with_rx {A : Type} (c : crypto) (s : session) (now ssrc : Z) (op : ctx -> res A * ctx)
  : res A * session :=
  match effective c (s_prof s) (s_rxk s) ssrc (s_rx s) with
  | None => (Err EUnsupported, s)
  | Some x =>
      let '(r, x') := op x in
      if is_ok r then (r, set_rx s (evict now ssrc (store (mkEntry ssrc x' now) (s_rx s)))) else (r, s)
  end.

Definition sess_unprotect_rtp (c : crypto) (s : session) (now : Z) (sp : spkt) : res rtp * session :=
  with_rx c s now (h_ssrc (sp_hdr sp)) (fun x => unprotect c x sp).

Definition rtcp_ssrc (pkt : bytes) : Z := of_be (firstn 4 (skipn 4 pkt)).

Definition sess_protect_rtcp (c : crypto) (s : session) (now : Z) (pkt : bytes) : res bytes * session :=
  if zlen pkt <? SESSION_RTCP_MIN_PLAIN then (Err ETooShort, s) else
  let ssrc := rtcp_ssrc pkt in
  match acquire c (s_prof s) (s_txk s) now ssrc (s_tx s) with
  | None => (Err EUnsupported, set_tx s (evict now ssrc (s_tx s)))
  | Some (x, t1) => let '(r, x') := protect_rtcp c x pkt in (r, set_tx s (store (mkEntry ssrc x' now) t1))
  end.

Definition sess_unprotect_rtcp (c : crypto) (s : session) (now : Z) (pkt : bytes) : res bytes * session :=
  if zlen pkt <? SESSION_RTCP_MIN_PROTECTED then (Err ETooShort, s) else
  with_rx c s now (rtcp_ssrc pkt) (fun x => unprotect_rtcp c x pkt).

(* ------------------------------------------------------------------ setup_srtp key split
   (src/peer_connection.rs): exporter output = client_key || server_key || client_salt || server_salt *)
Definition slice (a b : Z) (l : bytes) : bytes := firstn (Z.to_nat (b - a)) (skipn (Z.to_nat a) l).

(* returns (tx (key, salt), rx (key, salt)) *)
Definition key_split (is_client : bool) (code : option Z) (mat : bytes)
  : (bytes * bytes) * (bytes * bytes) :=
  let p := setup_profile code in         (* translated: profile code table of setup_srtp *)
  let kl := setup_key_len p in           (* translated: the function's own length tables *)
  let sl := setup_salt_len p in
  let ck := slice 0 kl mat in
  let sk := slice kl (2 * kl) mat in
  let cs := slice (2 * kl) (2 * kl + sl) mat in
  let ss := slice (2 * kl + sl) (2 * kl + 2 * sl) mat in
  if is_client then ((ck, cs), (sk, ss)) else ((sk, ss), (ck, cs)).

(* ------------------------------------------------------------------ session histories
   operations of a session, their per-(direction, SSRC) key, one step and whole runs; and the same
   operation applied to a single context (with the session's SRTCP length guards), used to state
   that a session is the product of independent per-SSRC contexts. *)
Inductive sop : Set :=
| SProtRtp (p : rtp) | SUnprotRtp (sp : spkt) | SProtRtcp (pkt : bytes) | SUnprotRtcp (pkt : bytes).
Inductive sout : Set := OTx (r : res bytes) | ORxRtp (r : res rtp) | ORxRtcp (r : res bytes).
Definition skey : Set := (bool * Z)%type.          (* (sending side?, SSRC) *)
Definition skey_eqb (a b : skey) : bool := Bool.eqb (fst a) (fst b) && (snd a =? snd b).

Definition sop_key (o : sop) : skey :=
  match o with
  | SProtRtp p => (true, h_ssrc (r_hdr p))
  | SUnprotRtp sp => (false, h_ssrc (sp_hdr sp))
  | SProtRtcp pkt => (true, rtcp_ssrc pkt)
  | SUnprotRtcp pkt => (false, rtcp_ssrc pkt)
  end.

Definition sess_step (c : crypto) (s : session) (now : Z) (o : sop) : sout * session :=
  match o with
  | SProtRtp p => let '(r, s') := sess_protect_rtp c s now p in (OTx r, s')
  | SUnprotRtp sp => let '(r, s') := sess_unprotect_rtp c s now sp in (ORxRtp r, s')
  | SProtRtcp pkt => let '(r, s') := sess_protect_rtcp c s now pkt in (OTx r, s')
  | SUnprotRtcp pkt => let '(r, s') := sess_unprotect_rtcp c s now pkt in (ORxRtcp r, s')
  end.

Fixpoint sess_run (c : crypto) (s : session) (l : list (Z * sop)) : list (skey * sout) * session :=
  match l with
  | [] => ([], s)
  | (now, o) :: r => let '(out, s1) := sess_step c s now o in
                     let '(outs, s2) := sess_run c s1 r in ((sop_key o, out) :: outs, s2)
  end.

Definition ctx_step (c : crypto) (x : ctx) (o : sop) : sout * ctx :=
  match o with
  | SProtRtp p => let '(r, x') := protect c x p in (OTx r, x')
  | SUnprotRtp sp => let '(r, x') := unprotect c x sp in (ORxRtp r, x')
  | SProtRtcp pkt => if zlen pkt <? SESSION_RTCP_MIN_PLAIN then (OTx (Err ETooShort), x)
                     else let '(r, x') := protect_rtcp c x pkt in (OTx r, x')
  | SUnprotRtcp pkt => if zlen pkt <? SESSION_RTCP_MIN_PROTECTED then (ORxRtcp (Err ETooShort), x)
                       else let '(r, x') := unprotect_rtcp c x pkt in (ORxRtcp r, x')
  end.

Fixpoint ctx_run (c : crypto) (x : ctx) (l : list sop) : list sout * ctx :=
  match l with
  | [] => ([], x)
  | o :: r => let '(out, x1) := ctx_step c x o in let '(outs, x2) := ctx_run c x1 r in (out :: outs, x2)
  end.

(* the effective context of a (direction, SSRC) pair *)
Definition eff (c : crypto) (s : session) (k : skey) : option ctx :=
  if fst k then effective c (s_prof s) (s_txk s) (snd k) (s_tx s)
  else effective c (s_prof s) (s_rxk s) (snd k) (s_rx s).

(* table slots needed once `ssrc` is present *)
Definition slots (ssrc : Z) (t : list entry) : Z :=
  zlen t + match lookup ssrc t with Some _ => 0 | None => 1 end.

(* the step runs without eviction pressure: the sending table is checked before the insert
   (evict_stale_tx), the receiving table after it (with_rx_context) *)
Definition step_calm (s : session) (o : sop) : Prop :=
  if fst (sop_key o) then zlen (s_tx s) <= SSRC_CONTEXT_HIGH_WATERMARK
  else slots (snd (sop_key o)) (s_rx s) <= SSRC_CONTEXT_HIGH_WATERMARK.

Fixpoint calm (c : crypto) (s : session) (l : list (Z * sop)) : Prop :=
  match l with
  | [] => True
  | (now, o) :: r => step_calm s o /\ calm c (snd (sess_step c s now o)) r
  end.

(* sub-history of one (direction, SSRC) pair *)
Definition sub_ops (k : skey) (l : list (Z * sop)) : list sop :=
  map snd (filter (fun no => skey_eqb (sop_key (snd no)) k) l).
Definition sub_outs (k : skey) (outs : list (skey * sout)) : list sout :=
  map snd (filter (fun ko => skey_eqb (fst ko) k) outs).
