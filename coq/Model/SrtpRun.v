(* Executable correspondence machinery shared by Run/C04Run.v and Run/C05Run.v.

   A `Sess` case is a script run against one sending and one receiving SrtpContext of the real
   implementation (same keys).  The harness supplies the values of the cryptographic primitives at
   the points its RFC-derived reference needs them (AES-CM key streams by (key, IV), HMAC-SHA1 by
   (key, message), AES-GCM by (key, nonce, AAD, plaintext)), computed with the RustCrypto crates;
   the model looks its own keys / IVs / nonces / MAC inputs up in those tables, so a model that lays
   the bytes out differently from the reference misses the table and disagrees with the
   implementation's output.  `open` is the inverse image of the seal table. *)
From Coq Require Import ZArith List Bool.
From RV Require Import Lib.Wrap Gen.Consts Gen.SrtpArith Model.Srtp.
Import ListNotations.
Open Scope Z_scope.

Record tables : Set := mkTables {
  t_ks : list (bytes * bytes * bytes);                       (* key, iv, stream *)
  t_mac : list (bytes * bytes * bytes);                      (* key, message, hmac *)
  t_seal : list (bytes * bytes * bytes * bytes * bytes) }.   (* key, nonce, aad, plaintext, ct||tag *)

Fixpoint find_ks (t : list (bytes * bytes * bytes)) (k iv : bytes) : option bytes :=
  match t with
  | [] => None
  | (k', iv', s) :: r => if bytes_eqb k k' && bytes_eqb iv iv' then Some s else find_ks r k iv
  end.
Fixpoint find_seal (t : list (bytes * bytes * bytes * bytes * bytes)) (k n a m : bytes) : option bytes :=
  match t with
  | [] => None
  | (k', n', a', m', o) :: r =>
      if bytes_eqb k k' && bytes_eqb n n' && bytes_eqb a a' && bytes_eqb m m' then Some o else find_seal r k n a m
  end.
Fixpoint find_open (t : list (bytes * bytes * bytes * bytes * bytes)) (k n a o : bytes) : option bytes :=
  match t with
  | [] => None
  | (k', n', a', m', o') :: r =>
      if bytes_eqb k k' && bytes_eqb n n' && bytes_eqb a a' && bytes_eqb o o' then Some m' else find_open r k n a o
  end.

Definition crypto_of (t : tables) : crypto :=
  mkCrypto
    (fun k iv n => match find_ks (t_ks t) k iv with Some s => firstn n s | None => [] end)
    (fun k m => match find_ks (t_mac t) k m with Some s => s | None => [] end)
    (fun k n a m => match find_seal (t_seal t) k n a m with Some o => o | None => [] end)
    (fun k n a o => find_open (t_seal t) k n a o).

(* ---- observations *)
Inductive xres (A : Set) : Set := XOk (a : A) | XErr (e : err) | XPanic | XParse.
Arguments XOk {A} a.
Arguments XErr {A} e.
Arguments XPanic {A}.
Arguments XParse {A}.

(* EInvalidHeader and EInternal are the same error class of the implementation (SrtpError::Internal) *)
Definition err_eqb (a b : err) : bool :=
  match a, b with
  | ETooShort, ETooShort | EAuth, EAuth | EUnsupported, EUnsupported => true
  | (EInternal | EInvalidHeader), (EInternal | EInvalidHeader) => true
  | _, _ => false
  end.

Definition to_x {A : Set} (r : res A) : xres A :=
  match r with Ok a => XOk a | Err e => XErr e | Panic => XPanic end.

Fixpoint zl_eqb (a b : list Z) : bool :=
  match a, b with
  | [], [] => true
  | x :: a', y :: b' => (x =? y) && zl_eqb a' b'
  | _, _ => false
  end.

Definition ext_eqb (a b : option ext) : bool :=
  match a, b with
  | None, None => true
  | Some x, Some y => (e_profile x =? e_profile y) && zl_eqb (e_data x) (e_data y)
  | _, _ => false
  end.
Definition hdr_eqb (a b : hdr) : bool :=
  Bool.eqb (h_marker a) (h_marker b) && (h_pt a =? h_pt b) && (h_seq a =? h_seq b) && (h_ts a =? h_ts b) &&
  (h_ssrc a =? h_ssrc b) && zl_eqb (h_csrcs a) (h_csrcs b) && ext_eqb (h_ext a) (h_ext b).
Definition rtp_eqb (a b : rtp) : bool :=
  hdr_eqb (r_hdr a) (r_hdr b) && zl_eqb (r_payload a) (r_payload b) && (r_padlen a =? r_padlen b).

Definition xres_eqb {A : Set} (eq : A -> A -> bool) (a b : xres A) : bool :=
  match a, b with
  | XOk x, XOk y => eq x y
  | XErr e, XErr f => err_eqb e f
  | XPanic, XPanic => true
  | XParse, XParse => true
  | _, _ => false
  end.

(* what the receiver produced: a decoded RTP packet or decoded RTCP bytes *)
Inductive rxout : Set := ORtp (p : rtp) | ORtcp (b : bytes).
Definition rxout_eqb (a b : rxout) : bool :=
  match a, b with
  | ORtp x, ORtp y => rtp_eqb x y
  | ORtcp x, ORtcp y => zl_eqb x y
  | _, _ => false
  end.

(* receiver observation after a step: result, rollover counter, SRTCP index *)
Definition robs : Set := (xres rxout * Z * Z)%type.
Definition robs_eqb (a b : robs) : bool :=
  let '(r1, c1, i1) := a in let '(r2, c2, i2) := b in
  xres_eqb rxout_eqb r1 r2 && (c1 =? c2) && (i1 =? i2).

(* ---- script *)
Inductive op : Set :=
| TxRtp (p : rtp) (out : xres bytes) (roc : Z)     (* sender protects p: output, sender ROC afterwards *)
| TxRtcp (pkt : bytes) (out : xres bytes)
| RxGen (k : Z) (o : robs)                         (* deliver the k-th successful Tx output unchanged *)
| RxFlip (k bit : Z) (o : robs)                    (* ... with one bit flipped (bit index from the first byte, MSB first) *)
| RxTrunc (k len : Z) (o : robs)                   (* ... cut to its first len bytes *)
| RxRawRtp (raw : bytes) (o : robs)                (* an arbitrary datagram on the RTP path *)
| RxRawRtcp (raw : bytes) (o : robs).              (* an arbitrary datagram on the RTCP path *)

Inductive case : Set :=
| Sess (prof : SrtpProfile) (ssrc : Z) (mkey msalt : bytes) (t : tables) (warm : list Z) (ops : list op).

Fixpoint flip_bit (l : bytes) (bit : Z) : bytes :=
  match l with
  | [] => []
  | x :: r => if bit <? 8 then Z.lxor x (Z.shiftl 1 (7 - bit)) :: r else x :: flip_bit r (bit - 8)
  end.

Fixpoint warm_rl (st : rl) (seqs : list Z) : rl :=
  match seqs with
  | [] => st
  | s :: r => warm_rl (update_rl st s (est_rl st s)) r
  end.

(* datagrams produced so far: (is_rtcp, bytes) *)
Definition sent : Set := list (bool * bytes).

Definition rx_rtp (c : crypto) (rx : ctx) (raw : bytes) : xres rxout * ctx :=
  match spkt_parse raw with
  | None => (XParse, rx)
  | Some sp => let '(r, rx') := unprotect c rx sp in
               (match r with Ok p => XOk (ORtp p) | Err e => XErr e | Panic => XPanic end, rx')
  end.
Definition rx_rtcp (c : crypto) (rx : ctx) (raw : bytes) : xres rxout * ctx :=
  let '(r, rx') := unprotect_rtcp c rx raw in
  (match r with Ok p => XOk (ORtcp p) | Err e => XErr e | Panic => XPanic end, rx').
Definition rx_any (c : crypto) (rx : ctx) (d : bool * bytes) : xres rxout * ctx :=
  if fst d then rx_rtcp c rx (snd d) else rx_rtp c rx (snd d).

Definition obs_of (r : xres rxout) (rx : ctx) : robs := (r, c_roc rx, c_rtcp_index rx).

(* run the script; result: one boolean per op (model agrees with the recorded observation) *)
Fixpoint run_ops (c : crypto) (tx rx : ctx) (s : sent) (ops : list op) : list bool :=
  match ops with
  | [] => []
  | TxRtp p out roc :: r =>
      let '(o, tx') := protect c tx p in
      let s' := match o with Ok b => s ++ [(false, b)] | _ => s end in
      (xres_eqb zl_eqb (to_x o) out && (c_roc tx' =? roc)) :: run_ops c tx' rx s' r
  | TxRtcp pkt out :: r =>
      let '(o, tx') := protect_rtcp c tx pkt in
      let s' := match o with Ok b => s ++ [(true, b)] | _ => s end in
      xres_eqb zl_eqb (to_x o) out :: run_ops c tx' rx s' r
  | RxGen k o :: r =>
      let '(x, rx') := rx_any c rx (nth (Z.to_nat k) s (false, [])) in
      robs_eqb (obs_of x rx') o :: run_ops c tx rx' s r
  | RxFlip k bit o :: r =>
      let d := nth (Z.to_nat k) s (false, []) in
      let '(x, rx') := rx_any c rx (fst d, flip_bit (snd d) bit) in
      robs_eqb (obs_of x rx') o :: run_ops c tx rx' s r
  | RxTrunc k len o :: r =>
      let d := nth (Z.to_nat k) s (false, []) in
      let '(x, rx') := rx_any c rx (fst d, firstn (Z.to_nat len) (snd d)) in
      robs_eqb (obs_of x rx') o :: run_ops c tx rx' s r
  | RxRawRtp raw o :: r =>
      let '(x, rx') := rx_rtp c rx raw in
      robs_eqb (obs_of x rx') o :: run_ops c tx rx' s r
  | RxRawRtcp raw o :: r =>
      let '(x, rx') := rx_rtcp c rx raw in
      robs_eqb (obs_of x rx') o :: run_ops c tx rx' s r
  end.

Definition sess_model (cs : case) : list bool :=
  match cs with
  | Sess prof ssrc mkey msalt t warm ops =>
      let c := crypto_of t in
      match ctx_new c ssrc prof mkey msalt with
      | None => [false]
      | Some x0 =>
          let st := set_rl x0 (warm_rl (0, None) warm) in
          run_ops c st st [] ops
      end
  end.

Definition sess_check (cs : case) : bool := forallb (fun b => b) (sess_model cs).
