(* C16 -- model of src/transports/ice/stun.rs: encode_stun_message (append_attribute,
   append_raw_attribute, append_xor_address, pad_four_bytes, update_length_field,
   write_length_field, MESSAGE-INTEGRITY and FINGERPRINT steps), decode_stun_message and
   parse_xor_address.  Buffers are byte lists (list Z); the Vec<u8> `buffer` of the encoder is
   threaded through exactly as in the Rust code (padding is computed from the *buffer* length).
   HMAC-SHA1 is the function argument `mac`; CRC-32 is concrete (Model/StunLib.v).
   All numeric codes come from Gen/StunCodes.v and Gen/Consts.v (generated from the source).

   Not modelled: flowinfo / scope_id of SocketAddrV6 (the encoder reads only ip().octets() and
   port(); the decoder builds addresses with both set to 0).
   Definitions only; proofs live in Proofs/StunProofs.v. *)
From Coq Require Import ZArith List Bool.
From RV Require Import Lib.Wrap.
From RV Require Import Gen.Consts.
From RV Require Import Gen.StunCodes.
From RV Require Import Model.StunLib.
Import ListNotations.
Open Scope Z_scope.
Open Scope bool_scope.

Inductive addr : Set :=
| V4 (ip : list Z) (port : Z)      (* 4 octets *)
| V6 (ip : list Z) (port : Z).     (* 16 octets *)

Inductive attr : Set :=
| AUsername (s : list Z)
| ARealm (s : list Z)
| ANonce (s : list Z)
| ASoftware (s : list Z)
| ARequestedTransport (v : Z)
| ALifetime (v : Z)
| APriority (v : Z)
| AIceControlling (v : Z)
| AIceControlled (v : Z)
| AUseCandidate
| AXorPeer (a : addr)
| AXorMapped (a : addr)
| AChannelNumber (v : Z)
| AData (d : list Z).

Record msg : Set := mkMsg {
  m_class : StunClass; m_method : StunMethod; m_txid : list Z; m_attrs : list attr }.

(* ------------------------------------------------------------------ encoder *)
Definition cookie_bytes : list Z := be32 MAGIC_COOKIE.
Definition port_mask : Z := cast_u16 (Z.shiftr MAGIC_COOKIE 16).

Definition pad_four_bytes (buf : list Z) : list Z :=
  buf ++ zeros ((4 - zlen buf mod 4) mod 4).

Definition append_raw_attribute (buf : list Z) (typ : Z) (value : list Z) : list Z :=
  pad_four_bytes (buf ++ be16 typ ++ be16 (cast_u16 (zlen value)) ++ value).

(* the attribute value written by append_xor_address *)
Definition xor_value (a : addr) (txid : list Z) : list Z :=
  match a with
  | V4 ip port => [0; FAMILY_V4] ++ be16 (Z.lxor port port_mask) ++ xor_bytes ip cookie_bytes
  | V6 ip port => [0; FAMILY_V6] ++ be16 (Z.lxor port port_mask)
                  ++ xor_bytes (firstn 4 ip) cookie_bytes ++ xor_bytes (skipn 4 ip) txid
  end.
Definition xor_len (a : addr) : Z := match a with V4 _ _ => XORLEN_V4 | V6 _ _ => XORLEN_V6 end.

Definition append_xor_address (buf : list Z) (typ : Z) (a : addr) (txid : list Z) : list Z :=
  pad_four_bytes (buf ++ be16 typ ++ be16 (xor_len a) ++ xor_value a txid).

Definition append_attribute (buf : list Z) (a : attr) (txid : list Z) : list Z :=
  match a with
  | AUsername s => pad_four_bytes (append_raw_attribute buf ENC_Username s)
  | ARealm s => pad_four_bytes (append_raw_attribute buf ENC_Realm s)
  | ANonce s => pad_four_bytes (append_raw_attribute buf ENC_Nonce s)
  | ASoftware s => pad_four_bytes (append_raw_attribute buf ENC_Software s)
  | ARequestedTransport v =>
      pad_four_bytes (buf ++ be16 ENC_RequestedTransport ++ be16 ENCLEN_RequestedTransport ++ [v] ++ [0; 0; 0])
  | ALifetime v => pad_four_bytes (buf ++ be16 ENC_Lifetime ++ be16 ENCLEN_Lifetime ++ be32 v)
  | APriority v => pad_four_bytes (buf ++ be16 ENC_Priority ++ be16 ENCLEN_Priority ++ be32 v)
  | AIceControlling v => pad_four_bytes (buf ++ be16 ENC_IceControlling ++ be16 ENCLEN_IceControlling ++ be64 v)
  | AIceControlled v => pad_four_bytes (buf ++ be16 ENC_IceControlled ++ be16 ENCLEN_IceControlled ++ be64 v)
  | AUseCandidate => pad_four_bytes (buf ++ be16 ENC_UseCandidate ++ be16 ENCLEN_UseCandidate)
  | AXorPeer a => append_xor_address buf ENC_XorPeerAddress a txid
  | AXorMapped a => append_xor_address buf ENC_XorMappedAddress a txid
  | AChannelNumber v => pad_four_bytes (buf ++ be16 ENC_ChannelNumber ++ be16 ENCLEN_ChannelNumber ++ be16 v ++ [0; 0])
  | AData d => pad_four_bytes (append_raw_attribute buf ENC_Data d)
  end.

Definition write_length_field (buf : list Z) (len : Z) : list Z :=
  firstn 2 buf ++ be16 (cast_u16 len) ++ skipn 4 buf.
Definition update_length_field (buf : list Z) : list Z :=
  write_length_field buf (zlen buf - STUN_HEADER_LEN).

Definition msg_type (m : msg) : Z := Z.lor (method_code (m_method m)) (class_code (m_class m)).

Definition header (m : msg) : list Z :=
  be16 (cast_u16 (msg_type m)) ++ [0; 0] ++ cookie_bytes ++ m_txid m.

Definition body_buffer (m : msg) : list Z :=
  fold_left (fun b a => append_attribute b a (m_txid m)) (m_attrs m) (header m).

Definition add_integrity (mac : list Z -> list Z -> list Z) (key : option (list Z)) (buf : list Z) : list Z :=
  match key with
  | None => buf
  | Some k =>
    let b := write_length_field buf ((zlen buf - MI_LEN_SUB) + MI_LEN_ADD) in
    update_length_field (append_raw_attribute b ATTR_MESSAGE_INTEGRITY (mac k b))
  end.

Definition add_fingerprint (fp : bool) (buf : list Z) : list Z :=
  if fp then
    let b := write_length_field buf ((zlen buf - FP_LEN_SUB) + FP_LEN_ADD) in
    append_raw_attribute b ATTR_FINGERPRINT (be32 (Z.lxor (crc32 b) FINGERPRINT_XOR))
  else buf.

Definition encode (mac : list Z -> list Z -> list Z) (m : msg) (key : option (list Z)) (fp : bool) : list Z :=
  update_length_field (add_fingerprint fp (add_integrity mac key (update_length_field (body_buffer m)))).

(* ------------------------------------------------------------------ decoder *)
Record decoded : Set := mkDec {
  d_class : StunClass; d_method : StunMethod; d_txid : list Z;
  d_xor_mapped : option addr; d_xor_relayed : option addr; d_xor_peer : option addr;
  d_error_code : option Z; d_realm : option (list Z); d_nonce : option (list Z);
  d_data : option (list Z); d_use_candidate : bool; d_lifetime : option Z }.

Inductive derr : Set := ETooShort | ELengthMismatch | EMethod | EClass.
Inductive dres : Set := DOk (d : decoded) | DErr (e : derr).

Definition parse_xor_address (value txid : list Z) : option addr :=
  if zlen value <? 4 then None
  else
    let family := byte_at value 1 in
    let port := Z.lxor (of_be16 (byte_at value 2) (byte_at value 3)) port_mask in
    if family =? FAMILY_V4 then
      if zlen value <? 8 then None
      else Some (V4 (xor_bytes (firstn 4 (skipn 4 value)) cookie_bytes) port)
    else if family =? FAMILY_V6 then
      if zlen value <? 20 then None
      else Some (V6 (xor_bytes (firstn 4 (skipn 4 value)) cookie_bytes
                     ++ xor_bytes (firstn 12 (skipn 8 value)) txid) port)
    else None.

(* the mutable locals of decode_stun_message *)
Record dacc : Set := mkAcc {
  a_mapped : option addr; a_relayed : option addr; a_peer : option addr; a_error : option Z;
  a_realm : option (list Z); a_nonce : option (list Z); a_data : option (list Z);
  a_use : bool; a_lifetime : option Z }.
Definition acc0 : dacc := mkAcc None None None None None None None false None.

Definition keep {A : Type} (new old : option A) : option A :=
  match new with Some x => Some x | None => old end.

Definition handle (typ : Z) (value txid : list Z) (a : dacc) : dacc :=
  if typ =? DEC_xor_mapped_address then
    mkAcc (keep (parse_xor_address value txid) (a_mapped a)) (a_relayed a) (a_peer a) (a_error a)
          (a_realm a) (a_nonce a) (a_data a) (a_use a) (a_lifetime a)
  else if typ =? DEC_xor_relayed_address then
    mkAcc (a_mapped a) (keep (parse_xor_address value txid) (a_relayed a)) (a_peer a) (a_error a)
          (a_realm a) (a_nonce a) (a_data a) (a_use a) (a_lifetime a)
  else if typ =? DEC_xor_peer_address then
    mkAcc (a_mapped a) (a_relayed a) (keep (parse_xor_address value txid) (a_peer a)) (a_error a)
          (a_realm a) (a_nonce a) (a_data a) (a_use a) (a_lifetime a)
  else if typ =? DEC_error_code then
    mkAcc (a_mapped a) (a_relayed a) (a_peer a)
          (if 4 <=? zlen value then Some (byte_at value 2 * 100 + byte_at value 3) else a_error a)
          (a_realm a) (a_nonce a) (a_data a) (a_use a) (a_lifetime a)
  else if typ =? DEC_realm then
    mkAcc (a_mapped a) (a_relayed a) (a_peer a) (a_error a)
          (if utf8_valid value then Some value else a_realm a) (a_nonce a) (a_data a) (a_use a) (a_lifetime a)
  else if typ =? DEC_nonce then
    mkAcc (a_mapped a) (a_relayed a) (a_peer a) (a_error a) (a_realm a)
          (if utf8_valid value then Some value else a_nonce a) (a_data a) (a_use a) (a_lifetime a)
  else if typ =? DEC_data then
    mkAcc (a_mapped a) (a_relayed a) (a_peer a) (a_error a) (a_realm a) (a_nonce a) (Some value)
          (a_use a) (a_lifetime a)
  else if typ =? DEC_lifetime then
    mkAcc (a_mapped a) (a_relayed a) (a_peer a) (a_error a) (a_realm a) (a_nonce a) (a_data a) (a_use a)
          (if 4 <=? zlen value
           then Some (of_be32 (byte_at value 0) (byte_at value 1) (byte_at value 2) (byte_at value 3))
           else a_lifetime a)
  else if typ =? DEC_use_candidate then
    mkAcc (a_mapped a) (a_relayed a) (a_peer a) (a_error a) (a_realm a) (a_nonce a) (a_data a) true
          (a_lifetime a)
  else a.

(* the `while offset + 4 <= bytes.len()` loop; `rest` is bytes[offset..].  Every iteration
   consumes at least 4 bytes, so fuel = length of the input always suffices. *)
Fixpoint dec_loop (fuel : nat) (rest txid : list Z) (a : dacc) : dacc :=
  match fuel with
  | O => a
  | S f =>
    if zlen rest <? 4 then a
    else
      let typ := of_be16 (byte_at rest 0) (byte_at rest 1) in
      let len := of_be16 (byte_at rest 2) (byte_at rest 3) in
      let rest1 := skipn 4 rest in
      if zlen rest1 <? len then a
      else
        let value := firstn (Z.to_nat len) rest1 in
        dec_loop f (skipn (Z.to_nat (len + (4 - len mod 4) mod 4)) rest1) txid (handle typ value txid a)
  end.

Definition decode (b : list Z) : dres :=
  if zlen b <? 20 then DErr ETooShort
  else
    let mt := of_be16 (byte_at b 0) (byte_at b 1) in
    let len := of_be16 (byte_at b 2) (byte_at b 3) in
    if negb (len + 20 =? zlen b) then DErr ELengthMismatch
    else
      match method_of_code (Z.land mt METHOD_MASK) with
      | None => DErr EMethod
      | Some me =>
        match class_of_code (Z.land mt CLASS_MASK) with
        | None => DErr EClass
        | Some cl =>
          let txid := firstn 12 (skipn 8 b) in
          let a := dec_loop (length b) (skipn 20 b) txid acc0 in
          DOk (mkDec cl me txid (a_mapped a) (a_relayed a) (a_peer a) (a_error a) (a_realm a)
                     (a_nonce a) (a_data a) (a_use a) (a_lifetime a))
        end
      end.

(* ------------------------------------------------------------------ well-formed inputs
   (the ranges Rust's types guarantee: u8 / u16 / u32 / u64 fields, [u8;12] transaction id,
   4- and 16-octet addresses, String = valid UTF-8) *)
Definition wf_addr (a : addr) : Prop :=
  match a with
  | V4 ip port => bytes ip /\ length ip = 4%nat /\ 0 <= port < 65536
  | V6 ip port => bytes ip /\ length ip = 16%nat /\ 0 <= port < 65536
  end.
Definition wf_attr (a : attr) : Prop :=
  match a with
  | AUsername s | ARealm s | ANonce s | ASoftware s => bytes s /\ utf8_valid s = true /\ zlen s < 65536
  | ARequestedTransport v => 0 <= v < 256
  | ALifetime v | APriority v => 0 <= v < 2 ^ 32
  | AIceControlling v | AIceControlled v => 0 <= v < 2 ^ 64
  | AUseCandidate => True
  | AXorPeer a | AXorMapped a => wf_addr a
  | AChannelNumber v => 0 <= v < 65536
  | AData d => bytes d /\ zlen d < 65536
  end.
Definition wf_msg (m : msg) : Prop :=
  bytes (m_txid m) /\ length (m_txid m) = 12%nat /\ Forall wf_attr (m_attrs m).
