(* C16 -- byte-string helpers used by the STUN / TURN / candidate models:
   big-endian fields, 4-byte padding, XOR of byte strings, concrete CRC-32 (IEEE 802.3,
   reflected polynomial 0xEDB88320 -- what crc32fast computes), UTF-8 validity
   (what std::str::from_utf8 accepts).  Definitions only. *)
From Coq Require Import ZArith List Bool.
Import ListNotations.
Open Scope Z_scope.
Open Scope bool_scope.

Definition zlen {A : Type} (l : list A) : Z := Z.of_nat (length l).
Definition byte_at (l : list Z) (i : nat) : Z := nth i l 0.

Definition be16 (x : Z) : list Z := [(x / 256) mod 256; x mod 256].
Definition be32 (x : Z) : list Z :=
  [(x / 16777216) mod 256; (x / 65536) mod 256; (x / 256) mod 256; x mod 256].
Definition be64 (x : Z) : list Z := be32 (x / 4294967296) ++ be32 (x mod 4294967296).
Definition of_be16 (a b : Z) : Z := a * 256 + b.
Definition of_be32 (a b c d : Z) : Z := ((a * 256 + b) * 256 + c) * 256 + d.

Definition zeros (n : Z) : list Z := repeat 0 (Z.to_nat n).
Definition pad4 (n : Z) : Z := (4 - n mod 4) mod 4.

Definition is_byte (b : Z) : Prop := 0 <= b < 256.
Definition bytes (l : list Z) : Prop := Forall is_byte l.
Definition is_byteb (b : Z) : bool := (0 <=? b) && (b <? 256).
Definition bytesb (l : list Z) : bool := forallb is_byteb l.

Fixpoint xor_bytes (a b : list Z) : list Z :=
  match a, b with
  | x :: a', y :: b' => Z.lxor x y :: xor_bytes a' b'
  | _, _ => []
  end.

Fixpoint list_eqb (a b : list Z) : bool :=
  match a, b with
  | [], [] => true
  | x :: a', y :: b' => (x =? y) && list_eqb a' b'
  | _, _ => false
  end.

(* ---- CRC-32 *)
Definition CRC_POLY : Z := 3988292384.   (* 0xEDB88320 *)
Definition crc_step (c : Z) : Z :=
  if Z.testbit c 0 then Z.lxor (Z.shiftr c 1) CRC_POLY else Z.shiftr c 1.
Definition crc_byte (c b : Z) : Z :=
  crc_step (crc_step (crc_step (crc_step (crc_step (crc_step (crc_step (crc_step (Z.lxor c b)))))))).
Definition crc32 (data : list Z) : Z := Z.lxor (fold_left crc_byte data 4294967295) 4294967295.

(* ---- UTF-8 (Unicode table 3-7: no overlongs, no surrogates, at most U+10FFFF) *)
Definition in_range (lo hi b : Z) : bool := (lo <=? b) && (b <=? hi).
Fixpoint utf8_valid (l : list Z) : bool :=
  match l with
  | [] => true
  | b0 :: r0 =>
    if in_range 0 127 b0 then utf8_valid r0
    else if in_range 194 223 b0 then
      match r0 with
      | b1 :: r1 => in_range 128 191 b1 && utf8_valid r1
      | _ => false
      end
    else if in_range 224 239 b0 then
      match r0 with
      | b1 :: b2 :: r2 =>
        (if b0 =? 224 then in_range 160 191 b1
         else if b0 =? 237 then in_range 128 159 b1
         else in_range 128 191 b1) && in_range 128 191 b2 && utf8_valid r2
      | _ => false
      end
    else if in_range 240 244 b0 then
      match r0 with
      | b1 :: b2 :: b3 :: r3 =>
        (if b0 =? 240 then in_range 144 191 b1
         else if b0 =? 244 then in_range 128 143 b1
         else in_range 128 191 b1) && in_range 128 191 b2 && in_range 128 191 b3 && utf8_valid r3
      | _ => false
      end
    else false
  end.
