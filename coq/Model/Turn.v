(* C16 -- TURN long-term credentials and the Allocate requests TurnClient::allocate builds
   (src/transports/ice/turn.rs).  `hash` is MD5 as an explicit function argument.
   Not modelled: the retry loop, sockets, CreatePermission / ChannelBind / Refresh builders,
   ChannelData framing (all crate-private; see notes/C16.md). *)
From Coq Require Import ZArith List Bool.
From RV Require Import Lib.Wrap.
From RV Require Import Gen.StunCodes.
From RV Require Import Gen.TurnConsts.
From RV Require Import Model.StunLib.
From RV Require Import Model.Stun.
Import ListNotations.
Open Scope Z_scope.

(* long_term_key: MD5(username ":" realm ":" password)  (RFC 5389 15.4) *)
Definition long_term_key (hash : list Z -> list Z) (user realm pass : list Z) : list Z :=
  hash (user ++ [LONG_TERM_KEY_SEP] ++ realm ++ [LONG_TERM_KEY_SEP] ++ pass).

(* first attempt: no credentials yet *)
Definition allocate_plain (txid : list Z) : msg :=
  mkMsg StunClass_Request StunMethod_Allocate txid
        [ARequestedTransport TURN_REQUESTED_TRANSPORT; ALifetime DEFAULT_TURN_LIFETIME].
(* after the 401/438 challenge *)
Definition allocate_auth (txid user realm nonce : list Z) : msg :=
  mkMsg StunClass_Request StunMethod_Allocate txid
        [ARequestedTransport TURN_REQUESTED_TRANSPORT; ALifetime DEFAULT_TURN_LIFETIME;
         AUsername user; ARealm realm; ANonce nonce].

Definition allocate_plain_bytes mac (txid : list Z) : list Z := encode mac (allocate_plain txid) None true.
Definition allocate_auth_bytes mac hash (txid user realm nonce pass : list Z) : list Z :=
  encode mac (allocate_auth txid user realm nonce) (Some (long_term_key hash user realm pass)) true.

(* Refresh with LIFETIME = 0 sent when the allocation is destroyed (create_destroy_packet_sync) *)
Definition destroy_msg (txid user realm nonce : list Z) : msg :=
  mkMsg StunClass_Request StunMethod_Refresh txid
        [ALifetime TURN_DESTROY_LIFETIME; AUsername user; ARealm realm; ANonce nonce].
Definition destroy_bytes mac hash (txid user realm nonce pass : list Z) : list Z :=
  encode mac (destroy_msg txid user realm nonce) (Some (long_term_key hash user realm pass)) true.

(* the gatherer's STUN probe: Binding request with SOFTWARE and FINGERPRINT, no integrity *)
Definition probe_msg (txid : list Z) : msg :=
  mkMsg StunClass_Request StunMethod_Binding txid [ASoftware PROBE_SOFTWARE].
Definition probe_bytes mac (txid : list Z) : list Z := encode mac (probe_msg txid) None true.

(* ------------------------------------------------------------------ the Allocate retry loop
   TurnClient::allocate: every attempt takes a fresh transaction id and builds its request from
   the challenge (realm, nonce) of the *previous* response; an error response 401/438 stores the
   new challenge and continues; anything else ends the loop.  `resps` is the list of server
   answers: Some (realm, nonce) = challenge, None = final answer. *)
Fixpoint alloc_loop mac hash (user pass : list Z) (fuel : nat) (info : option (list Z * list Z))
         (txids : list (list Z)) (resps : list (option (list Z * list Z))) : list (list Z) :=
  match fuel, txids with
  | S f, tx :: txs =>
    let req := match info with
               | None => allocate_plain_bytes mac tx
               | Some (realm, nonce) => allocate_auth_bytes mac hash tx user realm nonce pass
               end in
    req :: match resps with
           | Some ch :: rs => alloc_loop mac hash user pass f (Some ch) txs rs
           | _ => []
           end
  | _, _ => []
  end.
Definition allocate_requests mac hash user pass txids resps : list (list Z) :=
  alloc_loop mac hash user pass (Z.to_nat ALLOC_MAX_ATTEMPTS) None txids resps.

(* ------------------------------------------------------------------ requests on an allocation
   (create_permission_packet, create_channel_bind_packet, send_indication with auth state);
   realm / nonce / key are those stored by the successful Allocate *)
Definition perm_msg (txid user realm nonce : list Z) (peer : addr) : msg :=
  mkMsg StunClass_Request StunMethod_CreatePermission txid
        [AUsername user; ARealm realm; ANonce nonce; AXorPeer peer].
Definition bind_msg (txid : list Z) (ch : Z) (peer : addr) (user realm nonce : list Z) : msg :=
  mkMsg StunClass_Request StunMethod_ChannelBind txid
        [AChannelNumber ch; AXorPeer peer; AUsername user; ARealm realm; ANonce nonce].
Definition send_msg (txid user realm nonce : list Z) (peer : addr) (data : list Z) : msg :=
  mkMsg StunClass_Indication StunMethod_Send txid
        [AUsername user; ARealm realm; ANonce nonce; AXorPeer peer; AData data].
Definition perm_bytes mac hash txid user realm nonce pass peer : list Z :=
  encode mac (perm_msg txid user realm nonce peer) (Some (long_term_key hash user realm pass)) true.
Definition bind_bytes mac hash txid ch peer user realm nonce pass : list Z :=
  encode mac (bind_msg txid ch peer user realm nonce) (Some (long_term_key hash user realm pass)) true.
Definition send_bytes mac hash txid user realm nonce pass peer data : list Z :=
  encode mac (send_msg txid user realm nonce peer data) (Some (long_term_key hash user realm pass)) true.

(* ------------------------------------------------------------------ channel numbers
   create_channel_bind_packet: n = *next; if n >= 0x7FFF { *next = 0x4000 } else { *next += 1 }; n *)
Definition chan_step (next : Z) : Z * Z :=
  (next, if next >=? CHANNEL_WRAP_AT then CHANNEL_WRAP_TO else next + 1).
Fixpoint chan_seq (k : nat) (next : Z) : list Z :=
  match k with
  | O => []
  | S k' => fst (chan_step next) :: chan_seq k' (snd (chan_step next))
  end.

(* ------------------------------------------------------------------ ChannelData and transport framing
   send_channel_data: channel number, 16-bit length, data -- no padding; then TurnClient::send:
   UDP: the datagram is the message; TCP: a 16-bit length prefix and the message *)
Definition channel_data (ch : Z) (data : list Z) : list Z :=
  be16 ch ++ be16 (cast_u16 (zlen data)) ++ data.
Definition udp_send (m : list Z) : list Z := m.
Definition tcp_send (m : list Z) : list Z := be16 (cast_u16 (zlen m)) ++ m.

(* RFC 5766 11.4 reader (spec side): channel in 0x4000..0x7FFF, length within the bytes present,
   trailing padding ignored *)
Definition parse_channel_data (b : list Z) : option (Z * list Z) :=
  if zlen b <? 4 then None
  else
    let ch := of_be16 (byte_at b 0) (byte_at b 1) in
    let len := of_be16 (byte_at b 2) (byte_at b 3) in
    if (16384 <=? ch) && (ch <=? 32767) && (len <=? zlen b - 4)
    then Some (ch, firstn (Z.to_nat len) (skipn 4 b)) else None.

(* RFC 5389 7.2.2 / RFC 5766 2.1 reader of a TCP stream (spec side): the first unit is a STUN
   message framed by its own length field (magic cookie in place) or a ChannelData message
   padded to a multiple of four *)
Definition rfc_tcp_first (s : list Z) : option (list Z) :=
  if zlen s <? 4 then None
  else if byte_at s 0 <? 64 then
    let n := 20 + of_be16 (byte_at s 2) (byte_at s 3) in
    if (n <=? zlen s) && list_eqb (firstn 4 (skipn 4 s)) cookie_bytes then Some (firstn (Z.to_nat n) s) else None
  else
    let n := 4 + of_be16 (byte_at s 2) (byte_at s 3) in
    let padded := n + (4 - n mod 4) mod 4 in
    if padded <=? zlen s then Some (firstn (Z.to_nat n) s) else None.
