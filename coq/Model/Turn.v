(* C16 -- TURN long-term credentials and the Allocate requests TurnClient::allocate builds
   (src/transports/ice/turn.rs).  `hash` is MD5 as an explicit function argument.
   Not modelled: the retry loop, sockets, CreatePermission / ChannelBind / Refresh builders,
   ChannelData framing (all crate-private; see notes/C16.md). *)
From Coq Require Import ZArith List Bool.
From RV Require Import Lib.Wrap.
From RV Require Import Gen.StunCodes.
From RV Require Import Gen.TurnConsts.
From RV Require Import Model.StunLib.
From RV Require Import Model.Stun.
Import ListNotations.
Open Scope Z_scope.

(* long_term_key: MD5(username ":" realm ":" password)  (RFC 5389 15.4) *)
Definition long_term_key (hash : list Z -> list Z) (user realm pass : list Z) : list Z :=
  hash (user ++ [LONG_TERM_KEY_SEP] ++ realm ++ [LONG_TERM_KEY_SEP] ++ pass).

(* first attempt: no credentials yet *)
Definition allocate_plain (txid : list Z) : msg :=
  mkMsg StunClass_Request StunMethod_Allocate txid
        [ARequestedTransport TURN_REQUESTED_TRANSPORT; ALifetime DEFAULT_TURN_LIFETIME].
(* after the 401/438 challenge *)
Definition allocate_auth (txid user realm nonce : list Z) : msg :=
  mkMsg StunClass_Request StunMethod_Allocate txid
        [ARequestedTransport TURN_REQUESTED_TRANSPORT; ALifetime DEFAULT_TURN_LIFETIME;
         AUsername user; ARealm realm; ANonce nonce].

Definition allocate_plain_bytes mac (txid : list Z) : list Z := encode mac (allocate_plain txid) None true.
Definition allocate_auth_bytes mac hash (txid user realm nonce pass : list Z) : list Z :=
  encode mac (allocate_auth txid user realm nonce) (Some (long_term_key hash user realm pass)) true.

(* Refresh with LIFETIME = 0 sent when the allocation is destroyed (create_destroy_packet_sync) *)
Definition destroy_msg (txid user realm nonce : list Z) : msg :=
  mkMsg StunClass_Request StunMethod_Refresh txid
        [ALifetime TURN_DESTROY_LIFETIME; AUsername user; ARealm realm; ANonce nonce].
Definition destroy_bytes mac hash (txid user realm nonce pass : list Z) : list Z :=
  encode mac (destroy_msg txid user realm nonce) (Some (long_term_key hash user realm pass)) true.

(* the gatherer's STUN probe: Binding request with SOFTWARE and FINGERPRINT, no integrity *)
Definition probe_msg (txid : list Z) : msg :=
  mkMsg StunClass_Request StunMethod_Binding txid [ASoftware PROBE_SOFTWARE].
Definition probe_bytes mac (txid : list Z) : list Z := encode mac (probe_msg txid) None true.
