(* C08 (part 2) -- offers without a=mid (legacy SIP), first negotiation of a connection: the matching of
   set_remote_description and the matching of create_answer pick the same transceivers (lock-step), so
   kinds, (empty) mids and directions of the answer follow the offer. *)
From Coq Require Import ZArith List Bool String Lia Arith.
From RV Require Import Gen.SdpTables Model.Answer Proofs.AnswerProofs Proofs.AnswerValid.
Import ListNotations.
Open Scope Z_scope.
Open Scope bool_scope.

Definition wfB (secs : list osec) : Prop := Forall (fun s => str_empty (o_mid s) = true) secs.
Definition unused_none (ts : list trx) (u : list nat) : Prop :=
  forall i t, nth_error ts i = Some t -> ~ In i u -> t_mid t = None.
Definition used_lt (ts : list trx) (u : list nat) : Prop := forall i, In i u -> (i < List.length ts)%nat.

Lemma find_from_ext {A} (p q : nat -> A -> bool) l : forall i,
  (forall k x, nth_error l k = Some x -> p (i + k)%nat x = q (i + k)%nat x) -> find_from p i l = find_from q i l.
Proof.
  induction l as [|a l IH]; intros i H; [reflexivity|]. cbn [find_from].
  pose proof (H 0%nat a eq_refl) as H0. rewrite Nat.add_0_r in H0. rewrite <- H0. destruct (p i a); [reflexivity|].
  apply IH. intros k x Hk. replace (S i + k)%nat with (i + S k)%nat by lia. apply H. exact Hk.
Qed.

Lemma find_idx_ext {A} (p q : nat -> A -> bool) l :
  (forall k x, nth_error l k = Some x -> p k x = q k x) -> find_idx p l = find_idx q l.
Proof. intros H. apply find_from_ext. exact H. Qed.

Lemma find_from_intro {A} (p : nat -> A -> bool) l : forall i n x,
  nth_error l n = Some x -> p (i + n)%nat x = true ->
  (forall j y, (j < n)%nat -> nth_error l j = Some y -> p (i + j)%nat y = false) ->
  find_from p i l = Some (i + n)%nat.
Proof.
  induction l as [|a l IH]; intros i n x Hn Hp Hb; [destruct n; discriminate|].
  cbn [find_from]. destruct n as [|n].
  - cbn in Hn. injection Hn as <-. rewrite Nat.add_0_r in *. rewrite Hp. reflexivity.
  - rewrite <- (Nat.add_0_r i) at 1. rewrite (Hb 0%nat a ltac:(lia) eq_refl).
    replace (i + S n)%nat with (S i + n)%nat by lia. apply (IH (S i) n x).
    + exact Hn.
    + replace (S i + n)%nat with (i + S n)%nat by lia. exact Hp.
    + intros j y Hj Hy. replace (S i + j)%nat with (i + S j)%nat by lia. apply Hb; [lia|exact Hy].
Qed.

Lemma find_idx_intro {A} (p : nat -> A -> bool) l n x :
  nth_error l n = Some x -> p n x = true ->
  (forall j y, (j < n)%nat -> nth_error l j = Some y -> p j y = false) ->
  find_idx p l = Some n.
Proof. intros H1 H2 H3. apply (find_from_intro p l 0%nat n x H1 H2 H3). Qed.

(* the matching loop on a mid-less section, when every unused transceiver still has no mid *)
Definition pick_pred (u : list nat) (k : kind) : nat -> trx -> bool :=
  fun i t => negb (used_b u i) && kind_eqb (t_kind t) k.

Lemma sr_step_midless ts u sec :
  str_empty (o_mid sec) = true -> unused_none ts u ->
  sr_step (ts, u) sec =
  match find_idx (pick_pred u (o_kind sec)) ts with
  | Some i => (upd i (set_mid_dir_t (o_mid sec) (o_dir sec)) ts, i :: u)
  | None => ((ts ++ [mkTrx (o_kind sec) (Some (o_mid sec)) (o_dir sec) false])%list, List.length ts :: u)
  end.
Proof.
  intros Hm Hun. unfold sr_step. cbv beta iota zeta. rewrite Hm.
  assert (He : find_idx (fun i t => negb (used_b u i) && mid_none t && kind_eqb (t_kind t) (o_kind sec)) ts
               = find_idx (pick_pred u (o_kind sec)) ts).
  { apply find_idx_ext. intros k x Hk. unfold pick_pred. destruct (used_b u k) eqn:Eu; [reflexivity|].
    apply used_b_false in Eu. unfold mid_none. rewrite (Hun k x Hk Eu). reflexivity. }
  rewrite He. destruct (find_idx (pick_pred u (o_kind sec)) ts) as [i|] eqn:E; [reflexivity|].
  fold (pick_pred u (o_kind sec)). rewrite E. reflexivity.
Qed.

(* tsF extends ts: at least as long, kinds kept, entries marked used kept verbatim *)
Definition ext (u : list nat) (ts tsF : list trx) : Prop :=
  (forall j t, nth_error ts j = Some t -> exists t', nth_error tsF j = Some t' /\ t_kind t' = t_kind t) /\
  (forall j t, In j u -> nth_error ts j = Some t -> nth_error tsF j = Some t).

Lemma ext_refl u ts : ext u ts ts.
Proof. split; [intros j t H; exists t; auto|auto]. Qed.

Lemma ext_trans u u1 ts ts1 tsF :
  (forall i, In i u -> In i u1) -> ext u ts ts1 -> ext u1 ts1 tsF -> ext u ts tsF.
Proof.
  intros Hsub [A1 A2] [B1 B2]. split.
  - intros j t H. destruct (A1 j t H) as [t1 [H1 K1]]. destruct (B1 j t1 H1) as [t2 [H2 K2]].
    exists t2. split; [exact H2|congruence].
  - intros j t Hj H. apply (B2 j t (Hsub j Hj)). apply (A2 j t Hj H).
Qed.

Lemma midless_step_facts ts u sec :
  str_empty (o_mid sec) = true -> unused_none ts u -> used_lt ts u ->
  let '(ts1, u1) := sr_step (ts, u) sec in
  exists p t, u1 = p :: u /\ nth_error ts1 p = Some t /\
              t_kind t = o_kind sec /\ t_mid t = Some (o_mid sec) /\ t_dir t = o_dir sec /\
              unused_none ts1 u1 /\ used_lt ts1 u1 /\ ext u ts ts1 /\ ~ In p u /\
              (* p is the first unused transceiver of that kind, before and after *)
              (forall tsF, (forall j t0, nth_error ts1 j = Some t0 -> exists t', nth_error tsF j = Some t' /\ t_kind t' = t_kind t0) ->
                           find_idx (pick_pred u (o_kind sec)) tsF = Some p).
Proof.
  intros Hm Hun Hlt. rewrite (sr_step_midless ts u sec Hm Hun).
  destruct (find_idx (pick_pred u (o_kind sec)) ts) as [i|] eqn:E.
  - destruct (find_idx_some _ _ _ E) as [x [Hi [Hp Hbefore]]].
    unfold pick_pred in Hp. apply andb_true_iff in Hp as [Hu Hk]. apply negb_true_iff in Hu. apply used_b_false in Hu.
    apply kind_eqb_spec in Hk.
    exists i, (set_mid_dir_t (o_mid sec) (o_dir sec) x). split; [reflexivity|].
    split; [apply nth_upd_same; exact Hi|]. split; [exact Hk|]. split; [reflexivity|]. split; [reflexivity|].
    split; [|split; [|split; [|split]]].
    + intros j t Hj Hnj. apply nth_upd_inv in Hj. destruct Hj as [[-> _]|[Hne Hj]].
      * exfalso. apply Hnj. left. reflexivity.
      * apply (Hun j t Hj). intros Hin. apply Hnj. right. exact Hin.
    + intros j [<-|Hj]; rewrite upd_length; [apply nth_error_Some; congruence|apply Hlt; exact Hj].
    + split.
      * intros j t Hj. destruct (Nat.eq_dec i j) as [->|Hne].
        -- rewrite Hi in Hj. injection Hj as <-. eexists. split; [apply nth_upd_same; exact Hi|reflexivity].
        -- exists t. rewrite nth_upd_other by exact Hne. auto.
      * intros j t Hj Hn. rewrite nth_upd_other; [exact Hn|intros ->; contradiction].
    + exact Hu.
    + intros tsF HF. destruct (HF i _ (nth_upd_same _ _ _ _ Hi)) as [t' [Ht' Hk']]. cbn in Hk'.
      apply (find_idx_intro _ _ i t' Ht').
      * unfold pick_pred. apply andb_true_iff. split; [apply negb_true_iff; apply used_b_false; exact Hu|].
        apply kind_eqb_spec. congruence.
      * intros j y Hj Hy.
        assert (Hjl : (j < List.length ts)%nat) by (assert (i < List.length ts)%nat by (apply nth_error_Some; congruence); lia).
        destruct (nth_error ts j) as [y0|] eqn:Ey0; [|apply nth_error_None in Ey0; lia].
        assert (Hy1 : nth_error (upd i (set_mid_dir_t (o_mid sec) (o_dir sec)) ts) j = Some y0)
          by (rewrite nth_upd_other; [exact Ey0|lia]).
        destruct (HF j y0 Hy1) as [y' [Hy' Hky]]. rewrite Hy in Hy'. injection Hy' as <-.
        pose proof (Hbefore j y0 Ey0 Hj) as Hpf. unfold pick_pred in *. rewrite Hky. exact Hpf.
  - set (nt := mkTrx (o_kind sec) (Some (o_mid sec)) (o_dir sec) false).
    assert (Hlast : nth_error (ts ++ [nt]) (List.length ts) = Some nt)
      by (rewrite nth_error_app2 by lia; rewrite Nat.sub_diag; reflexivity).
    assert (Hnu : ~ In (List.length ts) u) by (intros Hin; apply Hlt in Hin; lia).
    exists (List.length ts), nt. split; [reflexivity|]. split; [exact Hlast|].
    split; [reflexivity|]. split; [reflexivity|]. split; [reflexivity|].
    split; [|split; [|split; [|split]]].
    + intros j t Hj Hnj. destruct (Nat.lt_ge_cases j (List.length ts)) as [Hl|Hg].
      * rewrite nth_error_app1 in Hj by exact Hl. apply (Hun j t Hj). intros Hin. apply Hnj. right. exact Hin.
      * assert (j = List.length ts).
        { assert (nth_error (ts ++ [nt]) j <> None) by congruence. apply nth_error_Some in H. rewrite app_length in H. cbn in H. lia. }
        subst j. exfalso. apply Hnj. left. reflexivity.
    + intros j [<-|Hj]; rewrite app_length; cbn; [lia|apply Hlt in Hj; lia].
    + split.
      * intros j t Hj. exists t. split; [|reflexivity]. rewrite nth_error_app1; [exact Hj|apply nth_error_Some; congruence].
      * intros j t Hj Hn. rewrite nth_error_app1; [exact Hn|apply nth_error_Some; congruence].
    + exact Hnu.
    + intros tsF HF. destruct (HF _ _ Hlast) as [t' [Ht' Hk']]. cbn in Hk'.
      apply (find_idx_intro _ _ (List.length ts) t' Ht').
      * unfold pick_pred. apply andb_true_iff. split; [apply negb_true_iff; apply used_b_false; exact Hnu|].
        apply kind_eqb_spec. exact Hk'.
      * intros j y Hj Hy.
        destruct (nth_error ts j) as [y0|] eqn:Ey0; [|apply nth_error_None in Ey0; lia].
        assert (Hy1 : nth_error (ts ++ [nt]) j = Some y0) by (rewrite nth_error_app1; [exact Ey0|exact Hj]).
        destruct (HF j y0 Hy1) as [y' [Hy' Hky]]. rewrite Hy in Hy'. injection Hy' as <-.
        pose proof (find_idx_none _ _ E j y0 Ey0) as Hpf. unfold pick_pred in *. rewrite Hky. exact Hpf.
Qed.

Lemma midless_fold_ext : forall todo ts u,
  wfB todo -> unused_none ts u -> used_lt ts u ->
  let '(ts', u') := fold_left sr_step todo (ts, u) in
  ext u ts ts' /\ (forall i, In i u -> In i u').
Proof.
  induction todo as [|sec r IH]; intros ts u Hwf Hun Hlt; cbn [fold_left]; [split; [apply ext_refl|auto]|].
  inversion Hwf as [|? ? Hm Hr]; subst.
  pose proof (midless_step_facts ts u sec Hm Hun Hlt) as Hs.
  destruct (sr_step (ts, u) sec) as [ts1 u1].
  destruct Hs as [p [t [-> [_ [_ [_ [_ [Hun1 [Hlt1 [Hext [_ _]]]]]]]]]]].
  pose proof (IH ts1 (p :: u) Hr Hun1 Hlt1) as H2.
  destruct (fold_left sr_step r (ts1, p :: u)) as [ts' u']. destruct H2 as [He Hsub].
  split; [|intros i Hi; apply Hsub; right; exact Hi].
  apply (ext_trans u (p :: u) ts ts1 ts'); [intros i Hi; right; exact Hi|exact Hext|exact He].
Qed.

Definition picked (tsF : list trx) (i : nat) (sec : osec) : Prop :=
  exists t, nth_error tsF i = Some t /\ t_kind t = o_kind sec /\ t_mid t = Some (o_mid sec) /\ t_dir t = o_dir sec.

(* lock-step: the answer's matching, run on any extension of the final transceiver list, picks exactly the
   transceivers the matching loop bound to the sections *)
Lemma lockstep : forall todo ts u,
  wfB todo -> unused_none ts u -> used_lt ts u ->
  let '(ts', u') := fold_left sr_step todo (ts, u) in
  forall tsF, ext u' ts' tsF ->
  exists idx, amatch tsF u todo = Some idx /\ Forall2 (picked tsF) idx todo.
Proof.
  induction todo as [|sec r IH]; intros ts u Hwf Hun Hlt; cbn [fold_left].
  - intros tsF _. exists []. split; [reflexivity|constructor].
  - inversion Hwf as [|? ? Hm Hr]; subst.
    pose proof (midless_step_facts ts u sec Hm Hun Hlt) as Hs.
    destruct (sr_step (ts, u) sec) as [ts1 u1].
    destruct Hs as [p [t [-> [Hp [Hk [Hmid [Hd [Hun1 [Hlt1 [Hext [Hnu Hfind]]]]]]]]]]].
    pose proof (IH ts1 (p :: u) Hr Hun1 Hlt1) as H2.
    pose proof (midless_fold_ext r ts1 (p :: u) Hr Hun1 Hlt1) as H3.
    destruct (fold_left sr_step r (ts1, p :: u)) as [ts' u']. destruct H3 as [He Hsub].
    intros tsF HF. destruct (H2 tsF HF) as [idx [Ham Hall]].
    assert (Hchain : ext (p :: u) ts1 tsF) by (apply (ext_trans (p :: u) u' ts1 ts' tsF); auto).
    exists (p :: idx). split.
    + cbn [amatch]. rewrite Hm. fold (pick_pred u (o_kind sec)).
      rewrite (Hfind tsF (proj1 Hchain)). rewrite Ham. reflexivity.
    + constructor; [|exact Hall]. exists t. split; [|auto].
      apply (proj2 Hchain p t); [left; reflexivity|exact Hp].
Qed.

(* every transceiver of the state still has no mid: a fresh connection with any pre-added transceivers *)
Definition all_none (s : st) : Prop := forall t, In t (s_trx s) -> t_mid t = None.

Theorem midless_first_negotiation c s o changed a :
  wfB (f_secs o) -> all_none s -> s_remote s = None ->
  create_answer c (set_remote c s o changed) = AOk a ->
  Forall2 (fun x sec => a_kind x = o_kind sec /\ a_mid x = EmptyString /\ dir_compat (o_dir sec) (a_dir x) = true)
          (a_secs a) (f_secs o).
Proof.
  intros Hwf Hnone Hrem H.
  assert (Hs1 : set_remote c s o changed = mkSt (sr_pass (s_trx s) (f_secs o)) (new_role c (s_role s) o) (s_local s) (Some o))
    by (unfold set_remote; rewrite Hrem; reflexivity).
  rewrite Hs1 in H. clear Hs1.
  remember (mkSt (sr_pass (s_trx s) (f_secs o)) (new_role c (s_role s) o) (s_local s) (Some o)) as s1 eqn:Es1.
  assert (Htrx : s_trx s1 = fst (fold_left sr_step (f_secs o) (s_trx s, []))) by (subst s1; reflexivity).
  assert (Hr : s_remote s1 = Some o) by (subst s1; reflexivity).
  assert (Hun : unused_none (s_trx s) []) by (intros i t Hi _; apply Hnone; eapply nth_error_In; eauto).
  assert (Hlt : used_lt (s_trx s) []) by (intros i []).
  pose proof (lockstep (f_secs o) (s_trx s) [] Hwf Hun Hlt) as HL.
  destruct (fold_left sr_step (f_secs o) (s_trx s, [])) as [ts' u'] eqn:Ef. cbn [fst] in Htrx.
  destruct (HL ts' (ext_refl _ _)) as [idx [Ham Hall]].
  unfold create_answer in H. rewrite Hr, Htrx in H.
  destruct ts' as [|t0 tr] eqn:Ets; [discriminate|]. rewrite <- Ets in *.
  rewrite Ham in H.
  destruct (build_secs c s1 (f_secs o) idx (f_secs o)) as [pre|] eqn:Eb; [|discriminate].
  injection H as <-.
  pose proof (amatch_length _ _ _ _ Ham) as Hlen.
  pose proof (build_secs_spec _ _ _ _ _ _ Hlen Eb) as H1. rewrite Htrx in H1.
  assert (Hpre : Forall2 (fun x sec => a_kind x = o_kind sec /\ a_mid x = o_mid sec /\ dir_compat (o_dir sec) (a_dir x) = true) pre (f_secs o)).
  { eapply forall2_combine; [|exact H1|exact Hall].
    intros x i sec [t [Hn Hb]] [t' [Hn' [Hk [Hm Hd]]]]. cbn [fst snd] in *. rewrite Hn in Hn'. injection Hn' as <-.
    destruct (build_sec_fields _ _ _ _ _ _ Hb) as [m [Hm' [Hak [Ham' [Had _]]]]].
    rewrite Hm in Hm'. injection Hm' as <-. split; [congruence|]. split; [exact Ham'|].
    rewrite Had, <- Hd. apply ans_dir_compat. }
  assert (Hfin : Forall2 (fun x sec => a_kind x = o_kind sec /\ a_mid x = EmptyString /\ dir_compat (o_dir sec) (a_dir x) = true) pre (f_secs o)).
  { clear - Hpre Hwf. induction Hpre as [|x sec l l' [Hk [Hm Hd]] _ IH]; [constructor|].
    inversion Hwf as [|? ? Hm0 Hr]; subst. constructor; [|apply IH; exact Hr].
    apply str_empty_spec in Hm0. repeat split; congruence. }
  apply finish_forall2; [|exact Hfin]. intros x sec [Hk [Hm Hd]]. cbn. auto.
Qed.

Lemma fresh_all_none pre : all_none (fold_left (fun s kd => add_transceiver s (fst kd) (snd kd)) pre st_init) /\
                           s_remote (fold_left (fun s kd => add_transceiver s (fst kd) (snd kd)) pre st_init) = None.
Proof.
  assert (H : all_none st_init /\ s_remote st_init = None) by (split; [intros t []|reflexivity]).
  revert H. generalize st_init. induction pre as [|[k d] r IH]; intros s [H1 H2]; cbn [fold_left]; [auto|].
  apply IH. split; [|exact H2]. intros t Ht. unfold add_transceiver in Ht. cbn [s_trx] in Ht.
  apply in_app_or in Ht as [Ht|[<-|[]]]; [apply H1; exact Ht|reflexivity].
Qed.

From RV Require Import Proofs.AnswerRounds.
Theorem midless_first_fresh c pre o changed a :
  wfB (f_secs o) ->
  create_answer c (set_remote c (fresh pre) o changed) = AOk a ->
  Forall2 (fun x sec => a_kind x = o_kind sec /\ a_mid x = EmptyString /\ dir_compat (o_dir sec) (a_dir x) = true)
          (a_secs a) (f_secs o).
Proof.
  intros Hwf H. destruct (fresh_all_none pre) as [H1 H2].
  exact (midless_first_negotiation c (fresh pre) o changed a Hwf H1 H2 H).
Qed.
