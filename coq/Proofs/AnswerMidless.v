(* C08 (part 2) -- offers without a=mid (legacy SIP), first negotiation of a connection: the matching of
   set_remote_description and the matching of create_answer pick the same transceivers (lock-step), so
   kinds, (empty) mids and directions of the answer follow the offer. *)
From Coq Require Import ZArith List Bool String Lia Arith.
From RV Require Import Gen.SdpTables Model.Answer Proofs.AnswerProofs Proofs.AnswerValid.
Import ListNotations.
Open Scope Z_scope.
Open Scope bool_scope.

Definition wfB (secs : list osec) : Prop := Forall (fun s => str_empty (o_mid s) = true) secs.
Definition unused_none (ts : list trx) (u : list nat) : Prop :=
  forall i t, nth_error ts i = Some t -> ~ In i u -> t_mid t = None.
Definition used_lt (ts : list trx) (u : list nat) : Prop := forall i, In i u -> (i < List.length ts)%nat.

Lemma find_from_ext {A} (p q : nat -> A -> bool) l : forall i,
  (forall k x, nth_error l k = Some x -> p (i + k)%nat x = q (i + k)%nat x) -> find_from p i l = find_from q i l.
Proof.
  induction l as [|a l IH]; intros i H; [reflexivity|]. cbn [find_from].
  pose proof (H 0%nat a eq_refl) as H0. rewrite Nat.add_0_r in H0. rewrite <- H0. destruct (p i a); [reflexivity|].
  apply IH. intros k x Hk. replace (S i + k)%nat with (i + S k)%nat by lia. apply H. exact Hk.
Qed.

Lemma find_idx_ext {A} (p q : nat -> A -> bool) l :
  (forall k x, nth_error l k = Some x -> p k x = q k x) -> find_idx p l = find_idx q l.
Proof. intros H. apply find_from_ext. exact H. Qed.

Lemma find_from_intro {A} (p : nat -> A -> bool) l : forall i n x,
  nth_error l n = Some x -> p (i + n)%nat x = true ->
  (forall j y, (j < n)%nat -> nth_error l j = Some y -> p (i + j)%nat y = false) ->
  find_from p i l = Some (i + n)%nat.
Proof.
  induction l as [|a l IH]; intros i n x Hn Hp Hb; [destruct n; discriminate|].
  cbn [find_from]. destruct n as [|n].
  - cbn in Hn. injection Hn as <-. rewrite Nat.add_0_r in *. rewrite Hp. reflexivity.
  - rewrite <- (Nat.add_0_r i) at 1. rewrite (Hb 0%nat a ltac:(lia) eq_refl).
    replace (i + S n)%nat with (S i + n)%nat by lia. apply (IH (S i) n x).
    + exact Hn.
    + replace (S i + n)%nat with (i + S n)%nat by lia. exact Hp.
    + intros j y Hj Hy. replace (S i + j)%nat with (i + S j)%nat by lia. apply Hb; [lia|exact Hy].
Qed.

Lemma find_idx_intro {A} (p : nat -> A -> bool) l n x :
  nth_error l n = Some x -> p n x = true ->
  (forall j y, (j < n)%nat -> nth_error l j = Some y -> p j y = false) ->
  find_idx p l = Some n.
Proof. intros H1 H2 H3. apply (find_from_intro p l 0%nat n x H1 H2 H3). Qed.

(* the matching loop on a mid-less section picks the first unused transceiver of the kind when either
   every unused transceiver still has no mid (first negotiation) or every transceiver already carries the
   empty mid (later rounds of a connection without spare transceivers) *)
Definition pick_pred (u : list nat) (k : kind) : nat -> trx -> bool :=
  fun i t => negb (used_b u i) && kind_eqb (t_kind t) k.

Definition all_se (ts : list trx) : Prop := forall t, In t ts -> t_mid t = Some EmptyString.
Definition good (ts : list trx) (u : list nat) : Prop := unused_none ts u \/ all_se ts.

Lemma find_idx_all_false {A} (p : nat -> A -> bool) l :
  (forall k x, nth_error l k = Some x -> p k x = false) -> find_idx p l = None.
Proof.
  intros H. destruct (find_idx p l) as [i|] eqn:E; [|reflexivity].
  destruct (find_idx_some _ _ _ E) as [x [Hx [Hp _]]]. rewrite (H i x Hx) in Hp. discriminate.
Qed.

Lemma sr_step_pick ts u sec :
  str_empty (o_mid sec) = true -> good ts u ->
  exists g : trx -> trx,
    (forall x, t_kind (g x) = t_kind x /\ t_dir (g x) = o_dir sec) /\
    (forall i x, nth_error ts i = Some x -> ~ In i u -> t_mid (g x) = Some (o_mid sec)) /\
    sr_step (ts, u) sec =
    match find_idx (pick_pred u (o_kind sec)) ts with
    | Some i => (upd i g ts, i :: u)
    | None => ((ts ++ [mkTrx (o_kind sec) (Some (o_mid sec)) (o_dir sec) false])%list, List.length ts :: u)
    end.
Proof.
  intros Hm [Hun|Hse].
  - exists (set_mid_dir_t (o_mid sec) (o_dir sec)). split; [intros x; split; reflexivity|]. split; [intros; reflexivity|].
    unfold sr_step. cbv beta iota zeta. rewrite Hm.
    assert (He : find_idx (fun i t => negb (used_b u i) && mid_none t && kind_eqb (t_kind t) (o_kind sec)) ts
                 = find_idx (pick_pred u (o_kind sec)) ts).
    { apply find_idx_ext. intros k x Hk. unfold pick_pred. destruct (used_b u k) eqn:Eu; [reflexivity|].
      apply used_b_false in Eu. unfold mid_none. rewrite (Hun k x Hk Eu). reflexivity. }
    rewrite He. destruct (find_idx (pick_pred u (o_kind sec)) ts) as [i|] eqn:E; [reflexivity|].
    fold (pick_pred u (o_kind sec)). rewrite E. reflexivity.
  - exists (set_dir_t (o_dir sec)). split; [intros x; split; reflexivity|].
    split.
    + intros i x Hx _. cbn. rewrite (Hse x (nth_error_In _ _ Hx)). apply str_empty_spec in Hm. rewrite Hm. reflexivity.
    + unfold sr_step. cbv beta iota zeta. rewrite Hm.
      assert (He : find_idx (fun i t => negb (used_b u i) && mid_none t && kind_eqb (t_kind t) (o_kind sec)) ts = None).
      { apply find_idx_all_false. intros k x Hk. unfold mid_none. rewrite (Hse x (nth_error_In _ _ Hk)).
        rewrite andb_false_r. reflexivity. }
      rewrite He. fold (pick_pred u (o_kind sec)).
      destruct (find_idx (pick_pred u (o_kind sec)) ts); reflexivity.
Qed.

(* tsF extends ts: at least as long, kinds kept, entries marked used kept verbatim *)
Definition ext (u : list nat) (ts tsF : list trx) : Prop :=
  (forall j t, nth_error ts j = Some t -> exists t', nth_error tsF j = Some t' /\ t_kind t' = t_kind t) /\
  (forall j t, In j u -> nth_error ts j = Some t -> nth_error tsF j = Some t).

Lemma ext_refl u ts : ext u ts ts.
Proof. split; [intros j t H; exists t; auto|auto]. Qed.

Lemma ext_trans u u1 ts ts1 tsF :
  (forall i, In i u -> In i u1) -> ext u ts ts1 -> ext u1 ts1 tsF -> ext u ts tsF.
Proof.
  intros Hsub [A1 A2] [B1 B2]. split.
  - intros j t H. destruct (A1 j t H) as [t1 [H1 K1]]. destruct (B1 j t1 H1) as [t2 [H2 K2]].
    exists t2. split; [exact H2|congruence].
  - intros j t Hj H. apply (B2 j t (Hsub j Hj)). apply (A2 j t Hj H).
Qed.

Lemma midless_step_facts ts u sec :
  str_empty (o_mid sec) = true -> good ts u -> used_lt ts u ->
  let '(ts1, u1) := sr_step (ts, u) sec in
  exists p t, u1 = p :: u /\ nth_error ts1 p = Some t /\
              t_kind t = o_kind sec /\ t_mid t = Some (o_mid sec) /\ t_dir t = o_dir sec /\
              good ts1 u1 /\ used_lt ts1 u1 /\ ext u ts ts1 /\ ~ In p u /\
              (* p is the first unused transceiver of that kind, before and after *)
              (forall tsF, (forall j t0, nth_error ts1 j = Some t0 -> exists t', nth_error tsF j = Some t' /\ t_kind t' = t_kind t0) ->
                           find_idx (pick_pred u (o_kind sec)) tsF = Some p) /\
              (all_se ts -> all_se ts1).
Proof.
  intros Hm Hgood Hlt. destruct (sr_step_pick ts u sec Hm Hgood) as [g [Hg [Hgm ->]]].
  assert (Hm0 : o_mid sec = EmptyString) by (apply str_empty_spec; exact Hm).
  destruct (find_idx (pick_pred u (o_kind sec)) ts) as [i|] eqn:E.
  - destruct (find_idx_some _ _ _ E) as [x [Hi [Hp Hbefore]]].
    unfold pick_pred in Hp. apply andb_true_iff in Hp as [Hu Hk]. apply negb_true_iff in Hu. apply used_b_false in Hu.
    apply kind_eqb_spec in Hk. destruct (Hg x) as [Hgk Hgd].
    exists i, (g x). split; [reflexivity|].
    split; [apply nth_upd_same; exact Hi|]. split; [congruence|]. split; [apply (Hgm i x Hi Hu)|]. split; [exact Hgd|].
    assert (Hse_keep : all_se ts -> all_se (upd i g ts)).
    { intros Hse t Ht. apply In_nth_error in Ht as [j Hj]. apply nth_upd_inv in Hj.
      destruct Hj as [[-> [x' [Hx' ->]]]|[_ Hj]].
      - rewrite (Hgm i x' Hx' Hu). rewrite Hm0. reflexivity.
      - apply Hse. eapply nth_error_In; eauto. }
    split; [|split; [|split; [|split; [|split; [|exact Hse_keep]]]]].
    + destruct Hgood as [Hun|Hse]; [left|right; apply Hse_keep; exact Hse].
      * intros j t Hj Hnj. apply nth_upd_inv in Hj. destruct Hj as [[-> _]|[Hne Hj]].
        -- exfalso. apply Hnj. left. reflexivity.
        -- apply (Hun j t Hj). intros Hin. apply Hnj. right. exact Hin.
    + intros j [<-|Hj]; rewrite upd_length; [apply nth_error_Some; congruence|apply Hlt; exact Hj].
    + split.
      * intros j t Hj. destruct (Nat.eq_dec i j) as [->|Hne].
        -- rewrite Hi in Hj. injection Hj as <-. eexists. split; [apply nth_upd_same; exact Hi|exact Hgk].
        -- exists t. rewrite nth_upd_other by exact Hne. auto.
      * intros j t Hj Hn. rewrite nth_upd_other; [exact Hn|intros ->; contradiction].
    + exact Hu.
    + intros tsF HF. destruct (HF i _ (nth_upd_same _ _ _ _ Hi)) as [t' [Ht' Hk']].
      apply (find_idx_intro _ _ i t' Ht').
      * unfold pick_pred. apply andb_true_iff. split; [apply negb_true_iff; apply used_b_false; exact Hu|].
        apply kind_eqb_spec. congruence.
      * intros j y Hj Hy.
        assert (Hjl : (j < List.length ts)%nat) by (assert (i < List.length ts)%nat by (apply nth_error_Some; congruence); lia).
        destruct (nth_error ts j) as [y0|] eqn:Ey0; [|apply nth_error_None in Ey0; lia].
        assert (Hy1 : nth_error (upd i g ts) j = Some y0) by (rewrite nth_upd_other; [exact Ey0|lia]).
        destruct (HF j y0 Hy1) as [y' [Hy' Hky]]. rewrite Hy in Hy'. injection Hy' as <-.
        pose proof (Hbefore j y0 Ey0 Hj) as Hpf. unfold pick_pred in *. rewrite Hky. exact Hpf.
  - set (nt := mkTrx (o_kind sec) (Some (o_mid sec)) (o_dir sec) false).
    assert (Hlast : nth_error (ts ++ [nt]) (List.length ts) = Some nt)
      by (rewrite nth_error_app2 by lia; rewrite Nat.sub_diag; reflexivity).
    assert (Hnu : ~ In (List.length ts) u) by (intros Hin; apply Hlt in Hin; lia).
    exists (List.length ts), nt. split; [reflexivity|]. split; [exact Hlast|].
    split; [reflexivity|]. split; [reflexivity|]. split; [reflexivity|].
    assert (Hse_keep : all_se ts -> all_se (ts ++ [nt])).
    { intros Hse t Ht. apply in_app_or in Ht as [Ht|[<-|[]]]; [apply Hse; exact Ht|cbn; rewrite Hm0; reflexivity]. }
    split; [|split; [|split; [|split; [|split; [|exact Hse_keep]]]]].
    + destruct Hgood as [Hun|Hse]; [left|right; apply Hse_keep; exact Hse].
      * intros j t Hj Hnj. destruct (Nat.lt_ge_cases j (List.length ts)) as [Hl|Hge].
        -- rewrite nth_error_app1 in Hj by exact Hl. apply (Hun j t Hj). intros Hin. apply Hnj. right. exact Hin.
        -- assert (j = List.length ts).
           { assert (nth_error (ts ++ [nt]) j <> None) by congruence. apply nth_error_Some in H. rewrite app_length in H. cbn in H. lia. }
           subst j. exfalso. apply Hnj. left. reflexivity.
    + intros j [<-|Hj]; rewrite app_length; cbn; [lia|apply Hlt in Hj; lia].
    + split.
      * intros j t Hj. exists t. split; [|reflexivity]. rewrite nth_error_app1; [exact Hj|apply nth_error_Some; congruence].
      * intros j t Hj Hn. rewrite nth_error_app1; [exact Hn|apply nth_error_Some; congruence].
    + exact Hnu.
    + intros tsF HF. destruct (HF _ _ Hlast) as [t' [Ht' Hk']]. cbn in Hk'.
      apply (find_idx_intro _ _ (List.length ts) t' Ht').
      * unfold pick_pred. apply andb_true_iff. split; [apply negb_true_iff; apply used_b_false; exact Hnu|].
        apply kind_eqb_spec. exact Hk'.
      * intros j y Hj Hy.
        destruct (nth_error ts j) as [y0|] eqn:Ey0; [|apply nth_error_None in Ey0; lia].
        assert (Hy1 : nth_error (ts ++ [nt]) j = Some y0) by (rewrite nth_error_app1; [exact Ey0|exact Hj]).
        destruct (HF j y0 Hy1) as [y' [Hy' Hky]]. rewrite Hy in Hy'. injection Hy' as <-.
        pose proof (find_idx_none _ _ E j y0 Ey0) as Hpf. unfold pick_pred in *. rewrite Hky. exact Hpf.
Qed.

Lemma midless_fold_ext : forall todo ts u,
  wfB todo -> good ts u -> used_lt ts u ->
  let '(ts', u') := fold_left sr_step todo (ts, u) in
  ext u ts ts' /\ (forall i, In i u -> In i u') /\ (all_se ts -> all_se ts').
Proof.
  induction todo as [|sec r IH]; intros ts u Hwf Hun Hlt; cbn [fold_left]; [split; [apply ext_refl|auto]|].
  inversion Hwf as [|? ? Hm Hr]; subst.
  pose proof (midless_step_facts ts u sec Hm Hun Hlt) as Hs.
  destruct (sr_step (ts, u) sec) as [ts1 u1].
  destruct Hs as [p [t [-> [_ [_ [_ [_ [Hun1 [Hlt1 [Hext [_ [_ Hse1]]]]]]]]]]]].
  pose proof (IH ts1 (p :: u) Hr Hun1 Hlt1) as H2.
  destruct (fold_left sr_step r (ts1, p :: u)) as [ts' u']. destruct H2 as [He [Hsub Hg]].
  split; [|split; [intros i Hi; apply Hsub; right; exact Hi|auto]].
  apply (ext_trans u (p :: u) ts ts1 ts'); [intros i Hi; right; exact Hi|exact Hext|exact He].
Qed.

Definition picked (tsF : list trx) (i : nat) (sec : osec) : Prop :=
  exists t, nth_error tsF i = Some t /\ t_kind t = o_kind sec /\ t_mid t = Some (o_mid sec) /\ t_dir t = o_dir sec.

(* lock-step: the answer's matching, run on any extension of the final transceiver list, picks exactly the
   transceivers the matching loop bound to the sections *)
Lemma lockstep : forall todo ts u,
  wfB todo -> good ts u -> used_lt ts u ->
  let '(ts', u') := fold_left sr_step todo (ts, u) in
  forall tsF, ext u' ts' tsF ->
  exists idx, amatch tsF u todo = Some idx /\ Forall2 (picked tsF) idx todo.
Proof.
  induction todo as [|sec r IH]; intros ts u Hwf Hun Hlt; cbn [fold_left].
  - intros tsF _. exists []. split; [reflexivity|constructor].
  - inversion Hwf as [|? ? Hm Hr]; subst.
    pose proof (midless_step_facts ts u sec Hm Hun Hlt) as Hs.
    destruct (sr_step (ts, u) sec) as [ts1 u1].
    destruct Hs as [p [t [-> [Hp [Hk [Hmid [Hd [Hun1 [Hlt1 [Hext [Hnu [Hfind _]]]]]]]]]]]].
    pose proof (IH ts1 (p :: u) Hr Hun1 Hlt1) as H2.
    pose proof (midless_fold_ext r ts1 (p :: u) Hr Hun1 Hlt1) as H3.
    destruct (fold_left sr_step r (ts1, p :: u)) as [ts' u']. destruct H3 as [He [Hsub _]].
    intros tsF HF. destruct (H2 tsF HF) as [idx [Ham Hall]].
    assert (Hchain : ext (p :: u) ts1 tsF) by (apply (ext_trans (p :: u) u' ts1 ts' tsF); auto).
    exists (p :: idx). split.
    + cbn [amatch]. rewrite Hm. fold (pick_pred u (o_kind sec)).
      rewrite (Hfind tsF (proj1 Hchain)). rewrite Ham. reflexivity.
    + constructor; [|exact Hall]. exists t. split; [|auto].
      apply (proj2 Hchain p t); [left; reflexivity|exact Hp].
Qed.

Definition midless_facts (o : offer) (a : answer) : Prop :=
  Forall2 (fun x sec => a_kind x = o_kind sec /\ a_mid x = EmptyString /\ dir_compat (o_dir sec) (a_dir x) = true)
          (a_secs a) (f_secs o).

(* core: any state whose transceiver list is the result of the matching loop on the stored mid-less offer,
   started from a list in which the loop picks "first unused of the kind" *)
Lemma midless_core c s1 ts o a :
  wfB (f_secs o) -> good ts [] ->
  s_trx s1 = sr_pass ts (f_secs o) -> s_remote s1 = Some o ->
  create_answer c s1 = AOk a -> midless_facts o a.
Proof.
  intros Hwf Hgood Htrx Hr H. unfold sr_pass in Htrx.
  assert (Hlt : used_lt ts []) by (intros i []).
  pose proof (lockstep (f_secs o) ts [] Hwf Hgood Hlt) as HL.
  destruct (fold_left sr_step (f_secs o) (ts, [])) as [ts' u'] eqn:Ef. cbn [fst] in Htrx.
  destruct (HL ts' (ext_refl _ _)) as [idx [Ham Hall]].
  unfold create_answer in H. rewrite Hr, Htrx in H.
  destruct ts' as [|t0 tr] eqn:Ets; [discriminate|]. rewrite <- Ets in *.
  rewrite Ham in H.
  destruct (build_secs c s1 (f_secs o) idx (f_secs o)) as [pre|] eqn:Eb; [|discriminate].
  injection H as <-.
  pose proof (amatch_length _ _ _ _ Ham) as Hlen.
  pose proof (build_secs_spec _ _ _ _ _ _ Hlen Eb) as H1. rewrite Htrx in H1.
  assert (Hpre : Forall2 (fun x sec => a_kind x = o_kind sec /\ a_mid x = o_mid sec /\ dir_compat (o_dir sec) (a_dir x) = true) pre (f_secs o)).
  { eapply forall2_combine; [|exact H1|exact Hall].
    intros x i sec [t [Hn Hb]] [t' [Hn' [Hk [Hm Hd]]]]. cbn [fst snd] in *. rewrite Hn in Hn'. injection Hn' as <-.
    destruct (build_sec_fields _ _ _ _ _ _ Hb) as [m [Hm' [Hak [Ham' [Had _]]]]].
    rewrite Hm in Hm'. injection Hm' as <-. split; [congruence|]. split; [exact Ham'|].
    rewrite Had, <- Hd. apply ans_dir_compat. }
  assert (Hfin : Forall2 (fun x sec => a_kind x = o_kind sec /\ a_mid x = EmptyString /\ dir_compat (o_dir sec) (a_dir x) = true) pre (f_secs o)).
  { clear - Hpre Hwf. induction Hpre as [|x sec l l' [Hk [Hm Hd]] _ IH]; [constructor|].
    inversion Hwf as [|? ? Hm0 Hr]; subst. constructor; [|apply IH; exact Hr].
    apply str_empty_spec in Hm0. repeat split; congruence. }
  unfold midless_facts. apply finish_forall2; [|exact Hfin]. intros x sec [Hk [Hm Hd]]. cbn. auto.
Qed.

(* the states from which mid-less negotiations are coherent: no transceiver has a mid yet (fresh connection
   with any pre-added transceivers), or every transceiver carries the empty mid (what mid-less rounds leave
   behind when no pre-added transceiver stayed unmatched) *)
Definition all_none (s : st) : Prop := forall t, In t (s_trx s) -> t_mid t = None.
Definition midless_state (s : st) : Prop := all_none s \/ all_se (s_trx s).

Lemma hr_pass_good ts secs : (forall t, In t ts -> t_mid t = None) \/ all_se ts -> good (hr_pass ts secs) [].
Proof.
  intros [Hn|Hse]; [left|right].
  - intros i t Hi _. destruct (hr_pass_shape _ _ _ _ Hi) as [t0 [H0 [_ Hm]]]. rewrite Hm. apply Hn. eapply nth_error_In; eauto.
  - intros t Ht. apply In_nth_error in Ht as [i Hi]. destruct (hr_pass_shape _ _ _ _ Hi) as [t0 [H0 [_ Hm]]].
    rewrite Hm. apply Hse. eapply nth_error_In; eauto.
Qed.

Lemma midless_state_good s : midless_state s -> good (s_trx s) [].
Proof.
  intros [Hn|Hse]; [left|right; exact Hse]. intros i t Hi _. apply Hn. eapply nth_error_In; eauto.
Qed.

(* one processed round (first offer, or a changed re-offer) *)
Theorem midless_negotiation c s o changed a :
  wfB (f_secs o) -> midless_state s -> applied s changed ->
  create_answer c (set_remote c s o changed) = AOk a -> midless_facts o a.
Proof.
  intros Hwf Hst Happ H. unfold set_remote in H.
  destruct (s_remote s) as [prev|] eqn:Er.
  - destruct Happ as [Hn| ->]; [congruence|].
    match type of H with create_answer _ ?s1 = _ => refine (midless_core c s1 (hr_pass (s_trx s) (f_secs o)) o a Hwf _ eq_refl eq_refl H) end.
    apply hr_pass_good. exact Hst.
  - match type of H with create_answer _ ?s1 = _ => refine (midless_core c s1 (s_trx s) o a Hwf _ eq_refl eq_refl H) end.
    apply midless_state_good. exact Hst.
Qed.

(* the unchanged re-offer right after a processed round: the stored transceivers are reused as they are *)
Theorem midless_unchanged c s o changed a :
  wfB (f_secs o) -> midless_state s -> applied s changed ->
  create_answer c (set_remote c (fst (negotiate c s o changed)) o false) = AOk a -> midless_facts o a.
Proof.
  intros Hwf Hst Happ H.
  set (s1 := set_remote c s o changed) in *.
  assert (Hs1 : exists ts, good ts [] /\ s_trx s1 = sr_pass ts (f_secs o) /\ s_remote s1 = Some o).
  { unfold s1, set_remote. destruct (s_remote s) as [prev|] eqn:Er.
    - destruct Happ as [Hn| ->]; [congruence|]. exists (hr_pass (s_trx s) (f_secs o)).
      split; [apply hr_pass_good; exact Hst|split; reflexivity].
    - exists (s_trx s). split; [apply midless_state_good; exact Hst|split; reflexivity]. }
  destruct Hs1 as [ts [Hg [Htrx Hr]]].
  assert (Hn : s_trx (fst (negotiate c s o changed)) = s_trx s1 /\ s_remote (fst (negotiate c s o changed)) = s_remote s1).
  { unfold negotiate. fold s1. cbn [fst]. destruct (create_answer c s1); split; reflexivity. }
  destruct Hn as [Hn1 Hn2].
  match type of H with create_answer _ ?s2 = _ => refine (midless_core c s2 ts o a Hwf Hg _ _ H) end.
  - unfold set_remote. rewrite Hn2, Hr. cbn [s_trx]. rewrite Hn1. exact Htrx.
  - unfold set_remote. rewrite Hn2, Hr. reflexivity.
Qed.

(* the "every transceiver carries the empty mid" state is kept by mid-less rounds, and holds from the
   start for a connection without pre-added transceivers *)
Lemma sr_pass_all_se ts secs : wfB secs -> all_se ts -> all_se (sr_pass ts secs).
Proof.
  intros Hwf Hse. unfold sr_pass.
  assert (Hlt : used_lt ts []) by (intros i []).
  pose proof (midless_fold_ext secs ts [] Hwf (or_intror Hse) Hlt) as H.
  destruct (fold_left sr_step secs (ts, [])) as [ts' u']. destruct H as [_ [_ Hg]]. exact (Hg Hse).
Qed.

Theorem all_se_negotiate c s o changed :
  wfB (f_secs o) -> all_se (s_trx s) -> all_se (s_trx (fst (negotiate c s o changed))).
Proof.
  intros Hwf Hse.
  assert (H1 : all_se (s_trx (set_remote c s o changed))).
  { unfold set_remote. destruct (s_remote s); [destruct changed|]; cbn [s_trx]; auto.
    - apply sr_pass_all_se; [exact Hwf|]. destruct (hr_pass_good (s_trx s) (f_secs o) (or_intror Hse)) as [Hun|H]; [|exact H].
      intros t Ht. apply In_nth_error in Ht as [i Hi]. destruct (hr_pass_shape _ _ _ _ Hi) as [t0 [H0 [_ Hm]]].
      rewrite Hm. apply Hse. eapply nth_error_In; eauto.
    - apply sr_pass_all_se; assumption. }
  unfold negotiate. cbn [fst]. destruct (create_answer c (set_remote c s o changed)); exact H1.
Qed.

Lemma all_se_init : all_se (s_trx st_init).
Proof. intros t []. Qed.

From RV Require Import Proofs.AnswerRounds.
(* first negotiation of a fresh connection with any pre-added transceivers *)
Lemma fresh_all_none pre : all_none (fresh pre) /\ s_remote (fresh pre) = None.
Proof.
  unfold fresh. assert (H : all_none st_init /\ s_remote st_init = None) by (split; [intros t []|reflexivity]).
  revert H. generalize st_init. induction pre as [|[k d] r IH]; intros s [H1 H2]; cbn [fold_left]; [auto|].
  apply IH. split; [|exact H2]. intros t Ht. unfold add_transceiver in Ht. cbn [s_trx] in Ht.
  apply in_app_or in Ht as [Ht|[<-|[]]]; [apply H1; exact Ht|reflexivity].
Qed.

Theorem midless_first_fresh c pre o changed a :
  wfB (f_secs o) ->
  create_answer c (set_remote c (fresh pre) o changed) = AOk a -> midless_facts o a.
Proof.
  intros Hwf H. destruct (fresh_all_none pre) as [H1 H2].
  apply (midless_negotiation c (fresh pre) o changed a Hwf (or_introl H1) (or_introl H2) H).
Qed.

(* every round of a connection without pre-added transceivers that only ever receives mid-less offers *)
Theorem midless_all_rounds c : forall rs s,
  all_se (s_trx s) -> Forall (fun r => wfB (f_secs (fst r))) rs ->
  Forall (fun x => let '(s', o, ch) := x in wfB (f_secs o) /\ midless_state s') (trace c s rs).
Proof.
  induction rs as [|[o ch] r IH]; intros s Hse Hwf; cbn [trace]; [constructor|].
  inversion Hwf as [|? ? Hw Hr]; subst. cbn [fst] in Hw.
  constructor; [split; [exact Hw|right; exact Hse]|]. apply IH; [apply all_se_negotiate; assumption|exact Hr].
Qed.
