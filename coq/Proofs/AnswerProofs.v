(* C08 (part 2) -- proofs about answer generation (Model/Answer.v). *)
From Coq Require Import ZArith List Bool String Lia Arith.
From RV Require Import Gen.SdpTables Model.Answer.
Import ListNotations.
Open Scope Z_scope.
Open Scope bool_scope.

(* ------------------------------------------------------------------ list helpers *)
Lemma find_from_some {A} (p : nat -> A -> bool) l : forall i j,
  find_from p i l = Some j ->
  (i <= j)%nat /\ exists x, nth_error l (j - i) = Some x /\ p j x = true /\
  forall k y, nth_error l k = Some y -> (i + k < j)%nat -> p (i + k)%nat y = false.
Proof.
  induction l as [|a l IH]; intros i j H; cbn [find_from] in H; [discriminate|].
  destruct (p i a) eqn:E.
  - injection H as <-. split; [lia|]. exists a. rewrite Nat.sub_diag. split; [reflexivity|]. split; [exact E|].
    intros k y _ Hk. lia.
  - destruct (IH _ _ H) as [Hle [x [Hn [Hp Hbefore]]]]. split; [lia|]. exists x.
    replace (j - i)%nat with (S (j - S i)) by lia. split; [exact Hn|]. split; [exact Hp|].
    intros k y Hk Hlt. destruct k as [|k].
    + cbn in Hk. injection Hk as <-. rewrite Nat.add_0_r. exact E.
    + cbn in Hk. replace (i + S k)%nat with (S i + k)%nat by lia. apply Hbefore; [exact Hk|lia].
Qed.

Lemma find_from_none {A} (p : nat -> A -> bool) l : forall i,
  find_from p i l = None -> forall k y, nth_error l k = Some y -> p (i + k)%nat y = false.
Proof.
  induction l as [|a l IH]; intros i H k y Hk; [destruct k; discriminate|].
  cbn [find_from] in H. destruct (p i a) eqn:E; [discriminate|].
  destruct k as [|k]; cbn in Hk.
  - injection Hk as <-. rewrite Nat.add_0_r. exact E.
  - replace (i + S k)%nat with (S i + k)%nat by lia. eapply IH; eauto.
Qed.

Lemma find_idx_some {A} (p : nat -> A -> bool) l j :
  find_idx p l = Some j ->
  exists x, nth_error l j = Some x /\ p j x = true /\
            forall k y, nth_error l k = Some y -> (k < j)%nat -> p k y = false.
Proof.
  intros H. destruct (find_from_some p l 0%nat j H) as [_ [x [Hn [Hp Hb]]]].
  rewrite Nat.sub_0_r in Hn. exists x. split; [exact Hn|]. split; [exact Hp|].
  intros k y Hk Hlt. apply (Hb k y Hk). lia.
Qed.

Lemma find_idx_none {A} (p : nat -> A -> bool) l :
  find_idx p l = None -> forall k y, nth_error l k = Some y -> p k y = false.
Proof. intros H k y Hk. apply (find_from_none p l 0%nat H k y Hk). Qed.

Lemma upd_length {A} (f : A -> A) l : forall i, List.length (upd i f l) = List.length l.
Proof. induction l as [|a l IH]; intros [|i]; cbn; auto. Qed.

Lemma nth_upd_same {A} (f : A -> A) l : forall i x, nth_error l i = Some x -> nth_error (upd i f l) i = Some (f x).
Proof.
  induction l as [|a l IH]; intros [|i] x H; cbn in *; try discriminate.
  - injection H as <-. reflexivity.
  - apply IH. exact H.
Qed.

Lemma nth_upd_other {A} (f : A -> A) l : forall i j, i <> j -> nth_error (upd i f l) j = nth_error l j.
Proof.
  induction l as [|a l IH]; intros [|i] [|j] H; cbn; auto; try congruence.
Qed.

Lemma nth_upd_inv {A} (f : A -> A) l i j y :
  nth_error (upd i f l) j = Some y ->
  (j = i /\ exists x, nth_error l i = Some x /\ y = f x) \/ (j <> i /\ nth_error l j = Some y).
Proof.
  intros H. destruct (Nat.eq_dec i j) as [->|Hne].
  - left. split; [reflexivity|].
    destruct (nth_error l j) as [x|] eqn:E.
    + rewrite (nth_upd_same f l j x E) in H. injection H as <-. eauto.
    + exfalso. apply nth_error_None in E. assert (nth_error (upd j f l) j <> None) by congruence.
      apply nth_error_Some in H0. rewrite upd_length in H0. lia.
  - right. split; [congruence|]. rewrite nth_upd_other in H by exact Hne. exact H.
Qed.

Lemma used_b_in u i : used_b u i = true <-> In i u.
Proof.
  unfold used_b. rewrite existsb_exists. split.
  - intros [x [Hin Hx]]. apply Nat.eqb_eq in Hx. subst. exact Hin.
  - intros H. exists i. split; [exact H|apply Nat.eqb_refl].
Qed.

Lemma used_b_false u i : used_b u i = false <-> ~ In i u.
Proof. rewrite <- used_b_in. destruct (used_b u i); split; congruence. Qed.

Lemma mid_is_spec t m : mid_is t m = true <-> t_mid t = Some m.
Proof.
  unfold mid_is. destruct (t_mid t) as [x|]; split; intros H; try discriminate.
  - apply String.eqb_eq in H. subst. reflexivity.
  - injection H as ->. apply String.eqb_refl.
Qed.

Lemma str_empty_spec s : str_empty s = true <-> s = EmptyString.
Proof. unfold str_empty. apply String.eqb_eq. Qed.

Lemma kind_eqb_spec a b : kind_eqb a b = true <-> a = b.
Proof. destruct a, b; cbn; split; intros H; try reflexivity; try discriminate. Qed.

(* ------------------------------------------------------------------ shape of create_answer *)
Lemma amatch_length ts : forall secs u idx, amatch ts u secs = Some idx -> List.length idx = List.length secs.
Proof.
  induction secs as [|sec r IH]; intros u idx H; cbn [amatch] in H.
  - injection H as <-. reflexivity.
  - destruct (if str_empty (o_mid sec) then _ else _) as [i|]; [|discriminate].
    destruct (amatch ts (i :: u) r) as [l|] eqn:E; [|discriminate].
    injection H as <-. cbn. f_equal. eapply IH; eauto.
Qed.

(* what the answer's section matching guarantees about the transceiver it picks *)
Lemma amatch_spec ts : forall secs u idx,
  amatch ts u secs = Some idx ->
  Forall2 (fun i sec => exists t, nth_error ts i = Some t /\
             (if str_empty (o_mid sec) then kind_eqb (t_kind t) (o_kind sec) else mid_is t (o_mid sec)) = true)
          idx secs.
Proof.
  induction secs as [|sec r IH]; intros u idx H; cbn [amatch] in H.
  - injection H as <-. constructor.
  - destruct (str_empty (o_mid sec)) eqn:Em.
    + destruct (find_idx _ ts) as [i|] eqn:Ef; [|discriminate].
      destruct (amatch ts (i :: u) r) as [l|] eqn:E; [|discriminate]. injection H as <-.
      constructor; [|eapply IH; eauto].
      destruct (find_idx_some _ _ _ Ef) as [x [Hn [Hp _]]]. exists x. split; [exact Hn|].
      rewrite Em. apply andb_true_iff in Hp. tauto.
    + destruct (find_idx _ ts) as [i|] eqn:Ef; [|discriminate].
      destruct (amatch ts (i :: u) r) as [l|] eqn:E; [|discriminate]. injection H as <-.
      constructor; [|eapply IH; eauto].
      destruct (find_idx_some _ _ _ Ef) as [x [Hn [Hp _]]]. exists x. split; [exact Hn|].
      rewrite Em. apply andb_true_iff in Hp. tauto.
Qed.

Lemma build_secs_spec c s remote : forall idx secs l,
  List.length idx = List.length secs ->
  build_secs c s remote idx secs = Some l ->
  Forall2 (fun a (p : nat * osec) => exists t, nth_error (s_trx s) (fst p) = Some t /\
                                               build_sec c s remote t (snd p) = Some a)
          l (combine idx secs).
Proof.
  induction idx as [|i ir IH]; intros [|sec sr] l Hlen H; cbn in Hlen; try discriminate.
  - cbn in H. injection H as <-. constructor.
  - cbn [build_secs] in H. destruct (nth_error (s_trx s) i) as [t|] eqn:En; [|discriminate].
    destruct (build_sec c s remote t sec) as [a|] eqn:Eb; [|discriminate].
    destruct (build_secs c s remote ir sr) as [r|] eqn:Er; [|discriminate].
    injection H as <-. cbn [combine]. constructor.
    + exists t. cbn. auto.
    + apply IH; [lia|exact Er].
Qed.

(* the pre-finish sections of an answer: one per offered section, in order, each built from the
   transceiver the matching picked *)
Definition built_from (c : config) (s : st) (o : offer) (pre : list asec) : Prop :=
  Forall2 (fun a sec => exists t,
             In t (s_trx s) /\
             (if str_empty (o_mid sec) then kind_eqb (t_kind t) (o_kind sec) else mid_is t (o_mid sec)) = true /\
             build_sec c s (f_secs o) t sec = Some a)
          pre (f_secs o).

Lemma forall2_combine {A B C} (P : A -> B * C -> Prop) (Q : B -> C -> Prop) (R : A -> C -> Prop) :
  (forall a b c, P a (b, c) -> Q b c -> R a c) ->
  forall l lb lc, Forall2 P l (combine lb lc) -> Forall2 Q lb lc -> Forall2 R l lc.
Proof.
  intros HPQ l lb lc H1 H2. revert l H1. induction H2 as [|b c lb lc Hq H2 IH]; intros l H1; cbn in H1.
  - inversion H1. constructor.
  - inversion H1; subst. constructor; [eapply HPQ; eauto|apply IH; assumption].
Qed.

Lemma create_answer_shape c s a :
  create_answer c s = AOk a ->
  exists o pre, s_remote s = Some o /\ built_from c s o pre /\ a = finish_answer c o pre.
Proof.
  unfold create_answer. intros H.
  destruct (s_trx s) as [|t0 tr] eqn:Et; [discriminate|]. rewrite <- Et in *.
  destruct (s_remote s) as [o|]; [|discriminate].
  destruct (amatch (s_trx s) [] (f_secs o)) as [idx|] eqn:Em; [|discriminate].
  destruct (build_secs c s (f_secs o) idx (f_secs o)) as [pre|] eqn:Eb; [|discriminate].
  injection H as <-. exists o, pre. split; [reflexivity|]. split; [|reflexivity].
  pose proof (amatch_length _ _ _ _ Em) as Hlen.
  pose proof (build_secs_spec _ _ _ _ _ _ Hlen Eb) as H1.
  pose proof (amatch_spec _ _ _ _ Em) as H2.
  unfold built_from. eapply forall2_combine; [|exact H1|exact H2].
  intros a b sec [t [Hn Hb]] [t' [Hn' Hp]]. cbn [fst snd] in *. rewrite Hn in Hn'. injection Hn' as <-.
  exists t. split; [eapply nth_error_In; eauto|]. split; assumption.
Qed.

(* fields of finish_answer *)
Lemma finish_secs c o pre :
  a_secs (finish_answer c o pre) = pre \/ a_secs (finish_answer c o pre) = map clear_mid pre.
Proof.
  unfold finish_answer. destruct pre as [|p r]; [left; reflexivity|].
  destruct (c_legacy c && negb (will_bundle c o)); [right; reflexivity|].
  destruct (negb (will_bundle c o) && _); [right|left]; reflexivity.
Qed.

Lemma Forall2_impl {A B} (P Q : A -> B -> Prop) l l' :
  (forall a b, P a b -> Q a b) -> Forall2 P l l' -> Forall2 Q l l'.
Proof. intros H. induction 1; constructor; auto. Qed.

Lemma Forall2_length {A B} (P : A -> B -> Prop) l l' : Forall2 P l l' -> List.length l = List.length l'.
Proof. induction 1; cbn; auto. Qed.

Lemma forall2_map_l {A B C} (f : A -> B) (P : B -> C -> Prop) l l' :
  Forall2 (fun x y => P (f x) y) l l' -> Forall2 P (map f l) l'.
Proof. induction 1; cbn; constructor; auto. Qed.

(* a per-section fact that does not mention the mid survives finish_answer *)
Lemma finish_forall2 c o pre (P : asec -> osec -> Prop) :
  (forall a sec, P a sec -> P (clear_mid a) sec) ->
  Forall2 P pre (f_secs o) -> Forall2 P (a_secs (finish_answer c o pre)) (f_secs o).
Proof.
  intros Hc H. destruct (finish_secs c o pre) as [-> | ->]; [exact H|].
  apply forall2_map_l. eapply Forall2_impl; [|exact H]. intros a b Hab. apply Hc. exact Hab.
Qed.

(* ------------------------------------------------------------------ rtcp-mux, count: any state *)
Theorem answer_count c s o a :
  s_remote s = Some o -> create_answer c s = AOk a -> List.length (a_secs a) = List.length (f_secs o).
Proof.
  intros Hr H. destruct (create_answer_shape _ _ _ H) as [o' [pre [Hr' [Hb ->]]]].
  rewrite Hr in Hr'. injection Hr' as <-.
  assert (Hl : List.length pre = List.length (f_secs o)) by (eapply Forall2_length; exact Hb).
  destruct (finish_secs c o pre) as [-> | ->]; [exact Hl|rewrite map_length; exact Hl].
Qed.

Lemma build_sec_fields c s remote t sec a :
  build_sec c s remote t sec = Some a ->
  exists m, t_mid t = Some m /\ a_kind a = t_kind t /\ a_mid a = m /\ a_dir a = ans_dir t remote m /\
            a_ext a = ans_ext c (t_kind t) remote m /\
            a_mux a = (is_rtp_kind (t_kind t) && c_mux c && negb (c_legacy c) && o_mux sec) /\
            a_setup a = ans_setup c (s_role s) /\ a_proto a = ans_proto c (t_kind t) /\
            (a_pts a, a_apt a) = match t_kind t with
                                 | KAudio => (audio_pts c (s_local s) remote m, [])
                                 | KVideo => video_pts_apt c remote m
                                 | _ => ([], [])
                                 end.
Proof.
  unfold build_sec. destruct (t_mid t) as [m|]; [|discriminate].
  destruct (match t_kind t with KAudio => _ | KVideo => _ | _ => _ end) as [pts apt] eqn:E.
  intros H. injection H as <-. exists m. cbn. repeat split; try reflexivity. symmetry. exact E.
Qed.

Theorem answer_rtcp_mux c s o a :
  s_remote s = Some o -> create_answer c s = AOk a ->
  Forall2 (fun x y => a_mux x = true -> o_mux y = true) (a_secs a) (f_secs o).
Proof.
  intros Hr H. destruct (create_answer_shape _ _ _ H) as [o' [pre [Hr' [Hb ->]]]].
  rewrite Hr in Hr'. injection Hr' as <-.
  apply finish_forall2; [intros a sec Ha; exact Ha|].
  eapply Forall2_impl; [|exact Hb]. intros a sec [t [_ [_ Hbs]]] Hm.
  destruct (build_sec_fields _ _ _ _ _ _ Hbs) as [m [_ [_ [_ [_ [_ [Hmux _]]]]]]].
  rewrite Hmux in Hm. apply andb_true_iff in Hm. tauto.
Qed.

(* the answer only carries rtcp-mux under the Require policy outside LegacySip mode *)
Theorem answer_rtcp_mux_policy c s o a :
  s_remote s = Some o -> create_answer c s = AOk a ->
  Forall (fun x => a_mux x = true -> c_mux c = true /\ c_legacy c = false /\ is_rtp_kind (a_kind x) = true) (a_secs a).
Proof.
  intros Hr H. destruct (create_answer_shape _ _ _ H) as [o' [pre [Hr' [Hb ->]]]].
  assert (Hpre : Forall (fun x => a_mux x = true -> c_mux c = true /\ c_legacy c = false /\ is_rtp_kind (a_kind x) = true) pre).
  { clear Hr Hr' H. induction Hb as [|a sec l l' [t [_ [_ Hbs]]] _ IH]; [constructor|]. constructor; [|exact IH].
    destruct (build_sec_fields _ _ _ _ _ _ Hbs) as [m [_ [Hk [_ [_ [_ [Hmux _]]]]]]].
    rewrite Hmux, Hk. intros Hm. apply andb_true_iff in Hm as [Hm Ho]. apply andb_true_iff in Hm as [Hm Hl].
    apply andb_true_iff in Hm as [Hrk Hcm]. apply negb_true_iff in Hl. auto. }
  destruct (finish_secs c o' pre) as [-> | ->]; [exact Hpre|].
  apply Forall_forall. intros x Hx. apply in_map_iff in Hx as [y [<- Hy]].
  rewrite Forall_forall in Hpre. exact (Hpre y Hy).
Qed.

(* ------------------------------------------------------------------ unique mids among transceivers *)
Definition UM (ts : list trx) : Prop :=
  forall i j t t' m, nth_error ts i = Some t -> nth_error ts j = Some t' ->
                     t_mid t = Some m -> t_mid t' = Some m -> str_empty m = false -> i = j.

Definition sec_matches (t : trx) (sec : osec) : Prop :=
  t_kind t = o_kind sec /\ t_mid t = Some (o_mid sec) /\ t_dir t = o_dir sec.

(* offers whose sections all carry pairwise distinct mids *)
Definition wfA (secs : list osec) : Prop :=
  Forall (fun s => str_empty (o_mid s) = false) secs /\ NoDup (map o_mid secs).

(* a transceiver that carries the mid of an offered section has that section's kind *)
Definition compat (ts : list trx) (secs : list osec) : Prop :=
  forall t sec, In t ts -> In sec secs -> t_mid t = Some (o_mid sec) -> t_kind t = o_kind sec.

Lemma nodup_mid_inj secs a b : NoDup (map o_mid secs) -> In a secs -> In b secs -> o_mid a = o_mid b -> a = b.
Proof.
  induction secs as [|x r IH]; intros Hnd Ha Hb Hm; [destruct Ha|].
  cbn in Hnd. inversion Hnd as [|? ? Hnin Hnd']; subst.
  destruct Ha as [<-|Ha], Hb as [<-|Hb]; auto.
  - exfalso. apply Hnin. rewrite Hm. apply in_map. exact Hb.
  - exfalso. apply Hnin. rewrite <- Hm. apply in_map. exact Ha.
Qed.

(* invariant of the matching loop of set_remote_description *)
Record K (ts : list trx) (u : list nat) (done all : list osec) : Prop := mkK {
  k_um : UM ts;
  k_used : forall i, In i u -> exists t sec, nth_error ts i = Some t /\ In sec done /\ sec_matches t sec;
  k_done : forall sec, In sec done -> exists i t, In i u /\ nth_error ts i = Some t /\ sec_matches t sec;
  k_compat : compat ts all }.

Lemma in_nth {A} (l : list A) x : In x l -> exists i, nth_error l i = Some x.
Proof. apply In_nth_error. Qed.

Lemma sr_step_K ts u done sec todo :
  wfA (done ++ sec :: todo) ->
  K ts u done (done ++ sec :: todo) ->
  let '(ts', u') := sr_step (ts, u) sec in K ts' u' (done ++ [sec]) (done ++ sec :: todo).
Proof.
  intros [Hne Hnd] HK. set (all := done ++ sec :: todo) in *.
  assert (Hsec_in : In sec all) by (unfold all; apply in_or_app; right; left; reflexivity).
  assert (Hm_ne : str_empty (o_mid sec) = false).
  { rewrite Forall_forall in Hne. apply Hne. exact Hsec_in. }
  assert (Hfresh : forall s0, In s0 done -> o_mid s0 <> o_mid sec).
  { intros s0 H0 Heq. unfold all in Hnd. rewrite map_app in Hnd. cbn [map] in Hnd.
    apply NoDup_remove_2 in Hnd. apply Hnd. apply in_or_app. left. rewrite <- Heq. apply in_map. exact H0. }
  (* no transceiver carries the new mid unless the by-mid search finds it *)
  assert (Hnomid : find_idx (fun i t => negb (used_b u i) && kind_eqb (t_kind t) (o_kind sec) && mid_is t (o_mid sec)) ts = None ->
                   forall j t, nth_error ts j = Some t -> t_mid t = Some (o_mid sec) -> False).
  { intros Hnone j t Hj Hmid.
    destruct (used_b u j) eqn:Eu.
    - apply used_b_in in Eu. destruct (k_used _ _ _ _ HK j Eu) as [t' [s0 [Hj' [Hs0 [_ [Hm' _]]]]]].
      rewrite Hj in Hj'. injection Hj' as <-. rewrite Hmid in Hm'. injection Hm' as Hm'.
      exact (Hfresh s0 Hs0 (eq_sym Hm')).
    - pose proof (find_idx_none _ _ Hnone j t Hj) as Hp. cbn beta in Hp. rewrite Eu in Hp. cbn [negb andb] in Hp.
      assert (Hk : t_kind t = o_kind sec).
      { apply (k_compat _ _ _ _ HK t sec); [eapply nth_error_In; eauto|exact Hsec_in|exact Hmid]. }
      rewrite Hk in Hp. assert (kind_eqb (o_kind sec) (o_kind sec) = true) by (apply kind_eqb_spec; reflexivity).
      rewrite H in Hp. cbn [andb] in Hp. apply mid_is_spec in Hmid. congruence. }
  unfold sr_step. cbv beta iota zeta. rewrite Hm_ne.
  destruct (find_idx (fun i t => negb (used_b u i) && kind_eqb (t_kind t) (o_kind sec) && mid_is t (o_mid sec)) ts) as [i|] eqn:E1.
  - (* found by mid *)
    destruct (find_idx_some _ _ _ E1) as [t [Hi [Hp _]]].
    apply andb_true_iff in Hp as [Hp Hmid]. apply andb_true_iff in Hp as [Hun Hkind].
    apply negb_true_iff in Hun. apply used_b_false in Hun. apply kind_eqb_spec in Hkind. apply mid_is_spec in Hmid.
    constructor.
    + intros a b ta tb m Ha Hb Hma Hmb Hm.
      apply nth_upd_inv in Ha. apply nth_upd_inv in Hb.
      assert (Ha' : exists ta0, nth_error ts a = Some ta0 /\ t_mid ta0 = Some m).
      { destruct Ha as [[-> [x [Hx ->]]]|[_ Ha]]; [exists x; split; [exact Hx|exact Hma]|eauto]. }
      assert (Hb' : exists tb0, nth_error ts b = Some tb0 /\ t_mid tb0 = Some m).
      { destruct Hb as [[-> [x [Hx ->]]]|[_ Hb]]; [exists x; split; [exact Hx|exact Hmb]|eauto]. }
      destruct Ha' as [ta0 [Ha1 Ha2]], Hb' as [tb0 [Hb1 Hb2]].
      exact (k_um _ _ _ _ HK a b ta0 tb0 m Ha1 Hb1 Ha2 Hb2 Hm).
    + intros j [<-|Hj].
      * exists (set_dir_t (o_dir sec) t), sec. split; [apply nth_upd_same; exact Hi|].
        split; [apply in_or_app; right; left; reflexivity|]. repeat split; cbn; auto.
      * destruct (k_used _ _ _ _ HK j Hj) as [t' [s0 [Hj' [Hs0 Hm0]]]].
        exists t', s0. split; [rewrite nth_upd_other; [exact Hj'|intros ->; contradiction]|].
        split; [apply in_or_app; left; exact Hs0|exact Hm0].
    + intros s0 Hs0. apply in_app_or in Hs0 as [Hs0|[<-|[]]].
      * destruct (k_done _ _ _ _ HK s0 Hs0) as [j [t' [Hj [Hj' Hm0]]]].
        exists j, t'. split; [right; exact Hj|]. split; [|exact Hm0].
        rewrite nth_upd_other; [exact Hj'|intros ->; contradiction].
      * exists i, (set_dir_t (o_dir sec) t). split; [left; reflexivity|].
        split; [apply nth_upd_same; exact Hi|]. repeat split; cbn; auto.
    + intros t' s0 Hin Hs0 Hmid'. apply in_nth in Hin as [j Hj]. apply nth_upd_inv in Hj.
      destruct Hj as [[-> [x [Hx ->]]]|[_ Hj]].
      * cbn in *. apply (k_compat _ _ _ _ HK x s0); [eapply nth_error_In; eauto|exact Hs0|exact Hmid'].
      * apply (k_compat _ _ _ _ HK t' s0); [eapply nth_error_In; eauto|exact Hs0|exact Hmid'].
  - specialize (Hnomid eq_refl).
    destruct (find_idx (fun i t => negb (used_b u i) && mid_none t && kind_eqb (t_kind t) (o_kind sec)) ts) as [i|] eqn:E2.
    + (* a transceiver without mid, same kind *)
      destruct (find_idx_some _ _ _ E2) as [t [Hi [Hp _]]].
      apply andb_true_iff in Hp as [Hp Hkind]. apply andb_true_iff in Hp as [Hun Hnone].
      apply negb_true_iff in Hun. apply used_b_false in Hun. apply kind_eqb_spec in Hkind.
      constructor.
      * intros a b ta tb m Ha Hb Hma Hmb Hm.
        apply nth_upd_inv in Ha. apply nth_upd_inv in Hb.
        destruct Ha as [[-> [x [Hx ->]]]|[Hai Ha]], Hb as [[-> [y [Hy ->]]]|[Hbi Hb]]; auto.
        -- cbn in Hma. injection Hma as <-. exfalso. exact (Hnomid b tb Hb Hmb).
        -- cbn in Hmb. injection Hmb as <-. exfalso. exact (Hnomid a ta Ha Hma).
        -- exact (k_um _ _ _ _ HK a b ta tb m Ha Hb Hma Hmb Hm).
      * intros j [<-|Hj].
        -- exists (set_mid_dir_t (o_mid sec) (o_dir sec) t), sec. split; [apply nth_upd_same; exact Hi|].
           split; [apply in_or_app; right; left; reflexivity|]. repeat split; cbn; auto.
        -- destruct (k_used _ _ _ _ HK j Hj) as [t' [s0 [Hj' [Hs0 Hm0]]]].
           exists t', s0. split; [rewrite nth_upd_other; [exact Hj'|intros ->; contradiction]|].
           split; [apply in_or_app; left; exact Hs0|exact Hm0].
      * intros s0 Hs0. apply in_app_or in Hs0 as [Hs0|[<-|[]]].
        -- destruct (k_done _ _ _ _ HK s0 Hs0) as [j [t' [Hj [Hj' Hm0]]]].
           exists j, t'. split; [right; exact Hj|]. split; [|exact Hm0].
           rewrite nth_upd_other; [exact Hj'|intros ->; contradiction].
        -- exists i, (set_mid_dir_t (o_mid sec) (o_dir sec) t). split; [left; reflexivity|].
           split; [apply nth_upd_same; exact Hi|]. repeat split; cbn; auto.
      * intros t' s0 Hin Hs0 Hmid'. apply in_nth in Hin as [j Hj]. apply nth_upd_inv in Hj.
        destruct Hj as [[-> [x [Hx ->]]]|[_ Hj]].
        -- rewrite Hi in Hx. injection Hx as <-. cbn in *. injection Hmid' as Hmid'.
           assert (s0 = sec) by (apply (nodup_mid_inj all); auto). subst s0. exact Hkind.
        -- apply (k_compat _ _ _ _ HK t' s0); [eapply nth_error_In; eauto|exact Hs0|exact Hmid'].
    + (* a new transceiver *)
      set (nt := mkTrx (o_kind sec) (Some (o_mid sec)) (o_dir sec) false).
      assert (Hlen : forall j t', nth_error ts j = Some t' -> nth_error (ts ++ [nt]) j = Some t').
      { intros j t' Hj. rewrite nth_error_app1; [exact Hj|]. apply nth_error_Some. congruence. }
      assert (Hsplit : forall j t', nth_error (ts ++ [nt]) j = Some t' ->
                                    nth_error ts j = Some t' \/ (j = List.length ts /\ t' = nt)).
      { intros j t' Hj. destruct (Nat.lt_ge_cases j (List.length ts)) as [Hlt|Hge].
        - left. rewrite nth_error_app1 in Hj; assumption.
        - right. rewrite nth_error_app2 in Hj by exact Hge.
          destruct (j - List.length ts)%nat as [|k] eqn:Ek; cbn in Hj.
          + injection Hj as <-. split; [lia|reflexivity].
          + destruct k; discriminate. }
      constructor.
      * intros a b ta tb m Ha Hb Hma Hmb Hm.
        apply Hsplit in Ha. apply Hsplit in Hb.
        destruct Ha as [Ha|[-> ->]], Hb as [Hb|[-> ->]]; auto.
        -- exact (k_um _ _ _ _ HK a b ta tb m Ha Hb Hma Hmb Hm).
        -- cbn in Hmb. injection Hmb as <-. exfalso. exact (Hnomid a ta Ha Hma).
        -- cbn in Hma. injection Hma as <-. exfalso. exact (Hnomid b tb Hb Hmb).
      * intros j [<-|Hj].
        -- exists nt, sec. split; [rewrite nth_error_app2 by lia; rewrite Nat.sub_diag; reflexivity|].
           split; [apply in_or_app; right; left; reflexivity|]. repeat split; reflexivity.
        -- destruct (k_used _ _ _ _ HK j Hj) as [t' [s0 [Hj' [Hs0 Hm0]]]].
           exists t', s0. split; [apply Hlen; exact Hj'|]. split; [apply in_or_app; left; exact Hs0|exact Hm0].
      * intros s0 Hs0. apply in_app_or in Hs0 as [Hs0|[<-|[]]].
        -- destruct (k_done _ _ _ _ HK s0 Hs0) as [j [t' [Hj [Hj' Hm0]]]].
           exists j, t'. split; [right; exact Hj|]. split; [apply Hlen; exact Hj'|exact Hm0].
        -- exists (List.length ts), nt. split; [left; reflexivity|].
           split; [rewrite nth_error_app2 by lia; rewrite Nat.sub_diag; reflexivity|]. repeat split; reflexivity.
      * intros t' s0 Hin Hs0 Hmid'. apply in_app_or in Hin as [Hin|[<-|[]]].
        -- apply (k_compat _ _ _ _ HK t' s0); assumption.
        -- cbn in *. injection Hmid' as Hmid'.
           assert (s0 = sec) by (apply (nodup_mid_inj all); auto). subst s0. reflexivity.
Qed.

Lemma sr_fold_K : forall todo done ts u,
  wfA (done ++ todo) -> K ts u done (done ++ todo) ->
  let '(ts', u') := fold_left sr_step todo (ts, u) in K ts' u' (done ++ todo) (done ++ todo).
Proof.
  induction todo as [|sec todo IH]; intros done ts u Hwf HK.
  - cbn. rewrite app_nil_r in *. exact HK.
  - cbn [fold_left]. pose proof (sr_step_K ts u done sec todo Hwf HK) as H1.
    destruct (sr_step (ts, u) sec) as [ts1 u1].
    replace (done ++ sec :: todo) with ((done ++ [sec]) ++ todo) in * by (rewrite <- app_assoc; reflexivity).
    apply IH; assumption.
Qed.

(* the matching loop establishes: unique mids, and for every offered section a transceiver with its
   kind, mid and direction *)
Lemma sr_pass_post ts secs :
  wfA secs -> UM ts -> compat ts secs ->
  UM (sr_pass ts secs) /\
  (forall sec, In sec secs -> exists t, In t (sr_pass ts secs) /\ sec_matches t sec) /\
  compat (sr_pass ts secs) secs.
Proof.
  intros Hwf Hum Hc. unfold sr_pass.
  assert (HK0 : K ts [] [] ([] ++ secs)).
  { constructor; [exact Hum| intros i []| intros s []|exact Hc]. }
  pose proof (sr_fold_K secs [] ts [] Hwf HK0) as H.
  destruct (fold_left sr_step secs (ts, [])) as [ts' u']. cbn [fst app] in *.
  split; [exact (k_um _ _ _ _ H)|]. split; [|exact (k_compat _ _ _ _ H)].
  intros sec Hs. destruct (k_done _ _ _ _ H sec Hs) as [i [t [_ [Hi Hm]]]].
  exists t. split; [eapply nth_error_In; eauto|exact Hm].
Qed.

(* handle_reinvite's pass only rewrites directions *)
Lemma hr_step_shape tu sec :
  let '(ts', _) := hr_step tu sec in
  List.length ts' = List.length (fst tu) /\
  forall j t', nth_error ts' j = Some t' -> exists t, nth_error (fst tu) j = Some t /\ t_kind t' = t_kind t /\ t_mid t' = t_mid t.
Proof.
  destruct tu as [ts u]. unfold hr_step.
  assert (Hid : List.length ts = List.length ts /\
                forall j t', nth_error ts j = Some t' -> exists t, nth_error ts j = Some t /\ t_kind t' = t_kind t /\ t_mid t' = t_mid t)
    by (split; [reflexivity|intros j t' H; exists t'; auto]).
  destruct (is_rtp_kind (o_kind sec)); [|exact Hid].
  destruct (orelse _ _) as [i|]; [|exact Hid].
  cbn [fst]. split; [apply upd_length|].
  intros j t' Hj. apply nth_upd_inv in Hj. destruct Hj as [[-> [x [Hx ->]]]|[_ Hj]]; [exists x; auto|exists t'; auto].
Qed.

Lemma hr_pass_shape ts secs :
  forall j t', nth_error (hr_pass ts secs) j = Some t' ->
               exists t, nth_error ts j = Some t /\ t_kind t' = t_kind t /\ t_mid t' = t_mid t.
Proof.
  unfold hr_pass. generalize (@nil nat). revert ts.
  induction secs as [|sec r IH]; intros ts u j t' H; cbn [fold_left fst] in H; [exists t'; auto|].
  pose proof (hr_step_shape (ts, u) sec) as Hs. destruct (hr_step (ts, u) sec) as [ts1 u1]. cbn [fst] in Hs.
  destruct (IH ts1 u1 j t' H) as [t1 [H1 [Hk Hm]]]. destruct Hs as [_ Hs].
  destruct (Hs j t1 H1) as [t [Ht [Hk' Hm']]]. exists t. split; [exact Ht|]. split; congruence.
Qed.

Lemma hr_pass_UM ts secs : UM ts -> UM (hr_pass ts secs).
Proof.
  intros H i j t t' m Hi Hj Hm Hm' Hne.
  destruct (hr_pass_shape _ _ _ _ Hi) as [a [Ha [_ Hma]]]. destruct (hr_pass_shape _ _ _ _ Hj) as [b [Hb [_ Hmb]]].
  apply (H i j a b m); congruence.
Qed.

Lemma hr_pass_compat ts secs secs' : compat ts secs' -> compat (hr_pass ts secs) secs'.
Proof.
  intros H t sec Hin Hs Hm. apply in_nth in Hin as [j Hj].
  destruct (hr_pass_shape _ _ _ _ Hj) as [a [Ha [Hk Hma]]]. rewrite Hk.
  apply (H a sec); [eapply nth_error_In; eauto|exact Hs|congruence].
Qed.

(* ------------------------------------------------------------------ coherence of the two matchings *)
Definition inv_state (s : st) : Prop := UM (s_trx s).
Definition compat_state (s : st) (o : offer) : Prop := compat (s_trx s) (f_secs o).
(* the description is processed (not the unchanged-re-offer shortcut) *)
Definition applied (s : st) (changed : bool) : Prop := s_remote s = None \/ changed = true.

Lemma set_remote_post c s o changed :
  wfA (f_secs o) -> inv_state s -> compat_state s o -> applied s changed ->
  let s1 := set_remote c s o changed in
  s_remote s1 = Some o /\ inv_state s1 /\ compat_state s1 o /\
  s_role s1 = new_role c (s_role s) o /\ s_local s1 = s_local s /\
  (forall sec, In sec (f_secs o) -> exists t, In t (s_trx s1) /\ sec_matches t sec).
Proof.
  intros Hwf Hinv Hc Happ. unfold set_remote, inv_state, compat_state in *.
  destruct (s_remote s) as [prev|] eqn:Er.
  - destruct Happ as [Hn | ->]; [congruence|].
    destruct (sr_pass_post (hr_pass (s_trx s) (f_secs o)) (f_secs o) Hwf (hr_pass_UM _ _ Hinv) (hr_pass_compat _ _ _ Hc))
      as [H1 [H2 H3]].
    cbn [s_remote s_trx s_role s_local]. repeat split; auto.
  - destruct (sr_pass_post (s_trx s) (f_secs o) Hwf Hinv Hc) as [H1 [H2 H3]].
    cbn [s_remote s_trx s_role s_local]. repeat split; auto.
Qed.

(* with unique mids the answer's matching picks, for every section, the transceiver that
   set_remote_description bound to it *)
Lemma built_from_matches_gen c s remote (good : osec -> Prop) pre secs :
  (forall sec, good sec -> str_empty (o_mid sec) = false /\ exists t, In t (s_trx s) /\ sec_matches t sec) ->
  UM (s_trx s) -> Forall good secs ->
  Forall2 (fun a sec => exists t,
             In t (s_trx s) /\
             (if str_empty (o_mid sec) then kind_eqb (t_kind t) (o_kind sec) else mid_is t (o_mid sec)) = true /\
             build_sec c s remote t sec = Some a) pre secs ->
  Forall2 (fun a sec => exists t, sec_matches t sec /\ build_sec c s remote t sec = Some a) pre secs.
Proof.
  intros Hgood Hum Hall Hb. induction Hb as [|a sec l l' [t [Hin [Hp Hbs]]] _ IH]; [constructor|].
  inversion Hall as [|? ? Hg Hall']; subst. constructor; [|apply IH; exact Hall'].
  destruct (Hgood sec Hg) as [Hm [t' [Hin' Hm']]].
  rewrite Hm in Hp. apply mid_is_spec in Hp.
  apply in_nth in Hin as [i Hi]. apply in_nth in Hin' as [j Hj].
  assert (i = j) by (apply (Hum i j t t' (o_mid sec)); auto; apply Hm').
  subst j. rewrite Hi in Hj. injection Hj as <-. exists t. split; assumption.
Qed.

Lemma built_from_matches c s o pre :
  wfA (f_secs o) -> inv_state s ->
  (forall sec, In sec (f_secs o) -> exists t, In t (s_trx s) /\ sec_matches t sec) ->
  built_from c s o pre ->
  Forall2 (fun a sec => exists t, sec_matches t sec /\ build_sec c s (f_secs o) t sec = Some a) pre (f_secs o).
Proof.
  intros [Hne _] Hum Hex Hb.
  apply (built_from_matches_gen c s (f_secs o) (fun sec => In sec (f_secs o))); auto.
  - intros sec Hs. split; [rewrite Forall_forall in Hne; apply Hne; exact Hs|apply Hex; exact Hs].
  - apply Forall_forall. auto.
Qed.

Lemma lookup_mid_self secs sec :
  NoDup (map o_mid secs) -> In sec secs -> lookup_mid secs (o_mid sec) = Some sec.
Proof.
  intros Hnd Hin. unfold lookup_mid.
  destruct (find (fun s => String.eqb (o_mid s) (o_mid sec)) secs) as [x|] eqn:E.
  - apply find_some in E as [Hx Heq]. apply String.eqb_eq in Heq. f_equal. apply (nodup_mid_inj secs); auto.
  - exfalso. pose proof (find_none _ _ E sec Hin) as H. cbn in H. rewrite String.eqb_refl in H. discriminate.
Qed.

(* the main structural statement: one negotiation round with an offer whose sections carry distinct
   mids yields sections built from transceivers of the offered kind / mid / direction *)
Theorem coherent_answer c s o changed a :
  wfA (f_secs o) -> inv_state s -> compat_state s o -> applied s changed ->
  create_answer c (set_remote c s o changed) = AOk a ->
  let s1 := set_remote c s o changed in
  exists pre,
    a = finish_answer c o pre /\
    Forall2 (fun x sec => exists t, sec_matches t sec /\ build_sec c s1 (f_secs o) t sec = Some x) pre (f_secs o).
Proof.
  intros Hwf Hinv Hc Happ H s1.
  destruct (set_remote_post c s o changed Hwf Hinv Hc Happ) as [Hr [Hi1 [_ [_ [_ Hex]]]]]. fold s1 in Hr, Hi1, Hex.
  destruct (create_answer_shape _ _ _ H) as [o' [pre [Hr' [Hb ->]]]]. fold s1 in Hr', Hb.
  rewrite Hr in Hr'. injection Hr' as <-. exists pre. split; [reflexivity|].
  apply built_from_matches; assumption.
Qed.

(* the invariants hold initially and are kept by every round, so the theorem applies to every
   negotiation of a connection *)
Lemma inv_init : inv_state st_init.
Proof. intros i j t t' m Hi. destruct i; discriminate. Qed.

Lemma inv_add_transceiver s k d : inv_state s -> inv_state (add_transceiver s k d).
Proof.
  unfold inv_state, add_transceiver. cbn [s_trx]. intros H i j t t' m Hi Hj Hm Hm' Hne.
  assert (Hsplit : forall j t', nth_error (s_trx s ++ [mkTrx k None d (dir_sends d)]) j = Some t' ->
                                nth_error (s_trx s) j = Some t' \/ t_mid t' = None).
  { intros j0 t0 H0. destruct (Nat.lt_ge_cases j0 (List.length (s_trx s))) as [Hlt|Hge].
    - left. rewrite nth_error_app1 in H0; assumption.
    - right. rewrite nth_error_app2 in H0 by exact Hge.
      destruct (j0 - List.length (s_trx s))%nat as [|q]; cbn in H0; [injection H0 as <-; reflexivity|destruct q; discriminate]. }
  destruct (Hsplit _ _ Hi) as [Hi'|Hn]; [|congruence]. destruct (Hsplit _ _ Hj) as [Hj'|Hn]; [|congruence].
  exact (H i j t t' m Hi' Hj' Hm Hm' Hne).
Qed.

Lemma inv_negotiate c s o changed :
  wfA (f_secs o) -> inv_state s -> compat_state s o -> inv_state (fst (negotiate c s o changed)).
Proof.
  intros Hwf Hinv Hc. unfold negotiate.
  assert (H1 : inv_state (set_remote c s o changed)).
  { unfold set_remote. destruct (s_remote s) as [prev|] eqn:Er.
    - destruct changed.
      + destruct (sr_pass_post (hr_pass (s_trx s) (f_secs o)) (f_secs o) Hwf (hr_pass_UM _ _ Hinv) (hr_pass_compat _ _ _ Hc)) as [H1 _].
        exact H1.
      + exact Hinv.
    - destruct (sr_pass_post (s_trx s) (f_secs o) Hwf Hinv Hc) as [H1 _]. exact H1. }
  cbn [fst]. destruct (create_answer c (set_remote c s o changed)); exact H1.
Qed.
