(* C08 (part 2) -- first and subsequent negotiations: the hypotheses of the per-round theorems
   (inv_state, compat_state) hold at every round of a connection whose offers keep the kind of each mid. *)
From Coq Require Import ZArith List Bool String Lia Arith.
From RV Require Import Gen.SdpTables Model.Answer Proofs.AnswerProofs.
Import ListNotations.
Open Scope Z_scope.
Open Scope bool_scope.

(* where the (kind, mid) of a transceiver comes from *)
Definition prov (ts : list trx) (secs : list osec) (t' : trx) : Prop :=
  (exists t, In t ts /\ t_kind t' = t_kind t /\ t_mid t' = t_mid t) \/
  (exists sec, In sec secs /\ t_kind t' = o_kind sec /\ t_mid t' = Some (o_mid sec)).

Lemma upd_in {A} (f : A -> A) l : forall i y, In y (upd i f l) -> In y l \/ exists x, nth_error l i = Some x /\ y = f x.
Proof.
  induction l as [|a l IH]; intros [|i] y H; cbn in *; try tauto.
  - destruct H as [<-|H]; [right; eauto|left; auto].
  - destruct H as [<-|H]; [left; auto|]. destruct (IH i y H) as [H1|H1]; [left; auto|right; exact H1].
Qed.

Lemma sr_step_prov ts u sec secs :
  In sec secs ->
  forall t', In t' (fst (sr_step (ts, u) sec)) -> prov ts secs t'.
Proof.
  intros Hsec t' H. unfold sr_step in H. cbv beta iota zeta in H.
  assert (Hold : forall y, In y ts -> prov ts secs y) by (intros y Hy; left; exists y; auto).
  destruct (if str_empty (o_mid sec) then None else find_idx _ ts) as [i|] eqn:E1.
  - cbn [fst] in H. apply upd_in in H as [H|[x [Hx ->]]]; [auto|].
    left. exists x. split; [eapply nth_error_In; eauto|split; reflexivity].
  - destruct (find_idx (fun i t => negb (used_b u i) && mid_none t && kind_eqb (t_kind t) (o_kind sec)) ts) as [i|] eqn:E2.
    + cbn [fst] in H. apply upd_in in H as [H|[x [Hx ->]]]; [auto|].
      right. exists sec. split; [exact Hsec|]. cbn. split; [|reflexivity].
      destruct (find_idx_some _ _ _ E2) as [x' [Hx' [Hp _]]]. rewrite Hx in Hx'. injection Hx' as <-.
      apply andb_true_iff in Hp as [_ Hk]. apply kind_eqb_spec in Hk. exact Hk.
    + destruct (if str_empty (o_mid sec) then find_idx _ ts else None) as [i|] eqn:E3.
      * cbn [fst] in H. apply upd_in in H as [H|[x [Hx ->]]]; [auto|].
        left. exists x. split; [eapply nth_error_In; eauto|split; reflexivity].
      * cbn [fst] in H. apply in_app_or in H as [H|[<-|[]]]; [auto|].
        right. exists sec. split; [exact Hsec|split; reflexivity].
Qed.

Lemma prov_trans ts ts1 secs t' :
  (forall y, In y ts1 -> prov ts secs y) -> prov ts1 secs t' -> prov ts secs t'.
Proof.
  intros H [[t [Ht [Hk Hm]]]|Hs]; [|right; exact Hs].
  destruct (H t Ht) as [[t0 [H0 [Hk0 Hm0]]]|[sec [Hs [Hk0 Hm0]]]].
  - left. exists t0. split; [exact H0|split; congruence].
  - right. exists sec. split; [exact Hs|split; congruence].
Qed.

Lemma sr_fold_prov secs : forall todo ts u,
  (forall sec, In sec todo -> In sec secs) ->
  forall t', In t' (fst (fold_left sr_step todo (ts, u))) -> prov ts secs t'.
Proof.
  induction todo as [|sec r IH]; intros ts u Hin t' H.
  - cbn in H. left. exists t'. auto.
  - cbn [fold_left] in H. destruct (sr_step (ts, u) sec) as [ts1 u1] eqn:E.
    apply (prov_trans ts ts1).
    + intros y Hy. apply (sr_step_prov ts u sec secs); [apply Hin; left; reflexivity|rewrite E; exact Hy].
    + apply (IH ts1 u1); [intros s Hs; apply Hin; right; exact Hs|exact H].
Qed.

Lemma set_remote_prov c s o changed t' :
  In t' (s_trx (set_remote c s o changed)) -> prov (s_trx s) (f_secs o) t'.
Proof.
  unfold set_remote. destruct (s_remote s).
  - destruct changed; cbn [s_trx]; [|intros H; left; exists t'; auto].
    intros H. unfold sr_pass in H. apply (sr_fold_prov (f_secs o)) in H; [|auto].
    apply (prov_trans (s_trx s) (hr_pass (s_trx s) (f_secs o))); [|exact H].
    intros y Hy. apply In_nth_error in Hy as [j Hj]. destruct (hr_pass_shape _ _ _ _ Hj) as [t [Ht [Hk Hm]]].
    left. exists t. split; [eapply nth_error_In; eauto|auto].
  - cbn [s_trx]. intros H. unfold sr_pass in H. apply (sr_fold_prov (f_secs o)) in H; auto.
Qed.

(* every non-empty mid carried by a transceiver was given to a section of that kind by an earlier offer *)
Definition hist_ok (s : st) (H : list offer) : Prop :=
  forall t m, In t (s_trx s) -> t_mid t = Some m -> str_empty m = false ->
              exists o sec, In o H /\ In sec (f_secs o) /\ o_mid sec = m /\ o_kind sec = t_kind t.

(* across the offers of a connection a mid keeps its media kind *)
Definition consistent (os : list offer) : Prop :=
  forall o1 o2 s1 s2, In o1 os -> In o2 os -> In s1 (f_secs o1) -> In s2 (f_secs o2) ->
                      o_mid s1 = o_mid s2 -> o_kind s1 = o_kind s2.

Lemma hist_compat s H o :
  hist_ok s H -> consistent (H ++ [o]) -> wfA (f_secs o) -> compat_state s o.
Proof.
  intros Hh Hc [Hne _] t sec Ht Hs Hm.
  assert (Hm0 : str_empty (o_mid sec) = false) by (rewrite Forall_forall in Hne; apply Hne; exact Hs).
  destruct (Hh t (o_mid sec) Ht Hm Hm0) as [o' [sec' [Ho' [Hs' [Hmid Hk]]]]].
  rewrite <- Hk. apply (Hc o' o sec' sec); auto; apply in_or_app; [left|right; left]; auto.
Qed.

Lemma hist_negotiate c s H o changed :
  hist_ok s H -> hist_ok (fst (negotiate c s o changed)) (H ++ [o]).
Proof.
  intros Hh t m Ht Hm Hne.
  assert (Ht' : In t (s_trx (set_remote c s o changed))).
  { unfold negotiate in Ht. cbn [fst] in Ht. destruct (create_answer c (set_remote c s o changed)); exact Ht. }
  destruct (set_remote_prov c s o changed t Ht') as [[t0 [H0 [Hk Hm0]]]|[sec [Hs [Hk Hm0]]]].
  - destruct (Hh t0 m H0 ltac:(congruence) Hne) as [o' [sec' [Ho' [Hs' [Hmid Hk']]]]].
    exists o', sec'. split; [apply in_or_app; left; exact Ho'|]. repeat split; auto. congruence.
  - exists o, sec. split; [apply in_or_app; right; left; reflexivity|]. repeat split; auto. congruence.
Qed.

Lemma hist_add_transceiver s H k d : hist_ok s H -> hist_ok (add_transceiver s k d) H.
Proof.
  intros Hh t m Ht Hm Hne. unfold add_transceiver in Ht. cbn [s_trx] in Ht.
  apply in_app_or in Ht as [Ht|[<-|[]]]; [exact (Hh t m Ht Hm Hne)|discriminate].
Qed.

Lemma hist_init H : hist_ok st_init H.
Proof. intros t m []. Qed.

(* the states, offers and flags of the successive rounds *)
Fixpoint trace (c : config) (s : st) (rs : list (offer * bool)) : list (st * offer * bool) :=
  match rs with
  | [] => []
  | (o, ch) :: r => (s, o, ch) :: trace c (fst (negotiate c s o ch)) r
  end.

Theorem all_rounds c : forall rs s H,
  inv_state s -> hist_ok s H ->
  Forall (fun r => wfA (f_secs (fst r))) rs ->
  consistent (H ++ map fst rs) ->
  Forall (fun x => let '(s', o, ch) := x in wfA (f_secs o) /\ inv_state s' /\ compat_state s' o) (trace c s rs).
Proof.
  induction rs as [|[o ch] r IH]; intros s H Hinv Hh Hwf Hc; cbn [trace]; [constructor|].
  inversion Hwf as [|? ? Hw Hwr]; subst. cbn [fst] in Hw.
  assert (Hcs : compat_state s o).
  { apply (hist_compat s H o Hh); [|exact Hw].
    intros o1 o2 s1 s2 H1 H2. apply Hc; cbn [map]; apply in_app_or in H1; apply in_app_or in H2; apply in_or_app;
      [destruct H1 as [H1|[<-|[]]]; [left; exact H1|right; left; reflexivity]
      |destruct H2 as [H2|[<-|[]]]; [left; exact H2|right; left; reflexivity]]. }
  constructor; [auto|].
  apply (IH _ (H ++ [o])).
  - apply inv_negotiate; assumption.
  - apply hist_negotiate. exact Hh.
  - exact Hwr.
  - cbn [map] in Hc. rewrite <- app_assoc. exact Hc.
Qed.

(* a fresh connection with any pre-added transceivers *)
Definition fresh (pre : list (kind * dir)) : st :=
  fold_left (fun s kd => add_transceiver s (fst kd) (snd kd)) pre st_init.

Lemma fresh_ok pre : inv_state (fresh pre) /\ hist_ok (fresh pre) [].
Proof.
  unfold fresh. assert (H : inv_state st_init /\ hist_ok st_init []) by (split; [apply inv_init|apply hist_init]).
  revert H. generalize st_init. induction pre as [|[k d] r IH]; intros s [H1 H2]; cbn [fold_left]; [auto|].
  apply IH. split; [apply inv_add_transceiver; exact H1|apply hist_add_transceiver; exact H2].
Qed.

Theorem all_rounds_fresh c pre rs :
  Forall (fun r => wfA (f_secs (fst r))) rs ->
  consistent (map fst rs) ->
  Forall (fun x => let '(s', o, ch) := x in wfA (f_secs o) /\ inv_state s' /\ compat_state s' o) (trace c (fresh pre) rs).
Proof.
  intros Hwf Hc. destruct (fresh_ok pre) as [H1 H2]. apply (all_rounds c rs (fresh pre) []); auto.
Qed.
