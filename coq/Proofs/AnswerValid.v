(* C08 (part 2) -- the components of valid_answer for the answers the model builds. *)
From Coq Require Import ZArith List Bool String Lia Arith.
From RV Require Import Gen.SdpTables Model.Answer Proofs.AnswerProofs.
Import ListNotations.
Open Scope Z_scope.
Open Scope bool_scope.

(* ------------------------------------------------------------------ small boolean / list facts *)
Lemma zmem_in x l : zmem x l = true <-> In x l.
Proof.
  unfold zmem. rewrite existsb_exists. split.
  - intros [y [Hy He]]. apply Z.eqb_eq in He. subst. exact Hy.
  - intros H. exists x. split; [exact H|apply Z.eqb_refl].
Qed.

Lemma nodup_z_spec l : nodup_z l = true <-> NoDup l.
Proof.
  induction l as [|x r IH]; cbn [nodup_z]; [split; [constructor|reflexivity]|].
  rewrite andb_true_iff, negb_true_iff, IH. split.
  - intros [Hn Hr]. constructor; [|exact Hr]. intros Hin. apply zmem_in in Hin. congruence.
  - intros H. inversion H as [|? ? Hn Hr]; subst. split; [|exact Hr].
    destruct (zmem x r) eqn:E; [apply zmem_in in E; contradiction|reflexivity].
Qed.

Lemma uri_eqb_eq a b : uri_eqb a b = true <-> a = b.
Proof.
  destruct a, b; cbn; split; intros H; try reflexivity; try discriminate.
  - apply Z.eqb_eq in H. subst. reflexivity.
  - injection H as ->. apply Z.eqb_refl.
Qed.

Lemma subset_spec {A} (e : A -> A -> bool) (l1 l2 : list A) :
  (forall x, e x x = true) -> (forall x, In x l1 -> In x l2) -> subset e l1 l2 = true.
Proof.
  intros Hr H. unfold subset. apply forallb_forall. intros x Hx. apply existsb_exists.
  exists x. split; [apply H; exact Hx|apply Hr].
Qed.

Lemma pair_eqb_refl p : pair_eqb p p = true.
Proof. unfold pair_eqb. rewrite !Z.eqb_refl. reflexivity. Qed.
Lemma ext_eqb_refl p : ext_eqb p p = true.
Proof. unfold ext_eqb. rewrite Z.eqb_refl. destruct (snd p); cbn; try reflexivity. apply Z.eqb_refl. Qed.

Lemma forall2_in_r {A B} (P : A -> B -> Prop) l l' :
  Forall2 P l l' -> Forall2 (fun a b => P a b /\ In b l') l l'.
Proof.
  induction 1 as [|a b l l' Hab _ IH]; [constructor|].
  constructor; [split; [exact Hab|left; reflexivity]|].
  eapply Forall2_impl; [|exact IH]. intros x y [Hxy Hin]. split; [exact Hxy|right; exact Hin].
Qed.

Lemma forall2_in_l {A B} (P : A -> B -> Prop) l l' x :
  Forall2 P l l' -> In x l -> exists y, In y l' /\ P x y.
Proof.
  induction 1 as [|a b l l' Hab _ IH]; intros Hx; [destruct Hx|].
  destruct Hx as [<-|Hx]; [exists b; split; [left; reflexivity|exact Hab]|].
  destruct (IH Hx) as [y [Hy Hp]]. exists y. split; [right; exact Hy|exact Hp].
Qed.

(* ------------------------------------------------------------------ the fields of a coherent answer *)
Definition pts_apt_of (c : config) (local : bool) (remote : list osec) (k : kind) (m : string) : list Z * list (Z * Z) :=
  match k with
  | KAudio => (audio_pts c local remote m, [])
  | KVideo => video_pts_apt c remote m
  | _ => ([], [])
  end.

(* what every section of the answer looks like before the final mid clearing *)
Definition sec_fields (c : config) (s1 : st) (o : offer) (x : asec) (sec : osec) : Prop :=
  In sec (f_secs o) /\
  a_kind x = o_kind sec /\ a_mid x = o_mid sec /\
  (exists t, t_kind t = o_kind sec /\ t_dir t = o_dir sec /\ a_dir x = ans_dir t (f_secs o) (o_mid sec)) /\
  a_ext x = ans_ext c (o_kind sec) (f_secs o) (o_mid sec) /\
  a_mux x = (is_rtp_kind (o_kind sec) && c_mux c && negb (c_legacy c) && o_mux sec) /\
  a_setup x = ans_setup c (s_role s1) /\
  (a_pts x, a_apt x) = pts_apt_of c (s_local s1) (f_secs o) (o_kind sec) (o_mid sec).

Theorem coherent_fields c s o changed a :
  wfA (f_secs o) -> inv_state s -> compat_state s o -> applied s changed ->
  create_answer c (set_remote c s o changed) = AOk a ->
  exists pre, a = finish_answer c o pre /\
              Forall2 (sec_fields c (set_remote c s o changed) o) pre (f_secs o).
Proof.
  intros Hwf Hinv Hc Happ H.
  destruct (coherent_answer c s o changed a Hwf Hinv Hc Happ H) as [pre [-> Hf]].
  exists pre. split; [reflexivity|].
  apply forall2_in_r in Hf. eapply Forall2_impl; [|exact Hf].
  intros x sec [[t [[Hk [Hm Hd]] Hb]] Hin].
  destruct (build_sec_fields _ _ _ _ _ _ Hb) as [m [Hm' [Hak [Ham [Had [Hae [Hamux [Hasetup [_ Hpts]]]]]]]]].
  rewrite Hm in Hm'. injection Hm' as <-. unfold sec_fields, pts_apt_of.
  rewrite Hk in *. repeat split; auto. exists t. auto.
Qed.

(* ------------------------------------------------------------------ sections: count, order, kind, mid *)
(* the answer keeps the offered mids when a BUNDLE group was offered (in every compatibility mode, since
   ca1331b), or -- outside LegacySip mode -- when there is a single section *)
Definition mids_kept (c : config) (o : offer) : bool :=
  will_bundle c o || (negb (c_legacy c) && (Z.of_nat (List.length (f_secs o)) <=? 1)).

Lemma finish_mids c o pre :
  List.length pre = List.length (f_secs o) ->
  a_secs (finish_answer c o pre) = if mids_kept c o then pre else map clear_mid pre.
Proof.
  intros Hlen. unfold finish_answer, mids_kept. destruct pre as [|p r].
  - destruct (will_bundle c o || _); reflexivity.
  - rewrite <- Hlen. destruct (will_bundle c o); cbn [negb andb orb]; [rewrite andb_false_r; reflexivity|].
    destruct (c_legacy c); cbn [negb andb]; [reflexivity|].
    destruct (1 <? Z.of_nat (List.length (p :: r))) eqn:E1; destruct (Z.of_nat (List.length (p :: r)) <=? 1) eqn:E2; try reflexivity; lia.
Qed.

Theorem sections_ok c s o changed a :
  wfA (f_secs o) -> inv_state s -> compat_state s o -> applied s changed ->
  create_answer c (set_remote c s o changed) = AOk a ->
  Forall2 (fun x sec => a_kind x = o_kind sec /\
                        a_mid x = (if mids_kept c o then o_mid sec else EmptyString)) (a_secs a) (f_secs o).
Proof.
  intros Hwf Hinv Hc Happ H.
  destruct (coherent_fields c s o changed a Hwf Hinv Hc Happ H) as [pre [-> Hf]].
  rewrite (finish_mids c o pre (Forall2_length _ _ _ Hf)).
  destruct (mids_kept c o).
  - eapply Forall2_impl; [|exact Hf]. intros x sec Hx. destruct Hx as [_ [Hk [Hm _]]]. auto.
  - apply forall2_map_l. eapply Forall2_impl; [|exact Hf]. intros x sec Hx. destruct Hx as [_ [Hk [Hm _]]]. auto.
Qed.

(* mid-less sections: the kind is right from any state whatsoever *)
Theorem sections_kind_midless c s o a :
  s_remote s = Some o -> create_answer c s = AOk a ->
  Forall2 (fun x sec => str_empty (o_mid sec) = true -> a_kind x = o_kind sec) (a_secs a) (f_secs o).
Proof.
  intros Hr H. destruct (create_answer_shape _ _ _ H) as [o' [pre [Hr' [Hb ->]]]].
  rewrite Hr in Hr'. injection Hr' as <-.
  apply finish_forall2; [intros x sec Hx; exact Hx|].
  eapply Forall2_impl; [|exact Hb]. intros x sec [t [_ [Hp Hbs]]] Hm. rewrite Hm in Hp.
  apply kind_eqb_spec in Hp. destruct (build_sec_fields _ _ _ _ _ _ Hbs) as [m [_ [Hk _]]]. congruence.
Qed.

(* ------------------------------------------------------------------ direction *)
Lemma ans_dir_compat t remote m : dir_compat (t_dir t) (ans_dir t remote m) = true.
Proof.
  unfold ans_dir. destruct (t_dir t); cbn;
    destruct (t_ssrc t); destruct (is_rtp_kind (t_kind t)); cbn;
    try reflexivity;
    destruct (match lookup_mid remote m with Some s => remote_expects (o_dir s) | None => false end); reflexivity.
Qed.

Theorem direction_ok c s o changed a :
  wfA (f_secs o) -> inv_state s -> compat_state s o -> applied s changed ->
  create_answer c (set_remote c s o changed) = AOk a ->
  Forall2 (fun x sec => dir_compat (o_dir sec) (a_dir x) = true) (a_secs a) (f_secs o).
Proof.
  intros Hwf Hinv Hc Happ H.
  destruct (coherent_fields c s o changed a Hwf Hinv Hc Happ H) as [pre [-> Hf]].
  apply finish_forall2; [intros x sec Hx; exact Hx|].
  eapply Forall2_impl; [|exact Hf]. intros x sec [_ [_ [_ [[t [_ [Hd Ha]]] _]]]].
  rewrite Ha, <- Hd. apply ans_dir_compat.
Qed.

(* ------------------------------------------------------------------ header extensions *)
Definition ext_uris (c : config) (k : kind) : list uri :=
  (match k with KVideo => [URid; URepaired] | _ => [] end) ++ [UAbs] ++ (if c_legacy c then [] else [UMid]).

Lemma ans_ext_flat c k remote m :
  ans_ext c k remote m = flat_map (ext_lookup (lookup_mid remote m)) (ext_uris c k).
Proof.
  unfold ans_ext, ext_uris. destruct k, (c_legacy c); cbn; rewrite ?app_nil_r; try reflexivity;
    rewrite <- ?app_assoc; reflexivity.
Qed.

Lemma ext_uris_nodup c k : NoDup (ext_uris c k).
Proof.
  unfold ext_uris. destruct k, (c_legacy c); cbn;
    repeat (constructor; [cbn; intuition discriminate|]); constructor.
Qed.

Lemma ext_lookup_in sec u e : In e (ext_lookup (Some sec) u) -> In e (o_ext sec) /\ snd e = u.
Proof.
  unfold ext_lookup. destruct (find (fun e0 => uri_eqb (snd e0) u) (o_ext sec)) as [e0|] eqn:E; [|intros []].
  intros [<-|[]]. apply find_some in E as [Hin He]. apply uri_eqb_eq in He. cbn. split; [|reflexivity].
  destruct e0 as [i v]. cbn in *. subst. exact Hin.
Qed.

Lemma flat_lookup_in sec us e :
  In e (flat_map (ext_lookup (Some sec)) us) -> In e (o_ext sec) /\ In (snd e) us.
Proof.
  intros H. apply in_flat_map in H as [u [Hu He]]. destruct (ext_lookup_in _ _ _ He) as [H1 H2].
  split; [exact H1|]. rewrite H2. exact Hu.
Qed.

Lemma nodup_fst_inj {B} (l : list (Z * B)) a b : NoDup (map fst l) -> In a l -> In b l -> fst a = fst b -> a = b.
Proof.
  induction l as [|x r IH]; intros Hnd Ha Hb He; [destruct Ha|].
  cbn in Hnd. inversion Hnd as [|? ? Hn Hr]; subst.
  destruct Ha as [<-|Ha], Hb as [<-|Hb]; auto.
  - exfalso. apply Hn. rewrite He. apply in_map. exact Hb.
  - exfalso. apply Hn. rewrite <- He. apply in_map. exact Ha.
Qed.

Lemma flat_lookup_nodup sec us :
  NoDup (map fst (o_ext sec)) -> NoDup us -> NoDup (map fst (flat_map (ext_lookup (Some sec)) us)).
Proof.
  intros Hnd Hus. induction Hus as [|u us Hnin Hus IH]; [constructor|].
  cbn [flat_map]. rewrite map_app.
  assert (Hone : ext_lookup (Some sec) u = [] \/ exists e, ext_lookup (Some sec) u = [e]).
  { unfold ext_lookup. destruct (find _ (o_ext sec)); [right; eauto|left; reflexivity]. }
  destruct Hone as [->|[e He]]; [exact IH|]. rewrite He. cbn [map app]. constructor; [|exact IH].
  intros Hin. apply in_map_iff in Hin as [e' [Hfst He']].
  destruct (flat_lookup_in _ _ _ He') as [Hin' Hu'].
  assert (Hine : In e (ext_lookup (Some sec) u)) by (rewrite He; left; reflexivity).
  destruct (ext_lookup_in _ _ _ Hine) as [Hin0 Hu0].
  assert (e' = e) by (apply (nodup_fst_inj (o_ext sec)); auto). subst e'. rewrite Hu0 in Hu'. contradiction.
Qed.

Theorem extmap_ok c s o changed a :
  wfA (f_secs o) -> inv_state s -> compat_state s o -> applied s changed ->
  (forall sec, In sec (f_secs o) -> nodup_z (map fst (o_ext sec)) = true) ->
  create_answer c (set_remote c s o changed) = AOk a ->
  Forall2 (fun x sec => v_sec_ext sec x = true) (a_secs a) (f_secs o).
Proof.
  intros Hwf Hinv Hc Happ Hids H.
  destruct (coherent_fields c s o changed a Hwf Hinv Hc Happ H) as [pre [-> Hf]].
  apply finish_forall2; [intros x sec Hx; exact Hx|].
  eapply Forall2_impl; [|exact Hf]. intros x sec [Hin [_ [_ [_ [He _]]]]].
  unfold v_sec_ext. rewrite He, ans_ext_flat, (lookup_mid_self _ _ (proj2 Hwf) Hin).
  apply andb_true_iff. split.
  - apply subset_spec; [apply ext_eqb_refl|]. intros e Hx. apply (flat_lookup_in _ _ _ Hx).
  - apply nodup_z_spec. apply flat_lookup_nodup; [apply nodup_z_spec; apply Hids; exact Hin|apply ext_uris_nodup].
Qed.

(* ------------------------------------------------------------------ RTX associations *)
Lemma amap_get_in r l v : amap_get r l = Some v -> In (r, v) l.
Proof.
  induction l as [|[k x] l IH]; cbn [amap_get]; [discriminate|].
  destruct (amap_get r l) as [y|] eqn:E.
  - intros H. injection H as <-. right. apply IH. reflexivity.
  - destruct (k =? r) eqn:Ek; [|discriminate]. intros H. injection H as <-. apply Z.eqb_eq in Ek. subst. left. reflexivity.
Qed.

Lemma rtx_for_in p l x : rtx_for p l = Some x -> In (x, p) l.
Proof.
  unfold rtx_for. destruct (find _ l) as [[k v]|] eqn:E; [|discriminate]. cbn. intros H. injection H as <-.
  apply find_some in E as [_ He]. cbn in He. destruct (amap_get k l) as [w|] eqn:Eg; [|discriminate].
  apply Z.eqb_eq in He. subst. apply amap_get_in. exact Eg.
Qed.

Lemma merge_rtx_inv apt : forall prims fmts acc fmts' acc' (base : list Z),
  merge_rtx prims apt fmts acc = (fmts', acc') ->
  (forall q, In q acc -> In q apt) ->
  (forall x, In x fmts -> In x base \/ exists p, In (x, p) apt) ->
  (forall q, In q acc' -> In q apt) /\ (forall x, In x fmts' -> In x base \/ exists p, In (x, p) apt).
Proof.
  induction prims as [|p r IH]; intros fmts acc fmts' acc' base H Hacc Hf; cbn [merge_rtx] in H.
  - injection H as <- <-. auto.
  - destruct (rtx_for p apt) as [x|] eqn:Er; [|eapply IH; eauto].
    pose proof (rtx_for_in _ _ _ Er) as Hin.
    eapply IH; [exact H| |].
    + destruct (existsb _ acc); [exact Hacc|]. intros q Hq. apply in_app_or in Hq as [Hq|[<-|[]]]; auto.
    + destruct (zmem x fmts); [exact Hf|]. intros y Hy. apply in_app_or in Hy as [Hy|[<-|[]]]; eauto.
Qed.

Lemma video_pts_apt_sub c remote m rs :
  orelse (lookup_mid remote m) (find (fun s => kind_eqb (o_kind s) KVideo) remote) = Some rs ->
  (forall q, In q (snd (video_pts_apt c remote m)) -> In q (o_apt rs)) /\
  (forall x, In x (fst (video_pts_apt c remote m)) -> In x (video_base c) \/ exists p, In (x, p) (o_apt rs)).
Proof.
  intros Hrs. unfold video_pts_apt. rewrite Hrs.
  destruct (o_apt rs) as [|q0 apt] eqn:Ea; [cbn; split; [intros q []|auto]|]. rewrite <- Ea.
  destruct (merge_rtx _ (o_apt rs) (video_base c) []) as [f' a'] eqn:Em. cbn [fst snd].
  eapply merge_rtx_inv; [exact Em|intros q []|auto].
Qed.

Theorem rtx_ok c s o changed a :
  wfA (f_secs o) -> inv_state s -> compat_state s o -> applied s changed ->
  create_answer c (set_remote c s o changed) = AOk a ->
  Forall2 (fun x sec => v_sec_rtx sec x = true) (a_secs a) (f_secs o).
Proof.
  intros Hwf Hinv Hc Happ H.
  destruct (coherent_fields c s o changed a Hwf Hinv Hc Happ H) as [pre [-> Hf]].
  apply finish_forall2; [intros x sec Hx; exact Hx|].
  eapply Forall2_impl; [|exact Hf]. intros x sec [Hin [_ [_ [_ [_ [_ [_ Hp]]]]]]].
  unfold v_sec_rtx. assert (Ha : a_apt x = snd (pts_apt_of c (s_local (set_remote c s o changed)) (f_secs o) (o_kind sec) (o_mid sec)))
    by (rewrite <- Hp; reflexivity).
  rewrite Ha. unfold pts_apt_of. destruct (o_kind sec); cbn [snd]; try reflexivity.
  apply subset_spec; [apply pair_eqb_refl|].
  apply (video_pts_apt_sub c (f_secs o) (o_mid sec) sec). rewrite (lookup_mid_self _ _ (proj2 Hwf) Hin). reflexivity.
Qed.

(* ------------------------------------------------------------------ payload types (conditional: listed finding F15) *)
Lemma derive_sub remote local x : In x (derive remote local) -> In x (map cd_pt remote).
Proof.
  unfold derive. intros H. apply in_flat_map in H as [rc [Hrc Hx]].
  destruct (existsb _ local); [|destruct Hx]. destruct Hx as [<-|[]]. apply in_map. exact Hrc.
Qed.

(* what the abstraction of a well-formed offer satisfies: resolved codecs and RTX types are listed formats *)
Definition offer_abs_ok (sec : osec) : Prop :=
  (forall x, In x (map cd_pt (o_codecs sec)) -> In x (o_pts sec)) /\
  (forall x p, In (x, p) (o_apt sec) -> In x (o_pts sec)).

(* the locally configured payload types are among the offered ones *)
Definition local_in_offer (c : config) (sec : osec) : Prop :=
  match o_kind sec with
  | KAudio => forall x, In x (map cd_pt (eff_audio c)) -> In x (o_pts sec)
  | KVideo => forall x, In x (video_base c) -> In x (o_pts sec)
  | _ => True
  end.

(* a re-negotiated audio section whose offer shares a codec with the local list *)
Definition audio_follows_offer (c : config) (s : st) (sec : osec) : Prop :=
  o_kind sec = KAudio /\ s_local s = true /\ derive (o_codecs sec) (eff_audio c) <> [].

Lemma audio_find_self secs sec :
  NoDup (map o_mid secs) -> In sec secs -> o_kind sec = KAudio -> str_empty (o_mid sec) = false ->
  (if str_empty (o_mid sec) then find (fun s => kind_eqb (o_kind s) KAudio) secs
   else find (fun s => kind_eqb (o_kind s) KAudio && String.eqb (o_mid s) (o_mid sec)) secs) = Some sec.
Proof.
  intros Hnd Hin Hk Hm. rewrite Hm.
  destruct (find _ secs) as [x|] eqn:E.
  - apply find_some in E as [Hx He]. apply andb_true_iff in He as [_ He]. apply String.eqb_eq in He.
    f_equal. apply (nodup_mid_inj secs); auto.
  - exfalso. pose proof (find_none _ _ E sec Hin) as H. cbn in H. rewrite Hk, String.eqb_refl in H. discriminate.
Qed.

Theorem codecs_ok c s o changed a :
  wfA (f_secs o) -> inv_state s -> compat_state s o -> applied s changed ->
  (forall sec, In sec (f_secs o) -> offer_abs_ok sec) ->
  (forall sec, In sec (f_secs o) -> local_in_offer c sec \/ audio_follows_offer c s sec) ->
  create_answer c (set_remote c s o changed) = AOk a ->
  Forall2 (fun x sec => v_sec_pts sec x = true) (a_secs a) (f_secs o).
Proof.
  intros Hwf Hinv Hc Happ Habs Hloc H.
  destruct (set_remote_post c s o changed Hwf Hinv Hc Happ) as [_ [_ [_ [_ [Hlocal _]]]]].
  destruct (coherent_fields c s o changed a Hwf Hinv Hc Happ H) as [pre [-> Hf]].
  apply finish_forall2; [intros x sec Hx; exact Hx|].
  eapply Forall2_impl; [|exact Hf]. intros x sec [Hin [_ [_ [_ [_ [_ [_ Hp]]]]]]].
  unfold v_sec_pts. assert (Ha : a_pts x = fst (pts_apt_of c (s_local (set_remote c s o changed)) (f_secs o) (o_kind sec) (o_mid sec)))
    by (rewrite <- Hp; reflexivity).
  rewrite Ha, Hlocal. clear Ha Hp. destruct (Habs sec Hin) as [Hcod Hrtx].
  assert (Hm : str_empty (o_mid sec) = false) by (destruct Hwf as [Hne _]; rewrite Forall_forall in Hne; apply Hne; exact Hin).
  apply subset_spec; [apply Z.eqb_refl|]. intros y Hy. unfold pts_apt_of in Hy.
  destruct (o_kind sec) eqn:Ek; cbn [fst] in Hy; try (destruct Hy).
  - (* audio *)
    unfold audio_pts in Hy. rewrite (audio_find_self _ _ (proj2 Hwf) Hin Ek Hm) in Hy.
    destruct (Hloc sec Hin) as [Hl|[_ [Hsl Hne]]].
    + unfold local_in_offer in Hl. rewrite Ek in Hl.
      destruct (s_local s); [|apply Hl; exact Hy].
      destruct (derive (o_codecs sec) (eff_audio c)) eqn:Ed; [apply Hl; exact Hy|].
      apply Hcod. apply (derive_sub _ (eff_audio c)). rewrite Ed. exact Hy.
    + rewrite Hsl in Hy. destruct (derive (o_codecs sec) (eff_audio c)) eqn:Ed; [congruence|].
      apply Hcod. apply (derive_sub _ (eff_audio c)). rewrite Ed. exact Hy.
  - (* video *)
    destruct (Hloc sec Hin) as [Hl|[Hk _]]; [|congruence]. unfold local_in_offer in Hl. rewrite Ek in Hl.
    assert (Hrs : orelse (lookup_mid (f_secs o) (o_mid sec)) (find (fun s0 => kind_eqb (o_kind s0) KVideo) (f_secs o)) = Some sec)
      by (rewrite (lookup_mid_self _ _ (proj2 Hwf) Hin); reflexivity).
    destruct (proj2 (video_pts_apt_sub c (f_secs o) (o_mid sec) sec Hrs) y Hy) as [Hb|[p Hp]]; [apply Hl; exact Hb|eapply Hrtx; eauto].
Qed.

(* ------------------------------------------------------------------ BUNDLE *)
Theorem bundle_ok c s o changed a :
  wfA (f_secs o) -> inv_state s -> compat_state s o -> applied s changed ->
  (forall sec, In sec (f_secs o) -> In (o_mid sec) (List.concat (f_groups o))) ->
  create_answer c (set_remote c s o changed) = AOk a ->
  v_bundle o a = true /\ (a_group a <> None -> f_groups o <> []).
Proof.
  intros Hwf Hinv Hc Happ Hcover H.
  destruct (coherent_fields c s o changed a Hwf Hinv Hc Happ H) as [pre [-> Hf]].
  assert (Hg : a_group (finish_answer c o pre) = match pre with [] => None | _ => if will_bundle c o then Some (map a_mid pre) else None end).
  { unfold finish_answer. destruct pre; [reflexivity|]. destruct (c_legacy c && negb (will_bundle c o)); [reflexivity|].
    destruct (negb (will_bundle c o) && _); reflexivity. }
  unfold v_bundle. rewrite Hg. split.
  - destruct pre as [|p r]; [reflexivity|]. destruct (will_bundle c o); [|reflexivity].
    apply subset_spec; [apply String.eqb_refl|]. intros m Hm. apply in_map_iff in Hm as [x [<- Hx]].
    destruct (forall2_in_l _ _ _ _ Hf Hx) as [sec [_ [Hs [_ [Hm _]]]]]. rewrite Hm. apply Hcover. exact Hs.
  - intros Hne. destruct pre as [|p r]; [congruence|]. unfold will_bundle in Hne.
    destruct (f_groups o); [congruence|discriminate].
Qed.

(* an offered BUNDLE group is echoed over all sections, with the offered mids, in every compatibility mode *)
Theorem bundle_echo c s o changed a :
  wfA (f_secs o) -> inv_state s -> compat_state s o -> applied s changed ->
  f_groups o <> [] -> f_secs o <> [] ->
  create_answer c (set_remote c s o changed) = AOk a ->
  a_group a = Some (map o_mid (f_secs o)) /\ map a_mid (a_secs a) = map o_mid (f_secs o).
Proof.
  intros Hwf Hinv Hc Happ Hg Hne H.
  destruct (coherent_fields c s o changed a Hwf Hinv Hc Happ H) as [pre [-> Hf]].
  assert (Hwb : will_bundle c o = true) by (unfold will_bundle; destruct (f_groups o); [congruence|reflexivity]).
  assert (Hmids : map a_mid pre = map o_mid (f_secs o)).
  { clear - Hf. induction Hf as [|x sec l l' [_ [_ [Hm _]]] _ IH]; [reflexivity|]. cbn. rewrite Hm, IH. reflexivity. }
  assert (Hpre : pre <> []).
  { intros ->. inversion Hf as [Hnil|]. congruence. }
  unfold finish_answer. destruct pre as [|p r]; [congruence|]. rewrite Hwb. cbn [negb andb].
  rewrite andb_false_r. cbn [a_group a_secs]. split; [rewrite Hmids; reflexivity|exact Hmids].
Qed.

(* ------------------------------------------------------------------ DTLS setup *)
Lemma first_setup_uniform secs v :
  (forall sec, In sec secs -> o_setup sec = None \/ o_setup sec = Some v) ->
  first_setup secs = None \/ first_setup secs = Some v.
Proof.
  induction secs as [|x r IH]; intros H; [left; reflexivity|].
  cbn [first_setup fold_right]. fold (first_setup r). destruct (H x (or_introl eq_refl)) as [->| ->]; cbn [orelse]; [|right; reflexivity].
  apply IH. intros sec Hs. apply H. right. exact Hs.
Qed.

Lemma first_setup_none secs : first_setup secs = None -> forall sec, In sec secs -> o_setup sec = None.
Proof.
  induction secs as [|x r IH]; intros H sec Hin; [destruct Hin|].
  cbn [first_setup fold_right] in H. fold (first_setup r) in H. destruct Hin as [<-|Hs].
  - destruct (o_setup x); [discriminate|reflexivity].
  - destruct (o_setup x); [discriminate|]. apply IH; assumption.
Qed.

Lemma role_table_ok v : In v ["active"%string; "passive"%string; "actpass"%string] ->
  setup_ok v (role_to_setup (Some (setup_to_role v))) = true.
Proof. intros [<-|[<-|[<-|[]]]]; vm_compute; reflexivity. Qed.

Lemma role_to_setup_range r : role_to_setup r = "active"%string \/ role_to_setup r = "passive"%string.
Proof. destruct r as [[|]|]; vm_compute; auto. Qed.

(* every section answers with the same role, derived from the first media-level a=setup, else from the
   session-level one (first negotiation), or kept from the earlier rounds *)
Theorem setup_ok_thm c s o changed a v :
  c_mode c = MWebRtc -> applied s changed ->
  (f_sess_setup o = None \/ f_sess_setup o = Some v) ->
  (forall sec, In sec (f_secs o) -> o_setup sec = None \/ o_setup sec = Some v) ->
  In v ["active"%string; "passive"%string; "actpass"%string] ->
  (s_role s = None \/ exists r, s_role s = Some r /\ setup_ok v (role_to_setup (Some r)) = true) ->
  create_answer c (set_remote c s o changed) = AOk a ->
  Forall2 (fun x sec => v_sec_setup (f_sess_setup o) sec x = true) (a_secs a) (f_secs o).
Proof.
  intros Hmode Happ Hsess Huni Hv Hrole H.
  assert (Hr : s_role (set_remote c s o changed) = new_role c (s_role s) o /\ s_remote (set_remote c s o changed) = Some o).
  { unfold set_remote. destruct (s_remote s) eqn:Er; [destruct Happ as [Hn| ->]; [congruence|]|]; cbn; auto. }
  destruct Hr as [Hr Hrem].
  destruct (create_answer_shape _ _ _ H) as [o' [pre [Hr' [Hb ->]]]]. rewrite Hrem in Hr'. injection Hr' as <-.
  apply finish_forall2; [intros x sec Hx; exact Hx|].
  apply forall2_in_r in Hb. eapply Forall2_impl; [|exact Hb]. intros x sec [[t [_ [_ Hbs]]] Hin].
  destruct (build_sec_fields _ _ _ _ _ _ Hbs) as [m [_ [_ [_ [_ [_ [_ [Hs _]]]]]]]].
  unfold v_sec_setup. rewrite Hs. unfold ans_setup. rewrite Hmode, Hr.
  set (role := new_role c (s_role s) o).
  assert (Hrange : (String.eqb (role_to_setup role) "active" || String.eqb (role_to_setup role) "passive") = true).
  { destruct (role_to_setup_range role) as [-> | ->]; reflexivity. }
  rewrite Hrange. cbn [andb].
  (* the value this section is offered with, if any, is v *)
  destruct (orelse (o_setup sec) (f_sess_setup o)) as [w|] eqn:Ew; [|reflexivity].
  assert (w = v).
  { destruct (o_setup sec) as [w'|] eqn:Eo; cbn [orelse] in Ew.
    - injection Ew as <-. destruct (Huni sec Hin) as [Hn|Hsome]; congruence.
    - destruct Hsess as [Hn|Hsome]; congruence. }
  subst w.
  unfold role, new_role. destruct Hrole as [-> | [r [-> Hok]]]; [|exact Hok].
  rewrite Hmode.
  (* some value is offered, so the derivation finds one, and it is v *)
  assert (Hfound : orelse (first_setup (f_secs o)) (f_sess_setup o) = Some v).
  { destruct (first_setup_uniform _ _ Huni) as [Hn| ->]; [|reflexivity].
    rewrite Hn. cbn [orelse]. rewrite (first_setup_none _ Hn sec Hin) in Ew. cbn [orelse] in Ew. exact Ew. }
  rewrite Hfound. cbn [option_map]. apply role_table_ok. exact Hv.
Qed.

(* ------------------------------------------------------------------ refutations (listed findings) *)
Definition cfg_default : config := mkCfg MWebRtc false true [] [].
Definition osec_simple (k : kind) (m : string) (pts : list Z) (codecs : list codec) : osec :=
  mkOsec k m DSendRecv pts codecs [] [] true (Some "actpass"%string).

(* F15: PCMU-only offer, fresh connection, default configuration *)
Definition f15_offer : offer :=
  mkOffer [["0"%string]] None [osec_simple KAudio "0" [0] [mkCodec 0 "pcmu" 8000 1]].
Theorem codecs_refuted :
  exists c o a, snd (negotiate c st_init o true) = AOk a /\ wfA (f_secs o) /\
                (forall sec, In sec (f_secs o) -> offer_abs_ok sec) /\
                forall2b (fun sec x => v_sec_pts sec x) (f_secs o) (a_secs a) = false.
Proof.
  exists cfg_default, f15_offer. eexists. split; [vm_compute; reflexivity|].
  split; [split; [repeat constructor|repeat constructor; intros []]|].
  split; [|vm_compute; reflexivity].
  intros sec [<-|[]]. split; cbn; [tauto|intros x p []].
Qed.

(* F26: mids but no BUNDLE group, two sections *)
Definition f26_offer : offer :=
  mkOffer [] None [osec_simple KAudio "0" [111] [mkCodec 111 "opus" 48000 2]; osec_simple KVideo "1" [96] []].
Theorem mids_refuted :
  exists c o a, snd (negotiate c st_init o true) = AOk a /\ wfA (f_secs o) /\
                forall2b (fun sec x => v_sec_struct sec x) (f_secs o) (a_secs a) = false.
Proof.
  exists cfg_default, f26_offer. eexists. split; [vm_compute; reflexivity|].
  split; [|vm_compute; reflexivity].
  split; [repeat constructor|]. cbn. repeat constructor; cbn; intuition discriminate.
Qed.

(* F27: BUNDLE group over a strict subset of the sections *)
Definition f27_offer : offer :=
  mkOffer [["0"%string]] None [osec_simple KAudio "0" [111] [mkCodec 111 "opus" 48000 2]; osec_simple KVideo "1" [96] []].
Theorem bundle_refuted :
  exists c o a, snd (negotiate c st_init o true) = AOk a /\ wfA (f_secs o) /\ v_bundle o a = false.
Proof.
  exists cfg_default, f27_offer. eexists. split; [vm_compute; reflexivity|].
  split; [|vm_compute; reflexivity].
  split; [repeat constructor|]. cbn. repeat constructor; cbn; intuition discriminate.
Qed.

(* F28: mid-less offer, the video section echoes the audio section's extension id *)
Definition f28_offer : offer :=
  mkOffer [] None
    [mkOsec KAudio "" DSendRecv [111] [mkCodec 111 "opus" 48000 2] [] [(3, UAbs)] true (Some "actpass"%string);
     mkOsec KVideo "" DSendRecv [96] [] [] [(5, UAbs); (3, UOther 1)] true (Some "actpass"%string)].
Theorem extmap_refuted :
  exists c o a, snd (negotiate c st_init o true) = AOk a /\
                (forall sec, In sec (f_secs o) -> nodup_z (map fst (o_ext sec)) = true) /\
                forall2b (fun sec x => v_sec_ext sec x) (f_secs o) (a_secs a) = false.
Proof.
  exists cfg_default, f28_offer. eexists. split; [vm_compute; reflexivity|].
  split; [|vm_compute; reflexivity]. intros sec [<-|[<-|[]]]; reflexivity.
Qed.

(* F29 (fixed by aa4c5b4): session-level a=setup:active is now answered setup:passive *)
Definition f29_offer : offer :=
  mkOffer [["0"%string]] (Some "active"%string)
    [mkOsec KAudio "0" DSendRecv [111] [mkCodec 111 "opus" 48000 2] [] [] true None].
Theorem setup_session_level_ok :
  exists a, snd (negotiate cfg_default st_init f29_offer true) = AOk a /\
            forall2b (fun sec x => v_sec_setup (f_sess_setup f29_offer) sec x) (f_secs f29_offer) (a_secs a) = true /\
            Forall (fun x => a_setup x = Some "passive"%string) (a_secs a).
Proof. eexists. split; [vm_compute; reflexivity|]. split; [vm_compute; reflexivity|]. repeat constructor. Qed.

(* F30: mid-less re-offer with spare pre-added video transceivers *)
Definition f30_cfg : config := mkCfg MRtp true true [] [].
Definition f30_state : st :=
  add_transceiver (add_transceiver st_init KVideo DInactive) KVideo DSendOnly.
Definition f30_offer1 : offer := mkOffer [] None [mkOsec KVideo "" DInactive [96] [] [] [] true None].
Definition f30_offer2 : offer :=
  mkOffer [] None [mkOsec KVideo "" DInactive [96] [] [] [] true None; mkOsec KVideo "" DSendRecv [96] [] [] [] true None].
Theorem direction_midless_refuted :
  exists a, snd (negotiate f30_cfg (fst (negotiate f30_cfg f30_state f30_offer1 true)) f30_offer2 true) = AOk a /\
            forall2b (fun sec x => v_sec_dir sec x) (f_secs f30_offer2) (a_secs a) = false.
Proof. eexists. split; vm_compute; reflexivity. Qed.

(* F31: a rejected (port 0) m-line is answered with a live port; what does hold: the section is answered
   in place (count / order / kind / mid are the theorems above, they do not depend on the port) *)
Definition f31_offer : offer :=
  mkOffer [["0"%string; "1"%string]] None
    [osec_simple KAudio "0" [111] [mkCodec 111 "opus" 48000 2];
     mkOsecP KVideo "1" DSendRecv [96] [] [] [] true (Some "actpass"%string) 0 false].
Theorem rejected_port_refuted :
  exists c o a, snd (negotiate c st_init o true) = AOk a /\ wfA (f_secs o) /\
                List.length (a_secs a) = List.length (f_secs o) /\
                forall2b (fun sec x => v_sec_port sec x) (f_secs o) (a_secs a) = false.
Proof.
  exists cfg_default, f31_offer. eexists. split; [vm_compute; reflexivity|].
  split; [|split; vm_compute; reflexivity].
  split; [repeat constructor|]. cbn. repeat constructor; cbn; intuition discriminate.
Qed.

(* the answered port never depends on the offered one: WebRTC mode always prints the default port *)
Theorem answer_port_constant c s o a :
  s_remote s = Some o -> create_answer c s = AOk a ->
  Forall (fun x => a_port x = match c_mode c with MWebRtc => Some default_port | _ => None end) (a_secs a).
Proof.
  intros Hr H. destruct (create_answer_shape _ _ _ H) as [o' [pre [_ [Hb ->]]]].
  assert (Hpre : Forall (fun x => a_port x = match c_mode c with MWebRtc => Some default_port | _ => None end) pre).
  { clear H Hr. induction Hb as [|x sec l l' [t [_ [_ Hbs]]] _ IH]; [constructor|]. constructor; [|exact IH].
    unfold build_sec in Hbs. destruct (t_mid t); [|discriminate].
    destruct (match t_kind t with KAudio => _ | KVideo => _ | _ => _ end). injection Hbs as <-. reflexivity. }
  destruct (finish_secs c o' pre) as [-> | ->]; [exact Hpre|].
  apply Forall_forall. intros x Hx. apply in_map_iff in Hx as [y [<- Hy]].
  rewrite Forall_forall in Hpre. exact (Hpre y Hy).
Qed.

(* premises of the conditional theorems are satisfiable: an offer / configuration for which the whole
   of valid_answer holds *)
Definition good_offer : offer :=
  mkOffer [["0"%string; "1"%string]] None
    [mkOsec KAudio "0" DSendOnly [111; 0] [mkCodec 111 "opus" 48000 2; mkCodec 0 "pcmu" 8000 1] [] [(3, UAbs); (4, UMid)] true (Some "actpass"%string);
     mkOsec KVideo "1" DSendRecv [96; 97] [] [(97, 96)] [(3, UAbs); (4, UMid); (10, URid); (11, URepaired)] true (Some "actpass"%string)].
Example valid_answer_example :
  exists a, snd (negotiate cfg_default (add_transceiver st_init KAudio DSendRecv) good_offer true) = AOk a /\
            valid_answer good_offer a = true.
Proof. eexists. split; vm_compute; reflexivity. Qed.

(* ------------------------------------------------------------------ settled states and the unchanged re-offer *)
(* a state whose transceivers are bound to the sections of the stored offer *)
Definition settled (s : st) (o : offer) : Prop :=
  s_remote s = Some o /\ inv_state s /\
  (forall sec, In sec (f_secs o) -> exists t, In t (s_trx s) /\ sec_matches t sec).

Lemma settled_fields c s o a :
  wfA (f_secs o) -> settled s o -> create_answer c s = AOk a ->
  exists pre, a = finish_answer c o pre /\ Forall2 (sec_fields c s o) pre (f_secs o).
Proof.
  intros Hwf [Hr [Hinv Hex]] H.
  destruct (create_answer_shape _ _ _ H) as [o' [pre [Hr' [Hb ->]]]].
  rewrite Hr in Hr'. injection Hr' as <-. exists pre. split; [reflexivity|].
  pose proof (built_from_matches c s o pre Hwf Hinv Hex Hb) as Hf.
  apply forall2_in_r in Hf. eapply Forall2_impl; [|exact Hf].
  intros x sec [[t [[Hk [Hm Hd]] Hbs]] Hin].
  destruct (build_sec_fields _ _ _ _ _ _ Hbs) as [m [Hm' [Hak [Ham [Had [Hae [Hamux [Hasetup [_ Hpts]]]]]]]]].
  rewrite Hm in Hm'. injection Hm' as <-. unfold sec_fields, pts_apt_of.
  rewrite Hk in *. repeat split; auto. exists t. auto.
Qed.

(* everything structural about one answer, given the section-by-section description of its fields *)
Definition round_facts (c : config) (o : offer) (a : answer) : Prop :=
  Forall2 (fun x sec => a_kind x = o_kind sec /\
                        a_mid x = (if mids_kept c o then o_mid sec else EmptyString)) (a_secs a) (f_secs o) /\
  Forall2 (fun x sec => dir_compat (o_dir sec) (a_dir x) = true) (a_secs a) (f_secs o) /\
  Forall2 (fun x sec => v_sec_rtx sec x = true) (a_secs a) (f_secs o) /\
  Forall2 (fun x sec => v_sec_mux sec x = true) (a_secs a) (f_secs o) /\
  ((forall sec, In sec (f_secs o) -> nodup_z (map fst (o_ext sec)) = true) ->
   Forall2 (fun x sec => v_sec_ext sec x = true) (a_secs a) (f_secs o)) /\
  ((forall sec, In sec (f_secs o) -> In (o_mid sec) (List.concat (f_groups o))) -> v_bundle o a = true).

Lemma fields_facts c s1 o pre :
  wfA (f_secs o) -> Forall2 (sec_fields c s1 o) pre (f_secs o) -> round_facts c o (finish_answer c o pre).
Proof.
  intros Hwf Hf. unfold round_facts. repeat split.
  - rewrite (finish_mids c o pre (Forall2_length _ _ _ Hf)). destruct (mids_kept c o).
    + eapply Forall2_impl; [|exact Hf]. intros x sec Hx. destruct Hx as [_ [Hk [Hm _]]]. auto.
    + apply forall2_map_l. eapply Forall2_impl; [|exact Hf]. intros x sec Hx. destruct Hx as [_ [Hk [Hm _]]]. auto.
  - apply finish_forall2; [intros x sec Hx; exact Hx|].
    eapply Forall2_impl; [|exact Hf]. intros x sec [_ [_ [_ [[t [_ [Hd Ha]]] _]]]]. rewrite Ha, <- Hd. apply ans_dir_compat.
  - apply finish_forall2; [intros x sec Hx; exact Hx|].
    eapply Forall2_impl; [|exact Hf]. intros x sec [Hin [_ [_ [_ [_ [_ [_ Hp]]]]]]].
    unfold v_sec_rtx. assert (Ha : a_apt x = snd (pts_apt_of c (s_local s1) (f_secs o) (o_kind sec) (o_mid sec))) by (rewrite <- Hp; reflexivity).
    rewrite Ha. unfold pts_apt_of. destruct (o_kind sec); cbn [snd]; try reflexivity.
    apply subset_spec; [apply pair_eqb_refl|].
    apply (video_pts_apt_sub c (f_secs o) (o_mid sec) sec). rewrite (lookup_mid_self _ _ (proj2 Hwf) Hin). reflexivity.
  - apply finish_forall2; [intros x sec Hx; exact Hx|].
    eapply Forall2_impl; [|exact Hf]. intros x sec [_ [_ [_ [_ [_ [Hmux _]]]]]].
    unfold v_sec_mux. rewrite Hmux. destruct (o_mux sec); [apply implb_true_r|rewrite andb_false_r; reflexivity].
  - intros Hids. apply finish_forall2; [intros x sec Hx; exact Hx|].
    eapply Forall2_impl; [|exact Hf]. intros x sec [Hin [_ [_ [_ [He _]]]]].
    unfold v_sec_ext. rewrite He, ans_ext_flat, (lookup_mid_self _ _ (proj2 Hwf) Hin).
    apply andb_true_iff. split.
    + apply subset_spec; [apply ext_eqb_refl|]. intros e Hx. apply (flat_lookup_in _ _ _ Hx).
    + apply nodup_z_spec. apply flat_lookup_nodup; [apply nodup_z_spec; apply Hids; exact Hin|apply ext_uris_nodup].
  - intros Hcover. unfold v_bundle.
    assert (Hg : a_group (finish_answer c o pre) = match pre with [] => None | _ => if will_bundle c o then Some (map a_mid pre) else None end).
    { unfold finish_answer. destruct pre; [reflexivity|]. destruct (c_legacy c && negb (will_bundle c o)); [reflexivity|].
      destruct (negb (will_bundle c o) && _); reflexivity. }
    rewrite Hg. destruct pre as [|p r]; [reflexivity|]. destruct (will_bundle c o); [|reflexivity].
    apply subset_spec; [apply String.eqb_refl|]. intros m Hm. apply in_map_iff in Hm as [x [<- Hx]].
    destruct (forall2_in_l _ _ _ _ Hf Hx) as [sec [_ [Hs [_ [Hm _]]]]]. rewrite Hm. apply Hcover. exact Hs.
Qed.

(* a processed round, all structural facts at once *)
Theorem round_facts_applied c s o changed a :
  wfA (f_secs o) -> inv_state s -> compat_state s o -> applied s changed ->
  create_answer c (set_remote c s o changed) = AOk a -> round_facts c o a.
Proof.
  intros Hwf Hinv Hc Happ H.
  destruct (coherent_fields c s o changed a Hwf Hinv Hc Happ H) as [pre [-> Hf]].
  eapply fields_facts; eauto.
Qed.

(* the unchanged re-offer (the stack takes a shortcut: only the stored description is replaced): sending
   the offer of a processed round again yields an answer with the same structural guarantees *)
Theorem round_facts_unchanged c s o changed a :
  wfA (f_secs o) -> inv_state s -> compat_state s o -> applied s changed ->
  create_answer c (set_remote c (fst (negotiate c s o changed)) o false) = AOk a -> round_facts c o a.
Proof.
  intros Hwf Hinv Hc Happ H.
  destruct (set_remote_post c s o changed Hwf Hinv Hc Happ) as [Hr [Hi1 [_ [_ [_ Hex]]]]].
  set (s1 := set_remote c s o changed) in *.
  assert (Hn : s_trx (fst (negotiate c s o changed)) = s_trx s1 /\ s_remote (fst (negotiate c s o changed)) = Some o).
  { unfold negotiate. fold s1. cbn [fst]. destruct (create_answer c s1); cbn [s_trx s_remote]; auto. }
  destruct Hn as [Hn1 Hn2].
  set (s2 := set_remote c (fst (negotiate c s o changed)) o false) in *.
  assert (Hs2 : s_trx s2 = s_trx s1 /\ s_remote s2 = Some o).
  { unfold s2, set_remote. rewrite Hn2. cbn [s_trx s_remote]. auto. }
  destruct Hs2 as [Ht2 Hr2].
  assert (Hset : settled s2 o).
  { split; [exact Hr2|]. split; [unfold inv_state; rewrite Ht2; exact Hi1|]. intros sec Hs. rewrite Ht2. apply Hex. exact Hs. }
  destruct (settled_fields c s2 o a Hwf Hset H) as [pre [-> Hf]].
  eapply fields_facts; eauto.
Qed.
