(* C19 (part 2) -- proofs about Model/Bridge.v *)
From Coq Require Import ZArith List Bool Lia.
From RV Require Import Lib.Wrap.
From RV Require Import Gen.RtpBridge.
From RV Require Import Model.Bridge.
From RV Require Model.RtpLib.
From RV Require Model.Rtp.
From RV Require Proofs.RtpExtProofs.
Import ListNotations.
Open Scope Z_scope.
Open Scope bool_scope.

(* ------------------------------------------------------------------ stream map, configuration *)
Lemma sget_sput_same : forall m k v, sget (sput m k v) k = Some v.
Proof. intros. unfold sget, sput. cbn. rewrite Z.eqb_refl. reflexivity. Qed.

Lemma sget_sput_other : forall m k v k', k <> k' -> sget (sput m k v) k' = sget m k'.
Proof. intros m k v k' H. unfold sget, sput. cbn. apply Z.eqb_neq in H. rewrite H. reflexivity. Qed.

Lemma bstep_opts : forall b i, b_opts (fst (bstep b i)) = b_opts b.
Proof. reflexivity. Qed.
Lemma bstep_rules : forall b i, b_rules (fst (bstep b i)) = b_rules b.
Proof. reflexivity. Qed.

Lemma bstep_stream_same : forall b i,
  sget (b_streams (fst (bstep b i))) (q_ssrc (i_pkt i))
  = Some (next_state (b_opts b) (stream_of b i) (q_ts (i_pkt i))).
Proof. intros. cbn. apply sget_sput_same. Qed.

Lemma bstep_stream_other : forall b i x,
  q_ssrc (i_pkt i) <> x -> sget (b_streams (fst (bstep b i))) x = sget (b_streams b) x.
Proof. intros. cbn. apply sget_sput_other. exact H. Qed.

Lemma src_is_true : forall x i, src_is x i = true -> q_ssrc (i_pkt i) = x.
Proof. intros x i H. apply Z.eqb_eq. exact H. Qed.
Lemma src_is_false : forall x i, src_is x i = false -> q_ssrc (i_pkt i) <> x.
Proof. intros x i H. apply Z.eqb_neq. exact H. Qed.

Lemma of_src_cons : forall x b i rest,
  of_src x (btrace b (i :: rest))
  = if src_is x i then (i, snd (bstep b i)) :: of_src x (btrace (fst (bstep b i)) rest)
    else of_src x (btrace (fst (bstep b i)) rest).
Proof. intros. reflexivity. Qed.

(* ------------------------------------------------------------------ stable output SSRC, rule's PT *)
Lemma stable_gen : forall ins b x ss,
  sget (b_streams b) x = Some ss ->
  Forall (fun e => q_ssrc (snd e) = out_ssrc ss) (of_src x (btrace b ins)).
Proof.
  induction ins as [|i ins IH]; intros b x ss H.
  - constructor.
  - rewrite of_src_cons. destruct (src_is x i) eqn:E.
    + apply src_is_true in E. constructor.
      * cbn. unfold stream_of. rewrite E, H. reflexivity.
      * apply (IH _ x (next_state (b_opts b) ss (q_ts (i_pkt i)))).
        rewrite <- E. rewrite bstep_stream_same. unfold stream_of. rewrite E, H. reflexivity.
    + apply src_is_false in E. apply IH. rewrite bstep_stream_other; auto.
Qed.

Lemma bridge_stable : forall ins b x,
  exists o,
    Forall (fun e => q_ssrc (snd e) = o) (of_src x (btrace b ins)) /\
    match sget (b_streams b) x, of_src x (btrace b ins) with
    | Some ss, _ => o = out_ssrc ss
    | None, e :: _ => o = out_ssrc0 (b_rules b) (i_pkt (fst e))
    | None, [] => True
    end.
Proof.
  intros ins b x. destruct (sget (b_streams b) x) as [ss|] eqn:S.
  { exists (out_ssrc ss). split; auto. apply stable_gen. exact S. }
  revert b S. induction ins as [|i ins IH]; intros b S.
  - exists 0. split; [constructor|exact I].
  - rewrite of_src_cons. destruct (src_is x i) eqn:E.
    + apply src_is_true in E. exists (out_ssrc0 (b_rules b) (i_pkt i)). split; [|reflexivity].
      constructor.
      * cbn. unfold stream_of. rewrite E, S. reflexivity.
      * apply (stable_gen ins _ x (next_state (b_opts b) (fresh b i) (q_ts (i_pkt i)))).
        rewrite <- E. rewrite bstep_stream_same. unfold stream_of. rewrite E, S. reflexivity.
    + apply src_is_false in E.
      destruct (IH (fst (bstep b i))) as [o [F V]].
      { rewrite bstep_stream_other; auto. }
      exists o. split; auto.
Qed.

Lemma bridge_pt_gen : forall ins b rules,
  b_rules b = rules ->
  Forall (fun e => q_pt (snd e) = out_pt_of rules (q_pt (i_pkt (fst e)))) (btrace b ins).
Proof.
  induction ins as [|i ins IH]; intros b rules H; cbn [btrace]; constructor.
  - cbn. rewrite H. reflexivity.
  - apply IH. rewrite bstep_rules. exact H.
Qed.

Lemma bridge_pt : forall ins b,
  Forall (fun e => q_pt (snd e) = out_pt_of (b_rules b) (q_pt (i_pkt (fst e)))) (btrace b ins).
Proof. intros. apply bridge_pt_gen. reflexivity. Qed.

(* what out_pt_of / rule_for mean: exact payload-type rule first, else the first catch-all *)
Lemma rule_for_exact : forall rules pt r,
  find (fun r => opt_eqb (m_pt r) pt) rules = Some r -> rule_for rules pt = Some r /\ m_pt r = Some pt.
Proof.
  intros rules pt r H. unfold rule_for. rewrite H. split; auto.
  apply find_some in H. destruct H as [_ H]. unfold opt_eqb in H. destruct (m_pt r); [|discriminate].
  apply Z.eqb_eq in H. subst. reflexivity.
Qed.

Lemma rule_for_catch_all : forall rules pt r,
  rule_for rules pt = Some r -> m_pt r = Some pt \/ (m_pt r = None /\ forall r', In r' rules -> m_pt r' <> Some pt).
Proof.
  intros rules pt r H. unfold rule_for in H.
  destruct (find (fun r => opt_eqb (m_pt r) pt) rules) as [r0|] eqn:F.
  - inversion H; subst. left. apply (rule_for_exact rules pt r F).
  - right. split.
    + apply find_some in H. destruct H as [_ H]. destruct (m_pt r); [discriminate|reflexivity].
    + intros r' Hin E. eapply find_none in F; [|exact Hin]. cbn in F. rewrite E in F. cbn in F.
      rewrite Z.eqb_refl in F. discriminate.
Qed.

(* ------------------------------------------------------------------ consecutive sequence numbers *)
Fixpoint seq_chain (n : Z) (l : list Z) : Prop :=
  match l with
  | [] => True
  | a :: t => a = n /\ seq_chain (cast_u16 (n + 1)) t
  end.

Definition out_seqs (tr : list (bin * bpkt)) : list Z := map (fun e => q_seq (snd e)) tr.

Lemma seq_gen : forall ins b x ss,
  sget (b_streams b) x = Some ss ->
  seq_chain (next_seq ss) (out_seqs (of_src x (btrace b ins))).
Proof.
  induction ins as [|i ins IH]; intros b x ss H.
  - exact I.
  - rewrite of_src_cons. destruct (src_is x i) eqn:E.
    + apply src_is_true in E. cbn [out_seqs map seq_chain]. split.
      * cbn. unfold stream_of. rewrite E, H. reflexivity.
      * apply (IH _ x (next_state (b_opts b) ss (q_ts (i_pkt i)))).
        rewrite <- E. rewrite bstep_stream_same. unfold stream_of. rewrite E, H. reflexivity.
    + apply src_is_false in E. apply IH. rewrite bstep_stream_other; auto.
Qed.

Definition first_seq (b : bridge) (x : Z) (i : bin) : Z :=
  match sget (b_streams b) x with
  | Some ss => next_seq ss
  | None => match o_init_seq (b_opts b) with Some v => v | None => cast_u16 (i_r16 i) end
  end.

Lemma bridge_seq : forall ins b x,
  match of_src x (btrace b ins) with
  | [] => True
  | e :: _ => seq_chain (first_seq b x (fst e)) (out_seqs (of_src x (btrace b ins)))
  end.
Proof.
  intros ins b x. unfold first_seq. destruct (sget (b_streams b) x) as [ss|] eqn:S.
  { destruct (of_src x (btrace b ins)) eqn:E; auto. rewrite <- E. apply seq_gen. exact S. }
  revert b S. induction ins as [|i ins IH]; intros b S.
  - exact I.
  - rewrite of_src_cons. destruct (src_is x i) eqn:E.
    + apply src_is_true in E. cbn [fst out_seqs map seq_chain]. split.
      * cbn. unfold stream_of. rewrite E, S. reflexivity.
      * apply (seq_gen ins _ x (next_state (b_opts b) (fresh b i) (q_ts (i_pkt i)))).
        rewrite <- E. rewrite bstep_stream_same. unfold stream_of. rewrite E, S. reflexivity.
    + apply src_is_false in E.
      apply (IH (fst (bstep b i))). rewrite bstep_stream_other; auto.
Qed.

(* closed form: the k-th forwarded packet of the source carries s0 + k mod 2^16 *)
Lemma seq_chain_nth : forall l n k,
  0 <= n < 65536 -> seq_chain n l -> (k < length l)%nat -> nth k l 0 = (n + Z.of_nat k) mod 65536.
Proof.
  induction l as [|a l IH]; intros n k Hn H Hk; cbn [length] in Hk; [lia|].
  destruct H as [Ha Hc]. destruct k as [|k].
  - cbn [nth]. subst. rewrite Z.add_0_r. rewrite Z.mod_small; lia.
  - cbn [nth]. rewrite (IH (cast_u16 (n + 1)) k).
    + unfold cast_u16, wrapu. change (2 ^ 16) with 65536.
      rewrite Zplus_mod_idemp_l. f_equal. lia.
    + unfold cast_u16, wrapu. change (2 ^ 16) with 65536. apply Z.mod_pos_bound. lia.
    + exact Hc.
    + lia.
Qed.

(* ------------------------------------------------------------------ timestamps *)
Definition in_ts (e : bin * bpkt) : Z := q_ts (i_pkt (fst e)).
Definition out_ts (e : bin * bpkt) : Z := q_ts (snd e).

(* the anchor: the latest earlier packet of the source that was not a backward step (delta from
   the previous anchor below 2^31); its source and output timestamps *)
Definition anchor_upd (acc : option (Z * Z)) (e : bin * bpkt) : option (Z * Z) :=
  match acc with
  | None => Some (in_ts e, out_ts e)
  | Some (a, ao) => if cast_u32 (in_ts e - a) <? 2147483648 then Some (in_ts e, out_ts e) else acc
  end.
Definition anchor_of (h : list (bin * bpkt)) : option (Z * Z) := fold_left anchor_upd h None.

Definition last_opt (h : list (bin * bpkt)) : option (bin * bpkt) :=
  match rev h with e :: _ => Some e | [] => None end.

(* the property for one arrival e2 of the source, given the source's earlier arrivals `hist`:
   a forward jump of more than 900000 ticks from the anchor re-bases the output to anchor + 3000;
   any other arrival (forward within the threshold, or backward) keeps the source difference to
   the immediately preceding packet *)
Definition ts_rel (hist : list (bin * bpkt)) (e2 : bin * bpkt) : Prop :=
  match last_opt hist, anchor_of hist with
  | Some e1, Some (a, ao) =>
      let d := cast_u32 (in_ts e2 - a) in
      if (d <? 2147483648) && (900000 <? d)
      then out_ts e2 = cast_u32 (ao + 3000)
      else cast_u32 (out_ts e2 - out_ts e1) = cast_u32 (in_ts e2 - in_ts e1)
  | _, _ => True
  end.

Fixpoint ts_ok (hist : list (bin * bpkt)) (l : list (bin * bpkt)) : Prop :=
  match l with
  | [] => True
  | e2 :: rest => ts_rel hist e2 /\ ts_ok (hist ++ [e2]) rest
  end.

Lemma mod_diff_same_offset : forall x y f,
  cast_u32 (cast_u32 (x + f) - cast_u32 (y + f)) = cast_u32 (x - y).
Proof.
  intros. unfold cast_u32, wrapu. rewrite Zminus_mod_idemp_l, Zminus_mod_idemp_r. f_equal. lia.
Qed.

Lemma mod_rebase : forall ts y,
  cast_u32 (ts + cast_u32 (cast_u32 y - ts)) = cast_u32 y.
Proof.
  intros. unfold cast_u32, wrapu. rewrite Zplus_mod_idemp_r.
  replace (ts + (y mod 2 ^ 32 - ts)) with (y mod 2 ^ 32) by lia. apply Z.mod_mod. lia.
Qed.

Lemma anchor_of_snoc : forall h e, anchor_of (h ++ [e]) = anchor_upd (anchor_of h) e.
Proof. intros. unfold anchor_of. rewrite fold_left_app. reflexivity. Qed.

Lemma last_opt_snoc : forall h e, last_opt (h ++ [e]) = Some e.
Proof. intros. unfold last_opt. rewrite rev_unit. reflexivity. Qed.

Definition ts_inv (b : bridge) (x : Z) (hist : list (bin * bpkt)) : Prop :=
  match last_opt hist with
  | None => sget (b_streams b) x = None /\ hist = []
  | Some e1 =>
      exists ss a, sget (b_streams b) x = Some ss /\ last_ts ss = Some a /\
                   anchor_of hist = Some (a, cast_u32 (a + ts_off ss)) /\
                   out_ts e1 = cast_u32 (in_ts e1 + ts_off ss)
  end.

Lemma backward_bound_val : bridge_backward_bound = 2147483648.
Proof. reflexivity. Qed.
Lemma threshold_val : bridge_discontinuity_threshold = 900000.
Proof. reflexivity. Qed.
Lemma rebase_step_val : bridge_rebase_step = 3000.
Proof. reflexivity. Qed.

Lemma ts_step : forall b x hist i,
  ts_inv b x hist -> q_ssrc (i_pkt i) = x ->
  ts_rel hist (i, snd (bstep b i)) /\ ts_inv (fst (bstep b i)) x (hist ++ [(i, snd (bstep b i))]).
Proof.
  intros b x hist i Inv E. unfold ts_inv in *. rewrite last_opt_snoc.
  destruct (last_opt hist) as [e1|] eqn:L.
  - destruct Inv as [ss [a [S [La [An Ou]]]]].
    assert (SO : stream_of b i = ss). { unfold stream_of. rewrite E, S. reflexivity. }
    split.
    + unfold ts_rel. rewrite L, An. cbn zeta.
      unfold out_ts at 1 2. cbn [snd bstep out_pkt q_ts]. rewrite SO.
      unfold new_off. rewrite La. unfold rebase. rewrite backward_bound_val, threshold_val, rebase_step_val.
      unfold in_ts at 1 2 3. cbn [fst].
      destruct ((cast_u32 (q_ts (i_pkt i) - a) <? 2147483648) && (900000 <? cast_u32 (q_ts (i_pkt i) - a))) eqn:R.
      * apply mod_rebase.
      * rewrite Ou. apply mod_diff_same_offset.
    + exists (next_state (b_opts b) ss (q_ts (i_pkt i))),
             (if cast_u32 (q_ts (i_pkt i) - a) <? 2147483648 then q_ts (i_pkt i) else a).
      split; [rewrite <- E, bstep_stream_same, SO; reflexivity|].
      split; [cbn [next_state last_ts]; unfold new_last; rewrite La, backward_bound_val;
              destruct (cast_u32 (q_ts (i_pkt i) - a) <? 2147483648); reflexivity|].
      split.
      * rewrite anchor_of_snoc, An. unfold anchor_upd. unfold in_ts at 1 2. cbn [fst].
        cbn [next_state ts_off]. unfold new_off. rewrite La. unfold rebase.
        rewrite backward_bound_val, threshold_val, rebase_step_val.
        destruct (cast_u32 (q_ts (i_pkt i) - a) <? 2147483648) eqn:B.
        -- f_equal. f_equal. unfold out_ts. cbn [snd bstep out_pkt q_ts]. rewrite SO.
           unfold new_off. rewrite La. unfold rebase. rewrite backward_bound_val, threshold_val, rebase_step_val, B.
           reflexivity.
        -- cbn [andb]. reflexivity.
      * unfold out_ts, in_ts. cbn [snd fst bstep out_pkt q_ts next_state ts_off]. rewrite SO. reflexivity.
  - destruct Inv as [S Hh]. subst hist.
    assert (SO : stream_of b i = fresh b i). { unfold stream_of. rewrite E, S. reflexivity. }
    split.
    + unfold ts_rel. cbn. exact I.
    + exists (next_state (b_opts b) (fresh b i) (q_ts (i_pkt i))), (q_ts (i_pkt i)).
      split; [rewrite <- E, bstep_stream_same, SO; reflexivity|].
      split; [reflexivity|].
      split.
      * cbn [app]. unfold anchor_of. cbn [fold_left anchor_upd]. unfold in_ts, out_ts.
        cbn [snd fst bstep out_pkt q_ts next_state ts_off]. rewrite SO. reflexivity.
      * unfold out_ts, in_ts. cbn [snd fst bstep out_pkt q_ts next_state ts_off]. rewrite SO. reflexivity.
Qed.

Lemma ts_inv_other : forall b x hist i,
  ts_inv b x hist -> q_ssrc (i_pkt i) <> x -> ts_inv (fst (bstep b i)) x hist.
Proof.
  intros b x hist i Inv E. unfold ts_inv in *. rewrite bstep_stream_other; auto.
Qed.

Lemma ts_gen : forall ins b x hist,
  ts_inv b x hist -> ts_ok hist (of_src x (btrace b ins)).
Proof.
  induction ins as [|i ins IH]; intros b x hist Inv.
  - exact I.
  - rewrite of_src_cons. destruct (src_is x i) eqn:E.
    + apply src_is_true in E. destruct (ts_step b x hist i Inv E) as [R Inv'].
      cbn [ts_ok]. split; auto.
    + apply src_is_false in E. apply IH. apply ts_inv_other; auto.
Qed.

Lemma bridge_ts : forall ins b x,
  sget (b_streams b) x = None -> ts_ok [] (of_src x (btrace b ins)).
Proof. intros ins b x S. apply ts_gen. unfold ts_inv. cbn. auto. Qed.

(* the first forwarded packet of a new source stream *)
Lemma bridge_first : forall ins b x,
  sget (b_streams b) x = None ->
  match of_src x (btrace b ins) with
  | [] => True
  | e :: _ =>
      let q := i_pkt (fst e) in
      q_ssrc (snd e) = out_ssrc0 (b_rules b) q /\
      q_seq (snd e) = match o_init_seq (b_opts b) with Some v => v | None => cast_u16 (i_r16 (fst e)) end /\
      match o_init_out_ts (b_opts b) with
      | Some d => q_ts (snd e) = cast_u32 d /\ q_marker (snd e) = true
      | None => q_ts (snd e) = cast_u32 (q_ts q + match o_init_off (b_opts b) with Some v => v | None => cast_u32 (i_r32 (fst e)) end)
                /\ q_marker (snd e) = q_marker q
      end
  end.
Proof.
  induction ins as [|i ins IH]; intros b x S.
  - exact I.
  - rewrite of_src_cons. destruct (src_is x i) eqn:E.
    + apply src_is_true in E. cbn [fst snd]. cbn zeta.
      assert (SO : stream_of b i = fresh b i). { unfold stream_of. rewrite E, S. reflexivity. }
      cbn [bstep snd out_pkt q_ssrc q_seq q_ts q_marker]. rewrite SO.
      cbn [fresh out_ssrc next_seq]. split; [reflexivity|]. split; [reflexivity|].
      unfold new_off, new_marker. cbn [fresh last_ts ts_off].
      destruct (o_init_out_ts (b_opts b)) as [d|].
      * split; [|reflexivity]. unfold cast_u32, wrapu. rewrite Zplus_mod_idemp_r. f_equal. lia.
      * split; reflexivity.
    + apply src_is_false in E. apply (IH (fst (bstep b i)) x).
      rewrite bstep_stream_other; auto.
Qed.

(* in-order source (every arrival a forward step from the previous one): the anchor is the
   previous packet, so the statement reads on consecutive arrivals directly *)
Fixpoint chain {A : Type} (R : A -> A -> Prop) (l : list A) : Prop :=
  match l with
  | a :: (b :: _) as t => R a b /\ chain R t
  | _ => True
  end.

Definition fwd (e1 e2 : bin * bpkt) : Prop := cast_u32 (in_ts e2 - in_ts e1) < 2147483648.

Definition ts_rel_inorder (e1 e2 : bin * bpkt) : Prop :=
  let d := cast_u32 (in_ts e2 - in_ts e1) in
  if 900000 <? d then out_ts e2 = cast_u32 (out_ts e1 + 3000)
  else cast_u32 (out_ts e2 - out_ts e1) = d.

Lemma anchor_inorder : forall l h e0,
  anchor_of (h ++ [e0]) = Some (in_ts e0, out_ts e0) ->
  chain fwd (e0 :: l) ->
  forall pre e, e0 :: l = pre ++ [e] -> anchor_of (h ++ e0 :: l) = Some (in_ts e, out_ts e).
Proof.
  induction l as [|e1 l IH]; intros h e0 A C pre e Hsplit.
  - destruct pre as [|p pre]; cbn in Hsplit.
    + inversion Hsplit; subst. exact A.
    + inversion Hsplit. destruct pre; discriminate.
  - destruct C as [F C].
    replace (h ++ e0 :: e1 :: l) with ((h ++ [e0]) ++ e1 :: l) by (rewrite <- app_assoc; reflexivity).
    destruct pre as [|p pre]; cbn in Hsplit; [inversion Hsplit|].
    inversion Hsplit; subst p.
    apply (IH (h ++ [e0]) e1) with (pre := pre); auto.
    rewrite anchor_of_snoc, A. unfold anchor_upd. unfold fwd in F.
    apply Z.ltb_lt in F. rewrite F. reflexivity.
Qed.

Lemma ts_ok_inorder : forall l h e0,
  anchor_of (h ++ [e0]) = Some (in_ts e0, out_ts e0) ->
  chain fwd (e0 :: l) -> ts_ok (h ++ [e0]) l -> chain ts_rel_inorder (e0 :: l).
Proof.
  induction l as [|e1 l IH]; intros h e0 A C T.
  - exact I.
  - destruct C as [F C]. destruct T as [R T]. cbn [chain]. split.
    + unfold ts_rel in R. rewrite last_opt_snoc, A in R. cbn zeta in R.
      unfold ts_rel_inorder. cbn zeta. unfold fwd in F. apply Z.ltb_lt in F. rewrite F in R. cbn [andb] in R.
      destruct (900000 <? cast_u32 (in_ts e1 - in_ts e0)); auto.
    + apply (IH (h ++ [e0]) e1); auto.
      rewrite anchor_of_snoc, A. unfold anchor_upd. unfold fwd in F. apply Z.ltb_lt in F. rewrite F. reflexivity.
Qed.

Lemma bridge_ts_inorder : forall ins b x,
  sget (b_streams b) x = None ->
  chain fwd (of_src x (btrace b ins)) -> chain ts_rel_inorder (of_src x (btrace b ins)).
Proof.
  intros ins b x S C. pose proof (bridge_ts ins b x S) as T.
  destruct (of_src x (btrace b ins)) as [|e0 l]; [exact I|].
  destruct T as [_ T]. apply (ts_ok_inorder l [] e0); auto.
Qed.

(* ------------------------------------------------------------------ independence across sources *)
Definition agree (x : Z) (b1 b2 : bridge) : Prop :=
  b_opts b1 = b_opts b2 /\ b_rules b1 = b_rules b2 /\ b_video_pts b1 = b_video_pts b2 /\
  b_has_video b1 = b_has_video b2 /\ sget (b_streams b1) x = sget (b_streams b2) x.

Lemma agree_step_same : forall x b1 b2 i,
  agree x b1 b2 -> q_ssrc (i_pkt i) = x ->
  snd (bstep b1 i) = snd (bstep b2 i) /\ agree x (fst (bstep b1 i)) (fst (bstep b2 i)).
Proof.
  intros x b1 b2 i [Ho [Hr [Hv [Hh Hs]]]] E.
  assert (SO : stream_of b1 i = stream_of b2 i).
  { unfold stream_of. rewrite E, Hs. unfold fresh. rewrite Ho, Hr. reflexivity. }
  split.
  - cbn [bstep snd]. unfold out_pkt, out_ext. rewrite SO, Ho, Hr. reflexivity.
  - unfold agree. repeat split; auto.
    rewrite <- E. rewrite !bstep_stream_same. rewrite SO, Ho. reflexivity.
Qed.

Lemma agree_step_other : forall x b1 b2 i,
  agree x b1 b2 -> q_ssrc (i_pkt i) <> x -> agree x (fst (bstep b1 i)) b2.
Proof.
  intros x b1 b2 i [Ho [Hr [Hv [Hh Hs]]]] E. unfold agree. repeat split; auto.
  rewrite bstep_stream_other; auto.
Qed.

Lemma independence_gen : forall ins x b1 b2,
  agree x b1 b2 -> of_src x (btrace b1 ins) = btrace b2 (filter (src_is x) ins).
Proof.
  induction ins as [|i ins IH]; intros x b1 b2 A.
  - reflexivity.
  - rewrite of_src_cons. cbn [filter]. destruct (src_is x i) eqn:E.
    + apply src_is_true in E. destruct (agree_step_same x b1 b2 i A E) as [O A'].
      cbn [btrace]. rewrite O. f_equal. apply IH. exact A'.
    + apply src_is_false in E. apply IH. apply agree_step_other; auto.
Qed.

(* what a source stream is forwarded as does not depend on the other streams interleaved with it *)
Lemma bridge_independent : forall ins b x,
  of_src x (btrace b ins) = btrace b (filter (src_is x) ins).
Proof. intros. apply independence_gen. unfold agree. auto. Qed.

(* ------------------------------------------------------------------ MID stamping (byte level, C15's laws) *)
Lemma get_extension_ext_only : forall h1 h2 id,
  Rtp.h_ext h1 = Rtp.h_ext h2 -> Rtp.get_extension h1 id = Rtp.get_extension h2 id.
Proof. intros h1 h2 id H. unfold Rtp.get_extension. rewrite H. reflexivity. Qed.

Lemma h_ext_hdr_of_ext_of : forall q h, q_ext q = ext_of h -> Rtp.h_ext (hdr_of q) = Rtp.h_ext h.
Proof.
  intros q h H. unfold hdr_of. cbn [Rtp.h_ext]. rewrite H. unfold ext_of.
  destruct (Rtp.h_ext h) as [[prof d]|]; reflexivity.
Qed.

Lemma bridge_mid_stamped : forall b i ss r id mid,
  o_strip (b_opts b) = false -> rule_for (b_rules b) (q_pt (i_pkt i)) = Some r ->
  mid_ext_id r = Some id -> mid_val r = Some mid ->
  1 <= id <= 14 -> 1 <= RtpLib.len mid <= 16 ->
  (forall prof d, q_ext (i_pkt i) = Some (prof, d) -> prof = 48862) ->
  Rtp.get_extension (hdr_of (out_pkt b i ss)) id = RtpLib.Ok (Some mid).
Proof.
  intros b i ss r id mid Hs Hr Hi Hm Hid Hlen Hp.
  assert (A : RtpExtProofs.set_args_ok (hdr_of (i_pkt i)) id mid).
  { unfold RtpExtProofs.set_args_ok. split; auto. split; auto.
    unfold hdr_of. cbn [Rtp.h_ext]. destruct (q_ext (i_pkt i)) as [[prof d]|] eqn:E; auto.
    cbn [Rtp.x_profile]. apply (Hp prof d). reflexivity. }
  destruct (RtpExtProofs.set_extension_shape _ _ _ A) as (elems & found & nd & _ & _ & Heq).
  remember (Rtp.set_header_ext (hdr_of (i_pkt i)) _) as h' eqn:Eh in Heq.
  assert (G : Rtp.get_extension h' id = RtpLib.Ok (Some mid)).
  { eapply RtpExtProofs.set_then_get; eauto. }
  rewrite <- G. apply get_extension_ext_only. apply h_ext_hdr_of_ext_of.
  cbn [out_pkt q_ext]. unfold out_ext. rewrite Hs, Hr, Hi, Hm. unfold stamp. rewrite Heq. reflexivity.
Qed.

(* a two-byte (or any other non-0xBEDE) block is forwarded untouched *)
Lemma bridge_mid_other_profile : forall b i ss prof d,
  q_ext (i_pkt i) = Some (prof, d) -> prof <> 48862 -> o_strip (b_opts b) = false ->
  q_ext (out_pkt b i ss) = Some (prof, d).
Proof.
  intros b i ss prof d He Hp Hs. cbn [out_pkt q_ext]. unfold out_ext. rewrite Hs.
  destruct (rule_for (b_rules b) (q_pt (i_pkt i))) as [r|]; auto.
  destruct (mid_ext_id r) as [id|]; auto. destruct (mid_val r) as [mid|]; auto.
  unfold stamp. rewrite (RtpExtProofs.set_extension_refuses_other_profiles (hdr_of (i_pkt i)) (Rtp.mkExt prof d) id mid).
  - exact He.
  - unfold hdr_of. cbn [Rtp.h_ext]. rewrite He. reflexivity.
  - exact Hp.
Qed.

Lemma bridge_strip : forall b i ss, o_strip (b_opts b) = true -> q_ext (out_pkt b i ss) = None.
Proof. intros b i ss H. cbn [out_pkt q_ext]. unfold out_ext. rewrite H. reflexivity. Qed.

(* stamping never panics, whatever block was received *)
Lemma stamp_total : forall id mid q, Rtp.set_extension (hdr_of q) id mid <> RtpLib.Panic.
Proof. intros. apply RtpExtProofs.set_extension_no_panic. Qed.

(* ------------------------------------------------------------------ transport level *)
(* a packet that fails the source's SRTP unprotect / parse touches nothing *)
Lemma unauth_inert : forall s i, tstep s (BPkt i false) = (s, Rejected).
Proof. reflexivity. Qed.

(* no bridge: the packet goes on to the listeners, nothing is forwarded *)
Lemma no_bridge_to_listeners : forall s i, t_bridge s = None -> tstep s (BPkt i true) = (s, ToListeners).
Proof. intros s i H. cbn. rewrite H. reflexivity. Qed.

(* with SRTP-capable or plain targets every authenticated packet is forwarded, and what is
   forwarded (the plaintext) does not depend on whether the target protects it *)
Lemma srtp_transparent : forall s b i,
  t_bridge s = Some b -> t_main s <> TNeedSrtp -> t_video s <> TNeedSrtp ->
  snd (tstep s (BPkt i true)) = Forwarded (is_video b (q_pt (i_pkt i))) (snd (bstep b i)).
Proof.
  intros s b i Hb Hm Hv. cbn. rewrite Hb. cbn [snd].
  destruct (is_video b (q_pt (i_pkt i))); [destruct (t_video s)|destruct (t_main s)]; congruence.
Qed.

(* as long as the bridge is neither replaced nor cleared, the packets it rewrites are exactly the
   trace of that bridge on the authenticated arrivals -- also those a target without SRTP session
   swallowed (their sequence numbers are used up) *)
Lemma rewritten_trace : forall ops b m v,
  Forall (fun o => keeps_bridge o = true) ops ->
  rewritten (trun (mkT (Some b) m v) ops) = map snd (btrace b (auth_ins ops)).
Proof.
  induction ops as [|o ops IH]; intros b m v F; [reflexivity|].
  inversion F as [|? ? K F']; subst. destruct o; cbn in K; try discriminate.
  - cbn [trun tstep fst snd rewritten auth_ins]. destruct video; cbn [t_bridge t_main t_video]; apply IH; exact F'.
  - destruct auth.
    + cbn [trun tstep negb t_bridge fst snd auth_ins btrace map t_main t_video].
      destruct (match (if is_video b (q_pt (i_pkt i)) then v else m) with TNeedSrtp => _ | _ => _ end) eqn:E;
        destruct (if is_video b (q_pt (i_pkt i)) then v else m); try discriminate;
        inversion E; subst; cbn [rewritten]; f_equal; apply IH; exact F'.
    + cbn [trun tstep negb fst snd rewritten auth_ins]. apply IH. exact F'.
Qed.

(* (re-)installing a bridge resets every per-source state: what follows is the trace of a bridge
   that has never seen a packet *)
Lemma reinstall_resets : forall s b ops,
  Forall (fun o => keeps_bridge o = true) ops ->
  rewritten (trun (fst (tstep s (BSet b))) ops) = map snd (btrace (fresh_bridge b) (auth_ins ops)) /\
  forall x, sget (b_streams (fresh_bridge b)) x = None.
Proof. intros s b ops F. split; [apply rewritten_trace; exact F|reflexivity]. Qed.

(* ------------------------------------------------------------------ premises are satisfiable *)
Definition ex_bridge : bridge :=
  mkBridge (mkOpts false (Some 65535) (Some 4294967000) None)
           [mkRule None (Some 111) 0 (Some 96) None None; mkRule (Some 98) (Some 222) 0 (Some 102) (Some 3) (Some [49])]
           [98] true [].
Definition ex_in (ssrc pt ts : Z) : bin := mkBin (mkBPkt ssrc pt 7 ts false None) 0 0.

(* two interleaved sources; sequence numbers wrap; a 900001-tick jump re-bases by 3000, a
   900000-tick jump and a backward step keep the source difference *)
Example ex_trace :
  map (fun e => (q_ssrc (snd e), q_pt (snd e), q_seq (snd e), q_ts (snd e)))
      (btrace ex_bridge [ex_in 1 0 1000; ex_in 2 98 50; ex_in 1 0 901000; ex_in 1 0 900000;
                         ex_in 2 98 900051; ex_in 1 0 1801001])
  = [(111, 96, 65535, 704); (222, 102, 65535, 4294967050); (111, 96, 0, 900704); (111, 96, 1, 899704);
     (222, 102, 0, 2754); (111, 96, 2, 903704)].
Proof. vm_compute. reflexivity. Qed.
