(* C07 -- per-decoder corollaries of the [fine] theorems, in the form pinned by Props/C07.v. GENERATED layout, hand-checked content. *)
From Coq Require Import ZArith List Lia Bool.
From RV Require Import Lib.Wrap Gen.Consts Gen.C07Consts Model.PanicLib Model.Dec_DtlsHs Model.Dec_Sctp Model.Dec_Media Model.Dec_Ice
  Proofs.Dec_DtlsHsProofs Proofs.Dec_SctpProofs Proofs.Dec_MediaProofs Proofs.Dec_IceProofs.
Import ListNotations.
Open Scope Z_scope.

Lemma hs_message_total : forall bs, val (hs_decode bs) <> Panic.
Proof. intros bs. exact (fine_total _ _ _ (hs_decode_fine bs)). Qed.
Lemma hs_message_terminates : forall bs, val (hs_decode bs) <> OutOfFuel.
Proof. intros bs. exact (fine_terminates _ _ _ (hs_decode_fine bs)). Qed.
Lemma hs_message_cost : forall bs, ticks (hs_decode bs) <= 20 /\ allocd (hs_decode bs) <= 0.
Proof. intros bs. exact (fine_cost _ _ _ (hs_decode_fine bs)). Qed.
Lemma client_hello_total : forall bs, val (client_hello_decode bs) <> Panic.
Proof. intros bs. exact (fine_total _ _ _ (client_hello_fine bs)). Qed.
Lemma client_hello_terminates : forall bs, val (client_hello_decode bs) <> OutOfFuel.
Proof. intros bs. exact (fine_terminates _ _ _ (client_hello_fine bs)). Qed.
Lemma client_hello_cost : forall bs, ticks (client_hello_decode bs) <= 3 * len bs + 40 /\ allocd (client_hello_decode bs) <= 2 * len bs.
Proof. intros bs. exact (fine_cost _ _ _ (client_hello_fine bs)). Qed.
Lemma server_hello_total : forall bs, val (server_hello_decode bs) <> Panic.
Proof. intros bs. exact (fine_total _ _ _ (server_hello_fine bs)). Qed.
Lemma server_hello_terminates : forall bs, val (server_hello_decode bs) <> OutOfFuel.
Proof. intros bs. exact (fine_terminates _ _ _ (server_hello_fine bs)). Qed.
Lemma server_hello_cost : forall bs, ticks (server_hello_decode bs) <= 3 * len bs + 40 /\ allocd (server_hello_decode bs) <= 2 * len bs.
Proof. intros bs. exact (fine_cost _ _ _ (server_hello_fine bs)). Qed.
Lemma hello_verify_total : forall bs, val (hello_verify_decode bs) <> Panic.
Proof. intros bs. exact (fine_total _ _ _ (hello_verify_fine bs)). Qed.
Lemma hello_verify_terminates : forall bs, val (hello_verify_decode bs) <> OutOfFuel.
Proof. intros bs. exact (fine_terminates _ _ _ (hello_verify_fine bs)). Qed.
Lemma hello_verify_cost : forall bs, ticks (hello_verify_decode bs) <= 2 * len bs + 10 /\ allocd (hello_verify_decode bs) <= len bs.
Proof. intros bs. exact (fine_cost _ _ _ (hello_verify_fine bs)). Qed.
Lemma certificate_total : forall bs, val (cert_decode bs) <> Panic.
Proof. intros bs. exact (fine_total _ _ _ (cert_fine bs)). Qed.
Lemma certificate_terminates : forall bs, val (cert_decode bs) <> OutOfFuel.
Proof. intros bs. exact (fine_terminates _ _ _ (cert_fine bs)). Qed.
Lemma certificate_cost : forall bs, ticks (cert_decode bs) <= 3 * len bs + 10 /\ allocd (cert_decode bs) <= 8 * len bs.
Proof. intros bs. exact (fine_cost _ _ _ (cert_fine bs)). Qed.
Lemma server_key_exchange_total : forall bs, val (ske_decode bs) <> Panic.
Proof. intros bs. exact (fine_total _ _ _ (ske_fine bs)). Qed.
Lemma server_key_exchange_terminates : forall bs, val (ske_decode bs) <> OutOfFuel.
Proof. intros bs. exact (fine_terminates _ _ _ (ske_fine bs)). Qed.
Lemma server_key_exchange_cost : forall bs, ticks (ske_decode bs) <= 2 * len bs + 20 /\ allocd (ske_decode bs) <= len bs.
Proof. intros bs. exact (fine_cost _ _ _ (ske_fine bs)). Qed.
Lemma client_key_exchange_total : forall bs, val (cke_decode bs) <> Panic.
Proof. intros bs. exact (fine_total _ _ _ (cke_fine bs)). Qed.
Lemma client_key_exchange_terminates : forall bs, val (cke_decode bs) <> OutOfFuel.
Proof. intros bs. exact (fine_terminates _ _ _ (cke_fine bs)). Qed.
Lemma client_key_exchange_cost : forall bs, ticks (cke_decode bs) <= 2 * len bs + 10 /\ allocd (cke_decode bs) <= len bs.
Proof. intros bs. exact (fine_cost _ _ _ (cke_fine bs)). Qed.
Lemma finished_total : forall bs, val (finished_decode bs) <> Panic.
Proof. intros bs. exact (fine_total _ _ _ (finished_fine bs)). Qed.
Lemma finished_terminates : forall bs, val (finished_decode bs) <> OutOfFuel.
Proof. intros bs. exact (fine_terminates _ _ _ (finished_fine bs)). Qed.
Lemma finished_cost : forall bs, ticks (finished_decode bs) <= len bs + 3 /\ allocd (finished_decode bs) <= len bs.
Proof. intros bs. exact (fine_cost _ _ _ (finished_fine bs)). Qed.
Lemma sctp_packet_total : forall ok bs, val (sctp_packet ok bs) <> Panic.
Proof. intros ok bs. exact (fine_total _ _ _ (sctp_packet_fine ok bs)). Qed.
Lemma sctp_packet_terminates : forall ok bs, val (sctp_packet ok bs) <> OutOfFuel.
Proof. intros ok bs. exact (fine_terminates _ _ _ (sctp_packet_fine ok bs)). Qed.
Lemma sctp_packet_cost : forall ok bs, ticks (sctp_packet ok bs) <= 3 * len bs + 10 /\ allocd (sctp_packet ok bs) <= 0.
Proof. intros ok bs. exact (fine_cost _ _ _ (sctp_packet_fine ok bs)). Qed.
Lemma sctp_init_total : forall bs, val (handle_init bs) <> Panic.
Proof. intros bs. exact (fine_total _ _ _ (handle_init_fine bs)). Qed.
Lemma sctp_init_terminates : forall bs, val (handle_init bs) <> OutOfFuel.
Proof. intros bs. exact (fine_terminates _ _ _ (handle_init_fine bs)). Qed.
Lemma sctp_init_cost : forall bs, ticks (handle_init bs) <= 6 /\ allocd (handle_init bs) <= 0.
Proof. intros bs. exact (fine_cost _ _ _ (handle_init_fine bs)). Qed.
Lemma sctp_init_ack_total : forall bs, val (handle_init_ack bs) <> Panic.
Proof. intros bs. exact (fine_total _ _ _ (handle_init_ack_fine bs)). Qed.
Lemma sctp_init_ack_terminates : forall bs, val (handle_init_ack bs) <> OutOfFuel.
Proof. intros bs. exact (fine_terminates _ _ _ (handle_init_ack_fine bs)). Qed.
Lemma sctp_init_ack_cost : forall bs, ticks (handle_init_ack bs) <= 2 * len bs + 10 /\ allocd (handle_init_ack bs) <= 0.
Proof. intros bs. exact (fine_cost _ _ _ (handle_init_ack_fine bs)). Qed.
Lemma sctp_sack_total : forall bs, val (handle_sack bs) <> Panic.
Proof. intros bs. exact (fine_total _ _ _ (handle_sack_fine bs)). Qed.
Lemma sctp_sack_terminates : forall bs, val (handle_sack bs) <> OutOfFuel.
Proof. intros bs. exact (fine_terminates _ _ _ (handle_sack_fine bs)). Qed.
Lemma sctp_sack_cost : forall bs, ticks (handle_sack bs) <= len bs + 10 /\ allocd (handle_sack bs) <= len bs.
Proof. intros bs. exact (fine_cost _ _ _ (handle_sack_fine bs)). Qed.
Lemma sctp_forward_tsn_total : forall old bs, val (handle_forward_tsn old bs) <> Panic.
Proof. intros old bs. exact (fine_total _ _ _ (handle_forward_tsn_fine old bs)). Qed.
Lemma sctp_forward_tsn_terminates : forall old bs, val (handle_forward_tsn old bs) <> OutOfFuel.
Proof. intros old bs. exact (fine_terminates _ _ _ (handle_forward_tsn_fine old bs)). Qed.
Lemma sctp_forward_tsn_cost : forall old bs, ticks (handle_forward_tsn old bs) <= len bs + 10 /\ allocd (handle_forward_tsn old bs) <= len bs.
Proof. intros old bs. exact (fine_cost _ _ _ (handle_forward_tsn_fine old bs)). Qed.
Lemma sctp_reconfig_total : forall last bs, val (handle_reconfig last bs) <> Panic.
Proof. intros last bs. exact (fine_total _ _ _ (handle_reconfig_fine last bs)). Qed.
Lemma sctp_reconfig_terminates : forall last bs, val (handle_reconfig last bs) <> OutOfFuel.
Proof. intros last bs. exact (fine_terminates _ _ _ (handle_reconfig_fine last bs)). Qed.
Lemma sctp_reconfig_cost : forall last bs, ticks (handle_reconfig last bs) <= 4 * len bs + 1 /\ allocd (handle_reconfig last bs) <= len bs.
Proof. intros last bs. exact (fine_cost _ _ _ (handle_reconfig_fine last bs)). Qed.
Lemma sctp_data_dcep_total : forall bs, val (data_chunk_dcep bs) <> Panic.
Proof. intros bs. exact (fine_total _ _ _ (data_chunk_dcep_fine bs)). Qed.
Lemma sctp_data_dcep_terminates : forall bs, val (data_chunk_dcep bs) <> OutOfFuel.
Proof. intros bs. exact (fine_terminates _ _ _ (data_chunk_dcep_fine bs)). Qed.
Lemma sctp_data_dcep_cost : forall bs, ticks (data_chunk_dcep bs) <= 3 * len bs + 30 /\ allocd (data_chunk_dcep bs) <= 2 * len bs.
Proof. intros bs. exact (fine_cost _ _ _ (data_chunk_dcep_fine bs)). Qed.
Lemma dcep_open_total : forall bs, val (dcep_open_unmarshal bs) <> Panic.
Proof. intros bs. exact (fine_total _ _ _ (dcep_open_fine bs)). Qed.
Lemma dcep_open_terminates : forall bs, val (dcep_open_unmarshal bs) <> OutOfFuel.
Proof. intros bs. exact (fine_terminates _ _ _ (dcep_open_fine bs)). Qed.
Lemma dcep_open_cost : forall bs, ticks (dcep_open_unmarshal bs) <= 3 * len bs + 20 /\ allocd (dcep_open_unmarshal bs) <= 2 * len bs.
Proof. intros bs. exact (fine_cost _ _ _ (dcep_open_fine bs)). Qed.
Lemma dcep_ack_total : forall bs, val (dcep_ack_unmarshal bs) <> Panic.
Proof. intros bs. exact (fine_total _ _ _ (dcep_ack_fine bs)). Qed.
Lemma dcep_ack_terminates : forall bs, val (dcep_ack_unmarshal bs) <> OutOfFuel.
Proof. intros bs. exact (fine_terminates _ _ _ (dcep_ack_fine bs)). Qed.
Lemma dcep_ack_cost : forall bs, ticks (dcep_ack_unmarshal bs) <= 2 /\ allocd (dcep_ack_unmarshal bs) <= 0.
Proof. intros bs. exact (fine_cost _ _ _ (dcep_ack_fine bs)). Qed.
Lemma h264_push_total : forall video st marker seq ts bs, len bs < 2 ^ 62 -> val (h264_push video st marker seq ts bs) <> Panic.
Proof. intros video st marker seq ts bs H. exact (fine_total _ _ _ (h264_push_fine video st marker seq ts bs H)). Qed.
Lemma h264_push_terminates : forall video st marker seq ts bs, len bs < 2 ^ 62 -> val (h264_push video st marker seq ts bs) <> OutOfFuel.
Proof. intros video st marker seq ts bs H. exact (fine_terminates _ _ _ (h264_push_fine video st marker seq ts bs H)). Qed.
Lemma h264_push_cost : forall video st marker seq ts bs, len bs < 2 ^ 62 -> ticks (h264_push video st marker seq ts bs) <= 5 * len bs + len (fua_buffer st) + 10 /\ allocd (h264_push video st marker seq ts bs) <= 256 * len bs + len (fua_buffer st) + 512.
Proof. intros video st marker seq ts bs H. exact (fine_cost _ _ _ (h264_push_fine video st marker seq ts bs H)). Qed.
Lemma rtx_unwrap_total : forall bs, val (rtx_unwrap bs) <> Panic.
Proof. intros bs. exact (fine_total _ _ _ (rtx_unwrap_fine bs)). Qed.
Lemma rtx_unwrap_terminates : forall bs, val (rtx_unwrap bs) <> OutOfFuel.
Proof. intros bs. exact (fine_terminates _ _ _ (rtx_unwrap_fine bs)). Qed.
Lemma rtx_unwrap_cost : forall bs, ticks (rtx_unwrap bs) <= 4 /\ allocd (rtx_unwrap bs) <= 0.
Proof. intros bs. exact (fine_cost _ _ _ (rtx_unwrap_fine bs)). Qed.
Lemma udptl_recv_total : forall maxd bs, 0 <= maxd < 2 ^ 62 -> val (udptl_recv maxd bs) <> Panic.
Proof. intros maxd bs H. exact (fine_total _ _ _ (udptl_recv_fine maxd bs H)). Qed.
Lemma udptl_recv_terminates : forall maxd bs, 0 <= maxd < 2 ^ 62 -> val (udptl_recv maxd bs) <> OutOfFuel.
Proof. intros maxd bs H. exact (fine_terminates _ _ _ (udptl_recv_fine maxd bs H)). Qed.
Lemma udptl_recv_cost : forall maxd bs, 0 <= maxd < 2 ^ 62 -> ticks (udptl_recv maxd bs) <= 7 * maxd + 21 /\ allocd (udptl_recv maxd bs) <= 18 * maxd.
Proof. intros maxd bs H. exact (fine_cost _ _ _ (udptl_recv_fine maxd bs H)). Qed.
Lemma ice_classify_total : forall bs, val (classify bs) <> Panic.
Proof. intros bs. exact (fine_total _ _ _ (classify_fine bs)). Qed.
Lemma ice_classify_terminates : forall bs, val (classify bs) <> OutOfFuel.
Proof. intros bs. exact (fine_terminates _ _ _ (classify_fine bs)). Qed.
Lemma ice_classify_cost : forall bs, ticks (classify bs) <= 1 /\ allocd (classify bs) <= 0.
Proof. intros bs. exact (fine_cost _ _ _ (classify_fine bs)). Qed.
Lemma turn_channel_data_total : forall bound bs, len bs < 2 ^ 62 -> val (turn_channel_data bound bs) <> Panic.
Proof. intros bound bs H. exact (fine_total _ _ _ (turn_channel_data_fine bound bs H)). Qed.
Lemma turn_channel_data_terminates : forall bound bs, len bs < 2 ^ 62 -> val (turn_channel_data bound bs) <> OutOfFuel.
Proof. intros bound bs H. exact (fine_terminates _ _ _ (turn_channel_data_fine bound bs H)). Qed.
Lemma turn_channel_data_cost : forall bound bs, len bs < 2 ^ 62 -> ticks (turn_channel_data bound bs) <= 7 /\ allocd (turn_channel_data bound bs) <= 0.
Proof. intros bound bs H. exact (fine_cost _ _ _ (turn_channel_data_fine bound bs H)). Qed.
Lemma turn_tcp_frame_total : forall buflen declared, 0 <= buflen /\ 0 <= declared -> val (turn_tcp_frame true buflen declared) <> Panic.
Proof. intros buflen declared H. exact (fine_total _ _ _ (turn_tcp_frame_fine buflen declared (proj1 H) (proj2 H))). Qed.
Lemma turn_tcp_frame_terminates : forall buflen declared, 0 <= buflen /\ 0 <= declared -> val (turn_tcp_frame true buflen declared) <> OutOfFuel.
Proof. intros buflen declared H. exact (fine_terminates _ _ _ (turn_tcp_frame_fine buflen declared (proj1 H) (proj2 H))). Qed.
Lemma turn_tcp_frame_cost : forall buflen declared, 0 <= buflen /\ 0 <= declared -> ticks (turn_tcp_frame true buflen declared) <= 1 /\ allocd (turn_tcp_frame true buflen declared) <= 0.
Proof. intros buflen declared H. exact (fine_cost _ _ _ (turn_tcp_frame_fine buflen declared (proj1 H) (proj2 H))). Qed.
Lemma mid_bump_total : forall mid, val (mid_bump mid) <> Panic.
Proof. intros mid. exact (fine_total _ _ _ (mid_bump_fine mid)). Qed.
Lemma mid_bump_terminates : forall mid, val (mid_bump mid) <> OutOfFuel.
Proof. intros mid. exact (fine_terminates _ _ _ (mid_bump_fine mid)). Qed.
Lemma mid_bump_cost : forall mid, ticks (mid_bump mid) <= 0 /\ allocd (mid_bump mid) <= 0.
Proof. intros mid. exact (fine_cost _ _ _ (mid_bump_fine mid)). Qed.
Lemma candidate_total : forall addr_ok ipok parts, len parts < 2 ^ 62 -> val (cand_parse addr_ok ipok parts) <> Panic.
Proof. intros addr_ok ipok parts H. exact (fine_total _ _ _ (cand_parse_fine addr_ok ipok parts H)). Qed.
Lemma candidate_terminates : forall addr_ok ipok parts, len parts < 2 ^ 62 -> val (cand_parse addr_ok ipok parts) <> OutOfFuel.
Proof. intros addr_ok ipok parts H. exact (fine_terminates _ _ _ (cand_parse_fine addr_ok ipok parts H)). Qed.
Lemma candidate_cost : forall addr_ok ipok parts, len parts < 2 ^ 62 -> ticks (cand_parse addr_ok ipok parts) <= 4 * len parts + 20 /\ allocd (cand_parse addr_ok ipok parts) <= 0.
Proof. intros addr_ok ipok parts H. exact (fine_cost _ _ _ (cand_parse_fine addr_ok ipok parts H)). Qed.
Lemma chunk_walk_fuel : forall bs acc, val (chunk_walk (S (length bs)) bs acc) <> OutOfFuel /\ val (chunk_walk (S (length bs)) bs acc) <> Panic.
Proof.
  intros bs acc. assert (H : len bs < Z.of_nat (S (length bs))) by (unfold len; lia).
  pose proof (chunk_walk_fine (S (length bs)) bs acc H) as W. unfold wp in W. tauto.
Qed.
Lemma param_walk_fuel : forall bs ck, val (param_walk (S (length bs)) bs ck) <> OutOfFuel /\ val (param_walk (S (length bs)) bs ck) <> Panic.
Proof.
  intros bs ck. assert (H : len bs < Z.of_nat (S (length bs))) by (unfold len; lia).
  pose proof (param_walk_fine (S (length bs)) bs ck H) as W. unfold wp in W. tauto.
Qed.
Lemma gap_loop_fuel : forall n bs acc, val (gap_loop (S (length bs)) n bs acc) <> OutOfFuel /\ val (gap_loop (S (length bs)) n bs acc) <> Panic.
Proof.
  intros n bs acc. assert (H : len bs < Z.of_nat (S (length bs))) by (unfold len; lia).
  pose proof (gap_loop_fine (S (length bs)) n bs acc H) as W. unfold wp in W. tauto.
Qed.
Lemma pair_loop_fuel : forall bs acc, val (pair_loop (S (length bs)) bs acc) <> OutOfFuel /\ val (pair_loop (S (length bs)) bs acc) <> Panic.
Proof.
  intros bs acc. assert (H : len bs < Z.of_nat (S (length bs))) by (unfold len; lia).
  pose proof (pair_loop_fine (S (length bs)) bs acc H) as W. unfold wp in W. tauto.
Qed.
Lemma reconfig_walk_fuel : forall bs last acc, val (reconfig_walk (S (length bs)) bs last acc) <> OutOfFuel /\ val (reconfig_walk (S (length bs)) bs last acc) <> Panic.
Proof.
  intros bs last acc. assert (H : len bs < Z.of_nat (S (length bs))) by (unfold len; lia).
  pose proof (reconfig_walk_fine (S (length bs)) bs last acc H) as W. unfold wp in W. tauto.
Qed.
Lemma cipher_suite_loop_fuel : forall bs acc, val (cs_loop (S (length bs)) bs acc) <> OutOfFuel /\ val (cs_loop (S (length bs)) bs acc) <> Panic.
Proof.
  intros bs acc. assert (H : len bs < Z.of_nat (S (length bs))) by (unfold len; lia).
  pose proof (cs_loop_fine (S (length bs)) bs acc H) as W. unfold wp in W. tauto.
Qed.
Lemma certificate_loop_fuel : forall bs acc, val (cert_loop (S (length bs)) bs acc) <> OutOfFuel /\ val (cert_loop (S (length bs)) bs acc) <> Panic.
Proof.
  intros bs acc. assert (H : len bs < Z.of_nat (S (length bs))) by (unfold len; lia).
  pose proof (cert_loop_fine (S (length bs)) bs acc H) as W. unfold wp in W. tauto.
Qed.

Lemma client_hello_extensions_total : forall ext, len ext < 2 ^ 62 -> val (client_hello_extensions ext) <> Panic.
Proof. intros ext H. exact (fine_total _ _ _ (client_hello_extensions_fine ext H)). Qed.
Lemma client_hello_extensions_terminates : forall ext, len ext < 2 ^ 62 -> val (client_hello_extensions ext) <> OutOfFuel.
Proof. intros ext H. exact (fine_terminates _ _ _ (client_hello_extensions_fine ext H)). Qed.
Lemma client_hello_extensions_cost : forall ext, len ext < 2 ^ 62 -> ticks (client_hello_extensions ext) <= 5 * len ext + 2 /\ allocd (client_hello_extensions ext) <= 2 * len ext.
Proof. intros ext H. exact (fine_cost _ _ _ (client_hello_extensions_fine ext H)). Qed.
Lemma server_hello_extensions_total : forall ext, val (server_hello_extensions ext) <> Panic.
Proof. intros ext. exact (fine_total _ _ _ (server_hello_extensions_fine ext)). Qed.
Lemma server_hello_extensions_terminates : forall ext, val (server_hello_extensions ext) <> OutOfFuel.
Proof. intros ext. exact (fine_terminates _ _ _ (server_hello_extensions_fine ext)). Qed.
Lemma server_hello_extensions_cost : forall ext, ticks (server_hello_extensions ext) <= 3 * len ext + 2 /\ allocd (server_hello_extensions ext) <= len ext.
Proof. intros ext. exact (fine_cost _ _ _ (server_hello_extensions_fine ext)). Qed.

Lemma hello_guard34_refuted : exists bs, val (client_hello_decode_guard 34 bs) = Panic.
Proof. exists (repeat 0 34). exact client_hello_guard34_panics. Qed.
Lemma server_hello_guard_ok : forall bs, val (client_hello_decode_guard SH_MIN_LEN bs) <> Panic.
Proof. exact client_hello_guard_ok. Qed.
Lemma turn_tcp_unguarded_refuted : exists buflen declared, val (turn_tcp_frame false buflen declared) = Panic.
Proof. exists 1500, 1501. exact turn_tcp_frame_unguarded_panics. Qed.
Lemma turn_read_buffer_total : forall declared, 0 <= declared -> val (turn_tcp_frame true TURN_READ_BUF declared) <> Panic.
Proof. intros d H. apply (turn_tcp_frame_total TURN_READ_BUF d). unfold TURN_READ_BUF. lia. Qed.
Lemma mid_unchecked_refuted : exists mid, 0 <= mid <= 65535 /\ val (mid_bump_unchecked mid) = Panic.
Proof. exists 65535. split; [lia | exact mid_bump_unchecked_panics]. Qed.
Lemma walkers_zero_length :
  val (chunk_walk 5 [4; 0; 0; 0; 9; 9; 9; 9] []) = Ok [] /\ val (param_walk 5 [0; 7; 0; 0; 9; 9; 9; 9] None) = Ok None.
Proof. split; [exact chunk_walk_zero_length | exact param_walk_zero_length]. Qed.

Lemma recv_seq_unchecked_refuted : exists s, 0 <= s < 65536 /\ val (recv_seq_bump_unchecked s) = Panic.
Proof. exists 65535. split; [lia | exact recv_seq_unchecked_panics]. Qed.
