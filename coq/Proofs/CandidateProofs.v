(* C16 -- candidate line round trip on the token-level model (Model/Candidate.v). *)
From Coq Require Import ZArith Lia List Bool.
From RV Require Import Lib.Wrap.
From RV Require Import Gen.IcePrio.
From RV Require Import Gen.IceCandStr.
From RV Require Import Model.Candidate.
Import ListNotations.
Open Scope Z_scope.

Ltac Zify.zify_post_hook ::= Z.div_mod_to_equations.

(* ---- decimal print / parse *)
Lemma dec_val_app ds d : dec_val (ds ++ [d]) = dec_val ds * 10 + (d - 48).
Proof. unfold dec_val. rewrite fold_left_app. reflexivity. Qed.

Lemma dec_val_dec : forall fuel n, 0 <= n < 10 ^ Z.of_nat fuel -> dec_val (dec fuel n) = n.
Proof.
  induction fuel as [| f IH]; intros n Hn.
  - change (10 ^ Z.of_nat 0) with 1 in Hn. assert (n = 0) by lia. subst. reflexivity.
  - cbn [dec]. destruct (Z.ltb_spec n 10) as [Hs | Hb].
    + unfold dec_val. cbn [fold_left]. lia.
    + rewrite dec_val_app. rewrite IH.
      * lia.
      * rewrite Nat2Z.inj_succ, Z.pow_succ_r in Hn by lia. lia.
Qed.

Lemma is_digit_ok d : 48 <= d <= 57 -> is_digit d = true.
Proof. intros H. unfold is_digit. apply andb_true_iff. split; apply Z.leb_le; lia. Qed.

Lemma dec_digits : forall fuel n, 0 <= n -> forallb is_digit (dec fuel n) = true.
Proof.
  induction fuel as [| f IH]; intros n Hn; [reflexivity |].
  cbn [dec]. destruct (Z.ltb_spec n 10) as [Hs | Hb].
  - cbn [forallb]. rewrite is_digit_ok by lia. reflexivity.
  - rewrite forallb_app, IH by lia. cbn [forallb andb]. rewrite is_digit_ok by lia. reflexivity.
Qed.

Lemma dec_head : forall fuel n, 0 <= n -> exists d rest, dec (S fuel) n = d :: rest /\ 48 <= d <= 57.
Proof.
  induction fuel as [| f IH]; intros n Hn.
  - cbn [dec]. destruct (Z.ltb_spec n 10); [exists (48 + n), []; split; [reflexivity | lia] |].
    cbn [app]. exists (48 + n mod 10), []. split; [reflexivity | lia].
  - remember (S f) as k. cbn [dec]. destruct (Z.ltb_spec n 10); [exists (48 + n), []; split; [reflexivity | lia] |].
    subst k. destruct (IH (n / 10) ltac:(lia)) as (d & rest & -> & Hd).
    exists d, (rest ++ [48 + n mod 10]). split; [reflexivity | assumption].
Qed.

Lemma parse_show : forall max n, 0 <= n <= max -> max < 10 ^ 20 ->
  parse_uint max (show_num n) = Some n.
Proof.
  intros max n Hn Hmax. unfold show_num, parse_uint.
  destruct (dec_head 19 n ltac:(lia)) as (d & rest & E & Hd).
  pose proof (dec_digits 20 n ltac:(lia)) as Hdig.
  pose proof (dec_val_dec 20 n ltac:(change (Z.of_nat 20) with 20; lia)) as Hval.
  rewrite E in *.
  assert (d <> 43) by lia.
  destruct d as [| p | p]; try lia.
  repeat (destruct p as [p | p |]; try lia); rewrite Hdig, Hval;
    (replace (n <=? max) with true by (symmetry; apply Z.leb_le; lia)); reflexivity.
Qed.

(* ---- words *)
Lemma lower_byte_idem b : lower_byte (lower_byte b) = lower_byte b.
Proof.
  unfold lower_byte. destruct ((65 <=? b) && (b <=? 90)) eqn:E; [| rewrite E; reflexivity].
  apply andb_true_iff in E. destruct E as [E1 E2]. apply Z.leb_le in E1. apply Z.leb_le in E2.
  replace ((65 <=? b + 32) && (b + 32 <=? 90)) with false; [reflexivity |].
  symmetry. apply andb_false_iff. right. apply Z.leb_gt. lia.
Qed.
Lemma lower_idem t : lower (lower t) = lower t.
Proof.
  destruct t as [w | o | o s]; cbn [lower]; try reflexivity. f_equal.
  rewrite map_map. apply map_ext. intros b. apply lower_byte_idem.
Qed.

Lemma type_str_roundtrip t : cand_type_of_str (cand_type_str t) = Some t.
Proof. destruct t; reflexivity. Qed.
Lemma tcp_str_roundtrip t : tcp_type_of_str (tcp_type_str t) = Some t.
Proof. destruct t; reflexivity. Qed.

Lemma parse_sockaddr_ip_tok a : sa_scope a = 0 -> parse_sockaddr (ip_tok a) (sa_port a) = Some a.
Proof. destruct a as [[o | o] p s]; cbn; intros ->; reflexivity. Qed.
Lemma parse_ip_ip_tok a : parse_ip (ip_tok a) = Some (sa_ip a).
Proof. destruct a as [[o | o] p s]; reflexivity. Qed.

(* ---- the optional parts *)
Definition tcp_part (c : cand) : list tok :=
  match c_tcp c with Some t => [TWord KW_tcptype; TWord (tcp_type_str t)] | None => [] end.
Definition rel_part (c : cand) : list tok :=
  match c_raddr c with
  | Some a => if negb (IceCandidateType_eqb (c_typ c) IceCandidateType_Host)
              then [TWord KW_raddr; ip_tok a; TWord KW_rport; show_num (sa_port a)] else []
  | None => []
  end.

Lemma scan_tcptype_parts c :
  scan_tcptype (tcp_part c ++ rel_part c) = c_tcp c.
Proof.
  unfold tcp_part, rel_part. destruct (c_tcp c) as [t |].
  - cbn [app scan_tcptype]. change (tok_is (TWord KW_tcptype) KW_tcptype) with true. cbn match.
    apply tcp_str_roundtrip.
  - cbn [app]. destruct (c_raddr c) as [a |]; [| reflexivity].
    destruct (negb (IceCandidateType_eqb (c_typ c) IceCandidateType_Host)); reflexivity.
Qed.

Lemma scan_related_parts c : (match c_raddr c with Some a => wf_saddr a | None => True end) ->
  scan_related (tcp_part c ++ rel_part c) None None =
  match c_raddr c with
  | Some a => if IceCandidateType_eqb (c_typ c) IceCandidateType_Host then (None, None)
              else (Some (sa_ip a), Some (sa_port a))
  | None => (None, None)
  end.
Proof.
  intros Hr. unfold tcp_part, rel_part.
  assert (Hrel : forall ra rp,
    scan_related (match c_raddr c with
      | Some a => if negb (IceCandidateType_eqb (c_typ c) IceCandidateType_Host)
                  then [TWord KW_raddr; ip_tok a; TWord KW_rport; show_num (sa_port a)] else []
      | None => [] end) ra rp =
    match c_raddr c with
    | Some a => if IceCandidateType_eqb (c_typ c) IceCandidateType_Host then (ra, rp)
                else (Some (sa_ip a), Some (sa_port a))
    | None => (ra, rp)
    end).
  { intros ra rp. destruct (c_raddr c) as [a |]; [| reflexivity].
    destruct (IceCandidateType_eqb (c_typ c) IceCandidateType_Host); cbn [negb]; [reflexivity |].
    cbn [scan_related]. change (tok_is (TWord KW_raddr) KW_raddr) with true. cbn match.
    change (tok_is (TWord KW_rport) KW_raddr) with false.
    change (tok_is (TWord KW_rport) KW_rport) with true. cbn match.
    rewrite parse_ip_ip_tok. destruct Hr as [Hp _].
    rewrite parse_show by (try lia; reflexivity). reflexivity. }
  destruct (c_tcp c) as [t |].
  - cbn [app scan_related]. change (tok_is (TWord KW_tcptype) KW_raddr) with false.
    change (tok_is (TWord KW_tcptype) KW_rport) with false. cbn match. apply Hrel.
  - cbn [app]. apply Hrel.
Qed.

Lemma to_tokens_shape c :
  to_tokens c =
  [c_foundation c; show_num (c_component c); lower (c_transport c); show_num (c_priority c);
   ip_tok (c_addr c); show_num (sa_port (c_addr c)); TWord KW_typ; TWord (cand_type_str (c_typ c))]
  ++ tcp_part c ++ rel_part c.
Proof. reflexivity. Qed.

Theorem candidate_roundtrip : forall c, wf_cand c -> from_tokens (to_tokens c) = Some (norm c).
Proof.
  intros c (Hf & Hc & Hp & (Hap & Has) & Hr & Htcp).
  rewrite to_tokens_shape. unfold from_tokens.
  set (E := tcp_part c ++ rel_part c).
  replace (Z.of_nat (length (_ ++ E)) <? CAND_MIN_PARTS) with false
    by (symmetry; apply Z.ltb_ge; rewrite app_length; cbn [length]; unfold CAND_MIN_PARTS; lia).
  cbn [app nth]. change (Z.to_nat CAND_EXT_START) with 8%nat. cbn [skipn].
  rewrite Hf.
  rewrite (parse_show 65535 (c_component c)) by (try lia; reflexivity).
  rewrite (parse_show 4294967295 (c_priority c)) by (try lia; reflexivity).
  rewrite (parse_show 65535 (sa_port (c_addr c))) by (try lia; reflexivity).
  rewrite parse_sockaddr_ip_tok by assumption.
  rewrite type_str_roundtrip. rewrite lower_idem.
  unfold E. rewrite scan_related_parts by assumption. rewrite scan_tcptype_parts.
  unfold norm. f_equal.
  assert (Htc : (if tok_is (lower (c_transport c)) KW_tcp then c_tcp c else None) = c_tcp c).
  { destruct (c_tcp c) as [t |] eqn:Et.
    - rewrite Htcp by discriminate. reflexivity.
    - destruct (tok_is (lower (c_transport c)) KW_tcp); reflexivity. }
  rewrite Htc. f_equal.
  destruct (c_raddr c) as [a |]; [| destruct (IceCandidateType_eqb (c_typ c) IceCandidateType_Host); reflexivity].
  destruct (IceCandidateType_eqb (c_typ c) IceCandidateType_Host); [reflexivity |].
  destruct Hr as [_ Hs]. destruct a as [i p s]. cbn in *. subst. reflexivity.
Qed.

(* printing the normal form gives the same line: to_sdp (from_sdp (to_sdp c)) = to_sdp c *)
Theorem candidate_print_stable : forall c, to_tokens (norm c) = to_tokens c.
Proof.
  intros c. unfold to_tokens, norm. cbn [c_foundation c_component c_transport c_priority c_addr c_typ c_tcp c_raddr].
  rewrite lower_idem. f_equal.
  destruct (IceCandidateType_eqb (c_typ c) IceCandidateType_Host); cbn [negb]; [| reflexivity].
  destruct (c_raddr c); reflexivity.
Qed.

Theorem candidate_print_roundtrip : forall c, wf_cand c ->
  option_map to_tokens (from_tokens (to_tokens c)) = Some (to_tokens c).
Proof.
  intros c H. rewrite candidate_roundtrip by assumption. cbn [option_map]. f_equal. apply candidate_print_stable.
Qed.

(* the former defect F14 (related address dropped) on its witness, now passing *)
Definition f14_witness : cand :=
  mkCand (TWord [102]) 5 (mkSa (IP4 [9; 9; 9; 9]) 1000 0) IceCandidateType_ServerReflexive
         (TWord [117; 100; 112]) None (Some (mkSa (IP4 [10; 0; 0; 1]) 2000 0)) 1.
Example f14_witness_roundtrip : from_tokens (to_tokens f14_witness) = Some f14_witness.
Proof. vm_compute. reflexivity. Qed.

(* every type x transport x tcptype x component x family keeps its fields (instances of the theorem) *)
Example roundtrip_tcp_v6 :
  let c := mkCand (TWord [49; 50]) 2130706431 (mkSa (IP6 [32;1;13;184;0;0;0;0;0;0;0;0;0;0;0;1]) 9 0)
                  IceCandidateType_PeerReflexive (TWord [84; 67; 80]) (Some TcpType_Active)
                  (Some (mkSa (IP6 [254;128;0;0;0;0;0;0;0;0;0;0;0;0;0;2]) 65535 0)) 256 in
  from_tokens (to_tokens c) = Some (norm c) /\ c_raddr (norm c) = c_raddr c /\ c_tcp (norm c) = c_tcp c.
Proof. vm_compute. repeat split. Qed.
