(* DCEP: DataChannelOpen marshal / unmarshal round trip, the channel-type tables of send_dcep_open
   and handle_dcep are mutually inverse, and an OPEN built from a local channel creates at the
   peer a channel with the same label, protocol, ordering and reliability parameters. *)
From Coq Require Import ZArith List Bool Lia.
From RV Require Import Lib.Wrap Gen.Consts Gen.Serial Gen.Sctp Model.SctpRecv Proofs.SctpRecvBase.
Import ListNotations.
Open Scope Z_scope.

Local Ltac Zify.zify_post_hook ::= Z.div_mod_to_equations.

Lemma be16_roundtrip x : 0 <= x < 65536 -> of_be16 ((x / 256) mod 256) (x mod 256) = x.
Proof. intros H. unfold of_be16. lia. Qed.

Lemma be32_roundtrip x :
  0 <= x < 4294967296 ->
  of_be32 ((x / 16777216) mod 256) ((x / 65536) mod 256) ((x / 256) mod 256) (x mod 256) = x.
Proof. intros H. unfold of_be32. lia. Qed.

Definition wf_open (o : dopen) : Prop :=
  0 <= o_prio o < 65536 /\ 0 <= o_rel o < 4294967296 /\
  Z.of_nat (length (o_label o)) < 65536 /\ Z.of_nat (length (o_proto o)) < 65536 /\
  utf8_valid (o_label o) = true /\ utf8_valid (o_proto o) = true.

Lemma firstn_app_exact {A} (l r : list A) : firstn (length l) (l ++ r) = l.
Proof. rewrite firstn_app, Nat.sub_diag, firstn_all. cbn. apply app_nil_r. Qed.
Lemma skipn_app_exact {A} (l r : list A) : skipn (length l) (l ++ r) = r.
Proof. rewrite skipn_app, Nat.sub_diag, skipn_all. reflexivity. Qed.

(* unmarshal (marshal o) = Ok o *)
Theorem open_roundtrip o : wf_open o -> unmarshal_open (marshal_open o) = Some o.
Proof.
  intros (Hp & Hr & Hl & Hq & Ul & Uq). destruct o as [ct prio rel label proto]. cbn [o_ctype o_prio o_rel o_label o_proto] in *.
  unfold marshal_open, unmarshal_open. cbn [o_ctype o_prio o_rel o_label o_proto].
  unfold be16b, be32b. cbn [List.app].
  assert (Hlen : (Z.of_nat (length (DCEP_TYPE_OPEN :: ct :: (prio / 256) mod 256 :: prio mod 256
       :: (rel / 16777216) mod 256 :: (rel / 65536) mod 256 :: (rel / 256) mod 256 :: rel mod 256
       :: (w16 (Z.of_nat (length label)) / 256) mod 256 :: w16 (Z.of_nat (length label)) mod 256
       :: (w16 (Z.of_nat (length proto)) / 256) mod 256 :: w16 (Z.of_nat (length proto)) mod 256
       :: label ++ proto)) <? DCEP_OPEN_MIN_LEN) = false).
  { apply Z.ltb_ge. cbn [length]. unfold DCEP_OPEN_MIN_LEN. lia. }
  rewrite Hlen. rewrite Z.eqb_refl. cbn [negb].
  assert (Hwl : w16 (Z.of_nat (length label)) = Z.of_nat (length label)).
  { rewrite w16_mod. apply Z.mod_small. lia. }
  assert (Hwq : w16 (Z.of_nat (length proto)) = Z.of_nat (length proto)).
  { rewrite w16_mod. apply Z.mod_small. lia. }
  rewrite Hwl, Hwq. rewrite !be16_roundtrip by lia. rewrite be32_roundtrip by lia.
  assert (Hrest : (Z.of_nat (length (label ++ proto)) <? Z.of_nat (length label) + Z.of_nat (length proto)) = false).
  { apply Z.ltb_ge. rewrite app_length. lia. }
  rewrite Hrest. rewrite !Nat2Z.id. rewrite firstn_app_exact, skipn_app_exact, firstn_all.
  rewrite Ul, Uq. reflexivity.
Qed.

(* the two tables are inverse on all six channel types *)
Theorem type_table_inverse ordered has_rex has_life :
  dcep_type_ordered (dcep_channel_type ordered has_rex has_life) = ordered /\
  dcep_type_is_rex (dcep_channel_type ordered has_rex has_life) = has_rex /\
  dcep_type_is_timed (dcep_channel_type ordered has_rex has_life) = (has_life && negb has_rex).
Proof. destruct ordered, has_rex, has_life; repeat split; reflexivity. Qed.

(* and the six types are exactly those of RFC 8832 section 8.2.2 *)
Theorem type_table_rfc8832 :
  dcep_channel_type true false false = 0 /\ dcep_channel_type true true false = 1 /\
  dcep_channel_type true false true = 2 /\ dcep_channel_type false false false = 128 /\
  dcep_channel_type false true false = 129 /\ dcep_channel_type false false true = 130.
Proof. repeat split; reflexivity. Qed.

(* a channel configuration whose reliability parameters fit the wire format and are not both set *)
Definition wf_cfg (c : chan) : Prop :=
  match ch_rex c with Some r => 0 <= r < 65536 | None => True end /\
  match ch_life c with Some t => 0 <= t < 65536 | None => True end /\
  (ch_rex c = None \/ ch_life c = None) /\
  Z.of_nat (length (ch_label c)) < 65536 /\ Z.of_nat (length (ch_proto c)) < 65536 /\
  utf8_valid (ch_label c) = true /\ utf8_valid (ch_proto c) = true.

Lemma open_of_chan_wf c : wf_cfg c -> wf_open (open_of_chan c).
Proof.
  intros (Hr & Ht & _ & Hl & Hq & Ul & Uq). unfold wf_open, open_of_chan. cbn [o_prio o_rel o_label o_proto].
  repeat split; try assumption; try lia.
  - unfold dcep_rel_param. destruct (ch_rex c); [unfold cast_u32, wrapu; apply Z.mod_pos_bound; lia|].
    destruct (ch_life c); [unfold cast_u32, wrapu; apply Z.mod_pos_bound; lia|lia].
  - unfold dcep_rel_param. destruct (ch_rex c); [unfold cast_u32, wrapu; apply Z.mod_pos_bound; lia|].
    destruct (ch_life c); [unfold cast_u32, wrapu; apply Z.mod_pos_bound; lia|lia].
Qed.

(* an in-band channel appears at the peer with the parameters it was created with: the DCEP OPEN
   that send_dcep_open builds for a local channel c, handled by a peer that has no channel with
   that stream id, creates and announces a channel with the same id, label, protocol, ordering and
   reliability parameters, emits Open for it first, and answers with a DCEP ACK *)
Theorem inband_open_same_config c a :
  wf_cfg c -> find_chan (ch_id c) (a_chans a) = None ->
  exists ch,
    handle_dcep a (ch_id c) (marshal_open (open_of_chan c)) =
      (mkApp3 (a_chans a ++ [ch]) (a_streams a) (a_dcep a),
       [Ev (ch_id c) EOpen; NewDc ch; TxDcep (ch_id c) [DCEP_TYPE_ACK]], true) /\
    ch_id ch = ch_id c /\ ch_label ch = ch_label c /\ ch_proto ch = ch_proto c /\
    ch_ordered ch = ch_ordered c /\ ch_rex ch = ch_rex c /\ ch_life ch = ch_life c /\
    ch_negotiated ch = false /\ ch_state ch = DataChannelState_Open.
Proof.
  intros Hwf Hnone. pose proof (open_roundtrip _ (open_of_chan_wf c Hwf)) as Hrt.
  exists (chan_of_open (ch_id c) (open_of_chan c)). split.
  - unfold handle_dcep.
    assert (Hhd : exists tl, marshal_open (open_of_chan c) = DCEP_TYPE_OPEN :: tl).
    { unfold marshal_open. cbn [List.app]. eexists. reflexivity. }
    destruct Hhd as [tl Htl]. rewrite Htl at 1. rewrite Z.eqb_refl. rewrite Hrt, Hnone. reflexivity.
  - destruct Hwf as (Hr & Ht & Hone & _).
    unfold chan_of_open, open_of_chan. cbn [o_ctype o_rel o_label o_proto ch_id ch_label ch_proto ch_ordered ch_rex ch_life ch_negotiated ch_state].
    pose proof (type_table_inverse (ch_ordered c) (is_some (ch_rex c)) (is_some (ch_life c))) as (T1 & T2 & T3).
    rewrite T1, T2, T3. repeat split; try reflexivity.
    + unfold dcep_rel_param. destruct (ch_rex c) as [r|]; cbn [is_some]; [|reflexivity].
      f_equal. rewrite w16_mod. unfold cast_u32, wrapu. rewrite (Z.mod_small r) by lia. apply Z.mod_small. lia.
    + unfold dcep_rel_param. destruct Hone as [E|E]; rewrite E in *; cbn [is_some andb negb].
      * destruct (ch_life c) as [t|]; cbn [is_some andb negb]; [|reflexivity].
        f_equal. rewrite w16_mod. unfold cast_u32, wrapu. rewrite (Z.mod_small t) by lia. apply Z.mod_small. lia.
      * destruct (ch_rex c); reflexivity.
Qed.

(* a second OPEN for the same stream creates nothing (found check): only the ACK is repeated *)
Theorem dup_open_no_second_channel a sid d o ch :
  unmarshal_open d = Some o -> find_chan sid (a_chans a) = Some ch ->
  (exists tl, d = DCEP_TYPE_OPEN :: tl) ->
  handle_dcep a sid d = (a, [TxDcep sid [DCEP_TYPE_ACK]], true).
Proof.
  intros Hu Hf [tl ->]. unfold handle_dcep. rewrite Z.eqb_refl, Hu, Hf. reflexivity.
Qed.

(* a malformed OPEN is dropped: the chunk is consumed (the cumulative TSN moves past it), nothing
   is created or announced (before fix 412d9a4 the error aborted handle_data and the association
   stalled behind that TSN for ever) *)
Example malformed_open_consumed :
  let st := est_r 999 [] in
  let c := D 1000 7 5 0 DATA_CHANNEL_PPID_DCEP [DCEP_TYPE_OPEN; 0; 0] in
  r_cum (fst (recv_data st c)) = 1000 /\ snd (recv_data st c) = [] /\ a_chans (r_app (fst (recv_data st c))) = [].
Proof. vm_compute. repeat split; reflexivity. Qed.

(* a DCEP OPEN longer than one DATA chunk is reassembled: two fragments of the OPEN that
   send_dcep_open builds for a channel with a long label create that channel *)
Definition long_chan : chan :=
  mkChan 101 true false (repeat 76 1300) [112] None None DataChannelState_Connecting [].
Example fragmented_open_reassembled :
  let o := marshal_open (open_of_chan long_chan) in
  let f1 := firstn 1172 o in
  let f2 := skipn 1172 o in
  let r := run (est_r 4999 [])
               [IData (D 5000 6 101 0 DATA_CHANNEL_PPID_DCEP f1); IData (D 5001 5 101 0 DATA_CHANNEL_PPID_DCEP f2);
                IData (D 5002 3 101 0 53 [104; 105])] in
  Z.of_nat (length o) = 1313 /\ r_cum (fst r) = 5002 /\
  evs_of 101 (snd r) = [EOpen; EMsg [104; 105]] /\
  match a_chans (r_app (fst r)) with
  | [ch] => ch_label ch = repeat 76 1300 /\ ch_proto ch = [112] /\ ch_ordered ch = true
  | _ => False
  end.
Proof. vm_compute. repeat split; reflexivity. Qed.
