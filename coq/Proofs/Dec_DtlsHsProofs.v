(* C07 -- totality, termination and cost of the DTLS handshake decoders (Model/Dec_DtlsHs.v). *)
From Coq Require Import ZArith List Lia Bool.
From RV Require Import Lib.Wrap Gen.C07Consts Model.PanicLib Model.Dec_DtlsHs.
Import ListNotations.
Open Scope Z_scope.
Open Scope pm_scope.

Ltac consts := unfold HS_HEADER_SIZE, CH_MIN_LEN, CH_RANDOM_LEN, CH_CS_LEN_MIN, CH_CS_ELEM, CH_EXT_MIN,
  SH_MIN_LEN, SH_RANDOM_LEN, SH_SUITE_MIN, SH_EXT_MIN, HVR_MIN_LEN, SKE_MIN_LEN, SKE_SIG_MIN,
  CERT_MIN_LEN, CERT_ENTRY_HDR in *.

Lemma cs_loop_fine : forall fuel buf acc,
  len buf < Z.of_nat fuel ->
  wp (cs_loop fuel buf acc) (fun r t a => r <> Panic /\ r <> OutOfFuel /\ 0 <= t <= len buf /\ 0 <= a <= len buf).
Proof.
  induction fuel as [|f IH]; intros buf acc Hf.
  - pose proof (len_nonneg buf). lia.
  - cbn [cs_loop]. consts. pose proof (len_nonneg buf) as Hn.
    wp_step.
    + wp_step. wp_step. cbv beta iota zeta. wp_step. wp_step. cbv beta.
      specialize (IH c' (acc ++ [byte a * 256 + byte b])).
      unfold wp in *. autorewrite with len in *.
      destruct IH as (H1 & H2 & H3 & H4); [lia|]. pose proof (len_nonneg c').
      repeat split; auto; lia.
    + wp_step. repeat split; try discriminate; lia.
Qed.

Ltac loop_step :=
  lazymatch goal with
  | |- wp (cs_loop _ _ _) _ =>
      eapply wp_weaken; [apply cs_loop_fine; unfold len; lia | cbv beta; intros [?|?| | ] ? ? (?&?&?&?); try congruence]
  end.
Ltac go := repeat (first [ progress cbv beta iota zeta | wp_step | loop_step ]).

Theorem client_hello_fine : forall bs,
  wp (client_hello_decode bs) (fine (3 * len bs + 40) (2 * len bs)).
Proof.
  intros bs. unfold client_hello_decode. consts.
  go; try fine_done.
Qed.

Theorem server_hello_fine : forall bs,
  wp (server_hello_decode bs) (fine (3 * len bs + 40) (2 * len bs)).
Proof. intros bs. unfold server_hello_decode. consts. go; try fine_done. Qed.

Theorem hello_verify_fine : forall bs,
  wp (hello_verify_decode bs) (fine (2 * len bs + 10) (len bs)).
Proof. intros bs. unfold hello_verify_decode. consts. go; try fine_done. Qed.

Theorem ske_fine : forall bs, wp (ske_decode bs) (fine (2 * len bs + 20) (len bs)).
Proof. intros bs. unfold ske_decode. consts. go; try fine_done. Qed.

Theorem cke_fine : forall bs, wp (cke_decode bs) (fine (2 * len bs + 10) (len bs)).
Proof. intros bs. unfold cke_decode. go; try fine_done. Qed.

Theorem finished_fine : forall bs, wp (finished_decode bs) (fine (len bs + 3) (len bs)).
Proof. intros bs. unfold finished_decode. go; try fine_done. Qed.

Theorem hs_decode_fine : forall bs, wp (hs_decode bs) (fine 20 0).
Proof. intros bs. unfold hs_decode. consts. go; try fine_done. Qed.

Lemma cert_loop_fine : forall fuel buf acc,
  len buf < Z.of_nat fuel ->
  wp (cert_loop fuel buf acc)
     (fun r t a => r <> Panic /\ r <> OutOfFuel /\ 0 <= t <= 3 * len buf + 1 /\ 0 <= a <= 8 * len buf).
Proof.
  induction fuel as [|f IH]; intros buf acc Hf.
  - pose proof (len_nonneg buf). lia.
  - cbn [cert_loop]. consts.
    repeat (first [ progress cbv beta iota zeta | wp_step ]);
      try (lazymatch goal with |- wp _ _ => fail | _ => repeat split; try discriminate; lens end).
    match goal with |- wp (cert_loop f ?b ?ac) _ => specialize (IH b ac) end.
    unfold wp in *. autorewrite with len in *.
    destruct IH as (H1' & H2' & H3' & H4'); [lia|]. facts.
    repeat split; auto; lia.
Qed.

Ltac cert_step :=
  lazymatch goal with
  | |- wp (cert_loop _ _ _) _ =>
      eapply wp_weaken; [apply cert_loop_fine; unfold len; lia | cbv beta; intros [?|?| | ] ? ? (?&?&?&?); try congruence]
  end.

Theorem cert_fine : forall bs, wp (cert_decode bs) (fine (3 * len bs + 10) (8 * len bs)).
Proof.
  intros bs. unfold cert_decode. consts.
  repeat (first [ progress cbv beta iota zeta | wp_step | cert_step ]); try fine_done.
Qed.

(* ---------------------------------------------------------------- extension walks *)
Ltac steps := repeat (first [ progress cbv beta iota zeta | wp_step ]).
Ltac side := try (lazymatch goal with |- wp _ _ => fail | _ => repeat split; try discriminate; lens end).
Ltac use_ih IH := eapply wp_weaken; [apply IH; lens | cbv beta; intros ? ? ? (?&?&?&?); repeat split; auto; lens].
Ltac call L :=
  eapply wp_weaken; [apply L; try (unfold len in *; lia); lens
                    | cbv beta; intros [?|?| | ] ? ? (?&?&?&?); try congruence;
                      [ | try solve [fine_done | repeat split; try discriminate; lens] ] ].

Lemma srtp_loop_fine : forall fuel data l i acc,
  len data < 2 ^ 62 -> 0 <= l < 65536 -> 0 <= i <= len data -> len data - i < Z.of_nat fuel ->
  wp (srtp_loop fuel data l i acc)
     (fun r t a => r <> Panic /\ r <> OutOfFuel /\ 0 <= t <= 3 * (len data - i) + 2 /\ 0 <= a <= len data - i).
Proof.
  induction fuel as [|f IH]; intros data l i acc Hl Hll Hi Hf; [lia|].
  cbn [srtp_loop]. steps; side.
  all: try (apply andb_true_iff in Hc as [Hc1 Hc2]; apply Z.ltb_lt in Hc1; apply Z.ltb_lt in Hc2).
  all: side.
  use_ih IH.
Qed.

Lemma ch_ext_walk_fine : forall fuel buf ems ps,
  len buf < 2 ^ 62 -> len buf < Z.of_nat fuel ->
  wp (ch_ext_walk fuel buf ems ps)
     (fun r t a => r <> Panic /\ r <> OutOfFuel /\ 0 <= t <= 4 * len buf + 1 /\ 0 <= a <= len buf).
Proof.
  induction fuel as [|f IH]; intros buf ems ps Hl Hf; [lens|].
  cbn [ch_ext_walk]. steps; side.
  - eapply wp_weaken; [apply srtp_loop_fine; try (unfold len in *; lia); lens|].
    cbv beta. intros [?|?| | ] ? ? (?&?&?&?); try congruence; [|repeat split; try discriminate; lens].
    use_ih IH.
  - use_ih IH.
  - use_ih IH.
  - use_ih IH.
Qed.

Theorem client_hello_extensions_fine : forall ext,
  len ext < 2 ^ 62 -> wp (client_hello_extensions ext) (fine (5 * len ext + 2) (2 * len ext)).
Proof. intros ext Hl. unfold client_hello_extensions. steps. call ch_ext_walk_fine; fine_done. Qed.

Lemma sh_ext_walk_fine : forall fuel buf ems p,
  len buf < Z.of_nat fuel ->
  wp (sh_ext_walk fuel buf ems p)
     (fun r t a => r <> Panic /\ r <> OutOfFuel /\ 0 <= t <= 2 * len buf + 1 /\ 0 <= a <= 0).
Proof.
  induction fuel as [|f IH]; intros buf ems p Hf; [lens|].
  cbn [sh_ext_walk]. steps; side; use_ih IH.
Qed.

Theorem server_hello_extensions_fine : forall ext,
  wp (server_hello_extensions ext) (fine (3 * len ext + 2) (len ext)).
Proof. intros ext. unfold server_hello_extensions. steps; try fine_done. call sh_ext_walk_fine; fine_done. Qed.

Example client_hello_extensions_example :
  val (client_hello_extensions [0; 23; 0; 0; 0; 14; 0; 7; 0; 4; 0; 2; 0; 1; 0]) = Ok (true, [2; 1]).
Proof. vm_compute. reflexivity. Qed.

(* ---------------------------------------------------------------- fragment reassembly *)
Definition reasm_wf (st : reasm) : Prop := len (r_buf st) <= r_cap st.

Lemma reasm_step_spec : forall st f,
  reasm_wf st ->
  wp (reasm_step st f)
     (fun r t a => exists o st', r = Ok (o, st') /\ 0 <= a /\ 0 <= t /\ reasm_wf st' /\
                   a + len (r_buf st') <= 2 * len (f_body f) + 12 + len (r_buf st) /\
                   t <= 2 * len (f_body f) + len (r_buf st) + 3).
Proof.
  intros st f Hwf. unfold reasm_wf in *. unfold reasm_step. consts.
  set (buf0 := if negb (r_seq st =? f_seq f) || (f_off f =? 0) then [] else r_buf st).
  assert (Hb : 0 <= len buf0 <= len (r_buf st)).
  { unfold buf0. destruct (negb _ || _); lens. }
  clearbody buf0.
  destruct (f_total f =? len (f_body f)) eqn:E0.
  { apply wp_ret. eexists _, _. split; [reflexivity|]. repeat split; lens. }
  destruct (negb (f_off f =? len buf0) || (f_total f <? f_off f + len (f_body f))) eqn:E1.
  { apply wp_mk. eexists _, _. split; [reflexivity|]. cbn [r_buf r_cap]. repeat split; lens. }
  apply orb_false_iff in E1 as [E1 E2]. apply negb_false_iff in E1. apply Z.eqb_eq in E1. apply Z.ltb_ge in E2.
  steps.
  all: eexists _, _; (split; [reflexivity|]); cbn [r_buf r_cap].
  all: repeat split; lens.
Qed.

(* cumulative: over ANY history of fragments the bytes placed in reassembly buffers (and in re-encoded
   complete messages) stay within twice the fragment bytes received plus 12 per fragment, and what is
   buffered never exceeds the total_length of the message being assembled -- a declared total_length is
   only ever an upper bound on the buffer, never a size that is allocated *)
Theorem reasm_fold_alloc : forall fs st,
  reasm_wf st ->
  wp (reasm_fold st fs)
     (fun r t a => exists st', r = Ok st' /\ 0 <= a /\ reasm_wf st' /\
                   a + len (r_buf st') <= 2 * frags_bytes fs + 12 * len fs + len (r_buf st)).
Proof.
  induction fs as [|f rest IH]; intros st Hwf; cbn [reasm_fold].
  - apply wp_ret. exists st. split; [reflexivity|]. change (frags_bytes []) with 0. split; [lia|]. split; [exact Hwf|]. lens.
  - change (frags_bytes (f :: rest)) with (len (f_body f) + frags_bytes rest).
    apply wp_bind. eapply wp_weaken; [apply reasm_step_spec; exact Hwf|]. cbv beta.
    intros r t a (o & st' & -> & Ha & Ht & Hwf' & Hal & Htl). cbv beta iota.
    eapply wp_weaken; [apply IH; exact Hwf'|]. cbv beta.
    intros r' t' a' (st'' & -> & Ha' & Hwf'' & Hal'). exists st''. split; [reflexivity|]. split; [lia|]. split; [exact Hwf''|]. lens.
Qed.

Lemma reasm_init_wf : reasm_wf reasm_init.
Proof. unfold reasm_wf. cbn. unfold len. cbn. lia. Qed.

Corollary reasm_fold_total : forall fs st, reasm_wf st -> val (reasm_fold st fs) <> Panic /\ val (reasm_fold st fs) <> OutOfFuel.
Proof.
  intros fs st Hwf. pose proof (reasm_fold_alloc fs st Hwf) as H. unfold wp in H.
  destruct H as (st' & -> & _). split; discriminate.
Qed.

Corollary reasm_fold_alloc_bound : forall fs st, reasm_wf st ->
  allocd (reasm_fold st fs) <= 2 * frags_bytes fs + 12 * len fs + len (r_buf st).
Proof.
  intros fs st Hwf. pose proof (reasm_fold_alloc fs st Hwf) as H. unfold wp in H.
  destruct H as (st' & _ & Ha & _ & Hb). pose proof (len_nonneg (r_buf st')). lia.
Qed.

(* what is buffered is bounded both by what was received and by the declared total of the message in progress *)
Corollary reasm_fold_buffer_bound : forall fs st st', reasm_wf st ->
  val (reasm_fold st fs) = Ok st' ->
  len (r_buf st') <= r_cap st' /\ len (r_buf st') <= 2 * frags_bytes fs + 12 * len fs + len (r_buf st).
Proof.
  intros fs st st' Hwf Hv. pose proof (reasm_fold_alloc fs st Hwf) as H. unfold wp in H.
  destruct H as (st'' & Hs & Ha & Hw & Hb). rewrite Hv in Hs. injection Hs as <-. split; [exact Hw | lia].
Qed.

(* an appended fragment never takes the buffer past the total_length it declares *)
Lemma reasm_step_within_total : forall st f st',
  val (reasm_step st f) = Ok (None, st') -> r_buf st' <> r_buf st -> r_buf st' <> [] -> len (r_buf st') < f_total f.
Proof.
  intros st f st'. unfold reasm_step.
  destruct (f_total f =? len (f_body f)); [discriminate|].
  set (buf0 := if negb (r_seq st =? f_seq f) || (f_off f =? 0) then [] else r_buf st).
  destruct (negb (f_off f =? len buf0) || (f_total f <? f_off f + len (f_body f))) eqn:E1.
  - cbn. intros [= <-]. cbn [r_buf]. unfold buf0. destruct (negb _ || _); intros; congruence.
  - unfold bind; cbn. destruct (len (buf0 ++ f_body f) <? f_total f) eqn:E2; cbn; [|discriminate].
    intros [= <-]. cbn [r_buf]. intros _ _. apply Z.ltb_lt in E2. exact E2.
Qed.

(* had the buffer been sized from the declared length (`reserve(total_length)` on the first fragment), one
   1-byte fragment would already break the bound: *)
Definition reasm_step_reserving (st : reasm) (f : frag) : M (option bytes * reasm) :=
  (if negb (f_total f =? len (f_body f)) && (negb (r_seq st =? f_seq f) || (f_off f =? 0)) then alloc (f_total f) else ret tt) ;;;
  reasm_step st f.
Lemma reasm_reserving_refuted :
  exists f, len (f_body f) = 1 /\ allocd (reasm_step_reserving reasm_init f) > 16000000.
Proof. exists (mkFrag 16777215 0 0 [1]). split; [reflexivity | vm_compute; reflexivity]. Qed.

Example reasm_example :
  val (reasm_fold reasm_init [mkFrag 3 0 0 [1]; mkFrag 3 0 1 [2; 3]]) = Ok (mkReasm [] 0 3)
  /\ val (reasm_run reasm_init [mkFrag 3 0 0 [1]; mkFrag 3 0 1 [2; 3]]) = Ok (Some [1; 2; 3], mkReasm [] 0 3, [])
  /\ val (reasm_run reasm_init [mkFrag 3 0 0 [1]; mkFrag 3 0 2 [2; 3]]) = Ok (None, mkReasm [1] 0 3, []).
Proof. vm_compute. repeat split; reflexivity. Qed.

(* F26: the 16-bit receive counter after 65536 accepted messages *)
Lemma recv_seq_unchecked_panics : val (recv_seq_bump_unchecked 65535) = Panic.
Proof. vm_compute. reflexivity. Qed.
Lemma recv_seq_run_total : forall n s, 0 <= s < 65536 ->
  exists s', val (recv_seq_run recv_seq_bump n s) = Ok s' /\ 0 <= s' < 65536.
Proof.
  induction n as [|k IH]; intros s Hs; cbn [recv_seq_run].
  - exists s. split; [reflexivity | exact Hs].
  - unfold bind at 1. cbn [recv_seq_bump ret val].
    destruct (IH ((s + 1) mod 65536)) as (s' & Hv & Hr); [apply Z.mod_pos_bound; lia|].
    exists s'. rewrite Hv. split; [reflexivity | exact Hr].
Qed.

(* the guard as it was before the fix: a 34-byte body panics; with the regenerated guard it cannot *)
Lemma client_hello_guard34_panics :
  val (client_hello_decode_guard 34 (repeat 0 34)) = Panic.
Proof. vm_compute. reflexivity. Qed.

Lemma client_hello_guard_ok : forall bs, val (client_hello_decode_guard CH_MIN_LEN bs) <> Panic.
Proof.
  intros bs.
  assert (H : wp (client_hello_decode_guard CH_MIN_LEN bs) (fine 10 0)).
  { unfold client_hello_decode_guard. consts. go; try fine_done. }
  apply fine_unfold in H. tauto.
Qed.

(* the model really decodes: a satisfiable example for each shape *)
Example client_hello_example :
  out_of (client_hello_decode ([254; 253] ++ repeat 7 32 ++ [0; 0; 0; 2; 192; 43; 1; 0])) ch_digest
  = (0, [254; 253; 117901063] ++ repeat 7 28 ++ [0; 0; 1; 49195; 1; 0; 0; 0]).
Proof. vm_compute. reflexivity. Qed.
