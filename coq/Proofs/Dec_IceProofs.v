(* C07 -- ICE packet classifier, TURN ChannelData / TCP framing, candidate-line token walk, a=mid. *)
From Coq Require Import ZArith List Lia Bool.
From RV Require Import Lib.Wrap Gen.C07Consts Model.PanicLib Model.Dec_Ice.
Import ListNotations.
Open Scope Z_scope.
Open Scope pm_scope.

Ltac consts := unfold ICE_STUN_FIRST_BYTE_LT, TURN_CD_MIN, TURN_CH_LO, TURN_CH_HI, TURN_READ_BUF in *.
Ltac steps := repeat (first [ progress cbv beta iota zeta | wp_step ]).
Ltac side := try (lazymatch goal with |- wp _ _ => fail | _ => repeat split; try discriminate; lens end).
Ltac use_ih IH := eapply wp_weaken; [apply IH; lens | cbv beta; intros ? ? ? (?&?&?&?); repeat split; auto; lens].
Ltac call L :=
  eapply wp_weaken; [apply L; try (unfold len in *; lia); lens
                    | cbv beta; intros [?|?| | ] ? ? (?&?&?&?); try congruence;
                      [ | try solve [fine_done | repeat split; try discriminate; lens] ] ].

(* ---------------------------------------------------------------- classifier, relayed data *)
Theorem classify_fine : forall bs, wp (classify bs) (fine 1 0).
Proof.
  intros bs. unfold classify, classify_with. consts. cbn [andb].
  steps; try fine_done.
Qed.

(* before the fix (no is_empty guard) an empty relayed payload panicked: packet[0] *)
Lemma classify_unguarded_panics : val (classify_with false []) = Panic.
Proof. vm_compute. reflexivity. Qed.

Theorem turn_channel_data_fine : forall bound bs,
  len bs < 2 ^ 62 -> wp (turn_channel_data bound bs) (fine 7 0).
Proof. intros bound bs Hl. unfold turn_channel_data. consts. steps; try fine_done. Qed.

(* ChannelData with declared length 0 on a bound channel hands an empty payload to handle_packet *)
Example channel_data_empty : val (turn_channel_data true [64; 0; 0; 0]) = Ok (Some (Some [])).
Proof. vm_compute. reflexivity. Qed.

(* ---------------------------------------------------------------- TURN/TCP framing *)
Lemma len_repeat {A} (x : A) n : len (repeat x n) = Z.of_nat n.
Proof. unfold len. rewrite repeat_length. reflexivity. Qed.

Theorem turn_tcp_frame_fine : forall buflen declared,
  0 <= buflen -> 0 <= declared -> wp (turn_tcp_frame true buflen declared) (fine 1 0).
Proof.
  intros buflen declared Hb Hd. unfold turn_tcp_frame. cbn [andb].
  steps; try fine_done.
  all: rewrite ?len_repeat in *; try lia.
Qed.

Lemma turn_tcp_frame_unguarded_panics : val (turn_tcp_frame false 1500 1501) = Panic.
Proof. vm_compute. reflexivity. Qed.

(* ---------------------------------------------------------------- a=mid *)
Theorem mid_bump_fine : forall mid, wp (mid_bump mid) (fine 0 0).
Proof. intros mid. unfold mid_bump. steps. fine_done. Qed.
Lemma mid_bump_unchecked_panics : val (mid_bump_unchecked 65535) = Panic.
Proof. vm_compute. reflexivity. Qed.
Lemma mid_bump_in_range : forall mid x, 0 <= mid <= 65535 -> val (mid_bump mid) = Ok x -> 0 <= x <= 65535.
Proof. intros mid x H [= <-]. lia. Qed.

(* ---------------------------------------------------------------- candidate tokens *)
Lemma wp_tok parts i (Q : res bytes -> Z -> Z -> Prop) :
  0 <= i < len parts -> (forall t, Q (Ok t) 1 0) -> wp (tok parts i) Q.
Proof.
  intros H K. unfold tok.
  replace ((0 <=? i) && (i <? len parts)) with true
    by (symmetry; apply andb_true_iff; split; [apply Z.leb_le | apply Z.ltb_lt]; lia).
  apply K.
Qed.
Ltac tok_step := lazymatch goal with |- wp (tok _ _) _ => apply wp_tok; [lens | intros ?] end.
Ltac steps' := repeat (first [ progress cbv beta iota zeta | wp_step | tok_step ]).

Lemma tcptype_loop_fine : forall fuel parts i,
  len parts < 2 ^ 62 -> 0 <= i <= len parts -> len parts - i < Z.of_nat fuel ->
  wp (tcptype_loop fuel parts i)
     (fun r t a => r <> Panic /\ r <> OutOfFuel /\ 0 <= t <= 2 * (len parts - i) + 3 /\ 0 <= a <= 0).
Proof.
  induction fuel as [|f IH]; intros parts i Hl Hi Hf; [lens|].
  cbn [tcptype_loop]. steps'; side.
  use_ih IH.
Qed.

Lemma rel_loop_fine : forall fuel parts ipok i ra rp,
  len parts < 2 ^ 62 -> 0 <= i <= len parts -> len parts - i < Z.of_nat fuel ->
  wp (rel_loop fuel parts ipok i ra rp)
     (fun r t a => r <> Panic /\ r <> OutOfFuel /\ 0 <= t <= 2 * (len parts - i) + 3 /\ 0 <= a <= 0).
Proof.
  induction fuel as [|f IH]; intros parts ipok i ra rp Hl Hi Hf; [lens|].
  cbn [rel_loop]. steps'; side.
  use_ih IH.
Qed.

Theorem cand_parse_fine : forall addr_ok ipok parts,
  len parts < 2 ^ 62 -> wp (cand_parse addr_ok ipok parts) (fine (4 * len parts + 20) 0).
Proof.
  intros addr_ok ipok parts Hl. unfold cand_parse. steps'; try fine_done.
  destruct (parse_uint 16 _); steps'; try fine_done.
  destruct (parse_uint 32 _); steps'; try fine_done.
  destruct (parse_uint 16 _); steps'; try fine_done.
  - call tcptype_loop_fine. steps'.
    call rel_loop_fine. steps'.
    match goal with |- wp (let '(_, _) := ?p in _) _ => destruct p end. steps'. fine_done.
  - call rel_loop_fine. steps'.
    match goal with |- wp (let '(_, _) := ?p in _) _ => destruct p end. steps'. fine_done.
Qed.

Example cand_example :
  val (cand_parse true (fun _ => false)
         [[49]; [49]; [117; 100; 112]; [50; 49]; [49]; [57]; [116; 121; 112]; s_host])
  = Ok (mkCand 1 21 9 0 0 0 0).
Proof. vm_compute. reflexivity. Qed.
