(* C07 -- totality, termination and cost of the H.264 depacketizer, RTX unwrap and UDPTL parse.
   Offsets are `usize`; a Rust slice is never longer than isize::MAX bytes, which is the only
   length hypothesis ([len bs < 2^62] leaves room for the 16-bit lengths added to an offset). *)
From Coq Require Import ZArith List Lia Bool.
From RV Require Import Lib.Wrap Gen.C07Consts Model.PanicLib Model.Dec_Media.
Import ListNotations.
Open Scope Z_scope.
Open Scope pm_scope.

Ltac consts := unfold H264_TYPE_MASK, H264_STAPA, H264_FUA, H264_S_BIT, H264_E_BIT, H264_NRI_MASK, RTX_OSN_LEN,
  UDPTL_MIN, UDPTL_FIRST_SEQ, SAMPLE_SIZE in *.
Ltac steps := repeat (first [ progress cbv beta iota zeta | wp_step ]).
Ltac side := try (lazymatch goal with |- wp _ _ => fail | _ => repeat split; try discriminate; lens end).
Ltac use_ih IH := eapply wp_weaken; [apply IH; lens | cbv beta; intros ? ? ? (?&?&?&?); repeat split; auto; lens].
Ltac call L :=
  eapply wp_weaken; [apply L; try (unfold len in *; lia); lens
                    | cbv beta; intros [?|?| | ] ? ? (?&?&?&?); try congruence;
                      [ | try solve [fine_done | repeat split; try discriminate; lens] ] ].

Lemma pow62 : 2 ^ 62 = 4611686018427387904. Proof. reflexivity. Qed.
Lemma pow64 : 2 ^ 64 = 18446744073709551616. Proof. reflexivity. Qed.

(* ---------------------------------------------------------------- H.264 *)
Lemma stap_loop_fine : forall fuel data offset marker ts dr acc,
  len data < 2 ^ 62 -> 0 <= offset <= len data -> len data - offset < Z.of_nat fuel ->
  wp (stap_loop fuel data offset marker ts dr acc)
     (fun r t a => r <> Panic /\ r <> OutOfFuel /\ 0 <= t <= 5 * (len data - offset) + 1 /\
                   0 <= a <= 256 * (len data - offset)).
Proof.
  induction fuel as [|f IH]; intros data offset marker ts dr acc Hl Ho Hf; [lia|].
  cbn [stap_loop]. consts. steps; side.
  use_ih IH.
Qed.

Theorem h264_push_fine : forall video st marker seq ts payload,
  len payload < 2 ^ 62 ->
  wp (h264_push video st marker seq ts payload)
     (fine (5 * len payload + len (fua_buffer st) + 10) (256 * len payload + len (fua_buffer st) + 512)).
Proof.
  intros video st marker seq ts payload Hl. unfold h264_push. consts. steps; try fine_done.
  - call stap_loop_fine; steps; try fine_done.
    match goal with |- wp (let '(_, _) := ?p in _) _ => destruct p end. steps. fine_done.
  - destruct (last_seq st); steps; try fine_done.
Qed.


(* the FU-A reassembly buffer grows by at most the payload per packet (it is emptied by an end
   fragment, a sequence gap or a timestamp change) *)
Example fua_example :
  let m1 := h264_push true h264_init false 7 9 [124; 133; 1; 2] in
  match val m1 with
  | Ok (_, st1) => match val (h264_push true st1 true 8 9 [124; 69; 3]) with
                   | Ok (s, st2) => s = [(9, 1, [101; 1; 2; 3])] /\ fua_buffer st2 = []
                   | _ => False
                   end
  | _ => False
  end.
Proof. vm_compute. split; reflexivity. Qed.

(* ---------------------------------------------------------------- RTX *)
Theorem rtx_unwrap_fine : forall bs, wp (rtx_unwrap bs) (fine 4 0).
Proof. intros bs. unfold rtx_unwrap. consts. steps; try fine_done. Qed.

(* ---------------------------------------------------------------- UDPTL *)
Lemma len_repeat {A} (x : A) n : len (repeat x n) = Z.of_nat n.
Proof. unfold len. rewrite repeat_length. reflexivity. Qed.

Lemma red_loop_fine : forall fuel buf n pos cnt,
  len buf < 2 ^ 62 -> 0 <= pos <= n -> n <= len buf -> n - pos < Z.of_nat fuel ->
  wp (red_loop fuel buf n pos cnt)
     (fun r t a => r <> Panic /\ r <> OutOfFuel /\ 0 <= t <= 6 * (n - pos) + 1 /\ 0 <= a <= 16 * (n - pos)).
Proof.
  induction fuel as [|f IH]; intros buf n pos cnt Hl Hp Hn Hf; [lia|].
  cbn [red_loop]. steps; side.
  use_ih IH.
Qed.

Theorem udptl_parse_fine : forall maxd bs,
  0 <= maxd < 2 ^ 62 ->
  wp (udptl_parse maxd bs) (fine (7 * maxd + 20) (18 * maxd)).
Proof.
  intros maxd bs Hm. unfold udptl_parse.
  set (n := Z.min (len bs) maxd).
  set (buf := take n bs ++ repeat 0 (Z.to_nat (maxd - n))).
  assert (Hn : 0 <= n <= maxd) by (pose proof (len_nonneg bs); lia).
  assert (Hb : len buf = maxd).
  { unfold buf. rewrite len_app, len_repeat, len_take by lia. lia. }
  clearbody buf. clearbody n. consts. steps; try fine_done.
  call red_loop_fine; steps; fine_done.
Qed.

Theorem udptl_recv_fine : forall maxd bs,
  0 <= maxd < 2 ^ 62 -> wp (udptl_recv maxd bs) (fine (7 * maxd + 21) (18 * maxd)).
Proof.
  intros maxd bs Hm. unfold udptl_recv. steps.
  eapply wp_weaken; [apply udptl_parse_fine; assumption|]. cbv beta. unfold fine.
  intros [[[[? ?] ?]|]|?| | ] ? ? (?&?&?&?); try congruence; steps; fine_done.
Qed.
