(* C07 -- totality, termination and cost of the SCTP walkers / readers and DCEP unmarshal. *)
From Coq Require Import ZArith List Lia Bool.
From RV Require Import Lib.Wrap Gen.Consts Gen.C07Consts Model.PanicLib Model.Dec_Sctp.
Import ListNotations.
Open Scope Z_scope.
Open Scope pm_scope.

Ltac consts := unfold SCTP_COMMON_HEADER_SIZE, CHUNK_HEADER_SIZE, SCTP_PAD, SCTP_INIT_FIXED, SCTP_INITACK_FIXED,
  SCTP_PARAM_HDR, SCTP_PARAM_MIN, SCTP_SACK_FIXED, SCTP_GAP_SIZE, SCTP_FWD_FIXED, SCTP_FWD_PAIR,
  SCTP_RECONF_HDR, SCTP_RECONF_MIN, SCTP_RESET_FIXED, SCTP_RESET_SID, SCTP_DATA_FIXED, SCTP_DATA_TSN_SKIP,
  DCEP_OPEN_MIN in *.

Ltac steps := repeat (first [ progress cbv beta iota zeta | wp_step ]).
Ltac side := try (lazymatch goal with |- wp _ _ => fail | _ => repeat split; try discriminate; lens end).
(* use a lemma about a sub-computation whose postcondition is a 4-conjunction *)
Ltac call L :=
  eapply wp_weaken; [apply L; try (unfold len in *; lia); lens
                    | cbv beta; intros [?|?| | ] ? ? (?&?&?&?); try congruence;
                      [ | try solve [fine_done | repeat split; try discriminate; lens] ] ].

Ltac use_ih IH := eapply wp_weaken; [apply IH; lens | cbv beta; intros ? ? ? (?&?&?&?); repeat split; auto; lens].

Lemma pad_of_range n : 0 <= pad_of n <= 3.
Proof. unfold pad_of, SCTP_PAD. pose proof (Z.mod_pos_bound (4 - n mod 4) 4 ltac:(lia)). lia. Qed.

Lemma wp_skip_padding n c (Q : res bytes -> Z -> Z -> Prop) :
  (forall c' t, 0 <= t <= 1 -> len c' <= len c -> Q (Ok c') t 0) -> wp (skip_padding n c) Q.
Proof.
  intros K. unfold skip_padding. pose proof (pad_of_range n).
  wp_step.
  - wp_step. apply K; lens.
  - wp_step. apply K; lens.
Qed.
Ltac pad_step := lazymatch goal with |- wp (skip_padding _ _) _ => apply wp_skip_padding; intros ? ? ? ? end.
Ltac steps' := repeat (first [ progress cbv beta iota zeta | wp_step | pad_step ]).

(* ---------------------------------------------------------------- chunk walker *)
Lemma chunk_walk_fine : forall fuel buf acc,
  len buf < Z.of_nat fuel ->
  wp (chunk_walk fuel buf acc) (fun r t a => r <> Panic /\ r <> OutOfFuel /\ 0 <= t <= 2 * len buf + 1 /\ 0 <= a <= 0).
Proof.
  induction fuel as [|f IH]; intros buf acc Hf; [lens|].
  cbn [chunk_walk]. consts. steps'; side.
  use_ih IH.
Qed.

Theorem sctp_packet_fine : forall ok bs, wp (sctp_packet ok bs) (fine (3 * len bs + 10) 0).
Proof.
  intros ok bs. unfold sctp_packet. consts. steps; try fine_done.
  call chunk_walk_fine; fine_done.
Qed.

(* ---------------------------------------------------------------- INIT / INIT-ACK *)
Lemma init_fixed_fine : forall c, 16 <= len c ->
  wp (init_fixed c) (fun r t a => r <> Panic /\ r <> OutOfFuel /\ 0 <= t <= 5 /\ 0 <= a <= 0 /\
                                  forall x, r = Ok x -> len (snd x) = len c - 16).
Proof.
  intros c H. unfold init_fixed. steps.
  split; [discriminate|]. split; [discriminate|]. split; [lia|]. split; [lia|].
  intros x [= <-]. cbn [snd]. lens.
Qed.

Theorem handle_init_fine : forall bs, wp (handle_init bs) (fine 6 0).
Proof.
  intros bs. unfold handle_init. consts. steps; try fine_done.
  eapply wp_weaken; [apply init_fixed_fine; lens|]. cbv beta. intros [[[[? ?] ?] ?]|?| | ] ? ? (?&?&?&?&?); try congruence.
  all: steps; fine_done.
Qed.

Lemma param_walk_fine : forall fuel buf ck,
  len buf < Z.of_nat fuel ->
  wp (param_walk fuel buf ck) (fun r t a => r <> Panic /\ r <> OutOfFuel /\ 0 <= t <= 2 * len buf + 1 /\ 0 <= a <= 0).
Proof.
  induction fuel as [|f IH]; intros buf ck Hf; [lens|].
  cbn [param_walk]. consts. steps'; side.
  use_ih IH.
Qed.

Theorem handle_init_ack_fine : forall bs, wp (handle_init_ack bs) (fine (2 * len bs + 10) 0).
Proof.
  intros bs. unfold handle_init_ack. consts. steps; try fine_done.
  eapply wp_weaken; [apply init_fixed_fine; lens|]. cbv beta. intros [[[[? ?] ?] c]|?| | ] ? ? (?&?&?&?&Hl); try congruence.
  2: fine_done.
  specialize (Hl _ eq_refl). cbn in Hl. steps.
  call param_walk_fine; fine_done.
Qed.

(* ---------------------------------------------------------------- SACK / FORWARD-TSN *)
Lemma gap_loop_fine : forall fuel n buf acc,
  len buf < Z.of_nat fuel ->
  wp (gap_loop fuel n buf acc) (fun r t a => r <> Panic /\ r <> OutOfFuel /\ 0 <= t <= len buf + 1 /\ 0 <= a <= len buf).
Proof.
  induction fuel as [|f IH]; intros n buf acc Hf; [lens|].
  cbn [gap_loop]. consts. steps; side.
  use_ih IH.
Qed.

Theorem handle_sack_fine : forall bs, wp (handle_sack bs) (fine (len bs + 10) (len bs)).
Proof. intros bs. unfold handle_sack. consts. steps; try fine_done. call gap_loop_fine; steps; fine_done. Qed.

Lemma pair_loop_fine : forall fuel buf acc,
  len buf < Z.of_nat fuel ->
  wp (pair_loop fuel buf acc) (fun r t a => r <> Panic /\ r <> OutOfFuel /\ 0 <= t <= len buf + 1 /\ 0 <= a <= len buf).
Proof.
  induction fuel as [|f IH]; intros buf acc Hf; [lens|].
  cbn [pair_loop]. consts. steps; side.
  use_ih IH.
Qed.

Theorem handle_forward_tsn_fine : forall old bs, wp (handle_forward_tsn old bs) (fine (len bs + 10) (len bs)).
Proof. intros old bs. unfold handle_forward_tsn. consts. steps; try fine_done. call pair_loop_fine; steps; fine_done. Qed.

(* ---------------------------------------------------------------- RECONFIG *)
Lemma sid_loop_fine : forall fuel buf acc,
  len buf < Z.of_nat fuel ->
  wp (sid_loop fuel buf acc) (fun r t a => r <> Panic /\ r <> OutOfFuel /\ 0 <= t <= len buf + 1 /\ 0 <= a <= len buf).
Proof.
  induction fuel as [|f IH]; intros buf acc Hf; [lens|].
  cbn [sid_loop]. consts. steps; side.
  use_ih IH.
Qed.

Lemma ssn_reset_fine : forall last buf,
  wp (ssn_reset last buf) (fun r t a => r <> Panic /\ r <> OutOfFuel /\ 0 <= t <= len buf + 5 /\ 0 <= a <= len buf).
Proof.
  intros last buf. unfold ssn_reset. consts. steps; side.
  call sid_loop_fine; steps; side.
Qed.

Lemma reconfig_response_fine : forall buf,
  wp (reconfig_response buf) (fun r t a => r <> Panic /\ r <> OutOfFuel /\ 0 <= t <= 2 /\ 0 <= a <= 0).
Proof. intros buf. unfold reconfig_response. steps; side. Qed.

Lemma reconfig_walk_fine : forall fuel buf last acc,
  len buf < Z.of_nat fuel ->
  wp (reconfig_walk fuel buf last acc)
     (fun r t a => r <> Panic /\ r <> OutOfFuel /\ 0 <= t <= 4 * len buf + 1 /\ 0 <= a <= len buf).
Proof.
  induction fuel as [|f IH]; intros buf last acc Hf; [lens|].
  cbn [reconfig_walk]. consts. steps'; side.
  - call ssn_reset_fine. steps.
    match goal with |- wp (let '(_, _) := ?p in _) _ => destruct p end.
    use_ih IH.
  - call reconfig_response_fine. steps.
    use_ih IH.
  - use_ih IH.
Qed.

Theorem handle_reconfig_fine : forall last bs, wp (handle_reconfig last bs) (fine (4 * len bs + 1) (len bs)).
Proof. intros last bs. unfold handle_reconfig. call reconfig_walk_fine; fine_done. Qed.

(* ---------------------------------------------------------------- DCEP *)
Lemma from_utf8_fine : forall b (Q : res bytes -> Z -> Z -> Prop),
  (forall r, r <> Panic -> r <> OutOfFuel -> (forall x, r = Ok x -> x = b) -> Q r (1 + len b) 0) -> wp (from_utf8 b) Q.
Proof.
  intros b Q K. unfold from_utf8. destruct (utf8_valid _); apply wp_mk; apply K; try discriminate.
  intros x [= <-]. reflexivity.
Qed.

Theorem dcep_open_fine : forall bs, wp (dcep_open_unmarshal bs) (fine (3 * len bs + 20) (2 * len bs)).
Proof.
  intros bs. unfold dcep_open_unmarshal. consts. steps; try fine_done.
  apply from_utf8_fine. intros [x| ? | | ] ? ? Hx; try congruence; [|fine_done].
  specialize (Hx _ eq_refl). subst x. steps.
  apply from_utf8_fine. intros [x| ? | | ] ? ? Hx; try congruence; [|fine_done].
  steps. fine_done.
Qed.

Theorem dcep_ack_fine : forall bs, wp (dcep_ack_unmarshal bs) (fine 2 0).
Proof. intros bs. unfold dcep_ack_unmarshal. steps; try fine_done. Qed.

Theorem handle_dcep_fine : forall bs, wp (handle_dcep bs) (fine (3 * len bs + 22) (2 * len bs)).
Proof.
  intros bs. unfold handle_dcep. steps; try fine_done.
  eapply wp_weaken; [apply dcep_open_fine|]. cbv beta. unfold fine. intros [?|?| | ] ? ? (?&?&?&?); try congruence; steps; fine_done.
Qed.

Theorem data_chunk_dcep_fine : forall bs, wp (data_chunk_dcep bs) (fine (3 * len bs + 30) (2 * len bs)).
Proof.
  intros bs. unfold data_chunk_dcep. consts. steps; try fine_done.
  eapply wp_weaken; [apply handle_dcep_fine|]. cbv beta. unfold fine. intros [?|?| | ] ? ? (?&?&?&?); try congruence; steps; fine_done.
Qed.

(* the walkers make progress: a length field of 0 stops the walk instead of spinning *)
Example chunk_walk_zero_length : val (chunk_walk 5 [4; 0; 0; 0; 9; 9; 9; 9] []) = Ok [].
Proof. vm_compute. reflexivity. Qed.
Example param_walk_zero_length : val (param_walk 5 [0; 7; 0; 0; 9; 9; 9; 9] None) = Ok None.
Proof. vm_compute. reflexivity. Qed.
Example chunk_walk_example :
  val (chunk_walk 20 [4; 0; 0; 5; 77; 0; 0; 0; 7; 0; 0; 4] []) = Ok [(4, 0, [77]); (7, 0, [])].
Proof. vm_compute. reflexivity. Qed.
