(* C19 (part 1) -- proofs about Model/Demux.v *)
From Coq Require Import ZArith List Bool Lia Sorted.
From RV Require Import Lib.Wrap.
From RV Require Import Gen.RtpDemux.
From RV Require Import Model.Demux.
Import ListNotations.
Open Scope Z_scope.
Open Scope bool_scope.

(* ------------------------------------------------------------------ basic list / map facts *)
Lemma key_eqb_eq : forall a b, key_eqb a b = true <-> a = b.
Proof.
  induction a as [|x a IH]; destruct b as [|y b]; cbn [key_eqb]; split; intro H; try discriminate; auto.
  - apply andb_true_iff in H. destruct H as [H1 H2]. apply Z.eqb_eq in H1. apply IH in H2. subst. reflexivity.
  - inversion H; subst. apply andb_true_iff. split. apply Z.eqb_refl. apply IH. reflexivity.
Qed.

Lemma key_eqb_refl : forall a, key_eqb a a = true.
Proof. intro a. apply key_eqb_eq. reflexivity. Qed.

Lemma zget_In : forall m k l, zget m k = Some l -> In (k, l) m.
Proof.
  unfold zget. intros m k l H.
  destruct (find (fun e => fst e =? k) m) as [[k' l']|] eqn:F; cbn in H; [|discriminate].
  inversion H; subst. apply find_some in F. destruct F as [Hin Hk]. cbn in Hk. apply Z.eqb_eq in Hk. subst. exact Hin.
Qed.

Lemma kget_In : forall m k l, kget m k = Some l -> In (k, l) m.
Proof.
  unfold kget. intros m k l H.
  destruct (find (fun e => key_eqb (fst e) k) m) as [[k' l']|] eqn:F; cbn in H; [|discriminate].
  inversion H; subst. apply find_some in F. destruct F as [Hin Hk]. cbn in Hk. apply key_eqb_eq in Hk. subst. exact Hin.
Qed.

Lemma zget_None_notin : forall m k l, zget m k = None -> ~ In (k, l) m.
Proof.
  unfold zget. intros m k l H Hin.
  destruct (find (fun e => fst e =? k) m) eqn:F; cbn in H; [discriminate|].
  eapply find_none in F; [|exact Hin]. cbn in F. rewrite Z.eqb_refl in F. discriminate.
Qed.

Lemma In_zput : forall m k v x l, In (x, l) (zput m k v) -> (x = k /\ l = v) \/ In (x, l) m.
Proof.
  unfold zput, zdel. intros m k v x l [H|H].
  - inversion H; subst. left; auto.
  - apply filter_In in H. right. tauto.
Qed.

Lemma In_kput : forall m k v x l, In (x, l) (kput m k v) -> (x = k /\ l = v) \/ In (x, l) m.
Proof.
  unfold kput, kdel. intros m k v x l [H|H].
  - inversion H; subst. left; auto.
  - apply filter_In in H. right. tauto.
Qed.

Lemma zget_zput_same : forall m k v, zget (zput m k v) k = Some v.
Proof. intros. unfold zget, zput. cbn. rewrite Z.eqb_refl. reflexivity. Qed.

Lemma kget_kput_same : forall m k v, kget (kput m k v) k = Some v.
Proof. intros. unfold kget, kput. cbn. rewrite key_eqb_refl. reflexivity. Qed.

Lemma In_keep_open : forall (K : Set) s (m : list (K * lid)) e, In e (keep_open s m) -> In e m.
Proof. intros K s m e H. apply filter_In in H. tauto. Qed.

Lemma In_drop_tx : forall (K : Set) l (m : list (K * lid)) e, In e (drop_tx l m) -> In e m.
Proof. intros K l m e H. apply filter_In in H. tauto. Qed.

Lemma existsb_snd_In : forall (K : Set) (m : list (K * lid)) k l, In (k, l) m -> existsb (fun e => snd e =? l) m = true.
Proof. intros K m k l H. apply existsb_exists. exists (k, l). split; auto. cbn. apply Z.eqb_refl. Qed.

Lemma existsb_filter_false : forall (A : Type) (f : A -> bool) (m : list A),
  existsb f (filter (fun e => negb (f e)) m) = false.
Proof.
  intros A f m. induction m as [|a m IH]; cbn; auto.
  destruct (f a) eqn:E; cbn; auto. rewrite E. exact IH.
Qed.

Lemma existsb_filter_mono : forall (A : Type) (f g : A -> bool) (m : list A),
  existsb f m = false -> existsb f (filter g m) = false.
Proof.
  intros A f g m. induction m as [|a m IH]; cbn; auto.
  intro H. apply orb_false_iff in H. destruct H as [H1 H2].
  destruct (g a); cbn; auto. rewrite H1. auto.
Qed.

Lemma existsb_app_false : forall (A : Type) (f : A -> bool) (a b : list A),
  existsb f a = false -> existsb f b = false -> existsb f (a ++ b) = false.
Proof. intros. rewrite existsb_app. rewrite H, H0. reflexivity. Qed.

(* ------------------------------------------------------------------ unique_by_pt / single_provisional *)
Definition uniq_listener (want : route -> bool) (rs : list route) (l : lid) : Prop :=
  (exists r, In r rs /\ want r = true /\ r_tx r = l) /\
  (forall r, In r rs -> want r = true -> r_tx r = l).

Lemma scan_some_iff : forall want rs e l,
  scan_unique want (Some e) rs = Some l <-> l = e /\ (forall r, In r rs -> want r = true -> r_tx r = e).
Proof.
  intros want rs. induction rs as [|r rs IH]; intros e l; cbn [scan_unique].
  - split.
    + intro H. inversion H; subst. split; auto. intros r [].
    + intros [H _]. subst. reflexivity.
  - destruct (want r) eqn:W.
    + destruct (e =? r_tx r) eqn:E.
      * apply Z.eqb_eq in E. rewrite IH. split.
        -- intros [H1 H2]. split; auto. intros r' [Hr|Hr] Hw; subst; auto.
        -- intros [H1 H2]. split; auto. intros r' Hr Hw. apply H2; auto. right; auto.
      * apply Z.eqb_neq in E. split; [discriminate|].
        intros [_ H2]. exfalso. apply E. symmetry. apply H2; auto. left; auto.
    + rewrite IH. split.
      * intros [H1 H2]. split; auto. intros r' [Hr|Hr] Hw; subst; auto. rewrite W in Hw. discriminate.
      * intros [H1 H2]. split; auto. intros r' Hr Hw. apply H2; auto. right; auto.
Qed.

Lemma scan_unique_spec : forall want rs l,
  scan_unique want None rs = Some l <-> uniq_listener want rs l.
Proof.
  intros want rs. induction rs as [|r rs IH]; intro l; cbn [scan_unique]; unfold uniq_listener in *.
  - split; [discriminate|]. intros [[r [[] _]] _].
  - destruct (want r) eqn:W.
    + rewrite scan_some_iff. split.
      * intros [H1 H2]. subst. split.
        -- exists r. split; [left; auto|]. auto.
        -- intros r' [Hr|Hr] Hw; subst; auto.
      * intros [_ H2]. split.
        -- symmetry. apply H2; auto. left; auto.
        -- intros r' Hr Hw. rewrite (H2 r' (or_intror Hr) Hw). symmetry. apply H2; auto. left; auto.
    + rewrite IH. split.
      * intros [[r' [Hr [Hw Ht]]] H2]. split.
        -- exists r'. split; [right; auto|]. auto.
        -- intros r'' [Hr'|Hr'] Hw'; subst; auto. rewrite W in Hw'. discriminate.
      * intros [[r' [Hr [Hw Ht]]] H2]. split.
        -- destruct Hr as [Hr|Hr]; [subst; rewrite W in Hw; discriminate|]. exists r'. auto.
        -- intros r'' Hr' Hw'. apply H2; auto. right; auto.
Qed.

Lemma scan_unique_none : forall want rs,
  scan_unique want None rs = None <-> (forall l, ~ uniq_listener want rs l).
Proof.
  intros want rs. split.
  - intros H l Hu. apply scan_unique_spec in Hu. congruence.
  - intro H. destruct (scan_unique want None rs) as [l|] eqn:E; auto.
    apply scan_unique_spec in E. exfalso. eapply H. exact E.
Qed.

(* two matching routes on different channels: no unique listener *)
Lemma two_routes_not_unique : forall want rs r1 r2,
  In r1 rs -> In r2 rs -> want r1 = true -> want r2 = true -> r_tx r1 <> r_tx r2 ->
  forall l, ~ uniq_listener want rs l.
Proof.
  intros want rs r1 r2 H1 H2 W1 W2 Hne l [_ Hall].
  apply Hne. rewrite (Hall r1 H1 W1), (Hall r2 H2 W2). reflexivity.
Qed.

(* no matching route at all: no unique listener *)
Lemma no_route_not_unique : forall want rs,
  (forall r, In r rs -> want r = false) -> forall l, ~ uniq_listener want rs l.
Proof. intros want rs H l [[r [Hr [Hw _]]] _]. rewrite (H r Hr) in Hw. discriminate. Qed.

Lemma uniq_listener_occurs : forall want rs l,
  uniq_listener want rs l -> existsb (fun r => r_tx r =? l) rs = true.
Proof.
  intros want rs l [[r [Hr [_ Ht]]] _]. apply existsb_exists. exists r. split; auto. subst. apply Z.eqb_refl.
Qed.

(* ------------------------------------------------------------------ selection: priority order *)
Definition rid_match (s : st) (p : pkt) : option lid := lookup_stage s p StRid.
Definition mid_match (s : st) (p : pkt) : option lid := lookup_stage s p StMid.
Definition ssrc_match (s : st) (p : pkt) : option lid := lookup_stage s p StSsrc.
Definition has_pt (pt : Z) (r : route) : bool := contains (r_pts r) pt.
Definition pt_unique (s : st) (p : pkt) (l : lid) : Prop := uniq_listener (has_pt (p_pt p)) (routes s) l.
Definition prov_unique (s : st) (l : lid) : Prop := uniq_listener r_prov (routes s) l.

(* which stages bind the packet's SSRC to the selected listener (written from the property text;
   must agree with the flags regenerated from the source, see select_unfold) *)
Definition stage_binds (g : stage) : bool :=
  match g with StRid | StMid | StPt => true | StSsrc | StProv => false end.

Inductive chosen (s : st) (p : pkt) : lid -> stage -> Prop :=
| ch_rid l : rid_match s p = Some l -> chosen s p l StRid
| ch_mid l : rid_match s p = None -> mid_match s p = Some l -> chosen s p l StMid
| ch_ssrc l : rid_match s p = None -> mid_match s p = None -> ssrc_match s p = Some l -> chosen s p l StSsrc
| ch_pt l : rid_match s p = None -> mid_match s p = None -> ssrc_match s p = None ->
            pt_unique s p l -> chosen s p l StPt
| ch_prov l : rid_match s p = None -> mid_match s p = None -> ssrc_match s p = None ->
              (forall l', ~ pt_unique s p l') -> prov_unique s l -> chosen s p l StProv.

Lemma select_unfold : forall s p,
  select_raw s p =
  match rid_match s p with Some l => Some (l, StRid, true) | None =>
  match mid_match s p with Some l => Some (l, StMid, true) | None =>
  match ssrc_match s p with Some l => Some (l, StSsrc, false) | None =>
  match unique_by_pt (routes s) (p_pt p) with Some l => Some (l, StPt, true) | None =>
  match single_provisional (routes s) with Some l => Some (l, StProv, false) | None => None
  end end end end end.
Proof. intros s p. reflexivity. Qed.

Lemma select_raw_priority : forall s p l g b,
  select_raw s p = Some (l, g, b) <-> chosen s p l g /\ b = stage_binds g.
Proof.
  intros s p l g b. rewrite select_unfold.
  destruct (rid_match s p) as [l1|] eqn:R.
  { split.
    - intro H. inversion H; subst. split; [constructor; auto|reflexivity].
    - intros [C Hb]. inversion C; subst; cbn [stage_binds]; congruence. }
  destruct (mid_match s p) as [l2|] eqn:M.
  { split.
    - intro H. inversion H; subst. split; [constructor; auto|reflexivity].
    - intros [C Hb]. inversion C; subst; cbn [stage_binds]; congruence. }
  destruct (ssrc_match s p) as [l3|] eqn:S.
  { split.
    - intro H. inversion H; subst. split; [constructor; auto|reflexivity].
    - intros [C Hb]. inversion C; subst; cbn [stage_binds]; congruence. }
  destruct (unique_by_pt (routes s) (p_pt p)) as [l4|] eqn:U.
  { apply scan_unique_spec in U. split.
    - intro H. inversion H; subst. split; [apply ch_pt; auto|reflexivity].
    - intros [C Hb]. inversion C; subst; cbn [stage_binds]; try congruence.
      + f_equal. f_equal. f_equal. unfold pt_unique in *.
        destruct U as [[r [Hr [Hw Ht]]] _]. destruct H2 as [_ Hall]. rewrite <- Ht. apply Hall; auto.
      + exfalso. eapply H2. exact U. }
  pose proof U as U'. unfold unique_by_pt in U'. rewrite scan_unique_none in U'.
  destruct (single_provisional (routes s)) as [l5|] eqn:V.
  { apply scan_unique_spec in V. split.
    - intro H. inversion H; subst. split; [apply ch_prov; auto|reflexivity].
    - intros [C Hb]. inversion C; subst; cbn [stage_binds]; try congruence.
      + exfalso. eapply U'. exact H2.
      + f_equal. f_equal. f_equal. unfold prov_unique in *.
        destruct V as [[r [Hr [Hw Ht]]] _]. destruct H3 as [_ Hall]. rewrite <- Ht. apply Hall; auto. }
  unfold single_provisional in V. rewrite scan_unique_none in V.
  split; [discriminate|].
  intros [C _]. inversion C; subst; try congruence.
  - exfalso. eapply U'. exact H2.
  - exfalso. eapply V. exact H3.
Qed.

Lemma select_raw_none : forall s p,
  select_raw s p = None <->
  rid_match s p = None /\ mid_match s p = None /\ ssrc_match s p = None /\
  (forall l, ~ pt_unique s p l) /\ (forall l, ~ prov_unique s l).
Proof.
  intros s p. rewrite select_unfold.
  destruct (rid_match s p); [split; [discriminate|intros [H _]; discriminate]|].
  destruct (mid_match s p); [split; [discriminate|intros [_ [H _]]; discriminate]|].
  destruct (ssrc_match s p); [split; [discriminate|intros [_ [_ [H _]]]; discriminate]|].
  destruct (unique_by_pt (routes s) (p_pt p)) as [l4|] eqn:U.
  { split; [discriminate|]. intros [_ [_ [_ [H _]]]]. apply scan_unique_spec in U. exfalso. eapply H. exact U. }
  unfold unique_by_pt in U. rewrite scan_unique_none in U.
  destruct (single_provisional (routes s)) as [l5|] eqn:V.
  { split; [discriminate|]. intros [_ [_ [_ [_ H]]]]. apply scan_unique_spec in V. exfalso. eapply H. exact V. }
  unfold single_provisional in V. rewrite scan_unique_none in V.
  split; auto.
Qed.

(* the MID guard on top of the raw order: a hit of a non-extension stage on a listener that
   registered for another MID than the packet carries is discarded *)
Lemma select_priority : forall s p l g b,
  select s p = Some (l, g, b) <-> chosen s p l g /\ b = stage_binds g /\ foreign s p l g = false.
Proof.
  intros s p l g b. unfold select. split.
  - destruct (select_raw s p) as [[[l' g'] b']|] eqn:R; [|discriminate].
    destruct (foreign s p l' g') eqn:F; [discriminate|]. intro H. inversion H; subst.
    apply select_raw_priority in R. tauto.
  - intros [C [Hb F]]. assert (R : select_raw s p = Some (l, g, b)) by (apply select_raw_priority; auto).
    rewrite R, F. reflexivity.
Qed.

Lemma select_none : forall s p,
  select s p = None <->
  (rid_match s p = None /\ mid_match s p = None /\ ssrc_match s p = None /\
   (forall l, ~ pt_unique s p l) /\ (forall l, ~ prov_unique s l))
  \/ (exists l g, chosen s p l g /\ foreign s p l g = true).
Proof.
  intros s p. unfold select. destruct (select_raw s p) as [[[l g] b]|] eqn:R.
  - pose proof R as R'. apply select_raw_priority in R'. destruct R' as [C Hb].
    destruct (foreign s p l g) eqn:F.
    + split; auto. intros _. right. exists l, g. auto.
    + split; [discriminate|]. intros [H|[l' [g' [C' F']]]].
      * apply select_raw_none in H. congruence.
      * assert (R2 : select_raw s p = Some (l', g', stage_binds g')) by (apply select_raw_priority; auto).
        rewrite R in R2. inversion R2; subst. congruence.
  - split; auto. intros _. left. apply select_raw_none. exact R.
Qed.

Lemma select_sub_raw : forall s p l g b, select s p = Some (l, g, b) -> select_raw s p = Some (l, g, b).
Proof. intros s p l g b H. apply select_priority in H. apply select_raw_priority. tauto. Qed.

(* the selected listener is registered somewhere *)
Lemma chosen_occurs : forall s p l g, chosen s p l g -> occurs s l = true.
Proof.
  intros s p l g C. unfold occurs.
  inversion C; subst.
  - unfold rid_match, lookup_stage in H. destruct (pkt_rid s p); [|discriminate].
    apply kget_In in H. erewrite (existsb_snd_In key (by_rid s)); eauto. rewrite orb_true_r. reflexivity.
  - unfold mid_match, lookup_stage in H0. destruct (pkt_mid s p); [|discriminate].
    apply kget_In in H0. erewrite (existsb_snd_In key (by_mid s)); eauto. rewrite !orb_true_r. reflexivity.
  - unfold ssrc_match, lookup_stage in H1. apply zget_In in H1.
    erewrite (existsb_snd_In Z (by_ssrc s)); eauto.
  - apply uniq_listener_occurs in H2. rewrite H2. rewrite !orb_true_r. reflexivity.
  - apply uniq_listener_occurs in H3. rewrite H3. rewrite !orb_true_r. reflexivity.
Qed.

Lemma select_occurs : forall s p l g b, select s p = Some (l, g, b) -> occurs s l = true.
Proof. intros s p l g b H. apply select_priority in H. destruct H as [C _]. eapply chosen_occurs; eauto. Qed.

(* ------------------------------------------------------------------ at most one receiver *)
Lemma recv_at_most_one : forall s p, (length (snd (recv s p)) <= 1)%nat.
Proof.
  intros s p. unfold recv. destruct (select s p) as [[[l g] b]|]; cbn; auto.
  destruct (is_closed _ l); cbn; auto. destruct (is_full _ l); cbn; auto.
Qed.

Lemma step_at_most_one : forall s o, (length (snd (step s o)) <= 1)%nat.
Proof. intros s o. destruct o; cbn [step snd length]; auto. apply recv_at_most_one. Qed.

Lemma run_at_most_one : forall ops s, Forall (fun d => (length d <= 1)%nat) (run_out s ops).
Proof.
  induction ops as [|o ops IH]; intro s; cbn [run_out]; constructor; auto. apply step_at_most_one.
Qed.

(* the receiver is the selected listener, and only if its channel is open and has room *)
Lemma is_closed_bind : forall s x l l', is_closed (bind_ssrc_route s x l) l' = is_closed s l'.
Proof. reflexivity. Qed.
Lemma is_full_bind : forall s x l l', is_full (bind_ssrc_route s x l) l' = is_full s l'.
Proof. reflexivity. Qed.

Lemma recv_cases : forall s p l g b,
  select s p = Some (l, g, b) ->
  let s1 := if b then bind_ssrc_route s (p_ssrc p) l else s in
  recv s p =
  if is_closed s l then (remove_sender (set_by_ssrc s1 (zdel (by_ssrc s1) (p_ssrc p))) l, [])
  else if is_full s l then (s1, []) else (s1, [l]).
Proof.
  intros s p l g b S. cbn zeta. unfold recv. rewrite S.
  destruct b; [rewrite is_closed_bind, is_full_bind|]; reflexivity.
Qed.

Lemma recv_delivers : forall s p l,
  In l (snd (recv s p)) ->
  exists g b, select s p = Some (l, g, b) /\ is_closed s l = false /\ is_full s l = false.
Proof.
  intros s p l. destruct (select s p) as [[[l' g] b]|] eqn:S.
  - rewrite (recv_cases s p l' g b S).
    destruct (is_closed s l') eqn:C; cbn [snd]; [intros []|].
    destruct (is_full s l') eqn:F; cbn [snd]; [intros []|].
    intros [H|[]]; subst. eauto.
  - unfold recv. rewrite S. intros [].
Qed.

Lemma recv_open_delivers : forall s p l g b,
  select s p = Some (l, g, b) -> is_closed s l = false -> is_full s l = false -> snd (recv s p) = [l].
Proof. intros s p l g b S C F. rewrite (recv_cases s p l g b S), C, F. reflexivity. Qed.

Lemma recv_closed_drops : forall s p l g b,
  select s p = Some (l, g, b) -> is_closed s l = true -> snd (recv s p) = [].
Proof. intros s p l g b S C. rewrite (recv_cases s p l g b S), C. reflexivity. Qed.

(* a full channel: the packet is dropped -- it goes to nobody else -- and the registry ends up
   exactly as if it had been delivered (selection and SSRC binding already happened) *)
Lemma full_drops : forall s p l g b,
  select s p = Some (l, g, b) -> is_closed s l = false ->
  let s1 := if b then bind_ssrc_route s (p_ssrc p) l else s in
  (is_full s l = true -> recv s p = (s1, [])) /\ (is_full s l = false -> recv s p = (s1, [l])).
Proof.
  intros s p l g b S C. cbn zeta. rewrite (recv_cases s p l g b S), C.
  split; intro F; rewrite F; reflexivity.
Qed.

(* ------------------------------------------------------------------ MID respected *)
Lemma mid_respected : forall s p m l,
  pkt_mid s p = Some m -> kget (by_mid s) m = Some l -> rid_match s p = None ->
  (forall l', In l' (snd (recv s p)) -> l' = l) /\
  (is_closed s l = false -> is_full s l = false -> snd (recv s p) = [l]) /\
  (is_closed s l = true \/ is_full s l = true -> snd (recv s p) = []).
Proof.
  intros s p m l Hm Hk Hr.
  assert (S : select s p = Some (l, StMid, true)).
  { apply select_priority. split; [|split; reflexivity]. apply ch_mid; auto.
    unfold mid_match, lookup_stage. rewrite Hm. exact Hk. }
  split; [|split].
  - intros l' Hin. apply recv_delivers in Hin. destruct Hin as [g [b [S' _]]]. congruence.
  - intros C F. eapply recv_open_delivers; eauto.
  - intros [C|F].
    + eapply recv_closed_drops; eauto.
    + rewrite (recv_cases s p l StMid true S), F. destruct (is_closed s l); reflexivity.
Qed.

(* a packet that names media section m is never handed, by the SSRC map / payload type /
   provisional stages, to a listener whose route was registered for another section *)
Lemma mid_never_foreign : forall s p m l r m',
  pkt_mid s p = Some m -> In l (snd (recv s p)) ->
  In r (routes s) -> r_tx r = l -> r_mid r = Some m' -> m' <> m ->
  exists g b, select s p = Some (l, g, b) /\ (g = StRid \/ g = StMid).
Proof.
  intros s p m l r m' Hm Hin Hr Ht Hrm Hne.
  apply recv_delivers in Hin. destruct Hin as [g [b [S _]]]. exists g, b. split; auto.
  apply select_priority in S. destruct S as [_ [_ F]].
  unfold foreign in F. rewrite Hm in F.
  assert (O : other_mid s l m = true).
  { unfold other_mid. apply existsb_exists. exists r. split; auto. rewrite Ht, Z.eqb_refl, Hrm. cbn.
    destruct (key_eqb m' m) eqn:E; auto. apply key_eqb_eq in E. contradiction. }
  rewrite O in F. destruct g; cbn in F; auto; discriminate.
Qed.

(* ------------------------------------------------------------------ provenance of map entries *)
Lemma closed_with_route : forall s l f, closed (with_route s l f) = closed s.
Proof. intros. unfold with_route. destruct (existsb _ _); reflexivity. Qed.
Lemma by_ssrc_with_route : forall s l f, by_ssrc (with_route s l f) = by_ssrc s.
Proof. intros. unfold with_route. destruct (existsb _ _); reflexivity. Qed.
Lemma by_rid_with_route : forall s l f, by_rid (with_route s l f) = by_rid s.
Proof. intros. unfold with_route. destruct (existsb _ _); reflexivity. Qed.
Lemma by_mid_with_route : forall s l f, by_mid (with_route s l f) = by_mid s.
Proof. intros. unfold with_route. destruct (existsb _ _); reflexivity. Qed.

Lemma by_mid_recv_sub : forall s p e, In e (by_mid (fst (recv s p))) -> In e (by_mid s).
Proof.
  intros s p e. destruct (select s p) as [[[l g] b]|] eqn:S.
  - rewrite (recv_cases s p l g b S).
    destruct (is_closed s l); [|destruct (is_full s l)]; destruct b; cbn; auto;
      intro H; apply In_drop_tx in H; auto.
  - unfold recv. rewrite S. auto.
Qed.

Lemma by_mid_step : forall s o m l,
  In (m, l) (by_mid (fst (step s o))) -> In (m, l) (by_mid s) \/ o = RegMid m l.
Proof.
  intros s o m l. destruct o; cbn [step fst]; intro H.
  - left. exact H.
  - left. exact H.
  - unfold register_mid in H. rewrite by_mid_with_route in H. cbn in H.
    apply In_kput in H. destruct H as [[H1 H2]|H]; subst; auto.
  - unfold register_payload_type in H. rewrite by_mid_with_route in H. auto.
  - unfold register_payload_types in H. rewrite by_mid_with_route in H. auto.
  - unfold register_provisional in H. rewrite by_mid_with_route in H. auto.
  - left. exact H.
  - left. exact H.
  - left. exact H.
  - cbn in H. destruct H.
  - left. exact H.
  - left. exact H.
  - left. cbn [after_recv set_qs by_mid] in H. eapply by_mid_recv_sub; eauto.
Qed.

Lemma by_mid_provenance : forall ops s m l,
  In (m, l) (by_mid (run s ops)) -> In (m, l) (by_mid s) \/ In (RegMid m l) ops.
Proof.
  induction ops as [|o ops IH]; intros s m l H; cbn [run] in H; auto.
  apply IH in H. destruct H as [H|H]; [|right; right; exact H].
  apply by_mid_step in H. destruct H as [H|H]; auto. right. left. auto.
Qed.

Lemma mid_section_registered : forall c ops m l,
  kget (by_mid (run (init_with c) ops)) m = Some l -> In (RegMid m l) ops.
Proof.
  intros c ops m l H. apply kget_In in H. apply by_mid_provenance in H. destruct H as [[]|H]; auto.
Qed.

Lemma register_mid_owner : forall s m l, kget (by_mid (fst (step s (RegMid m l)))) m = Some l.
Proof. intros. cbn. unfold register_mid. rewrite by_mid_with_route. cbn [by_mid set_by_mid]. apply kget_kput_same. Qed.

(* ------------------------------------------------------------------ SSRC bindings only from evidence *)
Definition evidence (g : stage) : Prop := g = StRid \/ g = StMid \/ g = StPt.

Definition binds (s : st) (o : op) (x : Z) (l : lid) : Prop :=
  match o with
  | RegSsrc x' l' => x' = x /\ l' = l
  | Recv p => p_ssrc p = x /\ exists g, select s p = Some (l, g, true) /\ evidence g
  | _ => False
  end.

Lemma select_bind_evidence : forall s p l g, select s p = Some (l, g, true) -> evidence g.
Proof.
  intros s p l g H. apply select_priority in H. destruct H as [_ [Hb _]].
  unfold evidence. destruct g; cbn in Hb; auto; discriminate.
Qed.

Lemma by_ssrc_recv : forall s p x l,
  In (x, l) (by_ssrc (fst (recv s p))) ->
  In (x, l) (by_ssrc s) \/ (p_ssrc p = x /\ exists g, select s p = Some (l, g, true) /\ evidence g).
Proof.
  intros s p x l. destruct (select s p) as [[[l' g] b]|] eqn:S; [|unfold recv; rewrite S; auto].
  rewrite (recv_cases s p l' g b S).
  assert (Hb : In (x, l) (by_ssrc (if b then bind_ssrc_route s (p_ssrc p) l' else s)) ->
               In (x, l) (by_ssrc s) \/ (p_ssrc p = x /\ l' = l /\ b = true)).
  { destruct b; auto. cbn. intro H. apply In_zput in H. destruct H as [[H1 H2]|H]; subst; auto.
    left. eapply In_keep_open; eauto. }
  assert (Fin : In (x, l) (by_ssrc (if b then bind_ssrc_route s (p_ssrc p) l' else s)) ->
                In (x, l) (by_ssrc s) \/
                (p_ssrc p = x /\ exists g0, Some (l', g, b) = Some (l, g0, true) /\ evidence g0)).
  { intro H. apply Hb in H. destruct H as [H|[H1 [H2 H3]]]; auto. subst. right. split; auto.
    exists g. split; auto. eapply select_bind_evidence; eauto. }
  destruct (is_closed s l'); [|destruct (is_full s l'); cbn [fst]; exact Fin].
  cbn [fst remove_sender by_ssrc set_by_ssrc]. intro H. apply In_drop_tx in H. unfold zdel in H.
  apply filter_In in H. destruct H as [H _]. apply Fin. exact H.
Qed.

Lemma by_ssrc_step : forall s o x l,
  In (x, l) (by_ssrc (fst (step s o))) -> In (x, l) (by_ssrc s) \/ binds s o x l.
Proof.
  intros s o x l. destruct o; cbn [step fst binds]; intro H.
  - cbn in H. apply In_zput in H. destruct H as [[H1 H2]|H]; subst; auto. left. eapply In_keep_open; eauto.
  - left. exact H.
  - unfold register_mid in H. rewrite by_ssrc_with_route in H. left. exact H.
  - unfold register_payload_type in H. rewrite by_ssrc_with_route in H. auto.
  - unfold register_payload_types in H. rewrite by_ssrc_with_route in H. auto.
  - unfold register_provisional in H. rewrite by_ssrc_with_route in H. auto.
  - left. exact H.
  - left. exact H.
  - left. exact H.
  - cbn in H. destruct H.
  - left. exact H.
  - left. exact H.
  - cbn [after_recv set_qs by_ssrc] in H. apply by_ssrc_recv. exact H.
Qed.

Lemma binding_sound : forall ops s x l,
  In (x, l) (by_ssrc (run s ops)) ->
  In (x, l) (by_ssrc s) \/ exists pre o post, ops = pre ++ o :: post /\ binds (run s pre) o x l.
Proof.
  induction ops as [|o ops IH]; intros s x l H; cbn [run] in H; auto.
  apply IH in H. destruct H as [H|[pre [o' [post [E B]]]]].
  - apply by_ssrc_step in H. destruct H as [H|H]; auto.
    right. exists [], o, ops. split; auto.
  - right. exists (o :: pre), o', post. split; [cbn; rewrite E; reflexivity|]. exact B.
Qed.

Lemma binding_sound_init : forall c ops x l,
  zget (by_ssrc (run (init_with c) ops)) x = Some l ->
  exists pre o post, ops = pre ++ o :: post /\ binds (run (init_with c) pre) o x l.
Proof. intros c ops x l H. apply zget_In in H. apply binding_sound in H. destruct H as [[]|H]; auto. Qed.

(* a packet routed by the SSRC map or by the provisional fallback never adds a binding *)
Lemma fallback_never_binds : forall s p l g b,
  select s p = Some (l, g, b) -> g = StSsrc \/ g = StProv ->
  b = false /\ forall e, In e (by_ssrc (fst (recv s p))) -> In e (by_ssrc s).
Proof.
  intros s p l g b S Hg.
  assert (Hb : b = false).
  { apply select_priority in S. destruct S as [_ [Hb _]]. destruct Hg; subst; reflexivity. }
  split; auto. subst b. intros [x l0] Hin. apply by_ssrc_recv in Hin. destruct Hin as [H|[_ [g' [S' _]]]]; auto.
  rewrite S in S'. discriminate.
Qed.

(* ------------------------------------------------------------------ closed listeners *)
Lemma closed_recv : forall s p, closed (fst (recv s p)) = closed s.
Proof.
  intros s p. destruct (select s p) as [[[l g] b]|] eqn:S; [|unfold recv; rewrite S; reflexivity].
  rewrite (recv_cases s p l g b S).
  destruct (is_closed s l); [|destruct (is_full s l)]; destruct b; reflexivity.
Qed.

Lemma is_closed_step_mono : forall s o l, is_closed s l = true -> is_closed (fst (step s o)) l = true.
Proof.
  intros s o l H.
  assert (G : forall s', (forall x, In x (closed s) -> In x (closed s')) -> is_closed s' l = true).
  { intros s' Hsub. unfold is_closed in *. apply existsb_exists in H. destruct H as [x [Hx E]].
    apply existsb_exists. exists x. auto. }
  apply G. destruct o; cbn [step fst]; intros x Hx.
  - exact Hx.
  - exact Hx.
  - unfold register_mid. rewrite closed_with_route. exact Hx.
  - unfold register_payload_type. rewrite closed_with_route. exact Hx.
  - unfold register_payload_types. rewrite closed_with_route. exact Hx.
  - unfold register_provisional. rewrite closed_with_route. exact Hx.
  - exact Hx.
  - exact Hx.
  - cbn. right. exact Hx.
  - exact Hx.
  - exact Hx.
  - exact Hx.
  - cbn [after_recv set_qs closed]. rewrite closed_recv. exact Hx.
Qed.

Lemma closed_never_receives_step : forall s o l, is_closed s l = true -> ~ In l (snd (step s o)).
Proof.
  intros s o l C Hin. destruct o; cbn [step snd] in Hin; try (destruct Hin; fail).
  apply recv_delivers in Hin. destruct Hin as [g [b [_ [C' _]]]]. congruence.
Qed.

Lemma closed_never_receives : forall ops s l, is_closed s l = true -> ~ In l (concat (run_out s ops)).
Proof.
  induction ops as [|o ops IH]; intros s l C; cbn [run_out concat]; [tauto|].
  intro Hin. apply in_app_or in Hin. destruct Hin as [Hin|Hin].
  - eapply closed_never_receives_step; eauto.
  - eapply IH; [|exact Hin]. apply is_closed_step_mono. exact C.
Qed.

Lemma occurs_remove_sender : forall s l, occurs (remove_sender s l) l = false.
Proof.
  intros s l. unfold occurs, remove_sender, drop_tx. cbn [by_ssrc by_rid by_mid routes].
  rewrite (existsb_filter_false _ (fun e : Z * lid => snd e =? l)).
  rewrite (existsb_filter_false _ (fun e : key * lid => snd e =? l)).
  rewrite (existsb_filter_false _ (fun e : key * lid => snd e =? l)).
  rewrite (existsb_filter_false _ (fun r : route => r_tx r =? l)). reflexivity.
Qed.

Lemma closed_observed_removed : forall s p l g b,
  select s p = Some (l, g, b) -> is_closed s l = true ->
  snd (recv s p) = [] /\ occurs (fst (recv s p)) l = false.
Proof.
  intros s p l g b S C. split; [eapply recv_closed_drops; eauto|].
  rewrite (recv_cases s p l g b S), C. cbn [fst]. apply occurs_remove_sender.
Qed.

(* occurs is not created by operations that do not name the listener *)
Definition occ4 (s : st) (l : lid) : Prop :=
  existsb (fun e => snd e =? l) (by_ssrc s) = false /\ existsb (fun e => snd e =? l) (by_rid s) = false /\
  existsb (fun e => snd e =? l) (by_mid s) = false /\ existsb (fun r => r_tx r =? l) (routes s) = false.

Lemma occurs_false_iff : forall s l, occurs s l = false <-> occ4 s l.
Proof.
  intros s l. unfold occurs, occ4. rewrite !orb_false_iff. tauto.
Qed.

Lemma update_first_tx : forall l f rs l0,
  (forall r, r_tx (f r) = r_tx r) ->
  existsb (fun r => r_tx r =? l0) (update_first l f rs) = existsb (fun r => r_tx r =? l0) rs.
Proof.
  intros l f rs l0 Hf. induction rs as [|r rs IH]; cbn; auto.
  destruct (r_tx r =? l); cbn; [rewrite Hf; reflexivity|]. rewrite IH. reflexivity.
Qed.

Lemma with_route_routes_tx : forall s l f l0,
  (forall r, r_tx (f r) = r_tx r) -> l <> l0 ->
  existsb (fun r => r_tx r =? l0) (routes s) = false ->
  existsb (fun r => r_tx r =? l0) (routes (with_route s l f)) = false.
Proof.
  intros s l f l0 Hf Hne H. unfold with_route. destruct (existsb (fun r => r_tx r =? l) (routes s)) eqn:E; cbn [routes set_routes].
  - rewrite update_first_tx; auto.
  - apply existsb_app_false.
    + apply existsb_filter_mono. exact H.
    + cbn. rewrite Hf. cbn. apply Z.eqb_neq in Hne. rewrite Hne. reflexivity.
Qed.

Lemma existsb_zput_false : forall m k v l,
  v <> l -> existsb (fun e : Z * lid => snd e =? l) m = false ->
  existsb (fun e : Z * lid => snd e =? l) (zput m k v) = false.
Proof.
  intros m k v l Hne H. unfold zput, zdel. cbn. apply Z.eqb_neq in Hne. rewrite Hne. cbn.
  apply existsb_filter_mono. exact H.
Qed.

Lemma existsb_kput_false : forall m k v l,
  v <> l -> existsb (fun e : key * lid => snd e =? l) m = false ->
  existsb (fun e : key * lid => snd e =? l) (kput m k v) = false.
Proof.
  intros m k v l Hne H. unfold kput, kdel. cbn. apply Z.eqb_neq in Hne. rewrite Hne. cbn.
  apply existsb_filter_mono. exact H.
Qed.

Lemma occ4_with_route : forall s l f l0,
  (forall r, r_tx (f r) = r_tx r) -> l <> l0 -> occ4 s l0 -> occ4 (with_route s l f) l0.
Proof.
  intros s l f l0 Hf Hne [H1 [H2 [H3 H4]]]. unfold occ4.
  rewrite by_ssrc_with_route, by_rid_with_route, by_mid_with_route.
  repeat split; auto. apply with_route_routes_tx; auto.
Qed.

Lemma occ4_recv : forall s p l, occ4 s l -> occ4 (fst (recv s p)) l.
Proof.
  intros s p l O. destruct (select s p) as [[[l' g] b]|] eqn:S; [|unfold recv; rewrite S; exact O].
  rewrite (recv_cases s p l' g b S).
  assert (Hne : l' <> l).
  { intro E. subst. apply select_occurs in S. apply occurs_false_iff in O. congruence. }
  assert (O1 : occ4 (if b then bind_ssrc_route s (p_ssrc p) l' else s) l).
  { destruct b; auto. destruct O as [H1 [H2 [H3 H4]]]. unfold occ4. cbn. repeat split; auto.
    apply existsb_zput_false; auto. apply existsb_filter_mono. exact H1. }
  destruct (is_closed s l'); [|destruct (is_full s l'); cbn [fst]; exact O1].
  cbn [fst]. destruct O1 as [H1 [H2 [H3 H4]]]. unfold occ4, remove_sender, drop_tx.
  cbn [by_ssrc by_rid by_mid routes set_by_ssrc].
  repeat split; apply existsb_filter_mono; auto. unfold zdel. apply existsb_filter_mono. exact H1.
Qed.

Lemma occ4_step : forall s o l, occ4 s l -> registers o l = false -> occ4 (fst (step s o)) l.
Proof.
  intros s o l O R. destruct o; cbn [step fst registers] in *.
  - apply Z.eqb_neq in R. destruct O as [H1 [H2 [H3 H4]]]. unfold occ4. cbn. repeat split; auto.
    apply existsb_zput_false; auto. apply existsb_filter_mono. exact H1.
  - apply Z.eqb_neq in R. destruct O as [H1 [H2 [H3 H4]]]. unfold occ4. cbn. repeat split; auto.
    apply existsb_kput_false; auto. apply existsb_filter_mono. exact H2.
  - apply Z.eqb_neq in R. unfold register_mid. apply occ4_with_route; auto.
    destruct O as [H1 [H2 [H3 H4]]]. unfold occ4. cbn. repeat split; auto. apply existsb_kput_false; auto.
  - apply Z.eqb_neq in R. unfold register_payload_type. apply occ4_with_route; auto.
  - apply Z.eqb_neq in R. unfold register_payload_types. apply occ4_with_route; auto.
  - apply Z.eqb_neq in R. unfold register_provisional. apply occ4_with_route; auto.
  - exact O.
  - exact O.
  - exact O.
  - destruct O as [H1 [H2 [H3 H4]]]. unfold occ4, clear_listeners. cbn. auto.
  - exact O.
  - exact O.
  - apply (occ4_recv s p l) in O. exact O.
Qed.

Lemma occurs_preserved : forall ops s l,
  occurs s l = false -> Forall (fun o => registers o l = false) ops -> occurs (run s ops) l = false.
Proof.
  induction ops as [|o ops IH]; intros s l O F; cbn [run]; auto.
  inversion F; subst. apply IH; auto. apply occurs_false_iff. apply occ4_step; auto. apply occurs_false_iff. exact O.
Qed.

Lemma not_occurring_not_selected : forall s p l g b, occurs s l = false -> select s p <> Some (l, g, b).
Proof. intros s p l g b O S. apply select_occurs in S. congruence. Qed.

Lemma closed_never_again : forall s p l g b ops,
  select s p = Some (l, g, b) -> is_closed s l = true ->
  Forall (fun o => registers o l = false) ops ->
  let s' := fst (recv s p) in
  snd (recv s p) = [] /\ occurs (run s' ops) l = false /\
  (forall pre p' post g' b', ops = pre ++ Recv p' :: post -> select (run s' pre) p' <> Some (l, g', b')).
Proof.
  intros s p l g b ops S C F s'.
  destruct (closed_observed_removed s p l g b S C) as [H1 H2].
  split; auto. split; [apply occurs_preserved; auto|].
  intros pre p' post g' b' E. apply not_occurring_not_selected. apply occurs_preserved; auto.
  subst ops. apply Forall_app in F. tauto.
Qed.

(* ------------------------------------------------------------------ clear_listeners *)
Lemma clear_drops_all : forall s p,
  select (clear_listeners s) p = None /\ recv (clear_listeners s) p = (clear_listeners s, []) /\
  forall l, occurs (clear_listeners s) l = false.
Proof.
  intros s p.
  assert (S : select (clear_listeners s) p = None).
  { unfold select. rewrite select_unfold. unfold rid_match, mid_match, ssrc_match, lookup_stage.
    cbn [clear_listeners by_rid by_mid by_ssrc routes].
    destruct (pkt_rid _ p); destruct (pkt_mid _ p); reflexivity. }
  split; auto. split.
  - unfold recv. rewrite S. reflexivity.
  - intro l. reflexivity.
Qed.

(* ------------------------------------------------------------------ ambiguous payload type *)
Lemma ambiguous_pt : forall s p r1 r2,
  In r1 (routes s) -> In r2 (routes s) ->
  has_pt (p_pt p) r1 = true -> has_pt (p_pt p) r2 = true -> r_tx r1 <> r_tx r2 ->
  rid_match s p = None -> mid_match s p = None -> ssrc_match s p = None ->
  (forall l g b, select s p = Some (l, g, b) -> g = StProv /\ b = false /\ prov_unique s l) /\
  ((forall l, ~ prov_unique s l) -> recv s p = (s, [])).
Proof.
  intros s p r1 r2 I1 I2 W1 W2 Hne R M S.
  assert (NU : forall l, ~ pt_unique s p l).
  { unfold pt_unique. apply (two_routes_not_unique _ _ r1 r2); auto. }
  split.
  - intros l g b Sel. apply select_priority in Sel. destruct Sel as [C [Hb _]].
    inversion C; subst; try congruence.
    + exfalso. eapply NU; eauto.
    + auto.
  - intro NP. assert (Sel : select s p = None). { apply select_none. left. auto. }
    unfold recv. rewrite Sel. reflexivity.
Qed.

Lemma ambiguous_pt_dropped : forall s p r1 r2,
  In r1 (routes s) -> In r2 (routes s) ->
  has_pt (p_pt p) r1 = true -> has_pt (p_pt p) r2 = true -> r_tx r1 <> r_tx r2 ->
  rid_match s p = None -> mid_match s p = None -> ssrc_match s p = None ->
  (forall r, In r (routes s) -> r_prov r = false) ->
  recv s p = (s, []).
Proof.
  intros s p r1 r2 I1 I2 W1 W2 Hne R M S NP.
  destruct (ambiguous_pt s p r1 r2 I1 I2 W1 W2 Hne R M S) as [_ H]. apply H.
  unfold prov_unique. apply no_route_not_unique. exact NP.
Qed.

(* unknown payload type and nothing else: dropped unless a single provisional listener exists *)
Lemma unknown_pt_dropped : forall s p,
  rid_match s p = None -> mid_match s p = None -> ssrc_match s p = None ->
  (forall r, In r (routes s) -> has_pt (p_pt p) r = false) ->
  (forall r, In r (routes s) -> r_prov r = false) ->
  recv s p = (s, []).
Proof.
  intros s p R M S NPt NP. assert (Sel : select s p = None).
  { apply select_none. left. repeat split; auto.
    - unfold pt_unique. apply no_route_not_unique. exact NPt.
    - unfold prov_unique. apply no_route_not_unique. exact NP. }
  unfold recv. rewrite Sel. reflexivity.
Qed.

(* ------------------------------------------------------------------ bounded channels: FIFO, no duplicates *)
(* the log of queued packets is strictly increasing in tags and below the tick: every queue
   (a sub-list) is in arrival order without duplicates, and no tag sits in two queues *)
Fixpoint tags_sorted (q : list (lid * Z)) : Prop :=
  match q with
  | [] => True
  | e :: rest => Forall (fun e' => snd e < snd e') rest /\ tags_sorted rest
  end.
Definition QInv (s : st) : Prop := tags_sorted (qs s) /\ Forall (fun e => snd e < tick s) (qs s).

Lemma tags_sorted_filter : forall f q, tags_sorted q -> tags_sorted (filter f q).
Proof.
  intros f q. induction q as [|e q IH]; cbn; auto. intros [H1 H2].
  destruct (f e); cbn; auto. split; auto.
  apply Forall_forall. intros x Hx. apply filter_In in Hx. destruct Hx as [Hx _].
  rewrite Forall_forall in H1. auto.
Qed.

Lemma tags_sorted_snoc : forall q e, tags_sorted q -> Forall (fun e' => snd e' < snd e) q -> tags_sorted (q ++ [e]).
Proof.
  induction q as [|a q IH]; intros e H F; cbn; auto.
  destruct H as [H1 H2]. inversion F; subst. split.
  - apply Forall_app. split; auto.
  - apply IH; auto.
Qed.

Lemma qs_recv : forall s p, qs (fst (recv s p)) = qs s /\ tick (fst (recv s p)) = tick s /\ cap (fst (recv s p)) = cap s.
Proof.
  intros s p. destruct (select s p) as [[[l g] b]|] eqn:S; [|unfold recv; rewrite S; auto].
  rewrite (recv_cases s p l g b S).
  destruct (is_closed s l); [|destruct (is_full s l)]; destruct b; auto.
Qed.

Lemma qs_with_route : forall s l f, qs (with_route s l f) = qs s /\ tick (with_route s l f) = tick s /\ cap (with_route s l f) = cap s.
Proof. intros. unfold with_route. destruct (existsb _ _); auto. Qed.

Lemma QInv_step : forall s o, QInv s -> QInv (fst (step s o)).
Proof.
  intros s o [H1 H2]. unfold QInv.
  destruct o; cbn [step fst]; try (split; assumption).
  - unfold register_mid. destruct (qs_with_route (set_by_mid s (kput (by_mid s) mid l)) l
      (fun r => mkRoute (Some mid) (r_pts r) (r_tx r) (r_prov r))) as [E1 [E2 _]]. rewrite E1, E2. split; assumption.
  - unfold register_payload_type. destruct (qs_with_route s l
      (fun r => mkRoute (r_mid r) (if contains (r_pts r) pt then r_pts r else r_pts r ++ [pt]) (r_tx r) (r_prov r))) as [E1 [E2 _]].
    rewrite E1, E2. split; assumption.
  - unfold register_payload_types. destruct (qs_with_route s l
      (fun r => mkRoute (r_mid r) (push_dedup [] pts) (r_tx r) (r_prov r))) as [E1 [E2 _]]. rewrite E1, E2. split; assumption.
  - unfold register_provisional. destruct (qs_with_route s l
      (fun r => mkRoute (r_mid r) (r_pts r) (r_tx r) true)) as [E1 [E2 _]]. rewrite E1, E2. split; assumption.
  - cbn [set_qs set_closed qs tick]. split.
    + apply tags_sorted_filter. exact H1.
    + apply Forall_forall. intros x Hx. apply filter_In in Hx. destruct Hx as [Hx _]. rewrite Forall_forall in H2. auto.
  - cbn [set_qs qs tick]. split.
    + apply tags_sorted_filter. exact H1.
    + apply Forall_forall. intros x Hx. apply filter_In in Hx. destruct Hx as [Hx _]. rewrite Forall_forall in H2. auto.
  - destruct (qs_recv s p) as [E1 [E2 _]]. unfold after_recv. cbn [set_qs qs tick]. rewrite E1, E2.
    pose proof (recv_at_most_one s p) as L.
    destruct (snd (recv s p)) as [|l [|l2 rest]]; cbn [map app]; cbn [length] in L; [| |lia].
    + rewrite app_nil_r. split; auto. eapply Forall_impl; [|exact H2]. cbn. intros; lia.
    + split.
      * apply tags_sorted_snoc; auto.
      * apply Forall_app. split; [eapply Forall_impl; [|exact H2]; cbn; intros; lia|]. constructor; [cbn; lia|constructor].
Qed.

Lemma QInv_run : forall ops s, QInv s -> QInv (run s ops).
Proof. induction ops as [|o ops IH]; intros s H; cbn [run]; auto. apply IH. apply QInv_step. exact H. Qed.

Lemma QInv_init : forall c, QInv (init_with c).
Proof. intro c. split; constructor. Qed.

(* per listener: the queue is strictly increasing (arrival order, no duplicate) *)
Lemma tags_sorted_queue : forall q l,
  tags_sorted q -> StronglySorted Z.lt (map snd (filter (fun e : lid * Z => fst e =? l) q)).
Proof.
  induction q as [|e q IH]; intros l H; [constructor|].
  destruct H as [H1 H2]. cbn [filter]. destruct (fst e =? l) eqn:E.
  - cbn [map]. constructor; [apply IH; exact H2|].
    apply Forall_forall. intros x Hx. apply in_map_iff in Hx. destruct Hx as [e' [Ex He']]. subst.
    apply filter_In in He'. destruct He' as [He' _]. rewrite Forall_forall in H1. auto.
  - apply IH. exact H2.
Qed.

Lemma queue_fifo : forall c ops l, StronglySorted Z.lt (queue (run (init_with c) ops) l).
Proof. intros c ops l. unfold queue. apply tags_sorted_queue. apply (QInv_run ops (init_with c) (QInv_init c)). Qed.

(* no packet tag sits in the queues of two listeners *)
Lemma tags_sorted_unique : forall q l1 l2 t, tags_sorted q -> In (l1, t) q -> In (l2, t) q -> l1 = l2.
Proof.
  induction q as [|e q IH]; intros l1 l2 t H I1 I2; [destruct I1|].
  destruct H as [H1 H2]. rewrite Forall_forall in H1.
  destruct I1 as [I1|I1]; destruct I2 as [I2|I2].
  - congruence.
  - subst e. apply H1 in I2. cbn in I2. lia.
  - subst e. apply H1 in I1. cbn in I1. lia.
  - eapply IH; eauto.
Qed.

Lemma queue_tag_one_listener : forall c ops l1 l2 t,
  In t (queue (run (init_with c) ops) l1) -> In t (queue (run (init_with c) ops) l2) -> l1 = l2.
Proof.
  intros c ops l1 l2 t I1 I2. unfold queue in *.
  apply in_map_iff in I1. destruct I1 as [[a t1] [E1 F1]]. apply in_map_iff in I2. destruct I2 as [[b t2] [E2 F2]].
  cbn in E1, E2. subst. apply filter_In in F1. apply filter_In in F2. destruct F1 as [F1 G1]. destruct F2 as [F2 G2].
  cbn in G1, G2. apply Z.eqb_eq in G1. apply Z.eqb_eq in G2. subst.
  eapply tags_sorted_unique; eauto. apply (QInv_run ops (init_with c) (QInv_init c)).
Qed.

(* a channel never holds more than its capacity *)
Lemma qlen_filter_le : forall (q : list (lid * Z)) (f : lid * Z -> bool) (l : lid),
  (length (filter (fun e : lid * Z => (fst e =? l)%Z) (filter f q)) <= length (filter (fun e : lid * Z => (fst e =? l)%Z) q))%nat.
Proof.
  induction q as [|e q IH]; intros f l; cbn [filter]; auto.
  destruct (f e); cbn [filter]; destruct (fst e =? l); cbn [length]; try apply le_n_S; try apply IH.
  apply Nat.le_trans with (1 := IH f l). auto.
Qed.

Definition CapInv (s : st) : Prop := forall l, qlen s l <= Z.max (cap s) 0.

Lemma CapInv_step : forall s o, CapInv s -> CapInv (fst (step s o)).
Proof.
  intros s o H. unfold CapInv, qlen, queue in *.
  destruct o; cbn [step fst]; try exact H.
  - unfold register_mid. destruct (qs_with_route (set_by_mid s (kput (by_mid s) mid l)) l
      (fun r => mkRoute (Some mid) (r_pts r) (r_tx r) (r_prov r))) as [E1 [_ E3]]. rewrite E1, E3. exact H.
  - unfold register_payload_type. destruct (qs_with_route s l
      (fun r => mkRoute (r_mid r) (if contains (r_pts r) pt then r_pts r else r_pts r ++ [pt]) (r_tx r) (r_prov r))) as [E1 [_ E3]].
    rewrite E1, E3. exact H.
  - unfold register_payload_types. destruct (qs_with_route s l
      (fun r => mkRoute (r_mid r) (push_dedup [] pts) (r_tx r) (r_prov r))) as [E1 [_ E3]]. rewrite E1, E3. exact H.
  - unfold register_provisional. destruct (qs_with_route s l
      (fun r => mkRoute (r_mid r) (r_pts r) (r_tx r) true)) as [E1 [_ E3]]. rewrite E1, E3. exact H.
  - intro l0. cbn [set_qs set_closed qs cap]. specialize (H l0). rewrite map_length in H. rewrite map_length.
    pose proof (qlen_filter_le (qs s) (fun e => negb (fst e =? l)) l0) as Q.
    apply Z.le_trans with (2 := H). apply Nat2Z.inj_le. exact Q.
  - intro l0. cbn [set_qs qs cap]. specialize (H l0). rewrite map_length in H. rewrite map_length.
    pose proof (qlen_filter_le (qs s) (fun e => negb (fst e =? l)) l0) as Q.
    apply Z.le_trans with (2 := H). apply Nat2Z.inj_le. exact Q.
  - intro l0. destruct (qs_recv s p) as [E1 [E2 E3]]. unfold after_recv. cbn [set_qs qs cap]. rewrite E1, E3.
    destruct (snd (recv s p)) as [|l1 rest] eqn:D; cbn [map].
    + rewrite app_nil_r. apply H.
    + assert (Hin : In l1 (snd (recv s p))) by (rewrite D; left; reflexivity).
      apply recv_delivers in Hin. destruct Hin as [g [b [S [C F]]]].
      pose proof (recv_at_most_one s p) as L. rewrite D in L. destruct rest; [|cbn in L; lia].
      cbn [map]. rewrite filter_app, map_app, app_length. cbn [filter fst].
      destruct (l1 =? l0) eqn:E; cbn [map length].
      * apply Z.eqb_eq in E. subst l0. unfold is_full, qlen, queue in F. apply Z.leb_gt in F.
        rewrite !map_length in *. unfold lid in *. rewrite Nat2Z.inj_add. cbn [Z.of_nat Pos.of_succ_nat]. lia.
      * specialize (H l0). rewrite !map_length in *. unfold lid in *. cbn [length]. rewrite Nat.add_0_r. exact H.
Qed.

Lemma queue_bounded : forall c ops l, 0 <= c -> qlen (run (init_with c) ops) l <= c.
Proof.
  intros c ops l Hc.
  assert (G : forall ops s, CapInv s -> CapInv (run s ops)).
  { induction ops0 as [|o ops0 IH]; intros s H; cbn [run]; auto. apply IH. apply CapInv_step. exact H. }
  assert (I0 : CapInv (init_with c)). { intro l0. cbn. lia. }
  specialize (G ops (init_with c) I0 l).
  assert (Ec : cap (run (init_with c) ops) = c).
  { clear G. generalize (init_with c) (eq_refl : cap (init_with c) = c). induction ops as [|o ops IH]; intros s E; cbn [run]; auto.
    apply IH. destruct o; cbn [step fst]; auto.
    - unfold register_mid. destruct (qs_with_route (set_by_mid s (kput (by_mid s) mid l0)) l0
        (fun r => mkRoute (Some mid) (r_pts r) (r_tx r) (r_prov r))) as [_ [_ E3]]. rewrite E3. exact E.
    - unfold register_payload_type. destruct (qs_with_route s l0
        (fun r => mkRoute (r_mid r) (if contains (r_pts r) pt then r_pts r else r_pts r ++ [pt]) (r_tx r) (r_prov r))) as [_ [_ E3]]. rewrite E3. exact E.
    - unfold register_payload_types. destruct (qs_with_route s l0
        (fun r => mkRoute (r_mid r) (push_dedup [] pts) (r_tx r) (r_prov r))) as [_ [_ E3]]. rewrite E3. exact E.
    - unfold register_provisional. destruct (qs_with_route s l0
        (fun r => mkRoute (r_mid r) (r_pts r) (r_tx r) true)) as [_ [_ E3]]. rewrite E3. exact E.
    - destruct (qs_recv s p) as [_ [_ E3]]. cbn [after_recv set_qs cap]. rewrite E3. exact E. }
  rewrite Ec in G. lia.
Qed.

(* ------------------------------------------------------------------ premises are satisfiable (examples) *)
(* one-byte block with a single element: id 1, one data byte *)
Definition ex_mid_ext (m : Z) : option (Z * list Z) := Some (48862, [16; m; 0; 0]).

(* two sections share payload type 96; the MID decides, the SSRC is learnt, a later packet without
   MID follows the learnt binding; an unknown SSRC with the shared payload type is dropped *)
Example ex_mid_routing :
  run_out init [SetMidId 1; RegMid [97] 10; RegPtList [96] 10; RegMid [118] 20; RegPtList [96] 20;
                Recv (mkPkt 5555 96 (ex_mid_ext 118)); Recv (mkPkt 5555 96 None); Recv (mkPkt 7777 96 None)]
  = [[]; []; []; []; []; [20]; [20]; []].
Proof. vm_compute. reflexivity. Qed.

(* a listener observed closed disappears from every map *)
Example ex_closed :
  let ops := [SetMidId 1; RegMid [97] 10; RegPt 96 10; RegSsrc 1 10; Close 10;
              Recv (mkPkt 1 96 None); Recv (mkPkt 1 96 (ex_mid_ext 97))] in
  run_out init ops = [[]; []; []; []; []; []; []] /\ occurs (run init ops) 10 = false.
Proof. vm_compute. split; reflexivity. Qed.

(* the provisional fallback delivers but never binds *)
Example ex_provisional :
  let ops := [RegProv 10; Recv (mkPkt 1111 0 None)] in
  run_out init ops = [[]; [10]] /\ has_listener (run init ops) 1111 = false.
Proof. vm_compute. split; reflexivity. Qed.

(* a packet that names section "v" is not handed by payload type to the listener registered for
   section "a" (finding F27, fixed: before the fix it was delivered to 10); a listener that registered
   no MID at all still gets such a packet by payload type *)
Example ex_foreign_mid_dropped :
  run_out init [SetMidId 1; RegMid [97] 10; RegPtList [96] 10; Recv (mkPkt 9 96 (ex_mid_ext 118))]
  = [[]; []; []; []] /\
  run_out init [SetMidId 1; RegPtList [96] 10; Recv (mkPkt 9 96 (ex_mid_ext 118))] = [[]; []; [10]].
Proof. vm_compute. split; reflexivity. Qed.

(* a full channel drops the packet, the consumer sees what was queued in arrival order *)
Example ex_full :
  run_obs (init_with 2) [RegSsrc 1 10; Recv (mkPkt 1 0 None); Recv (mkPkt 1 0 None); Recv (mkPkt 1 0 None);
                         Drain 10; Recv (mkPkt 1 0 None); Drain 10]
  = [([10], true); ([10], true); ([], true); ([0; 1], false); ([10], true); ([3], false)].
Proof. vm_compute. reflexivity. Qed.

(* after clear_listeners (fixed: it now also empties the MID map) nobody is registered: a
   MID-carrying packet no longer reaches the old listener *)
Example ex_clear_drops_mid :
  run_out init [SetMidId 1; RegMid [97] 10; ClearListeners; Recv (mkPkt 9 96 (ex_mid_ext 97))]
  = [[]; []; []; []].
Proof. vm_compute. reflexivity. Qed.
