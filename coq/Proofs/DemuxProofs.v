(* C19 (part 1) -- proofs about Model/Demux.v *)
From Coq Require Import ZArith List Bool Lia.
From RV Require Import Lib.Wrap.
From RV Require Import Gen.RtpDemux.
From RV Require Import Model.Demux.
Import ListNotations.
Open Scope Z_scope.
Open Scope bool_scope.

(* ------------------------------------------------------------------ basic list / map facts *)
Lemma key_eqb_eq : forall a b, key_eqb a b = true <-> a = b.
Proof.
  induction a as [|x a IH]; destruct b as [|y b]; cbn [key_eqb]; split; intro H; try discriminate; auto.
  - apply andb_true_iff in H. destruct H as [H1 H2]. apply Z.eqb_eq in H1. apply IH in H2. subst. reflexivity.
  - inversion H; subst. apply andb_true_iff. split. apply Z.eqb_refl. apply IH. reflexivity.
Qed.

Lemma key_eqb_refl : forall a, key_eqb a a = true.
Proof. intro a. apply key_eqb_eq. reflexivity. Qed.

Lemma zget_In : forall m k l, zget m k = Some l -> In (k, l) m.
Proof.
  unfold zget. intros m k l H.
  destruct (find (fun e => fst e =? k) m) as [[k' l']|] eqn:F; cbn in H; [|discriminate].
  inversion H; subst. apply find_some in F. destruct F as [Hin Hk]. cbn in Hk. apply Z.eqb_eq in Hk. subst. exact Hin.
Qed.

Lemma kget_In : forall m k l, kget m k = Some l -> In (k, l) m.
Proof.
  unfold kget. intros m k l H.
  destruct (find (fun e => key_eqb (fst e) k) m) as [[k' l']|] eqn:F; cbn in H; [|discriminate].
  inversion H; subst. apply find_some in F. destruct F as [Hin Hk]. cbn in Hk. apply key_eqb_eq in Hk. subst. exact Hin.
Qed.

Lemma zget_None_notin : forall m k l, zget m k = None -> ~ In (k, l) m.
Proof.
  unfold zget. intros m k l H Hin.
  destruct (find (fun e => fst e =? k) m) eqn:F; cbn in H; [discriminate|].
  eapply find_none in F; [|exact Hin]. cbn in F. rewrite Z.eqb_refl in F. discriminate.
Qed.

Lemma In_zput : forall m k v x l, In (x, l) (zput m k v) -> (x = k /\ l = v) \/ In (x, l) m.
Proof.
  unfold zput, zdel. intros m k v x l [H|H].
  - inversion H; subst. left; auto.
  - apply filter_In in H. right. tauto.
Qed.

Lemma In_kput : forall m k v x l, In (x, l) (kput m k v) -> (x = k /\ l = v) \/ In (x, l) m.
Proof.
  unfold kput, kdel. intros m k v x l [H|H].
  - inversion H; subst. left; auto.
  - apply filter_In in H. right. tauto.
Qed.

Lemma zget_zput_same : forall m k v, zget (zput m k v) k = Some v.
Proof. intros. unfold zget, zput. cbn. rewrite Z.eqb_refl. reflexivity. Qed.

Lemma kget_kput_same : forall m k v, kget (kput m k v) k = Some v.
Proof. intros. unfold kget, kput. cbn. rewrite key_eqb_refl. reflexivity. Qed.

Lemma In_keep_open : forall (K : Set) s (m : list (K * lid)) e, In e (keep_open s m) -> In e m.
Proof. intros K s m e H. apply filter_In in H. tauto. Qed.

Lemma In_drop_tx : forall (K : Set) l (m : list (K * lid)) e, In e (drop_tx l m) -> In e m.
Proof. intros K l m e H. apply filter_In in H. tauto. Qed.

Lemma existsb_snd_In : forall (K : Set) (m : list (K * lid)) k l, In (k, l) m -> existsb (fun e => snd e =? l) m = true.
Proof. intros K m k l H. apply existsb_exists. exists (k, l). split; auto. cbn. apply Z.eqb_refl. Qed.

Lemma existsb_filter_false : forall (A : Type) (f : A -> bool) (m : list A),
  existsb f (filter (fun e => negb (f e)) m) = false.
Proof.
  intros A f m. induction m as [|a m IH]; cbn; auto.
  destruct (f a) eqn:E; cbn; auto. rewrite E. exact IH.
Qed.

Lemma existsb_filter_mono : forall (A : Type) (f g : A -> bool) (m : list A),
  existsb f m = false -> existsb f (filter g m) = false.
Proof.
  intros A f g m. induction m as [|a m IH]; cbn; auto.
  intro H. apply orb_false_iff in H. destruct H as [H1 H2].
  destruct (g a); cbn; auto. rewrite H1. auto.
Qed.

Lemma existsb_app_false : forall (A : Type) (f : A -> bool) (a b : list A),
  existsb f a = false -> existsb f b = false -> existsb f (a ++ b) = false.
Proof. intros. rewrite existsb_app. rewrite H, H0. reflexivity. Qed.

(* ------------------------------------------------------------------ unique_by_pt / single_provisional *)
Definition uniq_listener (want : route -> bool) (rs : list route) (l : lid) : Prop :=
  (exists r, In r rs /\ want r = true /\ r_tx r = l) /\
  (forall r, In r rs -> want r = true -> r_tx r = l).

Lemma scan_some_iff : forall want rs e l,
  scan_unique want (Some e) rs = Some l <-> l = e /\ (forall r, In r rs -> want r = true -> r_tx r = e).
Proof.
  intros want rs. induction rs as [|r rs IH]; intros e l; cbn [scan_unique].
  - split.
    + intro H. inversion H; subst. split; auto. intros r [].
    + intros [H _]. subst. reflexivity.
  - destruct (want r) eqn:W.
    + destruct (e =? r_tx r) eqn:E.
      * apply Z.eqb_eq in E. rewrite IH. split.
        -- intros [H1 H2]. split; auto. intros r' [Hr|Hr] Hw; subst; auto.
        -- intros [H1 H2]. split; auto. intros r' Hr Hw. apply H2; auto. right; auto.
      * apply Z.eqb_neq in E. split; [discriminate|].
        intros [_ H2]. exfalso. apply E. symmetry. apply H2; auto. left; auto.
    + rewrite IH. split.
      * intros [H1 H2]. split; auto. intros r' [Hr|Hr] Hw; subst; auto. rewrite W in Hw. discriminate.
      * intros [H1 H2]. split; auto. intros r' Hr Hw. apply H2; auto. right; auto.
Qed.

Lemma scan_unique_spec : forall want rs l,
  scan_unique want None rs = Some l <-> uniq_listener want rs l.
Proof.
  intros want rs. induction rs as [|r rs IH]; intro l; cbn [scan_unique]; unfold uniq_listener in *.
  - split; [discriminate|]. intros [[r [[] _]] _].
  - destruct (want r) eqn:W.
    + rewrite scan_some_iff. split.
      * intros [H1 H2]. subst. split.
        -- exists r. split; [left; auto|]. auto.
        -- intros r' [Hr|Hr] Hw; subst; auto.
      * intros [_ H2]. split.
        -- symmetry. apply H2; auto. left; auto.
        -- intros r' Hr Hw. rewrite (H2 r' (or_intror Hr) Hw). symmetry. apply H2; auto. left; auto.
    + rewrite IH. split.
      * intros [[r' [Hr [Hw Ht]]] H2]. split.
        -- exists r'. split; [right; auto|]. auto.
        -- intros r'' [Hr'|Hr'] Hw'; subst; auto. rewrite W in Hw'. discriminate.
      * intros [[r' [Hr [Hw Ht]]] H2]. split.
        -- destruct Hr as [Hr|Hr]; [subst; rewrite W in Hw; discriminate|]. exists r'. auto.
        -- intros r'' Hr' Hw'. apply H2; auto. right; auto.
Qed.

Lemma scan_unique_none : forall want rs,
  scan_unique want None rs = None <-> (forall l, ~ uniq_listener want rs l).
Proof.
  intros want rs. split.
  - intros H l Hu. apply scan_unique_spec in Hu. congruence.
  - intro H. destruct (scan_unique want None rs) as [l|] eqn:E; auto.
    apply scan_unique_spec in E. exfalso. eapply H. exact E.
Qed.

(* two matching routes on different channels: no unique listener *)
Lemma two_routes_not_unique : forall want rs r1 r2,
  In r1 rs -> In r2 rs -> want r1 = true -> want r2 = true -> r_tx r1 <> r_tx r2 ->
  forall l, ~ uniq_listener want rs l.
Proof.
  intros want rs r1 r2 H1 H2 W1 W2 Hne l [_ Hall].
  apply Hne. rewrite (Hall r1 H1 W1), (Hall r2 H2 W2). reflexivity.
Qed.

(* no matching route at all: no unique listener *)
Lemma no_route_not_unique : forall want rs,
  (forall r, In r rs -> want r = false) -> forall l, ~ uniq_listener want rs l.
Proof. intros want rs H l [[r [Hr [Hw _]]] _]. rewrite (H r Hr) in Hw. discriminate. Qed.

Lemma uniq_listener_occurs : forall want rs l,
  uniq_listener want rs l -> existsb (fun r => r_tx r =? l) rs = true.
Proof.
  intros want rs l [[r [Hr [_ Ht]]] _]. apply existsb_exists. exists r. split; auto. subst. apply Z.eqb_refl.
Qed.

(* ------------------------------------------------------------------ selection: priority order *)
Definition rid_match (s : st) (p : pkt) : option lid := lookup_stage s p StRid.
Definition mid_match (s : st) (p : pkt) : option lid := lookup_stage s p StMid.
Definition ssrc_match (s : st) (p : pkt) : option lid := lookup_stage s p StSsrc.
Definition has_pt (pt : Z) (r : route) : bool := contains (r_pts r) pt.
Definition pt_unique (s : st) (p : pkt) (l : lid) : Prop := uniq_listener (has_pt (p_pt p)) (routes s) l.
Definition prov_unique (s : st) (l : lid) : Prop := uniq_listener r_prov (routes s) l.

(* which stages bind the packet's SSRC to the selected listener (written from the property text;
   must agree with the flags regenerated from the source, see select_unfold) *)
Definition stage_binds (g : stage) : bool :=
  match g with StRid | StMid | StPt => true | StSsrc | StProv => false end.

Inductive chosen (s : st) (p : pkt) : lid -> stage -> Prop :=
| ch_rid l : rid_match s p = Some l -> chosen s p l StRid
| ch_mid l : rid_match s p = None -> mid_match s p = Some l -> chosen s p l StMid
| ch_ssrc l : rid_match s p = None -> mid_match s p = None -> ssrc_match s p = Some l -> chosen s p l StSsrc
| ch_pt l : rid_match s p = None -> mid_match s p = None -> ssrc_match s p = None ->
            pt_unique s p l -> chosen s p l StPt
| ch_prov l : rid_match s p = None -> mid_match s p = None -> ssrc_match s p = None ->
              (forall l', ~ pt_unique s p l') -> prov_unique s l -> chosen s p l StProv.

Lemma select_unfold : forall s p,
  select s p =
  match rid_match s p with Some l => Some (l, StRid, true) | None =>
  match mid_match s p with Some l => Some (l, StMid, true) | None =>
  match ssrc_match s p with Some l => Some (l, StSsrc, false) | None =>
  match unique_by_pt (routes s) (p_pt p) with Some l => Some (l, StPt, true) | None =>
  match single_provisional (routes s) with Some l => Some (l, StProv, false) | None => None
  end end end end end.
Proof. intros s p. reflexivity. Qed.

Lemma select_priority : forall s p l g b,
  select s p = Some (l, g, b) <-> chosen s p l g /\ b = stage_binds g.
Proof.
  intros s p l g b. rewrite select_unfold.
  destruct (rid_match s p) as [l1|] eqn:R.
  { split.
    - intro H. inversion H; subst. split; [constructor; auto|reflexivity].
    - intros [C Hb]. inversion C; subst; cbn [stage_binds]; congruence. }
  destruct (mid_match s p) as [l2|] eqn:M.
  { split.
    - intro H. inversion H; subst. split; [constructor; auto|reflexivity].
    - intros [C Hb]. inversion C; subst; cbn [stage_binds]; congruence. }
  destruct (ssrc_match s p) as [l3|] eqn:S.
  { split.
    - intro H. inversion H; subst. split; [constructor; auto|reflexivity].
    - intros [C Hb]. inversion C; subst; cbn [stage_binds]; congruence. }
  destruct (unique_by_pt (routes s) (p_pt p)) as [l4|] eqn:U.
  { apply scan_unique_spec in U. split.
    - intro H. inversion H; subst. split; [apply ch_pt; auto|reflexivity].
    - intros [C Hb]. inversion C; subst; cbn [stage_binds]; try congruence.
      + f_equal. f_equal. f_equal. unfold pt_unique in *.
        destruct U as [[r [Hr [Hw Ht]]] _]. destruct H2 as [_ Hall]. rewrite <- Ht. apply Hall; auto.
      + exfalso. eapply H2. exact U. }
  pose proof U as U'. unfold unique_by_pt in U'. rewrite scan_unique_none in U'.
  destruct (single_provisional (routes s)) as [l5|] eqn:V.
  { apply scan_unique_spec in V. split.
    - intro H. inversion H; subst. split; [apply ch_prov; auto|reflexivity].
    - intros [C Hb]. inversion C; subst; cbn [stage_binds]; try congruence.
      + exfalso. eapply U'. exact H2.
      + f_equal. f_equal. f_equal. unfold prov_unique in *.
        destruct V as [[r [Hr [Hw Ht]]] _]. destruct H3 as [_ Hall]. rewrite <- Ht. apply Hall; auto. }
  unfold single_provisional in V. rewrite scan_unique_none in V.
  split; [discriminate|].
  intros [C _]. inversion C; subst; try congruence.
  - exfalso. eapply U'. exact H2.
  - exfalso. eapply V. exact H3.
Qed.

Lemma select_none : forall s p,
  select s p = None <->
  rid_match s p = None /\ mid_match s p = None /\ ssrc_match s p = None /\
  (forall l, ~ pt_unique s p l) /\ (forall l, ~ prov_unique s l).
Proof.
  intros s p. rewrite select_unfold.
  destruct (rid_match s p); [split; [discriminate|intros [H _]; discriminate]|].
  destruct (mid_match s p); [split; [discriminate|intros [_ [H _]]; discriminate]|].
  destruct (ssrc_match s p); [split; [discriminate|intros [_ [_ [H _]]]; discriminate]|].
  destruct (unique_by_pt (routes s) (p_pt p)) as [l4|] eqn:U.
  { split; [discriminate|]. intros [_ [_ [_ [H _]]]]. apply scan_unique_spec in U. exfalso. eapply H. exact U. }
  unfold unique_by_pt in U. rewrite scan_unique_none in U.
  destruct (single_provisional (routes s)) as [l5|] eqn:V.
  { split; [discriminate|]. intros [_ [_ [_ [_ H]]]]. apply scan_unique_spec in V. exfalso. eapply H. exact V. }
  unfold single_provisional in V. rewrite scan_unique_none in V.
  split; auto.
Qed.

(* the selected listener is registered somewhere *)
Lemma chosen_occurs : forall s p l g, chosen s p l g -> occurs s l = true.
Proof.
  intros s p l g C. unfold occurs.
  inversion C; subst.
  - unfold rid_match, lookup_stage in H. destruct (pkt_rid s p); [|discriminate].
    apply kget_In in H. erewrite (existsb_snd_In key (by_rid s)); eauto. rewrite orb_true_r. reflexivity.
  - unfold mid_match, lookup_stage in H0. destruct (pkt_mid s p); [|discriminate].
    apply kget_In in H0. erewrite (existsb_snd_In key (by_mid s)); eauto. rewrite !orb_true_r. reflexivity.
  - unfold ssrc_match, lookup_stage in H1. apply zget_In in H1.
    erewrite (existsb_snd_In Z (by_ssrc s)); eauto.
  - apply uniq_listener_occurs in H2. rewrite H2. rewrite !orb_true_r. reflexivity.
  - apply uniq_listener_occurs in H3. rewrite H3. rewrite !orb_true_r. reflexivity.
Qed.

Lemma select_occurs : forall s p l g b, select s p = Some (l, g, b) -> occurs s l = true.
Proof. intros s p l g b H. apply select_priority in H. destruct H as [C _]. eapply chosen_occurs; eauto. Qed.

(* ------------------------------------------------------------------ at most one receiver *)
Lemma recv_at_most_one : forall s p, (length (snd (recv s p)) <= 1)%nat.
Proof.
  intros s p. unfold recv. destruct (select s p) as [[[l g] b]|]; cbn; auto.
  destruct (is_closed _ l); cbn; auto.
Qed.

Lemma step_at_most_one : forall s o, (length (snd (step s o)) <= 1)%nat.
Proof. intros s o. destruct o; cbn [step snd length]; auto. apply recv_at_most_one. Qed.

Lemma run_at_most_one : forall ops s, Forall (fun d => (length d <= 1)%nat) (run_out s ops).
Proof.
  induction ops as [|o ops IH]; intro s; cbn [run_out]; constructor; auto. apply step_at_most_one.
Qed.

(* the receiver is the selected listener, and only if its channel is open *)
Lemma recv_delivers : forall s p l,
  In l (snd (recv s p)) -> exists g b, select s p = Some (l, g, b) /\ is_closed s l = false.
Proof.
  intros s p l. unfold recv. destruct (select s p) as [[[l' g] b]|] eqn:S; cbn; [|tauto].
  assert (Hc : forall s1, closed s1 = closed s -> is_closed s1 l' = is_closed s l').
  { intros s1 E. unfold is_closed. rewrite E. reflexivity. }
  destruct b.
  - rewrite (Hc (bind_ssrc_route s (p_ssrc p) l') eq_refl).
    destruct (is_closed s l') eqn:C; cbn; [tauto|]. intros [H|[]]; subst. eauto.
  - destruct (is_closed s l') eqn:C; cbn; [tauto|]. intros [H|[]]; subst. eauto.
Qed.

Lemma recv_open_delivers : forall s p l g b,
  select s p = Some (l, g, b) -> is_closed s l = false -> snd (recv s p) = [l].
Proof.
  intros s p l g b S C. unfold recv. rewrite S.
  assert (Hc : is_closed (if b then bind_ssrc_route s (p_ssrc p) l else s) l = false).
  { destruct b; auto. }
  rewrite Hc. reflexivity.
Qed.

Lemma recv_closed_drops : forall s p l g b,
  select s p = Some (l, g, b) -> is_closed s l = true -> snd (recv s p) = [].
Proof.
  intros s p l g b S C. unfold recv. rewrite S.
  assert (Hc : is_closed (if b then bind_ssrc_route s (p_ssrc p) l else s) l = true).
  { destruct b; auto. }
  rewrite Hc. reflexivity.
Qed.

(* ------------------------------------------------------------------ MID respected *)
Lemma mid_respected : forall s p m l,
  pkt_mid s p = Some m -> kget (by_mid s) m = Some l -> rid_match s p = None ->
  (forall l', In l' (snd (recv s p)) -> l' = l) /\
  (is_closed s l = false -> snd (recv s p) = [l]) /\
  (is_closed s l = true -> snd (recv s p) = []).
Proof.
  intros s p m l Hm Hk Hr.
  assert (S : select s p = Some (l, StMid, true)).
  { apply select_priority. split; [|reflexivity]. apply ch_mid; auto.
    unfold mid_match, lookup_stage. rewrite Hm. exact Hk. }
  split; [|split].
  - intros l' Hin. apply recv_delivers in Hin. destruct Hin as [g [b [S' _]]]. congruence.
  - intro C. eapply recv_open_delivers; eauto.
  - intro C. eapply recv_closed_drops; eauto.
Qed.

(* ------------------------------------------------------------------ provenance of map entries *)
Lemma closed_with_route : forall s l f, closed (with_route s l f) = closed s.
Proof. intros. unfold with_route. destruct (existsb _ _); reflexivity. Qed.
Lemma by_ssrc_with_route : forall s l f, by_ssrc (with_route s l f) = by_ssrc s.
Proof. intros. unfold with_route. destruct (existsb _ _); reflexivity. Qed.
Lemma by_rid_with_route : forall s l f, by_rid (with_route s l f) = by_rid s.
Proof. intros. unfold with_route. destruct (existsb _ _); reflexivity. Qed.
Lemma by_mid_with_route : forall s l f, by_mid (with_route s l f) = by_mid s.
Proof. intros. unfold with_route. destruct (existsb _ _); reflexivity. Qed.

Lemma by_mid_recv_sub : forall s p e, In e (by_mid (fst (recv s p))) -> In e (by_mid s).
Proof.
  intros s p e. unfold recv. destruct (select s p) as [[[l g] b]|]; cbn; auto.
  destruct (is_closed _ l); destruct b; cbn; auto; intro H; try (apply In_drop_tx in H); auto.
Qed.

Lemma by_mid_step : forall s o m l,
  In (m, l) (by_mid (fst (step s o))) -> In (m, l) (by_mid s) \/ o = RegMid m l.
Proof.
  intros s o m l. destruct o; cbn [step fst]; intro H.
  - left. exact H.
  - left. exact H.
  - unfold register_mid in H. rewrite by_mid_with_route in H. cbn in H.
    apply In_kput in H. destruct H as [[H1 H2]|H]; subst; auto.
  - unfold register_payload_type in H. rewrite by_mid_with_route in H. auto.
  - unfold register_payload_types in H. rewrite by_mid_with_route in H. auto.
  - unfold register_provisional in H. rewrite by_mid_with_route in H. auto.
  - left. exact H.
  - left. exact H.
  - left. exact H.
  - cbn in H. destruct H.
  - left. exact H.
  - left. eapply by_mid_recv_sub; eauto.
Qed.

Lemma by_mid_provenance : forall ops s m l,
  In (m, l) (by_mid (run s ops)) -> In (m, l) (by_mid s) \/ In (RegMid m l) ops.
Proof.
  induction ops as [|o ops IH]; intros s m l H; cbn [run] in H; auto.
  apply IH in H. destruct H as [H|H]; [|right; right; exact H].
  apply by_mid_step in H. destruct H as [H|H]; auto. right. left. auto.
Qed.

Lemma mid_section_registered : forall ops m l,
  kget (by_mid (run init ops)) m = Some l -> In (RegMid m l) ops.
Proof.
  intros ops m l H. apply kget_In in H. apply by_mid_provenance in H. destruct H as [[]|H]; auto.
Qed.

Lemma register_mid_owner : forall s m l, kget (by_mid (fst (step s (RegMid m l)))) m = Some l.
Proof. intros. cbn. unfold register_mid. rewrite by_mid_with_route. cbn [by_mid set_by_mid]. apply kget_kput_same. Qed.

(* ------------------------------------------------------------------ SSRC bindings only from evidence *)
Definition evidence (g : stage) : Prop := g = StRid \/ g = StMid \/ g = StPt.

Definition binds (s : st) (o : op) (x : Z) (l : lid) : Prop :=
  match o with
  | RegSsrc x' l' => x' = x /\ l' = l
  | Recv p => p_ssrc p = x /\ exists g, select s p = Some (l, g, true) /\ evidence g
  | _ => False
  end.

Lemma select_bind_evidence : forall s p l g, select s p = Some (l, g, true) -> evidence g.
Proof.
  intros s p l g H. apply select_priority in H. destruct H as [_ Hb].
  unfold evidence. destruct g; cbn in Hb; auto; discriminate.
Qed.

Lemma by_ssrc_recv : forall s p x l,
  In (x, l) (by_ssrc (fst (recv s p))) ->
  In (x, l) (by_ssrc s) \/ (p_ssrc p = x /\ exists g, select s p = Some (l, g, true) /\ evidence g).
Proof.
  intros s p x l. unfold recv. destruct (select s p) as [[[l' g] b]|] eqn:S; cbn [fst]; auto.
  destruct b.
  - assert (Hb : In (x, l) (by_ssrc (bind_ssrc_route s (p_ssrc p) l')) ->
                 In (x, l) (by_ssrc s) \/ (p_ssrc p = x /\ l' = l)).
    { cbn. intro H. apply In_zput in H. destruct H as [[H1 H2]|H]; subst; auto. left. eapply In_keep_open; eauto. }
    destruct (is_closed _ l'); cbn [fst].
    + cbn [remove_sender by_ssrc set_by_ssrc]. intro H. apply In_drop_tx in H. unfold zdel in H. apply filter_In in H.
      destruct H as [H _]. apply Hb in H. destruct H as [H|[H1 H2]]; auto. subst. right. split; auto.
      exists g. split; auto. eapply select_bind_evidence; eauto.
    + intro H. apply Hb in H. destruct H as [H|[H1 H2]]; auto. subst. right. split; auto.
      exists g. split; auto. eapply select_bind_evidence; eauto.
  - destruct (is_closed s l'); cbn [fst]; auto.
    cbn [remove_sender by_ssrc set_by_ssrc]. intro H. apply In_drop_tx in H. unfold zdel in H. apply filter_In in H. tauto.
Qed.

Lemma by_ssrc_step : forall s o x l,
  In (x, l) (by_ssrc (fst (step s o))) -> In (x, l) (by_ssrc s) \/ binds s o x l.
Proof.
  intros s o x l. destruct o; cbn [step fst binds]; intro H.
  - cbn in H. apply In_zput in H. destruct H as [[H1 H2]|H]; subst; auto. left. eapply In_keep_open; eauto.
  - left. exact H.
  - unfold register_mid in H. rewrite by_ssrc_with_route in H. left. exact H.
  - unfold register_payload_type in H. rewrite by_ssrc_with_route in H. auto.
  - unfold register_payload_types in H. rewrite by_ssrc_with_route in H. auto.
  - unfold register_provisional in H. rewrite by_ssrc_with_route in H. auto.
  - left. exact H.
  - left. exact H.
  - left. exact H.
  - cbn in H. destruct H.
  - left. exact H.
  - apply by_ssrc_recv. exact H.
Qed.

Lemma binding_sound : forall ops s x l,
  In (x, l) (by_ssrc (run s ops)) ->
  In (x, l) (by_ssrc s) \/ exists pre o post, ops = pre ++ o :: post /\ binds (run s pre) o x l.
Proof.
  induction ops as [|o ops IH]; intros s x l H; cbn [run] in H; auto.
  apply IH in H. destruct H as [H|[pre [o' [post [E B]]]]].
  - apply by_ssrc_step in H. destruct H as [H|H]; auto.
    right. exists [], o, ops. split; auto.
  - right. exists (o :: pre), o', post. split; [cbn; rewrite E; reflexivity|]. exact B.
Qed.

Lemma binding_sound_init : forall ops x l,
  zget (by_ssrc (run init ops)) x = Some l ->
  exists pre o post, ops = pre ++ o :: post /\ binds (run init pre) o x l.
Proof. intros ops x l H. apply zget_In in H. apply binding_sound in H. destruct H as [[]|H]; auto. Qed.

(* a packet routed by the SSRC map or by the provisional fallback never adds a binding *)
Lemma fallback_never_binds : forall s p l g b,
  select s p = Some (l, g, b) -> g = StSsrc \/ g = StProv ->
  b = false /\ forall e, In e (by_ssrc (fst (recv s p))) -> In e (by_ssrc s).
Proof.
  intros s p l g b S Hg.
  assert (Hb : b = false).
  { apply select_priority in S. destruct S as [_ Hb]. destruct Hg; subst; reflexivity. }
  split; auto. subst b. intros [x l0] Hin. apply by_ssrc_recv in Hin. destruct Hin as [H|[_ [g' [S' _]]]]; auto.
  rewrite S in S'. discriminate.
Qed.

(* ------------------------------------------------------------------ closed listeners *)
Lemma is_closed_step_mono : forall s o l, is_closed s l = true -> is_closed (fst (step s o)) l = true.
Proof.
  intros s o l H.
  assert (G : forall s', (forall x, In x (closed s) -> In x (closed s')) -> is_closed s' l = true).
  { intros s' Hsub. unfold is_closed in *. apply existsb_exists in H. destruct H as [x [Hx E]].
    apply existsb_exists. exists x. auto. }
  apply G. destruct o; cbn [step fst]; intros x Hx.
  - exact Hx.
  - exact Hx.
  - unfold register_mid. rewrite closed_with_route. exact Hx.
  - unfold register_payload_type. rewrite closed_with_route. exact Hx.
  - unfold register_payload_types. rewrite closed_with_route. exact Hx.
  - unfold register_provisional. rewrite closed_with_route. exact Hx.
  - exact Hx.
  - exact Hx.
  - cbn. right. exact Hx.
  - exact Hx.
  - exact Hx.
  - unfold recv. destruct (select s p) as [[[l' g] b]|]; cbn; auto.
    destruct b; destruct (is_closed _ l'); cbn; auto.
Qed.

Lemma closed_never_receives_step : forall s o l, is_closed s l = true -> ~ In l (snd (step s o)).
Proof.
  intros s o l C Hin. destruct o; cbn [step snd] in Hin; try (destruct Hin; fail).
  apply recv_delivers in Hin. destruct Hin as [g [b [_ C']]]. congruence.
Qed.

Lemma closed_never_receives : forall ops s l, is_closed s l = true -> ~ In l (concat (run_out s ops)).
Proof.
  induction ops as [|o ops IH]; intros s l C; cbn [run_out concat]; [tauto|].
  intro Hin. apply in_app_or in Hin. destruct Hin as [Hin|Hin].
  - eapply closed_never_receives_step; eauto.
  - eapply IH; [|exact Hin]. apply is_closed_step_mono. exact C.
Qed.

Lemma occurs_remove_sender : forall s l, occurs (remove_sender s l) l = false.
Proof.
  intros s l. unfold occurs, remove_sender, drop_tx. cbn [by_ssrc by_rid by_mid routes].
  rewrite (existsb_filter_false _ (fun e : Z * lid => snd e =? l)).
  rewrite (existsb_filter_false _ (fun e : key * lid => snd e =? l)).
  rewrite (existsb_filter_false _ (fun e : key * lid => snd e =? l)).
  rewrite (existsb_filter_false _ (fun r : route => r_tx r =? l)). reflexivity.
Qed.

Lemma closed_observed_removed : forall s p l g b,
  select s p = Some (l, g, b) -> is_closed s l = true ->
  snd (recv s p) = [] /\ occurs (fst (recv s p)) l = false.
Proof.
  intros s p l g b S C. split; [eapply recv_closed_drops; eauto|].
  unfold recv. rewrite S.
  assert (Hc : is_closed (if b then bind_ssrc_route s (p_ssrc p) l else s) l = true) by (destruct b; auto).
  rewrite Hc. cbn [fst]. apply occurs_remove_sender.
Qed.

(* occurs is not created by operations that do not name the listener *)
Definition occ4 (s : st) (l : lid) : Prop :=
  existsb (fun e => snd e =? l) (by_ssrc s) = false /\ existsb (fun e => snd e =? l) (by_rid s) = false /\
  existsb (fun e => snd e =? l) (by_mid s) = false /\ existsb (fun r => r_tx r =? l) (routes s) = false.

Lemma occurs_false_iff : forall s l, occurs s l = false <-> occ4 s l.
Proof.
  intros s l. unfold occurs, occ4. rewrite !orb_false_iff. tauto.
Qed.

Lemma update_first_tx : forall l f rs l0,
  (forall r, r_tx (f r) = r_tx r) ->
  existsb (fun r => r_tx r =? l0) (update_first l f rs) = existsb (fun r => r_tx r =? l0) rs.
Proof.
  intros l f rs l0 Hf. induction rs as [|r rs IH]; cbn; auto.
  destruct (r_tx r =? l); cbn; [rewrite Hf; reflexivity|]. rewrite IH. reflexivity.
Qed.

Lemma with_route_routes_tx : forall s l f l0,
  (forall r, r_tx (f r) = r_tx r) -> l <> l0 ->
  existsb (fun r => r_tx r =? l0) (routes s) = false ->
  existsb (fun r => r_tx r =? l0) (routes (with_route s l f)) = false.
Proof.
  intros s l f l0 Hf Hne H. unfold with_route. destruct (existsb (fun r => r_tx r =? l) (routes s)) eqn:E; cbn [routes set_routes].
  - rewrite update_first_tx; auto.
  - apply existsb_app_false.
    + apply existsb_filter_mono. exact H.
    + cbn. rewrite Hf. cbn. apply Z.eqb_neq in Hne. rewrite Hne. reflexivity.
Qed.

Lemma existsb_zput_false : forall m k v l,
  v <> l -> existsb (fun e : Z * lid => snd e =? l) m = false ->
  existsb (fun e : Z * lid => snd e =? l) (zput m k v) = false.
Proof.
  intros m k v l Hne H. unfold zput, zdel. cbn. apply Z.eqb_neq in Hne. rewrite Hne. cbn.
  apply existsb_filter_mono. exact H.
Qed.

Lemma existsb_kput_false : forall m k v l,
  v <> l -> existsb (fun e : key * lid => snd e =? l) m = false ->
  existsb (fun e : key * lid => snd e =? l) (kput m k v) = false.
Proof.
  intros m k v l Hne H. unfold kput, kdel. cbn. apply Z.eqb_neq in Hne. rewrite Hne. cbn.
  apply existsb_filter_mono. exact H.
Qed.

Lemma occ4_with_route : forall s l f l0,
  (forall r, r_tx (f r) = r_tx r) -> l <> l0 -> occ4 s l0 -> occ4 (with_route s l f) l0.
Proof.
  intros s l f l0 Hf Hne [H1 [H2 [H3 H4]]]. unfold occ4.
  rewrite by_ssrc_with_route, by_rid_with_route, by_mid_with_route.
  repeat split; auto. apply with_route_routes_tx; auto.
Qed.

Lemma occ4_recv : forall s p l, occ4 s l -> occ4 (fst (recv s p)) l.
Proof.
  intros s p l O. unfold recv. destruct (select s p) as [[[l' g] b]|] eqn:S; cbn [fst]; auto.
  assert (Hne : l' <> l).
  { intro E. subst. apply select_occurs in S. apply occurs_false_iff in O. congruence. }
  assert (O1 : occ4 (if b then bind_ssrc_route s (p_ssrc p) l' else s) l).
  { destruct b; auto. destruct O as [H1 [H2 [H3 H4]]]. unfold occ4. cbn. repeat split; auto.
    apply existsb_zput_false; auto. apply existsb_filter_mono. exact H1. }
  destruct (is_closed _ l'); cbn [fst]; auto.
  destruct O1 as [H1 [H2 [H3 H4]]]. unfold occ4, remove_sender, drop_tx. cbn [by_ssrc by_rid by_mid routes set_by_ssrc].
  repeat split; apply existsb_filter_mono; auto. unfold zdel. apply existsb_filter_mono. exact H1.
Qed.

Lemma occ4_step : forall s o l, occ4 s l -> registers o l = false -> occ4 (fst (step s o)) l.
Proof.
  intros s o l O R. destruct o; cbn [step fst registers] in *.
  - apply Z.eqb_neq in R. destruct O as [H1 [H2 [H3 H4]]]. unfold occ4. cbn. repeat split; auto.
    apply existsb_zput_false; auto. apply existsb_filter_mono. exact H1.
  - apply Z.eqb_neq in R. destruct O as [H1 [H2 [H3 H4]]]. unfold occ4. cbn. repeat split; auto.
    apply existsb_kput_false; auto. apply existsb_filter_mono. exact H2.
  - apply Z.eqb_neq in R. unfold register_mid. apply occ4_with_route; auto.
    destruct O as [H1 [H2 [H3 H4]]]. unfold occ4. cbn. repeat split; auto. apply existsb_kput_false; auto.
  - apply Z.eqb_neq in R. unfold register_payload_type. apply occ4_with_route; auto.
  - apply Z.eqb_neq in R. unfold register_payload_types. apply occ4_with_route; auto.
  - apply Z.eqb_neq in R. unfold register_provisional. apply occ4_with_route; auto.
  - exact O.
  - exact O.
  - exact O.
  - destruct O as [H1 [H2 [H3 H4]]]. unfold occ4, clear_listeners. cbn. auto.
  - exact O.
  - apply occ4_recv. exact O.
Qed.

Lemma occurs_preserved : forall ops s l,
  occurs s l = false -> Forall (fun o => registers o l = false) ops -> occurs (run s ops) l = false.
Proof.
  induction ops as [|o ops IH]; intros s l O F; cbn [run]; auto.
  inversion F; subst. apply IH; auto. apply occurs_false_iff. apply occ4_step; auto. apply occurs_false_iff. exact O.
Qed.

Lemma not_occurring_not_selected : forall s p l g b, occurs s l = false -> select s p <> Some (l, g, b).
Proof. intros s p l g b O S. apply select_occurs in S. congruence. Qed.

Lemma closed_never_again : forall s p l g b ops,
  select s p = Some (l, g, b) -> is_closed s l = true ->
  Forall (fun o => registers o l = false) ops ->
  let s' := fst (recv s p) in
  snd (recv s p) = [] /\ occurs (run s' ops) l = false /\
  (forall pre p' post g' b', ops = pre ++ Recv p' :: post -> select (run s' pre) p' <> Some (l, g', b')).
Proof.
  intros s p l g b ops S C F s'.
  destruct (closed_observed_removed s p l g b S C) as [H1 H2].
  split; auto. split; [apply occurs_preserved; auto|].
  intros pre p' post g' b' E. apply not_occurring_not_selected. apply occurs_preserved; auto.
  subst ops. apply Forall_app in F. tauto.
Qed.

(* ------------------------------------------------------------------ clear_listeners *)
Lemma clear_drops_all : forall s p,
  select (clear_listeners s) p = None /\ recv (clear_listeners s) p = (clear_listeners s, []) /\
  forall l, occurs (clear_listeners s) l = false.
Proof.
  intros s p.
  assert (S : select (clear_listeners s) p = None).
  { rewrite select_unfold. unfold rid_match, mid_match, ssrc_match, lookup_stage.
    cbn [clear_listeners by_rid by_mid by_ssrc routes].
    destruct (pkt_rid _ p); destruct (pkt_mid _ p); reflexivity. }
  split; auto. split.
  - unfold recv. rewrite S. reflexivity.
  - intro l. reflexivity.
Qed.

(* ------------------------------------------------------------------ ambiguous payload type *)
Lemma ambiguous_pt : forall s p r1 r2,
  In r1 (routes s) -> In r2 (routes s) ->
  has_pt (p_pt p) r1 = true -> has_pt (p_pt p) r2 = true -> r_tx r1 <> r_tx r2 ->
  rid_match s p = None -> mid_match s p = None -> ssrc_match s p = None ->
  (forall l g b, select s p = Some (l, g, b) -> g = StProv /\ b = false /\ prov_unique s l) /\
  ((forall l, ~ prov_unique s l) -> recv s p = (s, [])).
Proof.
  intros s p r1 r2 I1 I2 W1 W2 Hne R M S.
  assert (NU : forall l, ~ pt_unique s p l).
  { unfold pt_unique. apply (two_routes_not_unique _ _ r1 r2); auto. }
  split.
  - intros l g b Sel. apply select_priority in Sel. destruct Sel as [C Hb].
    inversion C; subst; try congruence.
    + exfalso. eapply NU; eauto.
    + auto.
  - intro NP. assert (Sel : select s p = None). { apply select_none. auto. }
    unfold recv. rewrite Sel. reflexivity.
Qed.

Lemma ambiguous_pt_dropped : forall s p r1 r2,
  In r1 (routes s) -> In r2 (routes s) ->
  has_pt (p_pt p) r1 = true -> has_pt (p_pt p) r2 = true -> r_tx r1 <> r_tx r2 ->
  rid_match s p = None -> mid_match s p = None -> ssrc_match s p = None ->
  (forall r, In r (routes s) -> r_prov r = false) ->
  recv s p = (s, []).
Proof.
  intros s p r1 r2 I1 I2 W1 W2 Hne R M S NP.
  destruct (ambiguous_pt s p r1 r2 I1 I2 W1 W2 Hne R M S) as [_ H]. apply H.
  unfold prov_unique. apply no_route_not_unique. exact NP.
Qed.

(* unknown payload type and nothing else: dropped unless a single provisional listener exists *)
Lemma unknown_pt_dropped : forall s p,
  rid_match s p = None -> mid_match s p = None -> ssrc_match s p = None ->
  (forall r, In r (routes s) -> has_pt (p_pt p) r = false) ->
  (forall r, In r (routes s) -> r_prov r = false) ->
  recv s p = (s, []).
Proof.
  intros s p R M S NPt NP. assert (Sel : select s p = None).
  { apply select_none. repeat split; auto.
    - unfold pt_unique. apply no_route_not_unique. exact NPt.
    - unfold prov_unique. apply no_route_not_unique. exact NP. }
  unfold recv. rewrite Sel. reflexivity.
Qed.

(* ------------------------------------------------------------------ premises are satisfiable (examples) *)
Definition ex_mid_ext (m : list Z) : list (Z * list Z) := [(1, m)].

(* two sections share payload type 96; the MID decides, the SSRC is learnt, a later packet without
   MID follows the learnt binding; an unknown SSRC with the shared payload type is dropped *)
Example ex_mid_routing :
  run_out init [SetMidId 1; RegMid [97] 10; RegPtList [96] 10; RegMid [118] 20; RegPtList [96] 20;
                Recv (mkPkt 5555 96 (ex_mid_ext [118])); Recv (mkPkt 5555 96 []); Recv (mkPkt 7777 96 [])]
  = [[]; []; []; []; []; [20]; [20]; []].
Proof. vm_compute. reflexivity. Qed.

(* a listener observed closed disappears from every map *)
Example ex_closed :
  let ops := [SetMidId 1; RegMid [97] 10; RegPt 96 10; RegSsrc 1 10; Close 10;
              Recv (mkPkt 1 96 []); Recv (mkPkt 1 96 (ex_mid_ext [97]))] in
  run_out init ops = [[]; []; []; []; []; []; []] /\ occurs (run init ops) 10 = false.
Proof. vm_compute. split; reflexivity. Qed.

(* the provisional fallback delivers but never binds *)
Example ex_provisional :
  let ops := [RegProv 10; Recv (mkPkt 1111 0 [])] in
  run_out init ops = [[]; [10]] /\ has_listener (run init ops) 1111 = false.
Proof. vm_compute. split; reflexivity. Qed.

(* a MID that names no registered section falls through to the lower stages (here: the unique
   payload-type route of another section) -- the reason C19_mid_respected requires a registered MID *)
Example ex_unregistered_mid_falls_through :
  run_out init [SetMidId 1; RegMid [97] 10; RegPtList [96] 10; Recv (mkPkt 9 96 (ex_mid_ext [118]))]
  = [[]; []; []; [10]].
Proof. vm_compute. reflexivity. Qed.

(* after clear_listeners (fixed: it now also empties the MID map) nobody is registered: a
   MID-carrying packet no longer reaches the old listener *)
Example ex_clear_drops_mid :
  run_out init [SetMidId 1; RegMid [97] 10; ClearListeners; Recv (mkPkt 9 96 (ex_mid_ext [97]))]
  = [[]; []; []; []].
Proof. vm_compute. reflexivity. Qed.
