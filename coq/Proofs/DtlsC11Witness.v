(* C11: convergence -- witnesses and finite facts computed on the symbolic instance `sym`
   (Model/DtlsSym.v) with the fair-loss scheduler of Model/DtlsPair.v, and the reassembly lemma.
   The retransmit timer is an abstract tick: one `round` = both ticks fire and everything emitted
   since is delivered once, in order.  The handshake deadline is DTLS_HANDSHAKE_TIMEOUT_SECS /
   RETRANSMIT_SECS = 30 rounds away. *)
From Coq Require Import ZArith List Bool Lia.
From RV Require Import Gen.Dtls Model.DtlsHs Model.DtlsPair Model.DtlsSym Proofs.DtlsSymProofs.
Import ListNotations.
Open Scope Z_scope.

Definition pair_codes (x : sched tm) : Z * Z :=
  (state_code (h_c (sp x)), state_code (h_s (sp x))).

Definition both_agree (x : sched tm) : bool :=
  match st (h_c (sp x)), st (h_s (sp x)) with
  | StConnected k1 p1, StConnected k2 p2 =>
      keys_eqb k1 k2 && match p1, p2 with Some a, Some b => a =? b | None, None => true | _, _ => false end
  | _, _ => false
  end.

Definition start0 : sched tm := sched_start sym (client_cfg 1) (server_cfg 0).

(* first transmission only: the client emits instances 0 ClientHello, 1 ClientKeyExchange,
   2 ChangeCipherSpec, 3 Finished; the server 0 ServerHello, 1 Certificate, 2 ServerKeyExchange,
   3 ServerHelloDone, 4 ChangeCipherSpec, 5 Finished *)
Definition lose_client (i : nat) : sched tm := flush sym 64 (Nat.eqb i) no_drop start0.
Definition lose_server (i : nat) : sched tm := flush sym 64 no_drop (Nat.eqb i) start0.

Definition max_rounds : nat := Z.to_nat (DTLS_HANDSHAKE_TIMEOUT_SECS / RETRANSMIT_SECS).

(* lossless: both Connected on identical keys *)
Lemma lossless_converges : both_agree (flush sym 64 no_drop no_drop start0) = true.
Proof. vm_compute. reflexivity. Qed.

(* every single lost datagram -- including, after the fixes c3f15a2 and 1decd50, the ClientKeyExchange
   and the server's Finished -- is repaired by ONE retransmission round *)
Lemma single_loss_recovers :
  forallb (fun i => both_agree (round sym (lose_client i))) (seq 0 4) = true /\
  forallb (fun i => both_agree (round sym (lose_server i))) (seq 0 6) = true.
Proof. split; vm_compute; reflexivity. Qed.

(* the same datagram lost on its first n transmissions is repaired by round n+1 (n = 1, 2, 3):
   the k-th transmission of an instance has a fresh index, so "lose the first n" = lose by position *)
Definition mem (l : list nat) (i : nat) : bool := existsb (Nat.eqb i) l.
Definition lose_sets (cs ss : list nat) : sched tm := flush sym 64 (mem cs) (mem ss) start0.

(* any two distinct datagrams of the ten lost together (first transmission) are repaired within two
   rounds *)
Definition datagrams : list (bool * nat) :=
  map (fun i => (true, i)) (seq 0 4) ++ map (fun i => (false, i)) (seq 0 6).
Definition lose_two (a b : bool * nat) : sched tm :=
  lose_sets ((if fst a then [snd a] else []) ++ (if fst b then [snd b] else []))
            ((if fst a then [] else [snd a]) ++ (if fst b then [] else [snd b])).

Lemma double_loss_recovers :
  forallb (fun a => forallb (fun b => both_agree (rounds sym 2 (lose_two a b))) datagrams) datagrams = true.
Proof. vm_compute. reflexivity. Qed.

(* the server's Finished lost on its first TWO transmissions (instances 5 and 7: the original and the
   answer to the client's first retransmission) is repaired by the third: the Connected server keeps its
   last flight and answers every retransmitted client Finished *)
Definition round_losing (cs ss : list nat) (x : sched tm) : sched tm :=
  flush sym 64 (mem cs) (mem ss)
        (mkSched (hstep sym (hstep sym (sp x) (HTick Client)) (HTick Server)) (dc x) (ds x)).

Lemma server_finished_lost_twice_recovers :
  pair_codes (round_losing [] [5; 7]%nat (lose_sets [] [5; 7]%nat)) = (1, 2) /\
  both_agree (round sym (round_losing [] [5; 7]%nat (lose_sets [] [5; 7]%nat))) = true.
Proof. split; vm_compute; reflexivity. Qed.

(* F19 witness kept as a regression: before 1decd50 this pair stayed (Handshaking, Connected) for all 30
   rounds up to the deadline; now one round repairs it *)
Lemma lost_server_finished_recovers :
  pair_codes (lose_server 5) = (1, 2) /\ both_agree (round sym (lose_server 5)) = true.
Proof. split; vm_compute; reflexivity. Qed.

(* ------------------------------------------------------------------ fragments *)
Section Reassembly.
Context {T : Type} (C : crypto T).
Hypothesis eqb_refl : forall a, t_eqb C a a = true.

Lemma body_is_refl (b : body T) : b <> BGarbled -> body_is C b b = true.
Proof.
  intros Hg. destruct b; cbn [body_is]; rewrite ?eqb_refl, ?Z.eqb_refl; cbn [andb].
  - rewrite Bool.eqb_reflx. destruct (list_eq_dec Z.eq_dec profiles profiles); [reflexivity | congruence].
  - rewrite Bool.eqb_reflx. destruct profile; [rewrite Z.eqb_refl |]; reflexivity.
  - reflexivity.
  - clear Hg. induction certs as [| x xs IH]; [reflexivity |]. rewrite eqb_refl. exact IH.
  - reflexivity.
  - reflexivity.
  - reflexivity.
  - reflexivity.
  - congruence.
Qed.

(* consecutive slices of b: [pos, c1), [c1, c2), ..., [cn, end) *)
Fixpoint slices (b : body T) (pos : Z) (cuts : list Z) : list (chunk T) :=
  match cuts with
  | [] => [CSlice b pos None]
  | c :: rest => CSlice b pos (Some c) :: slices b c rest
  end.

Fixpoint increasing (pos : Z) (cuts : list Z) : Prop :=
  match cuts with [] => True | c :: rest => pos < c /\ increasing c rest end.

Lemma contiguous_slices b : b <> BGarbled -> forall cuts pos, increasing pos cuts -> contiguous C b pos (slices b pos cuts) = true.
Proof.
  intros Hg. induction cuts as [| c rest IH]; intros pos Hinc; cbn.
  - rewrite (body_is_refl b Hg), Z.eqb_refl. reflexivity.
  - destruct Hinc as (Hlt & Hrest). rewrite (body_is_refl b Hg), Z.eqb_refl. cbn.
    apply Z.ltb_lt in Hlt. rewrite Hlt. cbn. apply IH, Hrest.
Qed.

(* fragments of one message delivered in offset order without duplication reassemble to it *)
Theorem reassembly_in_order (b : body T) (cuts : list Z) :
  increasing 0 cuts -> assemble C (slices b 0 cuts) = b.
Proof.
  intros Hinc.
  assert (Hdec : b = BGarbled \/ b <> BGarbled) by (destruct b; auto; right; discriminate).
  destruct Hdec as [-> | Hg].
  - destruct cuts as [| c rest]; reflexivity.
  - pose proof (contiguous_slices b Hg cuts 0 Hinc) as Hc.
    destruct cuts as [| c rest]; cbn [slices assemble] in *; rewrite Hc; reflexivity.
Qed.

(* ---- after 03019cb: whatever the arrival order, a buffer fed with honest fragments of ONE message
   only ever holds a prefix of it; it completes to exactly that message or not at all ---- *)
Fixpoint chain (b : body T) (pos : Z) (cs : list (chunk T)) (n : Z) : Prop :=
  match cs with
  | [] => pos = n
  | CSlice b' lo (Some hi) :: rest => b' = b /\ lo = pos /\ pos < hi /\ chain b hi rest n
  | _ => False
  end.

(* a legal fragment of the message with body b and length total (any cut points) *)
Definition hfrag (b : body T) (total : Z) (f : frag T) : Prop :=
  f_total f = total /\ f_total f <> f_len f /\ 0 <= f_off f /\ 0 < f_len f /\ f_off f + f_len f <= total /\
  f_data f = CSlice b (f_off f) (if f_off f + f_len f =? total then None else Some (f_off f + f_len f)).

Lemma chain_snoc b : forall cs pos n hi, chain b pos cs n -> n < hi -> chain b pos (cs ++ [CSlice b n (Some hi)]) hi.
Proof.
  induction cs as [| k rest IH]; intros pos n hi Hc Hlt; cbn in *.
  - subst. auto.
  - destruct k as [| b' lo [h |]]; try contradiction. destruct Hc as (-> & -> & Hp & Hr). repeat split; auto.
Qed.

Lemma chain_contiguous b : b <> BGarbled -> forall cs pos n, chain b pos cs n ->
  contiguous C b pos (cs ++ [CSlice b n None]) = true.
Proof.
  intros Hg. induction cs as [| k rest IH]; intros pos n Hc; cbn in *.
  - subst. rewrite (body_is_refl b Hg), Z.eqb_refl. reflexivity.
  - destruct k as [| b' lo [h |]]; try contradiction. destruct Hc as (-> & -> & Hp & Hr).
    rewrite (body_is_refl b Hg), Z.eqb_refl. apply Z.ltb_lt in Hp. rewrite Hp. cbn. apply IH, Hr.
Qed.

Lemma assemble_chain b : b <> BGarbled -> forall cs n, chain b 0 cs n -> assemble C (cs ++ [CSlice b n None]) = b.
Proof.
  intros Hg cs n Hc. pose proof (chain_contiguous b Hg cs 0 n Hc) as Hk.
  destruct cs as [| k rest]; cbn [app assemble] in *; [rewrite Hk; reflexivity |].
  destruct k as [| b' lo [h |]]; cbn in Hc; try contradiction. destruct Hc as (-> & _). rewrite Hk. reflexivity.
Qed.

Theorem reassemble_honest (b : body T) (total : Z) (c : ctx T) (f : frag T) c' ob :
  b <> BGarbled -> hfrag b total f ->
  (inc_seq c = f_seq f -> chain b 0 (inc c) (inc_len c)) ->
  reassemble C c f = (c', ob) ->
  (ob = None /\ inc_seq c' = f_seq f /\ chain b 0 (inc c') (inc_len c')) \/
  (ob = Some b /\ inc c' = [] /\ inc_len c' = 0).
Proof.
  intros Hg (Ht & Hne & Ho & Hl & Hle & Hd) Hinv H. unfold reassemble in H.
  destruct (f_total f =? f_len f) eqn:E; [apply Z.eqb_eq in E; contradiction |].
  set (c1 := if negb (inc_seq c =? f_seq f) || (f_off f =? 0)
             then RecordSet.set inc_seq (fun _ => f_seq f) (RecordSet.set inc_len (fun _ => 0) (RecordSet.set inc (fun _ => []) c)) else c) in *.
  assert (H1 : inc_seq c1 = f_seq f /\ chain b 0 (inc c1) (inc_len c1)).
  { subst c1. destruct (negb (inc_seq c =? f_seq f) || (f_off f =? 0)) eqn:Er; cbn.
    - split; reflexivity.
    - apply orb_false_elim in Er. destruct Er as (Er & _). apply negb_false_iff, Z.eqb_eq in Er. auto. }
  destruct H1 as (Hs1 & Hc1).
  destruct (negb (f_off f =? inc_len c1) || (f_total f <? f_off f + f_len f)) eqn:Ed.
  - injection H as <- <-. left. auto.
  - apply orb_false_elim in Ed. destruct Ed as (Ed & _). apply negb_false_iff, Z.eqb_eq in Ed.
    cbn in H. rewrite Hd in H.
    destruct (f_off f + f_len f =? total) eqn:Ee.
    + apply Z.eqb_eq in Ee. assert (Hge : (inc_len c1 + f_len f <? f_total f) = false) by (apply Z.ltb_ge; lia).
      rewrite Hge in H. injection H as <- <-. right. cbn. rewrite Ed. rewrite (assemble_chain b Hg _ _ Hc1). auto.
    + apply Z.eqb_neq in Ee. assert (Hlt : (inc_len c1 + f_len f <? f_total f) = true) by (apply Z.ltb_lt; lia).
      rewrite Hlt in H. injection H as <- <-. left. cbn. repeat split; auto.
      rewrite <- Ed. apply chain_snoc; [rewrite Ed; exact Hc1 | lia].
Qed.

End Reassembly.

(* F20 (fixed 03019cb): three fragments of the Certificate in ANY order, with or without duplicates, never
   poison the handshake: the client is never Failed; it either completes the message or waits, and one
   retransmission of the flight (here unfragmented) lets it go on to send its own flight *)
Definition frag_events (order : list (Z * option Z * Z)) : list gevent :=
  [GDeliver Server [DRef 0 0 []]; GDeliver Client [DRef 0 0 []]] ++
  map (fun '(lo, hi, len) => GDeliver Client [DRef 0 1 [XSlice lo hi 360 len]]) order ++
  [GDeliver Client [DRef 0 2 []]; GDeliver Client [DRef 0 3 []]].
Definition reflight : list gevent :=
  [GDeliver Client [DRef 0 0 []]; GDeliver Client [DRef 0 1 []]; GDeliver Client [DRef 0 2 []]; GDeliver Client [DRef 0 3 []]].

Definition fA : Z * option Z * Z := (0, Some 100, 100).
Definition fB : Z * option Z * Z := (100, Some 200, 100).
Definition fC : Z * option Z * Z := (200, None, 160).
Definition frag_orders : list (list (Z * option Z * Z)) :=
  [[fA; fB; fC]; [fA; fC; fB]; [fB; fA; fC]; [fB; fC; fA]; [fC; fA; fB]; [fC; fB; fA];
   [fA; fB; fB; fC]; [fA; fA; fB; fC]; [fA; fB; fC; fC]; [fA; fB; fA; fC]; [fB; fB; fC; fC]; [fA; fC; fC; fB; fA]].

Definition frag_ok (order : list (Z * option Z * Z)) : bool :=
  let p1 := grun (pair_start 1 0) (frag_events order) in
  let p2 := grun p1 reflight in
  negb (state_code (p_c p1) =? 3) && (last_fail (p_c p2) =? 0) && (state_code (p_c p2) =? 1) &&
  Nat.eqb (length (sent (p_cout p2))) 4.

Lemma fragments_any_order_heal : forallb frag_ok frag_orders = true.
Proof. vm_compute. reflexivity. Qed.

Lemma fragments_in_order_complete :
  let p := grun (pair_start 1 0) (frag_events [fA; fB; fC]) in
  (state_code (p_c p), last_fail (p_c p), length (sent (p_cout p))) = (1, 0, 4%nat).
Proof. vm_compute. reflexivity. Qed.

(* the premises of the agreement theorems hold in the instance *)
Lemma sym_eqb_refl : forall a, t_eqb sym a a = true.
Proof. exact tm_eqb_refl. Qed.
Lemma sym_prf_inj_secret : forall s l d s' l' d', prf sym s l d = prf sym s' l' d' -> s = s'.
Proof. intros s l d s' l' d' H. apply sym_prf_inj in H. apply H. Qed.
Lemma sym_prf_nonzero : forall s l d, prf sym s l d <> zero_vd sym.
Proof. intros s l d. cbn. discriminate. Qed.
