(* C11: convergence -- witnesses and finite facts computed on the symbolic instance `sym`
   (Model/DtlsSym.v) with the fair-loss scheduler of Model/DtlsPair.v, and the reassembly lemma.
   The retransmit timer is an abstract tick: one `round` = both ticks fire and everything emitted
   since is delivered once, in order.  The handshake deadline is DTLS_HANDSHAKE_TIMEOUT_SECS /
   RETRANSMIT_SECS = 30 rounds away. *)
From Coq Require Import ZArith List Bool Lia.
From RV Require Import Gen.Dtls Model.DtlsHs Model.DtlsPair Model.DtlsSym Proofs.DtlsSymProofs.
Import ListNotations.
Open Scope Z_scope.

Definition pair_codes (x : sched tm) : Z * Z :=
  (state_code (h_c (sp x)), state_code (h_s (sp x))).

Definition both_agree (x : sched tm) : bool :=
  match st (h_c (sp x)), st (h_s (sp x)) with
  | StConnected k1 p1, StConnected k2 p2 =>
      keys_eqb k1 k2 && match p1, p2 with Some a, Some b => a =? b | None, None => true | _, _ => false end
  | _, _ => false
  end.

Definition start0 : sched tm := sched_start sym (client_cfg 1) (server_cfg 0).

(* first transmission only: the client emits instances 0 ClientHello, 1 ClientKeyExchange,
   2 ChangeCipherSpec, 3 Finished; the server 0 ServerHello, 1 Certificate, 2 ServerKeyExchange,
   3 ServerHelloDone, 4 ChangeCipherSpec, 5 Finished *)
Definition lose_client (i : nat) : sched tm := flush sym 64 (Nat.eqb i) no_drop start0.
Definition lose_server (i : nat) : sched tm := flush sym 64 no_drop (Nat.eqb i) start0.

Definition max_rounds : nat := Z.to_nat (DTLS_HANDSHAKE_TIMEOUT_SECS / RETRANSMIT_SECS).

(* lossless: both Connected on identical keys *)
Lemma lossless_converges : both_agree (flush sym 64 no_drop no_drop start0) = true.
Proof. vm_compute. reflexivity. Qed.

(* every single lost datagram -- including, after the fixes c3f15a2 and 1decd50, the ClientKeyExchange
   and the server's Finished -- is repaired by ONE retransmission round *)
Lemma single_loss_recovers :
  forallb (fun i => both_agree (round sym (lose_client i))) (seq 0 4) = true /\
  forallb (fun i => both_agree (round sym (lose_server i))) (seq 0 6) = true.
Proof. split; vm_compute; reflexivity. Qed.

(* the same datagram lost on its first n transmissions is repaired by round n+1 (n = 1, 2, 3):
   the k-th transmission of an instance has a fresh index, so "lose the first n" = lose by position *)
Definition mem (l : list nat) (i : nat) : bool := existsb (Nat.eqb i) l.
Definition lose_sets (cs ss : list nat) : sched tm := flush sym 64 (mem cs) (mem ss) start0.

(* any two distinct datagrams of the ten lost together (first transmission) are repaired within two
   rounds *)
Definition datagrams : list (bool * nat) :=
  map (fun i => (true, i)) (seq 0 4) ++ map (fun i => (false, i)) (seq 0 6).
Definition lose_two (a b : bool * nat) : sched tm :=
  lose_sets ((if fst a then [snd a] else []) ++ (if fst b then [snd b] else []))
            ((if fst a then [] else [snd a]) ++ (if fst b then [] else [snd b])).

Lemma double_loss_recovers :
  forallb (fun a => forallb (fun b => both_agree (rounds sym 2 (lose_two a b))) datagrams) datagrams = true.
Proof. vm_compute. reflexivity. Qed.

(* the server's Finished lost on its first TWO transmissions (instances 5 and 7: the original and the
   answer to the client's first retransmission) is repaired by the third: the Connected server keeps its
   last flight and answers every retransmitted client Finished *)
Definition round_losing (cs ss : list nat) (x : sched tm) : sched tm :=
  flush sym 64 (mem cs) (mem ss)
        (mkSched (hstep sym (hstep sym (sp x) (HTick Client)) (HTick Server)) (dc x) (ds x)).

Lemma server_finished_lost_twice_recovers :
  pair_codes (round_losing [] [5; 7]%nat (lose_sets [] [5; 7]%nat)) = (1, 2) /\
  both_agree (round sym (round_losing [] [5; 7]%nat (lose_sets [] [5; 7]%nat))) = true.
Proof. split; vm_compute; reflexivity. Qed.

(* F19 witness kept as a regression: before 1decd50 this pair stayed (Handshaking, Connected) for all 30
   rounds up to the deadline; now one round repairs it *)
Lemma lost_server_finished_recovers :
  pair_codes (lose_server 5) = (1, 2) /\ both_agree (round sym (lose_server 5)) = true.
Proof. split; vm_compute; reflexivity. Qed.

(* ------------------------------------------------------------------ fragments *)
Section Reassembly.
Context {T : Type} (C : crypto T).
Hypothesis eqb_refl : forall a, t_eqb C a a = true.

Lemma body_is_refl (b : body T) : b <> BGarbled -> body_is C b b = true.
Proof.
  intros Hg. destruct b; cbn [body_is]; rewrite ?eqb_refl, ?Z.eqb_refl; cbn [andb].
  - rewrite Bool.eqb_reflx. destruct (list_eq_dec Z.eq_dec profiles profiles); [reflexivity | congruence].
  - rewrite Bool.eqb_reflx. destruct profile; [rewrite Z.eqb_refl |]; reflexivity.
  - reflexivity.
  - clear Hg. induction certs as [| x xs IH]; [reflexivity |]. rewrite eqb_refl. exact IH.
  - reflexivity.
  - reflexivity.
  - reflexivity.
  - reflexivity.
  - congruence.
Qed.

(* consecutive slices of b: [pos, c1), [c1, c2), ..., [cn, end) *)
Fixpoint slices (b : body T) (pos : Z) (cuts : list Z) : list (chunk T) :=
  match cuts with
  | [] => [CSlice b pos None]
  | c :: rest => CSlice b pos (Some c) :: slices b c rest
  end.

Fixpoint increasing (pos : Z) (cuts : list Z) : Prop :=
  match cuts with [] => True | c :: rest => pos < c /\ increasing c rest end.

Lemma contiguous_slices b : b <> BGarbled -> forall cuts pos, increasing pos cuts -> contiguous C b pos (slices b pos cuts) = true.
Proof.
  intros Hg. induction cuts as [| c rest IH]; intros pos Hinc; cbn.
  - rewrite (body_is_refl b Hg), Z.eqb_refl. reflexivity.
  - destruct Hinc as (Hlt & Hrest). rewrite (body_is_refl b Hg), Z.eqb_refl. cbn.
    apply Z.ltb_lt in Hlt. rewrite Hlt. cbn. apply IH, Hrest.
Qed.

(* fragments of one message delivered in offset order without duplication reassemble to it *)
Theorem reassembly_in_order (b : body T) (cuts : list Z) :
  increasing 0 cuts -> assemble C (slices b 0 cuts) = b.
Proof.
  intros Hinc.
  assert (Hdec : b = BGarbled \/ b <> BGarbled) by (destruct b; auto; right; discriminate).
  destruct Hdec as [-> | Hg].
  - destruct cuts as [| c rest]; reflexivity.
  - pose proof (contiguous_slices b Hg cuts 0 Hinc) as Hc.
    destruct cuts as [| c rest]; cbn [slices assemble] in *; rewrite Hc; reflexivity.
Qed.

End Reassembly.

(* F20 (open): the fragment buffer appends in arrival order; three fragments of the Certificate in
   the order 0,2,1 (legal per RFC 6347) assemble to garbage, the client fails and -- Failed being
   absorbing -- no retransmission can repair it; the server is left Handshaking *)
Definition frag_events (order : list (Z * option Z * Z)) : list gevent :=
  [GDeliver Server [DRef 0 0 []]; GDeliver Client [DRef 0 0 []]] ++
  map (fun '(lo, hi, len) => GDeliver Client [DRef 0 1 [XSlice lo hi 360 len]]) order ++
  [GDeliver Client [DRef 0 2 []]; GDeliver Client [DRef 0 3 []]].

Lemma fragments_in_order_fine :
  let p := grun (pair_start 1 0) (frag_events [(0, Some 100, 100); (100, Some 200, 100); (200, None, 160)]) in
  (state_code (p_c p), last_fail (p_c p), length (sent (p_cout p))) = (1, 0, 4%nat).
Proof. vm_compute. reflexivity. Qed.

Lemma fragments_out_of_order_fail :
  let p := grun (pair_start 1 0) (frag_events [(0, Some 100, 100); (200, None, 160); (100, Some 200, 100)]) in
  (state_code (p_c p), state_code (p_s p), alive (p_c p)) = (3, 1, false).
Proof. vm_compute. reflexivity. Qed.

Lemma fragment_duplicate_fail :
  let p := grun (pair_start 1 0)
             (frag_events [(0, Some 100, 100); (100, Some 200, 100); (100, Some 200, 100); (200, None, 160)]) in
  (state_code (p_c p), state_code (p_s p)) = (3, 1).
Proof. vm_compute. reflexivity. Qed.

(* the premises of the agreement theorems hold in the instance *)
Lemma sym_eqb_refl : forall a, t_eqb sym a a = true.
Proof. exact tm_eqb_refl. Qed.
Lemma sym_prf_inj_secret : forall s l d s' l' d', prf sym s l d = prf sym s' l' d' -> s = s'.
Proof. intros s l d s' l' d' H. apply sym_prf_inj in H. apply H. Qed.
Lemma sym_prf_nonzero : forall s l d, prf sym s l d <> zero_vd sym.
Proof. intros s l d. cbn. discriminate. Qed.
