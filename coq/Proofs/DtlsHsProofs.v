(* Proofs about Model/DtlsHs.v for C02: what a Connected state proves about the handshake that
   produced it, for every sequence of inputs (the network/attacker is the universally quantified
   input list); Failed is absorbing; the exporter gate.
   Cryptography is the argument `C`; the only fact used about it here is that `t_eqb C` is sound
   (an explicit premise of every lemma that needs it). *)
From Coq Require Import ZArith List Bool Lia.
From RecordUpdate Require Import RecordSet.
From RV Require Import Gen.Dtls Model.DtlsHs.
Import ListNotations RecordSetNotations.
Open Scope Z_scope.

Section Proofs.
Context {T : Type} (C : crypto T).
Hypothesis eqb_sound : forall a b, t_eqb C a b = true -> a = b.

(* ------------------------------------------------------------------ what the ghost log means *)
Definition cert_ok (g : cfg T) (cert : T) : Prop :=
  (forall e, g_expected g = Some e -> fingerprint C cert = e) /\ cert_pk C cert <> None.

Definition fin_label (g : cfg T) : label :=
  match g_role g with Client => LServerFin | Server => LClientFin end.

Definition keys_from (g : cfg T) (k : keys T) (pms : T) (tr0 : list (hmsg T)) : Prop :=
  k_block k = prf C (k_ms k) LKeyExp [k_sr k; k_cr k] /\
  (k_ms k = prf C pms LExtMaster [hashT C tr0] \/ k_ms k = prf C pms LMaster [k_cr k; k_sr k]) /\
  match g_role g with Client => k_cr k = g_rand g | Server => k_sr k = g_rand g end.

Definition ev_ok (g : cfg T) (L : list (event T)) (e : event T) : Prop :=
  match e with
  | EvCert cert => cert_ok g cert
  | EvSke cert cr sr ct nc pk sg =>
      In (EvCert cert) L /\ cr = g_rand g /\
      exists vk, cert_pk C cert = Some vk /\ verify C vk [cr; sr; znum C ct; znum C nc; pk] sg = true
  | EvKeys k pms tr0 =>
      (exists pk, dh C (g_eph g) pk = Some pms /\
                  (g_role g = Client -> exists cert sr ct nc sg, In (EvSke cert (g_rand g) sr ct nc pk sg) L)) /\
      keys_from g k pms tr0
  | EvFinOk vd ms tr0 =>
      vd = prf C ms (fin_label g) [hashT C tr0] /\ exists k pms tr1, In (EvKeys k pms tr1) L /\ k_ms k = ms
  | EvConnected k p =>
      (exists vd tr0, In (EvFinOk vd (k_ms k) tr0) L) /\ exists pms tr1, In (EvKeys k pms tr1) L
  | _ => True
  end.

Lemma ev_ok_mono g L L' e : incl L L' -> ev_ok g L e -> ev_ok g L' e.
Proof.
  intros Hi. destruct e; cbn; auto.
  - intros (H1 & H2 & H3). split; [apply Hi, H1 | auto].
  - intros ((pk & Hd & Hs) & Hk). split; [| exact Hk]. exists pk. split; [exact Hd |].
    intros Hr. destruct (Hs Hr) as (cert & sr & ct & nc & sg & Hin). exists cert, sr, ct, nc, sg. apply Hi, Hin.
  - intros (H1 & k & pms & tr1 & Hin & Hm). split; [exact H1 |]. exists k, pms, tr1. split; [apply Hi, Hin | exact Hm].
  - intros ((vd & tr0 & H1) & pms & tr1 & H2). split; [exists vd, tr0; apply Hi, H1 | exists pms, tr1; apply Hi, H2].
Qed.

Record Inv (g : cfg T) (c : ctx T) : Prop := mkInv {
  i_cfg : x_cfg c = g;
  i_log : forall e, In e (log c) -> ev_ok g (log c) e;
  i_crand : g_role g = Client -> crand c = Some (g_rand g);
  i_srand : g_role g = Server -> forall r, srand c = Some r -> r = g_rand g;
  i_cert : forall cert, peer_cert c = Some cert -> In (EvCert cert) (log c);
  i_pub : g_role g = Client -> forall pk, peer_pub c = Some pk ->
          exists cert sr ct nc sg, In (EvSke cert (g_rand g) sr ct nc pk sg) (log c);
  i_keys : forall k, skeys c = Some k -> exists pms tr0, In (EvKeys k pms tr0) (log c);
  i_conn : forall k p, st c = StConnected k p -> In (EvConnected k p) (log c)
}.

(* two contexts that agree on everything Inv looks at *)
Definition same_core (c c' : ctx T) : Prop :=
  x_cfg c' = x_cfg c /\ log c' = log c /\ crand c' = crand c /\ srand c' = srand c /\
  peer_cert c' = peer_cert c /\ peer_pub c' = peer_pub c /\ skeys c' = skeys c /\ st c' = st c.

Lemma same_core_refl c : same_core c c.
Proof. repeat split. Qed.

Lemma Inv_same_core g c c' : same_core c c' -> Inv g c -> Inv g c'.
Proof.
  intros (H1 & H2 & H3 & H4 & H5 & H6 & H7 & H8) [].
  constructor; rewrite ?H1, ?H2, ?H3, ?H4, ?H5, ?H6, ?H7, ?H8; auto.
Qed.

(* generic: extend the log by events that are ok, keep the links *)
Lemma Inv_intro g c c' (l : list (event T)) :
  Inv g c ->
  x_cfg c' = g -> log c' = log c ++ l ->
  (forall e, In e l -> ev_ok g (log c ++ l) e) ->
  (g_role g = Client -> crand c' = Some (g_rand g)) ->
  (g_role g = Server -> forall r, srand c' = Some r -> r = g_rand g) ->
  (forall cert, peer_cert c' = Some cert -> In (EvCert cert) (log c ++ l)) ->
  (g_role g = Client -> forall pk, peer_pub c' = Some pk ->
     exists cert sr ct nc sg, In (EvSke cert (g_rand g) sr ct nc pk sg) (log c ++ l)) ->
  (forall k, skeys c' = Some k -> exists pms tr0, In (EvKeys k pms tr0) (log c ++ l)) ->
  (forall k p, st c' = StConnected k p -> In (EvConnected k p) (log c ++ l)) ->
  Inv g c'.
Proof.
  intros HI Hc Hl Hnew H3 H4 H5 H6 H7 H8.
  constructor; rewrite ?Hl; auto.
  intros e He. apply in_app_or in He. destruct He as [He | He].
  - eapply ev_ok_mono; [| apply (i_log _ _ HI), He]. apply incl_appl, incl_refl.
  - apply Hnew, He.
Qed.

Ltac inl := apply in_or_app; left.
Ltac inr := apply in_or_app; right; cbn; auto.

(* discharge the obligations of Inv_intro that merely carry an old link over to a longer log *)
Ltac keep HI0 :=
  cbn;
  first
  [ solve [auto]
  | solve [intros; congruence]
  | solve [intros ? []]
  | solve [let x := fresh in let Hc := fresh in
           intros x Hc; apply in_or_app; left; apply (i_cert _ _ HI0); exact Hc]
  | solve [let a := fresh in let b := fresh in let c0 := fresh in let d := fresh in let f := fresh in
           let Hin := fresh in let Hr := fresh in let x := fresh in let Hp := fresh in
           intros Hr x Hp; destruct (i_pub _ _ HI0 Hr x Hp) as (a & b & c0 & d & f & Hin);
           exists a, b, c0, d, f; apply in_or_app; left; exact Hin]
  | solve [let a := fresh in let b := fresh in let Hin := fresh in let x := fresh in let Hk := fresh in
           intros x Hk; destruct (i_keys _ _ HI0 x Hk) as (a & b & Hin); exists a, b; apply in_or_app; left; exact Hin]
  | solve [let x := fresh in let y := fresh in let Hk := fresh in
           intros x y Hk; apply in_or_app; left; apply (i_conn _ _ HI0); exact Hk]
  | solve [intros; discriminate]
  | idtac ].

Lemma Inv_fail g c why o c' o' e : Inv g c -> fail c why o = (c', o', e) -> Inv g c'.
Proof.
  intros HI H. unfold fail in H. inversion H; subst; clear H. pose proof HI as HI0. destruct HI.
  eapply Inv_intro with (c := c) (l := [EvFailed why]); [exact HI0 | ..]; keep HI0.
  intros e0 [<- | []]. exact I.
Qed.

(* ------------------------------------------------------------------ handlers preserve Inv *)
Lemma is_client_role (g : cfg T) (c : ctx T) : x_cfg c = g -> is_client c = true -> g_role g = Client.
Proof. unfold is_client. intros <-. destruct (g_role (x_cfg c)); [reflexivity | discriminate]. Qed.
Lemma is_server_role (g : cfg T) (c : ctx T) : x_cfg c = g -> is_client c = false -> g_role g = Server.
Proof. unfold is_client. intros <-. destruct (g_role (x_cfg c)); [discriminate | reflexivity]. Qed.

Lemma Inv_certificate g c m c' o e : Inv g c -> handle_certificate C c m = (c', o, e) -> Inv g c'.
Proof.
  intros HI H. unfold handle_certificate in H.
  destruct (h_body m) eqn:Hb; try (inversion H; subst; exact HI).
  - destruct certs as [| leaf rest]; [eapply Inv_fail; eauto |].
    destruct (match g_expected (x_cfg c) with Some e0 => negb (t_eqb C (fingerprint C leaf) e0) | None => false end) eqn:Hm;
      [eapply Inv_fail; eauto |].
    destruct (cert_pk C leaf) eqn:Hpk; [| eapply Inv_fail; eauto].
    inversion H; subst; clear H. pose proof HI as HI0. destruct HI.
    eapply Inv_intro with (c := c) (l := [EvCert leaf]); [exact HI0 | ..]; keep HI0.
    + intros e0 [<- | []]. cbn [ev_ok]. split.
      * intros e1 He1. rewrite i_cfg0, He1 in Hm. apply eqb_sound. destruct (t_eqb C (fingerprint C leaf) e1); [reflexivity | discriminate].
      * congruence.
    + intros cert Hc. inversion Hc; subst. inr.
  - destruct (g_expected (x_cfg c)); eapply Inv_fail; eauto.
Qed.

Lemma Inv_client_hello g c m c' o e : Inv g c -> handle_client_hello C c m = (c', o, e) -> Inv g c'.
Proof.
  intros HI H. unfold handle_client_hello in H.
  destruct (is_client c) eqn:Hcl; [inversion H; subst; exact HI |].
  destruct (srand c) eqn:Hs; [inversion H; subst; exact HI |].
  destruct (h_body m); try (inversion H; subst; exact HI).
  inversion H; subst; clear H. pose proof HI as HI0. destruct HI.
  pose proof (is_server_role _ _ i_cfg0 Hcl) as Hrole.
  eapply Inv_intro with (c := c) (l := []); [exact HI0 | ..]; rewrite ?app_nil_r; keep HI0.
Qed.

Lemma derive_spec c k pms :
  derive C c = Some (k, pms) ->
  exists pk cr sr, peer_pub c = Some pk /\ dh C (g_eph (x_cfg c)) pk = Some pms /\
                   crand c = Some cr /\ srand c = Some sr /\
                   k = expand_keys C (master_secret C c pms cr sr) cr sr.
Proof.
  unfold derive. intros H.
  destruct (peer_pub c) as [pk |]; [| discriminate].
  destruct (has_secret c); [| discriminate].
  destruct (dh C (g_eph (x_cfg c)) pk) as [pms' |] eqn:Hd; [| discriminate].
  destruct (crand c) as [cr |]; [| discriminate].
  destruct (srand c) as [sr |]; [| discriminate].
  inversion H; subst. exists pk, cr, sr. repeat split; auto.
Qed.

Lemma keys_from_expand g c pms cr sr :
  match g_role g with Client => cr = g_rand g | Server => sr = g_rand g end ->
  keys_from g (expand_keys C (master_secret C c pms cr sr) cr sr) pms (tr c).
Proof.
  intros Hr. unfold keys_from, expand_keys, master_secret. cbn. split; [reflexivity |]. split.
  - destruct (ems c); [left | right]; reflexivity.
  - exact Hr.
Qed.

Lemma Inv_client_key_exchange g c m c' o e :
  Inv g c -> handle_client_key_exchange C c m = (c', o, e) -> Inv g c'.
Proof.
  intros HI H. unfold handle_client_key_exchange in H.
  destruct (is_client c) eqn:Hcl; [inversion H; subst; exact HI |].
  destruct (skeys c) eqn:Hs; [inversion H; subst; exact HI |].
  destruct (h_body m); try (inversion H; subst; exact HI).
  pose proof HI as HI0. destruct HI.
  pose proof (is_server_role _ _ i_cfg0 Hcl) as Hrole.
  destruct (derive C (c <| peer_pub := Some pubkey |>)) as [[k pms] |] eqn:Hd.
  - injection H as <- <- <-.
    apply derive_spec in Hd. destruct Hd as (pk & cr & sr & Hp & Hdh & Hcr & Hsr & Hk). cbn in Hp, Hdh, Hcr, Hsr.
    eapply Inv_intro with (c := c) (l := [EvKeys k pms (tr c)]); [exact HI0 | ..]; keep HI0.
    + intros e0 [<- | []]. cbn [ev_ok]. split.
      * exists pk. split; [rewrite <- i_cfg0; exact Hdh | intros Hr; congruence].
      * rewrite Hk. refine (keys_from_expand g (c <| peer_pub := Some pubkey |>) pms cr sr _).
        rewrite Hrole. apply (i_srand0 Hrole). exact Hsr.
    + intros k0 Hk0. inversion Hk0; subst. exists pms, (tr c). inr.
  - injection H as <- <- <-.
    eapply Inv_intro with (c := c) (l := []); [exact HI0 | ..]; rewrite ?app_nil_r; keep HI0.
Qed.

Lemma vd_matches_spec b x : vd_matches C b x = true -> b = BFinished x /\ body_vd C b = x.
Proof.
  unfold vd_matches, body_vd. destruct b; try discriminate. intros H. apply eqb_sound in H. subst. auto.
Qed.

Lemma Inv_finished g c m c' o e : Inv g c -> handle_finished C c m = (c', o, e) -> Inv g c'.
Proof.
  intros HI H. unfold handle_finished in H. pose proof HI as HI0. destruct HI.
  destruct (is_client c) eqn:Hcl.
  - pose proof (is_client_role _ _ i_cfg0 Hcl) as Hrole.
    destruct (skeys c) as [k |] eqn:Hs; [| injection H as <- <- <-; exact HI0].
    destruct (vd_matches C (h_body m) (verify_data C (k_ms k) LServerFin (tr c))) eqn:Hv; [| eapply Inv_fail; eauto].
    injection H as <- <- <-. apply vd_matches_spec in Hv. destruct Hv as (_ & Hv).
    destruct (i_keys _ _ HI0 k Hs) as (pms & tr1 & Hin).
    eapply Inv_intro with (c := c)
      (l := [EvFinOk (body_vd C (h_body m)) (k_ms k) (tr c); EvConnected k (profile c)]);
      [exact HI0 | ..]; cbn; rewrite <- ?app_assoc; keep HI0.
    + intros e0 [<- | [<- | []]]; cbn [ev_ok].
      * split; [rewrite Hv; unfold verify_data, fin_label; rewrite Hrole; reflexivity |].
        exists k, pms, tr1. split; [inl; exact Hin | reflexivity].
      * split; [exists (body_vd C (h_body m)), (tr c); inr | exists pms, tr1; inl; exact Hin].
    + intros k0 p Hk0. inversion Hk0; subst. inr.
  - pose proof (is_server_role _ _ i_cfg0 Hcl) as Hrole.
    destruct (skeys c) as [k |] eqn:Hs.
    + destruct (vd_matches C (h_body m) (verify_data C (k_ms k) LClientFin (tr c))) eqn:Hv; cbn in H;
        [| eapply Inv_fail; eauto].
      rewrite Hs in H. cbn in H. injection H as <- <- <-.
      apply vd_matches_spec in Hv. destruct Hv as (_ & Hv).
      destruct (i_keys _ _ HI0 k Hs) as (pms & tr1 & Hin).
      eapply Inv_intro with (c := c)
        (l := [EvFinOk (body_vd C (h_body m)) (k_ms k) (tr c); EvConnected k (profile c)]);
        [exact HI0 | ..]; cbn; rewrite <- ?app_assoc; keep HI0.
      * intros e0 [<- | [<- | []]]; cbn [ev_ok].
        -- split; [rewrite Hv; unfold verify_data, fin_label; rewrite Hrole; reflexivity |].
           exists k, pms, tr1. split; [inl; exact Hin | reflexivity].
        -- split; [exists (body_vd C (h_body m)), (tr c); inr | exists pms, tr1; inl; exact Hin].
      * intros k0 p Hk0. inversion Hk0; subst. inr.
    + cbn in H. rewrite Hs in H. cbn in H. eapply Inv_fail; [| exact H].
      eapply Inv_same_core; [| exact HI0]. repeat split; cbn; auto.
Qed.

Lemma Inv_hello_verify g c m c' o e : Inv g c -> handle_hello_verify_request C c m = (c', o, e) -> Inv g c'.
Proof.
  intros HI H. unfold handle_hello_verify_request in H.
  destruct (h_body m); inversion H; subst; try exact HI.
  eapply Inv_same_core; [| exact HI]. repeat split.
Qed.

Lemma Inv_server_hello g c m c' o e : Inv g c -> handle_server_hello c m = (c', o, e) -> Inv g c'.
Proof.
  intros HI H. unfold handle_server_hello in H.
  destruct (is_client c) eqn:Hcl; [| inversion H; subst; exact HI].
  destruct (h_body m); inversion H; subst; try exact HI.
  pose proof HI as HI0. destruct HI.
  pose proof (is_client_role _ _ i_cfg0 Hcl) as Hrole.
  eapply Inv_intro with (c := c) (l := []); [exact HI0 | ..]; rewrite ?app_nil_r; keep HI0.
Qed.

Lemma Inv_server_key_exchange g c m c' o e :
  Inv g c -> handle_server_key_exchange C c m = (c', o, e) -> Inv g c'.
Proof.
  intros HI H. unfold handle_server_key_exchange in H.
  destruct (is_client c) eqn:Hcl; [| inversion H; subst; exact HI].
  destruct (h_body m); try (inversion H; subst; exact HI).
  destruct (peer_cert c) as [cert |] eqn:Hpc; [| eapply Inv_fail; eauto].
  destruct (crand c) as [cr |] eqn:Hcr; [| eapply Inv_fail; eauto].
  destruct (srand c) as [sr |] eqn:Hsr; [| eapply Inv_fail; eauto].
  destruct (cert_pk C cert) as [vk |] eqn:Hvk; [| eapply Inv_fail; eauto].
  destruct (verify C vk [cr; sr; znum C curve_type; znum C named_curve; pubkey] sig) eqn:Hv; [| eapply Inv_fail; eauto].
  inversion H; subst; clear H. pose proof HI as HI0. destruct HI.
  pose proof (is_client_role _ _ i_cfg0 Hcl) as Hrole.
  assert (cr = g_rand g) by (specialize (i_crand0 Hrole); congruence). subst cr.
  eapply Inv_intro with (c := c) (l := [EvSke cert (g_rand g) sr curve_type named_curve pubkey sig]);
    [exact HI0 | ..]; keep HI0.
  - intros e0 [<- | []]. cbn. split; [inl; auto |]. split; [reflexivity |]. exists vk. auto.
  - intros _ pk Hp. inversion Hp; subst. exists cert, sr, curve_type, named_curve, sig. inr.
Qed.

Lemma Inv_server_hello_done g c c' o e : Inv g c -> handle_server_hello_done C c = (c', o, e) -> Inv g c'.
Proof.
  intros HI H. unfold handle_server_hello_done in H.
  destruct (skeys c) eqn:Hs; [inversion H; subst; exact HI |].
  destruct (is_client c && negb (ske_ok c)) eqn:Hg; [eapply Inv_fail; eauto |].
  match type of H with context [derive C ?c2] => set (cc := c2) in * end.
  assert (Hsc : same_core c cc) by (repeat split).
  destruct (derive C cc) as [[k pms] |] eqn:Hd.
  - inversion H; subst; clear H.
    apply derive_spec in Hd. destruct Hd as (pk & cr & sr & Hp & Hdh & Hcr & Hsr & Hk).
    pose proof HI as HI0. destruct HI.
    eapply Inv_intro with (c := c) (l := [EvKeys k pms (tr cc)]); [exact HI0 | ..]; keep HI0.
    + intros e0 [<- | []]. cbn [ev_ok]. split.
      * exists pk. split; [rewrite <- i_cfg0; exact Hdh |].
        intros Hr. destruct (i_pub0 Hr pk Hp) as (a & b & c0 & d & f & Hin). exists a, b, c0, d, f. inl. exact Hin.
      * rewrite Hk. refine (keys_from_expand g cc pms cr sr _).
        destruct (g_role g) eqn:Hr.
        -- specialize (i_crand0 eq_refl). cbn in Hcr. congruence.
        -- apply (i_srand0 eq_refl). exact Hsr.
    + intros k0 Hk0. inversion Hk0; subst. eexists _, _. inr.
  - inversion H; subst; clear H. eapply Inv_same_core; [exact Hsc | exact HI].
Qed.

Lemma Inv_handle_msg g c t m c' o e : Inv g c -> handle_msg C c t m = (c', o, e) -> Inv g c'.
Proof.
  intros HI H. destruct t; cbn in H; try (inversion H; subst; exact HI).
  - eapply Inv_client_hello; eauto.
  - eapply Inv_server_hello; eauto.
  - eapply Inv_hello_verify; eauto.
  - eapply Inv_certificate; eauto.
  - eapply Inv_server_key_exchange; eauto.
  - eapply Inv_server_hello_done; eauto.
  - eapply Inv_client_key_exchange; eauto.
  - eapply Inv_finished; eauto.
Qed.

(* ------------------------------------------------------------------ plumbing preserves the core *)
Lemma seq_filter_core c t f c' v : seq_filter c t f = (c', v) -> same_core c c'.
Proof.
  unfold seq_filter. intros H.
  repeat match type of H with (if ?b then _ else _) = _ => destruct b end;
    inversion H; subst; repeat split.
Qed.

Lemma reassemble_core c f c' ob : reassemble C c f = (c', ob) -> same_core c c'.
Proof.
  unfold reassemble. intros H.
  repeat match type of H with context [if ?b then _ else _] => destruct b end;
    inversion H; subst; repeat split.
Qed.

Lemma Inv_accept_msg g c t m c' o e : Inv g c -> accept_msg C c t m = (c', o, e) -> Inv g c'.
Proof.
  unfold accept_msg. intros HI H. eapply Inv_handle_msg; [| exact H].
  eapply Inv_same_core; [| exact HI]. destruct (in_transcript t); repeat split.
Qed.

Lemma Inv_process_frags g fs : forall c c' o e, Inv g c -> process_frags C c fs = (c', o, e) -> Inv g c'.
Proof.
  induction fs as [| f rest IH]; intros c c' o e HI H; cbn [process_frags] in H.
  - inversion H; subst; exact HI.
  - destruct (ht_of_code (f_type f)) as [t |]; [| inversion H; subst; exact HI].
    destruct (seq_filter c t f) as [c1 v] eqn:Hf.
    assert (HI1 : Inv g c1) by (eapply Inv_same_core; [eapply seq_filter_core; eauto | exact HI]).
    destruct v.
    + destruct (reassemble C c1 f) as [c2 ob] eqn:Hr.
      assert (HI2 : Inv g c2) by (eapply Inv_same_core; [eapply reassemble_core; eauto | exact HI1]).
      destruct ob as [b |]; [| eapply IH; eauto].
      destruct (accept_msg C c2 t (mkH (f_type f) (f_seq f) b)) as [[c3 o3] e3] eqn:Ha.
      assert (HI3 : Inv g c3) by (eapply Inv_accept_msg; eauto).
      destruct e3; [inversion H; subst; exact HI3 |].
      destruct (process_frags C c3 rest) as [[c4 o4] e4] eqn:Hp. inversion H; subst. eapply IH; eauto.
    + eapply IH; eauto.
    + destruct (handle_msg C c1 t (mkH (f_type f) (f_seq f) (chunk_body C (f_data f)))) as [[c3 o3] e3] eqn:Ha.
      assert (HI3 : Inv g c3) by (eapply Inv_handle_msg; eauto).
      destruct e3; [inversion H; subst; exact HI3 |].
      destruct (process_frags C c3 rest) as [[c4 o4] e4] eqn:Hp. inversion H; subst. eapply IH; eauto.
    + destruct (process_frags C c1 rest) as [[c4 o4] e4] eqn:Hp. inversion H; subst. eapply IH; eauto.
Qed.

Lemma Inv_handle_content g c k c' o s : Inv g c -> handle_content C c k = (c', o, s) -> Inv g c'.
Proof.
  intros HI H. destruct k; cbn in H.
  - destruct (process_frags C c fs) as [[c1 o1] e1] eqn:Hp. inversion H; subst. eapply Inv_process_frags; eauto.
  - inversion H; subst. eapply Inv_same_core; [| exact HI]. repeat split.
  - inversion H; subst; clear H. pose proof HI as HI0. destruct HI.
    eapply Inv_intro with (c := c) (l := [EvApp d]); [exact HI0 | ..]; keep HI0.
    intros e0 [<- | []]. exact I.
  - destruct descr as [z |]; [| inversion H; subst; exact HI].
    destruct z; try (inversion H; subst; exact HI).
    inversion H; subst; clear H. pose proof HI as HI0. destruct HI.
    eapply Inv_intro with (c := c) (l := [EvClosed]); [exact HI0 | ..]; keep HI0.
    intros e0 [<- | []]. exact I.
  - inversion H; subst; exact HI.
Qed.

Lemma Inv_handle_record g c r c' o s : Inv g c -> handle_record C c r = (c', o, s) -> Inv g c'.
Proof.
  intros HI H. unfold handle_record in H.
  match type of H with (if ?b then _ else _) = _ => destruct b end; [inversion H; subst; exact HI |].
  destruct (r_epoch r =? 0).
  - destruct (r_seal r); [inversion H; subst; exact HI | eapply Inv_handle_content; eauto].
  - destruct (skeys c) as [k |]; [| inversion H; subst; exact HI].
    destruct (r_seal r) as [kv |]; [| inversion H; subst; exact HI].
    destruct (pair_eqb C kv (read_keys C c k)); [eapply Inv_handle_content; eauto | inversion H; subst; exact HI].
Qed.

Lemma Inv_handle_datagram g d : forall c c' o e, Inv g c -> handle_datagram C c d = (c', o, e) -> Inv g c'.
Proof.
  induction d as [| w rest IH]; intros c c' o e HI H; cbn in H.
  - inversion H; subst; exact HI.
  - destruct w as [r |]; [| inversion H; subst; exact HI].
    destruct (handle_record C c r) as [[c1 o1] s] eqn:Hr.
    assert (HI1 : Inv g c1) by (eapply Inv_handle_record; eauto).
    destruct s.
    + destruct (handle_datagram C c1 rest) as [[c2 o2] e2] eqn:Hd. inversion H; subst. eapply IH; eauto.
    + inversion H; subst; exact HI1.
    + inversion H; subst; exact HI1.
Qed.

Lemma Inv_step g c i c' o : Inv g c -> step C c i = (c', o) -> Inv g c'.
Proof.
  intros HI H. unfold step in H.
  destruct (negb (alive c)); [inversion H; subst; exact HI |].
  destruct i.
  - destruct (handle_datagram C c d) as [[c1 o1] e1] eqn:Hd.
    assert (HI1 : Inv g c1) by (eapply Inv_handle_datagram; eauto).
    inversion H; subst. destruct (e1 && is_failed c1); [| exact HI1].
    eapply Inv_same_core; [| exact HI1]. repeat split.
  - inversion H; subst; exact HI.
  - destruct (is_handshaking c); [| inversion H; subst; exact HI].
    inversion H; subst; clear H.
    assert (HI2 : Inv g (c <| alive := false |>)) by (eapply Inv_same_core; [| exact HI]; repeat split).
    eapply (Inv_fail g _ 11 [] _ [] true HI2). reflexivity.
Qed.

Lemma Inv_run g is : forall c c' o, Inv g c -> run C c is = (c', o) -> Inv g c'.
Proof.
  induction is as [| i rest IH]; intros c c' o HI H; cbn in H.
  - inversion H; subst; exact HI.
  - destruct (step C c i) as [c1 o1] eqn:Hs. destruct (run C c1 rest) as [c2 o2] eqn:Hr.
    inversion H; subst. eapply IH; [eapply Inv_step; eauto | eauto].
Qed.

Lemma Inv_start g : Inv g (fst (start C g)).
Proof.
  unfold start. destruct (g_role g) eqn:Hr; cbn; constructor; cbn; auto; try congruence; try discriminate;
    intros; try contradiction; try discriminate.
Qed.

(* ------------------------------------------------------------------ C02: what Connected proves *)
Theorem connected_authenticated (g : cfg T) (is : list (input T)) (k : keys T) (p : option Z) :
  let c := fst (run C (fst (start C g)) is) in
  st c = StConnected k p ->
  exists pk pms tr1 vd tr0,
    (* the peer's Finished was checked against this endpoint's own transcript and master secret *)
    In (EvFinOk vd (k_ms k) tr0) (log c) /\ vd = prf C (k_ms k) (fin_label g) [hashT C tr0] /\
    (* the keys come from ECDH between the local ephemeral secret and the accepted peer share *)
    In (EvKeys k pms tr1) (log c) /\ dh C (g_eph g) pk = Some pms /\ keys_from g k pms tr1 /\
    (* client role: that share was signed, over this handshake's randoms, by the key of an accepted
       certificate, and that certificate matches the expected fingerprint *)
    (g_role g = Client ->
     exists cert sr ct nc sg vk,
       In (EvSke cert (g_rand g) sr ct nc pk sg) (log c) /\ In (EvCert cert) (log c) /\
       cert_pk C cert = Some vk /\
       verify C vk [g_rand g; sr; znum C ct; znum C nc; pk] sg = true /\
       forall fp, g_expected g = Some fp -> fingerprint C cert = fp).
Proof.
  intros c Hst.
  assert (HI : Inv g c).
  { subst c. destruct (run C (fst (start C g)) is) as [c' o'] eqn:Hr. cbn. eapply Inv_run; [apply Inv_start | exact Hr]. }
  destruct HI.
  pose proof (i_log0 _ (i_conn0 k p Hst)) as Hc. cbn in Hc.
  destruct Hc as ((vd & tr0 & Hfin) & pms & tr1 & Hkeys).
  pose proof (i_log0 _ Hfin) as Hf. cbn in Hf. destruct Hf as (Hvd & _).
  pose proof (i_log0 _ Hkeys) as Hk. cbn in Hk. destruct Hk as ((pk & Hdh & Hske) & Hkf).
  exists pk, pms, tr1, vd, tr0. repeat split; auto.
  - apply Hkf.
  - apply Hkf.
  - apply Hkf.
  - intros Hr. destruct (Hske Hr) as (cert & sr & ct & nc & sg & Hin).
    pose proof (i_log0 _ Hin) as Hs. cbn in Hs. destruct Hs as (Hcert & _ & vk & Hvk & Hver).
    pose proof (i_log0 _ Hcert) as Hco. cbn in Hco. destruct Hco as (Hfp & _).
    exists cert, sr, ct, nc, sg, vk. repeat split; auto.
Qed.

(* client role, expected fingerprint given: the C02 statement *)
Theorem client_auth (g : cfg T) (fp : T) (is : list (input T)) (k : keys T) (p : option Z) :
  g_role g = Client -> g_expected g = Some fp ->
  let c := fst (run C (fst (start C g)) is) in
  st c = StConnected k p ->
  exists cert vk sr ct nc pk sg pms tr1 vd tr0,
    In (EvCert cert) (log c) /\ fingerprint C cert = fp /\ cert_pk C cert = Some vk /\
    In (EvSke cert (g_rand g) sr ct nc pk sg) (log c) /\
    verify C vk [g_rand g; sr; znum C ct; znum C nc; pk] sg = true /\
    dh C (g_eph g) pk = Some pms /\
    In (EvKeys k pms tr1) (log c) /\
    (k_ms k = prf C pms LExtMaster [hashT C tr1] \/ k_ms k = prf C pms LMaster [g_rand g; k_sr k]) /\
    k_cr k = g_rand g /\ k_block k = prf C (k_ms k) LKeyExp [k_sr k; k_cr k] /\
    In (EvFinOk vd (k_ms k) tr0) (log c) /\ vd = prf C (k_ms k) LServerFin [hashT C tr0].
Proof.
  intros Hr He c Hst.
  destruct (connected_authenticated g is k p Hst) as (pk & pms & tr1 & vd & tr0 & Hfin & Hvd & Hkeys & Hdh & Hkf & Hcl).
  destruct (Hcl Hr) as (cert & sr & ct & nc & sg & vk & Hske & Hcert & Hvk & Hver & Hfp).
  destruct Hkf as (Hb & Hms & Hcr). rewrite Hr in Hcr.
  exists cert, vk, sr, ct, nc, pk, sg, pms, tr1, vd, tr0.
  repeat split; auto.
  - rewrite <- Hcr. exact Hms.
  - unfold fin_label in Hvd. rewrite Hr in Hvd. exact Hvd.
Qed.

(* with an ideal signature scheme the accepted signature literally is the certificate key holder's
   signature over this handshake's client random and the share the session keys come from *)
Theorem client_auth_possession (vk_of : T -> T)
  (sig_ideal : forall vk m s, verify C vk m s = true -> exists sk, vk = vk_of sk /\ s = sign C sk m)
  (g : cfg T) (fp : T) (is : list (input T)) (k : keys T) (p : option Z) :
  g_role g = Client -> g_expected g = Some fp ->
  let c := fst (run C (fst (start C g)) is) in
  st c = StConnected k p ->
  exists cert sk sr ct nc pk pms tr1,
    fingerprint C cert = fp /\ cert_pk C cert = Some (vk_of sk) /\
    In (EvSke cert (g_rand g) sr ct nc pk (sign C sk [g_rand g; sr; znum C ct; znum C nc; pk])) (log c) /\
    dh C (g_eph g) pk = Some pms /\ In (EvKeys k pms tr1) (log c).
Proof.
  intros Hr He c Hst.
  destruct (client_auth g fp is k p Hr He Hst) as
    (cert & vk & sr & ct & nc & pk & sg & pms & tr1 & vd & tr0 & H1 & H2 & H3 & H4 & H5 & H6 & H7 & _).
  destruct (sig_ideal _ _ _ H5) as (sk & -> & ->).
  exists cert, sk, sr, ct, nc, pk, pms, tr1. repeat split; auto.
Qed.

(* server role: what does hold -- the client's Finished was verified against the server's own
   transcript and the master secret derived from the client's key share *)
Theorem server_finished_verified (g : cfg T) (is : list (input T)) (k : keys T) (p : option Z) :
  g_role g = Server ->
  let c := fst (run C (fst (start C g)) is) in
  st c = StConnected k p ->
  exists pk pms tr1 vd tr0,
    In (EvFinOk vd (k_ms k) tr0) (log c) /\ vd = prf C (k_ms k) LClientFin [hashT C tr0] /\
    In (EvKeys k pms tr1) (log c) /\ dh C (g_eph g) pk = Some pms /\
    (k_ms k = prf C pms LExtMaster [hashT C tr1] \/ k_ms k = prf C pms LMaster [k_cr k; g_rand g]) /\
    k_sr k = g_rand g.
Proof.
  intros Hr c Hst.
  destruct (connected_authenticated g is k p Hst) as (pk & pms & tr1 & vd & tr0 & Hfin & Hvd & Hkeys & Hdh & Hkf & _).
  destruct Hkf as (Hb & Hms & Hsr). rewrite Hr in Hsr.
  exists pk, pms, tr1, vd, tr0. repeat split; auto.
  - unfold fin_label in Hvd. rewrite Hr in Hvd. exact Hvd.
  - rewrite <- Hsr. exact Hms.
Qed.

(* ------------------------------------------------------------------ Failed is absorbing *)
(* a handler that does not return Err never leaves the state Failed *)
Ltac nf_tac H :=
  repeat match type of H with
         | context [match ?x with _ => _ end] => destruct x eqn:?
         | context [if ?x then _ else _] => destruct x eqn:?
         end;
  try (unfold fail, ok, err in H); inversion H; subst; cbn in *; try congruence; auto.

Definition quiet (c c' : ctx T) (e : bool) : Prop := is_failed c = false -> e = false -> is_failed c' = false.

Lemma nf_certificate c m c' o e : handle_certificate C c m = (c', o, e) -> quiet c c' e.
Proof. unfold handle_certificate, quiet. intros H Hf He. nf_tac H. Qed.
Lemma nf_client_hello c m c' o e : handle_client_hello C c m = (c', o, e) -> quiet c c' e.
Proof. unfold handle_client_hello, quiet. intros H Hf He. nf_tac H. Qed.
Lemma nf_client_key_exchange c m c' o e : handle_client_key_exchange C c m = (c', o, e) -> quiet c c' e.
Proof. unfold handle_client_key_exchange, quiet. intros H Hf He. nf_tac H. Qed.
Lemma nf_finished c m c' o e : handle_finished C c m = (c', o, e) -> quiet c c' e.
Proof. unfold handle_finished, quiet. intros H Hf He. cbn in H. nf_tac H. Qed.
Lemma nf_hello_verify c m c' o e : handle_hello_verify_request C c m = (c', o, e) -> quiet c c' e.
Proof. unfold handle_hello_verify_request, quiet. intros H Hf He. nf_tac H. Qed.
Lemma nf_server_hello c m c' o e : handle_server_hello c m = (c', o, e) -> quiet c c' e.
Proof. unfold handle_server_hello, quiet. intros H Hf He. nf_tac H. Qed.
Lemma nf_server_key_exchange c m c' o e : handle_server_key_exchange C c m = (c', o, e) -> quiet c c' e.
Proof. unfold handle_server_key_exchange, quiet. intros H Hf He. nf_tac H. Qed.
Lemma nf_server_hello_done c c' o e : handle_server_hello_done C c = (c', o, e) -> quiet c c' e.
Proof. unfold handle_server_hello_done, quiet. intros H Hf He. cbn in H. nf_tac H. Qed.

Lemma nf_handle_msg c t m c' o e : handle_msg C c t m = (c', o, e) -> quiet c c' e.
Proof.
  intros H. destruct t; cbn in H;
    try (unfold ok in H; inversion H; subst; intros Hf _; exact Hf).
  - eapply nf_client_hello; eauto.
  - eapply nf_server_hello; eauto.
  - eapply nf_hello_verify; eauto.
  - eapply nf_certificate; eauto.
  - eapply nf_server_key_exchange; eauto.
  - eapply nf_server_hello_done; eauto.
  - eapply nf_client_key_exchange; eauto.
  - eapply nf_finished; eauto.
Qed.

Definition same_st (c c' : ctx T) : Prop := st c' = st c.

Lemma seq_filter_st (c : ctx T) t f c' v : seq_filter c t f = (c', v) -> st c' = st c.
Proof. intros H. apply seq_filter_core in H. apply H. Qed.
Lemma reassemble_st c f c' ob : reassemble C c f = (c', ob) -> st c' = st c.
Proof. intros H. apply reassemble_core in H. apply H. Qed.

Lemma is_failed_st (c c' : ctx T) : st c' = st c -> is_failed c' = is_failed c.
Proof. unfold is_failed. intros ->. reflexivity. Qed.

Lemma nf_accept_msg c t m c' o e : accept_msg C c t m = (c', o, e) -> quiet c c' e.
Proof.
  unfold accept_msg. intros H Hf He. eapply nf_handle_msg; [exact H | | exact He].
  destruct (in_transcript t); exact Hf.
Qed.

Lemma nf_process_frags fs : forall c c' o e, process_frags C c fs = (c', o, e) -> quiet c c' e.
Proof.
  induction fs as [| f rest IH]; intros c c' o e H Hf He; cbn [process_frags] in H.
  - inversion H; subst; exact Hf.
  - destruct (ht_of_code (f_type f)) as [t |]; [| inversion H; subst; exact Hf].
    destruct (seq_filter c t f) as [c1 v] eqn:Hq.
    assert (Hf1 : is_failed c1 = false) by (rewrite (is_failed_st c c1); [exact Hf | eapply seq_filter_st; eauto]).
    destruct v.
    + destruct (reassemble C c1 f) as [c2 ob] eqn:Hr.
      assert (Hf2 : is_failed c2 = false) by (rewrite (is_failed_st c1 c2); [exact Hf1 | eapply reassemble_st; eauto]).
      destruct ob as [b |]; [| eapply IH; eauto].
      destruct (accept_msg C c2 t (mkH (f_type f) (f_seq f) b)) as [[c3 o3] e3] eqn:Ha.
      destruct e3; [inversion H; subst; discriminate |].
      destruct (process_frags C c3 rest) as [[c4 o4] e4] eqn:Hp. inversion H; subst.
      eapply IH; [exact Hp | eapply nf_accept_msg; eauto | reflexivity].
    + eapply IH; eauto.
    + destruct (handle_msg C c1 t (mkH (f_type f) (f_seq f) (chunk_body C (f_data f)))) as [[c3 o3] e3] eqn:Ha.
      destruct e3; [inversion H; subst; discriminate |].
      destruct (process_frags C c3 rest) as [[c4 o4] e4] eqn:Hp. inversion H; subst.
      eapply IH; [exact Hp | eapply nf_handle_msg; eauto | reflexivity].
    + destruct (process_frags C c1 rest) as [[c4 o4] e4] eqn:Hp. inversion H; subst. eapply IH; eauto.
Qed.

(* records: Failed is only ever reached together with the RErr status *)
Lemma nf_handle_content c k c' o s :
  handle_content C c k = (c', o, s) -> is_failed c = false -> s <> RErr -> is_failed c' = false.
Proof.
  intros H Hf Hs. destruct k; cbn in H.
  - destruct (process_frags C c fs) as [[c1 o1] e1] eqn:Hp. inversion H; subst.
    destruct e1; [congruence |]. eapply nf_process_frags; eauto.
  - inversion H; subst; exact Hf.
  - inversion H; subst; exact Hf.
  - destruct descr as [z |]; [destruct z |]; inversion H; subst; auto.
  - inversion H; subst; exact Hf.
Qed.

Lemma nf_handle_record c r c' o s :
  handle_record C c r = (c', o, s) -> is_failed c = false -> s <> RErr -> is_failed c' = false.
Proof.
  intros H Hf Hs. unfold handle_record in H.
  match type of H with (if ?b then _ else _) = _ => destruct b end; [inversion H; subst; exact Hf |].
  destruct (r_epoch r =? 0).
  - destruct (r_seal r); [inversion H; subst; exact Hf | eapply nf_handle_content; eauto].
  - destruct (skeys c) as [k |]; [| inversion H; subst; exact Hf].
    destruct (r_seal r) as [kv |]; [| inversion H; subst; exact Hf].
    destruct (pair_eqb C kv (read_keys C c k)); [eapply nf_handle_content; eauto | inversion H; subst; exact Hf].
Qed.

Lemma nf_handle_datagram d : forall c c' o e,
  handle_datagram C c d = (c', o, e) -> is_failed c = false -> e = false -> is_failed c' = false.
Proof.
  induction d as [| w rest IH]; intros c c' o e H Hf He; cbn in H.
  - inversion H; subst; exact Hf.
  - destruct w as [r |]; [| inversion H; subst; exact Hf].
    destruct (handle_record C c r) as [[c1 o1] s] eqn:Hr.
    destruct s.
    + destruct (handle_datagram C c1 rest) as [[c2 o2] e2] eqn:Hd. inversion H; subst.
      eapply IH; [exact Hd | eapply nf_handle_record; eauto; discriminate | reflexivity].
    + inversion H; subst. eapply nf_handle_record; eauto; discriminate.
    + inversion H; subst. discriminate.
Qed.

(* J: a Failed machine has left its loop *)
Definition J (c : ctx T) : Prop := is_failed c = true -> alive c = false.

Lemma J_step c i c' o : J c -> step C c i = (c', o) -> J c'.
Proof.
  unfold J, step. intros HJ H.
  destruct (alive c) eqn:Ha; cbn in H; [| inversion H; subst; intros _; assumption].
  assert (Hf : is_failed c = false) by (destruct (is_failed c); [specialize (HJ eq_refl); congruence | reflexivity]).
  destruct i.
  - destruct (handle_datagram C c d) as [[c1 o1] e1] eqn:Hd. inversion H; subst.
    destruct e1.
    + destruct (is_failed c1) eqn:Hf1; cbn; [reflexivity | congruence].
    + cbn. intros Hf1. rewrite (nf_handle_datagram _ _ _ _ _ Hd Hf eq_refl) in Hf1. discriminate.
  - inversion H; subst. intros Hf1. congruence.
  - destruct (is_handshaking c); inversion H; subst; cbn; [reflexivity | intros; congruence].
Qed.

Lemma J_run is : forall c c' o, J c -> run C c is = (c', o) -> J c'.
Proof.
  induction is as [| i rest IH]; intros c c' o HJ H; cbn in H.
  - inversion H; subst; exact HJ.
  - destruct (step C c i) as [c1 o1] eqn:Hs. destruct (run C c1 rest) as [c2 o2] eqn:Hr.
    inversion H; subst. eapply IH; [eapply J_step; eauto | eauto].
Qed.

Lemma J_start g : J (fst (start C g)).
Proof. unfold J, start. destruct (g_role g); cbn; discriminate. Qed.

Lemma dead_run is : forall c, alive c = false -> run C c is = (c, []).
Proof.
  induction is as [| i rest IH]; intros c Ha; cbn; [reflexivity |].
  unfold step. rewrite Ha. cbn. rewrite (IH c Ha). reflexivity.
Qed.

Theorem failed_absorbing (g : cfg T) (is1 is2 : list (input T)) :
  let c := fst (run C (fst (start C g)) is1) in
  st c = StFailed -> run C c is2 = (c, []).
Proof.
  intros c Hst. apply dead_run.
  assert (HJ : J c).
  { subst c. destruct (run C (fst (start C g)) is1) as [c' o'] eqn:Hr. cbn. eapply J_run; [apply J_start | exact Hr]. }
  apply HJ. unfold is_failed. rewrite Hst. reflexivity.
Qed.

(* never Connected after Failed, as a direct corollary *)
Corollary failed_never_connected (g : cfg T) (is1 is2 : list (input T)) :
  let c := fst (run C (fst (start C g)) is1) in
  st c = StFailed -> connected (fst (run C c is2)) = false.
Proof.
  intros c Hst. subst c. rewrite (failed_absorbing g is1 is2 Hst). cbn [fst]. unfold connected. rewrite Hst. reflexivity.
Qed.

(* ------------------------------------------------------------------ exporter and sender gates *)
Theorem export_only_connected (c : ctx T) (l : list Z) (x : T) :
  export_keying_material C c l = Some x ->
  exists k p, st c = StConnected k p /\ x = prf C (k_ms k) (LExport l) [k_cr k; k_sr k].
Proof.
  unfold export_keying_material. destruct (st c) eqn:Hs; try discriminate.
  intros H. inversion H; subst. eauto.
Qed.

Theorem export_none_unless_connected (c : ctx T) (l : list Z) :
  connected c = false -> export_keying_material C c l = None /\ forall n d, send_app C c n d = None.
Proof.
  unfold connected, export_keying_material, send_app. destruct (st c); try discriminate; auto.
Qed.

(* epoch-0 (plaintext) ApplicationData is inert in every state (fix 02d1d8d) *)
Theorem no_plaintext_appdata (c : ctx T) (r : record T) (d : T) :
  r_epoch r = 0 -> r_content r = KAppData d -> handle_record C c r = (c, [], RNext).
Proof.
  intros He Hc. unfold handle_record. rewrite He, Hc. cbn. rewrite orb_true_r. reflexivity.
Qed.

End Proofs.
