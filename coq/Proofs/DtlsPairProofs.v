(* C11: agreement of two handshake machines joined by a network without an active forger
   (Model/DtlsPair.v: loss, duplication, reordering, delay; timers at arbitrary moments).
   If both ends are Connected they hold the same master secret, randoms, key block and SRTP
   profile, hence the same record keys and exporter output, and application data sealed by one
   opens at the other.  The argument is the one the protocol intends: the client accepted a
   Finished value that the server emitted; both are PRF outputs under the respective master
   secrets; `prf_inj` makes the secrets equal; everything else is a function of values that
   travel in the hellos.  Premises on the cryptography are explicit. *)
From Coq Require Import ZArith List Bool Lia.
From RecordUpdate Require Import RecordSet.
From RV Require Import Gen.Dtls Model.DtlsHs Model.DtlsPair Proofs.DtlsHsProofs.
Import ListNotations RecordSetNotations.
Open Scope Z_scope.

Section PairProofs.
Context {T : Type} (C : crypto T).
Hypothesis eqb_sound : forall a b, t_eqb C a b = true -> a = b.
Variables cr sr : T.   (* the client's and the server's hello randoms *)

Definition SEL : option Z := select_profile CLIENT_SRTP_PROFILES.
Lemma SEL_some : SEL = Some SRTP_PREFERRED.
Proof. reflexivity. Qed.

(* ------------------------------------------------------------------ honest traffic *)
Definition bgood (b : body T) : Prop :=
  match b with
  | BClientHello r _ e profs => r = cr /\ e = true /\ profs = CLIENT_SRTP_PROFILES
  | BServerHello r _ e p => r = sr /\ e = true /\ p = SEL
  | _ => True
  end.

Definition sgood (f : frag T) : Prop :=
  f_total f = f_len f /\ ht_of_code (f_type f) <> Some HandshakeType_HelloVerifyRequest /\
  exists b, f_data f = CWhole b /\ bgood b.

Definition rgood (r : record T) : Prop :=
  match r_content r with KHandshake fs => Forall sgood fs | _ => True end.

(* verify_data values carried by a record / datagram *)
Definition fin_in_frags (fs : list (frag T)) (vd : T) : Prop :=
  exists f, In f fs /\ f_data f = CWhole (BFinished vd).
Definition fin_of_record (r : record T) (vd : T) : Prop :=
  match r_content r with KHandshake fs => fin_in_frags fs vd | _ => False end.

(* every Finished value in r is the constant or a PRF output under keys this machine derived *)
Definition FinLog (L : list (event T)) (r : record T) : Prop :=
  forall vd, fin_of_record r vd ->
    vd = zero_vd C \/
    exists k pms tr1 lab tr', In (EvKeys k pms tr1) L /\ vd = prf C (k_ms k) lab [hashT C tr'].

Definition ogood (L : list (event T)) (r : record T) : Prop := rgood r /\ FinLog L r.

Lemma FinLog_mono L L' r : incl L L' -> FinLog L r -> FinLog L' r.
Proof.
  intros Hi H vd Hv. destruct (H vd Hv) as [Hz | (k & pms & tr1 & lab & tr' & Hin & He)]; [left; exact Hz |].
  right. exists k, pms, tr1, lab, tr'. split; [apply Hi, Hin | exact He].
Qed.
Lemma ogood_mono L L' r : incl L L' -> ogood L r -> ogood L' r.
Proof. intros Hi (H1 & H2). split; [exact H1 | eapply FinLog_mono; eauto]. Qed.

(* ------------------------------------------------------------------ per-machine invariant *)
Record SInv (g : cfg T) (c : ctx T) : Prop := mkSInv {
  s_cfg : x_cfg c = g;
  s_cl : g_role g = Client ->
         g_rand g = cr /\ crand c = Some cr /\
         forall r, srand c = Some r -> r = sr /\ ems c = true /\ profile c = SEL;
  s_sv : g_role g = Server ->
         g_rand g = sr /\ (forall r, crand c = Some r -> r = cr) /\
         forall r, srand c = Some r -> r = sr /\ ems c = true /\ profile c = SEL;
  s_keys : forall k, skeys c = Some k -> k_cr k = cr /\ k_sr k = sr /\ exists r, srand c = Some r;
  s_keylog : forall k pms tr1, In (EvKeys k pms tr1) (log c) -> skeys c = Some k;
  s_conn : forall k p, st c = StConnected k p -> skeys c = Some k /\ p = SEL;
  s_flight : forall rs, last_flight c = Some rs -> Forall (ogood (log c)) rs
}.

(* what one handler call adds *)
Record HPost (Fin : T -> Prop) (g : cfg T) (c c' : ctx T) (o : list (out T)) : Prop := mkHPost {
  hp_sinv : SInv g c';
  hp_out : Forall (ogood (log c')) (sent_of o);
  hp_log : exists l, log c' = log c ++ l;
  hp_fin : forall vd ms tr0, In (EvFinOk vd ms tr0) (log c') -> In (EvFinOk vd ms tr0) (log c) \/ Fin vd
}.

Lemma HPost_refl (Fin : T -> Prop) g c : SInv g c -> HPost Fin g c c [].
Proof.
  intros HS. constructor; auto.
  - constructor.
  - exists []. rewrite app_nil_r. reflexivity.
Qed.

Lemma HPost_trans (Fin : T -> Prop) g c c1 c2 o1 o2 :
  HPost Fin g c c1 o1 -> HPost Fin g c1 c2 o2 -> HPost Fin g c c2 (o1 ++ o2).
Proof.
  intros [S1 O1 (l1 & L1) F1] [S2 O2 (l2 & L2) F2]. constructor.
  - exact S2.
  - unfold sent_of. rewrite flat_map_app. apply Forall_app. split; [| exact O2].
    eapply Forall_impl; [| exact O1]. intros r Hr. eapply ogood_mono; [| exact Hr].
    rewrite L2. apply incl_appl, incl_refl.
  - exists (l1 ++ l2). rewrite L2, L1, app_assoc. reflexivity.
  - intros vd ms tr0 Hin. destruct (F2 vd ms tr0 Hin) as [H | H]; [| right; exact H]. apply F1, H.
Qed.

(* contexts that agree on everything SInv / HPost look at *)
Definition same_s (c c' : ctx T) : Prop :=
  x_cfg c' = x_cfg c /\ log c' = log c /\ crand c' = crand c /\ srand c' = srand c /\ ems c' = ems c /\
  profile c' = profile c /\ skeys c' = skeys c /\ st c' = st c /\ last_flight c' = last_flight c.

Lemma SInv_same g c c' : same_s c c' -> SInv g c -> SInv g c'.
Proof.
  intros (H1 & H2 & H3 & H4 & H5 & H6 & H7 & H8 & H9) [].
  constructor; rewrite ?H1, ?H2, ?H3, ?H4, ?H5, ?H6, ?H7, ?H8, ?H9; auto.
Qed.

Lemma HPost_same (Fin : T -> Prop) g c c' : same_s c c' -> SInv g c -> HPost Fin g c c' [].
Proof.
  intros Hs HS. pose proof Hs as (H1 & H2 & _). constructor.
  - eapply SInv_same; eauto.
  - constructor.
  - exists []. rewrite app_nil_r. exact H2.
  - intros vd ms tr0 Hin. left. rewrite <- H2. exact Hin.
Qed.

(* a handler that only appends non-key, non-Finished events and touches no SInv field but st := Failed *)
Lemma SInv_fail g c why : SInv g c -> SInv g (add_log (EvFailed why) (c <| st := StFailed |>)).
Proof.
  intros []. constructor; cbn; auto.
  - intros k pms tr1 Hin. apply in_app_or in Hin. destruct Hin as [Hin | [Hin | []]]; [eauto | discriminate].
  - intros k p Hk. discriminate.
  - intros rs Hrs. eapply Forall_impl; [| apply (s_flight0 rs Hrs)].
    intros r Hr. eapply ogood_mono; [| exact Hr]. apply incl_appl, incl_refl.
Qed.

Lemma HPost_fail (Fin : T -> Prop) g c why o0 c' o e :
  SInv g c -> fail c why o0 = (c', o, e) -> sent_of o0 = [] -> HPost Fin g c c' o.
Proof.
  intros HS H Ho. unfold fail in H. injection H as <- <- <-. constructor.
  - apply SInv_fail, HS.
  - rewrite Ho. constructor.
  - exists [EvFailed why]. reflexivity.
  - intros vd ms tr0 Hin. cbn in Hin. apply in_app_or in Hin. destruct Hin as [Hin | [Hin | []]]; [left; exact Hin | discriminate].
Qed.

(* generic: append events to the log, keep every SInv field *)
Lemma SInv_log g c (l : list (event T)) c' :
  SInv g c -> same_s c (c' <| log := log c |>) -> log c' = log c ++ l ->
  (forall k pms tr1, In (EvKeys k pms tr1) l -> skeys c = Some k) ->
  SInv g c'.
Proof.
  intros [] (H1 & _ & H3 & H4 & H5 & H6 & H7 & H8 & H9) Hl Hk. cbn in *.
  constructor; rewrite ?H1, ?H3, ?H4, ?H5, ?H6, ?H7, ?H8, ?H9, ?Hl; auto.
  - intros k pms tr1 Hin. apply in_app_or in Hin. destruct Hin as [Hin | Hin]; eauto.
  - intros rs Hrs. eapply Forall_impl; [| apply (s_flight0 rs Hrs)].
    intros r Hr. eapply ogood_mono; [| exact Hr]. apply incl_appl, incl_refl.
Qed.

Ltac same_tac := repeat split; cbn; auto.

(* ------------------------------------------------------------------ handlers *)
Definition mgood (m : hmsg T) : Prop :=
  bgood (h_body m) /\ ht_of_code (h_type m) <> Some HandshakeType_HelloVerifyRequest.
Definition mfin (Fin : T -> Prop) (m : hmsg T) : Prop := forall vd, h_body m = BFinished vd -> Fin vd.

Lemma H_certificate (Fin : T -> Prop) g c m c' o e :
  SInv g c -> handle_certificate C c m = (c', o, e) -> HPost Fin g c c' o.
Proof.
  intros HS H. unfold handle_certificate in H.
  destruct (h_body m) eqn:Hb; try (injection H as <- <- <-; apply HPost_refl, HS).
  - destruct certs as [| leaf rest]; [eapply HPost_fail; eauto |].
    match type of H with (if ?b then _ else _) = _ => destruct b end; [eapply HPost_fail; eauto |].
    destruct (cert_pk C leaf); [| eapply HPost_fail; eauto].
    injection H as <- <- <-. constructor.
    + eapply SInv_log with (l := [EvCert leaf]); [exact HS | same_tac | reflexivity |].
      intros k pms tr1 [Hin | []]; discriminate.
    + constructor.
    + exists [EvCert leaf]. reflexivity.
    + intros vd ms tr0 Hin. cbn in Hin. apply in_app_or in Hin. destruct Hin as [Hin | [Hin | []]]; [left; exact Hin | discriminate].
  - destruct (g_expected (x_cfg c)); eapply HPost_fail; eauto.
Qed.

Lemma whole_sgood (m : hmsg T) :
  bgood (h_body m) -> ht_of_code (h_type m) <> Some HandshakeType_HelloVerifyRequest -> sgood (whole m).
Proof. intros Hb Ht. unfold sgood, whole. cbn. split; [reflexivity |]. split; [exact Ht |]. exists (h_body m). auto. Qed.

Lemma fin_whole (m : hmsg T) vd : fin_in_frags [whole m] vd -> h_body m = BFinished vd.
Proof. intros (f & [<- | []] & Hd). cbn in Hd. congruence. Qed.

Definition plain_msg_ok (m : hmsg T) : Prop :=
  bgood (h_body m) /\ ht_of_code (h_type m) <> Some HandshakeType_HelloVerifyRequest /\
  forall vd, h_body m <> BFinished vd.

Lemma plain_record_good L ep s m : plain_msg_ok m -> ogood L (mkRec ep s None (KHandshake [whole m])).
Proof.
  intros (Hb & Ht & Hf). split.
  - unfold rgood. cbn. constructor; [apply whole_sgood; assumption | constructor].
  - intros vd Hv. unfold fin_of_record in Hv. cbn in Hv. apply fin_whole in Hv. destruct (Hf vd Hv).
Qed.

Lemma plain_records_good L ep s0 (ms : list (hmsg T)) :
  Forall plain_msg_ok ms -> Forall (ogood L) (plain_records ep s0 ms).
Proof.
  unfold plain_records. generalize 0%nat as a.
  induction ms as [| m ms IH]; intros a HF; cbn; [constructor |].
  inversion HF; subst. constructor; [apply plain_record_good; assumption | apply IH; assumption].
Qed.

Lemma sent_of_send (rs : list (record T)) : sent_of (map (@OSend T) rs) = rs.
Proof. unfold sent_of. induction rs as [| r rs IH]; cbn; [reflexivity | rewrite IH; reflexivity]. Qed.

Lemma H_client_hello (Fin : T -> Prop) g c m c' o e :
  SInv g c -> mgood m -> handle_client_hello C c m = (c', o, e) -> HPost Fin g c c' o.
Proof.
  intros HS (Hg & _) H. unfold handle_client_hello in H.
  destruct (is_client c) eqn:Hcl; [injection H as <- <- <-; apply HPost_refl, HS |].
  destruct (srand c) as [r0 |] eqn:Hsr.
  - (* duplicate ClientHello: the last flight again *)
    injection H as <- <- <-. pose proof (HPost_refl Fin g c HS) as [S O L F]. constructor; auto.
    unfold resend. destruct (last_flight c) as [rs |] eqn:Hlf; [| constructor].
    rewrite sent_of_send. apply (s_flight _ _ HS rs Hlf).
  - destruct (h_body m) eqn:Hb; try (injection H as <- <- <-; apply HPost_refl, HS).
    cbn in Hg. destruct Hg as (-> & -> & ->).
    pose proof HS as HS0. destruct HS.
    pose proof (is_server_role _ _ s_cfg0 Hcl) as Hrole.
    destruct (s_sv0 Hrole) as (Hgr & Hcr & Hsrv).
    injection H as <- <- <-.
    assert (Hrecs : Forall (ogood (log c))
              (plain_records (epoch c) (seqno c) (server_flight_msgs C c cr (g_rand (x_cfg c)) (ems c || true) (select_profile CLIENT_SRTP_PROFILES)))).
    { apply plain_records_good. unfold server_flight_msgs.
      repeat constructor; cbn; try discriminate; auto.
      - rewrite s_cfg0. exact Hgr.
      - apply orb_true_r. }
    constructor.
    + constructor; cbn.
      * exact s_cfg0.
      * intros Hr. congruence.
      * intros _. split; [exact Hgr |]. split; [intros r Hr; injection Hr as <-; reflexivity |].
        intros r Hr. injection Hr as <-. rewrite s_cfg0, orb_true_r. auto.
      * intros k Hk. destruct (s_keys0 k Hk) as (H1 & H2 & r & Hr). congruence.
      * exact s_keylog0.
      * intros k p Hk. destruct (s_conn0 k p Hk) as (H1 & H2). destruct (s_keys0 k H1) as (_ & _ & r & Hr). congruence.
      * intros rs Hrs. injection Hrs as <-. exact Hrecs.
    + exact Hrecs.
    + exists []. cbn. rewrite app_nil_r. reflexivity.
    + intros vd ms tr0 Hin. left. exact Hin.
Qed.

Lemma derive_rand g c k pms :
  SInv g c -> derive C c = Some (k, pms) -> k_cr k = cr /\ k_sr k = sr /\ exists r, srand c = Some r.
Proof.
  intros HS Hd. apply derive_spec in Hd. destruct Hd as (pk & cr' & sr' & Hp & Hdh & Hcr & Hsr & ->).
  unfold expand_keys. cbn. destruct HS. destruct (g_role g) eqn:Hr.
  - destruct (s_cl0 eq_refl) as (_ & Hc & Hs). destruct (Hs sr' Hsr) as (-> & _). split; [congruence |]. split; [reflexivity | eauto].
  - destruct (s_sv0 eq_refl) as (_ & Hc & Hs). destruct (Hs sr' Hsr) as (-> & _). split; [apply Hc, Hcr |]. split; [reflexivity | eauto].
Qed.

Lemma ogood_flight_mono (L L' : list (event T)) rs : incl L L' -> Forall (ogood L) rs -> Forall (ogood L') rs.
Proof. intros Hi HF. eapply Forall_impl; [| exact HF]. intros r Hr. eapply ogood_mono; eauto. Qed.

Lemma H_client_key_exchange (Fin : T -> Prop) g c m c' o e :
  SInv g c -> handle_client_key_exchange C c m = (c', o, e) -> HPost Fin g c c' o.
Proof.
  intros HS H. unfold handle_client_key_exchange in H.
  destruct (is_client c) eqn:Hcl; [injection H as <- <- <-; apply HPost_refl, HS |].
  destruct (skeys c) eqn:Hsk; [injection H as <- <- <-; apply HPost_refl, HS |].
  destruct (h_body m); try (injection H as <- <- <-; apply HPost_refl, HS).
  assert (HS1 : SInv g (c <| peer_pub := Some pubkey |>)) by (eapply SInv_same; [| exact HS]; same_tac).
  destruct (derive C (c <| peer_pub := Some pubkey |>)) as [[k pms] |] eqn:Hd.
  - destruct (derive_rand _ _ _ _ HS1 Hd) as (Hkc & Hks & r & Hr). cbn in Hr.
    injection H as <- <- <-. destruct HS. constructor.
    + constructor; cbn; auto.
      * intros k0 Hk0. injection Hk0 as <-. eauto.
      * intros k0 pms0 tr1 Hin. apply in_app_or in Hin. destruct Hin as [Hin | [Hin | []]].
        -- specialize (s_keylog0 _ _ _ Hin). congruence.
        -- injection Hin as -> _ _. reflexivity.
      * intros k0 p Hk0. destruct (s_conn0 k0 p Hk0) as (H1 & _). congruence.
      * intros rs Hrs. eapply ogood_flight_mono; [| apply (s_flight0 rs Hrs)]. apply incl_appl, incl_refl.
    + constructor.
    + eexists. reflexivity.
    + intros vd ms tr0 Hin. cbn in Hin. apply in_app_or in Hin. destruct Hin as [Hin | [Hin | []]]; [left; exact Hin | discriminate].
  - injection H as <- <- <-. apply HPost_same; [same_tac | exact HS].
Qed.

Lemma H_hello_verify_excluded (m : hmsg T) t :
  mgood m -> ht_of_code (h_type m) = Some t -> t <> HandshakeType_HelloVerifyRequest.
Proof. intros (_ & Hn) Ht ->. congruence. Qed.

Lemma H_server_hello (Fin : T -> Prop) g c m c' o e :
  SInv g c -> mgood m -> handle_server_hello c m = (c', o, e) -> HPost Fin g c c' o.
Proof.
  intros HS (Hg & _) H. unfold handle_server_hello in H.
  destruct (is_client c) eqn:Hcl; [| injection H as <- <- <-; apply HPost_refl, HS].
  destruct (h_body m) eqn:Hb; try (injection H as <- <- <-; apply HPost_refl, HS).
  cbn in Hg. destruct Hg as (-> & -> & ->).
  injection H as <- <- <-. pose proof HS as HS0. destruct HS.
  pose proof (is_client_role _ _ s_cfg0 Hcl) as Hrole.
  destruct (s_cl0 Hrole) as (Hgr & Hcr & Hsrv).
  constructor.
  - constructor; cbn.
    + exact s_cfg0.
    + intros _. split; [exact Hgr |]. split; [exact Hcr |].
      intros r Hr. injection Hr as <-. rewrite orb_true_r. auto.
    + intros Hr. congruence.
    + intros k Hk. destruct (s_keys0 k Hk) as (H1 & H2 & _). eauto.
    + exact s_keylog0.
    + intros k p Hk. apply (s_conn0 k p Hk).
    + exact s_flight0.
  - constructor.
  - exists []. cbn. rewrite app_nil_r. reflexivity.
  - intros vd ms tr0 Hin. left. exact Hin.
Qed.

Lemma H_server_key_exchange (Fin : T -> Prop) g c m c' o e :
  SInv g c -> handle_server_key_exchange C c m = (c', o, e) -> HPost Fin g c c' o.
Proof.
  intros HS H. unfold handle_server_key_exchange in H.
  destruct (is_client c) eqn:Hcl; [| injection H as <- <- <-; apply HPost_refl, HS].
  destruct (h_body m); try (injection H as <- <- <-; apply HPost_refl, HS).
  destruct (peer_cert c); [| eapply HPost_fail; eauto].
  destruct (crand c); [| eapply HPost_fail; eauto].
  destruct (srand c); [| eapply HPost_fail; eauto].
  destruct (cert_pk C t); [| eapply HPost_fail; eauto].
  match type of H with (if ?b then _ else _) = _ => destruct b end; [| eapply HPost_fail; eauto].
  injection H as <- <- <-. constructor.
  - eapply SInv_log with (l := [EvSke _ _ _ _ _ _ _]); [exact HS | same_tac | reflexivity |].
    intros k pms tr1 [Hin | []]; discriminate.
  - constructor.
  - eexists. reflexivity.
  - intros vd ms tr0 Hin. cbn in Hin. apply in_app_or in Hin. destruct Hin as [Hin | [Hin | []]]; [left; exact Hin | discriminate].
Qed.

Lemma hs_record_plain (c : ctx T) (m : hmsg T) :
  hs_record C c m None = mkRec (epoch c) (seqno c) None (KHandshake [whole m]).
Proof. unfold hs_record. destruct (0 <? epoch c); reflexivity. Qed.

Definition fin_ok (L : list (event T)) (m : hmsg T) : Prop :=
  forall vd, h_body m = BFinished vd ->
    vd = zero_vd C \/
    exists k pms tr1 lab tr', In (EvKeys k pms tr1) L /\ vd = prf C (k_ms k) lab [hashT C tr'].

Lemma hs_record_good L (c : ctx T) (m : hmsg T) ko :
  bgood (h_body m) -> ht_of_code (h_type m) <> Some HandshakeType_HelloVerifyRequest -> fin_ok L m ->
  ogood L (hs_record C c m ko).
Proof.
  intros Hb Ht Hf. split.
  - unfold rgood, hs_record. cbn. constructor; [apply whole_sgood; assumption | constructor].
  - intros vd Hv. unfold fin_of_record, hs_record in Hv. cbn in Hv. apply fin_whole in Hv. apply Hf, Hv.
Qed.

Lemma ccs_good L (c : ctx T) : ogood L (ccs_record c).
Proof. split; [exact I | intros vd []]. Qed.

Lemma HPost_fail_out (Fin : T -> Prop) g c why o0 c' o e :
  SInv g c -> fail c why o0 = (c', o, e) -> Forall (ogood (log c)) (sent_of o0) -> HPost Fin g c c' o.
Proof.
  intros HS H Ho. unfold fail in H. injection H as <- <- <-. constructor.
  - apply SInv_fail, HS.
  - eapply ogood_flight_mono; [| exact Ho]. cbn. apply incl_appl, incl_refl.
  - exists [EvFailed why]. reflexivity.
  - intros vd ms tr0 Hin. cbn in Hin. apply in_app_or in Hin. destruct Hin as [Hin | [Hin | []]]; [left; exact Hin | discriminate].
Qed.

Lemma H_server_hello_done (Fin : T -> Prop) g c c' o e :
  SInv g c -> handle_server_hello_done C c = (c', o, e) -> HPost Fin g c c' o.
Proof.
  intros HS H. unfold handle_server_hello_done in H.
  destruct (skeys c) eqn:Hsk; [injection H as <- <- <-; apply HPost_refl, HS |].
  destruct (is_client c && negb (ske_ok c)); [eapply HPost_fail; eauto |].
  set (cke := mkH (code HandshakeType_ClientKeyExchange) (mseq c) (BClientKeyExchange (pub C (g_eph (x_cfg c))))) in *.
  match type of H with context [derive C ?c2] => set (cc := c2) in * end.
  assert (Hsame : same_s c cc) by (subst cc; same_tac).
  assert (HS1 : SInv g cc) by (eapply SInv_same; eauto).
  assert (Hcke : forall L, ogood L (hs_record C (c <| tr := tr c ++ [cke] |>) cke None)).
  { intros L. apply hs_record_good; cbn; auto; try discriminate. }
  destruct (derive C cc) as [[k pms] |] eqn:Hd.
  - destruct (derive_rand _ _ _ _ HS1 Hd) as (Hkc & Hks & r & Hr).
    injection H as <- <- <-.
    assert (Hlog : forall x, log (add_log x (cc <| skeys := Some k |>)) = log c ++ [x]) by (intros; reflexivity).
    match goal with |- HPost _ _ _ ?c5 _ => set (cfin := c5) end.
    assert (Hl5 : log cfin = log c ++ [EvKeys k pms (tr cc)]) by reflexivity.
    assert (Hrecs : Forall (ogood (log cfin))
              [hs_record C (c <| tr := tr c ++ [cke] |>) cke None;
               ccs_record (add_log (EvKeys k pms (tr cc)) (cc <| skeys := Some k |>));
               hs_record C (cfin <| seqno := 0 |> <| mseq := mseq cc |>)
                 (mkH (code HandshakeType_Finished) (mseq cc)
                    (BFinished (verify_data C (k_ms k) LClientFin
                       (tr cc)))) (Some k)]).
    { constructor; [apply Hcke |]. constructor; [apply ccs_good |]. constructor; [| constructor].
      apply hs_record_good; cbn; auto; try discriminate.
      intros vd Hv. injection Hv as <-. right. exists k, pms, (tr cc), LClientFin, (tr cc).
      split; [try rewrite Hl5; apply in_or_app; right; left; reflexivity | reflexivity]. }
    destruct HS. constructor.
    + constructor; cbn.
      * exact s_cfg0.
      * exact s_cl0.
      * exact s_sv0.
      * intros k0 Hk0. injection Hk0 as <-. cbn in Hr. eauto.
      * intros k0 pms0 tr1 Hin. apply in_app_or in Hin. destruct Hin as [Hin | [Hin | []]].
        -- specialize (s_keylog0 _ _ _ Hin). congruence.
        -- injection Hin as -> _ _. reflexivity.
      * intros k0 p Hk0. destruct (s_conn0 k0 p Hk0) as (H1 & _). congruence.
      * intros rs Hrs. injection Hrs as <-. exact Hrecs.
    + exact Hrecs.
    + eexists. exact Hl5.
    + intros vd ms tr0 Hin. rewrite Hl5 in Hin. apply in_app_or in Hin. destruct Hin as [Hin | [Hin | []]]; [left; exact Hin | discriminate].
  - injection H as <- <- <-. constructor.
    + exact HS1.
    + constructor; [apply Hcke | constructor].
    + exists []. rewrite app_nil_r. reflexivity.
    + intros vd ms tr0 Hin. left. exact Hin.
Qed.

Lemma profile_sel g c k : SInv g c -> skeys c = Some k -> profile c = SEL.
Proof.
  intros HS Hk. destruct HS. destruct (s_keys0 k Hk) as (_ & _ & r & Hr).
  destruct (g_role g) eqn:Hro.
  - destruct (s_cl0 eq_refl) as (_ & _ & Hs). apply (Hs r Hr).
  - destruct (s_sv0 eq_refl) as (_ & _ & Hs). apply (Hs r Hr).
Qed.

Lemma H_finished (Fin : T -> Prop) g c m c' o e :
  Inv C g c -> SInv g c -> mfin Fin m -> handle_finished C c m = (c', o, e) -> HPost Fin g c c' o.
Proof.
  intros HI HS Hmf H. unfold handle_finished in H.
  destruct (is_client c) eqn:Hcl.
  - destruct (skeys c) as [k |] eqn:Hsk; [| injection H as <- <- <-; apply HPost_refl, HS].
    destruct (vd_matches C (h_body m) (verify_data C (k_ms k) LServerFin (tr c))) eqn:Hv; [| eapply HPost_fail; eauto].
    injection H as <- <- <-.
    apply (vd_matches_spec C eqb_sound) in Hv. destruct Hv as (Hbody & Hbv).
    pose proof (profile_sel g c k HS Hsk) as Hprof. destruct HS. constructor.
    + constructor; cbn.
      * exact s_cfg0.
      * exact s_cl0.
      * exact s_sv0.
      * exact s_keys0.
      * intros k0 pms0 tr1 Hin. rewrite <- app_assoc in Hin. apply in_app_or in Hin.
        destruct Hin as [Hin | [Hin | [Hin | []]]]; [eauto | discriminate | discriminate].
      * intros k0 p Hk0. injection Hk0 as <- <-. auto.
      * intros rs Hrs. eapply ogood_flight_mono; [| apply (s_flight0 rs Hrs)].
        rewrite <- app_assoc. apply incl_appl, incl_refl.
    + constructor.
    + cbn. rewrite <- app_assoc. eexists. reflexivity.
    + intros vd ms tr0 Hin. cbn in Hin. rewrite <- app_assoc in Hin. apply in_app_or in Hin.
      destruct Hin as [Hin | [Hin | [Hin | []]]]; [left; exact Hin | | discriminate].
      injection Hin as <- _ _. right. apply Hmf. rewrite Hbv. exact Hbody.
  - cbn in H.
    destruct (skeys c) as [k |] eqn:Hsk.
    + destruct (vd_matches C (h_body m) (verify_data C (k_ms k) LClientFin (tr c))) eqn:Hv; cbn in H;
        [| eapply HPost_fail; eauto].
      rewrite Hsk in H. cbn in H. injection H as <- <- <-.
      apply (vd_matches_spec C eqb_sound) in Hv. destruct Hv as (Hbody & Hbv).
      pose proof (profile_sel g c k HS Hsk) as Hprof.
      destruct (i_keys C g c HI k Hsk) as (pms & tr1 & Hkin).
      set (L' := (log c ++ [EvFinOk (body_vd C (h_body m)) (k_ms k) (tr c)]) ++ [EvConnected k (profile c)]).
      assert (Hinc : incl (log c) L') by (subst L'; apply incl_appl, incl_appl, incl_refl).
      match goal with |- HPost _ _ _ _ [OSend ?a; OSend ?b] => assert (Hrecs : Forall (ogood L') [a; b]) end.
      { constructor; [apply ccs_good |]. constructor; [| constructor].
        apply hs_record_good; cbn; auto; try discriminate.
        intros vd Hvd. injection Hvd as <-. right. exists k, pms, tr1, LServerFin. eexists.
        split; [apply Hinc, Hkin | reflexivity]. }
      destruct HS. constructor.
      * constructor; cbn.
        -- exact s_cfg0.
        -- exact s_cl0.
        -- exact s_sv0.
        -- exact s_keys0.
        -- intros k0 pms0 tr0 Hin. rewrite <- app_assoc in Hin. apply in_app_or in Hin.
           destruct Hin as [Hin | [Hin | [Hin | []]]]; [eauto | discriminate | discriminate].
        -- intros k0 p Hk0. injection Hk0 as <- <-. auto.
        -- intros rs Hrs. injection Hrs as <-. exact Hrecs.
      * exact Hrecs.
      * cbn. rewrite <- app_assoc. eexists. reflexivity.
      * intros vd ms tr0 Hin. cbn in Hin. rewrite <- app_assoc in Hin. apply in_app_or in Hin.
        destruct Hin as [Hin | [Hin | [Hin | []]]]; [left; exact Hin | | discriminate].
        injection Hin as <- _ _. right. apply Hmf. rewrite Hbv. exact Hbody.
    + rewrite Hsk in H. cbn in H.
      match type of H with fail ?c4 _ [OSend ?a; OSend ?b] = _ =>
        assert (Hrecs : Forall (ogood (log c)) [a; b]);
        [| assert (HS4 : SInv g c4) ] end.
      { constructor; [apply ccs_good |]. constructor; [| constructor].
        apply hs_record_good; cbn; auto; try discriminate.
        intros vd Hvd. injection Hvd as <-. left. reflexivity. }
      { destruct HS. constructor; cbn; auto. intros rs Hrs. injection Hrs as <-. exact Hrecs. }
      pose proof (HPost_fail_out Fin g _ 9 _ c' o e HS4 H Hrecs) as [S O (l & L) F].
      constructor; auto. exists l. exact L.
Qed.

Lemma H_handle_msg (Fin : T -> Prop) g c t m c' o e :
  Inv C g c -> SInv g c -> mgood m -> mfin Fin m -> ht_of_code (h_type m) = Some t ->
  handle_msg C c t m = (c', o, e) -> HPost Fin g c c' o.
Proof.
  intros HI HS Hg Hf Ht H.
  pose proof (H_hello_verify_excluded m t Hg Ht) as Hnv.
  destruct t; cbn in H; try (injection H as <- <- <-; apply HPost_refl, HS).
  - eapply H_client_hello; eauto.
  - eapply H_server_hello; eauto.
  - congruence.
  - eapply H_certificate; eauto.
  - eapply H_server_key_exchange; eauto.
  - eapply H_server_hello_done; eauto.
  - eapply H_client_key_exchange; eauto.
  - eapply H_finished; eauto.
Qed.

Lemma seq_filter_same (c : ctx T) t f c' v : seq_filter c t f = (c', v) -> same_s c c'.
Proof.
  unfold seq_filter. intros H.
  repeat match type of H with (if ?b then _ else _) = _ => destruct b end;
    inversion H; subst; same_tac.
Qed.

Lemma H_process_frags (Fin : T -> Prop) g fs : forall c c' o e,
  Inv C g c -> SInv g c -> Forall sgood fs -> (forall vd, fin_in_frags fs vd -> Fin vd) ->
  process_frags C c fs = (c', o, e) -> HPost Fin g c c' o /\ Inv C g c'.
Proof.
  induction fs as [| f rest IH]; intros c c' o e HI HS HF Hfin H; cbn [process_frags] in H.
  - injection H as <- <- <-. split; [apply HPost_refl, HS | exact HI].
  - inversion HF as [| ? ? Hf HFr]; subst.
    assert (Hfin_rest : forall vd, fin_in_frags rest vd -> Fin vd).
    { intros vd (f0 & Hin & Hd). apply Hfin. exists f0. split; [right; exact Hin | exact Hd]. }
    destruct Hf as (Htl & Hnv & b & Hdata & Hbg).
    destruct (ht_of_code (f_type f)) as [t |] eqn:Ht; [| injection H as <- <- <-; split; [apply HPost_refl, HS | exact HI]].
    destruct (seq_filter c t f) as [c1 v] eqn:Hq.
    pose proof (seq_filter_same _ _ _ _ _ Hq) as Hs1.
    assert (HS1 : SInv g c1) by (eapply SInv_same; eauto).
    assert (HI1 : Inv C g c1) by (eapply Inv_same_core; [eapply seq_filter_core; eauto | exact HI]).
    pose proof (HPost_same Fin g c c1 Hs1 HS) as HP1.
    assert (Hmg : mgood (mkH (f_type f) (f_seq f) b)) by (split; cbn; [exact Hbg | rewrite Ht; congruence]).
    assert (Hmf : mfin Fin (mkH (f_type f) (f_seq f) b)).
    { intros vd Hb. cbn in Hb. apply Hfin. exists f. split; [left; reflexivity | congruence]. }
    assert (Hcb : chunk_body C (f_data f) = b) by (rewrite Hdata; reflexivity).
    assert (Hrest : forall c3 o3, Inv C g c3 -> HPost Fin g c c3 o3 ->
              forall c4 o4 e4, process_frags C c3 rest = (c4, o4, e4) -> HPost Fin g c c4 (o3 ++ o4) /\ Inv C g c4).
    { intros c3 o3 HI3 HP3 c4 o4 e4 Hp. destruct (IH c3 c4 o4 e4 HI3 (hp_sinv _ _ _ _ _ HP3) HFr Hfin_rest Hp) as (HP4 & HI4).
      split; [eapply HPost_trans; eauto | exact HI4]. }
    destruct v.
    + unfold reassemble in H. rewrite Htl, Z.eqb_refl, Hcb in H.
      destruct (accept_msg C c1 t (mkH (f_type f) (f_seq f) b)) as [[c3 o3] e3] eqn:Ha.
      assert (HI3 : Inv C g c3) by (eapply Inv_accept_msg; eauto).
      assert (HP3 : HPost Fin g c c3 o3).
      { unfold accept_msg in Ha.
        match type of Ha with handle_msg C ?c2 _ _ = _ => assert (Hs2 : same_s c1 c2) by (destruct (in_transcript t); same_tac) end.
        match type of Ha with handle_msg C ?c2 _ _ = _ =>
          assert (HI2 : Inv C g c2) by (eapply Inv_same_core; [| exact HI1]; destruct (in_transcript t); repeat split) end.
        replace o3 with ([] ++ o3) by reflexivity. eapply HPost_trans; [exact HP1 |].
        replace o3 with ([] ++ o3) by reflexivity. eapply HPost_trans; [eapply HPost_same; [exact Hs2 | exact HS1] |].
        eapply H_handle_msg; [exact HI2 | eapply SInv_same; eauto | exact Hmg | exact Hmf | exact Ht | exact Ha]. }
      destruct e3; [injection H as <- <- <-; split; [exact HP3 | exact HI3] |].
      destruct (process_frags C c3 rest) as [[c4 o4] e4] eqn:Hp. injection H as <- <- <-.
      eapply Hrest; eauto.
    + replace o with ([] ++ o) by reflexivity. eapply Hrest; eauto.
    + rewrite Hcb in H.
      destruct (handle_msg C c1 t (mkH (f_type f) (f_seq f) b)) as [[c3 o3] e3] eqn:Ha.
      assert (HI3 : Inv C g c3) by (eapply Inv_handle_msg; eauto).
      assert (HP3 : HPost Fin g c c3 o3).
      { replace o3 with ([] ++ o3) by reflexivity. eapply HPost_trans; [exact HP1 |].
        eapply H_handle_msg; [exact HI1 | exact HS1 | exact Hmg | exact Hmf | exact Ht | exact Ha]. }
      destruct e3; [injection H as <- <- <-; split; [exact HP3 | exact HI3] |].
      destruct (process_frags C c3 rest) as [[c4 o4] e4] eqn:Hp. injection H as <- <- <-.
      eapply Hrest; eauto.
    + destruct (process_frags C c1 rest) as [[c4 o4] e4] eqn:Hp. injection H as <- <- <-.
      assert (HPr : HPost Fin g c c1 (resend c1)).
      { replace (resend c1) with ([] ++ resend c1) by reflexivity. eapply HPost_trans; [exact HP1 |].
        pose proof (HPost_refl Fin g c1 HS1) as [S O L F]. constructor; auto.
        unfold resend. destruct (last_flight c1) as [rs |] eqn:Hlf; [| constructor].
        rewrite sent_of_send. apply (s_flight _ _ HS1 rs Hlf). }
      eapply Hrest; eauto.
Qed.

Definition rec_ok (Fin : T -> Prop) (r : record T) : Prop := rgood r /\ forall vd, fin_of_record r vd -> Fin vd.

Lemma H_handle_content (Fin : T -> Prop) g c k c' o s :
  Inv C g c -> SInv g c ->
  (match k with KHandshake fs => Forall sgood fs /\ (forall vd, fin_in_frags fs vd -> Fin vd) | _ => True end) ->
  handle_content C c k = (c', o, s) -> HPost Fin g c c' o.
Proof.
  intros HI HS Hk H. destruct k; cbn in H.
  - destruct (process_frags C c fs) as [[c1 o1] e1] eqn:Hp. injection H as <- <- _.
    destruct Hk as (H1 & H2). apply (H_process_frags Fin g fs c c1 o1 e1 HI HS H1 H2 Hp).
  - injection H as <- <- _. apply HPost_same; [same_tac | exact HS].
  - injection H as <- <- _. constructor.
    + eapply SInv_log with (l := [EvApp d]); [exact HS | same_tac | reflexivity |].
      intros k pms tr1 [Hin | []]; discriminate.
    + constructor.
    + eexists. reflexivity.
    + intros vd ms tr0 Hin. cbn in Hin. apply in_app_or in Hin. destruct Hin as [Hin | [Hin | []]]; [left; exact Hin | discriminate].
  - destruct descr as [z |]; [| injection H as <- <- _; apply HPost_refl, HS].
    destruct z; try (injection H as <- <- _; apply HPost_refl, HS).
    injection H as <- <- _. destruct HS. constructor.
    + constructor; cbn; auto.
      * intros k pms tr1 Hin. apply in_app_or in Hin. destruct Hin as [Hin | [Hin | []]]; [eauto | discriminate].
      * intros k p Hk0. discriminate.
      * intros rs Hrs. eapply ogood_flight_mono; [| apply (s_flight0 rs Hrs)]. apply incl_appl, incl_refl.
    + constructor.
    + eexists. reflexivity.
    + intros vd ms tr0 Hin. cbn in Hin. apply in_app_or in Hin. destruct Hin as [Hin | [Hin | []]]; [left; exact Hin | discriminate].
  - injection H as <- <- _. apply HPost_refl, HS.
Qed.

Lemma rec_ok_content (Fin : T -> Prop) r :
  rec_ok Fin r ->
  match r_content r with KHandshake fs => Forall sgood fs /\ (forall vd, fin_in_frags fs vd -> Fin vd) | _ => True end.
Proof. intros (H1 & H2). unfold rgood, fin_of_record in *. destruct (r_content r); auto. Qed.

Lemma H_handle_record (Fin : T -> Prop) g c r c' o s :
  Inv C g c -> SInv g c -> rec_ok Fin r -> handle_record C c r = (c', o, s) -> HPost Fin g c c' o.
Proof.
  intros HI HS Hr H. unfold handle_record in H. pose proof (rec_ok_content Fin r Hr) as Hk.
  match type of H with (if ?b then _ else _) = _ => destruct b end; [injection H as <- <- _; apply HPost_refl, HS |].
  destruct (r_epoch r =? 0).
  - destruct (r_seal r); [injection H as <- <- _; apply HPost_refl, HS | eapply H_handle_content; eauto].
  - destruct (skeys c) as [k |]; [| injection H as <- <- _; apply HPost_refl, HS].
    destruct (r_seal r) as [kv |]; [| injection H as <- <- _; apply HPost_refl, HS].
    destruct (pair_eqb C kv (read_keys C c k)); [eapply H_handle_content; eauto | injection H as <- <- _; apply HPost_refl, HS].
Qed.

Definition wire_ok (Fin : T -> Prop) (w : wire T) : Prop := match w with WRec r => rec_ok Fin r | WJunk => True end.

Lemma H_handle_datagram (Fin : T -> Prop) g d : forall c c' o e,
  Inv C g c -> SInv g c -> Forall (wire_ok Fin) d -> handle_datagram C c d = (c', o, e) -> HPost Fin g c c' o.
Proof.
  induction d as [| w rest IH]; intros c c' o e HI HS HF H; cbn in H.
  - injection H as <- <- _. apply HPost_refl, HS.
  - inversion HF as [| ? ? Hw HFr]; subst.
    destruct w as [r |]; [| injection H as <- <- _; apply HPost_refl, HS].
    destruct (handle_record C c r) as [[c1 o1] s] eqn:Hr.
    pose proof (H_handle_record Fin g c r c1 o1 s HI HS Hw Hr) as HP1.
    assert (HI1 : Inv C g c1) by (eapply Inv_handle_record; eauto).
    destruct s.
    + destruct (handle_datagram C c1 rest) as [[c2 o2] e2] eqn:Hd. injection H as <- <- _.
      eapply HPost_trans; [exact HP1 |]. eapply IH; eauto. apply (hp_sinv _ _ _ _ _ HP1).
    + injection H as <- <- _. exact HP1.
    + injection H as <- <- _. exact HP1.
Qed.

Definition input_ok (Fin : T -> Prop) (i : input T) : Prop :=
  match i with InDatagram d => Forall (wire_ok Fin) d | _ => True end.

Lemma H_step (Fin : T -> Prop) g c i c' o :
  Inv C g c -> SInv g c -> input_ok Fin i -> step C c i = (c', o) -> HPost Fin g c c' o.
Proof.
  intros HI HS Hi H. unfold step in H.
  destruct (negb (alive c)); [injection H as <- <-; apply HPost_refl, HS |].
  destruct i.
  - destruct (handle_datagram C c d) as [[c1 o1] e1] eqn:Hd.
    pose proof (H_handle_datagram Fin g d c c1 o1 e1 HI HS Hi Hd) as HP1.
    injection H as <- <-. destruct (e1 && is_failed c1); [| exact HP1].
    replace o1 with (o1 ++ []) by apply app_nil_r. eapply HPost_trans; [exact HP1 |].
    apply HPost_same; [same_tac | apply (hp_sinv _ _ _ _ _ HP1)].
  - injection H as <- <-. pose proof (HPost_refl Fin g c HS) as [S O L F]. constructor; auto.
    destruct (is_handshaking c); [| constructor].
    unfold resend. destruct (last_flight c) as [rs |] eqn:Hlf; [| constructor].
    rewrite sent_of_send. apply (s_flight _ _ HS rs Hlf).
  - destruct (is_handshaking c); [| injection H as <- <-; apply HPost_refl, HS].
    injection H as <- <-.
    assert (HS2 : SInv g (c <| alive := false |>)) by (eapply SInv_same; [| exact HS]; same_tac).
    assert (Hsame : same_s c (c <| alive := false |>)) by same_tac.
    pose proof (HPost_fail Fin g (c <| alive := false |>) 11 [] _ [] true HS2 eq_refl eq_refl) as [S O (l & L) F].
    constructor; auto. exists l. exact L.
Qed.

(* ------------------------------------------------------------------ the pair *)
Variables gc gs : cfg T.
Hypothesis role_c : g_role gc = Client.
Hypothesis role_s : g_role gs = Server.
Hypothesis rand_c : g_rand gc = cr.
Hypothesis rand_s : g_rand gs = sr.

Definition FinS (p : hpair T) (vd : T) : Prop := exists r, In r (h_sout p) /\ fin_of_record r vd.

Record PInv (p : hpair T) : Prop := mkPInv {
  p_ic : Inv C gc (h_c p);
  p_is : Inv C gs (h_s p);
  p_sc : SInv gc (h_c p);
  p_ss : SInv gs (h_s p);
  p_co : Forall (ogood (log (h_c p))) (h_cout p);
  p_so : Forall (ogood (log (h_s p))) (h_sout p);
  p_fc : forall vd ms tr0, In (EvFinOk vd ms tr0) (log (h_c p)) -> FinS p vd
}.

Lemma log_incl (c c' : ctx T) : (exists l, log c' = log c ++ l) -> incl (log c) (log c').
Proof. intros (l & ->). apply incl_appl, incl_refl. Qed.

Lemma PInv_start : PInv (hstart C gc gs).
Proof.
  unfold hstart.
  pose proof (Inv_start C gc) as Hic. pose proof (Inv_start C gs) as His.
  unfold start in *. rewrite role_c, role_s in *. cbn in *.
  assert (Hch : forall L, ogood L (hs_record C (init gc)
             (mkH (code HandshakeType_ClientHello) 0 (BClientHello (g_rand gc) (nil_bytes C) CLIENT_OFFERS_EMS CLIENT_SRTP_PROFILES)) None)).
  { intros L. apply hs_record_good; cbn; auto; try discriminate. }
  constructor; cbn.
  - exact Hic.
  - exact His.
  - constructor; cbn.
    + reflexivity.
    + intros _. split; [exact rand_c |]. split; [congruence | intros; discriminate].
    + intros Hr. congruence.
    + intros k Hk. discriminate.
    + intros k pms tr1 [].
    + intros k p Hk. discriminate.
    + intros rs Hrs. injection Hrs as <-. constructor; [apply Hch | constructor].
  - constructor; cbn.
    + reflexivity.
    + intros Hr. congruence.
    + intros _. split; [exact rand_s |]. split; intros; discriminate.
    + intros k Hk. discriminate.
    + intros k pms tr1 [].
    + intros k p Hk. discriminate.
    + intros rs Hrs. discriminate.
  - constructor; [apply Hch | constructor].
  - constructor.
  - intros vd ms tr0 [].
Qed.

Lemma sout_wire_ok (p : hpair T) r : PInv p -> In r (h_sout p) -> wire_ok (FinS p) (WRec r).
Proof.
  intros HP Hin. cbn. split.
  - pose proof (p_so p HP) as HF. rewrite Forall_forall in HF. apply (HF r Hin).
  - intros vd Hv. exists r. auto.
Qed.

Lemma cout_wire_ok (p : hpair T) r : PInv p -> In r (h_cout p) -> wire_ok (fun _ => True) (WRec r).
Proof.
  intros HP Hin. cbn. split; [| auto].
  pose proof (p_co p HP) as HF. rewrite Forall_forall in HF. apply (HF r Hin).
Qed.

Lemma PInv_feed_client (p : hpair T) i :
  PInv p -> input_ok (FinS p) i -> PInv (hfeed C p Client i).
Proof.
  intros HP Hi. unfold hfeed. destruct (step C (h_c p) i) as [c' o] eqn:Hs.
  pose proof (H_step (FinS p) gc _ _ _ _ (p_ic p HP) (p_sc p HP) Hi Hs) as [S O L F].
  destruct HP. constructor; cbn; auto.
  - eapply Inv_step; eauto.
  - apply Forall_app. split; [| exact O]. eapply ogood_flight_mono; [apply log_incl, L | exact p_co0].
  - intros vd ms tr0 Hin. destruct (F vd ms tr0 Hin) as [H | H]; [apply (p_fc0 vd ms tr0 H) | exact H].
Qed.

Lemma PInv_feed_server (p : hpair T) i :
  PInv p -> input_ok (fun _ => True) i -> PInv (hfeed C p Server i).
Proof.
  intros HP Hi. unfold hfeed. destruct (step C (h_s p) i) as [s' o] eqn:Hs.
  pose proof (H_step (fun _ => True) gs _ _ _ _ (p_is p HP) (p_ss p HP) Hi Hs) as [S O L F].
  destruct HP. constructor; cbn; auto.
  - eapply Inv_step; eauto.
  - apply Forall_app. split; [| exact O]. eapply ogood_flight_mono; [apply log_incl, L | exact p_so0].
  - intros vd ms tr0 Hin. destruct (p_fc0 vd ms tr0 Hin) as (r & Hr & Hv). exists r. split; [apply in_or_app; left; exact Hr | exact Hv].
Qed.

Lemma PInv_step (p : hpair T) e : PInv p -> PInv (hstep C p e).
Proof.
  intros HP. destruct e as [to k | a | a]; cbn [hstep].
  - destruct to.
    + destruct (nth_error (h_sout p) k) as [r |] eqn:Hn; [| exact HP].
      apply PInv_feed_client; [exact HP |]. cbn [input_ok]. constructor; [| constructor].
      apply (sout_wire_ok p); [exact HP | eapply nth_error_In; eauto].
    + destruct (nth_error (h_cout p) k) as [r |] eqn:Hn; [| exact HP].
      apply PInv_feed_server; [exact HP |]. cbn [input_ok]. constructor; [| constructor].
      apply (cout_wire_ok p); [exact HP | eapply nth_error_In; eauto].
  - destruct a; [apply PInv_feed_client | apply PInv_feed_server]; auto; exact I.
  - destruct a; [apply PInv_feed_client | apply PInv_feed_server]; auto; exact I.
Qed.

Lemma PInv_run es : forall p, PInv p -> PInv (hrun C p es).
Proof. induction es as [| e rest IH]; intros p HP; cbn; [exact HP | apply IH, PInv_step, HP]. Qed.

(* ------------------------------------------------------------------ agreement *)
Hypothesis prf_inj : forall s l d s' l' d', prf C s l d = prf C s' l' d' -> s = s'.
Hypothesis prf_nonzero : forall s l d, prf C s l d <> zero_vd C.

Lemma keys_eq (k1 k2 : keys T) :
  k_ms k1 = k_ms k2 -> k_cr k1 = k_cr k2 -> k_sr k1 = k_sr k2 -> k_block k1 = k_block k2 -> k1 = k2.
Proof. destruct k1, k2. cbn. intros -> -> -> ->. reflexivity. Qed.

Theorem agreement_inv (p : hpair T) kc pc ks ps :
  PInv p -> st (h_c p) = StConnected kc pc -> st (h_s p) = StConnected ks ps ->
  kc = ks /\ pc = ps.
Proof.
  intros HP Hc Hs. destruct HP.
  destruct (s_conn _ _ p_sc0 kc pc Hc) as (Hkc & ->).
  destruct (s_conn _ _ p_ss0 ks ps Hs) as (Hks & ->).
  split; [| reflexivity].
  destruct (s_keys _ _ p_sc0 kc Hkc) as (Hc1 & Hc2 & _).
  destruct (s_keys _ _ p_ss0 ks Hks) as (Hs1 & Hs2 & _).
  (* key blocks *)
  destruct (i_keys _ _ _ p_ic0 kc Hkc) as (pmc & trc & Hkinc).
  destruct (i_keys _ _ _ p_is0 ks Hks) as (pms & trs & Hkins).
  pose proof (i_log _ _ _ p_ic0 _ Hkinc) as Hevc. cbn in Hevc. destruct Hevc as (_ & Hbc & _).
  pose proof (i_log _ _ _ p_is0 _ Hkins) as Hevs. cbn in Hevs. destruct Hevs as (_ & Hbs & _).
  (* master secrets through the Finished the client accepted *)
  pose proof (i_log _ _ _ p_ic0 _ (i_conn _ _ _ p_ic0 kc _ Hc)) as Hconn. cbn in Hconn.
  destruct Hconn as ((vd & tr0 & Hfin) & _).
  pose proof (i_log _ _ _ p_ic0 _ Hfin) as Hf. cbn in Hf. destruct Hf as (Hvd & _).
  destruct (p_fc0 vd _ _ Hfin) as (r & Hr & Hv).
  rewrite Forall_forall in p_so0. destruct (p_so0 r Hr) as (_ & HFL).
  assert (Hms : k_ms kc = k_ms ks).
  { destruct (HFL vd Hv) as [Hz | (k & pm & t1 & lab & t' & Hin & He)].
    - exfalso. rewrite Hvd in Hz. exact (prf_nonzero _ _ _ Hz).
    - pose proof (s_keylog _ _ p_ss0 _ _ _ Hin) as Hk. assert (k = ks) by congruence. subst k.
      rewrite Hvd in He. apply prf_inj in He. exact He. }
  apply keys_eq; congruence.
Qed.

End PairProofs.

(* ------------------------------------------------------------------ closed statements *)
Section Agreement.
Context {T : Type} (C : crypto T).

Theorem agreement
  (eqb_sound : forall a b, t_eqb C a b = true -> a = b)
  (prf_inj : forall s l d s' l' d', prf C s l d = prf C s' l' d' -> s = s')
  (prf_nonzero : forall s l d, prf C s l d <> zero_vd C)
  (gc gs : cfg T) (es : list (hevent)) kc pc ks ps :
  g_role gc = Client -> g_role gs = Server ->
  let p := hrun C (hstart C gc gs) es in
  st (h_c p) = StConnected kc pc -> st (h_s p) = StConnected ks ps ->
  kc = ks /\ pc = ps /\
  (forall l, export_keying_material C (h_c p) l = export_keying_material C (h_s p) l) /\
  client_write C kc = client_write C ks /\ server_write C kc = server_write C ks.
Proof.
  intros Hrc Hrs p Hc Hs.
  assert (HP : PInv C (g_rand gc) (g_rand gs) gc gs p).
  { subst p. apply PInv_run; auto. apply PInv_start; auto. }
  destruct (agreement_inv C (g_rand gc) (g_rand gs) gc gs prf_inj prf_nonzero p kc pc ks ps HP Hc Hs) as (-> & ->).
  repeat split; auto.
  intros l. unfold export_keying_material. rewrite Hc, Hs. reflexivity.
Qed.

Theorem no_split_brain
  (eqb_sound : forall a b, t_eqb C a b = true -> a = b)
  (prf_inj : forall s l d s' l' d', prf C s l d = prf C s' l' d' -> s = s')
  (prf_nonzero : forall s l d, prf C s l d <> zero_vd C)
  (gc gs : cfg T) (es : list (hevent)) kc pc ks ps :
  g_role gc = Client -> g_role gs = Server ->
  let p := hrun C (hstart C gc gs) es in
  ~ (st (h_c p) = StConnected kc pc /\ st (h_s p) = StConnected ks ps /\ (kc <> ks \/ pc <> ps)).
Proof.
  intros Hrc Hrs p (Hc & Hs & Hne).
  destruct (agreement eqb_sound prf_inj prf_nonzero gc gs es kc pc ks ps Hrc Hrs Hc Hs) as (H1 & H2 & _).
  destruct Hne as [Hne | Hne]; congruence.
Qed.

(* application data sealed by one Connected end opens at the other *)
Theorem app_data_readable
  (eqb_sound : forall a b, t_eqb C a b = true -> a = b)
  (eqb_refl : forall a, t_eqb C a a = true)
  (prf_inj : forall s l d s' l' d', prf C s l d = prf C s' l' d' -> s = s')
  (prf_nonzero : forall s l d, prf C s l d <> zero_vd C)
  (gc gs : cfg T) (es : list (hevent)) kc pc ks ps :
  g_role gc = Client -> g_role gs = Server ->
  let p := hrun C (hstart C gc gs) es in
  st (h_c p) = StConnected kc pc -> st (h_s p) = StConnected ks ps ->
  (forall n d r, send_app C (h_c p) n d = Some r ->
     handle_record C (h_s p) r = (add_log (EvApp d) (h_s p), [OUp d], RNext)) /\
  (forall n d r, send_app C (h_s p) n d = Some r ->
     handle_record C (h_c p) r = (add_log (EvApp d) (h_c p), [OUp d], RNext)).
Proof.
  intros Hrc Hrs p Hc Hs.
  assert (HP : PInv C (g_rand gc) (g_rand gs) gc gs p).
  { subst p. apply PInv_run; auto. apply PInv_start; auto. }
  destruct (agreement_inv C (g_rand gc) (g_rand gs) gc gs prf_inj prf_nonzero p kc pc ks ps HP Hc Hs) as (<- & <-).
  destruct HP.
  destruct (s_conn _ _ _ _ _ p_sc0 kc pc Hc) as (Hkc & _).
  destruct (s_conn _ _ _ _ _ p_ss0 kc pc Hs) as (Hks & _).
  assert (Hcl : is_client (h_c p) = true) by (unfold is_client; rewrite (i_cfg _ _ _ p_ic0), Hrc; reflexivity).
  assert (Hsv : is_client (h_s p) = false) by (unfold is_client; rewrite (i_cfg _ _ _ p_is0), Hrs; reflexivity).
  split; intros n d r Hsend; unfold send_app in Hsend; rewrite ?Hc, ?Hs in Hsend; injection Hsend as <-;
    unfold handle_record; cbn; rewrite ?Hkc, ?Hks; unfold write_keys, read_keys, pair_eqb; rewrite Hcl, Hsv; cbn;
    rewrite !eqb_refl; reflexivity.
Qed.

End Agreement.
