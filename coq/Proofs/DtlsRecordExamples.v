(* C03 -- non-vacuity: with a toy AEAD (identity "encryption", 16-byte checksum tag over key, nonce, AAD and
   plaintext) the send model's datagrams are accepted by the receive model of the peer, while plaintext
   epoch-0, tampered, truncated and wrongly-keyed records are not. Concrete evaluation only. *)
From Coq Require Import ZArith List Bool Lia.
From RV Require Import Lib.Wrap Gen.Consts Gen.DtlsRec Model.DtlsRecord.
Import ListNotations.
Open Scope Z_scope.

Definition toy_sum (l : list Z) : Z := fold_left (fun a b => (a * 31 + b + 7) mod 1000003) l 0.
Definition toy_tag (k n a p : list Z) : list Z :=
  be 16 (toy_sum (k ++ [256] ++ n ++ [256] ++ a ++ [256] ++ p)).
Definition toy_seal (k n a p : list Z) : list Z := p ++ toy_tag k n a p.
Fixpoint list_eqb (a b : list Z) : bool :=
  match a, b with
  | [], [] => true
  | x :: a', y :: b' => (x =? y) && list_eqb a' b'
  | _, _ => false
  end.
Definition toy_open (k n a c : list Z) : option (list Z) :=
  let m := (length c - 16)%nat in
  let p := firstn m c in
  if (16 <=? length c)%nat && list_eqb (skipn m c) (toy_tag k n a p) then Some p else None.

Definition toy_keys : keys := mkKeys [11; 12; 13] [21; 22; 23] [1; 2; 3; 4] [5; 6; 7; 8].
Definition no_hs (c : bool) (h : unit) (s : cstate) (p : list Z) : unit * cstate * option keys * bool := (h, s, None, false).
Definition toy_rx (s : cstate) : rx unit := mkRx s (Some toy_keys) 1 tt true.
Definition toy_recv (is_client : bool) (s : cstate) (d : list Z) : cstate * list (list Z) :=
  let '(st, out) := recv_datagram toy_open unit no_hs is_client (toy_rx s) d in (rx_state st, out).

(* client -> server: the genuine datagram is delivered *)
Definition hello : list Z := [104; 101; 108; 108; 111].
Definition genuine : list Z := tx_record toy_seal (wkey true toy_keys) (wiv true toy_keys) 1 5 hello.
Example genuine_accepted : toy_recv false Connected genuine = (Connected, [hello]).
Proof. vm_compute. reflexivity. Qed.
(* ... but not by a receiver using the other direction's key (wrong key) *)
Example wrong_key_rejected : toy_recv true Connected genuine = (Connected, []).
Proof. vm_compute. reflexivity. Qed.
(* flipping one bit of the header sequence number, of the explicit nonce, of the body or of the tag *)
Definition flip (i : nat) (l : list Z) : list Z := firstn i l ++ [Z.lxor (nth i l 0) 1] ++ skipn (S i) l.
Example tampered_rejected :
  map (fun i => toy_recv false Connected (flip i genuine)) [1; 4; 10; 12; 20; 22; 30]%nat
  = repeat (Connected, []) 7.
Proof. vm_compute. reflexivity. Qed.
Example truncated_rejected : toy_recv false Connected (removelast genuine) = (Connected, []).
Proof. vm_compute. reflexivity. Qed.
(* plaintext epoch-0 ApplicationData and close_notify after the handshake: discarded *)
Example plaintext_app_rejected :
  toy_recv false Connected (rec_encode 23 254 253 0 9 hello) = (Connected, []).
Proof. vm_compute. reflexivity. Qed.
Example plaintext_close_rejected :
  toy_recv false Connected (rec_encode 21 254 253 0 9 [1; 0]) = (Connected, []).
Proof. vm_compute. reflexivity. Qed.
(* a genuine close_notify (close path of the peer) closes *)
Example genuine_close_accepted :
  toy_recv false Connected (alert_record toy_seal (wkey true toy_keys) (wiv true toy_keys) 1 6) = (Closed, []).
Proof. vm_compute. reflexivity. Qed.
(* two records in one datagram; a forged one in front stops the datagram (break), behind it does not matter *)
Example coalesced :
  toy_recv false Connected (genuine ++ rec_encode 23 254 253 0 9 hello ++ genuine) = (Connected, [hello; hello]) /\
  toy_recv false Connected (flip 30 genuine ++ genuine) = (Connected, []).
Proof. vm_compute. split; reflexivity. Qed.
