(* C03 -- library lemmas for Model/DtlsRecord.v: big-endian encoding, (epoch << 48) | seq, slice::chunks. *)
From Coq Require Import ZArith List Bool Lia.
From RV Require Import Lib.Wrap Gen.Consts Gen.DtlsRec Model.DtlsRecord.
Import ListNotations.
Open Scope Z_scope.

Lemma zlen_nonneg {A} (l : list A) : 0 <= zlen l.
Proof. unfold zlen. lia. Qed.
Lemma zlen_app {A} (a b : list A) : zlen (a ++ b) = zlen a + zlen b.
Proof. unfold zlen. rewrite app_length. lia. Qed.
Lemma zlen_nil {A} : zlen (@nil A) = 0.
Proof. reflexivity. Qed.
Lemma zlen_cons {A} (x : A) l : zlen (x :: l) = 1 + zlen l.
Proof. unfold zlen. cbn [length]. lia. Qed.

(* ---------------------------------------------------------------- be / of_be *)
Lemma be_length k x : length (be k x) = k.
Proof.
  revert x. induction k as [|k IH]; intros x; cbn [be]; [reflexivity|].
  rewrite app_length, IH. cbn [length]. lia.
Qed.

Lemma of_be_snoc l b : of_be (l ++ [b]) = of_be l * 256 + b.
Proof. unfold of_be. rewrite fold_left_app. reflexivity. Qed.

Lemma of_be_be k x : of_be (be k x) = x mod 256 ^ Z.of_nat k.
Proof.
  revert x. induction k as [|k IH]; intros x.
  - cbn [be]. unfold of_be. cbn [fold_left]. change (256 ^ Z.of_nat 0) with 1. rewrite Z.mod_1_r. reflexivity.
  - cbn [be]. rewrite of_be_snoc, IH.
    replace (Z.of_nat (S k)) with (Z.succ (Z.of_nat k)) by lia.
    rewrite Z.pow_succ_r by lia.
    assert (Hp : 0 < 256 ^ Z.of_nat k) by (apply Z.pow_pos_nonneg; lia).
    rewrite (Z.rem_mul_r x 256 (256 ^ Z.of_nat k)) by lia. lia.
Qed.

Lemma be_inj k x y : 0 <= x < 256 ^ Z.of_nat k -> 0 <= y < 256 ^ Z.of_nat k -> be k x = be k y -> x = y.
Proof.
  intros Hx Hy E. apply (f_equal of_be) in E. rewrite !of_be_be in E.
  rewrite !Z.mod_small in E by lia. exact E.
Qed.

Lemma be_bytes k x : Forall (fun b => 0 <= b < 256) (be k x).
Proof.
  revert x. induction k as [|k IH]; intros x; cbn [be]; [constructor|].
  apply Forall_app. split; [apply IH|]. constructor; [|constructor].
  apply Z.mod_pos_bound. lia.
Qed.

(* ---------------------------------------------------------------- full_seq *)
Lemma land_shiftl_small e s n : 0 <= n -> 0 <= s < 2 ^ n -> Z.land (Z.shiftl e n) s = 0.
Proof.
  intros Hn Hs. apply Z.bits_inj'. intros k Hk. rewrite Z.land_spec, Z.bits_0.
  destruct (Z.lt_ge_cases k n) as [Hlt|Hge].
  - rewrite Z.shiftl_spec_low by lia. reflexivity.
  - assert (Hb : Z.testbit s k = false).
    { destruct (Z.eq_dec s 0) as [->|Hnz]; [apply Z.bits_0|].
      apply Z.bits_above_log2; [lia|].
      assert (Z.log2 s < n) by (apply Z.log2_lt_pow2; lia). lia. }
    rewrite Hb. apply andb_false_r.
Qed.

Lemma full_seq_add bits e s : 0 <= bits -> 0 <= s < 2 ^ bits -> full_seq bits e s = e * 2 ^ bits + s.
Proof.
  intros Hb Hs. unfold full_seq.
  rewrite <- Z.lxor_lor by (apply land_shiftl_small; assumption).
  rewrite <- Z.add_nocarry_lxor by (apply land_shiftl_small; assumption).
  rewrite Z.shiftl_mul_pow2 by lia. reflexivity.
Qed.

Lemma full_seq_range e s : 0 <= e < 2 ^ 16 -> 0 <= s < 2 ^ 48 -> 0 <= full_seq 48 e s < 2 ^ 64.
Proof. intros He Hs. rewrite full_seq_add by lia. lia. Qed.

Lemma full_seq_inj e1 s1 e2 s2 :
  0 <= s1 < 2 ^ 48 -> 0 <= s2 < 2 ^ 48 -> full_seq 48 e1 s1 = full_seq 48 e2 s2 -> e1 = e2 /\ s1 = s2.
Proof. intros H1 H2. rewrite !full_seq_add by lia. lia. Qed.

(* the GCM nonce iv ++ be64 ((epoch << 48) | seq) determines (epoch, seq) *)
Lemma nonce_inj iv e1 s1 e2 s2 :
  0 <= e1 < 2 ^ 16 -> 0 <= e2 < 2 ^ 16 -> 0 <= s1 < 2 ^ 48 -> 0 <= s2 < 2 ^ 48 ->
  nonce_of iv (full_seq 48 e1 s1) = nonce_of iv (full_seq 48 e2 s2) -> e1 = e2 /\ s1 = s2.
Proof.
  intros He1 He2 Hs1 Hs2 E. unfold nonce_of in E. apply app_inv_head in E.
  apply be_inj in E.
  - apply full_seq_inj; assumption.
  - change (256 ^ Z.of_nat 8) with (2 ^ 64). apply full_seq_range; assumption.
  - change (256 ^ Z.of_nat 8) with (2 ^ 64). apply full_seq_range; assumption.
Qed.

(* ---------------------------------------------------------------- chunks *)
Lemma chunks_fuel_enough n : (0 < n)%nat -> forall fuel l, (length l <= fuel)%nat ->
  chunks_fuel fuel n l = chunks n l.
Proof.
  intros Hn. unfold chunks.
  assert (G : forall f1 f2 l, (length l <= f1)%nat -> (length l <= f2)%nat -> chunks_fuel f1 n l = chunks_fuel f2 n l).
  { induction f1 as [|f1 IH]; intros f2 l H1 H2.
    - destruct l; [|cbn in H1; lia]. destruct f2; reflexivity.
    - destruct l as [|x l]; [destruct f2; reflexivity|].
      destruct f2 as [|f2]; [cbn in H2; lia|].
      cbn [chunks_fuel]. f_equal. apply IH.
      + rewrite skipn_length. cbn [length] in *. lia.
      + rewrite skipn_length. cbn [length] in *. lia. }
  intros fuel l Hl. apply G; [exact Hl|lia].
Qed.

Lemma chunks_nil n : chunks n [] = [].
Proof. reflexivity. Qed.

Lemma chunks_cons n x l : (0 < n)%nat ->
  chunks n (x :: l) = firstn n (x :: l) :: chunks n (skipn n (x :: l)).
Proof.
  intros Hn. unfold chunks at 1. cbn [length chunks_fuel]. f_equal.
  apply chunks_fuel_enough; [exact Hn|]. rewrite skipn_length. cbn [length]. lia.
Qed.

(* induction principle: l -> skipn n l strictly shrinks *)
Lemma chunks_ind (n : nat) (P : list Z -> Prop) : (0 < n)%nat ->
  P [] -> (forall x l, P (skipn n (x :: l)) -> P (x :: l)) -> forall l, P l.
Proof.
  intros Hn H0 Hs l.
  assert (G : forall k l, (length l <= k)%nat -> P l).
  { induction k as [|k IH]; intros l' Hl.
    - destruct l'; [exact H0|cbn in Hl; lia].
    - destruct l' as [|x l']; [exact H0|]. apply Hs. apply IH.
      rewrite skipn_length. cbn [length] in *. lia. }
  apply (G (length l)). lia.
Qed.

Lemma chunks_concat n l : (0 < n)%nat -> concat (chunks n l) = l.
Proof.
  intros Hn. revert l. apply (chunks_ind n); [exact Hn|reflexivity|]. intros x l IH.
  rewrite chunks_cons by exact Hn. cbn [concat]. rewrite IH. apply firstn_skipn.
Qed.

Lemma chunks_sizes n l : (0 < n)%nat -> Forall (fun c => (0 < length c <= n)%nat) (chunks n l).
Proof.
  intros Hn. revert l. apply (chunks_ind n); [exact Hn|constructor|]. intros x l IH.
  rewrite chunks_cons by exact Hn. constructor; [|exact IH].
  rewrite firstn_length. cbn [length]. lia.
Qed.

Lemma chunks_count n l : (0 < n)%nat ->
  zlen (chunks n l) = (zlen l + Z.of_nat n - 1) / Z.of_nat n.
Proof.
  intros Hn. revert l. apply (chunks_ind n); [exact Hn| |]; [|intros x l IH].
  - rewrite chunks_nil. unfold zlen. cbn [length Z.of_nat]. symmetry. apply Z.div_small. lia.
  - rewrite chunks_cons by exact Hn. rewrite zlen_cons, IH.
    unfold zlen. rewrite skipn_length.
    set (L := length (x :: l)). assert (HL : (0 < L)%nat) by (subst L; cbn [length]; lia).
    destruct (Nat.le_gt_cases n L) as [Hge|Hlt].
    + replace (Z.of_nat (L - n)) with (Z.of_nat L - Z.of_nat n) by lia.
      replace (Z.of_nat L + Z.of_nat n - 1) with ((Z.of_nat L - Z.of_nat n + Z.of_nat n - 1) + 1 * Z.of_nat n) by lia.
      rewrite Z.div_add by lia. lia.
    + replace (L - n)%nat with 0%nat by lia. cbn [Z.of_nat].
      rewrite (Z.div_small (0 + Z.of_nat n - 1)) by lia.
      symmetry. replace (Z.of_nat L + Z.of_nat n - 1) with ((Z.of_nat L - 1) + 1 * Z.of_nat n) by lia.
      rewrite Z.div_add by lia. rewrite Z.div_small by lia. lia.
Qed.

(* chunk boundaries depend on the length only *)
Lemma chunks_same_shape n : (0 < n)%nat -> forall l1 l2, length l1 = length l2 ->
  Forall2 (fun a b => length a = length b) (chunks n l1) (chunks n l2).
Proof.
  intros Hn. apply (chunks_ind n (fun l1 => forall l2, length l1 = length l2 ->
    Forall2 (fun a b => length a = length b) (chunks n l1) (chunks n l2))); [exact Hn| |]; [|intros x l1 IH]; intros l2 E.
  - destruct l2; [constructor|discriminate].
  - destruct l2 as [|y l2]; [discriminate|].
    rewrite !chunks_cons by exact Hn. constructor.
    + rewrite !firstn_length. rewrite E. reflexivity.
    + apply IH. rewrite !skipn_length. rewrite E. reflexivity.
Qed.
